import IceModel.Lemmas.ErrFlowCheck
/-
  Error flow, part 1 (syntax): structured programs, the flattening that the translator performs
  (`facts/errflow.go`), a parser for the flat event lists, the round trip, and the structured form
  of the checker `Bridge.ErrFlow.unchecked`.
-/
namespace Ice.ErrFlow
open Ice.Bridge.ErrFlow

/-- error-flow skeleton of a function body.
    `call c`  : `F:c`, a call whose error result is bound (or returned directly)
    `drop c`  : `D:c`, a call whose error result is discarded
    `ret b`   : `R:err` (`b = true`) / `R:nil` (`b = false`)
    `jump`    : `B`, break / continue / goto
    `block g body` : `{ … }`; `g = true` is `{:err`, the body of `if <error variable> != nil` -/
inductive Stmt where
  | call (callee : String)
  | drop (callee : String)
  | ret (isErr : Bool)
  | jump
  | block (errGuard : Bool) (body : List Stmt)
  deriving Repr

abbrev Prog := List Stmt

def openEv (g : Bool) : Ev := ("{", if g then "err" else "")
def retEv (b : Bool) : Ev := ("R", if b then "err" else "nil")
def closeEv : Ev := ("}", "")

mutual
/-- the events the translator emits for one statement -/
def flatS : Stmt → List Ev
  | .call c => [("F", c)]
  | .drop c => [("D", c)]
  | .ret b => [retEv b]
  | .jump => [("B", "")]
  | .block g body => openEv g :: (flat body ++ [closeEv])
/-- the flat event list of a program -/
def flat : List Stmt → List Ev
  | [] => []
  | s :: rest => flatS s ++ flat rest
end

@[simp] theorem flat_nil : flat [] = [] := by simp [flat]
@[simp] theorem flat_cons (s : Stmt) (rest : Prog) : flat (s :: rest) = flatS s ++ flat rest := by
  simp [flat]

theorem flat_append (p q : Prog) : flat (p ++ q) = flat p ++ flat q := by
  induction p with
  | nil => simp
  | cons s p ih => simp [ih]

/-! ### parser -/

/-- classification of one event -/
inductive Tok where
  | stmt (s : Stmt)
  | opn (g : Bool)
  | cls
  | bad

def tok (e : Ev) : Tok :=
  if e.1 = "F" then .stmt (.call e.2)
  else if e.1 = "D" then .stmt (.drop e.2)
  else if e.1 = "R" then
    (if e.2 = "err" then .stmt (.ret true) else if e.2 = "nil" then .stmt (.ret false) else .bad)
  else if e.1 = "B" then (if e.2 = "" then .stmt .jump else .bad)
  else if e.1 = "{" then (if e.2 = "err" then .opn true else if e.2 = "" then .opn false else .bad)
  else if e.1 = "}" then (if e.2 = "" then .cls else .bad)
  else .bad

/-- `cur` : the statements of the innermost open block read so far (reversed);
    `stk` : the enclosing open blocks (their guard, and the statements read before them, reversed) -/
def parseAux : List Ev → List Stmt → List (Bool × List Stmt) → Option (List Stmt)
  | [], cur, [] => some cur.reverse
  | [], _, _ :: _ => none
  | e :: rest, cur, stk =>
    match tok e with
    | .stmt s => parseAux rest (s :: cur) stk
    | .opn g => parseAux rest [] ((g, cur) :: stk)
    | .cls =>
      match stk with
      | [] => none
      | (g, outer) :: stk' => parseAux rest (.block g cur.reverse :: outer) stk'
    | .bad => none

/-- the structured program of a flat event list (`none`: unbalanced braces or an unknown event) -/
def parse (l : List Ev) : Option Prog := parseAux l [] []

/-- what the parser has consumed when it is in state `(cur, stk)` -/
def consumed : List Stmt → List (Bool × List Stmt) → List Ev
  | cur, [] => flat cur.reverse
  | cur, (g, outer) :: stk => consumed outer stk ++ openEv g :: flat cur.reverse

theorem tok_stmt {e : Ev} {s : Stmt} (h : tok e = .stmt s) : flatS s = [e] := by
  obtain ⟨k, n⟩ := e
  simp only [tok] at h
  split at h
  · cases h; simp_all [flatS]
  split at h
  · cases h; simp_all [flatS]
  split at h
  · split at h
    · cases h; simp_all [flatS, retEv]
    split at h
    · cases h; simp_all [flatS, retEv]
    · cases h
  split at h
  · split at h
    · cases h; simp_all [flatS]
    · cases h
  split at h
  · split at h
    · cases h
    split at h <;> cases h
  split at h
  · split at h <;> cases h
  · cases h

theorem tok_opn {e : Ev} {g : Bool} (h : tok e = .opn g) : e = openEv g := by
  obtain ⟨k, n⟩ := e
  simp only [tok] at h
  split at h
  · cases h
  split at h
  · cases h
  split at h
  · split at h
    · cases h
    split at h <;> cases h
  split at h
  · split at h <;> cases h
  split at h
  · split at h
    · cases h; simp_all [openEv]
    split at h
    · cases h; simp_all [openEv]
    · cases h
  split at h
  · split at h <;> cases h
  · cases h

theorem tok_cls {e : Ev} (h : tok e = .cls) : e = closeEv := by
  obtain ⟨k, n⟩ := e
  simp only [tok] at h
  split at h
  · cases h
  split at h
  · cases h
  split at h
  · split at h
    · cases h
    split at h <;> cases h
  split at h
  · split at h <;> cases h
  split at h
  · split at h
    · cases h
    split at h <;> cases h
  split at h
  · split at h
    · simp_all [closeEv]
    · cases h
  · cases h

theorem parseAux_flat : ∀ (l : List Ev) (cur : List Stmt) (stk : List (Bool × List Stmt)) (p : Prog),
    parseAux l cur stk = some p → flat p = consumed cur stk ++ l
  | [], cur, [], p, h => by
    simp only [parseAux, Option.some.injEq] at h
    subst h; simp [consumed]
  | [], _, _ :: _, p, h => by simp [parseAux] at h
  | e :: rest, cur, stk, p, h => by
    simp only [parseAux] at h
    split at h
    · rename_i s hs
      have := parseAux_flat rest (s :: cur) stk p h
      rw [this]
      have he := tok_stmt hs
      cases stk with
      | nil => simp [consumed, flat_append, he]
      | cons fr stk => obtain ⟨g, outer⟩ := fr; simp [consumed, flat_append, he]
    · rename_i g hg
      have := parseAux_flat rest [] ((g, cur) :: stk) p h
      rw [this, tok_opn hg]
      cases stk with
      | nil => simp [consumed]
      | cons fr stk => obtain ⟨g', outer⟩ := fr; simp [consumed]
    · rename_i hc
      split at h
      · cases h
      · rename_i g outer stk'
        have := parseAux_flat rest (.block g cur.reverse :: outer) stk' p h
        rw [this, tok_cls hc]
        cases stk' with
        | nil => simp [consumed, flat_append, flatS]
        | cons fr stk => obtain ⟨g', outer'⟩ := fr; simp [consumed, flat_append, flatS]
    · cases h

/-- the parser inverts the translator's flattening -/
theorem parse_flat {l : List Ev} {p : Prog} (h : parse l = some p) : flat p = l := by
  have := parseAux_flat l [] [] p h
  simpa [consumed] using this

@[simp] theorem tok_call (c : String) : tok ("F", c) = .stmt (.call c) := by simp [tok]
@[simp] theorem tok_drop (c : String) : tok ("D", c) = .stmt (.drop c) := by simp [tok]
@[simp] theorem tok_ret (b : Bool) : tok (retEv b) = .stmt (.ret b) := by
  cases b <;> simp [tok, retEv]
@[simp] theorem tok_jump : tok ("B", "") = .stmt .jump := by simp [tok]
@[simp] theorem tok_open (g : Bool) : tok (openEv g) = .opn g := by
  cases g <;> simp [tok, openEv]
@[simp] theorem tok_close : tok closeEv = .cls := by simp [tok, closeEv]

mutual
theorem parseAux_flatS : ∀ (s : Stmt) (tail : List Ev) (cur : List Stmt) (stk : List (Bool × List Stmt)),
    parseAux (flatS s ++ tail) cur stk = parseAux tail (s :: cur) stk
  | .call c, tail, cur, stk => by simp [flatS, parseAux]
  | .drop c, tail, cur, stk => by simp [flatS, parseAux]
  | .ret b, tail, cur, stk => by simp [flatS, parseAux]
  | .jump, tail, cur, stk => by simp [flatS, parseAux]
  | .block g body, tail, cur, stk => by
    have := parseAux_flatL body (closeEv :: tail) [] ((g, cur) :: stk)
    simp only [flatS, List.cons_append, List.append_assoc, List.nil_append, parseAux, tok_open]
    rw [this]
    simp [parseAux]
theorem parseAux_flatL : ∀ (p : List Stmt) (tail : List Ev) (cur : List Stmt) (stk : List (Bool × List Stmt)),
    parseAux (flat p ++ tail) cur stk = parseAux tail (p.reverse ++ cur) stk
  | [], tail, cur, stk => by simp
  | s :: rest, tail, cur, stk => by
    have h1 := parseAux_flatS s (flat rest ++ tail) cur stk
    have h2 := parseAux_flatL rest tail (s :: cur) stk
    simp only [flat_cons, List.append_assoc]
    rw [h1, h2]
    simp
end

/-- the parser is complete: every program is recovered from its flat form -/
theorem parse_flat_eq (p : Prog) : parse (flat p) = some p := by
  have := parseAux_flatL p [] [] []
  simp only [List.append_nil] at this
  simp [parse, this, parseAux]

/-- `flat` is injective (the flat list determines the structure) -/
theorem flat_injective {p q : Prog} (h : flat p = flat q) : p = q := by
  have h1 := parse_flat_eq p
  rw [h, parse_flat_eq q] at h1
  exact (Option.some.inj h1).symm

/-! ### the checker on the structured form -/

/-- the statements after a call are its check: `R err`, `{:err R err }` or `{:err F R err }` -/
def checkedNext : List Stmt → Bool
  | .ret true :: _ => true
  | .block true [.ret true] :: _ => true
  | .block true [.call _, .ret true] :: _ => true
  | _ => false

mutual
def uncheckedStmt : Stmt → List String
  | .block _ body => uncheckedS body
  | _ => []
/-- structured form of `Bridge.ErrFlow.unchecked` -/
def uncheckedS : List Stmt → List String
  | [] => []
  | s :: rest =>
    (match s with
      | .call c => if checkedNext rest then [] else [c]
      | _ => []) ++ uncheckedStmt s ++ uncheckedS rest
end

/-- the flat checker's test -/
def isCheckF : List Ev → Bool
  | ("R", "err") :: _ => true
  | ("{", "err") :: ("R", "err") :: ("}", _) :: _ => true
  | ("{", "err") :: ("F", _) :: ("R", "err") :: ("}", _) :: _ => true
  | _ => false

theorem unchecked_cons (e : Ev) (rest : List Ev) :
    unchecked (e :: rest) =
      if e.1 = "F" then (if isCheckF rest then unchecked rest else e.2 :: unchecked rest)
      else unchecked rest := by
  rw [unchecked.eq_def]
  simp only
  by_cases h : e.1 = "F"
  · simp only [h, if_true]
    unfold isCheckF
    split
    · simp
    · simp
    · simp
    · rename_i h1 h2 h3
      split
      · exact absurd rfl (h1 _)
      · exact absurd rfl (h2 _ _)
      · exact absurd rfl (h3 _ _ _)
      · simp
  · simp [h]

/-- what may follow the flat form of a statement list: nothing, or the `}` of the enclosing block -/
def TailOK (tail : List Ev) : Prop := ∀ e ∈ tail.head?, e.1 = "}"

theorem tailOK_nil : TailOK [] := by simp [TailOK]
theorem tailOK_close (t : List Ev) : TailOK (closeEv :: t) := by simp [TailOK, closeEv]

theorem isCheckF_tail {tail : List Ev} (ht : TailOK tail) : isCheckF tail = false := by
  unfold isCheckF
  split <;> simp_all [TailOK]

/-- the first event of a statement is never a closing brace, an `R err` only for `ret true`, … -/
theorem flatS_ne_nil (s : Stmt) : ∃ e l, flatS s = e :: l ∧ e.1 ≠ "}" ∧ (e = ("R", "err") → s = .ret true) := by
  cases s with
  | call c => exact ⟨("F", c), [], by simp [flatS], by simp, by simp⟩
  | drop c => exact ⟨("D", c), [], by simp [flatS], by simp, by simp⟩
  | ret b => exact ⟨retEv b, [], by simp [flatS], by simp [retEv], by cases b <;> simp [retEv]⟩
  | jump => exact ⟨("B", ""), [], by simp [flatS], by simp, by simp⟩
  | block g body => exact ⟨openEv g, flat body ++ [closeEv], by simp [flatS], by simp [openEv], by simp [openEv]⟩

theorem isCheckF_flat (rest : List Stmt) (tail : List Ev) (ht : TailOK tail) :
    isCheckF (flat rest ++ tail) = checkedNext rest := by
  match rest with
  | [] => simpa [checkedNext] using isCheckF_tail ht
  | .call c :: _ => simp [flatS, isCheckF, checkedNext]
  | .drop c :: _ => simp [flatS, isCheckF, checkedNext]
  | .jump :: _ => simp [flatS, isCheckF, checkedNext]
  | .ret true :: _ => simp [flatS, retEv, isCheckF, checkedNext]
  | .ret false :: _ => simp [flatS, retEv, isCheckF, checkedNext]
  | .block false _ :: _ => simp [flatS, openEv, isCheckF, checkedNext]
  | .block true [] :: _ => simp [flatS, openEv, closeEv, isCheckF, checkedNext]
  | .block true (.drop _ :: _) :: _ => simp [flatS, openEv, closeEv, isCheckF, checkedNext]
  | .block true (.jump :: _) :: _ => simp [flatS, openEv, closeEv, isCheckF, checkedNext]
  | .block true (.block _ _ :: _) :: _ => simp [flatS, openEv, closeEv, isCheckF, checkedNext]
  | .block true (.ret false :: _) :: _ => simp [flatS, openEv, retEv, closeEv, isCheckF, checkedNext]
  | .block true [.ret true] :: _ => simp [flatS, openEv, retEv, closeEv, isCheckF, checkedNext]
  | .block true (.ret true :: s :: _) :: _ =>
    obtain ⟨e, l, he, hne, _⟩ := flatS_ne_nil s
    obtain ⟨k, n⟩ := e
    simp [flatS, openEv, retEv, closeEv, isCheckF, checkedNext, he]
    split <;> simp_all
  | .block true [.call _] :: _ => simp [flatS, openEv, closeEv, isCheckF, checkedNext]
  | .block true (.call _ :: .call _ :: _) :: _ => simp [flatS, openEv, closeEv, isCheckF, checkedNext]
  | .block true (.call _ :: .drop _ :: _) :: _ => simp [flatS, openEv, closeEv, isCheckF, checkedNext]
  | .block true (.call _ :: .jump :: _) :: _ => simp [flatS, openEv, closeEv, isCheckF, checkedNext]
  | .block true (.call _ :: .block _ _ :: _) :: _ => simp [flatS, openEv, closeEv, isCheckF, checkedNext]
  | .block true (.call _ :: .ret false :: _) :: _ => simp [flatS, openEv, retEv, closeEv, isCheckF, checkedNext]
  | .block true [.call _, .ret true] :: _ => simp [flatS, openEv, retEv, closeEv, isCheckF, checkedNext]
  | .block true (.call _ :: .ret true :: s :: _) :: _ =>
    obtain ⟨e, l, he, hne, _⟩ := flatS_ne_nil s
    obtain ⟨k, n⟩ := e
    simp [flatS, openEv, retEv, closeEv, isCheckF, checkedNext, he]
    split <;> simp_all

mutual
theorem unchecked_flatS : ∀ (s : Stmt) (X : List Ev),
    unchecked (flatS s ++ X) =
      (match s with
        | .call c => if isCheckF X then [] else [c]
        | _ => []) ++ uncheckedStmt s ++ unchecked X
  | .call c, X => by
    simp only [flatS, List.cons_append, List.nil_append, unchecked_cons, if_true, uncheckedStmt]
    split <;> simp
  | .drop c, X => by simp [flatS, unchecked_cons, uncheckedStmt]
  | .ret b, X => by simp [flatS, unchecked_cons, uncheckedStmt, retEv]
  | .jump, X => by simp [flatS, unchecked_cons, uncheckedStmt]
  | .block g body, X => by
    have := unchecked_flatL body (closeEv :: X) (tailOK_close X)
    simp only [flatS, List.cons_append, List.append_assoc, List.nil_append, unchecked_cons, uncheckedStmt]
    simp only [closeEv] at this ⊢
    rw [this]
    simp [openEv, unchecked_cons]
theorem unchecked_flatL : ∀ (p : List Stmt) (tail : List Ev), TailOK tail →
    unchecked (flat p ++ tail) = uncheckedS p ++ unchecked tail
  | [], tail, _ => by simp [uncheckedS]
  | s :: rest, tail, ht => by
    have h1 := unchecked_flatS s (flat rest ++ tail)
    have h2 := unchecked_flatL rest tail ht
    have h3 := isCheckF_flat rest tail ht
    rw [flat_cons, List.append_assoc, h1, h2, h3]
    cases s <;> simp [uncheckedS]
end

/-- the flat checker of the bridge and the structured checker agree -/
theorem unchecked_flat (p : Prog) : unchecked (flat p) = uncheckedS p := by
  have := unchecked_flatL p [] tailOK_nil
  simpa [unchecked] using this

/-- … in particular on every parsed event list -/
theorem unchecked_parse {l : List Ev} {p : Prog} (h : parse l = some p) :
    unchecked l = uncheckedS p := by
  rw [← parse_flat h, unchecked_flat]

end Ice.ErrFlow
