import IceModel.Lemmas.CacheFaultIter
/-
  (b) run-level statements for the iterator cache, and the key invariant (any oracle):
  "guard false ⇒ both sub-readers hold chunk `currChunk`".
-/
namespace Ice.Model.CacheFault

namespace PIter

theorem run_length (ver : IVersion) (st : IStore) (o : Oracle) (as : List IAcc) :
    ∀ clk it, (PIter.run ver st o clk it as).length = as.length := by
  induction as with
  | nil => intro _ _; rfl
  | cons a as ih => intro clk it; simp [run, ih]

theorem run_dead (st : IStore) (o : Oracle) (f m : Nat) (ho : ∀ k, f ≤ k → o k = true) (as : List IAcc)
    (hm : ∀ a ∈ as, m ≤ a.chunk) :
    ∀ clk it, Dead f m clk it → PIter.run ifixed st o clk it as = as.map (fun _ => .error) := by
  induction as with
  | nil => intro _ _ _; rfl
  | cons a as ih =>
    intro clk it hd
    obtain ⟨clk', hc, he⟩ := access_dead st o f m clk it a ho hd (hm a (by simp))
    simp only [run, he, List.map_cons]
    rw [ih (fun b hb => hm b (by simp [hb])) clk' it]
    exact ⟨by have := hd.1; omega, hd.2⟩

theorem forall2_error_run {α : Type} (l : List (Outcome α)) :
    Pointwise SameOrError (l.map (fun _ => (Outcome.error : Outcome α))) l := by
  induction l with
  | nil => exact .nil
  | cons x l ih => exact .cons (Or.inr rfl) ih

theorem forall2_error_of_length {α β : Type} (as : List β) (l : List (Outcome α)) (h : l.length = as.length) :
    Pointwise SameOrError (as.map (fun _ => (Outcome.error : Outcome α))) l := by
  have : as.map (fun _ => (Outcome.error : Outcome α)) = l.map (fun _ => .error) := by
    apply List.ext_getElem <;> simp [h]
  rw [this]; exact forall2_error_run l

/-- with freq/norm not wanted the cache is never touched -/
theorem run_noFreq (ver : IVersion) (st : IStore) (o : Oracle) (as : List IAcc) :
    ∀ clk it, it.incFreq = false → PIter.run ver st o clk it as = as.map (fun _ => .ok none) := by
  induction as with
  | nil => intro _ _ _; rfl
  | cons a as ih =>
    intro clk it h
    simp only [run, access, h, Bool.not_false, if_true, List.map_cons]
    rw [ih clk it h]

/-- RUN under `failFrom`, freq/norm wanted: pointwise the healthy outcome or an error -/
theorem run_failFrom (st : IStore) (f : Nat) (as : List IAcc) (hmono : Monotone as) :
    ∀ clk it, it.incFreq = true → it.freq.encoded = true → (∀ a ∈ as, it.currChunk ≤ a.chunk) →
    Pointwise SameOrError (PIter.run ifixed st (failFrom f) clk it as)
      (PIter.run ifixed st healthy clk it as) := by
  induction as with
  | nil => intro _ _ _ _ _; exact .nil
  | cons a as ih =>
    intro clk it hF hE hle
    have g : Good a.chunk it := ⟨hF, hE, hle a (by simp)⟩
    have hmono' : Monotone as := (List.pairwise_cons.mp hmono).2
    have hale : ∀ b ∈ as, a.chunk ≤ b.chunk := (List.pairwise_cons.mp hmono).1
    rcases access_failFrom st f clk it a g with h | ⟨h1, h2⟩
    · simp only [run]
      rw [h]
      have g' := access_good st healthy clk it a g
      rcases hh : it.access ifixed st healthy clk a with ⟨it', clk', out⟩
      rw [hh] at g'
      refine .cons (Or.inl rfl) (ih hmono' clk' it' g'.incFreq g'.enc ?_)
      intro b hb
      exact Nat.le_trans g'.le (hale b hb)
    · simp only [run]
      rcases hf : it.access ifixed st (failFrom f) clk a with ⟨it', clk', out⟩
      rw [hf] at h1 h2
      simp only at h1 h2
      subst h1
      refine .cons (Or.inr rfl) ?_
      rw [run_dead st (failFrom f) f a.chunk (fun k hk => failFrom_ge hk) as hale clk' it' h2]
      exact forall2_error_of_length as _ (run_length _ _ _ _ _ _)

/-! ### the key invariant, any oracle -/

/-- decoder `d` holds chunk `n` of stream `st` (a not-encoded stream has nothing to hold: its
    reader only has to exist) -/
def DHolds {α : Type} (st : Store α) (d : Dec α) (n : Nat) : Prop :=
  if d.encoded then ∃ c pos, st n = some c ∧ d.bytes = some c ∧ d.rdr = some (c, pos)
  else d.rdr ≠ none

/-- guard false (for the chunk the key names) ⇒ both sub-readers hold that chunk -/
def CacheInv (st : IStore) (it : PIter) : Prop :=
  it.freq.isNil = false →
    DHolds st.f it.freq it.currChunk ∧ (it.incLocs = true → DHolds st.l it.loc it.currChunk)

theorem DHolds_of_load {α : Type} (st : Store α) (o : Oracle) (clk : Nat) (d : Dec α) (n : Nat)
    (h : (d.loadChunk st o clk n).2.2 = true) : DHolds st (d.loadChunk st o clk n).1 n := by
  unfold DHolds
  rw [Dec.loadChunk_encoded]
  by_cases he : d.encoded = true
  · simp only [he, if_true]
    obtain ⟨c, h1, h2, h3⟩ := Dec.loadChunk_ok_encoded st o clk d n he h
    exact ⟨c, 0, h1, h2, h3⟩
  · have he' : d.encoded = false := by simpa using he
    simp [he', Dec.loadChunk_not_encoded st o clk d n he']

theorem DHolds_read {α : Type} (st : Store α) (d : Dec α) (n : Nat) (h : DHolds st d n) :
    DHolds st d.read.1 n := by
  unfold DHolds at h ⊢
  obtain ⟨hb, he⟩ := Dec.read_bytes d
  rw [he]
  split
  · rename_i henc
    simp only [henc, if_true] at h
    obtain ⟨c, pos, h1, h2, h3⟩ := h
    obtain ⟨pos', h4⟩ := Dec.read_rdr d c pos h3
    exact ⟨c, pos', h1, hb.trans h2, h4⟩
  · rename_i henc
    simp only [henc] at h
    exact Dec.read_rdr_ne_none d h

theorem loadChunk_inv (st : IStore) (o : Oracle) (clk : Nat) (it : PIter) (n : Nat)
    (hF : it.incFreq = true) (hE : it.freq.encoded = true) (hI : CacheInv st it) :
    CacheInv st (it.loadChunk ifixed st o clk n).1 := by
  unfold loadChunk
  simp only [ifixed, Bool.false_eq_true, if_false, hF, if_true]
  have a1 := Dec.loadChunk_fail_unchanged st.f o clk it.freq n
  have d1 := DHolds_of_load st.f o clk it.freq n
  rcases hh : it.freq.loadChunk st.f o clk n with ⟨f', clk', ok⟩
  rw [hh] at a1 d1
  cases ok
  · simp only at a1
    have : f' = it.freq := a1 trivial
    subst this
    cases it; simp only at hF; subst hF; simpa using hI
  · simp only [Bool.not_true, Bool.false_eq_true, if_false]
    have d1' := d1 rfl
    by_cases hL : it.incLocs = true
    · simp only [hL, if_true]
      have d2 := DHolds_of_load st.l o clk' it.loc n
      rcases hh2 : it.loc.loadChunk st.l o clk' n with ⟨l', clk'', ok2⟩
      rw [hh2] at d2
      cases ok2
      · simp [CacheInv, Dec.isNil]
      · intro _
        exact ⟨d1', fun _ => d2 rfl⟩
    · simp only [hL]
      intro _
      exact ⟨d1', fun h => by simp at h⟩

theorem readEntry_inv (st : IStore) (it : PIter) (hI : CacheInv st it) : CacheInv st it.readEntry.1 := by
  intro hn
  obtain ⟨h1, h2, h3, h4, h5, h6, h7⟩ := readEntry_frame it
  have hn' : it.freq.isNil = false := by
    simpa [Dec.isNil, h5] using hn
  obtain ⟨hf, hl⟩ := hI hn'
  rw [h1]
  -- what readEntry does to the two decoders: each is read zero or one time
  have key : (it.readEntry.1.freq = it.freq ∨ it.readEntry.1.freq = it.freq.read.1) ∧
             (it.readEntry.1.loc = it.loc ∨ it.readEntry.1.loc = it.loc.read.1) := by
    unfold readEntry
    rcases hr : it.freq.read with ⟨f', r⟩
    cases r with
    | panic => simp
    | error => simp
    | ok e =>
      simp only
      split
      · rcases hr2 : it.loc.read with ⟨l', r2⟩
        cases r2 <;> simp
      · simp
  refine ⟨?_, fun hL => ?_⟩
  · rcases key.1 with k | k <;> rw [k]
    · exact hf
    · exact DHolds_read _ _ _ hf
  · have hl' := hl (h3 ▸ hL)
    rcases key.2 with k | k <;> rw [k]
    · exact hl'
    · exact DHolds_read _ _ _ hl'

theorem ensure_inv (st : IStore) (o : Oracle) (clk : Nat) (it : PIter) (n : Nat)
    (hF : it.incFreq = true) (hE : it.freq.encoded = true) (hI : CacheInv st it) :
    CacheInv st (it.ensure ifixed st o clk n).1 := by
  unfold ensure
  split
  · exact loadChunk_inv st o clk it n hF hE hI
  · exact hI

theorem skips_inv (st : IStore) (o : Oracle) (n k : Nat) : ∀ (clk : Nat) (it : PIter),
    it.incFreq = true → it.freq.encoded = true → CacheInv st it →
    CacheInv st (PIter.skips ifixed st o n k clk it).1 := by
  induction k with
  | zero => intro clk it _ _ h; simpa [skips] using h
  | succ k ih =>
    intro clk it hF hE hI
    unfold skips
    have i1 := ensure_inv st o clk it n hF hE hI
    have f1 := loadChunk_frame st o clk it n
    have e1 : (it.ensure ifixed st o clk n).1.incFreq = true ∧ (it.ensure ifixed st o clk n).1.freq.encoded = true := by
      unfold ensure; split
      · simp only at f1; exact ⟨f1.1.trans hF, f1.2.2.1.trans hE⟩
      · exact ⟨hF, hE⟩
    rcases he : it.ensure ifixed st o clk n with ⟨it1, clk1, ok⟩
    rw [he] at i1 e1
    cases ok
    · simpa using i1
    · simp only [Bool.not_true, Bool.false_eq_true, if_false]
      have i2 := readEntry_inv st it1 i1
      have f2 := readEntry_frame it1
      rcases hr : it1.readEntry with ⟨it2, r⟩
      rw [hr] at i2 f2
      cases r with
      | ok _ => exact ih clk1 it2 (f2.2.1.trans e1.1) (f2.2.2.2.1.trans e1.2) i2
      | error => simpa using i2
      | panic => simpa using i2

theorem skips_frame (st : IStore) (o : Oracle) (n k : Nat) : ∀ (clk : Nat) (it : PIter),
    (PIter.skips ifixed st o n k clk it).1.incFreq = it.incFreq ∧
    (PIter.skips ifixed st o n k clk it).1.freq.encoded = it.freq.encoded := by
  induction k with
  | zero => intro clk it; simp [skips]
  | succ k ih =>
    intro clk it
    unfold skips
    have f1 := loadChunk_frame st o clk it n
    have e1 : (it.ensure ifixed st o clk n).1.incFreq = it.incFreq ∧
        (it.ensure ifixed st o clk n).1.freq.encoded = it.freq.encoded := by
      unfold ensure; split
      · simp only at f1; exact ⟨f1.1, f1.2.2.1⟩
      · exact ⟨rfl, rfl⟩
    rcases he : it.ensure ifixed st o clk n with ⟨it1, clk1, ok⟩
    rw [he] at e1
    cases ok
    · simpa using e1
    · simp only [Bool.not_true, Bool.false_eq_true, if_false]
      have f2 := readEntry_frame it1
      rcases hr : it1.readEntry with ⟨it2, r⟩
      rw [hr] at f2
      cases r with
      | ok _ => exact ⟨(ih clk1 it2).1.trans (f2.2.1.trans e1.1), (ih clk1 it2).2.trans (f2.2.2.2.1.trans e1.2)⟩
      | error => exact ⟨f2.2.1.trans e1.1, f2.2.2.2.1.trans e1.2⟩
      | panic => exact ⟨f2.2.1.trans e1.1, f2.2.2.2.1.trans e1.2⟩

/-- ONE ACCESS keeps the key invariant and the never-changing facts, whatever the storage does -/
theorem access_inv (st : IStore) (o : Oracle) (clk : Nat) (it : PIter) (a : IAcc)
    (hE : it.freq.encoded = true) (hI : CacheInv st it) :
    CacheInv st (it.access ifixed st o clk a).1 ∧
    (it.access ifixed st o clk a).1.incFreq = it.incFreq ∧
    (it.access ifixed st o clk a).1.freq.encoded = true := by
  unfold access
  by_cases hF : it.incFreq = true
  · simp only [hF, Bool.not_true, Bool.false_eq_true, if_false]
    have i1 := skips_inv st o a.chunk a.skip clk it hF hE hI
    have f1 := skips_frame st o a.chunk a.skip clk it
    rcases hs : PIter.skips ifixed st o a.chunk a.skip clk it with ⟨it1, clk1, r⟩
    rw [hs] at i1 f1
    simp only at i1 f1
    have hF1 := f1.1.trans hF
    have hE1 := f1.2.trans hE
    cases r with
    | error => exact ⟨i1, hF1, hE1⟩
    | panic => exact ⟨i1, hF1, hE1⟩
    | ok u =>
      simp only
      have i2 := ensure_inv st o clk1 it1 a.chunk hF1 hE1 i1
      have f2 := loadChunk_frame st o clk1 it1 a.chunk
      have e2 : (it1.ensure ifixed st o clk1 a.chunk).1.incFreq = true ∧
          (it1.ensure ifixed st o clk1 a.chunk).1.freq.encoded = true := by
        unfold ensure; split
        · simp only at f2; exact ⟨f2.1.trans hF1, f2.2.2.1.trans hE1⟩
        · exact ⟨hF1, hE1⟩
      rcases he : it1.ensure ifixed st o clk1 a.chunk with ⟨it2, clk2, ok⟩
      rw [he] at i2 e2
      cases ok
      · exact ⟨i2, e2.1, e2.2⟩
      · simp only [Bool.not_true, Bool.false_eq_true, if_false]
        have i3 := readEntry_inv st it2 i2
        have f3 := readEntry_frame it2
        rcases hr : it2.readEntry with ⟨it3, r⟩
        rw [hr] at i3 f3
        cases r <;> exact ⟨i3, f3.2.1.trans e2.1, f3.2.2.2.1.trans e2.2⟩
  · have hF' : it.incFreq = false := by simpa using hF
    simp [hF', hI, hE]

theorem exec_inv (st : IStore) (o : Oracle) (as : List IAcc) : ∀ clk it,
    it.freq.encoded = true → CacheInv st it → CacheInv st (PIter.exec ifixed st o clk it as).1 := by
  induction as with
  | nil => intro _ _ _ h; exact h
  | cons a as ih =>
    intro clk it hE hI
    have h := access_inv st o clk it a hE hI
    simp only [exec]
    rcases ha : it.access ifixed st o clk a with ⟨it', clk', out⟩
    rw [ha] at h
    exact ih clk' it' h.2.2 h.1

theorem Fresh.cacheInv (st : IStore) {it : PIter} (h : it.Fresh) : CacheInv st it := by
  intro hn; rw [h.2.1] at hn; cases hn

/-- with the invariant, a false guard means that neither reader is a nil pointer: the panic of the
    first incident is impossible -/
theorem CacheInv.readers (st : IStore) {it : PIter} (hI : CacheInv st it) (hE : it.freq.encoded = true)
    (n : Nat) (hg : it.guard n = false) :
    it.currChunk = n ∧ (∃ c pos, st.f n = some c ∧ it.freq.rdr = some (c, pos)) ∧
    (it.incLocs = true → it.loc.rdr ≠ none) := by
  simp only [guard, Bool.or_eq_false_iff, bne_eq_false_iff_eq] at hg
  have hc : it.currChunk = n := by simpa using hg.1
  obtain ⟨hf, hl⟩ := hI hg.2
  refine ⟨hc, ?_, fun hL => ?_⟩
  · simp only [DHolds, hE, if_true] at hf
    obtain ⟨c, pos, h1, _, h3⟩ := hf
    exact ⟨c, pos, hc ▸ h1, h3⟩
  · have := hl hL
    unfold DHolds at this
    split at this
    · obtain ⟨c, pos, _, _, h3⟩ := this
      simp [h3]
    · exact this

end PIter
end Ice.Model.CacheFault
