import IceModel.Lemmas.MergeLoopSpec
/-
  Counting lemmas behind the merged statistics (C16): bitmaps as sorted sets, exchanging the
  order of summation between terms and documents.
-/
namespace Ice.Model.MergeLoop
open Ice Ice.Spec

/-! ### bitmaps -/

theorem mem_bmAdd (x y : Nat) (r : List Nat) : y ∈ bmAdd x r ↔ y = x ∨ y ∈ r := by
  induction r with
  | nil => simp [bmAdd]
  | cons z r ih =>
    simp only [bmAdd]
    split
    · simp
    · split
      · next h => subst h; simp
      · simp only [List.mem_cons, ih]
        constructor
        · rintro (h | h | h)
          · right; left; exact h
          · left; exact h
          · right; right; exact h
        · rintro (h | h | h)
          · right; left; exact h
          · left; exact h
          · right; right; exact h

theorem sorted_bmAdd (x : Nat) (r : List Nat) (h : r.Pairwise (· < ·)) :
    (bmAdd x r).Pairwise (· < ·) := by
  induction r with
  | nil => simp [bmAdd]
  | cons z r ih =>
    have hz := List.pairwise_cons.1 h
    simp only [bmAdd]
    split
    · next hlt =>
      refine List.pairwise_cons.2 ⟨?_, h⟩
      intro b hb
      rcases List.mem_cons.1 hb with rfl | hb
      · exact hlt
      · exact Nat.lt_trans hlt (hz.1 b hb)
    · split
      · exact h
      · next h1 h2 =>
        refine List.pairwise_cons.2 ⟨?_, ih hz.2⟩
        intro b hb
        rcases (mem_bmAdd x b r).1 hb with rfl | hb
        · omega
        · exact hz.1 b hb

theorem mem_bmAddAll (xs r : List Nat) (y : Nat) : y ∈ bmAddAll xs r ↔ y ∈ xs ∨ y ∈ r := by
  induction xs generalizing r with
  | nil => simp [bmAddAll]
  | cons x xs ih =>
    have : bmAddAll (x :: xs) r = bmAddAll xs (bmAdd x r) := rfl
    rw [this, ih, mem_bmAdd]
    simp only [List.mem_cons]
    constructor
    · rintro (h | h | h)
      · left; right; exact h
      · left; left; exact h
      · right; exact h
    · rintro ((h | h) | h)
      · right; left; exact h
      · left; exact h
      · right; right; exact h

theorem sorted_bmAddAll (xs r : List Nat) (h : r.Pairwise (· < ·)) :
    (bmAddAll xs r).Pairwise (· < ·) := by
  induction xs generalizing r with
  | nil => exact h
  | cons x xs ih => exact ih _ (sorted_bmAdd x r h)

/-- adding a strictly ascending list to the empty bitmap gives that list -/
theorem bmAddAll_sorted (xs : List Nat) (h : xs.Pairwise (· < ·)) : bmAddAll xs [] = xs := by
  suffices H : ∀ (pre : List Nat), (pre ++ xs).Pairwise (· < ·) →
      bmAddAll xs pre = pre ++ xs by simpa using H [] (by simpa using h)
  clear h
  induction xs with
  | nil => intro pre _; simp [bmAddAll]
  | cons x xs ih =>
    intro pre hp
    have : bmAddAll (x :: xs) pre = bmAddAll xs (bmAdd x pre) := rfl
    have hadd : bmAdd x pre = pre ++ [x] := by
      have hlt : ∀ a ∈ pre, a < x := by
        intro a ha
        exact (List.pairwise_append.1 hp).2.2 a ha x (by simp)
      clear this ih hp
      induction pre with
      | nil => rfl
      | cons a pre ih2 =>
        have ha := hlt a (by simp)
        have h1 : ¬ x < a := by omega
        have h2 : ¬ x = a := by omega
        simp only [bmAdd, h1, h2, if_false, List.cons_append]
        rw [ih2 (fun b hb => hlt b (by simp [hb]))]
    rw [this, hadd, ih (pre ++ [x]) (by simpa using hp)]
    simp

/-- the cardinality of a bitmap filled with `xs` is the number of `y < n` with `q y`, if `q`
    describes the members -/
theorem length_bmAddAll (xs : List Nat) (n : Nat) (q : Nat → Bool)
    (h : ∀ y, y ∈ xs ↔ y < n ∧ q y = true) :
    (bmAddAll xs []).length = (List.range n).countP q := by
  rw [List.countP_eq_length_filter]
  apply List.Perm.length_eq
  rw [List.perm_ext_iff_of_nodup]
  · intro y
    rw [mem_bmAddAll, List.mem_filter, List.mem_range, h]
    simp
  · exact (sorted_bmAddAll xs [] List.Pairwise.nil).imp (fun h => Nat.ne_of_lt h)
  · exact List.Pairwise.filter _ List.nodup_range

/-- `p` at the element of index `y` (false outside the list) -/
def atIdx {α : Type} (p : α → Bool) (l : List α) (y : Nat) : Bool :=
  match l[y]? with
  | some d => p d
  | none => false

theorem countP_range_getElem {α : Type} (p : α → Bool) (l : List α) :
    (List.range l.length).countP (atIdx p l) = l.countP p := by
  induction l using snoc_induction with
  | h0 => rfl
  | hs l a ih =>
    rw [List.length_append, List.length_singleton, List.range_succ, List.countP_append,
      List.countP_append, ← ih]
    congr 1
    · apply List.countP_congr
      intro y hy
      simp only [atIdx]
      rw [List.getElem?_append_left (List.mem_range.1 hy)]
    · simp [atIdx]

/-! ### sums -/

theorem sum_map_zero' {α : Type} (l : List α) : (l.map (fun _ => 0)).sum = 0 := by
  induction l with
  | nil => rfl
  | cons a r ih => simp only [List.map_cons, List.sum_cons, ih]

theorem sum_map_add' {α : Type} (l : List α) (x y : α → Nat) :
    (l.map (fun a => x a + y a)).sum = (l.map x).sum + (l.map y).sum := by
  induction l with
  | nil => rfl
  | cons a r ih => simp only [List.map_cons, List.sum_cons, ih]; omega

theorem sum_swap {α β : Type} (T : List α) (D : List β) (a : β → α → Nat) :
    (T.map (fun t => (D.map (fun d => a d t)).sum)).sum =
      (D.map (fun d => (T.map (fun t => a d t)).sum)).sum := by
  induction T with
  | nil => simp [sum_map_zero']
  | cons t T ih =>
    simp only [List.map_cons, List.sum_cons, ih, sum_map_add']

theorem sum_indicator (T : List Bytes) (a : Bytes) (c : Nat) (hn : T.Nodup) :
    (T.map (fun t => if t = a then c else 0)).sum = if a ∈ T then c else 0 := by
  induction T with
  | nil => rfl
  | cons t T ih =>
    have hnd := List.nodup_cons.1 hn
    simp only [List.map_cons, List.sum_cons, ih hnd.2, List.mem_cons]
    by_cases h : t = a
    · subst h
      simp [hnd.1]
    · have : ¬ a = t := fun e => h e.symm
      simp [h, this]

theorem sum_filter_zero {α : Type} (l : List α) (p : α → Bool) (h : α → Nat)
    (hz : ∀ a, p a = false → h a = 0) :
    (l.map h).sum = ((l.filter p).map h).sum := by
  induction l with
  | nil => rfl
  | cons a r ih =>
    simp only [List.map_cons, List.sum_cons, List.filter_cons, ih]
    cases hp : p a
    · simp [hz a hp]
    · simp

/-! ### the double count: frequencies by term = frequencies by document -/

/-- frequency of term `t` in field `f` of document `d` (0 if absent) -/
def freqOf (d : ADoc) (f t : Bytes) : Nat :=
  match postingOf d 0 f t with
  | some p => p.freq
  | none => 0

theorem sum_postings_freq (s : AbsSeg) (f t : Bytes) :
    ((postings s f t).map (·.freq)).sum = (s.docs.map (fun d => freqOf d f t)).sum := by
  unfold postings
  have : ∀ (L : List (ADoc × Nat)),
      ((L.filterMap (fun q => postingOf q.1 q.2 f t)).map (·.freq)).sum =
        (L.map (fun q => freqOf q.1 f t)).sum := by
    intro L
    induction L with
    | nil => rfl
    | cons q L ih =>
      have hq := postingOf_renumber q.1 0 q.2 f t
      have hf : freqOf q.1 f t = match postingOf q.1 0 f t with
          | some p => p.freq
          | none => 0 := rfl
      simp only [List.filterMap_cons, List.map_cons, List.sum_cons, hq, hf]
      cases postingOf q.1 0 f t with
      | none => simpa using ih
      | some p => simp [ih]
  rw [this]
  congr 1
  apply List.ext_getElem?
  intro i
  simp only [List.getElem?_map, List.getElem?_zipIdx]
  cases s.docs[i]? <;> rfl

theorem sum_find_freq (xs : List ATerm) (T : List Bytes) (hT : T.Nodup)
    (hx : (xs.map (·.term)).Nodup) (hsub : ∀ x ∈ xs, x.term ∈ T) :
    (T.map (fun t => match xs.find? (fun x => x.term == t) with
                     | some x => x.freq
                     | none => 0)).sum = (xs.map (·.freq)).sum := by
  induction xs with
  | nil => simp [sum_map_zero']
  | cons x r ih =>
    simp only [List.map_cons] at hx
    have hnd := List.nodup_cons.1 hx
    have hpt : ∀ t ∈ T, (match (x :: r).find? (fun y => y.term == t) with
        | some y => y.freq
        | none => 0) = (if t = x.term then x.freq else 0) +
          (match r.find? (fun y => y.term == t) with
           | some y => y.freq
           | none => 0) := by
      intro t _
      simp only [List.find?_cons]
      by_cases h : x.term = t
      · subst h
        have : r.find? (fun y => y.term == x.term) = none := by
          rw [List.find?_eq_none]
          intro y hy hyt
          exact hnd.1 (List.mem_map.2 ⟨y, hy, by simpa using hyt⟩)
        simp [this]
      · have h' : ¬ t = x.term := fun e => h e.symm
        have hb : (x.term == t) = false := by simpa using h
        simp [hb, h']
    rw [List.map_congr_left hpt, sum_map_add', sum_indicator T x.term x.freq hT,
      ih hnd.2 (fun y hy => hsub y (by simp [hy]))]
    simp [hsub x (by simp)]

/-- no field of a document lists a term twice (what `rollTerms` produces) -/
def TermsNodupDocs (docs : List ADoc) (f : Bytes) : Prop :=
  ∀ d ∈ docs, ∀ af, d.field? f = some af → (af.terms.map (·.term)).Nodup

theorem sum_freqOf_doc (d : ADoc) (f : Bytes) (T : List Bytes) (hT : T.Nodup)
    (hd : ∀ af, d.field? f = some af → (af.terms.map (·.term)).Nodup)
    (hsub : ∀ t ∈ docTerms d f, t ∈ T) :
    (T.map (fun t => freqOf d f t)).sum = fieldTermFreq d f := by
  have hfo : ∀ t, freqOf d f t = match d.field? f with
      | none => 0
      | some af => match af.terms.find? (fun x => x.term == t) with
        | some x => x.freq
        | none => 0 := by
    intro t
    unfold freqOf postingOf
    cases d.field? f with
    | none => rfl
    | some af =>
      simp only []
      cases af.terms.find? (fun x => x.term == t) <;> rfl
  simp only [hfo]
  unfold fieldTermFreq
  unfold docTerms at hsub
  cases hf : d.field? f with
  | none => simp [sum_map_zero']
  | some af =>
    simp only [hf] at hsub
    exact sum_find_freq af.terms T hT (hd af hf)
      (fun x hx => hsub x.term (List.mem_map.2 ⟨x, hx, rfl⟩))

/-- Σ over the terms of the postings' frequencies = Σ over the documents of the field's term
    frequencies -/
theorem sum_terms_freq (s : AbsSeg) (f : Bytes) (hnd : TermsNodupDocs s.docs f) :
    ((terms s f).map (fun t => ((postings s f t).map (·.freq)).sum)).sum =
      (s.docs.map (fun d => fieldTermFreq d f)).sum := by
  simp only [sum_postings_freq]
  rw [sum_swap]
  apply congrArg
  apply List.map_congr_left
  intro d hd
  apply sum_freqOf_doc d f (terms s f)
  · exact (asc_sortDedup _).imp
      (fun {a b} h (e : a = b) => Bytes.cmp_lt_irrefl a (by rw [← e] at h; exact h))
  · exact hnd d hd
  · intro t ht
    rw [terms_def, mem_sortDedup, List.mem_flatMap]
    exact ⟨d, hd, ht⟩

end Ice.Model.MergeLoop
