import IceModel.Lemmas.CacheFaultDvLoad
import IceModel.Lemmas.CacheFaultDec
/-
  (c) docValueReader: the states a reader can be in - clean (the cached chunk is exactly what
  the key names) or safe (a failed load has overwritten part of the header, but every visit still
  answers with the document's values or nothing) - and the steps between them.
-/
namespace Ice.Model.CacheFault

/-- the header array after `make` / reslice -/
def resized (r : DvReader) (numDocs : Nat) : DvReader :=
  if r.hdrBuf.length < numDocs
  then { r with hdrBuf := List.replicate numDocs default, hdrLen := numDocs }
  else { r with hdrLen := numDocs }

theorem loadDvChunk_some (st : DvStore) (o : Oracle) (clk : Nat) (r : DvReader) (n : Nat) (c : DvChunk)
    (hc : st n = some c) :
    r.loadDvChunk dV0 st o clk n =
      if o clk then (r, clk + 1, false)
      else if !(loadEntries o c.entries 0 (clk + 1) (resized r c.entries.length).hdrBuf).2.2 then
        ({ resized r c.entries.length with
            hdrBuf := (loadEntries o c.entries 0 (clk + 1) (resized r c.entries.length).hdrBuf).1 },
          (loadEntries o c.entries 0 (clk + 1) (resized r c.entries.length).hdrBuf).2.1, false)
      else if o (loadEntries o c.entries 0 (clk + 1) (resized r c.entries.length).hdrBuf).2.1 then
        ({ resized r c.entries.length with
            hdrBuf := (loadEntries o c.entries 0 (clk + 1) (resized r c.entries.length).hdrBuf).1 },
          (loadEntries o c.entries 0 (clk + 1) (resized r c.entries.length).hdrBuf).2.1 + 1, false)
      else
        ({ resized r c.entries.length with
            hdrBuf := (loadEntries o c.entries 0 (clk + 1) (resized r c.entries.length).hdrBuf).1,
            data := some c.data, curChunkNum := n, uncompressed := [] },
          (loadEntries o c.entries 0 (clk + 1) (resized r c.entries.length).hdrBuf).2.1 + 1, true) := by
  unfold DvReader.loadDvChunk
  simp only [hc, dV0, resized]
  cases o clk <;> simp only [Bool.false_eq_true, if_true, if_false]
  split <;> rfl

theorem loadDvChunk_none (ver : DvVersion) (st : DvStore) (o : Oracle) (clk : Nat) (r : DvReader) (n : Nat)
    (hc : st n = none) :
    r.loadDvChunk ver st o clk n =
      ({ r with hdrLen := 0, data := none, curChunkNum := n, uncompressed := [] }, clk, true) := by
  unfold DvReader.loadDvChunk; simp only [hc]

theorem resized_length (r : DvReader) (k : Nat) : k ≤ (resized r k).hdrBuf.length := by
  unfold resized; split
  · simp
  · simp only; omega

/-- the resized array is the old one, or all zero cells -/
theorem resized_cells (r : DvReader) (k : Nat) :
    (resized r k).hdrBuf = r.hdrBuf ∨ ∀ (j : Nat) (m : Meta), (resized r k).hdrBuf[j]? = some m → m = default := by
  unfold resized; split
  · right; intro j m h
    simp only [List.getElem?_replicate] at h
    split at h
    · exact (Option.some.inj h).symm
    · cases h
  · left; rfl

theorem resized_frame (r : DvReader) (k : Nat) :
    (resized r k).curChunkNum = r.curChunkNum ∧ (resized r k).data = r.data ∧
    (resized r k).uncompressed = r.uncompressed ∧ (resized r k).hdrLen = k := by
  unfold resized; split <;> exact ⟨rfl, rfl, rfl, rfl⟩

/-- state after a load that failed after its first read -/
structure PartialLoad (r : DvReader) (c : DvChunk) (r' : DvReader) : Prop where
  cur : r'.curChunkNum = r.curChunkNum
  data : r'.data = r.data
  unc : r'.uncompressed = r.uncompressed
  len : r'.hdrLen = c.entries.length
  cells : ∀ (j : Nat) (m : Meta), r'.hdrBuf[j]? = some m →
    (resized r c.entries.length).hdrBuf[j]? = some m ∨ ∃ e ∈ c.entries, m.doc = e.doc
  blen : r'.hdrBuf.length = (resized r c.entries.length).hdrBuf.length

/-- state after a complete load of chunk `n` -/
structure FullLoad (r : DvReader) (c : DvChunk) (n : Nat) (r' : DvReader) : Prop where
  cur : r'.curChunkNum = n
  data : r'.data = some c.data
  unc : r'.uncompressed = []
  len : r'.hdrLen = c.entries.length
  cells : ∀ (j : Nat), r'.hdrBuf[j]? =
    if j < c.entries.length then c.entries[j]? else (resized r c.entries.length).hdrBuf[j]?

/-- the three ways a load of a non-empty chunk can end (any oracle) -/
theorem loadDvChunk_result (st : DvStore) (o : Oracle) (clk : Nat) (r : DvReader) (n : Nat) (c : DvChunk)
    (hc : st n = some c) :
    (o clk = true ∧ r.loadDvChunk dV0 st o clk n = (r, clk + 1, false)) ∨
    (o clk = false ∧ (r.loadDvChunk dV0 st o clk n).2.2 = false ∧
      PartialLoad r c (r.loadDvChunk dV0 st o clk n).1 ∧
      ∃ k, clk ≤ k ∧ k < (r.loadDvChunk dV0 st o clk n).2.1 ∧ o k = true) ∨
    ((r.loadDvChunk dV0 st o clk n).2.2 = true ∧ clk < (r.loadDvChunk dV0 st o clk n).2.1 ∧
      FullLoad r c n (r.loadDvChunk dV0 st o clk n).1) := by
  rw [loadDvChunk_some st o clk r n c hc]
  have hrl := resized_length r c.entries.length
  have hfr := resized_frame r c.entries.length
  generalize hr1 : resized r c.entries.length = r1 at hrl hfr ⊢
  cases h1 : o clk
  · simp only [Bool.false_eq_true, if_false]
    have hlen := loadEntries_length o c.entries 0 (clk + 1) r1.hdrBuf
    have hclk := loadEntries_clk o c.entries 0 (clk + 1) r1.hdrBuf
    have hok := loadEntries_ok o c.entries 0 (clk + 1) r1.hdrBuf (by omega)
    have hfail := loadEntries_fail o c.entries 0 (clk + 1) r1.hdrBuf
    generalize loadEntries o c.entries 0 (clk + 1) r1.hdrBuf = le at hlen hclk hok hfail ⊢
    obtain ⟨buf, clk1, ok⟩ := le
    simp only at hlen hclk hok hfail ⊢
    cases ok
    · right; left
      simp only [Bool.not_false, if_true]
      obtain ⟨⟨k, hk1, hk2, hk3⟩, hcells⟩ := hfail rfl
      refine ⟨by trivial, by trivial, ⟨hfr.1, hfr.2.1, hfr.2.2.1, hfr.2.2.2, ?_, ?_⟩, k, by omega, hk2, hk3⟩
      · rw [hr1]; exact hcells
      · rw [hr1]; exact hlen
    · simp only [Bool.not_true, Bool.false_eq_true, if_false]
      have hok' := hok rfl
      cases h2 : o clk1
      · right; right
        simp only [Bool.false_eq_true, if_false]
        refine ⟨by trivial, by omega, ⟨rfl, rfl, rfl, hfr.2.2.2, fun j => ?_⟩⟩
        rw [hr1]; simp only; rw [hok' j]; simp
      · right; left
        simp only [if_true]
        refine ⟨by trivial, by trivial, ⟨hfr.1, hfr.2.1, hfr.2.2.1, hfr.2.2.2, fun j m hm => ?_, ?_⟩, clk1, by omega, by omega, h2⟩
        · rw [hr1]
          simp only at hm
          rw [hok' j] at hm
          simp only [Nat.zero_le, true_and, Nat.zero_add, Nat.sub_zero] at hm
          split at hm
          · right; exact ⟨m, List.mem_of_getElem? hm, rfl⟩
          · left; exact hm
        · rw [hr1]; exact hlen
  · left; simp

/-! ### clean and safe states -/

/-- every cell of the backing array is a zero cell or entry `j` of some chunk, at its position `j` -/
def PosInv (st : DvStore) (buf : List Meta) : Prop :=
  ∀ (j : Nat) (m : Meta), buf[j]? = some m → m = default ∨ ∃ X, (entriesOf st X)[j]? = some m

/-- no load has failed half-way since the last complete one: the key names exactly what is cached -/
def Clean (st : DvStore) (r : DvReader) : Prop :=
  PosInv st r.hdrBuf ∧
  (r.curChunkNum = noChunk ∨ (r.header = entriesOf st r.curChunkNum ∧ DataOK st r.curChunkNum r))

/-- what a visit needs: see `visitDocValues_safe` -/
def Safe (chunkOf : Nat → Nat) (st : DvStore) (r : DvReader) : Prop :=
  r.curChunkNum = noChunk ∨ (SafeView chunkOf st r.curChunkNum r.header ∧ DataOK st r.curChunkNum r)

theorem DataOK.congr {st : DvStore} {B : Nat} {r r' : DvReader} (h1 : r'.data = r.data)
    (h2 : r'.uncompressed = r.uncompressed) (h : DataOK st B r) : DataOK st B r' := by
  unfold DataOK at h ⊢
  split
  · trivial
  · rename_i c hc
    rw [hc] at h
    rw [h1, h2]; exact h

theorem header_getElem? (r : DvReader) (j : Nat) :
    r.header[j]? = if j < r.hdrLen then r.hdrBuf[j]? else none := by
  unfold DvReader.header; rw [List.getElem?_take]

theorem safeView_of_eq (chunkOf : Nat → Nat) (st : DvStore) (B : Nat) (v : List Meta)
    (h : v = entriesOf st B) : SafeView chunkOf st B v := by
  intro j m hjm
  right
  refine ⟨by unfold Own; rw [← h]; exact hjm, ?_⟩
  by_cases hj0 : j = 0
  · left; exact hj0
  · right
    have hj : j < v.length := (List.getElem?_eq_some_iff.mp hjm).1
    have hj1 : j - 1 < v.length := by omega
    exact ⟨v[j - 1], List.getElem?_eq_getElem hj1, Or.inr (by unfold Own; rw [← h]; exact List.getElem?_eq_getElem hj1)⟩

theorem Clean.safe {chunkOf : Nat → Nat} {st : DvStore} {r : DvReader} (h : Clean st r) :
    Safe chunkOf st r := by
  rcases h.2 with h | ⟨h1, h2⟩
  · left; exact h
  · right; exact ⟨safeView_of_eq chunkOf st _ _ h1, h2⟩

theorem entriesOf_some {st : DvStore} {n : Nat} {c : DvChunk} (hc : st n = some c) :
    entriesOf st n = c.entries := by
  unfold entriesOf; rw [hc]

theorem entriesOf_mem {st : DvStore} {X j : Nat} {m : Meta} (h : (entriesOf st X)[j]? = some m) :
    ∃ c, st X = some c ∧ m ∈ c.entries := by
  unfold entriesOf at h
  cases hc : st X with
  | none => rw [hc] at h; simp at h
  | some c => rw [hc] at h; exact ⟨c, rfl, List.mem_of_getElem? h⟩

/-- a complete load leaves a clean reader -/
theorem full_clean (st : DvStore) (r : DvReader) (c : DvChunk) (n : Nat) (r' : DvReader)
    (hcl : Clean st r) (hc : st n = some c) (hf : FullLoad r c n r') : Clean st r' := by
  refine ⟨?_, Or.inr ⟨?_, ?_⟩⟩
  · intro j m hjm
    rw [hf.cells j] at hjm
    split at hjm
    · right; exact ⟨n, by rw [entriesOf_some hc]; exact hjm⟩
    · rcases resized_cells r c.entries.length with heq | hz
      · rw [heq] at hjm; exact hcl.1 j m hjm
      · left; exact hz j m hjm
  · rw [hf.cur, entriesOf_some hc]
    apply List.ext_getElem?
    intro j
    rw [header_getElem?, hf.len, hf.cells j]
    split
    · rfl
    · rename_i hj
      exact (List.getElem?_eq_none (by omega)).symm
  · rw [hf.cur]
    unfold DataOK; rw [hc]
    exact ⟨hf.data, Or.inl hf.unc⟩

/-- **a load that failed half-way, moving UPWARDS, leaves a safe reader** -/
theorem partial_safe (chunkOf : Nat → Nat) (st : DvStore) (wf : DvWF chunkOf st)
    (r : DvReader) (c : DvChunk) (n : Nat) (r' : DvReader)
    (hcl : Clean st r) (hc : st n = some c) (hp : PartialLoad r c r')
    (hup : r.curChunkNum = noChunk ∨ r.curChunkNum < n) : Safe chunkOf st r' := by
  unfold Safe
  rw [hp.cur]
  by_cases hno : r.curChunkNum = noChunk
  · left; exact hno
  · right
    have hlt : r.curChunkNum < n := hup.resolve_left hno
    obtain ⟨hpos, hcur⟩ := hcl
    obtain ⟨hhdr, hdata⟩ := hcur.resolve_left hno
    have hnew : ∀ m : Meta, (∃ e ∈ c.entries, m.doc = e.doc) → chunkOf m.doc = n := by
      rintro m ⟨e, he, hme⟩
      rw [hme]; exact wf.own n c hc e he
    refine ⟨?_, DataOK.congr hp.data hp.unc hdata⟩
    intro j m hjm
    rw [header_getElem?] at hjm
    split at hjm
    · rename_i hjlen
      rcases hp.cells j m hjm with hold | hn
      · rcases resized_cells r c.entries.length with heq | hz
        · rw [heq] at hold
          by_cases hj : j < r.hdrLen
          · right
            have hown : (entriesOf st r.curChunkNum)[j]? = some m := by
              rw [← hhdr, header_getElem?]; simp [hj, hold]
            refine ⟨hown, ?_⟩
            by_cases hj0 : j = 0
            · left; exact hj0
            · right
              have hjb : j < r'.hdrBuf.length := (List.getElem?_eq_some_iff.mp hjm).1
              have hj1 : j - 1 < r'.hdrBuf.length := by omega
              refine ⟨r'.hdrBuf[j - 1], ?_, ?_⟩
              · rw [header_getElem?]
                have : j - 1 < r'.hdrLen := by omega
                simp [this]
              · rcases hp.cells (j - 1) _ (List.getElem?_eq_getElem hj1) with hold' | hn'
                · right
                  rw [heq] at hold'
                  unfold Own
                  rw [← hhdr, header_getElem?]
                  have : j - 1 < r.hdrLen := by omega
                  simp [this, hold']
                · left
                  unfold High
                  rw [hnew _ hn']; exact hlt
          · left
            rcases hpos j m hold with hd | ⟨X, hX⟩
            · right; exact hd
            · left
              intro hB
              obtain ⟨cx, hcx, hmem⟩ := entriesOf_mem hX
              have hXB : X = r.curChunkNum := by rw [← hB]; exact (wf.own X cx hcx m hmem).symm
              rw [hXB, ← hhdr, header_getElem?] at hX
              simp [hj] at hX
        · left; right; exact hz j m hold
      · left; left
        rw [hnew m hn]; omega
    · cases hjm

/-! ### visits -/

/-- what C19 allows a visit to return: the document's values, an error, or nothing -/
def DvAllowed (chunkOf : Nat → Nat) (st : DvStore) (out : Outcome (List Nat)) (d : Nat) : Prop :=
  out = specValues chunkOf st d ∨ out = .error ∨ out = .ok []

theorem header_congr {r r' : DvReader} (h1 : r'.hdrBuf = r.hdrBuf) (h2 : r'.hdrLen = r.hdrLen) :
    r'.header = r.header := by
  unfold DvReader.header; rw [h1, h2]

theorem visit_on_safe (chunkOf : Nat → Nat) (st : DvStore) (wf : DvWF chunkOf st) (r : DvReader) (d : Nat)
    (hs : Safe chunkOf st r) (hcur : r.curChunkNum = chunkOf d) (hd : chunkOf d ≠ noChunk) :
    ((r.visitDocValues d).2 = specValues chunkOf st d ∨ (r.visitDocValues d).2 = .ok []) ∧
    Safe chunkOf st (r.visitDocValues d).1 := by
  rcases hs with hs | ⟨hv, hdat⟩
  · exact absurd (hcur ▸ hs) hd
  · rw [hcur] at hv hdat
    obtain ⟨h1, h2, h3, h4, h5⟩ := visitDocValues_safe chunkOf st wf r d hv hdat
    refine ⟨h1, Or.inr ?_⟩
    rw [h4, hcur, header_congr h2 h3]
    exact ⟨hv, h5⟩

theorem visit_on_clean (chunkOf : Nat → Nat) (st : DvStore) (wf : DvWF chunkOf st) (r : DvReader) (d : Nat)
    (hcl : Clean st r) (hcur : r.curChunkNum = chunkOf d) (hd : chunkOf d ≠ noChunk) :
    ((r.visitDocValues d).2 = specValues chunkOf st d ∨ (r.visitDocValues d).2 = .ok []) ∧
    Clean st (r.visitDocValues d).1 := by
  obtain ⟨hpos, hc⟩ := hcl
  rcases hc with hc | ⟨hh, hdat⟩
  · exact absurd (hcur ▸ hc) hd
  · rw [hcur] at hh hdat
    obtain ⟨h1, h2, h3, h4, h5⟩ :=
      visitDocValues_safe chunkOf st wf r d (safeView_of_eq chunkOf st _ _ hh) hdat
    refine ⟨h1, ?_, Or.inr ?_⟩
    · rw [h2]; exact hpos
    · rw [h4, hcur, header_congr h2 h3]
      exact ⟨hh, h5⟩

/-- the reader after the shortcut for an empty chunk -/
theorem emptied_clean (st : DvStore) (r : DvReader) (n : Nat) (hc : st n = none) (hpos : PosInv st r.hdrBuf) :
    Clean st { r with hdrLen := 0, data := none, curChunkNum := n, uncompressed := [] } := by
  refine ⟨hpos, Or.inr ⟨?_, ?_⟩⟩
  · simp [DvReader.header, entriesOf, hc]
  · simp [DataOK, hc]

theorem emptied_safe (chunkOf : Nat → Nat) (st : DvStore) (r : DvReader) (n : Nat) (hc : st n = none) :
    Safe chunkOf st { r with hdrLen := 0, data := none, curChunkNum := n, uncompressed := [] } := by
  refine Or.inr ⟨?_, ?_⟩
  · intro j m h; simp [DvReader.header] at h
  · simp [DataOK, hc]

/-- ONE VISIT from a clean reader (any oracle): an allowed outcome; the reader stays clean, or a
    read has failed and the reader is safe -/
theorem visit_clean (chunkOf : Nat → Nat) (st : DvStore) (wf : DvWF chunkOf st) (o : Oracle)
    (clk : Nat) (r : DvReader) (d : Nat) (hcl : Clean st r) (hd : chunkOf d ≠ noChunk)
    (hup : partialFail dV0 chunkOf st o clk r d → r.curChunkNum = noChunk ∨ r.curChunkNum < chunkOf d) :
    DvAllowed chunkOf st (r.visit dV0 chunkOf st o clk d).2.2 d ∧
    clk ≤ (r.visit dV0 chunkOf st o clk d).2.1 ∧
    (Clean st (r.visit dV0 chunkOf st o clk d).1 ∨
      (Safe chunkOf st (r.visit dV0 chunkOf st o clk d).1 ∧
        ∃ k, k < (r.visit dV0 chunkOf st o clk d).2.1 ∧ o k = true)) := by
  unfold DvReader.visit
  by_cases hmiss : chunkOf d ≠ r.curChunkNum
  · rw [if_pos hmiss]
    cases hc : st (chunkOf d) with
    | none =>
      rw [loadDvChunk_none dV0 st o clk r _ hc]
      simp only [Bool.not_true, Bool.false_eq_true, if_false]
      obtain ⟨h1, h2⟩ := visit_on_clean chunkOf st wf _ d (emptied_clean st r _ hc hcl.1) rfl hd
      exact ⟨h1.elim Or.inl (fun h => Or.inr (Or.inr h)), Nat.le_refl _, Or.inl h2⟩
    | some c =>
      rcases loadDvChunk_result st o clk r (chunkOf d) c hc with ⟨_, hL⟩ | ⟨ho, hfail, hp, k, _, hk2, hk3⟩ | ⟨hok, hclk, hfull⟩
      · rw [hL]
        simp only [Bool.not_false, if_true]
        exact ⟨Or.inr (Or.inl rfl), by omega, Or.inl hcl⟩
      · have hsafe := partial_safe chunkOf st wf r c _ _ hcl hc hp
          (hup ⟨hmiss, by rw [hc]; simp, ho, hfail⟩)
        have hclk : clk ≤ (r.loadDvChunk dV0 st o clk (chunkOf d)).2.1 := by omega
        rcases hL : r.loadDvChunk dV0 st o clk (chunkOf d) with ⟨r1, clk1, ok⟩
        rw [hL] at hfail hsafe hk2 hclk
        simp only at hfail hsafe hk2 hclk
        subst hfail
        simp only [Bool.not_false, if_true]
        exact ⟨Or.inr (Or.inl rfl), hclk, Or.inr ⟨hsafe, k, hk2, hk3⟩⟩
      · have hcl1 := full_clean st r c _ _ hcl hc hfull
        have hcur := hfull.cur
        rcases hL : r.loadDvChunk dV0 st o clk (chunkOf d) with ⟨r1, clk1, ok⟩
        rw [hL] at hok hcl1 hcur hclk
        simp only at hok hcl1 hcur hclk
        subst hok
        simp only [Bool.not_true, Bool.false_eq_true, if_false]
        obtain ⟨h1, h2⟩ := visit_on_clean chunkOf st wf r1 d hcl1 hcur hd
        exact ⟨h1.elim Or.inl (fun h => Or.inr (Or.inr h)), by omega, Or.inl h2⟩
  · have hcur : r.curChunkNum = chunkOf d := by
      have : ¬ ¬ chunkOf d = r.curChunkNum := hmiss
      exact (Classical.not_not.mp this).symm
    rw [if_neg hmiss]
    obtain ⟨h1, h2⟩ := visit_on_clean chunkOf st wf r d hcl hcur hd
    exact ⟨h1.elim Or.inl (fun h => Or.inr (Or.inr h)), Nat.le_refl _, Or.inl h2⟩

/-- ONE VISIT on a failing storage from a safe reader: an allowed outcome, the reader stays safe -/
theorem visit_dead (chunkOf : Nat → Nat) (st : DvStore) (wf : DvWF chunkOf st) (o : Oracle)
    (clk : Nat) (r : DvReader) (d : Nat) (ho : o clk = true)
    (hs : Safe chunkOf st r) (hd : chunkOf d ≠ noChunk) :
    DvAllowed chunkOf st (r.visit dV0 chunkOf st o clk d).2.2 d ∧
    clk ≤ (r.visit dV0 chunkOf st o clk d).2.1 ∧
    Safe chunkOf st (r.visit dV0 chunkOf st o clk d).1 := by
  unfold DvReader.visit
  by_cases hmiss : chunkOf d ≠ r.curChunkNum
  · rw [if_pos hmiss]
    cases hc : st (chunkOf d) with
    | none =>
      rw [loadDvChunk_none dV0 st o clk r _ hc]
      simp only [Bool.not_true, Bool.false_eq_true, if_false]
      obtain ⟨h1, h2⟩ := visit_on_safe chunkOf st wf _ d (emptied_safe chunkOf st r _ hc) rfl hd
      exact ⟨h1.elim Or.inl (fun h => Or.inr (Or.inr h)), Nat.le_refl _, h2⟩
    | some c =>
      rw [loadDvChunk_some st o clk r _ c hc]
      simp only [ho, if_true, Bool.not_false]
      exact ⟨Or.inr (Or.inl rfl), by omega, hs⟩
  · have hcur : r.curChunkNum = chunkOf d := by
      have : ¬ ¬ chunkOf d = r.curChunkNum := hmiss
      exact (Classical.not_not.mp this).symm
    rw [if_neg hmiss]
    obtain ⟨h1, h2⟩ := visit_on_safe chunkOf st wf r d hs hcur hd
    exact ⟨h1.elim Or.inl (fun h => Or.inr (Or.inr h)), Nat.le_refl _, h2⟩

/-! ### runs -/

theorem run_dead (chunkOf : Nat → Nat) (st : DvStore) (wf : DvWF chunkOf st) (o : Oracle) (f : Nat)
    (ho : ∀ k, f ≤ k → o k = true) (ds : List Nat) : ∀ (clk : Nat) (r : DvReader),
    f ≤ clk → Safe chunkOf st r → (∀ d ∈ ds, chunkOf d ≠ noChunk) →
    Pointwise (DvAllowed chunkOf st) (DvReader.run dV0 chunkOf st o clk r ds) ds := by
  induction ds with
  | nil => intro _ _ _ _ _; exact .nil
  | cons d ds ih =>
    intro clk r hf hs hd
    obtain ⟨h1, h2, h3⟩ := visit_dead chunkOf st wf o clk r d (ho clk hf) hs (hd d (by simp))
    simp only [DvReader.run]
    exact .cons h1 (ih _ _ (Nat.le_trans hf h2) h3 (fun x hx => hd x (by simp [hx])))

theorem run_clean (chunkOf : Nat → Nat) (st : DvStore) (wf : DvWF chunkOf st) (f : Nat) (ds : List Nat) :
    ∀ (clk : Nat) (r : DvReader),
    Clean st r → (∀ d ∈ ds, chunkOf d ≠ noChunk) →
    UpwardFaults dV0 chunkOf st (failFrom f) clk r ds →
    Pointwise (DvAllowed chunkOf st) (DvReader.run dV0 chunkOf st (failFrom f) clk r ds) ds := by
  induction ds with
  | nil => intro _ _ _ _ _; exact .nil
  | cons d ds ih =>
    intro clk r hcl hd hup
    obtain ⟨hup1, hup2⟩ := hup
    obtain ⟨h1, h2, h3⟩ := visit_clean chunkOf st wf (failFrom f) clk r d hcl (hd d (by simp)) hup1
    simp only [DvReader.run]
    refine .cons h1 ?_
    have hd' : ∀ x ∈ ds, chunkOf x ≠ noChunk := fun x hx => hd x (by simp [hx])
    rcases h3 with h3 | ⟨h3, k, hk1, hk2⟩
    · exact ih _ _ h3 hd' hup2
    · have hfk : f ≤ k := by
        simp only [failFrom, decide_eq_true_eq] at hk2; exact hk2
      exact run_dead chunkOf st wf (failFrom f) f (fun k hk => failFrom_ge hk) ds _ _
        (Nat.le_trans hfk (Nat.le_of_lt hk1)) h3 hd'

end Ice.Model.CacheFault
