import IceModel.Model.MergeLoop
import IceModel.Lemmas.Sort
import IceModel.Lemmas.Merge
/-
  The enumerator (enumerator.go) delivers the ordered join of its iterators: proof.
  Statement for users: `loop_spec`, `enumerateFull_spec` at the end of the file.
-/
namespace Ice.Model.MergeLoop
open Ice Ice.Spec

theorem snoc_induction {α} {P : List α → Prop} (h0 : P [])
    (hs : ∀ l a, P l → P (l ++ [a])) : ∀ l, P l := by
  intro l
  have : ∀ l : List α, P l.reverse := by
    intro l
    induction l with
    | nil => exact h0
    | cons a r ih => rw [List.reverse_cons]; exact hs _ _ ih
  simpa using this l.reverse

/-! ### keys -/

/-- the slice the enumerator shows for key `k`: the empty key is only ever seen as nil -/
def keyOf (k : Bytes) : Key := if k.isEmpty then none else some k

@[simp] theorem keyOf_bytes (k : Bytes) : (keyOf k).bytes = k := by
  unfold keyOf
  cases k <;> simp [Key.bytes]

theorem cmp_nil_not_gt (k : Bytes) : Bytes.cmp [] k ≠ .gt := by
  cases k <;> simp [Bytes.cmp]

theorem ne_nil_of_lt {a b : Bytes} (h : Bytes.cmp a b = .lt) : b ≠ [] := by
  intro hb; subst hb
  cases a <;> simp [Bytes.cmp] at h

/-! ### iterators in a phase -/

/-- what the proof knows about an iterator at the moment `updateMatches skip` runs -/
structure Good (skip : Bool) (it : VIter) : Prop where
  asc : Asc (it.rest.map (·.1))
  nonempty : skip = true → ∀ p ∈ it.rest, p.1 ≠ []
  fresh : skip = false → it = VIter.fresh it.rest ∧ ∀ v, ([], v) ∈ it.rest → v ≠ 0

/-- the test at enumerator.go:63-64 -/
def skipCond (skip : Bool) (kv : Key × Nat) : Bool :=
  (kv.1.isNone && kv.2 == 0) || (kv.1.bytes.length == 0 && skip)

theorem current_drained {skip : Bool} {it : VIter} (g : Good skip it) (h : it.rest = []) :
    skipCond skip it.current = true := by
  cases skip with
  | true =>
    simp only [VIter.current, h, skipCond]
    cases it.root <;> cases it.touched <;> simp [Key.bytes]
  | false =>
    have := (g.fresh rfl).1
    rw [h] at this
    rw [this]
    simp [VIter.fresh, VIter.current, skipCond]

theorem current_live {skip : Bool} {it : VIter} (g : Good skip it) {k : Bytes} {v : Nat}
    {t : List (Bytes × Nat)} (h : it.rest = (k, v) :: t) :
    it.current = (keyOf k, v) ∧ skipCond skip (keyOf k, v) = false := by
  cases skip with
  | true =>
    have hk : k ≠ [] := g.nonempty rfl (k, v) (by rw [h]; simp)
    have hk' : k.isEmpty = false := by cases k <;> simp_all
    constructor
    · simp [VIter.current, h, keyOf, hk']
    · cases k with
      | nil => exact absurd rfl hk
      | cons a r => simp [skipCond, keyOf, Key.bytes]
  | false =>
    obtain ⟨hf, hv⟩ := g.fresh rfl
    rw [hf, h]
    cases k with
    | nil =>
      have : v ≠ 0 := hv v (by rw [h]; simp)
      simp [VIter.fresh, VIter.current, keyOf, skipCond, this]
    | cons a r =>
      simp [VIter.fresh, VIter.current, keyOf, skipCond, Key.bytes]

/-! ### `updateMatches` -/

theorem umLoop_snoc (skip : Bool) (l : List (Key × Nat)) (x : Key × Nat) (i : Nat)
    (st : Key × List Nat) :
    umLoop skip (l ++ [x]) i st = umStep skip (umLoop skip l i st) (i + l.length) x.1 x.2 := by
  induction l generalizing i st with
  | nil => simp [umLoop]
  | cons a r ih =>
    obtain ⟨ka, va⟩ := a
    simp only [List.cons_append, umLoop, ih, List.length_cons]
    congr 1
    omega

/-- (index, value) of the lists in `ls` (numbered from `i`) whose first key is `k` -/
def headHolders (k : Bytes) (ls : List (List (Bytes × Nat))) (i : Nat) : List (Nat × Nat) :=
  (ls.zipIdx i).filterMap (fun p =>
    match p.1 with
    | (k', v) :: _ => if k' = k then some (p.2, v) else none
    | [] => none)

theorem headHolders_snoc (k : Bytes) (ls : List (List (Bytes × Nat))) (l : List (Bytes × Nat))
    (i : Nat) :
    headHolders k (ls ++ [l]) i = headHolders k ls i ++
      (match l with
       | (k', v) :: _ => if k' = k then [(i + ls.length, v)] else []
       | [] => []) := by
  simp only [headHolders, List.zipIdx_append, List.filterMap_append, List.zipIdx_cons,
    List.zipIdx_nil, List.filterMap_cons, List.filterMap_nil]
  congr 1
  cases l with
  | nil => rfl
  | cons p t =>
    obtain ⟨k', v⟩ := p
    by_cases h : k' = k <;> simp [h]

theorem headHolders_eq_nil (k : Bytes) (ls : List (List (Bytes × Nat))) (i : Nat)
    (h : ∀ l ∈ ls, ∀ k' v' t, l = (k', v') :: t → k' ≠ k) : headHolders k ls i = [] := by
  simp only [headHolders, List.filterMap_eq_nil_iff]
  intro p hp
  have hm := (List.mem_zipIdx hp).2.2
  rcases hl : p.1 with _ | ⟨⟨k', v'⟩, t⟩
  · rfl
  · have : p.1 ∈ ls := by rw [hm]; exact List.getElem_mem _
    simp [h p.1 this k' v' t hl]

/-- what `updateMatches` computes -/
theorem umLoop_spec (skip : Bool) (its : List VIter) (hg : ∀ it ∈ its, Good skip it) :
    ((∀ it ∈ its, it.rest = []) ∧ umLoop skip (its.map VIter.current) 0 (none, []) = (none, []))
    ∨ ∃ k, (umLoop skip (its.map VIter.current) 0 (none, [])).1 = keyOf k ∧
        (umLoop skip (its.map VIter.current) 0 (none, [])).2 =
          (headHolders k (its.map (·.rest)) 0).map (·.1) ∧
        headHolders k (its.map (·.rest)) 0 ≠ [] ∧
        (∀ it ∈ its, ∀ k' v' t, it.rest = (k', v') :: t → Bytes.cmp k k' ≠ .gt) := by
  induction its using snoc_induction with
  | h0 => left; simp [umLoop]
  | hs its it ih =>
    have hg' : ∀ it ∈ its, Good skip it := fun x hx => hg x (by simp [hx])
    have g : Good skip it := hg it (by simp)
    specialize ih hg'
    simp only [List.map_append, List.map_cons, List.map_nil, umLoop_snoc, List.length_map,
      Nat.zero_add, headHolders_snoc]
    rcases hr : it.rest with _ | ⟨⟨k', v'⟩, t⟩
    · -- drained: skipped
      have hsk := current_drained g hr
      have hstep : ∀ st, umStep skip st its.length it.current.1 it.current.2 = st := by
        intro st
        unfold umStep
        unfold skipCond at hsk
        rw [if_pos hsk]
      rw [hstep]
      rcases ih with ⟨h1, h2⟩ | ⟨k, h1, h2, h3, h4⟩
      · left
        refine ⟨?_, h2⟩
        intro x hx
        rcases List.mem_append.1 hx with hx | hx
        · exact h1 x hx
        · simp at hx; subst hx; exact hr
      · right
        refine ⟨k, h1, by simpa using h2, by simpa using h3, ?_⟩
        intro x hx k'' v'' t'' hx'
        rcases List.mem_append.1 hx with hx | hx
        · exact h4 x hx k'' v'' t'' hx'
        · simp at hx; subst hx; rw [hr] at hx'; cases hx'
    · obtain ⟨hc, hns⟩ := current_live g hr
      rw [hc]
      right
      have hstep : ∀ st : Key × List Nat, umStep skip st its.length (keyOf k') v' =
          (if Bytes.cmp k' st.1.bytes == .lt || st.2.length == 0 then (keyOf k', [its.length])
           else if Bytes.cmp k' st.1.bytes == .eq then (st.1, st.2 ++ [its.length]) else st) := by
        intro st
        have hns' : (((keyOf k').isNone && v' == 0) || ((keyOf k').bytes.length == 0 && skip))
            = false := hns
        rw [keyOf_bytes] at hns'
        simp only [umStep, keyOf_bytes, hns', Bool.false_eq_true, if_false]
      rw [hstep]
      rcases ih with ⟨h1, h2⟩ | ⟨k, h1, h2, h3, h4⟩
      · -- first live iterator
        rw [h2]
        refine ⟨k', ?_⟩
        have hnil : headHolders k' (its.map (·.rest)) 0 = [] := by
          apply headHolders_eq_nil
          intro l hl k'' v'' t'' hl'
          obtain ⟨x, hx, rfl⟩ := List.mem_map.1 hl
          rw [h1 x hx] at hl'; cases hl'
        simp only [List.length_nil, beq_self_eq_true, Bool.or_true, if_true, hnil, List.nil_append,
          if_pos, List.map_cons, List.map_nil, List.length_map, true_and]
        refine ⟨by simp, ?_⟩
        intro x hx k'' v'' t'' hx'
        rcases List.mem_append.1 hx with hx | hx
        · rw [h1 x hx] at hx'; cases hx'
        · simp at hx; subst hx; rw [hr] at hx'; cases hx'
          rw [Bytes.cmp_self]; simp
      · have hne : (umLoop skip (its.map VIter.current) 0 (none, [])).2.length ≠ 0 := by
          rw [h2]; simpa using h3
        rw [h1, keyOf_bytes]
        rcases hcmp : Bytes.cmp k' k with _ | _ | _
        · -- a new low
          refine ⟨k', ?_⟩
          have hnil : headHolders k' (its.map (·.rest)) 0 = [] := by
            apply headHolders_eq_nil
            intro l hl k'' v'' t'' hl' he
            obtain ⟨x, hx, rfl⟩ := List.mem_map.1 hl
            subst he
            have := h4 x hx k'' v'' t'' hl'
            exact this ((Bytes.cmp_swap _ _).2 hcmp)
          simp only [beq_self_eq_true, Bool.true_or, if_true, hnil, List.nil_append,
            List.map_cons, List.map_nil, List.length_map, true_and]
          refine ⟨by simp, ?_⟩
          intro x hx k'' v'' t'' hx'
          rcases List.mem_append.1 hx with hx | hx
          · have := h4 x hx k'' v'' t'' hx'
            intro hgt
            have h5 : Bytes.cmp k'' k' = .lt := (Bytes.cmp_swap _ _).1 hgt
            have h6 := Bytes.cmp_lt_trans h5 hcmp
            exact this ((Bytes.cmp_swap _ _).2 h6)
          · simp at hx; subst hx; rw [hr] at hx'; cases hx'
            rw [Bytes.cmp_self]; simp
        · -- the same key
          have hkk : k' = k := (Bytes.cmp_eq_iff _ _).1 hcmp
          subst hkk
          refine ⟨k', ?_⟩
          simp [h1, h2, h3]
          intro x hx k'' v'' t'' hx'
          rcases hx with hx | hx
          · exact h4 x hx k'' v'' t'' hx'
          · subst hx; rw [hr] at hx'; cases hx'
            rw [Bytes.cmp_self]; simp
        · -- larger
          have hkk : k' ≠ k := by
            intro he; subst he; rw [Bytes.cmp_self] at hcmp; cases hcmp
          refine ⟨k, ?_⟩
          simp [h1, h2, h3, hkk]
          intro x hx k'' v'' t'' hx'
          rcases hx with hx | hx
          · exact h4 x hx k'' v'' t'' hx'
          · subst hx; rw [hr] at hx'; cases hx'
            intro hgt
            rw [(Bytes.cmp_swap _ _).1 hgt] at hcmp; cases hcmp

/-! ### membership in `headHolders` -/

theorem headHolders_cons (k : Bytes) (l : List (Bytes × Nat)) (ls : List (List (Bytes × Nat)))
    (i : Nat) :
    headHolders k (l :: ls) i =
      (match l with
       | (k', v) :: _ => if k' = k then [(i, v)] else []
       | [] => []) ++ headHolders k ls (i + 1) := by
  simp only [headHolders, List.zipIdx_cons, List.filterMap_cons]
  cases l with
  | nil => rfl
  | cons p t =>
    obtain ⟨k', v⟩ := p
    by_cases h : k' = k <;> simp [h]

theorem mem_headHolders (k : Bytes) (ls : List (List (Bytes × Nat))) (i j v : Nat) :
    (j, v) ∈ headHolders k ls i ↔ i ≤ j ∧ ∃ t, ls[j - i]? = some ((k, v) :: t) := by
  induction ls generalizing i with
  | nil => simp [headHolders]
  | cons l ls ih =>
    rw [headHolders_cons, List.mem_append, ih]
    constructor
    · rintro (h | ⟨h1, t, h2⟩)
      · rcases l with _ | ⟨⟨k', v'⟩, t⟩
        · simp at h
        · by_cases hk : k' = k
          · simp [hk] at h
            obtain ⟨rfl, rfl⟩ := h
            exact ⟨Nat.le_refl _, t, by simp [hk]⟩
          · simp [hk] at h
      · refine ⟨by omega, t, ?_⟩
        have : j - i = (j - (i + 1)) + 1 := by omega
        rw [this, List.getElem?_cons_succ]; exact h2
    · rintro ⟨h1, t, h2⟩
      by_cases hji : j = i
      · subst hji
        left
        simp at h2
        subst h2
        simp
      · right
        refine ⟨by omega, t, ?_⟩
        have : j - i = (j - (i + 1)) + 1 := by omega
        rw [this, List.getElem?_cons_succ] at h2; exact h2

theorem headHolders_fst_lt (k : Bytes) (ls : List (List (Bytes × Nat))) (i : Nat) :
    ((headHolders k ls i).map (·.1)).Pairwise (· < ·) := by
  induction ls generalizing i with
  | nil => simp [headHolders]
  | cons l ls ih =>
    rw [headHolders_cons, List.map_append, List.pairwise_append]
    refine ⟨?_, ih (i + 1), ?_⟩
    · rcases l with _ | ⟨⟨k', v'⟩, t⟩
      · simp
      · by_cases hk : k' = k <;> simp [hk]
    · intro a ha b hb
      obtain ⟨⟨j, v⟩, hjv, rfl⟩ := List.mem_map.1 hb
      have := ((mem_headHolders k ls (i + 1) j v).1 hjv).1
      rcases l with _ | ⟨⟨k', v'⟩, t⟩
      · simp at ha
      · by_cases hk : k' = k
        · simp [hk] at ha; rw [ha]; show i < j; omega
        · simp [hk] at ha

theorem headHolders_nodup (k : Bytes) (ls : List (List (Bytes × Nat))) (i : Nat) :
    ((headHolders k ls i).map (·.1)).Nodup :=
  (headHolders_fst_lt k ls i).imp (fun h => Nat.ne_of_lt h)

/-! ### inside a phase -/

/-- fold of a loop body over predicted deliveries -/
def foldBody {σ : Type}
    (body : σ → Key × Nat × Nat → Except MergeErr (List (Nat × Nat)) → Except MergeErr σ) :
    List ((Key × Nat × Nat) × List (Nat × Nat)) → σ → Except MergeErr σ
  | [], s => .ok s
  | (c, lw) :: r, s =>
    match body s c (.ok lw) with
    | .error e => .error e
    | .ok s' => foldBody body r s'

theorem foldBody_append {σ : Type}
    (body : σ → Key × Nat × Nat → Except MergeErr (List (Nat × Nat)) → Except MergeErr σ)
    (l₁ l₂ : List ((Key × Nat × Nat) × List (Nat × Nat))) (s : σ) :
    foldBody body (l₁ ++ l₂) s =
      match foldBody body l₁ s with
      | .error e => .error e
      | .ok s' => foldBody body l₂ s' := by
  induction l₁ generalizing s with
  | nil => rfl
  | cons a r ih =>
    obtain ⟨c, lw⟩ := a
    simp only [List.cons_append, foldBody]
    cases body s c (.ok lw) with
    | error e => rfl
    | ok s' => exact ih s'

theorem lowsLoop_eq (curr : List (Key × Nat)) (hs : List (Nat × Nat))
    (h : ∀ iv ∈ hs, ∃ key, curr[iv.1]? = some (key, iv.2)) :
    lowsLoop curr (hs.map (·.1)) = .ok hs := by
  induction hs with
  | nil => rfl
  | cons a r ih =>
    obtain ⟨key, hk⟩ := h a (by simp)
    simp only [List.map_cons, lowsLoop, hk, ih (fun iv hiv => h iv (by simp [hiv]))]

section Within
variable {σ : Type}
  (body : σ → Key × Nat × Nat → Except MergeErr (List (Nat × Nat)) → Except MergeErr σ)
  (m : Enum) (hs : List (Nat × Nat))
  (h1 : m.lowIdxs = hs.map (·.1))
  (h2 : ∀ iv ∈ hs, ∃ key, m.curr[iv.1]? = some (key, iv.2))
include h1 h2

theorem current_at (c : Nat) (hc : c < hs.length) :
    Enum.current { m with lowCurr := c } = .ok (m.lowK, hs[c].1, hs[c].2) := by
  obtain ⟨key, hk⟩ := h2 hs[c] (List.getElem_mem _)
  simp only [Enum.current, h1, List.length_map, hc, if_true, List.getElem?_map,
    List.getElem?_eq_getElem hc, Option.map_some, hk]

theorem lows_at (c : Nat) : Enum.lows { m with lowCurr := c } = .ok hs := by
  simp only [Enum.lows, h1]
  exact lowsLoop_eq _ _ h2

theorem next_within (c : Nat) (hc : c + 1 < hs.length) :
    Enum.next { m with lowCurr := c } = .ok ({ m with lowCurr := c + 1 }, false) := by
  have : ¬ (c + 1 ≥ (hs.map (·.1)).length) := by rw [List.length_map]; omega
  simp only [Enum.next, h1, this, if_false, Enum.isDone]
  have h4 : hs ≠ [] := by intro h; subst h; simp at hc
  have h3 : ((hs.map (·.1)).length == 0) = false := by simp [h4]
  rw [h3]; simp

theorem loop_within (F : Nat) : ∀ (j c : Nat) (s : σ), c + (j + 1) = hs.length →
    Enum.loop body (F + (j + 1)) { m with lowCurr := c } s =
      match foldBody body ((hs.drop c).map (fun iv => ((m.lowK, iv.1, iv.2), hs))) s with
      | .error e => .error e
      | .ok s' =>
        match Enum.next { m with lowCurr := hs.length - 1 } with
        | .error e => .error e
        | .ok (m', done) => if done then .ok s' else Enum.loop body F m' s' := by
  intro j
  induction j with
  | zero =>
    intro c s hc
    have hc' : c < hs.length := by omega
    have hd : hs.drop c = [hs[c]] := by
      rw [List.drop_eq_getElem_cons hc', List.drop_eq_nil_of_le (by omega)]
    have hcc : hs.length - 1 = c := by omega
    simp only [Nat.zero_add, Enum.loop, current_at m hs h1 h2 c hc', lows_at m hs h1 h2 c, hd,
      List.map_cons, List.map_nil, foldBody, hcc]
    cases body s (m.lowK, hs[c].1, hs[c].2) (.ok hs) with
    | error e => rfl
    | ok s' => rfl
  | succ j ih =>
    intro c s hc
    have hc' : c < hs.length := by omega
    have hd : hs.drop c = hs[c] :: hs.drop (c + 1) := List.drop_eq_getElem_cons hc'
    have e : F + (j + 1 + 1) = (F + (j + 1)) + 1 := rfl
    rw [e]
    simp only [Enum.loop, current_at m hs h1 h2 c hc', lows_at m hs h1 h2 c, hd,
      List.map_cons, foldBody]
    cases body s (m.lowK, hs[c].1, hs[c].2) (.ok hs) with
    | error e => rfl
    | ok s' =>
      simp only [next_within m hs h1 h2 c (by omega)]
      exact ih (c + 1) s' (by omega)

end Within

/-! ### from one phase to the next -/

theorem advance_spec (I : List Nat) (hI : I.Nodup) : ∀ (m : Enum),
    m.curr = m.itrs.map VIter.current → (∀ i ∈ I, i < m.itrs.length) →
    ∃ m', Enum.advance m I = .ok m' ∧ m'.curr = m'.itrs.map VIter.current ∧
      ∀ j, m'.itrs[j]? = if j ∈ I then (m.itrs[j]?).map (fun it => it.next.1) else m.itrs[j]? := by
  induction I with
  | nil => intro m hm _; exact ⟨m, rfl, hm, by simp⟩
  | cons vi r ih =>
    intro m hm hlt
    have hvi : vi < m.itrs.length := hlt vi (by simp)
    have hnd := List.nodup_cons.1 hI
    have hcl : vi < m.curr.length := by rw [hm]; simpa using hvi
    simp only [Enum.advance, List.getElem?_eq_getElem hvi, hcl, if_true]
    obtain ⟨m', h1, h2, h3⟩ := ih hnd.2
      { m with itrs := m.itrs.set vi (m.itrs[vi].next.1),
               curr := m.curr.set vi (m.itrs[vi].next.1).current }
      (by simp only [hm, List.map_set])
      (by intro i hi; simp only [List.length_set]; exact hlt i (by simp [hi]))
    refine ⟨m', h1, h2, ?_⟩
    intro j
    rw [h3 j]
    simp only [List.getElem?_set, List.mem_cons]
    by_cases hjr : j ∈ r
    · have hne : vi ≠ j := by intro e; subst e; exact hnd.1 hjr
      simp [hjr, hne]
    · by_cases hj : vi = j
      · subst hj
        simp [hjr, hvi]
      · have hj' : ¬ j = vi := fun e => hj e.symm
        simp [hjr, hj, hj']

/-- the step of one iterator at the end of the phase of key `k` -/
def advIt (k : Bytes) (it : VIter) : VIter :=
  match it.rest with
  | (k', _) :: _ => if k' = k then it.next.1 else it
  | [] => it

def advL (k : Bytes) (l : List (Bytes × Nat)) : List (Bytes × Nat) :=
  match l with
  | (k', v) :: t => if k' = k then t else (k', v) :: t
  | [] => []

theorem advIt_rest (k : Bytes) (it : VIter) : (advIt k it).rest = advL k it.rest := by
  unfold advIt advL
  rcases h : it.rest with _ | ⟨⟨k', v⟩, t⟩
  · simp [h]
  · by_cases hk : k' = k <;> simp [hk, VIter.next, h]

def mkE (its : List VIter) : Enum :=
  { itrs := its, curr := its.map VIter.current, lowK := none, lowIdxs := [], lowCurr := 0 }

/-- the enumerator right after `updateMatches skip` -/
def phaseState (skip : Bool) (its : List VIter) : Enum := (mkE its).updateMatches skip

theorem updateMatches_eq (skip : Bool) (m : Enum) (its : List VIter) (h1 : m.itrs = its)
    (h2 : m.curr = its.map VIter.current) : m.updateMatches skip = phaseState skip its := by
  simp only [Enum.updateMatches, phaseState, mkE, h1, h2]

theorem next_phase (k : Bytes) (its : List VIter) (m : Enum) (h1 : m.itrs = its)
    (h2 : m.curr = its.map VIter.current)
    (h3 : m.lowIdxs = (headHolders k (its.map (·.rest)) 0).map (·.1))
    (hc : m.lowCurr + 1 ≥ m.lowIdxs.length) :
    Enum.next m = .ok (phaseState true (its.map (advIt k)),
                       (phaseState true (its.map (advIt k))).isDone) := by
  obtain ⟨m', ha, hb, hcc⟩ := advance_spec m.lowIdxs (by rw [h3]; exact headHolders_nodup _ _ _)
    { m with lowCurr := m.lowCurr + 1 } (by simp [h1, h2]) (by
      intro i hi
      rw [h3] at hi
      obtain ⟨⟨j, v⟩, hjv, rfl⟩ := List.mem_map.1 hi
      obtain ⟨_, t, ht⟩ := (mem_headHolders _ _ _ _ _).1 hjv
      have := (List.getElem?_eq_some_iff.1 ht).1
      simpa [h1] using this)
  have hits : m'.itrs = its.map (advIt k) := by
    apply List.ext_getElem?
    intro j
    rw [hcc j, List.getElem?_map]
    simp only [h1, h3]
    rcases hj : its[j]? with _ | it
    · simp
    · simp only [Option.map_some]
      have hmem : j ∈ (headHolders k (its.map (·.rest)) 0).map (·.1) ↔
          ∃ v t, it.rest = (k, v) :: t := by
        constructor
        · intro h
          obtain ⟨⟨j', v⟩, hjv, rfl⟩ := List.mem_map.1 h
          obtain ⟨_, t, ht⟩ := (mem_headHolders _ _ _ _ _).1 hjv
          simp only [Nat.sub_zero, List.getElem?_map, hj, Option.map_some, Option.some.injEq] at ht
          exact ⟨v, t, ht⟩
        · rintro ⟨v, t, ht⟩
          refine List.mem_map.2 ⟨(j, v), ?_, rfl⟩
          exact (mem_headHolders _ _ _ _ _).2 ⟨Nat.zero_le _, t, by simp [hj, ht]⟩
      by_cases hm : j ∈ (headHolders k (its.map (·.rest)) 0).map (·.1)
      · obtain ⟨v, t, ht⟩ := hmem.1 hm
        rw [if_pos hm]
        simp [advIt, ht]
      · rw [if_neg hm]
        congr 1
        unfold advIt
        rcases hr : it.rest with _ | ⟨⟨k', v'⟩, t'⟩
        · rfl
        · by_cases hk : k' = k
          · subst hk; exact absurd (hmem.2 ⟨v', t', hr⟩) hm
          · simp [hk]
  have hnext : Enum.next m = .ok (m'.updateMatches true, (m'.updateMatches true).isDone) := by
    simp only [Enum.next, hc, if_true, ha]
  rw [hnext, updateMatches_eq true m' (its.map (advIt k)) hits (by rw [hb, hits])]

theorem asc_tail_gt {k : Bytes} {v : Nat} {t : List (Bytes × Nat)}
    (h : Asc (((k, v) :: t).map (·.1))) : ∀ p ∈ t, Bytes.cmp k p.1 = .lt := by
  intro p hp
  simp only [List.map_cons] at h
  exact (List.pairwise_cons.1 h).1 p.1 (List.mem_map.2 ⟨p, hp, rfl⟩)

/-- after the phase of the least key every remaining key is larger, hence not empty -/
theorem good_advIt {skip : Bool} {k : Bytes} {it : VIter} (g : Good skip it)
    (hmin : ∀ k' v' t, it.rest = (k', v') :: t → Bytes.cmp k k' ≠ .gt) :
    Good true (advIt k it) ∧ ∀ p ∈ (advIt k it).rest, Bytes.cmp k p.1 = .lt := by
  have key : Asc ((advL k it.rest).map (·.1)) ∧ ∀ p ∈ advL k it.rest, Bytes.cmp k p.1 = .lt := by
    unfold advL
    rcases hr : it.rest with _ | ⟨⟨k', v'⟩, t⟩
    · simp
    · have hasc := g.asc
      rw [hr] at hasc
      have htl := asc_tail_gt hasc
      by_cases hk : k' = k
      · subst hk
        simp only [if_true]
        refine ⟨?_, htl⟩
        simp only [List.map_cons] at hasc
        exact (List.pairwise_cons.1 hasc).2
      · simp only [hk, if_false]
        refine ⟨hasc, ?_⟩
        have hlt : Bytes.cmp k k' = .lt := by
          have h1 := hmin k' v' t hr
          rcases hc : Bytes.cmp k k' with _ | _ | _
          · rfl
          · exact absurd ((Bytes.cmp_eq_iff _ _).1 hc).symm hk
          · exact absurd hc h1
        intro p hp
        rcases List.mem_cons.1 hp with rfl | hp
        · exact hlt
        · exact Bytes.cmp_lt_trans hlt (htl p hp)
  have e := advIt_rest k it
  refine ⟨⟨by rw [e]; exact key.1, ?_, by intro h; cases h⟩, by rw [e]; exact key.2⟩
  intro _ p hp
  rw [e] at hp
  exact ne_nil_of_lt (key.2 p hp)

theorem total_advL (k : Bytes) (ls : List (List (Bytes × Nat))) (i : Nat) :
    ((ls.map (advL k)).map List.length).sum + (headHolders k ls i).length =
      (ls.map List.length).sum := by
  induction ls generalizing i with
  | nil => simp [headHolders]
  | cons l ls ih =>
    rw [headHolders_cons]
    simp only [List.map_cons, List.sum_cons, List.length_append]
    have := ih (i + 1)
    simp only [List.map_map] at this
    rcases l with _ | ⟨⟨k', v'⟩, t⟩
    · simp [advL]; omega
    · by_cases hk : k' = k
      · simp [advL, hk]; omega
      · simp [advL, hk]; omega

/-! ### the closed form of the deliveries -/

/-- the value of key `k` in an FST -/
def lookupK {β : Type} (k : Bytes) : List (Bytes × β) → Option β
  | [] => none
  | (k', v) :: r => if k' = k then some v else lookupK k r

/-- (iterator index, value) for every iterator holding `k`, in index order -/
def holdersAt (ls : List (List (Bytes × Nat))) (k : Bytes) (i : Nat) : List (Nat × Nat) :=
  (ls.zipIdx i).filterMap (fun p => (lookupK k p.1).map (fun v => (p.2, v)))

def holders (ls : List (List (Bytes × Nat))) (k : Bytes) : List (Nat × Nat) := holdersAt ls k 0

/-- all keys, ascending, each once -/
def allKeys (ls : List (List (Bytes × Nat))) : List Bytes :=
  sortDedup (ls.flatMap (fun l => l.map (·.1)))

/-- what an enumerator over iterators with contents `ls` delivers: for every key in ascending
    order, for every iterator holding it in index order, `(key, index, value)` - together with
    the answer of `GetLowIdxsAndValues` at that moment -/
def expectedFull (ls : List (List (Bytes × Nat))) :
    List ((Key × Nat × Nat) × List (Nat × Nat)) :=
  (allKeys ls).flatMap (fun k =>
    (holders ls k).map (fun iv => ((keyOf k, iv.1, iv.2), holders ls k)))

theorem lookupK_eq_none {β : Type} (k : Bytes) (l : List (Bytes × β))
    (h : ∀ p ∈ l, p.1 ≠ k) : lookupK k l = none := by
  induction l with
  | nil => rfl
  | cons p r ih =>
    obtain ⟨k', v⟩ := p
    have : k' ≠ k := h (k', v) (by simp)
    simp only [lookupK, this, if_false]
    exact ih (fun p hp => h p (by simp [hp]))

theorem lookupK_head {β : Type} (k : Bytes) (l : List (Bytes × β)) (hasc : Asc (l.map (·.1)))
    (hmin : ∀ k' v' t, l = (k', v') :: t → Bytes.cmp k k' ≠ .gt) :
    lookupK k l = match l with
      | (k', v) :: _ => if k' = k then some v else none
      | [] => none := by
  rcases l with _ | ⟨⟨k', v'⟩, t⟩
  · rfl
  · simp only [lookupK]
    by_cases hk : k' = k
    · simp [hk]
    · simp only [hk, if_false]
      apply lookupK_eq_none
      intro p hp he
      have h1 : Bytes.cmp k' p.1 = .lt := by
        simp only [List.map_cons] at hasc
        exact (List.pairwise_cons.1 hasc).1 p.1 (List.mem_map.2 ⟨p, hp, rfl⟩)
      rw [he] at h1
      exact hmin k' v' t rfl ((Bytes.cmp_swap _ _).2 h1)

theorem holdersAt_eq_head (k : Bytes) (ls : List (List (Bytes × Nat))) (i : Nat)
    (hasc : ∀ l ∈ ls, Asc (l.map (·.1)))
    (hmin : ∀ l ∈ ls, ∀ k' v' t, l = (k', v') :: t → Bytes.cmp k k' ≠ .gt) :
    holdersAt ls k i = headHolders k ls i := by
  induction ls generalizing i with
  | nil => rfl
  | cons l ls ih =>
    rw [headHolders_cons, ← ih (i + 1) (fun l hl => hasc l (by simp [hl]))
      (fun l hl => hmin l (by simp [hl]))]
    simp only [holdersAt, List.zipIdx_cons, List.filterMap_cons]
    rw [lookupK_head k l (hasc l (by simp)) (hmin l (by simp))]
    rcases l with _ | ⟨⟨k', v'⟩, t⟩
    · rfl
    · by_cases hk : k' = k <;> simp [hk]

theorem lookupK_advL (k x : Bytes) (l : List (Bytes × Nat)) (h : x ≠ k) :
    lookupK x (advL k l) = lookupK x l := by
  unfold advL
  rcases l with _ | ⟨⟨k', v'⟩, t⟩
  · rfl
  · by_cases hk : k' = k
    · subst hk
      have : ¬ k' = x := fun e => h e.symm
      simp [lookupK, this]
    · simp [hk]

theorem holdersAt_advL (k x : Bytes) (ls : List (List (Bytes × Nat))) (i : Nat) (h : x ≠ k) :
    holdersAt (ls.map (advL k)) x i = holdersAt ls x i := by
  induction ls generalizing i with
  | nil => rfl
  | cons l ls ih =>
    simp only [holdersAt, List.map_cons, List.zipIdx_cons, List.filterMap_cons] at ih ⊢
    rw [lookupK_advL k x l h, ih (i + 1)]

theorem mem_advL {k : Bytes} {l : List (Bytes × Nat)} {p : Bytes × Nat} (h : p ∈ advL k l) :
    p ∈ l := by
  unfold advL at h
  rcases l with _ | ⟨⟨k', v'⟩, t⟩
  · simp at h
  · by_cases hk : k' = k
    · simp [hk] at h; simp [h]
    · simpa [hk] using h

theorem mem_or_advL {k : Bytes} {l : List (Bytes × Nat)} {p : Bytes × Nat} (h : p ∈ l) :
    p.1 = k ∨ p ∈ advL k l := by
  unfold advL
  rcases l with _ | ⟨⟨k', v'⟩, t⟩
  · simp at h
  · by_cases hk : k' = k
    · simp only [hk, if_true]
      rcases List.mem_cons.1 h with rfl | h
      · left; exact hk
      · right; exact h
    · simp only [hk, if_false]; right; exact h

/-- the least first key is the first key of the ascending union, and the rest is the ascending
    union of what remains after the phase -/
theorem allKeys_phase (k : Bytes) (ls : List (List (Bytes × Nat)))
    (hasc : ∀ l ∈ ls, Asc (l.map (·.1)))
    (hmin : ∀ l ∈ ls, ∀ k' v' t, l = (k', v') :: t → Bytes.cmp k k' ≠ .gt)
    (hk : headHolders k ls 0 ≠ []) :
    allKeys ls = k :: allKeys (ls.map (advL k)) ∧
      ∀ x ∈ allKeys (ls.map (advL k)), Bytes.cmp k x = .lt := by
  have hgt : ∀ x ∈ allKeys (ls.map (advL k)), Bytes.cmp k x = .lt := by
    intro x hx
    simp only [allKeys, mem_sortDedup, List.mem_flatMap, List.mem_map] at hx
    obtain ⟨l', ⟨l, hl, rfl⟩, p, hp, rfl⟩ := hx
    have key : ∀ p ∈ advL k l, Bytes.cmp k p.1 = .lt := by
      unfold advL
      rcases l with _ | ⟨⟨k', v'⟩, t⟩
      · simp
      · have hasc' := hasc _ hl
        have htl := asc_tail_gt hasc'
        by_cases hkk : k' = k
        · subst hkk; simpa using htl
        · simp only [hkk, if_false]
          have hlt : Bytes.cmp k k' = .lt := by
            have h1 := hmin _ hl k' v' t rfl
            rcases hc : Bytes.cmp k k' with _ | _ | _
            · rfl
            · exact absurd ((Bytes.cmp_eq_iff _ _).1 hc).symm hkk
            · exact absurd hc h1
          intro p hp
          rcases List.mem_cons.1 hp with rfl | hp
          · exact hlt
          · exact Bytes.cmp_lt_trans hlt (htl p hp)
    exact key p hp
  refine ⟨?_, hgt⟩
  apply asc_ext (asc_sortDedup _)
  · exact List.pairwise_cons.2 ⟨hgt, asc_sortDedup _⟩
  · intro x
    simp only [allKeys, List.mem_cons, mem_sortDedup, List.mem_flatMap, List.mem_map]
    constructor
    · rintro ⟨l, hl, p, hp, rfl⟩
      rcases mem_or_advL (k := k) hp with h | h
      · left; exact h
      · right; exact ⟨advL k l, ⟨l, hl, rfl⟩, p, h, rfl⟩
    · rintro (rfl | ⟨l', ⟨l, hl, rfl⟩, p, hp, rfl⟩)
      · obtain ⟨⟨j, v⟩, hjv⟩ := List.exists_mem_of_ne_nil _ hk
        obtain ⟨_, t, ht⟩ := (mem_headHolders _ _ _ _ _).1 hjv
        exact ⟨_, List.mem_of_getElem? ht, (x, v), by simp, rfl⟩
      · exact ⟨l, hl, p, mem_advL hp, rfl⟩

theorem expectedFull_phase (k : Bytes) (ls : List (List (Bytes × Nat)))
    (hasc : ∀ l ∈ ls, Asc (l.map (·.1)))
    (hmin : ∀ l ∈ ls, ∀ k' v' t, l = (k', v') :: t → Bytes.cmp k k' ≠ .gt)
    (hk : headHolders k ls 0 ≠ []) :
    expectedFull ls =
      (headHolders k ls 0).map (fun iv => ((keyOf k, iv.1, iv.2), headHolders k ls 0)) ++
      expectedFull (ls.map (advL k)) := by
  obtain ⟨h1, h2⟩ := allKeys_phase k ls hasc hmin hk
  unfold expectedFull
  rw [h1, List.flatMap_cons]
  congr 1
  · simp only [holders, holdersAt_eq_head k ls 0 hasc hmin]
  · apply Ice.Spec.flatMap_congr'
    intro x hx
    have hne : x ≠ k := by
      intro e; subst e
      exact Bytes.cmp_lt_irrefl _ (h2 x hx)
    simp only [holders, holdersAt_advL k x ls 0 hne]

/-! ### the whole run -/

theorem fuelFor_eq (its : List VIter) :
    fuelFor its = ((its.map (·.rest)).map List.length).sum := by
  simp [fuelFor, List.map_map, Function.comp_def]

theorem all_nil_of_fuel_zero (its : List VIter) (h : fuelFor its = 0) :
    ∀ it ∈ its, it.rest = [] := by
  induction its with
  | nil => simp
  | cons a r ih =>
    simp only [fuelFor, List.map_cons, List.sum_cons] at h
    intro it hit
    rcases List.mem_cons.1 hit with rfl | hit
    · exact List.eq_nil_of_length_eq_zero (by omega)
    · exact ih (by simp only [fuelFor]; omega) it hit

theorem fuel_zero_of_all_nil (its : List VIter) (h : ∀ it ∈ its, it.rest = []) :
    fuelFor its = 0 := by
  induction its with
  | nil => rfl
  | cons a r ih =>
    simp only [fuelFor, List.map_cons, List.sum_cons, h a (by simp), List.length_nil, Nat.zero_add]
    exact ih (fun it hit => h it (by simp [hit]))

theorem expectedFull_nil (ls : List (List (Bytes × Nat))) (h : ∀ l ∈ ls, l = []) :
    expectedFull ls = [] := by
  have : ls.flatMap (fun l => l.map (·.1)) = [] := by
    rw [List.flatMap_eq_nil_iff]
    intro l hl; rw [h l hl]; rfl
  simp [expectedFull, allKeys, this, sortDedup]

theorem phaseState_done (skip : Bool) (its : List VIter) (hg : ∀ it ∈ its, Good skip it)
    (h : fuelFor its = 0) : (phaseState skip its).isDone = true := by
  rcases umLoop_spec skip its hg with ⟨_, h2⟩ | ⟨k, _, _, h3, _⟩
  · simp [phaseState, Enum.updateMatches, mkE, Enum.isDone, h2]
  · exfalso
    obtain ⟨⟨j, v⟩, hjv⟩ := List.exists_mem_of_ne_nil _ h3
    obtain ⟨_, t, ht⟩ := (mem_headHolders _ _ _ _ _).1 hjv
    simp only [Nat.sub_zero, List.getElem?_map] at ht
    rcases hj : its[j]? with _ | it
    · simp [hj] at ht
    · simp only [hj, Option.map_some, Option.some.injEq] at ht
      have := all_nil_of_fuel_zero its h it (List.mem_of_getElem? hj)
      rw [this] at ht; cases ht

/-- the enumerator loop is the fold of the body over the closed-form deliveries; fuel
    `fuelFor its` (one round per (key, iterator) pair) or anything larger suffices -/
theorem loop_phases {σ : Type}
    (body : σ → Key × Nat × Nat → Except MergeErr (List (Nat × Nat)) → Except MergeErr σ) :
    ∀ (n : Nat) (skip : Bool) (its : List VIter), (∀ it ∈ its, Good skip it) →
      fuelFor its = n → n ≠ 0 → ∀ (extra : Nat) (s : σ),
      (phaseState skip its).isDone = false ∧
      Enum.loop body (extra + n) (phaseState skip its) s =
        foldBody body (expectedFull (its.map (·.rest))) s := by
  intro n
  induction n using Nat.strongRecOn with
  | ind n ih =>
    intro skip its hg hn hn0 extra s
    rcases umLoop_spec skip its hg with ⟨h1, _⟩ | ⟨k, h1, h2, h3, h4⟩
    · exact absurd (hn.symm.trans (fuel_zero_of_all_nil its h1)) hn0
    · let hs := headHolders k (its.map (·.rest)) 0
      let m := phaseState skip its
      have hm1 : m.lowIdxs = hs.map (·.1) := h2
      have hmK : m.lowK = keyOf k := h1
      have hm2 : ∀ iv ∈ hs, ∃ key, m.curr[iv.1]? = some (key, iv.2) := by
        intro iv hiv
        obtain ⟨_, t, ht⟩ := (mem_headHolders k _ 0 iv.1 iv.2).1 hiv
        simp only [Nat.sub_zero, List.getElem?_map] at ht
        rcases hj : its[iv.1]? with _ | it
        · simp [hj] at ht
        · simp only [hj, Option.map_some, Option.some.injEq] at ht
          have hc := (current_live (hg it (List.mem_of_getElem? hj)) ht).1
          refine ⟨keyOf k, ?_⟩
          show (its.map VIter.current)[iv.1]? = _
          rw [List.getElem?_map, hj, Option.map_some, hc]
      have hlen : 1 ≤ hs.length := by
        rcases hh : hs with _ | ⟨a, r⟩
        · exact absurd hh h3
        · simp
      have hasc : ∀ l ∈ its.map (·.rest), Asc (l.map (·.1)) := by
        intro l hl
        obtain ⟨it, hit, rfl⟩ := List.mem_map.1 hl
        exact (hg it hit).asc
      have hmin : ∀ l ∈ its.map (·.rest), ∀ k' v' t, l = (k', v') :: t →
          Bytes.cmp k k' ≠ .gt := by
        intro l hl
        obtain ⟨it, hit, rfl⟩ := List.mem_map.1 hl
        exact h4 it hit
      have hg' : ∀ it ∈ its.map (advIt k), Good true it := by
        intro it' hit'
        obtain ⟨it, hit, rfl⟩ := List.mem_map.1 hit'
        exact (good_advIt (hg it hit) (h4 it hit)).1
      have hrest' : (its.map (advIt k)).map (·.rest) = (its.map (·.rest)).map (advL k) := by
        simp only [List.map_map]
        apply List.map_congr_left
        intro it _
        exact advIt_rest k it
      have htot : fuelFor (its.map (advIt k)) + hs.length = n := by
        rw [fuelFor_eq, hrest', total_advL k (its.map (·.rest)) 0, ← fuelFor_eq, hn]
      have hdone : (m.isDone) = false := by
        have : m.lowIdxs.length ≠ 0 := by rw [hm1, List.length_map]; omega
        simp [Enum.isDone, this]
      refine ⟨hdone, ?_⟩
      have hfuel : extra + n = (extra + fuelFor (its.map (advIt k))) + ((hs.length - 1) + 1) := by
        omega
      have hm0 : phaseState skip its = { m with lowCurr := 0 } := rfl
      rw [hfuel, hm0, loop_within body m hs hm1 hm2 _ (hs.length - 1) 0 s (by omega)]
      rw [expectedFull_phase k (its.map (·.rest)) hasc hmin h3, foldBody_append, List.drop_zero, hmK]
      cases foldBody body (hs.map fun iv => ((keyOf k, iv.1, iv.2), hs)) s with
      | error e => rfl
      | ok s' =>
        simp only []
        rw [next_phase k its { m with lowK := keyOf k, lowCurr := hs.length - 1 } rfl rfl hm1
          (by show hs.length - 1 + 1 ≥ m.lowIdxs.length; rw [hm1, List.length_map]; omega)]
        simp only []
        by_cases hz : fuelFor (its.map (advIt k)) = 0
        · rw [phaseState_done true _ hg' hz, if_pos rfl, ← hrest',
            expectedFull_nil _ (by
              intro l hl
              obtain ⟨it, hit, rfl⟩ := List.mem_map.1 hl
              exact all_nil_of_fuel_zero _ hz it hit)]
          rfl
        · obtain ⟨hd, hl⟩ := ih (fuelFor (its.map (advIt k))) (by omega) true (its.map (advIt k))
            hg' rfl hz extra s'
          rw [hd, ← hrest']
          simpa using hl

/-! ### statements for users -/

/-- the contract on the FSTs handed to an enumerator: keys strictly ascending, and the value of
    the empty key is not 0 (ice never stores 0: a value is a postings offset > 0 or a 1-hit
    code, `encode1Hit_pos`) -/
structure WFIters (ls : List (List (Bytes × Nat))) : Prop where
  asc : ∀ l ∈ ls, Asc (l.map (·.1))
  nz : ∀ l ∈ ls, ∀ v, ([], v) ∈ l → v ≠ 0

theorem fresh_rest (l : List (Bytes × Nat)) : (VIter.fresh l).rest = l := rfl

theorem map_fresh_rest (ls : List (List (Bytes × Nat))) :
    (ls.map VIter.fresh).map (·.rest) = ls := by
  simp [List.map_map, Function.comp_def, fresh_rest]

theorem good_fresh {ls : List (List (Bytes × Nat))} (h : WFIters ls) :
    ∀ it ∈ ls.map VIter.fresh, Good false it := by
  intro it hit
  obtain ⟨l, hl, rfl⟩ := List.mem_map.1 hit
  exact ⟨h.asc l hl, fun h' => Bool.noConfusion h', fun _ => ⟨rfl, h.nz l hl⟩⟩

theorem fuelFor_fresh (ls : List (List (Bytes × Nat))) :
    fuelFor (ls.map VIter.fresh) = (ls.map List.length).sum := by
  rw [fuelFor_eq, map_fresh_rest]

theorem new_eq (its : List VIter) :
    Enum.new its = (phaseState false its, (phaseState false its).isDone) := rfl

/-- `newEnumerator` reports `ErrIteratorDone` exactly when there is nothing to deliver -/
theorem new_done {ls : List (List (Bytes × Nat))} (h : WFIters ls) :
    (Enum.new (ls.map VIter.fresh)).2 = decide ((ls.map List.length).sum = 0) := by
  rw [new_eq]
  by_cases hz : (ls.map List.length).sum = 0
  · rw [phaseState_done false _ (good_fresh h) (by rw [fuelFor_fresh]; exact hz)]
    simp [hz]
  · have := (loop_phases (σ := Unit) (fun s _ _ => .ok s) _ false _ (good_fresh h) rfl
      (by rw [fuelFor_fresh]; exact hz) 0 ()).1
    rw [this]; simp [hz]

/-- **the loop theorem**: running any loop body over a fresh enumerator is folding the body over
    the closed-form deliveries `expectedFull`; the fuel `fuelFor` (or more) is never exhausted -/
theorem loop_spec {σ : Type}
    (body : σ → Key × Nat × Nat → Except MergeErr (List (Nat × Nat)) → Except MergeErr σ)
    {ls : List (List (Bytes × Nat))} (h : WFIters ls) (hne : (ls.map List.length).sum ≠ 0)
    (extra : Nat) (s : σ) :
    Enum.loop body (extra + fuelFor (ls.map VIter.fresh)) (Enum.new (ls.map VIter.fresh)).1 s =
      foldBody body (expectedFull ls) s := by
  have := (loop_phases body _ false _ (good_fresh h) rfl
      (by rw [fuelFor_fresh]; exact hne) extra s).2
  rw [map_fresh_rest] at this
  exact this

theorem foldBody_collect (l : List ((Key × Nat × Nat) × List (Nat × Nat)))
    (acc : List ((Key × Nat × Nat) × List (Nat × Nat))) :
    foldBody collectBody l acc = .ok (acc ++ l) := by
  induction l generalizing acc with
  | nil => simp [foldBody]
  | cons a r ih =>
    obtain ⟨c, lw⟩ := a
    simp only [foldBody, collectBody]
    rw [ih]; simp

theorem enumerateFull_spec {ls : List (List (Bytes × Nat))} (h : WFIters ls) :
    enumerateFull (ls.map VIter.fresh) = .ok (expectedFull ls) := by
  unfold enumerateFull
  have hd := new_done h
  by_cases hz : (ls.map List.length).sum = 0
  · have hall : ∀ l ∈ ls, l = [] := by
      intro l hl
      have := all_nil_of_fuel_zero (ls.map VIter.fresh) (by rw [fuelFor_fresh]; exact hz)
        (VIter.fresh l) (List.mem_map.2 ⟨l, hl, rfl⟩)
      exact this
    simp only [hd, hz, decide_true, if_true, expectedFull_nil ls hall]
  · have := loop_spec collectBody h hz 0 []
    simp only [Nat.zero_add] at this
    simp only [hd, hz, decide_false, Bool.false_eq_true, if_false]
    rw [this, foldBody_collect, List.nil_append]

/-! #### the closed form: membership and order -/

theorem mem_holdersAt (k : Bytes) (ls : List (List (Bytes × Nat))) (i j v : Nat) :
    (j, v) ∈ holdersAt ls k i ↔ i ≤ j ∧ ∃ l, ls[j - i]? = some l ∧ lookupK k l = some v := by
  induction ls generalizing i with
  | nil => simp [holdersAt]
  | cons l ls ih =>
    have hc : holdersAt (l :: ls) k i =
        (match lookupK k l with | some v => [(i, v)] | none => []) ++ holdersAt ls k (i + 1) := by
      simp only [holdersAt, List.zipIdx_cons, List.filterMap_cons]
      cases lookupK k l <;> simp
    rw [hc, List.mem_append, ih]
    constructor
    · rintro (h | ⟨h1, l', h2, h3⟩)
      · cases hl : lookupK k l with
        | none => simp [hl] at h
        | some v' =>
          simp [hl] at h
          obtain ⟨rfl, rfl⟩ := h
          exact ⟨Nat.le_refl _, l, by simp, hl⟩
      · refine ⟨by omega, l', ?_, h3⟩
        have : j - i = (j - (i + 1)) + 1 := by omega
        rw [this, List.getElem?_cons_succ]; exact h2
    · rintro ⟨h1, l', h2, h3⟩
      by_cases hji : j = i
      · subst hji
        left
        simp at h2
        subst h2
        simp [h3]
      · right
        refine ⟨by omega, l', ?_, h3⟩
        have : j - i = (j - (i + 1)) + 1 := by omega
        rw [this, List.getElem?_cons_succ] at h2; exact h2

theorem holdersAt_fst_lt (k : Bytes) (ls : List (List (Bytes × Nat))) (i : Nat) :
    ((holdersAt ls k i).map (·.1)).Pairwise (· < ·) := by
  induction ls generalizing i with
  | nil => simp [holdersAt]
  | cons l ls ih =>
    have hc : holdersAt (l :: ls) k i =
        (match lookupK k l with | some v => [(i, v)] | none => []) ++ holdersAt ls k (i + 1) := by
      simp only [holdersAt, List.zipIdx_cons, List.filterMap_cons]
      cases lookupK k l <;> simp
    rw [hc, List.map_append, List.pairwise_append]
    refine ⟨?_, ih (i + 1), ?_⟩
    · cases lookupK k l <;> simp
    · intro a ha b hb
      obtain ⟨⟨j, v⟩, hjv, rfl⟩ := List.mem_map.1 hb
      have := ((mem_holdersAt k ls (i + 1) j v).1 hjv).1
      cases hl : lookupK k l with
      | none => simp [hl] at ha
      | some v' => simp [hl] at ha; rw [ha]; show i < j; omega

theorem lookupK_mem {β : Type} {k : Bytes} {l : List (Bytes × β)} {v : β}
    (h : lookupK k l = some v) : (k, v) ∈ l := by
  induction l with
  | nil => cases h
  | cons p r ih =>
    obtain ⟨k', v'⟩ := p
    simp only [lookupK] at h
    by_cases hk : k' = k
    · simp [hk] at h; subst hk; subst h; simp
    · simp [hk] at h; exact List.mem_cons_of_mem _ (ih h)

theorem lookupK_of_mem {β : Type} {k : Bytes} {l : List (Bytes × β)} {v : β}
    (hasc : Asc (l.map (·.1))) (h : (k, v) ∈ l) : lookupK k l = some v := by
  induction l with
  | nil => cases h
  | cons p r ih =>
    obtain ⟨k', v'⟩ := p
    simp only [List.map_cons] at hasc
    have hp := List.pairwise_cons.1 hasc
    simp only [lookupK]
    rcases List.mem_cons.1 h with e | h
    · cases e; simp
    · have : k' ≠ k := by
        intro e; subst e
        exact Bytes.cmp_lt_irrefl _ (hp.1 k' (List.mem_map.2 ⟨(k', v), h, rfl⟩))
      simp only [this, if_false]
      exact ih hp.2 h

end Ice.Model.MergeLoop
