import IceModel.Lemmas.ErrFlowSem
/-
  Error flow, part 3: an executable, oracle-driven interpreter of error-flow skeletons, and the proof
  that each of its runs is an execution in the sense of `Exec` - so every theorem about `Exec`/`Run`
  holds for every oracle.  (`Exec` is the more liberal notion; the interpreter is there to make "an
  execution driven by an oracle stream" concrete and to compute examples.)
-/
namespace Ice.ErrFlow

/-- the oracle: a stream of numbers consumed from the front (an exhausted oracle answers 0).
    call / drop : 0 = succeeds, otherwise fails
    `return <expr>` with a nil error variable : 0 = returns nil, otherwise non-nil
    unguarded block : 0 = skip (or: no further round), otherwise run the body (once more)
    jump statement : 0 = leave the list, `k+1` = land `k` statements further down in the same list
    jump arriving at a block : 0 = leave the enclosing list too, 1 = next round of the block (guarded
      block: go on behind it), `k+2` = land `k` statements behind the block -/
abbrev Oracle := List Nat

def Oracle.bit (o : Oracle) : Bool := o.headD 0 != 0

/-- `run fuel orc e p` : trace, outcome and the unused part of the oracle (`none`: out of fuel) -/
def run : Nat → Oracle → Bool → List Stmt → Option (List Step × Out × Oracle)
  | 0, _, _, _ => none
  | _ + 1, orc, e, [] => some ([], .norm e, orc)
  | fuel + 1, orc, _, .call c :: rest =>
    let failed := alwaysFails c || orc.bit
    (run fuel orc.tail failed rest).map fun r => (⟨false, c, failed⟩ :: r.1, r.2)
  | fuel + 1, orc, e, .drop c :: rest =>
    (run fuel orc.tail e rest).map fun r => (⟨true, c, orc.bit⟩ :: r.1, r.2)
  | _ + 1, orc, _, .ret false :: _ => some ([], .ret false, orc)
  | _ + 1, orc, e, .ret true :: _ =>
    if e then some ([], .ret true, orc) else some ([], .ret orc.bit, orc.tail)
  | fuel + 1, orc, e, .jump :: rest =>
    match orc.headD 0 with
    | 0 => some ([], .jump e, orc.tail)
    | k + 1 => run fuel orc.tail e (rest.drop k)
  | fuel + 1, orc, e, .block g body :: rest =>
    let enter (orc : Oracle) : Option (List Step × Out × Oracle) :=
      match run fuel orc e body with
      | none => none
      | some (tr1, .ret b, orc1) => some (tr1, .ret b, orc1)
      | some (tr1, .norm e', orc1) =>
        (run fuel orc1 e' (if g then rest else .block false body :: rest)).map
          fun r => (tr1 ++ r.1, r.2)
      | some (tr1, .jump e', orc1) =>
        match orc1.headD 0 with
        | 0 => some (tr1, .jump e', orc1.tail)
        | 1 => (run fuel orc1.tail e' (if g then rest else .block false body :: rest)).map
                fun r => (tr1 ++ r.1, r.2)
        | k + 2 => (run fuel orc1.tail e' (rest.drop k)).map fun r => (tr1 ++ r.1, r.2)
    if g then (if e then enter orc else run fuel orc e rest)
    else (if orc.bit then enter orc.tail else run fuel orc.tail e rest)

/-- every oracle-driven run is an execution -/
theorem run_exec : ∀ (fuel : Nat) (orc : Oracle) (e : Bool) (p : List Stmt) (tr : List Step) (o : Out)
    (orc' : Oracle), run fuel orc e p = some (tr, o, orc') → Exec e p tr o := by
  intro fuel
  induction fuel with
  | zero => intro orc e p tr o orc' h; simp [run] at h
  | succ fuel ih =>
    intro orc e p tr o orc' h
    match p with
    | [] =>
      simp only [run, Option.some.injEq, Prod.mk.injEq] at h
      obtain ⟨rfl, rfl, _⟩ := h; exact .nil
    | .call c :: rest =>
      simp only [run, Option.map_eq_some_iff] at h
      obtain ⟨⟨tr', o', orc''⟩, hr, heq⟩ := h
      simp only [Prod.mk.injEq] at heq
      obtain ⟨rfl, rfl, rfl⟩ := heq
      have := ih _ _ _ _ _ _ hr
      by_cases hf : (alwaysFails c || orc.bit) = true
      · rw [hf] at this ⊢; exact .callFail this
      · have hf' : (alwaysFails c || orc.bit) = false := by simpa using hf
        rw [hf'] at this ⊢
        exact .callOk (by simp at hf'; exact hf'.1) this
    | .drop c :: rest =>
      simp only [run, Option.map_eq_some_iff] at h
      obtain ⟨⟨tr', o', orc''⟩, hr, heq⟩ := h
      simp only [Prod.mk.injEq] at heq
      obtain ⟨rfl, rfl, rfl⟩ := heq
      exact .drop _ (ih _ _ _ _ _ _ hr)
    | .ret false :: rest =>
      simp only [run, Option.some.injEq, Prod.mk.injEq] at h
      obtain ⟨rfl, rfl, _⟩ := h; exact .retNil
    | .ret true :: rest =>
      simp only [run] at h
      split at h
      · rename_i he
        simp only [Option.some.injEq, Prod.mk.injEq] at h
        obtain ⟨rfl, rfl, _⟩ := h; subst he; exact .retErr
      · rename_i he
        simp only [Option.some.injEq, Prod.mk.injEq] at h
        obtain ⟨rfl, rfl, _⟩ := h
        have : e = false := by simpa using he
        subst this; exact .retOther _
    | .jump :: rest =>
      simp only [run] at h
      split at h
      · simp only [Option.some.injEq, Prod.mk.injEq] at h
        obtain ⟨rfl, rfl, _⟩ := h; exact .jump
      · exact .jumpResume (List.drop_suffix _ _) (ih _ _ _ _ _ _ h)
    | .block g body :: rest =>
      -- the body has been entered (with `g = true → e = true`) under oracle `orc0`
      have enter : ∀ (orc0 : Oracle), (g = true → e = true) →
          (match run fuel orc0 e body with
            | none => none
            | some (tr1, .ret b, orc1) => some (tr1, .ret b, orc1)
            | some (tr1, .norm e', orc1) =>
              (run fuel orc1 e' (if g then rest else .block false body :: rest)).map
                fun r => (tr1 ++ r.1, r.2)
            | some (tr1, .jump e', orc1) =>
              match orc1.headD 0 with
              | 0 => some (tr1, .jump e', orc1.tail)
              | 1 => (run fuel orc1.tail e' (if g then rest else .block false body :: rest)).map
                      fun r => (tr1 ++ r.1, r.2)
              | k + 2 => (run fuel orc1.tail e' (rest.drop k)).map fun r => (tr1 ++ r.1, r.2))
            = some (tr, o, orc') → Exec e (.block g body :: rest) tr o := by
        intro orc0 hg h
        split at h
        · cases h
        · rename_i tr1 b orc1 hb
          simp only [Option.some.injEq, Prod.mk.injEq] at h
          obtain ⟨rfl, rfl, _⟩ := h
          exact .blockRet hg (ih _ _ _ _ _ _ hb)
        · rename_i tr1 e' orc1 hb
          simp only [Option.map_eq_some_iff] at h
          obtain ⟨⟨tr2, o2, orc2⟩, hr, heq⟩ := h
          simp only [Prod.mk.injEq] at heq
          obtain ⟨rfl, rfl, rfl⟩ := heq
          have h1 := ih _ _ _ _ _ _ hb
          have h2 := ih _ _ _ _ _ _ hr
          cases g with
          | true => have := hg rfl; subst this; exact .guardNorm h1 (by simpa using h2)
          | false => exact .blockNorm h1 (by simpa using h2)
        · rename_i tr1 e' orc1 hb
          have h1 := ih _ _ _ _ _ _ hb
          split at h
          · simp only [Option.some.injEq, Prod.mk.injEq] at h
            obtain ⟨rfl, rfl, _⟩ := h
            exact .blockJumpOut hg h1
          · simp only [Option.map_eq_some_iff] at h
            obtain ⟨⟨tr2, o2, orc2⟩, hr, heq⟩ := h
            simp only [Prod.mk.injEq] at heq
            obtain ⟨rfl, rfl, rfl⟩ := heq
            have h2 := ih _ _ _ _ _ _ hr
            cases g with
            | true => exact .blockJumpResume hg h1 (List.suffix_refl _) (by simpa using h2)
            | false => exact .blockJumpLoop h1 (by simpa using h2)
          · simp only [Option.map_eq_some_iff] at h
            obtain ⟨⟨tr2, o2, orc2⟩, hr, heq⟩ := h
            simp only [Prod.mk.injEq] at heq
            obtain ⟨rfl, rfl, rfl⟩ := heq
            exact .blockJumpResume hg h1 (List.drop_suffix _ _) (ih _ _ _ _ _ _ hr)
      simp only [run] at h
      cases g with
      | true =>
        simp only [if_true] at h
        cases e with
        | true => simp only [if_true] at h; exact enter orc (fun _ => rfl) (by simpa using h)
        | false =>
          simp only [Bool.false_eq_true, if_false] at h
          exact .guardSkip (ih _ _ _ _ _ _ h)
      | false =>
        simp only [Bool.false_eq_true, if_false] at h
        split at h
        · exact enter orc.tail (fun hg => by cases hg) (by simpa using h)
        · exact .blockSkip (ih _ _ _ _ _ _ h)

/-- a terminated oracle-driven run of a function body -/
theorem run_Run {fuel : Nat} {orc orc' : Oracle} {p : Prog} {tr : List Step} {o : Out}
    (h : run fuel orc false p = some (tr, o, orc')) : Run p tr o.result :=
  ⟨o, run_exec _ _ _ _ _ _ _ h, rfl⟩

end Ice.ErrFlow
