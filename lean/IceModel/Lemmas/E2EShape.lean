import IceModel.Lemmas.E2ESpec
/-
  END-TO-END, builder path: the laid-out description `r.toLSeg mode` of the segment `New` built,
  expressed through the specification `Spec.build nc mode b` (composition of C01 with the
  definitions of `Lemmas/E2EDefs.lean`).
-/
namespace Ice.Props.E2E
open Ice Ice.Spec Ice.Model Ice.Model.Builder Ice.Model.Format

/-! ### the doc-value column the builder derives -/

theorem length_dtmOf (n : Nat) (terms : List Bytes) (docsOf : Bytes → List Nat) :
    (dtmOf n terms docsOf).length = n := by
  unfold dtmOf
  have : ∀ (init : List (List Bytes)),
      (terms.foldl (fun dtm t => addTerm t dtm (docsOf t)) init).length = init.length := by
    induction terms with
    | nil => intro init; rfl
    | cons t r ih => intro init; rw [List.foldl_cons, ih, length_addTerm]
  rw [this, List.length_replicate]

theorem zipIdx_filter_map_asc {α : Type} (p : α × Nat → Bool) (l : List α) : ∀ k,
    (((l.zipIdx k).filter p).map (fun q => q.2)).Pairwise (· < ·) ∧
    ∀ d ∈ ((l.zipIdx k).filter p).map (fun q => q.2), k ≤ d ∧ d < k + l.length := by
  induction l with
  | nil => intro k; simp
  | cons a r ih =>
    intro k
    obtain ⟨h1, h2⟩ := ih (k + 1)
    simp only [List.zipIdx_cons, List.filter_cons, List.length_cons]
    cases p (a, k)
    · simp only [Bool.false_eq_true, if_false]
      exact ⟨h1, fun d hd => by have := h2 d hd; omega⟩
    · simp only [if_true, List.map_cons, List.pairwise_cons, List.mem_cons]
      refine ⟨⟨fun d hd => by have := h2 d hd; omega, h1⟩, ?_⟩
      rintro d (rfl | hd)
      · omega
      · have := h2 d hd; omega

/-- a column `dvOut` produces: documents ascending, inside the segment -/
theorem dvOut_shape {flag : Bool} {dtm : List (List Bytes)} {vals : List (Nat × List Bytes)}
    (h : dvOut flag dtm = some vals) :
    vals.Pairwise (fun a b => a.1 < b.1) ∧ ∀ q ∈ vals, q.1 < dtm.length := by
  unfold dvOut at h
  split at h
  · injection h with h
    subst h
    have := zipIdx_filter_map_asc (fun p : List Bytes × Nat => !p.1.isEmpty) dtm 0
    refine ⟨?_, ?_⟩
    · rw [List.pairwise_map]
      have h1 := this.1
      rw [List.pairwise_map] at h1
      exact h1
    · intro q hq
      obtain ⟨p, hp, rfl⟩ := List.mem_map.1 hq
      have := this.2 p.2 (List.mem_map_of_mem hp)
      simp only
      omega
  · cases h

theorem aget_eq_lookup {α : Type} (vals : List (Nat × α)) (n : Nat) :
    aget vals n = DocValues.lookup vals n := by
  unfold DocValues.lookup
  induction vals with
  | nil => rfl
  | cons q r ih =>
    obtain ⟨k, v⟩ := q
    simp only [aget, List.find?_cons]
    by_cases h : n = k
    · subst h; simp
    · have : (k == n) = false := by simp; omega
      simp [h, this, ih]

/-! ### the result of `New`, field by field -/

theorem getD_map_eq {α : Type} (l : List Nat) (k : List α) (h : l.length = k.length) :
    k.zipIdx.map (fun x => l.getD x.2 0) = l := by
  apply List.ext_getElem?
  intro i
  simp only [List.getElem?_map, List.getElem?_zipIdx, Nat.zero_add]
  by_cases hi : i < k.length
  · rw [List.getElem?_eq_getElem hi]
    simp [List.getD_eq_getElem?_getD, List.getElem?_eq_getElem (h ▸ hi)]
  · rw [List.getElem?_eq_none (by omega), List.getElem?_eq_none (by omega)]
    rfl


section
variable {nc : Bytes → Nat → Nat} {π : Order} {b : Batch} {r : Built}
  (hv : ValidBatch b) (hπ : PermOK π) (hrun : run nc π b = .ok r) (mode : Nat)
include hv hπ hrun

theorem fields_eq : r.fields = (build nc mode b).fields := C01.C01_fields hv hπ hrun mode

theorem stored_length : r.stored.length = b.length := by
  rw [C01.built_eq hv hπ hrun]; simp [builtOf]

theorem dicts_length : r.dicts.length = (build nc mode b).fields.length := by
  rw [C01.built_eq hv hπ hrun]; simp [builtOf, build_fields]

omit hv hπ hrun in
theorem spec_fields_nodup : (build nc mode b).fields.Nodup := FL_nodup b

omit hv hπ hrun in
theorem spec_fieldDocs_length :
    (build nc mode b).fieldDocs.length = (build nc mode b).fields.length := by simp [build]

omit hv hπ hrun in
theorem spec_fieldFreqs_length :
    (build nc mode b).fieldFreqs.length = (build nc mode b).fields.length := by simp [build]

omit hπ hrun in
theorem spec_fields_length : (build nc mode b).fields.length ≤ 65535 := FL_length_le hv.2

omit hv hπ hrun in
theorem spec_fieldDocs_le : ∀ x ∈ (build nc mode b).fieldDocs, x ≤ b.length := by
  intro x hx
  simp only [build, List.mem_map] at hx
  obtain ⟨f, _, rfl⟩ := hx
  have := List.countP_le_length (p := fun d : ADoc => (d.field? f).isSome)
    (l := b.map (rollDoc nc (dvFlagOf b)))
  simpa using this

/-- field `i` of the built segment is `viewOf …` -/
theorem dict_at {i : Nat} {f : Bytes} (hf : (build nc mode b).fields[i]? = some f) :
    r.dicts[i]? = some (viewOf nc (FL b) b i) ∧ r.view f = some (viewOf nc (FL b) b i) ∧
      i < (FL b).length ∧ fname (FL b) i = f := by
  have hi : i < (FL b).length := by
    by_cases h : i < (FL b).length
    · exact h
    · rw [build_fields, List.getElem?_eq_none (by omega)] at hf; cases hf
  have hfi : (FL b)[i] = f := by
    rw [build_fields, List.getElem?_eq_getElem hi] at hf
    injection hf
  have hmem : f ∈ FL b := by rw [← hfi]; exact List.getElem_mem hi
  have hidx : (FL b).idxOf f = i := by rw [← hfi]; exact idxOf_getElem_nodup (FL_nodup b) i hi
  rw [C01.built_eq hv hπ hrun]
  refine ⟨?_, ?_, hi, ?_⟩
  · simp [builtOf, hi]
  · rw [view_builtOf, if_pos hmem, hidx]
  · simp [fname, List.getD_eq_getElem?_getD, List.getElem?_eq_getElem hi, hfi]

/-- the entries of field `i`: the terms of the specification, each with its postings -/
theorem entries_at {i : Nat} {f : Bytes} (hf : (build nc mode b).fields[i]? = some f) :
    (viewOf nc (FL b) b i).entries =
      (terms (build nc mode b) f).map (fun t => (t, postings (build nc mode b) f t)) := by
  obtain ⟨_, hview, hi, hfn⟩ := dict_at hv hπ hrun mode hf
  have hterms := C01.C01_terms hv hπ hrun mode f
  unfold Built.terms at hterms
  rw [hview] at hterms
  simp only [viewOf, List.map_map] at hterms
  have hid : ((fun x : Bytes × List Posting => x.1) ∘ fun t => (t, entriesOf nc (FL b) b i t)) = id := by
    funext t; rfl
  rw [hid, List.map_id] at hterms
  simp only [viewOf]
  rw [hterms]
  apply List.map_congr_left
  intro t _
  rw [entriesOf_eq nc mode b hi t, hfn]

/-- the doc-value column of field `i` -/
theorem dv_at {i : Nat} {f : Bytes} (hf : (build nc mode b).fields[i]? = some f) :
    (∀ vals, (viewOf nc (FL b) b i).dv = some vals →
      vals.Pairwise (fun a c => a.1 < c.1) ∧ (∀ q ∈ vals, q.1 < b.length) ∧
      ∀ n, DocValues.termsOf vals n = dvOf (build nc mode b) n f) ∧
    ((viewOf nc (FL b) b i).dv = none → ∀ n, dvOf (build nc mode b) n f = []) ∧
    (b = [] → (viewOf nc (FL b) b i).dv = none) := by
  obtain ⟨_, hview, hi, hfn⟩ := dict_at hv hπ hrun mode hf
  have hdv := fun n => C01.C01_dv hv hπ hrun mode n f
  unfold Built.dvOf at hdv
  rw [hview] at hdv
  simp only at hdv
  refine ⟨?_, ?_, ?_⟩
  · intro vals hvals
    rw [hvals] at hdv
    simp only at hdv
    have hshape := dvOut_shape (show dvOut (dvFlag (FL b) b i) _ = some vals from hvals)
    rw [length_dtmOf] at hshape
    refine ⟨hshape.1, hshape.2, ?_⟩
    intro n
    rw [← hdv n]
    unfold DocValues.termsOf
    rw [aget_eq_lookup]
  · intro hnone n
    rw [hnone] at hdv
    exact (hdv n).symm
  · intro hb
    subst hb
    simp [viewOf, dvFlag, dvOut]

/-! ### the description -/

theorem toLSeg_numDocs : (r.toLSeg mode).numDocs = b.length := stored_length hv hπ hrun

/-- field `i` of the description, through the specification -/
theorem toLSeg_field {i : Nat} {f : Bytes} (hf : (build nc mode b).fields[i]? = some f) :
    (r.toLSeg mode).fields[i]? = some
      { name := f,
        fieldDocs := (build nc mode b).fieldDocs.getD i 0,
        fieldFreqs := (build nc mode b).fieldFreqs.getD i 0,
        terms := (terms (build nc mode b) f).map fun t =>
          (t, TermDesc.general ((postings (build nc mode b) f t).map
            (postingToE (build nc mode b).fields))),
        dv := (viewOf nc (FL b) b i).dv } := by
  obtain ⟨hd, _, _, _⟩ := dict_at hv hπ hrun mode hf
  have hfe := fields_eq hv hπ hrun mode
  obtain ⟨hfd, hff⟩ := C01.C01_stats hv hπ hrun mode
  simp only [Built.toLSeg, List.getElem?_map, List.getElem?_zipIdx, hfe, hf, Option.map_some,
    Nat.zero_add]
  simp only [fieldDescOf, hd, hfd, hff, hfe, termsOfView, entries_at hv hπ hrun mode hf,
    List.map_map]
  rfl

theorem toLSeg_fields_length : (r.toLSeg mode).fields.length = (build nc mode b).fields.length := by
  simp [Built.toLSeg, fields_eq hv hπ hrun mode]

theorem toLSeg_names : (r.toLSeg mode).fields.map (·.name) = (build nc mode b).fields := by
  rw [← fields_eq hv hπ hrun mode]
  simp only [Built.toLSeg, List.map_map]
  have : ((fun x : FieldDesc => x.name) ∘ fun x : Bytes × Nat => fieldDescOf r x.1 x.2) = Prod.fst := by
    funext x; rfl
  rw [this, List.zipIdx_map_fst]

/-- every field of the description is one of `toLSeg_field` -/
theorem toLSeg_field_mem {fd : FieldDesc} (h : fd ∈ (r.toLSeg mode).fields) :
    ∃ (i : Nat) (f : Bytes), (build nc mode b).fields[i]? = some f ∧
      (r.toLSeg mode).fields[i]? = some fd := by
  obtain ⟨i, hi⟩ := List.getElem?_of_mem h
  have hlt : i < (build nc mode b).fields.length := by
    rw [← toLSeg_fields_length hv hπ hrun mode]
    by_cases hl : i < (r.toLSeg mode).fields.length
    · exact hl
    · rw [List.getElem?_eq_none (by omega)] at hi; cases hi
  exact ⟨i, (build nc mode b).fields[i], List.getElem?_eq_getElem hlt, hi⟩

theorem toLSeg_fieldDocs :
    (r.toLSeg mode).fields.map (·.fieldDocs) = (build nc mode b).fieldDocs := by
  obtain ⟨hfd, _⟩ := C01.C01_stats hv hπ hrun mode
  simp only [Built.toLSeg, List.map_map]
  have : ((fun x : FieldDesc => x.fieldDocs) ∘ fun x : Bytes × Nat => fieldDescOf r x.1 x.2) =
      fun x => r.fieldDocs.getD x.2 0 := by
    funext x; rfl
  have hlen : r.fieldDocs.length = r.fields.length := by
    rw [hfd, fields_eq hv hπ hrun mode]; exact spec_fieldDocs_length mode
  rw [this, getD_map_eq _ _ hlen, hfd]

theorem toLSeg_fieldFreqs :
    (r.toLSeg mode).fields.map (·.fieldFreqs) = (build nc mode b).fieldFreqs := by
  obtain ⟨_, hff⟩ := C01.C01_stats hv hπ hrun mode
  simp only [Built.toLSeg, List.map_map]
  have : ((fun x : FieldDesc => x.fieldFreqs) ∘ fun x : Bytes × Nat => fieldDescOf r x.1 x.2) =
      fun x => r.fieldFreqs.getD x.2 0 := by
    funext x; rfl
  have hlen : r.fieldFreqs.length = r.fields.length := by
    rw [hff, fields_eq hv hπ hrun mode]; exact spec_fieldFreqs_length mode
  rw [this, getD_map_eq _ _ hlen, hff]

end

end Ice.Props.E2E
