import IceModel.Lemmas.E2EMSpec
/-
  END-TO-END, merger path: the description of one field (`fieldOf`) through the specification.
  Composition of `C02Model.M2_spec` (dictionary and postings), `C02Model.M4_spec` (the 1-hit
  decision) and `C16.C16_merge_model` (the statistics accumulators).
-/
namespace Ice.Props.E2EM
open Ice Ice.Spec Ice.Model Ice.Model.Format
open Ice.Model.MergeLoop (Cfg SegIn DictEntry MPosting MLoc mergeField absCfg absSegs encPosting
  encLoc fieldIdOf idxOf?_spec)
open Ice.Props.C03 (ValidDrops)
open Ice.Props.E2E

/-! ### re-encoded postings as byte-level entries -/

theorem mlocToB_encLoc {F : List Bytes} (hlen : F.length ≤ 65536) {l : Loc} (h : l.field ∈ F) :
    mlocToB (encLoc F l) = locToB F l := by
  obtain ⟨i, h1, h2, h3⟩ := idxOf?_spec F l.field h
  have hm : i % 65536 = i := Nat.mod_eq_of_lt (by omega)
  have hi : F.idxOf l.field = i := by
    have := Builder.idxOf?_eq_ite (l := F) (a := l.field)
    rw [if_pos h, h1] at this
    exact (Option.some.inj this).symm
  simp [mlocToB, encLoc, locToB, fieldIdOf, h1, hm, hi]

theorem mpToE_encPosting {F : List Bytes} (hlen : F.length ≤ 65536) {p : Posting}
    (h : ∀ l ∈ p.locs, l.field ∈ F) : mpToE (encPosting F p.doc p) = postingToE F p := by
  unfold mpToE encPosting postingToE
  simp only [List.map_map]
  congr 1
  apply List.map_congr_left
  intro l hl
  exact mlocToB_encLoc hlen (h l hl)

theorem termOf_fst (e : DictEntry) : (termOf e).1 = e.term := rfl

/-! ### the field description -/

section
variable {mode : Nat} {ins : List MIn}
  (hdrops : ∀ i ∈ ins, ValidDrops i.abs.docs.length i.drops)
  (hok : ∀ i ∈ ins, AbsOK i.abs) (hB : MBounds mode ins)

include hdrops hok hB in
/-- **the field description of a merge with documents**, through the specification: name,
    statistics (C16), the terms of the merged segment in order, each standing for its postings
    (general: the re-encoded postings are the byte-level entries of the specification's postings;
    1-hit: exactly one posting, frequency 1, no locations, document below 2^31) -/
theorem fieldOf_spec (hpos : 1 ≤ numDocs (merge mode (absIns ins)).1) (f : Bytes) :
    (fieldOf mode ins f).name = f ∧
    (fieldOf mode ins f).fieldDocs = (merge mode (absIns ins)).1.docs.countP (fun d => fieldHasTerm d f) ∧
    (fieldOf mode ins f).fieldFreqs = ((merge mode (absIns ins)).1.docs.map (fun d => fieldTermFreq d f)).sum ∧
    (fieldOf mode ins f).dv = dvColM ins f ∧
    (fieldOf mode ins f).terms.map (·.1) = terms (merge mode (absIns ins)).1 f ∧
    ∀ (j : Nat) (t : Bytes) (td : TermDesc), (fieldOf mode ins f).terms[j]? = some (t, td) →
      TermRep (merge mode (absIns ins)).1.fields td (postings (merge mode (absIns ins)).1 f t) := by
  have hA := absOK_merge mode ins hok hB
  have hcfg := mCfg_eq mode ins hdrops hB.total
  have hsize : numDocs (merge mode (absIns ins)).1 ≤ 2 ^ 32 := Nat.le_of_lt hB.numDocs
  obtain ⟨r, hr, hd⟩ := C02Model.M2_spec mode f (absIns ins) hB.hmode hpos
  obtain ⟨r4, hr4, h4⟩ := C02Model.M4_spec mode f (absIns ins) hB.hmode hpos hsize
  obtain ⟨r16, hr16, hfd, hff⟩ := Ice.Props.C16.C16_merge_model mode f (absIns ins) hB.hmode hpos hsize
    (by intro p hp
        obtain ⟨i, hi, rfl⟩ := List.mem_map.1 hp
        exact (hok i hi).nodup f)
  rw [hr] at hr4 hr16
  injection hr4 with hr4
  injection hr16 with hr16
  subst hr4; subst hr16
  have hfo : fieldOf mode ins f =
      { name := f, fieldDocs := r.fieldDocs, fieldFreqs := r.fieldFreq,
        terms := r.dict.map termOf, dv := dvColM ins f } := by
    unfold fieldOf
    rw [hcfg, hr]
  rw [hfo]
  have hkeys : (r.dict.map termOf).map (·.1) = terms (merge mode (absIns ins)).1 f := by
    have h1 : (r.dict.map termOf).map (·.1) = (r.dict.map (fun e => (e.term, e.entries))).map (·.1) := by
      simp [List.map_map, Function.comp_def, termOf]
    rw [h1, hd, List.map_map]
    conv => rhs; rw [← List.map_id (terms (merge mode (absIns ins)).1 f)]
    apply List.map_congr_left
    intro t _; rfl
  refine ⟨rfl, hfd, hff, rfl, hkeys, ?_⟩
  intro j t td hj
  simp only [List.getElem?_map] at hj
  cases he : r.dict[j]? with
  | none => rw [he] at hj; cases hj
  | some e =>
    rw [he] at hj
    simp only [Option.map_some, Option.some.injEq] at hj
    -- the j-th entry of the dictionary is the j-th term of the specification
    have hdj := congrArg (fun l => l[j]?) hd
    simp only [List.getElem?_map, he, Option.map_some] at hdj
    cases htj : (terms (merge mode (absIns ins)).1 f)[j]? with
    | none => rw [htj] at hdj; cases hdj
    | some t' =>
      rw [htj] at hdj
      simp only [Option.map_some, Option.some.injEq, Prod.mk.injEq] at hdj
      obtain ⟨hterm, hent⟩ := hdj
      have htt : t = t' := by
        have := congrArg Prod.fst hj
        simp only [termOf_fst] at this
        rw [← this, hterm]
      subst htt
      have hloc : ∀ p ∈ postings (merge mode (absIns ins)).1 f t, ∀ l ∈ p.locs, l.field ∈ (merge mode (absIns ins)).1.fields := by
        intro p hp l hl
        obtain ⟨n, d, af, x, hdd, hf, hx, rfl⟩ := mem_postings hp
        exact hA.locs d (List.mem_of_getElem? hdd) af (field?_mem hf).1 x
          (List.mem_of_find?_eq_some hx) l hl
      have hlen : (merge mode (absIns ins)).1.fields.length ≤ 65536 := by have := hA.nfields; omega
      have hgen : e.entries.map mpToE = (postings (merge mode (absIns ins)).1 f t).map (postingToE (merge mode (absIns ins)).1.fields) := by
        rw [hent, List.map_map]
        apply List.map_congr_left
        intro p hp
        exact mpToE_encPosting hlen (hloc p hp)
      have htd : td = (termOf e).2 := by rw [hj]
      rw [htd]
      cases hoh : e.oneHit with
      | none =>
        simp only [termOf, hoh]
        exact hgen
      | some v =>
        obtain ⟨p', hp', hfreq, hlocs, hd31, _, _⟩ := (h4 e (List.mem_of_getElem? he) v).1 hoh
        simp only [termOf, hoh, hp']
        -- the single entry is the re-encoding of the single posting
        rw [hp'] at hent
        cases hps : postings (merge mode (absIns ins)).1 f t with
        | nil => rw [hps] at hent; cases hent
        | cons p rest =>
          rw [hps] at hent
          simp only [List.map_cons, List.cons.injEq] at hent
          obtain ⟨hpe, hrest⟩ := hent
          have hrest' : rest = [] := List.map_eq_nil_iff.1 hrest.symm
          subst hrest'
          subst hpe
          refine ⟨hd31, p, rfl, rfl, rfl, hfreq, ?_⟩
          exact List.map_eq_nil_iff.1 hlocs

end

end Ice.Props.E2EM
