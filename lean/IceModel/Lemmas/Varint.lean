import IceModel.Model.Varint
/-
  Lemmas about the varint model: writer/reader round trip, byte counts.
-/
namespace Ice.Model

theorem putUvarint_ne_nil (x : Nat) : putUvarint x ≠ [] := by
  unfold putUvarint; split <;> simp

theorem numUvarintBytes_eq_length (x : Nat) : numUvarintBytes x = (putUvarint x).length := by
  induction x using Nat.strongRecOn with
  | _ x ih =>
    unfold numUvarintBytes putUvarint
    split
    · simp
    · have := ih (x / 128) (by omega)
      simp [this]

/-- every byte written is a byte -/
theorem putUvarint_bytes (x : Nat) : ∀ b ∈ putUvarint x, b < 256 := by
  induction x using Nat.strongRecOn with
  | _ x ih =>
    unfold putUvarint
    split
    · intro b hb; simp at hb; omega
    · intro b hb
      simp at hb
      rcases hb with h | h
      · omega
      · exact ih (x / 128) (by omega) b h

private theorem pow_split (s : Nat) : 2 ^ (s + 7) = 2 ^ s * 128 := by
  rw [Nat.pow_add]

/-- `x < 2^(7k)` is written in at most `k` bytes -/
theorem putUvarint_length_le (k x : Nat) (hk : 0 < k) (h : x < 2 ^ (7 * k)) :
    (putUvarint x).length ≤ k := by
  induction k generalizing x with
  | zero => omega
  | succ k ih =>
    unfold putUvarint
    split
    · simp
    · rename_i hx
      have hk' : 0 < k := by
        rcases Nat.eq_zero_or_pos k with h0 | h0
        · subst h0; simp at h; omega
        · exact h0
      have : x / 128 < 2 ^ (7 * k) := by
        have e : 2 ^ (7 * (k + 1)) = 2 ^ (7 * k) * 128 := by
          rw [show 7 * (k + 1) = 7 * k + 7 by omega, Nat.pow_add]
        rw [e] at h
        exact Nat.div_lt_of_lt_mul (by rw [Nat.mul_comm]; exact h)
      have := ih (x / 128) hk' this
      simp; omega

theorem putUvarint_length_le_ten (x : Nat) (h : x < 2 ^ 64) : (putUvarint x).length ≤ 10 := by
  apply putUvarint_length_le 10 x (by omega)
  have : (2:Nat) ^ 64 ≤ 2 ^ (7 * 10) := Nat.pow_le_pow_right (by omega) (by omega)
  omega

/-- Reader after writer, at any accumulator state reachable inside `ReadUvarint`. -/
theorem readUvarintAux_put (x : Nat) : ∀ (acc s n : Nat) (rest : Bytes),
    s ≤ 63 → x * 2 ^ s < two64 →
    readUvarintAux (putUvarint x ++ rest) acc s n = .ok (acc + x * 2 ^ s, n + (putUvarint x).length) := by
  induction x using Nat.strongRecOn with
  | _ x ih =>
    intro acc s n rest hs hx
    unfold putUvarint
    split
    · rename_i hlt
      simp only [List.cons_append, List.nil_append, readUvarintAux, hlt, if_true, List.length_cons,
        List.length_nil]
      have hg : ¬ (s ≥ 63 ∧ (s > 63 ∨ (s = 63 ∧ x > 1))) := by
        intro ⟨h1, h2⟩
        have hs63 : s = 63 := by omega
        subst hs63
        rcases h2 with h2 | ⟨_, h2⟩
        · omega
        · have : x * 2 ^ 63 ≥ 2 * 2 ^ 63 := Nat.mul_le_mul_right _ h2
          unfold two64 at hx
          omega
      simp only [hg, if_false]
      rw [Nat.mod_eq_of_lt hx]
    · rename_i hge
      have hge : 128 ≤ x := by omega
      have hnot : ¬ (x % 128 + 128 < 128) := by omega
      simp only [List.cons_append, readUvarintAux, hnot, if_false]
      have hmod : (x % 128 + 128) % 128 = x % 128 := by omega
      rw [hmod]
      -- facts about the shift
      have hpow : 2 ^ (s + 7) = 2 ^ s * 128 := pow_split s
      have hlow : x % 128 * 2 ^ s ≤ x * 2 ^ s := Nat.mul_le_mul_right _ (Nat.mod_le _ _)
      have hlow' : x % 128 * 2 ^ s < two64 := Nat.lt_of_le_of_lt hlow hx
      have hs7 : s + 7 ≤ 63 := by
        -- 128 * 2^s ≤ x * 2^s < 2^64  ⇒  s + 7 < 64
        have h1 : 128 * 2 ^ s ≤ x * 2 ^ s := Nat.mul_le_mul_right _ hge
        have h2 : 2 ^ (s + 7) < 2 ^ 64 := by
          rw [hpow, Nat.mul_comm]; unfold two64 at hx; omega
        have := (Nat.pow_lt_pow_iff_right (a := 2) (by omega)).mp h2
        omega
      have hdiv : x / 128 * 2 ^ (s + 7) ≤ x * 2 ^ s := by
        rw [hpow, ← Nat.mul_assoc, Nat.mul_comm (x / 128 * 2 ^ s), ← Nat.mul_assoc]
        exact Nat.mul_le_mul_right _ (by rw [Nat.mul_comm]; exact Nat.div_mul_le_self x 128)
      have hdiv' : x / 128 * 2 ^ (s + 7) < two64 := Nat.lt_of_le_of_lt hdiv hx
      rw [ih (x / 128) (by omega) _ (s + 7) (n + 1) rest hs7 hdiv']
      rw [Nat.mod_eq_of_lt hlow']
      have hsum : x % 128 * 2 ^ s + x / 128 * 2 ^ (s + 7) = x * 2 ^ s := by
        rw [hpow]
        have : x / 128 * (2 ^ s * 128) = 128 * (x / 128) * 2 ^ s := by
          rw [Nat.mul_comm (2 ^ s) 128, ← Nat.mul_assoc, Nat.mul_comm (x / 128) 128]
        rw [this, ← Nat.add_mul, Nat.add_comm, Nat.div_add_mod]
      simp only [List.length_cons]
      congr 1
      congr 1
      · omega
      · omega

/-- `ReadUvarint` of what `PutUvarint` wrote, followed by anything, yields the value and stops
    exactly behind it. -/
theorem readUvarint_put (x : Nat) (rest : Bytes) (h : x < two64) :
    readUvarint (putUvarint x ++ rest) = .ok (x, (putUvarint x).length) := by
  have := readUvarintAux_put x 0 0 0 rest (by omega) (by simpa using h)
  simpa [readUvarint] using this

/-- `SkipUvarint` steps over exactly what `PutUvarint` wrote. -/
theorem skipUvarint_put (x : Nat) (rest : Bytes) :
    skipUvarint (putUvarint x ++ rest) = .ok (putUvarint x).length := by
  induction x using Nat.strongRecOn with
  | _ x ih =>
    unfold putUvarint
    split
    · rename_i h; simp [skipUvarint, h]
    · rename_i h
      have hnot : ¬ (x % 128 + 128 < 128) := by omega
      simp [skipUvarint, hnot, ih (x / 128) (by omega)]

end Ice.Model
