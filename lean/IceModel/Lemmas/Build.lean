import IceModel.Spec.Seg
import IceModel.Lemmas.Sort
import IceModel.Lemmas.Merge
/-
  Facts about `Spec.build` and congruence of the observations in the document list.
-/
namespace Ice.Spec

theorem build_docs (nc : Bytes → Nat → Nat) (mode : Nat) (b : Batch) :
    (build nc mode b).docs = b.map (rollDoc nc (dvFlagOf b)) := rfl

theorem build_fields (nc : Bytes → Nat → Nat) (mode : Nat) (b : Batch) :
    (build nc mode b).fields = fieldList (b.flatMap (fun d => d.map (·.name))) := rfl

/-- `rollDoc` consults the doc-values flag only at the names of the document's own fields -/
theorem rollDoc_congr (nc : Bytes → Nat → Nat) (g₁ g₂ : Bytes → Bool) (d : Doc)
    (h : ∀ f ∈ d, g₁ f.name = g₂ f.name) : rollDoc nc g₁ d = rollDoc nc g₂ d := by
  unfold rollDoc
  apply List.map_congr_left
  intro n hn
  rw [List.mem_eraseDups, List.mem_map] at hn
  obtain ⟨f, hf, rfl⟩ := hn
  simp only [rollField, h f hf]

/-- survivors of a built segment are the rolled-up surviving input documents -/
theorem survivors_build (nc : Bytes → Nat → Nat) (mode : Nat) (b : Batch) (drops : List Nat) :
    survivors (build nc mode b) drops =
      (keepP (fun i => !drops.contains i) 0 b).map (rollDoc nc (dvFlagOf b)) := by
  rw [survivors_eq, build_docs, keepP_map]

/-! ### observations that are functions of the document list -/

theorem numDocs_congr {a b : AbsSeg} (h : a.docs = b.docs) : numDocs a = numDocs b := by
  simp only [numDocs, h]

theorem terms_congr {a b : AbsSeg} (h : a.docs = b.docs) (f : Bytes) : terms a f = terms b f := by
  simp only [terms, h]

theorem postings_congr {a b : AbsSeg} (h : a.docs = b.docs) (f t : Bytes) :
    postings a f t = postings b f t := by
  simp only [postings, h]

theorem dvOf_congr {a b : AbsSeg} (h : a.docs = b.docs) (n : Nat) (f : Bytes) :
    dvOf a n f = dvOf b n f := by
  simp only [dvOf, h]

theorem docsMatching_congr {a b : AbsSeg} (h : a.docs = b.docs) (ts : List (Bytes × Bytes)) :
    docsMatching a ts = docsMatching b ts := by
  simp only [docsMatching, numDocs, postings, h]

theorem dictEntries_congr {a b : AbsSeg} (h : a.docs = b.docs) (f : Bytes) (lo hi : Option Bytes)
    (aut : Bytes → Bool) : dictEntries a f lo hi aut = dictEntries b f lo hi aut := by
  simp only [dictEntries, terms, postings, h]

theorem stored_congr {a b : AbsSeg} (h : a.docs = b.docs) (hf : a.fields = b.fields) (n : Nat) :
    stored a n = stored b n := by
  simp only [stored, h, hf]

theorem stats_congr {a b : AbsSeg} (h : a.docs = b.docs) (hf : a.fields = b.fields)
    (h3 : a.fieldDocs = b.fieldDocs) (h4 : a.fieldFreqs = b.fieldFreqs) (f : Bytes) :
    stats a f = stats b f := by
  simp only [stats, numDocs, h, hf, h3, h4]

end Ice.Spec
