import IceModel.Model.Format
import IceModel.Lemmas.ChunkBytes
import IceModel.Lemmas.DocValues
import IceModel.Props.ChunkBytes
import IceModel.Props.C07
/-
  Lemmas for the container model (Model/Format.lean), writer side:
    * the writer loop `foldW` (inversion: what a successful run says about every element),
    * inversion of `writeTerm` and `writeField` (what was written where, coders stay fresh),
    * the records and the offset table of `persistFields`,
    * inversion of `serialize`.
  Style: the theorems of C04 take `serialize K L = .ok (data, footer)` as a hypothesis (a segment
  ice has written), so everything here is derived by inversion from a successful run.
-/
namespace Ice.Model.Format
open Ice Ice.Model
open Ice.Model.Writer (be unbe Footer)
open Ice.Model.ChunkBytes (Entry BLoc Coder tfAdds locAdds uvarintU64 Fresh TailZero)
open Ice.Model.DocValues (add64 sub64 maxUint64)

/-! ### the `Res` monad (instance of Model/ChunkBytes.lean) -/

theorem bind_eq_ok {α β : Type} {x : Res α} {f : α → Res β} {b : β} (h : (x >>= f) = .ok b) :
    ∃ a, x = .ok a ∧ f a = .ok b := by
  cases x with
  | ok a => exact ⟨a, rfl, h⟩
  | err => cases h
  | panic => cases h

theorem u64_small {x : Nat} (h : x < 2 ^ 64) : u64 x = x := by
  unfold u64 two64; omega

theorem u64_lt (x : Nat) : u64 x < 2 ^ 64 := by
  unfold u64 two64; omega

/-! ### the writer loop -/

/-- Inversion of a successful `foldW`: if every successful step from a state satisfying `I`
    re-establishes `I` and has the property `Q` (of the element, the write position, the bytes
    and the output), then after the loop `I` holds, there is one output per element, and the
    bytes split around every element's bytes such that `Q` holds at its position. -/
theorem foldW_inv {σ α β : Type} (step : σ → Nat → α → Res (σ × Bytes × β)) (I : σ → Prop)
    (Q : α → Nat → Bytes → β → Prop) (l : List α)
    (hstep : ∀ s c x s' b o, I s → x ∈ l → step s c x = .ok (s', b, o) → I s' ∧ Q x c b o) :
    ∀ (s : σ) (c : Nat) (s' : σ) (B : Bytes) (O : List β), I s → foldW step s c l = .ok (s', B, O) →
      I s' ∧ O.length = l.length ∧
      ∀ (i : Nat) (x : α), l[i]? = some x → ∃ Bpre b Bpost o, B = Bpre ++ b ++ Bpost ∧ O[i]? = some o ∧
        Q x (c + Bpre.length) b o := by
  induction l with
  | nil =>
    intro s c s' B O hI h
    simp only [foldW, Res.ok.injEq, Prod.mk.injEq] at h
    obtain ⟨rfl, rfl, rfl⟩ := h
    exact ⟨hI, rfl, fun i x hx => by simp at hx⟩
  | cons a r ih =>
    intro s c s' B O hI h
    unfold foldW at h
    split at h
    · rename_i s1 b o hs1
      split at h
      · rename_i s2 bs os hs2
        simp only [Res.ok.injEq, Prod.mk.injEq] at h
        obtain ⟨rfl, rfl, rfl⟩ := h
        obtain ⟨hI1, hQ⟩ := hstep s c a s1 b o hI (by simp) hs1
        obtain ⟨hI2, hlen, hel⟩ := ih (fun s c x s' b o hI hx => hstep s c x s' b o hI (by simp [hx]))
          s1 (c + b.length) s2 bs os hI1 hs2
        refine ⟨hI2, by simp [hlen], ?_⟩
        intro i x hx
        cases i with
        | zero =>
          simp only [List.getElem?_cons_zero, Option.some.injEq] at hx
          subst hx
          exact ⟨[], b, bs, o, by simp, by simp, by simpa using hQ⟩
        | succ i =>
          simp only [List.getElem?_cons_succ] at hx
          obtain ⟨Bpre, b', Bpost, o', hB, hO, hQ'⟩ := hel i x hx
          refine ⟨b ++ Bpre, b', Bpost, o', by rw [hB]; simp, by simpa using hO, ?_⟩
          rw [List.length_append, ← Nat.add_assoc]; exact hQ'
      · cases h
      · cases h
    · cases h
    · cases h

/-- the bytes of a successful loop are at least the bytes of any one element -/
theorem foldW_nil {σ α β : Type} (step : σ → Nat → α → Res (σ × Bytes × β)) (s : σ) (c : Nat) :
    foldW step s c ([] : List α) = .ok (s, [], []) := rfl

/-! ### valid term descriptions -/

/-- postings in document order, inside the segment, every entry within the Go types -/
def EntriesOK (numDocs : Nat) (es : List Entry) : Prop :=
  (∀ e ∈ es, e.Valid) ∧ es.Pairwise (fun a b => a.doc < b.doc) ∧ ∀ e ∈ es, e.doc < numDocs

instance (numDocs : Nat) (es : List Entry) : Decidable (EntriesOK numDocs es) := by
  unfold EntriesOK; infer_instance

/-- a 1-hit description only in the merger, document and norm in 31 bits (`fSTValEncode1Hit`
    masks both; a norm with bit 31 set - a negative float32 - would lose that bit); a general
    description has at least one posting -/
def TermDesc.Valid (merger : Bool) (numDocs : Nat) : TermDesc → Prop
  | .oneHit d n => merger = true ∧ d < 2 ^ 31 ∧ n < 2 ^ 31 ∧ d < numDocs
  | .general es => es ≠ [] ∧ EntriesOK numDocs es

instance (merger : Bool) (numDocs : Nat) (t : TermDesc) : Decidable (t.Valid merger numDocs) := by
  cases t <;> unfold TermDesc.Valid <;> infer_instance

theorem TermDesc.Valid.entriesOK {merger : Bool} {numDocs : Nat} {t : TermDesc}
    (h : t.Valid merger numDocs) : EntriesOK numDocs t.entries := by
  cases t with
  | oneHit d n =>
    obtain ⟨_, hd, hn, hdn⟩ := h
    refine ⟨?_, by simp [TermDesc.entries], ?_⟩
    · intro e he
      simp only [TermDesc.entries, List.mem_singleton] at he
      subst he
      refine ⟨by show (1 : Nat) < 2 ^ 63; decide, by show n < 2 ^ 64; omega, by simp, by simp⟩
    · intro e he
      simp only [TermDesc.entries, List.mem_singleton] at he
      subst he; exact hdn
  | general es => exact h.2

/-- a strictly ascending list of numbers below `n` has at most `n` members -/
theorem length_le_of_ascending (l : List Nat) (n : Nat) : ∀ k, l.Pairwise (· < ·) →
    (∀ x ∈ l, k ≤ x) → (∀ x ∈ l, x < n) → l.length + k ≤ n ∨ l = [] := by
  induction l with
  | nil => intro _ _ _ _; right; rfl
  | cons a r ih =>
    intro k hp hk hn
    left
    rw [List.pairwise_cons] at hp
    have hka := hk a (by simp)
    have han := hn a (by simp)
    rcases ih (a + 1) hp.2 (fun x hx => hp.1 x hx) (fun x hx => hn x (by simp [hx])) with h | h
    · simp only [List.length_cons]; omega
    · subst h; simp only [List.length_cons, List.length_nil]; omega

theorem EntriesOK.length_le {numDocs : Nat} {es : List Entry} (h : EntriesOK numDocs es) :
    es.length ≤ numDocs := by
  have hp : (es.map (·.doc)).Pairwise (· < ·) := by
    rw [List.pairwise_map]; exact h.2.1
  rcases length_le_of_ascending (es.map (·.doc)) numDocs 0 hp (fun _ _ => Nat.zero_le _)
    (by intro x hx; obtain ⟨e, he, rfl⟩ := List.mem_map.mp hx; exact h.2.2 e he) with h1 | h1
  · simpa using h1
  · have : es = [] := by simpa using h1
    subst this; simp

theorem EntriesOK.sorted {numDocs : Nat} {es : List Entry} (h : EntriesOK numDocs es) :
    es.Pairwise (fun a b => a.doc ≤ b.doc) :=
  h.2.1.imp (fun hab => Nat.le_of_lt hab)

/-! ### one term -/

/-- what a successful `writeTerm` at position `count` wrote (`b`) and returned (`v`) -/
def TermPost (K : Codecs) (chunkMode numDocs : Nat) (t : Bytes × TermDesc) (count : Nat)
    (b : Bytes) (v : Nat) : Prop :=
  match t.2 with
  | .oneHit d n => b = [] ∧ v = encode1Hit d n
  | .general es =>
    ∃ cs tf0 lc0 tf' lc', getChunkSize chunkMode es.length numDocs = .ok cs ∧ 0 < cs ∧
      Fresh tf0 ∧ tf0.chunkSize = cs ∧ tf0.lensLen = (numDocs - 1) / cs + 1 ∧
      Fresh lc0 ∧ lc0.chunkSize = cs ∧ lc0.lensLen = (numDocs - 1) / cs + 1 ∧
      tf0.encode K.chunk (tfAdds es) = .ok tf' ∧ lc0.encode K.chunk (locAdds es) = .ok lc' ∧
      b = (tf'.writeAt count).2.1 ++ (lc'.writeAt (count + (tf'.writeAt count).2.1.length)).2.1 ++
          postingsRecord K (tf'.writeAt count).1
            (lc'.writeAt (count + (tf'.writeAt count).2.1.length)).1 (es.map (·.doc)) ∧
      v = u64 (count + (tf'.writeAt count).2.1.length +
            (lc'.writeAt (count + (tf'.writeAt count).2.1.length)).2.1.length)

theorem writeAt_reset_fresh {c : Coder} (h : TailZero c) (n : Nat) : Fresh (c.writeAt n).2.2.reset := by
  unfold Coder.writeAt
  split
  · exact h.reset
  · exact h.write.reset

theorem chunk_total_lt {numDocs cs : Nat} (hn : numDocs < 2 ^ 32) :
    (numDocs - 1) / cs + 1 < ChunkBytes.two63 := by
  have : (numDocs - 1) / cs ≤ numDocs - 1 := Nat.div_le_self _ _
  unfold ChunkBytes.two63; omega

/-- `setChunkSize` then `encode` on a fresh coder: inversion -/
theorem encode_inv (Kc : ChunkBytes.Codec) {c c0 c' : Coder} (hf : Fresh c) {cs numDocs : Nat}
    (hcs : 0 < cs) (hn : numDocs < 2 ^ 32) (adds : List (Nat × List Nat))
    (hs : Ice.Props.ChunkBytes.ChunkSorted cs adds) (hidx : ∀ a ∈ adds, a.1 ≤ numDocs - 1)
    (h0 : c.setChunkSize cs (numDocs - 1) = .ok c0) (h1 : c0.encode Kc adds = .ok c') :
    Fresh c0 ∧ c0.chunkSize = cs ∧ c0.lensLen = (numDocs - 1) / cs + 1 ∧ TailZero c' := by
  obtain ⟨c0', e0, hf0, hc0, hl0⟩ := Coder.setChunkSize_ok hf hcs (chunk_total_lt (cs := cs) hn)
  rw [h0] at e0; cases e0
  obtain ⟨c'', e1, -, -, htz⟩ := Ice.Props.ChunkBytes.T5_encode Kc c0 hf0 cs _ hc0 hcs hl0
    (Nat.succ_pos _) adds hs (fun a ha => chunk_index_lt cs a.1 _ (hidx a ha))
  rw [h1] at e1; cases e1
  exact ⟨hf0, hc0, hl0, htz⟩

theorem writeTerm_inv (K : Codecs) (merger : Bool) (chunkMode numDocs : Nat)
    (hmode : 1 ≤ chunkMode) (hnd : 0 < numDocs) (hn32 : numDocs < 2 ^ 32)
    (st st' : Coders) (count : Nat) (t : Bytes × TermDesc) (b : Bytes) (v : Nat)
    (hI : Fresh st.tf ∧ Fresh st.lc) (hv : t.2.Valid merger numDocs)
    (h : writeTerm K merger chunkMode numDocs st count t = .ok (st', b, v)) :
    (Fresh st'.tf ∧ Fresh st'.lc) ∧ TermPost K chunkMode numDocs t count b v := by
  have hok := hv.entriesOK
  unfold writeTerm at h
  obtain ⟨cs, hcs, h⟩ := bind_eq_ok h
  obtain ⟨tf0, htf0, h⟩ := bind_eq_ok h
  obtain ⟨lc0, hlc0, h⟩ := bind_eq_ok h
  obtain ⟨tf', htf', h⟩ := bind_eq_ok h
  obtain ⟨lc', hlc', h⟩ := bind_eq_ok h
  obtain ⟨r, hr, h⟩ := bind_eq_ok h
  have hcspos : 0 < cs := getChunkSize_pos chunkMode _ numDocs cs hmode hok.length_le hnd hcs
  obtain ⟨hs1, hs2⟩ := Ice.Props.ChunkBytes.T7_sorted cs t.2.entries hok.sorted
  have hidx1 : ∀ a ∈ tfAdds t.2.entries, a.1 ≤ numDocs - 1 := by
    intro a ha
    simp only [tfAdds, List.mem_map] at ha
    obtain ⟨e, he, rfl⟩ := ha
    have := hok.2.2 e he
    simp only; omega
  have hidx2 : ∀ a ∈ locAdds t.2.entries, a.1 ≤ numDocs - 1 := by
    intro a ha
    simp only [locAdds, List.mem_flatMap] at ha
    obtain ⟨e, he, ha⟩ := ha
    rw [ChunkBytes.locAddsOf_doc e a ha]
    have := hok.2.2 e he
    omega
  obtain ⟨hf1, hc1, hl1, htz1⟩ := encode_inv K.chunk hI.1 hcspos hn32 _ hs1 hidx1 htf0 htf'
  obtain ⟨hf2, hc2, hl2, htz2⟩ := encode_inv K.chunk hI.2 hcspos hn32 _ hs2 hidx2 hlc0 hlc'
  obtain ⟨bytes, value, tfr, lcr⟩ := r
  simp only [ChunkBytes.pure_eq_ok, Res.ok.injEq, Prod.mk.injEq] at h
  obtain ⟨rfl, rfl, rfl⟩ := h
  cases ht : t.2 with
  | oneHit d n =>
    rw [ht] at hv
    have hne : (TermDesc.oneHit d n).entries.isEmpty = false := rfl
    rw [ht] at hr
    simp only [hne, Bool.false_eq_true, if_false] at hr
    split at hr
    · simp only [Res.ok.injEq, Prod.mk.injEq] at hr
      obtain ⟨rfl, rfl, rfl, rfl⟩ := hr
      refine ⟨⟨htz1.reset, htz2.reset⟩, ?_⟩
      unfold TermPost; rw [ht]; exact ⟨rfl, rfl⟩
    · cases hr
  | general es =>
    rw [ht] at hv
    have hne : (TermDesc.general es).entries.isEmpty = false := by
      cases es with
      | nil => exact absurd rfl hv.1
      | cons _ _ => rfl
    rw [ht] at hr
    simp only [hne, Bool.false_eq_true, if_false] at hr
    simp only [Res.ok.injEq, Prod.mk.injEq] at hr
    obtain ⟨rfl, rfl, rfl, rfl⟩ := hr
    refine ⟨⟨writeAt_reset_fresh htz1 _, writeAt_reset_fresh htz2 _⟩, ?_⟩
    unfold TermPost; rw [ht]
    have he : t.2.entries = es := by rw [ht]; rfl
    rw [he] at hcs htf' hlc'
    exact ⟨cs, tf0, lc0, tf', lc', hcs, hcspos, hf1, hc1, hl1, hf2, hc2, hl2, htf', hlc',
      rfl, rfl⟩

/-! ### FST values -/

theorem encode1Hit_lt (d n : Nat) : encode1Hit d n < 2 ^ 64 := by
  unfold encode1Hit
  have h1 : n % 2 ^ 31 < 2 ^ 31 := Nat.mod_lt _ (by decide)
  have h2 : d % 2 ^ 31 < 2 ^ 31 := Nat.mod_lt _ (by decide)
  have h3 : n % 2 ^ 31 * 2 ^ 31 ≤ (2 ^ 31 - 1) * 2 ^ 31 := Nat.mul_le_mul_right _ (by omega)
  omega

theorem postingsRecord_ne_nil (K : Codecs) (a b : Nat) (ds : List Nat) : postingsRecord K a b ds ≠ [] := by
  unfold postingsRecord
  have := putUvarint_ne_nil a
  cases h : putUvarint a with
  | nil => exact absurd h this
  | cons x r => simp

/-- the value a term gets in the FST: positive, a `uint64`; for a general term the offset of its
    record inside the term's bytes (never mistaken for a 1-hit value) -/
theorem termPost_value {K : Codecs} {mode nd : Nat} {t : Bytes × TermDesc} {count : Nat} {b : Bytes}
    {v : Nat} (hp : TermPost K mode nd t count b v) (hc : 0 < count)
    (hsz : count + b.length < 2 ^ 62) :
    0 < v ∧ v < 2 ^ 64 ∧
      match t.2 with
      | .oneHit d n => v = encode1Hit d n
      | .general _ => count ≤ v ∧ v < count + b.length ∧ is1Hit v = false := by
  unfold TermPost at hp
  cases ht : t.2 with
  | oneHit d n =>
    rw [ht] at hp
    obtain ⟨_, rfl⟩ := hp
    exact ⟨encode1Hit_pos d n, encode1Hit_lt d n, rfl⟩
  | general es =>
    rw [ht] at hp
    obtain ⟨cs, tf0, lc0, tf', lc', _, _, _, _, _, _, _, _, _, _, hb, hv⟩ := hp
    have hbl := congrArg List.length hb
    simp only [List.length_append] at hbl
    have hrec := List.length_pos_iff.mpr (postingsRecord_ne_nil K (tf'.writeAt count).1
      (lc'.writeAt (count + (tf'.writeAt count).2.1.length)).1 (es.map (·.doc)))
    rw [u64_small (by omega)] at hv
    subst hv
    refine ⟨by omega, by omega, by omega, by omega, is1Hit_offset _ (by omega)⟩

theorem fstEntries_eq (terms : List (Bytes × TermDesc)) (vals : List Nat) (h : ∀ v ∈ vals, 0 < v) :
    fstEntries terms vals = (terms.map (·.1)).zip vals := by
  unfold fstEntries
  rw [List.filter_eq_self]
  intro p hp
  have := h p.2 (List.of_mem_zip hp).2
  simpa using this

/-! ### `writeAt` and the location offset of the postings record -/

theorem writeAt_cases (c : Coder) (n : Nat) :
    c.writeAt n = (0, [], c) ∨
    (c.writeAt n = (n % two64, c.streamBytes, c.write.2) ∧ c.streamBytes ≠ []) := by
  unfold Coder.writeAt
  split
  · left; rfl
  · right
    refine ⟨rfl, ?_⟩
    unfold Coder.streamBytes Coder.write
    simp only
    have := putUvarint_ne_nil (ChunkBytes.endOffsets 0 c.chunkLens).length
    cases h : putUvarint (ChunkBytes.endOffsets 0 c.chunkLens).length with
    | nil => exact absurd h this
    | cons x r => simp

/-- `PostingsList.read` undoes what `writePostings` did to the location offset: the record holds
    `locOffset - tfOffset` when both streams were written, and the reader adds `freqOffset` back
    under the same test - which is the same test because the freq/norm stream is not empty. -/
theorem locOffset_roundtrip (tf' lc' : Coder) (count : Nat) (hc : 0 < count)
    (h : count + (tf'.writeAt count).2.1.length < 2 ^ 62) :
    let w1 := tf'.writeAt count
    let w2 := lc'.writeAt (count + w1.2.1.length)
    let raw := if w2.1 > 0 ∧ w1.1 > 0 then sub64 w2.1 w1.1 else w2.1
    raw < 2 ^ 64 ∧ w1.1 < 2 ^ 64 ∧ (w1.1 = 0 ∨ w1.1 = count) ∧
      (w2.1 = 0 ∨ w2.1 = count + w1.2.1.length) ∧
      (if raw > 0 ∧ w1.1 > 0 then add64 raw w1.1 else raw) = w2.1 := by
  intro w1 w2 raw
  have e1 : count % two64 = count := Nat.mod_eq_of_lt (by unfold two64; omega)
  rcases writeAt_cases tf' count with h1 | ⟨h1, hne1⟩
  · have hw1 : w1 = (0, [], tf') := h1
    have hw10 : w1.1 = 0 := by rw [hw1]
    have hw1l : w1.2.1.length = 0 := by rw [hw1]; rfl
    have hraw : raw = w2.1 := by
      show (if w2.1 > 0 ∧ w1.1 > 0 then sub64 w2.1 w1.1 else w2.1) = w2.1
      rw [hw10]; simp
    have hw2 : w2.1 = 0 ∨ w2.1 = count + w1.2.1.length := by
      rcases writeAt_cases lc' (count + w1.2.1.length) with h2 | ⟨h2, _⟩
      · left; show (lc'.writeAt (count + w1.2.1.length)).1 = 0; rw [h2]
      · right; show (lc'.writeAt (count + w1.2.1.length)).1 = _; rw [h2]
        show (count + w1.2.1.length) % two64 = _
        rw [hw1l, Nat.add_zero, e1]
    refine ⟨?_, by rw [hw10]; decide, Or.inl hw10, hw2, ?_⟩
    · rw [hraw]; rcases hw2 with h | h <;> rw [h] <;> omega
    · rw [hraw, hw10]; simp
  · have hw1 : w1 = (count % two64, tf'.streamBytes, tf'.write.2) := h1
    have hw1c : w1.1 = count := by rw [hw1]; exact e1
    have hw1l : 0 < w1.2.1.length := by
      rw [hw1]; exact List.length_pos_iff.mpr hne1
    have hsz : count + w1.2.1.length < 2 ^ 62 := h
    have e2 : (count + w1.2.1.length) % two64 = count + w1.2.1.length :=
      Nat.mod_eq_of_lt (by unfold two64; omega)
    rcases writeAt_cases lc' (count + w1.2.1.length) with h2 | ⟨h2, _⟩
    · have hw20 : w2.1 = 0 := by show (lc'.writeAt (count + w1.2.1.length)).1 = 0; rw [h2]
      have hraw : raw = 0 := by
        show (if w2.1 > 0 ∧ w1.1 > 0 then sub64 w2.1 w1.1 else w2.1) = 0
        rw [hw20]; simp
      refine ⟨by rw [hraw]; decide, by rw [hw1c]; omega, Or.inr hw1c, Or.inl hw20, ?_⟩
      rw [hraw, hw20]; simp
    · have hw2c : w2.1 = count + w1.2.1.length := by
        show (lc'.writeAt (count + w1.2.1.length)).1 = _; rw [h2]; exact e2
      have hraw : raw = w1.2.1.length := by
        show (if w2.1 > 0 ∧ w1.1 > 0 then sub64 w2.1 w1.1 else w2.1) = _
        rw [hw2c, hw1c, if_pos ⟨by omega, hc⟩, DocValues.sub64_small (by omega) (by omega)]
        omega
      refine ⟨by rw [hraw]; omega, by rw [hw1c]; omega, Or.inr hw1c, Or.inr hw2c, ?_⟩
      rw [hraw, hw1c, hw2c, if_pos ⟨hw1l, hc⟩, DocValues.add64_small (by omega)]
      omega

/-! ### the two chunk streams of a term, read back (T7 for re-used coders) -/

open Ice.Props.ChunkBytes in
/-- `T7_postings_roundtrip` for coders that were re-sized (`SetChunkSize`) instead of newly
    created: decoders opened at the offsets `writeAt` returned load, chunk by chunk, bytes from
    which entry-by-entry decoding returns the entries of that chunk. -/
theorem postings_decoders (Kc : ChunkBytes.Codec) (cs total : Nat) (hpos : 0 < cs)
    (es : List Entry) (hv : ∀ e ∈ es, e.Valid) (hs : es.Pairwise (fun a b => a.doc ≤ b.doc))
    (hidx : ∀ e ∈ es, e.doc / cs < total) (ht : 0 < total)
    (tf lc tf' lc' : Coder) (hf1 : Fresh tf) (hc1 : tf.chunkSize = cs) (hl1 : tf.lensLen = total)
    (hf2 : Fresh lc) (hc2 : lc.chunkSize = cs) (hl2 : lc.lensLen = total)
    (htf' : tf.encode Kc (tfAdds es) = .ok tf') (hlc' : lc.encode Kc (locAdds es) = .ok lc')
    (file : Bool) (pre suf : Bytes) (hpre : pre ≠ []) :
    let w1 := tf'.writeAt pre.length
    let w2 := lc'.writeAt (pre.length + w1.2.1.length)
    let data := pre ++ w1.2.1 ++ w2.2.1 ++ suf
    data.length < 2 ^ 62 → (file = true → 10 ≤ suf.length) →
    ∃ dt dl, ChunkBytes.Decoder.newWith file data w1.1 = .ok dt ∧
      ChunkBytes.Decoder.newWith file data w2.1 = .ok dl ∧
      ∀ c, c < total →
        ∃ fb lb, dt.loadChunk Kc c = .ok fb ∧ dl.loadChunk Kc c = .ok lb ∧
          ChunkBytes.decodeAll ((chunkOf cs es c).length + 1) ⟨fb, 0⟩ ⟨lb, 0⟩
            = .ok ((chunkOf cs es c).map fun e => (e.freq, e.norm, e.locs)) := by
  intro w1 w2 data hsz hsuf
  have hidx1 : ∀ a ∈ tfAdds es, a.1 / cs < total := by
    intro a ha
    simp only [tfAdds, List.mem_map] at ha
    obtain ⟨e, he, rfl⟩ := ha
    exact hidx e he
  have hidx2 : ∀ a ∈ locAdds es, a.1 / cs < total := by
    intro a ha
    simp only [locAdds, List.mem_flatMap] at ha
    obtain ⟨e, he, ha⟩ := ha
    rw [ChunkBytes.locAddsOf_doc e a ha]
    exact hidx e he
  obtain ⟨hs1, hs2⟩ := T7_sorted cs es hs
  have hd1 : data = pre ++ (tf'.writeAt pre.length).2.1 ++ (w2.2.1 ++ suf) := by
    simp only [data, w1, List.append_assoc]
  have hd2 : data = (pre ++ w1.2.1) ++ (lc'.writeAt (pre ++ w1.2.1).length).2.1 ++ suf := by
    simp only [data, w2, List.length_append]
  obtain ⟨dt, hdt, hlt⟩ := T6_writeAt Kc tf hf1 cs total hc1 hpos hl1 ht (tfAdds es) hs1
    hidx1 tf' htf' file pre (w2.2.1 ++ suf) hpre (by rw [← hd1]; exact hsz)
    (by intro h; have := hsuf h; simp; omega)
  obtain ⟨dl, hdl, hll⟩ := T6_writeAt Kc lc hf2 cs total hc2 hpos hl2 ht (locAdds es) hs2
    hidx2 lc' hlc' file (pre ++ w1.2.1) suf (by simp [hpre]) (by rw [← hd2]; exact hsz) hsuf
  rw [← hd1] at hdt
  rw [← hd2] at hdl
  have hw2 : w2.1 = (lc'.writeAt (pre ++ w1.2.1).length).1 := by simp only [w2, List.length_append]
  refine ⟨dt, dl, hdt, by rw [hw2]; exact hdl, ?_⟩
  intro c hc
  refine ⟨_, _, hlt c hc, hll c hc, ?_⟩
  rw [(T7_chunks cs es c).1, (T7_chunks cs es c).2]
  exact T4_decodeAll _ (fun e he => hv e (List.mem_filter.mp he).1) _ (Nat.lt_succ_self _)

/-! ### one field -/

/-- which of the two doc-value writers of `Props/C07.lean` -/
def dvMode (merger : Bool) : Ice.Props.C07.Mode := if merger then .merger else .builder

/-- valid field description: the numbers are `uint64`, the term keys ascend strictly from one to
    the next (`DictKeys` is sorted and duplicate-free; the enumerator of the merger delivers terms
    in order), every term is valid, the doc-value column is valid in the sense of C07 -/
def FieldDesc.Valid (merger : Bool) (numDocs : Nat) (f : FieldDesc) : Prop :=
  f.name.length < 2 ^ 64 ∧ f.fieldDocs < 2 ^ 64 ∧ f.fieldFreqs < 2 ^ 64 ∧
  ascKeys (f.terms.map (·.1)) = true ∧ (∀ t ∈ f.terms, t.2.Valid merger numDocs) ∧
  ∀ vals, f.dv = some vals → Ice.Props.C07.Valid dvChunk (numDocs - 1) vals

/-- the dictionary bytes of a field -/
def dictBytes (K : Codecs) (es : List (Bytes × Nat)) : Bytes :=
  putUvarint (K.fstEnc es).length ++ K.fstEnc es

/-- what a successful `writeField` at position `count` wrote (`b`) and recorded (`o`) -/
def FieldPost (K : Codecs) (merger : Bool) (chunkMode numDocs : Nat) (f : FieldDesc) (count : Nat)
    (b : Bytes) (o : FieldOut) : Prop :=
  ∃ (tb : Bytes) (vals : List Nat) (sec : Bytes),
    vals.length = f.terms.length ∧
    (∀ (j : Nat) (t : Bytes × TermDesc), f.terms[j]? = some t →
      ∃ Tpre tbj Tpost v, tb = Tpre ++ tbj ++ Tpost ∧ vals[j]? = some v ∧
        TermPost K chunkMode numDocs t (count + Tpre.length) tbj v) ∧
    ascKeys ((fstEntries f.terms vals).map (·.1)) = true ∧
    b = tb ++ dictBytes K (fstEntries f.terms vals) ++ sec ∧
    o.dictLoc = u64 (count + tb.length) ∧
    (match f.dv with
     | none => sec = [] ∧ o.dvStart = maxUint64 ∧ o.dvEnd = maxUint64
     | some dvals =>
       ∃ s e, Ice.Props.C07.writeField (dvMode merger) K.dv dvChunk (numDocs - 1)
           (count + tb.length + (dictBytes K (fstEntries f.terms vals)).length) dvals
             = .ok (sec, s, e) ∧ o.dvStart = u64 s ∧ o.dvEnd = u64 e)

theorem writeField_inv (K : Codecs) (merger : Bool) (chunkMode numDocs : Nat)
    (hmode : 1 ≤ chunkMode) (hnd : 0 < numDocs) (hn32 : numDocs < 2 ^ 32)
    (st st' : Coders) (count : Nat) (f : FieldDesc) (b : Bytes) (o : FieldOut)
    (hI : Fresh st.tf ∧ Fresh st.lc) (hv : f.Valid merger numDocs)
    (h : writeField K merger chunkMode numDocs st count f = .ok (st', b, o)) :
    (Fresh st'.tf ∧ Fresh st'.lc) ∧ FieldPost K merger chunkMode numDocs f count b o := by
  obtain ⟨_, _, _, _, hterms, _⟩ := hv
  unfold writeField at h
  obtain ⟨r, hr, h⟩ := bind_eq_ok h
  obtain ⟨st1, tb, vals⟩ := r
  obtain ⟨hI1, hlen, hel⟩ := foldW_inv (writeTerm K merger chunkMode numDocs)
    (fun s => Fresh s.tf ∧ Fresh s.lc) (TermPost K chunkMode numDocs) f.terms
    (fun s c x s' b o hI hx hs =>
      writeTerm_inv K merger chunkMode numDocs hmode hnd hn32 s s' c x b o hI (hterms x hx) hs)
    st count st1 tb vals hI hr
  simp only at h
  split at h
  · cases h
  · rename_i hasc
    have hasc' : ascKeys ((fstEntries f.terms vals).map (·.1)) = true := by
      simpa using hasc
    cases hdv : f.dv with
    | none =>
      rw [hdv] at h
      simp only [ChunkBytes.pure_eq_ok, Res.ok.injEq, Prod.mk.injEq] at h
      obtain ⟨rfl, rfl, rfl⟩ := h
      refine ⟨hI1, tb, vals, [], hlen, hel, hasc', by simp [dictBytes], rfl, ?_⟩
      rw [hdv]
      exact ⟨rfl, rfl, rfl⟩
    | some dvals =>
      rw [hdv] at h
      have key : ∃ sec s e, Ice.Props.C07.writeField (dvMode merger) K.dv dvChunk (numDocs - 1)
            (count + tb.length + (dictBytes K (fstEntries f.terms vals)).length) dvals
              = .ok (sec, s, e) ∧
          (st', b, o) = (st1, tb ++ dictBytes K (fstEntries f.terms vals) ++ sec,
            ({ dictLoc := u64 (count + tb.length), dvStart := u64 s, dvEnd := u64 e } : FieldOut)) := by
        unfold Ice.Props.C07.writeField dvMode dictBytes
        cases merger
        · simp only [Bool.false_eq_true, if_false] at h ⊢
          obtain ⟨r2, hr2, h⟩ := bind_eq_ok h
          obtain ⟨sec, s, e⟩ := r2
          simp only [ChunkBytes.pure_eq_ok, Res.ok.injEq] at h
          exact ⟨sec, s, e, hr2, h.symm⟩
        · simp only [if_true] at h ⊢
          obtain ⟨r2, hr2, h⟩ := bind_eq_ok h
          obtain ⟨sec, s, e⟩ := r2
          simp only [ChunkBytes.pure_eq_ok, Res.ok.injEq] at h
          exact ⟨sec, s, e, hr2, h.symm⟩
      obtain ⟨sec, s, e, hw, heq⟩ := key
      simp only [Prod.mk.injEq] at heq
      obtain ⟨rfl, rfl, rfl⟩ := heq
      refine ⟨hI1, tb, vals, sec, hlen, hel, hasc', rfl, rfl, ?_⟩
      rw [hdv]
      exact ⟨s, e, hw, rfl, rfl⟩

/-! ### the fields section -/

theorem persistFieldsLoop_length : ∀ (fs : List (Nat × FieldDesc)) (count : Nat),
    (persistFieldsLoop count fs).2.length = fs.length := by
  intro fs
  induction fs with
  | nil => intro _; rfl
  | cons p r ih => intro count; obtain ⟨dl, f⟩ := p; simp [persistFieldsLoop, ih]

/-- record `j` sits inside the record bytes at the offset noted for it -/
theorem persistFieldsLoop_spec : ∀ (fs : List (Nat × FieldDesc)) (count j : Nat) (p : Nat × FieldDesc),
    fs[j]? = some p → ∃ pre post, (persistFieldsLoop count fs).1 = pre ++ fieldRecord p.1 p.2 ++ post ∧
      (persistFieldsLoop count fs).2[j]? = some (u64 (count + pre.length)) := by
  intro fs
  induction fs with
  | nil => intro _ j p h; simp at h
  | cons q r ih =>
    intro count j p h
    obtain ⟨dl, f⟩ := q
    cases j with
    | zero =>
      simp only [List.getElem?_cons_zero, Option.some.injEq] at h
      subst h
      exact ⟨[], (persistFieldsLoop (count + (fieldRecord dl f).length) r).1, by simp [persistFieldsLoop],
        by simp [persistFieldsLoop]⟩
    | succ j =>
      simp only [List.getElem?_cons_succ] at h
      obtain ⟨pre, post, h1, h2⟩ := ih (count + (fieldRecord dl f).length) j p h
      refine ⟨fieldRecord dl f ++ pre, post, ?_, ?_⟩
      · simp only [persistFieldsLoop, h1, List.append_assoc]
      · simp only [persistFieldsLoop, List.getElem?_cons_succ, h2, List.length_append, Nat.add_assoc]

theorem putUvarint_length_pos (x : Nat) : 0 < (putUvarint x).length :=
  List.length_pos_iff.mpr (putUvarint_ne_nil x)

theorem fieldRecord_length_ge (dl : Nat) (f : FieldDesc) : 4 ≤ (fieldRecord dl f).length := by
  unfold fieldRecord
  simp only [List.length_append]
  have := putUvarint_length_pos dl
  have := putUvarint_length_pos f.name.length
  have := putUvarint_length_pos f.fieldDocs
  have := putUvarint_length_pos f.fieldFreqs
  omega

theorem persistFieldsLoop_bytes_ge : ∀ (fs : List (Nat × FieldDesc)) (count : Nat),
    4 * fs.length ≤ (persistFieldsLoop count fs).1.length := by
  intro fs
  induction fs with
  | nil => intro _; simp
  | cons p r ih =>
    intro count
    obtain ⟨dl, f⟩ := p
    have := ih (count + (fieldRecord dl f).length)
    have := fieldRecord_length_ge dl f
    simp only [persistFieldsLoop, List.length_append, List.length_cons]
    omega

/-- the fields section (records and address table) takes at least 12 bytes per field: with one
    field it is longer than any 10-byte look-ahead window -/
theorem persistFields_length_ge (count : Nat) (fs : List (Nat × FieldDesc)) :
    12 * fs.length ≤ (persistFields count fs).1.length := by
  unfold persistFields
  simp only [List.length_append]
  have h1 := persistFieldsLoop_bytes_ge fs count
  have h2 := persistFieldsLoop_length fs count
  have h3 : ((persistFieldsLoop count fs).2.flatMap (be 8)).length =
      8 * (persistFieldsLoop count fs).2.length := by
    generalize (persistFieldsLoop count fs).2 = l
    induction l with
    | nil => rfl
    | cons a l ih => simp only [List.flatMap_cons, List.length_append, ih, DocValues.be_length, List.length_cons]; omega
  omega

/-! ### the whole data section -/

/-- the stored section of `L` -/
def storedOut (K : Codecs) (L : LSeg) : Stored.StoredOut :=
  Stored.writeStoredFields K.stored docBlock L.stored

/-- the shape of every written data section: stored section, a middle part (postings,
    dictionaries, doc values and their index - empty without documents), fields section;
    and the footer values -/
structure Shape (K : Codecs) (L : LSeg) (data : Bytes) (ft : Footer) (mid : Bytes)
    (dictLocs : List Nat) : Prop where
  dl_len : dictLocs.length = L.fields.length
  data_eq : data = (storedOut K L).bytes ++ mid ++
    (persistFields ((storedOut K L).bytes.length + mid.length) (dictLocs.zip L.fields)).1
  numDocs : ft.numDocs = L.numDocs
  sio : ft.storedIndexOffset = (storedOut K L).storedIndexOffset
  fio : ft.fieldsIndexOffset =
    (persistFields ((storedOut K L).bytes.length + mid.length) (dictLocs.zip L.fields)).2
  mode : ft.chunkMode = L.chunkMode
  version : ft.version = 2

/-- the middle part of a segment with documents -/
structure Middle (K : Codecs) (L : LSeg) (ft : Footer) (mid : Bytes) (dictLocs : List Nat)
    (fb : Bytes) (outs : List FieldOut) : Prop where
  run : ∃ tf lc st', Fresh tf ∧ Fresh lc ∧
    foldW (writeField K L.merger L.chunkMode L.numDocs) { tf := tf, lc := lc }
      (storedOut K L).bytes.length L.fields = .ok (st', fb, outs)
  mid_eq : mid = fb ++ dvIndexBytes outs
  dl_eq : dictLocs = outs.map (·.dictLoc)
  dvo : ft.docValueOffset = u64 ((storedOut K L).bytes.length + fb.length)

theorem serialize_inv (K : Codecs) (L : LSeg) (data : Bytes) (ft : Footer)
    (hn32 : L.numDocs < 2 ^ 32) (h : serialize K L = .ok (data, ft)) :
    ∃ mid dictLocs, Shape K L data ft mid dictLocs ∧
      (L.numDocs = 0 → mid = [] ∧ dictLocs = L.fields.map (fun _ => 0) ∧
        ft.docValueOffset = if L.merger then maxUint64 else 0) ∧
      (0 < L.numDocs → ∃ fb outs, Middle K L ft mid dictLocs fb outs) := by
  unfold serialize serializeWith at h
  simp only [if_true] at h
  obtain ⟨r, hr, h⟩ := bind_eq_ok h
  obtain ⟨db, dictLocs, dvOff⟩ := r
  simp only [ChunkBytes.pure_eq_ok, Res.ok.injEq, Prod.mk.injEq] at h
  obtain ⟨rfl, rfl⟩ := h
  by_cases hnd : 0 < L.numDocs
  · simp only [hnd, if_true] at hr
    obtain ⟨tf, htf, hr⟩ := bind_eq_ok hr
    obtain ⟨lc, hlc, hr⟩ := bind_eq_ok hr
    obtain ⟨r2, hr2, hr⟩ := bind_eq_ok hr
    obtain ⟨st', fb, outs⟩ := r2
    simp only [ChunkBytes.pure_eq_ok, Res.ok.injEq, Prod.mk.injEq] at hr
    obtain ⟨rfl, rfl, rfl⟩ := hr
    obtain ⟨c0, hc0, hf0, -, -⟩ := Coder.new_ok (cs := 1024) (m := L.numDocs - 1) (by decide)
      (chunk_total_lt hn32)
    have e1 : tf = c0 := by rw [htf] at hc0; cases hc0; rfl
    have e2 : lc = c0 := by rw [hlc] at hc0; cases hc0; rfl
    have hlen : outs.length = L.fields.length := by
      have := (foldW_inv (writeField K L.merger L.chunkMode L.numDocs) (fun _ => True)
        (fun _ _ _ _ => True) L.fields (fun _ _ _ _ _ _ _ _ _ => ⟨trivial, trivial⟩)
        { tf := tf, lc := lc } _ st' fb outs trivial hr2).2.1
      exact this
    refine ⟨fb ++ dvIndexBytes outs, outs.map (·.dictLoc), ⟨by simp [hlen], rfl, rfl, rfl, rfl, rfl, rfl⟩,
      fun h0 => by omega, fun _ => ⟨fb, outs, ⟨tf, lc, st', e1 ▸ hf0, e2 ▸ hf0, hr2⟩, rfl, rfl, rfl⟩⟩
  · simp only [hnd, if_false, ChunkBytes.pure_eq_ok, Res.ok.injEq, Prod.mk.injEq] at hr
    obtain ⟨rfl, rfl, rfl⟩ := hr
    refine ⟨[], L.fields.map (fun _ => 0), ⟨by simp, rfl, rfl, rfl, rfl, rfl, rfl⟩,
      fun _ => ⟨rfl, rfl, rfl⟩, fun h0 => absurd h0 hnd⟩

end Ice.Model.Format
