import IceModel.Lemmas.E2EMDefs
/-
  END-TO-END, second generation, the leaves: what `New` lays out (`Built.toLSeg`) lays out
  `Spec.build` in the sense of `Lays`, and `Spec.build` of a valid batch inside the bounds is a
  well-formed abstract segment (`AbsOK`).
-/
namespace Ice.Props.E2EM
open Ice Ice.Spec Ice.Model Ice.Model.Builder Ice.Model.Format
open Ice.Model.MergeRest (DocRel Rel₂ DocAsc nameOf stored_eq storedOf gOf)
open Ice.Model.MergeLoop (TermsNodupDocs)
open Ice.Props.E2E

/-! ### the stored documents of the builder's description -/

theorem storedDocOf_ids (F : List Bytes) (d : List (Bytes × Bytes)) :
    ∀ fv ∈ storedDocOf F d, fv.1 < F.length := by
  intro fv hfv
  unfold storedDocOf at hfv
  simp only [List.mem_filterMap, List.mem_range] at hfv
  obtain ⟨k, hk, hkv⟩ := hfv
  split at hkv
  · cases hkv
  · injection hkv with hkv
    rw [← hkv]; exact hk

theorem filterMap_range_asc {α : Type} (g : Nat → Option (Nat × α))
    (hg : ∀ k q, g k = some q → q.1 = k) (n : Nat) :
    ((List.range n).filterMap g).Pairwise (fun a b => a.1 < b.1) := by
  rw [List.pairwise_filterMap]
  refine (List.pairwise_lt_range (n := n)).imp ?_
  intro a a' hlt q hq q' hq'
  rw [hg a q hq, hg a' q' hq']
  exact hlt

theorem storedDocOf_asc (F : List Bytes) (d : List (Bytes × Bytes)) : DocAsc (storedDocOf F d) := by
  unfold DocAsc storedDocOf
  apply filterMap_range_asc
  intro k q hq
  simp only at hq
  split at hq
  · cases hq
  · injection hq with hq
    rw [← hq]

theorem storedOf_keyed (F : List Bytes) (a : ADoc) :
    storedOf F a = F.flatMap (fun f => ((match a.field? f with
      | some af => af.stored
      | none => []) : List Bytes).map (fun v => (f, v))) := by
  unfold storedOf
  congr 1
  funext f
  unfold gOf
  cases a.field? f <;> rfl

section
variable {nc : Bytes → Nat → Nat} {b : Batch} (hv : ValidBatch b) (mode : Nat)

theorem idPerm : PermOK idOrder := fun _ _ m => List.Perm.refl m

include hv in
theorem run_builtOf : run nc idOrder b = .ok (builtOf nc b) := run_eq _ _ _ hv idPerm

include hv in
/-- **what `New` lays out lays out `Spec.build`** -/
theorem build_lays : Lays (build nc mode b) ((builtOf nc b).toLSeg mode) := by
  have hrun := run_builtOf (nc := nc) hv
  have hπ := idPerm
  have hnd : ((builtOf nc b).toLSeg mode).numDocs = b.length := toLSeg_numDocs hv hπ hrun mode
  have hdl : (build nc mode b).docs.length = b.length := by rw [E2E.build_docs, List.length_map]
  have hslen : ((builtOf nc b).toLSeg mode).stored.length = b.length := by
    simp [Built.toLSeg, stored_length hv hπ hrun]
  have hfe := fields_eq hv hπ hrun mode
  have hnodup : (build nc mode b).fields.Nodup := spec_fields_nodup mode
  have hstored : ∀ (n : Nat) (hn : n < b.length),
      ((builtOf nc b).toLSeg mode).stored[n]? =
        some (storedDocOf (build nc mode b).fields (stored (build nc mode b) n)) := by
    intro n hn
    have hrn : n < (builtOf nc b).stored.length := by rw [stored_length hv hπ hrun]; exact hn
    simp only [Built.toLSeg, List.getElem?_map, List.getElem?_eq_getElem hrn, Option.map_some]
    rw [← C01.C01_stored hv hπ hrun mode n, hfe]
    simp only [Built.storedOf, List.getD_eq_getElem?_getD, List.getElem?_eq_getElem hrn,
      Option.getD_some]
  refine
    { numDocs := by rw [hnd, hdl], mode := rfl, names := toLSeg_names hv hπ hrun mode,
      fieldDocs := toLSeg_fieldDocs hv hπ hrun mode,
      fieldFreqs := toLSeg_fieldFreqs hv hπ hrun mode,
      terms := ?_, oneHit := ?_, stored := ?_, storedAsc := ?_, storedIds := ?_, dv := ?_,
      dvNonempty := ?_, empty := ?_ }
  · intro i f fd hf hfd
    rw [toLSeg_field hv hπ hrun mode hf] at hfd
    injection hfd with hfd
    subst hfd
    refine ⟨?_, ?_⟩
    · simp only [List.map_map]
      conv => rhs; rw [← List.map_id (terms (build nc mode b) f)]
      apply List.map_congr_left; intro t _; rfl
    · intro j t td hj
      simp only [List.getElem?_map] at hj
      cases ht : (terms (build nc mode b) f)[j]? with
      | none => rw [ht] at hj; cases hj
      | some t' =>
        rw [ht] at hj
        simp only [Option.map_some, Option.some.injEq, Prod.mk.injEq] at hj
        obtain ⟨rfl, rfl⟩ := hj
        rfl
  · intro fd hfd t ht d n htd
    obtain ⟨i, f, hf, hfi⟩ := toLSeg_field_mem hv hπ hrun mode hfd
    rw [toLSeg_field hv hπ hrun mode hf] at hfi
    injection hfi with hfi
    rw [← hfi] at ht
    simp only [List.mem_map] at ht
    obtain ⟨_, _, rfl⟩ := ht
    cases htd
  · apply Rel₂.of_get _ _ (by rw [hslen, hdl])
    intro n d a hd ha
    have hn : n < b.length := by
      have := (List.getElem?_eq_some_iff.1 ha).1
      omega
    rw [hstored n hn] at hd
    injection hd with hd
    subst hd
    have hst : stored (build nc mode b) n = storedOf (build nc mode b).fields a := by
      rw [stored_eq, ha]
    rw [hst, storedOf_keyed]
    refine ⟨?_, ?_⟩
    · intro p hp
      rw [flat_storedDocOf_ids _ hnodup] at hp
      simp only [List.mem_flatMap, List.mem_range, List.mem_map] at hp
      obtain ⟨k, hk, v, _, rfl⟩ := hp
      exact hk
    · rw [storedOf_keyed]
      exact flat_storedDocOf _ hnodup _
  · intro d hd
    obtain ⟨n, hn⟩ := List.getElem?_of_mem hd
    have hlt : n < b.length := by
      have := (List.getElem?_eq_some_iff.1 hn).1
      omega
    rw [hstored n hlt] at hn
    injection hn with hn
    rw [← hn]
    exact storedDocOf_asc _ _
  · intro d hd fv hfv
    obtain ⟨n, hn⟩ := List.getElem?_of_mem hd
    have hlt : n < b.length := by
      have := (List.getElem?_eq_some_iff.1 hn).1
      omega
    rw [hstored n hlt] at hn
    injection hn with hn
    rw [← hn] at hfv
    exact storedDocOf_ids _ _ fv hfv
  · intro i f fd hf hfd
    rw [toLSeg_field hv hπ hrun mode hf] at hfd
    injection hfd with hfd
    subst hfd
    obtain ⟨hsome, hnone, _⟩ := dv_at hv hπ hrun mode hf
    simp only
    cases hdv : (viewOf nc (FL b) b i).dv with
    | none => exact hnone hdv
    | some vals =>
      obtain ⟨h1, h2, h3⟩ := hsome vals hdv
      exact ⟨h1, by rw [hdl]; exact h2, h3⟩
  · intro _ fd hfd vals hvals q hq
    obtain ⟨i, f, hf, hfi⟩ := toLSeg_field_mem hv hπ hrun mode hfd
    rw [toLSeg_field hv hπ hrun mode hf] at hfi
    injection hfi with hfi
    rw [← hfi] at hvals
    simp only [viewOf, dvOut] at hvals
    split at hvals
    · injection hvals with hvals
      rw [← hvals] at hq
      simp only [List.mem_map, List.mem_filter] at hq
      obtain ⟨p, ⟨_, hp⟩, rfl⟩ := hq
      intro e
      simp only at e
      rw [e] at hp
      simp at hp
    · cases hvals
  · intro h0 fd hfd
    have hb : b = [] := List.eq_nil_of_length_eq_zero (by rw [← hnd]; exact h0)
    obtain ⟨i, f, hf, hfi⟩ := toLSeg_field_mem hv hπ hrun mode hfd
    obtain ⟨_, _, hnone⟩ := dv_at hv hπ hrun mode hf
    rw [toLSeg_field hv hπ hrun mode hf] at hfi
    injection hfi with hfi
    subst hb
    rw [← hfi]
    refine ⟨hnone rfl, ?_⟩
    simp only [build, List.getD_eq_getElem?_getD, List.getElem?_map]
    cases (fieldList (List.flatMap (fun d => List.map (fun x => x.name) d) ([] : Batch)))[i]? <;> simp

include hv in
/-- **`Spec.build` of a valid batch inside the bounds is well formed.**  `hn31`: the norm
    function returns the bits of a non-negative float32; `hnf`: fewer than 65535 fields (the
    merger's `fieldsMap[name] = uint16(id) + 1`). -/
theorem absOK_build (hB : Bounds nc b) (hn31 : ∀ n l, nc n l < 2 ^ 31)
    (hnf : (build nc mode b).fields.length < 65535) : AbsOK (build nc mode b) := by
  have hdocs : ∀ d' ∈ (build nc mode b).docs, ∃ d ∈ b, d' = rollDoc nc (dvFlagOf b) d := by
    intro d' hd'
    rw [E2E.build_docs] at hd'
    obtain ⟨d, hd, rfl⟩ := List.mem_map.1 hd'
    exact ⟨d, hd, rfl⟩
  refine ⟨C02Stored.fieldList_idFirstAsc _, hnf, ?_, ?_, ?_, ?_, ?_, specBounds_of_bounds hB mode⟩
  · intro d' hd' af haf
    obtain ⟨d, hd, rfl⟩ := hdocs d' hd'
    obtain ⟨n, hn, rfl⟩ := mem_rollDoc haf
    show n ∈ fieldList _
    rw [mem_fieldList]
    exact .inr (List.mem_flatMap.2 ⟨d, hd, hn⟩)
  · intro f d' hd' af haf
    obtain ⟨d, hd, rfl⟩ := hdocs d' hd'
    rw [field?_rollDoc] at haf
    split at haf
    · injection haf with haf
      subst haf
      simp only [rollField, rollTerms, List.map_map]
      have : ((fun x : ATerm => x.term) ∘ fun t =>
          ({ term := t,
             freq := (List.map (fun x => x.freq)
               (List.filter (fun o => o.term == t) (List.flatMap (fun x => x.terms)
                 (List.filter (fun f_1 => f_1.name == f) d)))).sum,
             locs := List.flatMap (fun o => List.map (resolveLoc f) o.locs)
               (List.filter (fun o => o.term == t) (List.flatMap (fun x => x.terms)
                 (List.filter (fun f_1 => f_1.name == f) d))) } : ATerm)) = id := by
        funext t; rfl
      rw [this, List.map_id]
      exact asc_nodup (asc_sortDedup _)
    · cases haf
  · intro d' hd' af haf x hx
    exact loc_field_mem hv hd' haf hx
  · intro d' hd' af haf
    obtain ⟨d, hd, rfl⟩ := hdocs d' hd'
    obtain ⟨n, hn, rfl⟩ := mem_rollDoc haf
    exact hn31 _ _
  · intro x hx
    have := spec_fieldDocs_le (nc := nc) (b := b) mode x hx
    rw [E2E.build_docs, List.length_map]
    exact this

end

end Ice.Props.E2EM
