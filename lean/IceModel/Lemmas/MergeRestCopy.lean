import IceModel.Lemmas.MergeRestStored
import IceModel.Lemmas.MergeRestBlocks
/-
  The byte-copy path of `mergeStoredAndRemap` (`copyStoredDocs`, merge.go:768-819) on a source
  segment written by the stored writer: the record loop recovers from every decompressed block
  exactly the records the writer put there - through its clamped look-ahead windows, whatever
  follows the block in the reused buffer - and re-adds their meta and data bytes, so that the
  destination coder is in the state `Stored.writeDocs` reaches on the same documents.
-/
namespace Ice.Model.MergeRest
open Ice Ice.Model Ice.Model.Stored

/-! ### Go `int` arithmetic on small values -/

theorem wrap64_small (z : Int) (h0 : 0 ≤ z) (h1 : z < 2 ^ 63) : DocValues.wrap64 z = z := by
  unfold DocValues.wrap64 DocValues.i64 two64
  omega

theorem addI_nat (a b : Nat) (h : a + b < 2 ^ 63) : addI (a : Int) (b : Int) = ((a + b : Nat) : Int) := by
  unfold addI
  rw [wrap64_small _ (by omega) (by omega)]
  omega

theorem clampI_nat (e : Nat) (b : Buf) : clampI (e : Int) b = ((min e b.mem.length : Nat) : Int) := by
  unfold clampI Buf.cap
  split <;> omega

theorem sliceI_nat (b : Buf) (i j : Nat) (h1 : i ≤ j) (h2 : j ≤ b.mem.length) :
    sliceI b (i : Int) (j : Int) = .ok ⟨b.mem.drop i, j - i⟩ := by
  unfold sliceI
  rw [if_pos ⟨by omega, by omega, by omega⟩]
  simp

theorem toInt64_small (x : Nat) (h : x < 2 ^ 63) : toInt64 x = (x : Int) := by
  unfold toInt64 two64
  have : x % 2 ^ 64 = x := Nat.mod_eq_of_lt (by omega)
  rw [this, if_pos h]

theorem add64_small' (a b : Nat) (h : a + b < 2 ^ 64) : add64 a b = a + b := by
  unfold add64 two64; exact Nat.mod_eq_of_lt h

/-! ### the destination state of the copy -/

/-- the copy state as a merge state (the copy path does not touch the visit context) -/
def CS.ms (cs : CS) : MS := ⟨cs.newDocNum, cs.dno, cs.coder, Buf.empty⟩

theorem tracks_dno_length {cd : Codec} {c0 : Coder} {total : Nat} {st : MS} {D : List Doc}
    (h : Tracks cd c0 total st D) (hle : D.length ≤ total) : st.dno.length = total := by
  rw [h.dno, List.length_append, writeDocs_snd_length]
  simp; omega

/-! ### the record loop -/

theorem encodeDoc_mta (d : Doc) : (encodeDoc d {}).mta = metaOf (flat d) 0 := by
  rw [encodeDoc_eq]; simp

theorem encodeDoc_data (d : Doc) : (encodeDoc d {}).data = dataOf (flat d) := by
  rw [encodeDoc_eq]; simp

theorem recs_cons (d : Doc) (R : List Doc) : recs (d :: R) = record d ++ recs R := by
  simp [recs]

/-- **the record parser**: standing at the start of the records of `R` inside a decompressed
    block (`P` is what precedes them, `X` whatever follows the block up to the capacity of the
    buffer), the loop of `copyStoredDocs` re-adds exactly the documents `R` -/
theorem copyLoop_records (cd : Codec) (unc : Buf) (c0 : Coder) (total : Nat) :
    ∀ (R : List Doc) (P X : Bytes) (slots : Nat) (st : CS) (D : List Doc),
    unc.mem = P ++ (recs R ++ X) → unc.len = P.length + (recs R).length →
    unc.len + 10 < 2 ^ 63 →
    Tracks cd c0 total st.ms D → D.length + R.length ≤ total → R.length ≤ slots →
    ∃ st', copyLoop cd unc slots (P.length : Int) st = .ok st' ∧
      Tracks cd c0 total st'.ms (D ++ R) := by
  intro R
  induction R with
  | nil =>
    intro P X slots st D hm hl _ ht _ _
    refine ⟨st, ?_, by simpa using ht⟩
    have hnot : ¬ ((P.length : Int) < (unc.len : Int)) := by
      simp only [recs, List.map_nil, List.flatten_nil, List.length_nil, Nat.add_zero] at hl
      omega
    unfold copyLoop
    rw [if_neg hnot]
  | cons d R ih =>
    intro P X slots st D hm hl hb ht hroom hslots
    obtain ⟨s, rfl⟩ : ∃ s, slots = s + 1 := ⟨slots - 1, by simp at hslots; omega⟩
    rw [recs_cons] at hm hl
    rw [record_eq] at hm hl
    have hmta := encodeDoc_mta d
    have hdat := encodeDoc_data d
    generalize hM : metaOf (flat d) 0 = M at *
    generalize hDd : dataOf (flat d) = Dd at *
    simp only [List.length_append, List.length_cons] at hl hroom hslots
    have hlen : unc.mem.length = P.length + ((putUvarint M.length).length +
        ((putUvarint Dd.length).length + (M.length + Dd.length)) + (recs R).length + X.length) := by
      rw [hm]; simp; omega
    have hm1 : unc.mem = P ++ (putUvarint M.length ++
        (putUvarint Dd.length ++ (M ++ (Dd ++ (recs R ++ X))))) := by
      rw [hm]; simp only [List.append_assoc]
    have hm2 : unc.mem = (P ++ putUvarint M.length) ++
        (putUvarint Dd.length ++ (M ++ (Dd ++ (recs R ++ X)))) := by
      rw [hm1]; simp only [List.append_assoc]
    have hm3 : unc.mem = (P ++ (putUvarint M.length ++ putUvarint Dd.length)) ++
        (M ++ (Dd ++ (recs R ++ X))) := by
      rw [hm1]; simp only [List.append_assoc]
    have hm4 : unc.mem = (P ++ (putUvarint M.length ++ (putUvarint Dd.length ++ M))) ++
        (Dd ++ (recs R ++ X)) := by
      rw [hm1]; simp only [List.append_assoc]
    have hM64 : M.length < 2 ^ 64 := by omega
    have hD64 : Dd.length < 2 ^ 64 := by omega
    have hMl := putUvarint_length_le_ten _ hM64
    have hDl := putUvarint_length_le_ten _ hD64
    have hMp := List.length_pos_iff.mpr (putUvarint_ne_nil M.length)
    have hDp := List.length_pos_iff.mpr (putUvarint_ne_nil Dd.length)
    have hlt : ((P.length : Int) < (unc.len : Int)) := by omega
    unfold copyLoop
    rw [if_pos hlt]
    -- first window
    have a1 : addI (P.length : Int) 10 = ((P.length + 10 : Nat) : Int) := addI_nat _ 10 (by omega)
    simp only [a1, clampI_nat]
    rw [sliceI_nat unc _ _ (by omega) (by omega)]
    simp only [Res.bind_ok]
    rw [window_data unc P M.length _ _ hM64 hm1 (by omega)]
    simp only
    have a2 : addI 0 ((putUvarint M.length).length : Int) = ((putUvarint M.length).length : Int) := by
      have := addI_nat 0 (putUvarint M.length).length (by omega)
      simpa using this
    have a3 : addI (P.length : Int) ((putUvarint M.length).length : Int) =
        (((P ++ putUvarint M.length).length : Nat) : Int) := by
      rw [addI_nat _ _ (by omega)]; simp
    have a4 : addI (((P ++ putUvarint M.length).length : Nat) : Int) 10 =
        (((P ++ putUvarint M.length).length + 10 : Nat) : Int) := addI_nat _ 10 (by simp; omega)
    simp only [a2, a3, a4, clampI_nat]
    rw [sliceI_nat unc _ _ (by simp; omega) (by omega)]
    simp only [Res.bind_ok]
    rw [window_data unc (P ++ putUvarint M.length) Dd.length _ _ hD64 hm2 (by simp; omega)]
    simp only
    have a5 : addI ((putUvarint M.length).length : Int) ((putUvarint Dd.length).length : Int) =
        (((putUvarint M.length).length + (putUvarint Dd.length).length : Nat) : Int) :=
      addI_nat _ _ (by omega)
    have a6 : addI (P.length : Int)
        (((putUvarint M.length).length + (putUvarint Dd.length).length : Nat) : Int) =
        (((P ++ (putUvarint M.length ++ putUvarint Dd.length)).length : Nat) : Int) := by
      rw [addI_nat _ _ (by omega)]; simp
    have a7 : addI (((P ++ (putUvarint M.length ++ putUvarint Dd.length)).length : Nat) : Int)
        (toInt64 M.length) =
        (((P ++ (putUvarint M.length ++ (putUvarint Dd.length ++ M))).length : Nat) : Int) := by
      rw [toInt64_small _ (by omega), addI_nat _ _ (by simp; omega)]; simp; omega
    have a8 : addI (((P ++ (putUvarint M.length ++ putUvarint Dd.length)).length : Nat) : Int)
        (toInt64 (add64 M.length Dd.length)) =
        (((P ++ (putUvarint M.length ++ (putUvarint Dd.length ++ M))).length + Dd.length : Nat) : Int) := by
      rw [add64_small' _ _ (by omega), toInt64_small _ (by omega), addI_nat _ _ (by simp; omega)]
      simp; omega
    simp only [a5, a6, a7, a8]
    rw [sliceI_nat unc _ _ (by simp) (by simp; omega)]
    simp only [Res.bind_ok]
    rw [sliceI_nat unc _ _ (by omega) (by simp; omega)]
    simp only [Res.bind_ok, Buf.data]
    have e1 : ((P ++ (putUvarint M.length ++ (putUvarint Dd.length ++ M))).length -
        (P ++ (putUvarint M.length ++ putUvarint Dd.length)).length) = M.length := by
      simp; omega
    have e2 : ((P ++ (putUvarint M.length ++ (putUvarint Dd.length ++ M))).length + Dd.length -
        (P ++ (putUvarint M.length ++ (putUvarint Dd.length ++ M))).length) = Dd.length := by
      omega
    have e3 : List.take M.length
        (List.drop (P ++ (putUvarint M.length ++ putUvarint Dd.length)).length unc.mem) = M := by
      rw [hm3, List.drop_left' rfl, List.take_left' rfl]
    have e4 : List.take Dd.length
        (List.drop (P ++ (putUvarint M.length ++ (putUvarint Dd.length ++ M))).length unc.mem) = Dd := by
      rw [hm4, List.drop_left' rfl, List.take_left' rfl]
    rw [e1, e2, e3, e4]
    -- the destination takes the step `writeDocs` takes for `d`
    obtain ⟨_, ht'⟩ := Tracks.step cd c0 total st.ms D d Buf.empty ht (by omega)
    rw [hmta, hdat] at ht'
    have hP' : (P ++ (putUvarint M.length ++ (putUvarint Dd.length ++ M))).length + Dd.length =
        (P ++ (putUvarint M.length ++ (putUvarint Dd.length ++ (M ++ Dd)))).length := by
      simp; omega
    rw [hP']
    obtain ⟨st', h1, h2⟩ := ih (P ++ (putUvarint M.length ++ (putUvarint Dd.length ++ (M ++ Dd)))) X s
      { newDocNum := st.newDocNum + 1, dno := st.dno.set st.newDocNum st.coder.buf.length,
        coder := st.coder.add cd M Dd } (D ++ [d])
      (by rw [hm]; simp only [List.append_assoc])
      (by rw [hl]; simp; omega) hb ht'
      (by simp only [List.length_append, List.length_cons, List.length_nil]; omega) (by omega)
    exact ⟨st', h1, by simpa [List.append_assoc] using h2⟩

/-! ### the chunk loop -/

/-- a zstd frame is never empty (unless nothing was compressed) -/
def NonemptyFrames (cd : Codec) : Prop := ∀ b, cd.Z b = [] → b = []

theorem copyChunks_blocks (cd : Codec) (hZ : NonemptyFrames cd) (seg : Seg) (W rest : Bytes)
    (Bs : Nat → List Doc) (c0 : Coder) (total : Nat) (hmem : seg.mem = W ++ rest) :
    ∀ (l : List Nat) (unc : Buf) (st : CS) (D : List Doc),
    (∀ i ∈ l, BlockAt cd W seg.chunkOffsets i (Bs i) ∧ (recs (Bs i)).length + 10 < 2 ^ 63) →
    Tracks cd c0 total st.ms D → D.length + (l.flatMap Bs).length ≤ total →
    ∃ st', copyChunks cd seg l unc st = .ok st' ∧ Tracks cd c0 total st'.ms (D ++ l.flatMap Bs) := by
  intro l
  induction l with
  | nil => intro unc st D _ ht _; exact ⟨st, rfl, by simpa using ht⟩
  | cons i r ih =>
    intro unc st D hl ht hroom
    obtain ⟨⟨a, h1, h2, h3, h4⟩, hsz⟩ := hl i (by simp)
    have hr : ∀ j ∈ r, BlockAt cd W seg.chunkOffsets j (Bs j) ∧
        (recs (Bs j)).length + 10 < 2 ^ 63 :=
      fun j hj => hl j (by simp [hj])
    simp only [List.flatMap_cons, List.length_append] at hroom
    rw [copyChunks, index_ok _ _ _ h1]
    by_cases hB : Bs i = []
    · have hz : (Zs cd (Bs i)).length = 0 := by simp [Zs, hB]
      rw [index_ok _ _ _ h2]
      simp only [Res.bind_ok]
      rw [if_pos (by omega)]
      obtain ⟨st', g1, g2⟩ := ih unc st D hr ht (by omega)
      exact ⟨st', g1, by simpa [hB] using g2⟩
    · have hz : Zs cd (Bs i) = cd.Z (recs (Bs i)) := by simp [Zs, hB]
      have hne : cd.Z (recs (Bs i)) ≠ [] := fun e => recs_ne_nil hB (hZ _ e)
      have hpos : 0 < (cd.Z (recs (Bs i))).length := List.length_pos_iff.mpr hne
      rw [hz] at h2 h3 h4
      rw [index_ok _ _ _ h2]
      simp only [Res.bind_ok]
      rw [if_neg (by omega)]
      have R2 : dataRead seg.mem a (a + (cd.Z (recs (Bs i))).length) = .ok (cd.Z (recs (Bs i))) := by
        rw [dataRead_ok _ _ _ (by omega) (by rw [hmem]; simp; omega), hmem,
          List.drop_append_of_le_length (by omega),
          show a + (cd.Z (recs (Bs i))).length - a = (cd.Z (recs (Bs i))).length by omega,
          List.take_append_of_le_length (by simp; omega)]
        rw [h4]
      rw [R2]
      simp only [Res.bind_ok]
      obtain ⟨X, hdec⟩ := decompressInto_rt cd unc (recs (Bs i))
      rw [hdec]
      simp only
      have hDle : D.length ≤ total := by omega
      have hslots : st.dno.length - st.newDocNum = total - D.length := by
        have := tracks_dno_length ht hDle
        have hn := ht.num
        simp only [CS.ms] at this hn
        rw [this, hn]
      obtain ⟨st1, g1, g2⟩ := copyLoop_records cd ⟨recs (Bs i) ++ X, (recs (Bs i)).length⟩ c0 total
        (Bs i) [] X (st.dno.length - st.newDocNum) st D (by simp) (by simp) (by simpa using hsz) ht
        (by omega) (by rw [hslots]; omega)
      simp only [List.length_nil, Int.natCast_zero] at g1
      have g1' : copyLoop cd ⟨recs (Bs i) ++ X, (recs (Bs i)).length⟩ (st.dno.length - st.newDocNum)
          0 st = .ok st1 := g1
      rw [g1']
      simp only [Res.bind_ok]
      obtain ⟨st', g3, g4⟩ := ih ⟨recs (Bs i) ++ X, (recs (Bs i)).length⟩ st1 (D ++ Bs i) hr g2
        (by simp only [List.length_append]; omega)
      exact ⟨st', g3, by simpa [List.append_assoc] using g4⟩

/-- **copy path, one segment**: on a segment written by the stored writer `copyStoredDocs` leaves
    the destination as `writeDocs` does after all its documents -/
theorem copyStoredDocs_stored (cd : Codec) (hZ : NonemptyFrames cd) (bs nf : Nat) (hbs : 0 < bs)
    (docs : List Doc) (tail : Bytes) (c0 : Coder) (total : Nat)
    (hsz : (recs docs).length + 10 < 2 ^ 63) (st : CS) (D : List Doc)
    (ht : Tracks cd c0 total st.ms D) (hroom : D.length + docs.length ≤ total) :
    ∃ st', copyStoredDocs cd (segOfNew cd bs nf docs tail) st = .ok st' ∧
      Tracks cd c0 total st'.ms (D ++ docs) := by
  unfold copyStoredDocs
  by_cases h0 : docs.length = 0
  · have : docs = [] := List.length_eq_zero_iff.mp h0
    subst this
    rw [if_pos (by simp [segOfNew])]
    exact ⟨st, rfl, by simpa using ht⟩
  · rw [if_neg (by simpa [segOfNew] using h0)]
    obtain ⟨W, dso, hbytes, hlen, hblocks⟩ := writeStoredFields_blocks cd bs hbs docs
    have hoffs : (segOfNew cd bs nf docs tail).chunkOffsets =
        (writeStoredFields cd bs docs).chunkOffsets := rfl
    have hmem : (segOfNew cd bs nf docs tail).mem = W ++ (dso.flatMap (Writer.be 8) ++ tail) := by
      show (writeStoredFields cd bs docs).bytes ++ tail = _
      rw [hbytes, List.append_assoc]
    rw [hoffs, hlen, show docs.length / bs + 2 - 1 = docs.length / bs + 1 from rfl]
    have hcover := blocks_flatten bs hbs docs.length docs (Nat.le_refl _)
    have := copyChunks_blocks cd hZ (segOfNew cd bs nf docs tail) W _ (blockDocs bs docs) c0 total
      hmem (List.range (docs.length / bs + 1)) Buf.empty st D
      (by
        intro i hi
        have hi' : i ≤ docs.length / bs := by have := List.mem_range.1 hi; omega
        refine ⟨by rw [hoffs]; exact hblocks i hi', ?_⟩
        have : (recs (blockDocs bs docs i)).length ≤ (recs docs).length := by
          unfold recs blockDocs
          rw [List.map_take, List.map_drop]
          exact Nat.le_trans (length_flatten_take_le _ _) (length_flatten_drop_le _ _)
        omega)
      ht (by rw [hcover]; exact hroom)
    rw [hcover] at this
    exact this

end Ice.Model.MergeRest
