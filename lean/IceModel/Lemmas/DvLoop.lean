import IceModel.Model.DvLoop
import IceModel.Lemmas.DocValues
/-
  The multi-field driver of the doc-value reader (`Model/DvLoop.lean`) on top of ANY per-field
  readers that answer every sequence of visits correctly (`SegOK`): every sequence of
  `VisitDocumentValues` calls of one `DocumentValueReader` delivers `expected`.

  Nothing here looks inside the one-field reader: the only facts used are
    * `Good`: from this reader state every sequence of visits of documents inside the contract
      succeeds and delivers the field's terms (what `C07_visit_any_order` / `C04_dv` /
      `ReadsAs.dv` state for the loaded reader), and
    * the loaded reader is its own clone (`r0.clone = r0`: `loadFieldDocValueReader` returns a
      reader with an empty cache).
-/
namespace Ice.Model.DvLoop
open Ice Ice.Model Ice.Model.DocValues

/-! ### the map -/

theorem mget_mset (m : DvMap) (k k' : Nat) (v : Reader) :
    mget (mset m k v) k' = if k = k' then some v else mget m k' := by
  induction m with
  | nil => simp [mset, mget]
  | cons p m ih =>
    obtain ⟨a, b⟩ := p
    simp only [mset]
    by_cases h : a = k
    · subst h
      simp only [if_true, mget]
      by_cases h2 : a = k' <;> simp [h2]
    · simp only [h, if_false, mget, ih]
      by_cases h2 : a = k'
      · subst h2
        have : ¬ k = a := fun e => h e.symm
        simp [this]
      · simp [h2]

theorem mget_mset_isSome (m : DvMap) (k k' : Nat) (v : Reader) (h : (mget m k').isSome) :
    (mget (mset m k v) k').isSome := by
  rw [mget_mset]
  by_cases e : k = k'
  · simp [e]
  · simpa [e] using h

/-! ### field names and ids -/

theorem lastIdxAux_some : ∀ (l : List Bytes) (id : Nat) (name : Bytes) (j : Nat),
    lastIdxAux l id name = some j → id ≤ j ∧ j < id + l.length ∧ l[j - id]? = some name := by
  intro l
  induction l with
  | nil => intro id name j h; simp [lastIdxAux] at h
  | cons n r ih =>
    intro id name j h
    simp only [lastIdxAux] at h
    cases hr : lastIdxAux r (id + 1) name with
    | some j' =>
      rw [hr] at h
      simp only [Option.some.injEq] at h
      subst h
      obtain ⟨h1, h2, h3⟩ := ih (id + 1) name j' hr
      refine ⟨by omega, by simp only [List.length_cons]; omega, ?_⟩
      have : j' - id = (j' - (id + 1)) + 1 := by omega
      rw [this, List.getElem?_cons_succ]
      exact h3
    | none =>
      rw [hr] at h
      simp only at h
      split at h
      · rename_i e
        simp only [Option.some.injEq] at h
        subst h; subst e
        exact ⟨Nat.le_refl _, by simp only [List.length_cons]; omega, by simp⟩
      · cases h

theorem lastIdxAux_none : ∀ (l : List Bytes) (id : Nat) (name : Bytes),
    lastIdxAux l id name = none ↔ name ∉ l := by
  intro l
  induction l with
  | nil => intro id name; simp [lastIdxAux]
  | cons n r ih =>
    intro id name
    simp only [lastIdxAux, List.mem_cons, not_or]
    cases hr : lastIdxAux r (id + 1) name with
    | some j' =>
      have : ¬ name ∉ r := fun hc => by
        have := (ih (id + 1) name).mpr hc
        rw [hr] at this; cases this
      simp only [reduceCtorEq, false_iff, not_and]
      intro _; exact this
    | none =>
      have hnr := (ih (id + 1) name).mp hr
      simp only
      by_cases e : n = name
      · simp [e]
      · have e' : ¬ name = n := fun h => e h.symm
        simp [e, e', hnr]

/-- later occurrences win -/
theorem lastIdxAux_last : ∀ (l : List Bytes) (id : Nat) (name : Bytes) (j : Nat),
    lastIdxAux l id name = some j → ∀ k, j - id < k → l[k]? ≠ some name := by
  intro l
  induction l with
  | nil => intro id name j h; simp [lastIdxAux] at h
  | cons n r ih =>
    intro id name j h k hk
    simp only [lastIdxAux] at h
    cases hr : lastIdxAux r (id + 1) name with
    | some j' =>
      rw [hr] at h
      simp only [Option.some.injEq] at h
      subst h
      obtain ⟨h1, _, _⟩ := lastIdxAux_some r (id + 1) name j' hr
      cases k with
      | zero => omega
      | succ k =>
        rw [List.getElem?_cons_succ]
        exact ih (id + 1) name j' hr k (by omega)
    | none =>
      rw [hr] at h
      have hnr := (lastIdxAux_none r (id + 1) name).mp hr
      cases k with
      | zero => omega
      | succ k =>
        rw [List.getElem?_cons_succ]
        intro hk'
        exact hnr (List.mem_of_getElem? hk')

theorem lastIdx_some {l : List Bytes} {name : Bytes} {j : Nat} (h : lastIdx l name = some j) :
    j < l.length ∧ l[j]? = some name := by
  obtain ⟨_, h2, h3⟩ := lastIdxAux_some l 0 name j h
  exact ⟨by omega, by simpa using h3⟩

theorem lastIdx_none {l : List Bytes} {name : Bytes} : lastIdx l name = none ↔ name ∉ l :=
  lastIdxAux_none l 0 name

/-- with distinct names (every ice segment: `FieldsInv` is filled through a map) the id of a name
    is THE index where it stands -/
theorem lastIdx_of_nodup {l : List Bytes} (hn : l.Nodup) {name : Bytes} {i : Nat}
    (hi : l[i]? = some name) : lastIdx l name = some i := by
  cases h : lastIdx l name with
  | none => exact absurd (List.mem_of_getElem? hi) (lastIdx_none.mp h)
  | some j =>
    obtain ⟨hj, hj'⟩ := lastIdx_some h
    have hi' : i < l.length := by
      by_cases hlt : i < l.length
      · exact hlt
      · rw [List.getElem?_eq_none (by omega)] at hi; cases hi
    rw [List.getElem?_eq_getElem hj] at hj'
    rw [List.getElem?_eq_getElem hi'] at hi
    have : l[j] = l[i] := by
      injection hj' with a; injection hi with b; rw [a, b]
    congr 1
    exact (List.getElem_inj hn).mp this

theorem fieldIdOf_u16 (i : Nat) (h : i < 65536) : fieldIdOf (u16 (i + 1)) = i := by
  unfold fieldIdOf u16; omega

/-- the uint16 round trip of `fieldsMap` is harmless up to 65536 fields -/
theorem fieldsMap_none {s : Seg} {name : Bytes} (h : lastIdx s.fieldsInv name = none) :
    s.fieldsMap name = none := by
  simp [Seg.fieldsMap, h]

theorem fieldsMap_some {s : Seg} {name : Bytes} {i : Nat} (h : lastIdx s.fieldsInv name = some i) :
    s.fieldsMap name = some (u16 (i + 1)) := by
  simp [Seg.fieldsMap, h]

theorem nameOf_eq {s : Seg} {name : Bytes} {i : Nat} (h : s.fieldsInv[i]? = some name) :
    s.nameOf i = name := by
  simp [Seg.nameOf, List.getD, h]

/-! ### one field -/

/-- from reader state `r` every sequence of visits of documents satisfying `docOK` succeeds and
    delivers the terms `T` -/
def Good (z : Codec) (data : Data) (cs : Nat) (docOK : Nat → Prop) (T : Nat → List Bytes)
    (r : Reader) : Prop :=
  ∀ ds : List Nat, (∀ d ∈ ds, docOK d) →
    ∃ r', Reader.visitAll z data cs r ds = .ok (ds.map T, r')

theorem good_step {z : Codec} {data : Data} {cs : Nat} {docOK : Nat → Prop} {T : Nat → List Bytes}
    {r : Reader} (hg : Good z data cs docOK T r) {d : Nat} (hd : docOK d) :
    ∃ r', r.visit z data cs d = .ok (T d, r') ∧ Good z data cs docOK T r' := by
  obtain ⟨r1, h1⟩ := hg [d] (by simpa using hd)
  have hv : ∃ r', r.visit z data cs d = .ok (T d, r') := by
    simp only [Reader.visitAll] at h1
    cases hvis : r.visit z data cs d with
    | ok x =>
      rw [hvis] at h1
      simp only [ok_bind, pure_eq, List.map_cons, List.map_nil, Res.ok.injEq, Prod.mk.injEq,
        List.cons.injEq, and_true] at h1
      exact ⟨x.2, by rw [← h1.1]⟩
    | err => rw [hvis] at h1; simp at h1
    | panic => rw [hvis] at h1; simp at h1
  obtain ⟨r', hr'⟩ := hv
  refine ⟨r', hr', ?_⟩
  intro ds hds
  obtain ⟨r2, h2⟩ := hg (d :: ds) (by
    intro x hx
    rcases List.mem_cons.mp hx with e | e
    · subst e; exact hd
    · exact hds x e)
  simp only [Reader.visitAll, hr', ok_bind, List.map_cons] at h2
  cases hrest : Reader.visitAll z data cs r' ds with
  | ok y =>
    rw [hrest] at h2
    simp only [ok_bind, pure_eq, Res.ok.injEq, Prod.mk.injEq, List.cons.injEq, true_and] at h2
    exact ⟨y.2, by rw [← h2.1]⟩
  | err => rw [hrest] at h2; simp at h2
  | panic => rw [hrest] at h2; simp at h2

/-! ### the segment contract and the invariant of the map of clones -/

/-- what is assumed of the segment: field `i` either has a loaded reader with an empty cache
    that answers every sequence of visits with `T i`, or it has none and `T i` is empty -/
def SegOK (z : Codec) (s : Seg) (cs : Nat) (docOK : Nat → Prop) (T : Nat → Nat → List Bytes) :
    Prop :=
  ∀ i, i < s.fieldsInv.length →
    match s.dvReaders[i]? with
    | some (some r0) => r0.clone = r0 ∧ Good z s.data cs docOK (T i) r0
    | _ => ∀ d, T i d = []

def MapOK (z : Codec) (s : Seg) (cs : Nat) (docOK : Nat → Prop) (T : Nat → Nat → List Bytes)
    (m : DvMap) : Prop :=
  ∀ k r, mget m k = some r →
    (∃ r0, s.dvReaders[k]? = some (some r0)) ∧ Good z s.data cs docOK (T k) r

/-- every requested name whose field has a reader has a clone in the map -/
def Covers (s : Seg) (m : DvMap) (fs : List Bytes) : Prop :=
  ∀ n ∈ fs, ∀ i, lastIdx s.fieldsInv n = some i → ∀ r0, s.dvReaders[i]? = some (some r0) →
    (mget m i).isSome

theorem Covers.mono {s : Seg} {m m' : DvMap} {fs : List Bytes} (h : Covers s m fs)
    (hm : ∀ k, (mget m k).isSome → (mget m' k).isSome) : Covers s m' fs :=
  fun n hn i hi r0 hr0 => hm i (h n hn i hi r0 hr0)

theorem MapOK.set {z : Codec} {s : Seg} {cs : Nat} {docOK : Nat → Prop}
    {T : Nat → Nat → List Bytes} {m : DvMap} (h : MapOK z s cs docOK T m) {k : Nat} {r : Reader}
    (hk : ∃ r0, s.dvReaders[k]? = some (some r0)) (hr : Good z s.data cs docOK (T k) r) :
    MapOK z s cs docOK T (mset m k r) := by
  intro k' r' hget
  rw [mget_mset] at hget
  by_cases e : k = k'
  · subst e
    simp only [if_true, Option.some.injEq] at hget
    subst hget
    exact ⟨hk, hr⟩
  · simp only [e, if_false] at hget
    exact h k' r' hget

section
variable {z : Codec} {s : Seg} {cs : Nat} {docOK : Nat → Prop} {T : Nat → Nat → List Bytes}

theorem makeClones_spec (hs : SegOK z s cs docOK T) (hlen : s.fieldsInv.length ≤ 65536) :
    ∀ (fs : List Bytes) (m : DvMap), MapOK z s cs docOK T m →
      MapOK z s cs docOK T (makeClones s fs m) ∧ Covers s (makeClones s fs m) fs ∧
      ∀ k, (mget m k).isSome → (mget (makeClones s fs m) k).isSome := by
  intro fs
  induction fs with
  | nil => intro m hm; exact ⟨hm, fun n hn => (by cases hn), fun _ h => h⟩
  | cons f fs ih =>
    intro m hm
    cases hl : lastIdx s.fieldsInv f with
    | none =>
      simp only [makeClones, fieldsMap_none hl]
      obtain ⟨h1, h2, h3⟩ := ih m hm
      refine ⟨h1, ?_, h3⟩
      intro n hn i hi r0 hr0
      rcases List.mem_cons.mp hn with e | e
      · subst e; rw [hl] at hi; cases hi
      · exact h2 n e i hi r0 hr0
    | some i =>
      obtain ⟨hi, hname⟩ := lastIdx_some hl
      have hid : fieldIdOf (u16 (i + 1)) = i := fieldIdOf_u16 i (by omega)
      simp only [makeClones, fieldsMap_some hl, hid]
      have hsi := hs i hi
      cases hrd : s.dvReaders[i]? with
      | none =>
        simp only
        obtain ⟨h1, h2, h3⟩ := ih m hm
        refine ⟨h1, ?_, h3⟩
        intro n hn i' hi' r0 hr0
        rcases List.mem_cons.mp hn with e | e
        · subst e; rw [hl] at hi'; simp only [Option.some.injEq] at hi'; subst hi'
          rw [hrd] at hr0; cases hr0
        · exact h2 n e i' hi' r0 hr0
      | some o =>
        cases o with
        | none =>
          simp only
          obtain ⟨h1, h2, h3⟩ := ih m hm
          refine ⟨h1, ?_, h3⟩
          intro n hn i' hi' r0 hr0
          rcases List.mem_cons.mp hn with e | e
          · subst e; rw [hl] at hi'; simp only [Option.some.injEq] at hi'; subst hi'
            rw [hrd] at hr0; cases hr0
          · exact h2 n e i' hi' r0 hr0
        | some r0 =>
          simp only
          rw [hrd] at hsi
          simp only at hsi
          have hm1 : MapOK z s cs docOK T (mset m i r0.clone) :=
            hm.set ⟨r0, hrd⟩ (by rw [hsi.1]; exact hsi.2)
          obtain ⟨h1, h2, h3⟩ := ih _ hm1
          refine ⟨h1, ?_, fun k hk => h3 k (mget_mset_isSome m i k _ hk)⟩
          intro n hn i' hi' r0' hr0'
          rcases List.mem_cons.mp hn with e | e
          · subst e; rw [hl] at hi'; simp only [Option.some.injEq] at hi'; subst hi'
            apply h3
            rw [mget_mset]; simp
          · exact h2 n e i' hi' r0' hr0'

theorem expected_cons (fi : List Bytes) (f : Bytes) (fs : List Bytes) (doc : Nat) :
    expected fi T (f :: fs) doc =
      (match lastIdx fi f with
       | none => []
       | some i => (T i doc).map (fun t => (f, t))) ++ expected fi T fs doc := rfl

theorem visitLoop_spec (hs : SegOK z s cs docOK T) (hlen : s.fieldsInv.length ≤ 65536)
    (doc : Nat) (hdoc : docOK doc) :
    ∀ (fs : List Bytes) (m : DvMap), MapOK z s cs docOK T m → Covers s m fs →
      ∃ m', visitLoop z s cs doc fs m = .ok (m', expected s.fieldsInv T fs doc) ∧
        MapOK z s cs docOK T m' ∧ ∀ k, (mget m k).isSome → (mget m' k).isSome := by
  intro fs
  induction fs with
  | nil => intro m hm _; exact ⟨m, rfl, hm, fun _ h => h⟩
  | cons f fs ih =>
    intro m hm hc
    have hc' : Covers s m fs := fun n hn => hc n (List.mem_cons_of_mem _ hn)
    rw [expected_cons]
    cases hl : lastIdx s.fieldsInv f with
    | none =>
      simp only [visitLoop, fieldsMap_none hl, List.nil_append]
      exact ih m hm hc'
    | some i =>
      obtain ⟨hi, hname⟩ := lastIdx_some hl
      have hid : fieldIdOf (u16 (i + 1)) = i := fieldIdOf_u16 i (by omega)
      simp only [visitLoop, fieldsMap_some hl, hid, nameOf_eq hname]
      cases hg : mget m i with
      | none =>
        simp only
        -- no clone: the field has no reader, so it has no doc values
        have hT : T i doc = [] := by
          have hsi := hs i hi
          cases hrd : s.dvReaders[i]? with
          | none => rw [hrd] at hsi; exact hsi doc
          | some o =>
            cases o with
            | none => rw [hrd] at hsi; exact hsi doc
            | some r0 =>
              have := hc f (by simp) i hl r0 hrd
              rw [hg] at this; cases this
        rw [hT]
        simp only [List.map_nil, List.nil_append]
        exact ih m hm hc'
      | some r =>
        simp only
        obtain ⟨hk, hgood⟩ := hm i r hg
        obtain ⟨r', hvis, hgood'⟩ := good_step hgood hdoc
        rw [hvis]
        simp only
        have hm1 : MapOK z s cs docOK T (mset m i r') := hm.set hk hgood'
        have hc1 : Covers s (mset m i r') fs :=
          hc'.mono (fun k hk => mget_mset_isSome m i k r' hk)
        obtain ⟨m', h1, h2, h3⟩ := ih _ hm1 hc1
        rw [h1]
        exact ⟨m', rfl, h2, fun k hk => h3 k (mget_mset_isSome m i k r' hk)⟩

/-- the invariant of `d.state` of a `DocumentValueReader` opened on `requested` -/
def StOK (z : Codec) (s : Seg) (cs : Nat) (docOK : Nat → Prop) (T : Nat → Nat → List Bytes)
    (requested : List Bytes) (st : Option VisitState) : Prop :=
  ∀ v, st = some v → ∀ m, v.dvrs = some m → MapOK z s cs docOK T m ∧ Covers s m requested

theorem visitDocumentFieldTerms_spec (hs : SegOK z s cs docOK T)
    (hlen : s.fieldsInv.length ≤ 65536) (hcs : 0 < cs) (requested : List Bytes)
    (st : Option VisitState) (hst : StOK z s cs docOK T requested st) (doc : Nat)
    (hdoc : docOK doc) :
    ∃ v', visitDocumentFieldTerms z s cs doc requested st =
        .ok (v', expected s.fieldsInv T requested doc) ∧
      StOK z s cs docOK T requested (some v') := by
  have hcs' : cs ≠ 0 := by omega
  -- the map the loop starts from
  have hmap : MapOK z s cs docOK T (startMap s requested (enterState st)) ∧
      Covers s (startMap s requested (enterState st)) requested := by
    have hfresh : MapOK z s cs docOK T (makeClones s requested []) ∧
        Covers s (makeClones s requested []) requested := by
      obtain ⟨h1, h2, _⟩ := makeClones_spec hs hlen requested []
        (fun k r h => by simp [mget] at h)
      exact ⟨h1, h2⟩
    cases st with
    | none => exact hfresh
    | some v =>
      by_cases hseg : v.segSet = true
      · have he : enterState (some v) = v := by simp [enterState, hseg]
        rw [he]
        unfold startMap
        cases hd : v.dvrs with
        | none => exact hfresh
        | some m => exact hst v rfl m hd
      · have he : enterState (some v) = { segSet := true, dvrs := none } := by
          simp [enterState, hseg]
        rw [he]
        exact hfresh
  obtain ⟨hmok, hcov⟩ := hmap
  obtain ⟨m', hloop, hmok', hmono⟩ := visitLoop_spec hs hlen doc hdoc requested _ hmok hcov
  refine ⟨{ enterState st with dvrs := some m' }, ?_, ?_⟩
  · unfold visitDocumentFieldTerms
    simp only [hcs', if_false, hloop]
  · intro v hv m'' hm''
    injection hv with hv
    subst hv
    simp only [Option.some.injEq] at hm''
    subst hm''
    exact ⟨hmok', hcov.mono hmono⟩

theorem visitDocs_spec (hs : SegOK z s cs docOK T) (hlen : s.fieldsInv.length ≤ 65536)
    (hcs : 0 < cs) (requested : List Bytes) :
    ∀ (ds : List Nat) (st : Option VisitState), StOK z s cs docOK T requested st →
      (∀ d ∈ ds, docOK d) →
      ∃ st', visitDocs z s cs requested st ds =
          .ok (st', ds.map (expected s.fieldsInv T requested)) ∧
        StOK z s cs docOK T requested st' := by
  intro ds
  induction ds with
  | nil => intro st hst _; exact ⟨st, rfl, hst⟩
  | cons d ds ih =>
    intro st hst hds
    obtain ⟨v', h1, hst'⟩ := visitDocumentFieldTerms_spec hs hlen hcs requested st hst d
      (hds d (by simp))
    obtain ⟨st'', h2, hst''⟩ := ih (some v') hst' (fun x hx => hds x (by simp [hx]))
    refine ⟨st'', ?_, hst''⟩
    simp only [visitDocs, visitDoc, h1, h2, List.map_cons]

/-- **the driver on correct per-field readers**: a `DocumentValueReader` opened on any list of
    names, visiting any sequence of documents inside the contract, delivers `expected` at every
    visit -/
theorem readDocs_spec (hs : SegOK z s cs docOK T) (hlen : s.fieldsInv.length ≤ 65536)
    (hcs : 0 < cs) (requested : List Bytes) (ds : List Nat) (hds : ∀ d ∈ ds, docOK d) :
    readDocs z s cs requested ds = .ok (ds.map (expected s.fieldsInv T requested)) := by
  obtain ⟨st', h, _⟩ := visitDocs_spec hs hlen hcs requested ds none
    (fun v hv => by cases hv) hds
  simp only [readDocs, Seg.documentValueReader, h]

end

end Ice.Model.DvLoop
