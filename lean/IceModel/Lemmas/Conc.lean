import IceModel.Model.Conc
/-
  Invariant of the concurrency model (version `fixed`) and its preservation by every scheduler
  step, for every storage-fault oracle.  Used by Props/C09.lean.
-/
namespace Ice.Model.Conc

/-- forget the nested operations of a visit (a completed visit is logged with the nested list it
    has at completion, which is always `[]`) -/
def Op.flat : Op → Op
  | .dict f => .dict f
  | .visit n _ => .visit n []

@[simp] theorem Op.flat_dict (f : Nat) : (Op.dict f).flat = .dict f := rfl
@[simp] theorem Op.flat_visit (n : Nat) (l : List Op) : (Op.visit n l).flat = .visit n [] := rfl
@[simp] theorem Op.flat_flat (o : Op) : o.flat.flat = o.flat := by cases o <;> rfl

@[simp] theorem alone_flat (w : World) (o : Op) : alone w o.flat = alone w o := by cases o <;> rfl

/-! ### invariant, thread-local part -/

/-- sanity of one frame -/
def FrameOK (w : World) : Frame → Prop
  | .dict f pc r => 4 ≤ pc → r = some (w.F f)
  | .visit n pc buf nested => (1 ≤ pc → buf = w.B n) ∧ (2 ≤ pc → nested = [])

/-- frames below the top of the stack are visits waiting inside their callback -/
def Waiting : Frame → Prop
  | .visit _ pc _ _ => pc = 1
  | .dict _ _ _ => False

/-- the thread is inside the locked region of `dictionary` -/
def Holds : List Frame → Prop
  | .dict _ pc _ :: _ => 1 ≤ pc
  | _ => False

/-- the top-level operation in progress (flattened), as a list of length ≤ 1 -/
def bottomOp : List Frame → List Op
  | [] => []
  | [fr] => [(opOf fr).flat]
  | _ :: fr :: up => bottomOp (fr :: up)

@[simp] theorem bottomOp_nil : bottomOp [] = [] := rfl
@[simp] theorem bottomOp_single (fr : Frame) : bottomOp [fr] = [(opOf fr).flat] := rfl
@[simp] theorem bottomOp_cons_cons (a fr : Frame) (up : List Frame) :
    bottomOp (a :: fr :: up) = bottomOp (fr :: up) := rfl

theorem bottomOp_cons_congr (a b : Frame) (up : List Frame) (h : (opOf a).flat = (opOf b).flat) :
    bottomOp (a :: up) = bottomOp (b :: up) := by
  cases up <;> simp [h]

@[simp] theorem opOf_frameOf (op : Op) : opOf (frameOf op) = op := by cases op <;> rfl

/-- a log entry is correct: the solo result, or - only when the storage can fail at all - an
    error of a dictionary lookup; and the logged operation is flat -/
def EntryOK (w : World) (fails : Nat → Bool) (e : Op × Result) : Prop :=
  (e.2 = alone w e.1 ∨ ((∃ i, fails i = true) ∧ ∃ f, e.1 = .dict f ∧ e.2 = .dictErr)) ∧ e.1.flat = e.1

structure ThInv (w : World) (fails : Nat → Bool) (th : Thread) : Prop where
  frames : ∀ fr ∈ th.stack, FrameOK w fr
  below : ∀ fr ∈ th.stack.tail, Waiting fr
  log : ∀ e ∈ th.log, EntryOK w fails e

/-- program order: completed ++ in progress ++ still to do = the program (modulo `flat`) -/
def ProgInv (th : Thread) (p : List Op) : Prop :=
  th.log.map (fun e => e.1.flat) ++ bottomOp th.stack ++ th.todo.map Op.flat = p.map Op.flat

def CacheOK (w : World) (s : Shared) : Prop := ∀ p ∈ s.cache, p.2 = w.F p.1

theorem lookup_ok {w : World} {s : Shared} (hc : CacheOK w s) {f : Nat} {v : Val}
    (h : s.lookup f = some v) : v = w.F f := by
  unfold Shared.lookup at h
  rw [Option.map_eq_some_iff] at h
  obtain ⟨p, hp, rfl⟩ := h
  have hm := List.mem_of_find?_eq_some hp
  have hf := List.find?_some hp
  simp at hf
  rw [hc p hm, hf]

/-! ### step equations -/

section
variable (ver : Version) (w : World) (fails : Nat → Bool) (t : Tid) (s : Shared)

theorem step_dict5 (f pc r up todo log) :
    stepThread ver w fails t s ⟨.dict f (pc+5) r :: up, todo, log⟩ =
      some ({ s with mutex := none }, ⟨up, todo, if up.isEmpty then
        log ++ [(.dict f, match r with | some v => .dictOk v | none => .dictErr)] else log⟩) := rfl

theorem step_visit2 (n pc buf nested up todo log) :
    stepThread ver w fails t s ⟨.visit n (pc+2) buf nested :: up, todo, log⟩ =
      some (s, ⟨up, todo, if up.isEmpty then
        log ++ [(.visit n nested, .visited (if ver.perCallBuffer then buf else s.scratch))] else log⟩) := rfl
end

/-- when a thread cannot step: it is finished, or it waits for the mutex at pc 0 of `dictionary` -/
theorem step_none {ver : Version} {w : World} {fails : Nat → Bool} {t : Tid} {s : Shared} {th : Thread}
    (h : stepThread ver w fails t s th = none) :
    (th.stack = [] ∧ th.todo = []) ∨ (s.mutex.isSome = true ∧ ∃ f r up, th.stack = .dict f 0 r :: up) := by
  obtain ⟨stack, todo, log⟩ := th
  cases stack with
  | nil => cases todo <;> simp_all [stepThread]
  | cons fr up =>
    cases fr with
    | dict f pc r =>
      match pc with
      | 0 => by_cases hm : s.mutex.isSome = true <;> simp_all [stepThread]
      | 1 => cases hl : s.lookup f <;> simp_all [stepThread]
      | 2 => by_cases hf : fails s.reads = true <;> simp_all [stepThread]
      | 3 => by_cases hf : fails s.reads = true <;> simp_all [stepThread]
      | 4 => simp_all [stepThread]
      | pc+5 => simp [step_dict5] at h
    | visit n pc buf nested =>
      match pc with
      | 0 => cases hb : ver.perCallBuffer <;> simp_all [stepThread]
      | 1 => cases nested <;> simp_all [stepThread]
      | pc+2 => simp [step_visit2] at h

/-! ### one step preserves the invariant -/

theorem not_holds_of_waiting {up : List Frame} (h : ∀ g ∈ up, Waiting g) : ¬ Holds up := by
  cases up with
  | nil => simp [Holds]
  | cons g up =>
    have := h g (by simp)
    cases g <;> simp_all [Holds, Waiting]

theorem thinv_replace {w : World} {fails : Nat → Bool} {fr' : Frame} {up : List Frame}
    {todo : List Op} {log : List (Op × Result)}
    (h0 : FrameOK w fr') (hfrup : ∀ g ∈ up, FrameOK w g) (hbe : ∀ g ∈ up, Waiting g)
    (hlog : ∀ e ∈ log, EntryOK w fails e) : ThInv w fails ⟨fr' :: up, todo, log⟩ := by
  refine ⟨?_, ?_, hlog⟩
  · intro g hg
    rcases List.mem_cons.1 hg with rfl | hg
    · exact h0
    · exact hfrup g hg
  · simpa using hbe

theorem proginv_replace {fr fr' : Frame} {up : List Frame} {todo : List Op} {log : List (Op × Result)}
    (h : (opOf fr).flat = (opOf fr').flat) (p : List Op) :
    ProgInv ⟨fr :: up, todo, log⟩ p → ProgInv ⟨fr' :: up, todo, log⟩ p := by
  unfold ProgInv
  simp only [bottomOp_cons_congr fr fr' up h]
  exact id

theorem thinv_pop {w : World} {fails : Nat → Bool} {e : Op × Result} {up : List Frame}
    {todo : List Op} {log : List (Op × Result)}
    (he : EntryOK w fails e) (hfrup : ∀ g ∈ up, FrameOK w g) (hbe : ∀ g ∈ up, Waiting g)
    (hlog : ∀ e ∈ log, EntryOK w fails e) :
    ThInv w fails ⟨up, todo, if up = [] then log ++ [e] else log⟩ := by
  refine ⟨hfrup, fun g hg => hbe g (List.mem_of_mem_tail hg), ?_⟩
  intro e' he'
  dsimp only at he'
  split at he'
  · rcases List.mem_append.1 he' with h | h
    · exact hlog e' h
    · simp at h; subst h; exact he
  · exact hlog e' he'

theorem proginv_pop {fr : Frame} {e : Op × Result} {up : List Frame} {todo : List Op}
    {log : List (Op × Result)} (h : e.1.flat = (opOf fr).flat) (p : List Op) :
    ProgInv ⟨fr :: up, todo, log⟩ p →
      ProgInv ⟨up, todo, if up = [] then log ++ [e] else log⟩ p := by
  unfold ProgInv
  cases up with
  | nil => simp [h]
  | cons g up => simp

theorem step_inv {w : World} {fails : Nat → Bool} {t : Tid} {s s' : Shared} {th th' : Thread}
    (h : stepThread fixed w fails t s th = some (s', th'))
    (hc : CacheOK w s) (hi : ThInv w fails th) (hm : Holds th.stack ↔ s.mutex = some t) :
    CacheOK w s' ∧ ThInv w fails th' ∧ (Holds th'.stack ↔ s'.mutex = some t) ∧
    (∀ t', t' ≠ t → (s'.mutex = some t' ↔ s.mutex = some t')) ∧
    (∀ p, ProgInv th p → ProgInv th' p) := by
  obtain ⟨stack, todo, log⟩ := th
  obtain ⟨hfr, hbe, hlog⟩ := hi
  cases stack with
  | nil =>
    cases todo with
    | nil => simp [stepThread] at h
    | cons op rest =>
      simp [stepThread] at h
      obtain ⟨rfl, rfl⟩ := h
      refine ⟨hc, ⟨?_, ?_, hlog⟩, ?_, ?_, ?_⟩
      · cases op <;> simp [frameOf, FrameOK]
      · simp
      · cases op <;> simp_all [frameOf, Holds]
      · simp
      · intro p; simp [ProgInv]
  | cons fr up =>
    have hfr0 : FrameOK w fr := hfr fr (by simp)
    have hfrup : ∀ g ∈ up, FrameOK w g := fun g hg => hfr g (by simp [hg])
    have hbe : ∀ g ∈ up, Waiting g := by simpa using hbe
    have hup : ¬ Holds up := not_holds_of_waiting hbe
    cases fr with
    | dict f pc r =>
      match pc with
      | 0 =>
        by_cases hmx : s.mutex.isSome = true
        · simp [stepThread, hmx] at h
        · simp [stepThread, hmx] at h
          obtain ⟨rfl, rfl⟩ := h
          simp at hmx
          refine ⟨hc, thinv_replace (by simp [FrameOK]) hfrup hbe hlog, by simp [Holds], ?_,
            proginv_replace rfl⟩
          intro t' ht'
          simp [hmx]
          exact fun h => ht' h.symm
      | 1 =>
        cases hl : s.lookup f with
        | some v =>
          simp [stepThread, hl] at h
          obtain ⟨rfl, rfl⟩ := h
          have := lookup_ok hc hl
          exact ⟨hc, thinv_replace (by simp [FrameOK, this]) hfrup hbe hlog, by simpa [Holds] using hm,
            by simp, proginv_replace rfl⟩
        | none =>
          simp [stepThread, hl] at h
          obtain ⟨rfl, rfl⟩ := h
          exact ⟨hc, thinv_replace (by simp [FrameOK]) hfrup hbe hlog, by simpa [Holds] using hm,
            by simp, proginv_replace rfl⟩
      | 2 =>
        have hmt : s.mutex = some t := by simpa [Holds] using hm
        by_cases hf : fails s.reads = true
        · simp [stepThread, hf, fixed] at h
          obtain ⟨rfl, rfl⟩ := h
          refine ⟨hc, thinv_pop ?_ hfrup hbe hlog, by simpa using hup, ?_, proginv_pop rfl⟩
          · exact ⟨Or.inr ⟨⟨_, hf⟩, f, rfl, rfl⟩, rfl⟩
          · intro t' ht'; simp [hmt]; exact fun h => ht' h.symm
        · simp [stepThread, hf] at h
          obtain ⟨rfl, rfl⟩ := h
          exact ⟨hc, thinv_replace (by simp [FrameOK]) hfrup hbe hlog, by simpa [Holds] using hm,
            by simp, proginv_replace rfl⟩
      | 3 =>
        have hmt : s.mutex = some t := by simpa [Holds] using hm
        by_cases hf : fails s.reads = true
        · simp [stepThread, hf, fixed] at h
          obtain ⟨rfl, rfl⟩ := h
          refine ⟨hc, thinv_pop ?_ hfrup hbe hlog, by simpa using hup, ?_, proginv_pop rfl⟩
          · exact ⟨Or.inr ⟨⟨_, hf⟩, f, rfl, rfl⟩, rfl⟩
          · intro t' ht'; simp [hmt]; exact fun h => ht' h.symm
        · simp [stepThread, hf] at h
          obtain ⟨rfl, rfl⟩ := h
          exact ⟨hc, thinv_replace (by simp [FrameOK]) hfrup hbe hlog, by simpa [Holds] using hm,
            by simp, proginv_replace rfl⟩
      | 4 =>
        simp [stepThread] at h
        obtain ⟨rfl, rfl⟩ := h
        have hr : r = some (w.F f) := by simpa [FrameOK] using hfr0
        refine ⟨?_, thinv_replace (by simp [FrameOK, hr]) hfrup hbe hlog, by simpa [Holds] using hm,
            by simp, proginv_replace rfl⟩
        intro p hp
        rcases List.mem_cons.1 hp with rfl | hp
        · rfl
        · exact hc p hp
      | pc+5 =>
        have hmt : s.mutex = some t := by simpa [Holds] using hm
        have hr : r = some (w.F f) := by simpa [FrameOK] using hfr0
        rw [step_dict5] at h
        simp at h
        obtain ⟨rfl, rfl⟩ := h
        refine ⟨hc, thinv_pop ?_ hfrup hbe hlog, by simpa using hup, ?_, proginv_pop rfl⟩
        · subst hr; exact ⟨Or.inl rfl, rfl⟩
        · intro t' ht'; simp [hmt]; exact fun h => ht' h.symm
    | visit n pc buf nested =>
      have hmt : s.mutex ≠ some t := by simpa [Holds] using hm
      match pc with
      | 0 =>
        simp [stepThread, fixed] at h
        obtain ⟨rfl, rfl⟩ := h
        exact ⟨hc, thinv_replace (by simp [FrameOK]) hfrup hbe hlog, by simpa [Holds] using hmt,
            by simp, proginv_replace rfl⟩
      | 1 =>
        have hb : buf = w.B n := by simpa [FrameOK] using hfr0.1
        cases nested with
        | nil =>
          simp [stepThread] at h
          obtain ⟨rfl, rfl⟩ := h
          exact ⟨hc, thinv_replace (by simp [FrameOK, hb]) hfrup hbe hlog, by simpa [Holds] using hmt,
            by simp, proginv_replace rfl⟩
        | cons op rest =>
          simp [stepThread] at h
          obtain ⟨rfl, rfl⟩ := h
          refine ⟨hc, ⟨?_, ?_, hlog⟩, ?_, by simp, ?_⟩
          · intro g hg
            simp only [List.mem_cons] at hg
            rcases hg with rfl | rfl | hg
            · cases op <;> simp [frameOf, FrameOK]
            · simp [FrameOK, hb]
            · exact hfrup g hg
          · intro g hg
            simp only [List.tail_cons, List.mem_cons] at hg
            rcases hg with rfl | hg
            · rfl
            · exact hbe g hg
          · cases op <;> simpa [frameOf, Holds] using hmt
          · intro p
            unfold ProgInv
            simp only [bottomOp_cons_cons]
            rw [bottomOp_cons_congr (.visit n 1 buf rest) (.visit n 1 buf (op :: rest)) up rfl]
            exact id
      | pc+2 =>
        have hb : buf = w.B n := hfr0.1 (by omega)
        have hn : nested = [] := hfr0.2 (by omega)
        rw [step_visit2] at h
        simp [fixed] at h
        obtain ⟨rfl, rfl⟩ := h
        refine ⟨hc, thinv_pop ?_ hfrup hbe hlog, ?_, by simp, proginv_pop rfl⟩
        · subst hb hn; exact ⟨Or.inl rfl, rfl⟩
        · simpa [hup] using hmt

/-! ### the global invariant -/

structure Inv (w : World) (fails : Nat → Bool) (progs : List (List Op)) (c : Config) : Prop where
  cache : CacheOK w c.sh
  thread : ∀ (t : Nat) (th : Thread), c.ths[t]? = some th → ThInv w fails th
  mutex : ∀ (t : Nat) (th : Thread), c.ths[t]? = some th → (Holds th.stack ↔ c.sh.mutex = some t)
  owner : ∀ t, c.sh.mutex = some t → t < c.ths.length
  prog : ∀ (t : Nat) (th : Thread) (p : List Op), c.ths[t]? = some th → progs[t]? = some p → ProgInv th p

theorem inv_init (w : World) (fails : Nat → Bool) (progs : List (List Op)) :
    Inv w fails progs (init progs) := by
  have key : ∀ (t : Nat) (th : Thread), (init progs).ths[t]? = some th → ∃ p, progs[t]? = some p ∧ th = { todo := p } := by
    intro t th h
    simp only [init, List.getElem?_map, Option.map_eq_some_iff] at h
    obtain ⟨p, hp, rfl⟩ := h
    exact ⟨p, hp, rfl⟩
  refine ⟨?_, ?_, ?_, ?_, ?_⟩
  · intro p hp; simp [init] at hp
  · intro t th h
    obtain ⟨p, _, rfl⟩ := key t th h
    exact ⟨by simp, by simp, by simp⟩
  · intro t th h
    obtain ⟨p, _, rfl⟩ := key t th h
    simp [init, Holds]
  · intro t h; simp [init] at h
  · intro t th p h hp
    obtain ⟨p', hp', rfl⟩ := key t th h
    rw [hp] at hp'
    cases hp'
    simp [ProgInv]

theorem inv_sched {w : World} {fails : Nat → Bool} {progs : List (List Op)} {c : Config}
    (hi : Inv w fails progs c) (t : Tid) : Inv w fails progs (sched fixed w fails c t) := by
  cases hth : c.ths[t]? with
  | none =>
    have : sched fixed w fails c t = c := by simp [sched, hth]
    rw [this]; exact hi
  | some th =>
    cases hst : stepThread fixed w fails t c.sh th with
    | none =>
      have : sched fixed w fails c t = c := by simp [sched, hth, hst]
      rw [this]; exact hi
    | some r =>
      obtain ⟨s', th'⟩ := r
      have : sched fixed w fails c t = { sh := s', ths := c.ths.set t th' } := by
        simp [sched, hth, hst]
      rw [this]
      obtain ⟨hc', hth', hm', hother, hp'⟩ :=
        step_inv hst hi.cache (hi.thread t th hth) (hi.mutex t th hth)
      have hlt : t < c.ths.length := (List.getElem?_eq_some_iff.1 hth).1
      have hget : ∀ (u : Nat) (thu : Thread), (c.ths.set t th')[u]? = some thu →
          (u = t ∧ thu = th') ∨ (u ≠ t ∧ c.ths[u]? = some thu) := by
        intro u thu h
        rw [List.getElem?_set] at h
        by_cases hu : t = u
        · subst hu
          simp [hlt] at h
          exact Or.inl ⟨rfl, h.symm⟩
        · simp [hu] at h
          exact Or.inr ⟨fun e => hu e.symm, h⟩
      refine ⟨hc', ?_, ?_, ?_, ?_⟩
      · intro u thu h
        rcases hget u thu h with ⟨rfl, rfl⟩ | ⟨_, h⟩
        · exact hth'
        · exact hi.thread u thu h
      · intro u thu h
        rcases hget u thu h with ⟨rfl, rfl⟩ | ⟨hne, h⟩
        · exact hm'
        · exact (hi.mutex u thu h).trans (hother u hne).symm
      · intro u h
        simp only [List.length_set]
        by_cases hu : u = t
        · subst hu; exact hlt
        · exact hi.owner u ((hother u hu).1 h)
      · intro u thu p h hp
        rcases hget u thu h with ⟨rfl, rfl⟩ | ⟨_, h⟩
        · exact hp' p (hi.prog u th p hth hp)
        · exact hi.prog u thu p h hp

theorem inv_run {w : World} {fails : Nat → Bool} {progs : List (List Op)} (σ : List Tid) {c : Config}
    (hi : Inv w fails progs c) : Inv w fails progs (run fixed w fails c σ) := by
  induction σ generalizing c with
  | nil => exact hi
  | cons t σ ih => exact ih (inv_sched hi t)

theorem inv_reach (w : World) (fails : Nat → Bool) (progs : List (List Op)) (σ : List Tid) :
    Inv w fails progs (run fixed w fails (init progs) σ) :=
  inv_run σ (inv_init w fails progs)

end Ice.Model.Conc
