import IceModel.Model.DocValues
import IceModel.Lemmas.Varint
/-
  Lemmas for the doc-value model (property C07).
-/
namespace Ice.Model.DocValues
open Ice Ice.Model Ice.Model.Writer

/-! ### the `Res` monad -/

@[simp] theorem ok_bind {α β : Type} (a : α) (f : α → Res β) : (Res.ok a >>= f) = f a := rfl
@[simp] theorem err_bind {α β : Type} (f : α → Res β) : ((Res.err : Res α) >>= f) = .err := rfl
@[simp] theorem panic_bind {α β : Type} (f : α → Res β) : ((Res.panic : Res α) >>= f) = .panic := rfl
@[simp] theorem pure_eq {α : Type} (a : α) : (pure a : Res α) = .ok a := rfl

/-! ### uint64 arithmetic -/

theorem add64_small {a b : Nat} (h : a + b < 2 ^ 64) : add64 a b = a + b := by
  unfold add64 two64; omega

theorem sub64_small {a b : Nat} (ha : a < 2 ^ 64) (h : b ≤ a) : sub64 a b = a - b := by
  unfold sub64 two64; omega

/-- the reader's `+= diff` undoes the writer's `- diff` on uint64 -/
theorem add64_sub64 {a b : Nat} (ha : a < 2 ^ 64) : add64 (sub64 a b) b = a := by
  unfold add64 sub64 two64; omega

theorem sub64_lt (a b : Nat) : sub64 a b < 2 ^ 64 := by
  unfold sub64 two64; omega

theorem u64OfInt_nat (n : Nat) (h : n < 2 ^ 64) : u64OfInt (n : Int) = n := by
  unfold u64OfInt; omega

/-! ### `Data.Read` inside the data -/

theorem Data.read_ok (d : Data) (s e : Nat) (hse : s ≤ e) (he : e ≤ d.bytes.length)
    (hlen : d.bytes.length < 2 ^ 63) :
    d.read s e = .ok ((d.bytes.drop s).take (e - s)) := by
  have hs : i64 s = (s : Int) := by unfold i64 two64; split <;> omega
  have he' : i64 e = (e : Int) := by unfold i64 two64; split <;> omega
  have hn : wrap64 ((e : Int) - (s : Int)) = ((e - s : Nat) : Int) := by
    unfold wrap64 i64 two64; split <;> omega
  unfold Data.read
  simp only [hs, he', hn]
  cases d.mem with
  | true =>
    have : (0 : Int) ≤ (s : Int) ∧ (s : Int) ≤ (e : Int) ∧ (e : Int) ≤ (d.bytes.length : Int) := by omega
    simp only [if_true, this, and_self]
    congr 2
    omega
  | false =>
    have h1 : ¬ (((e - s : Nat) : Int) < 0) := by omega
    have h2 : ¬ ((s : Int) < 0) := by omega
    simp only [Bool.false_eq_true, if_false, h1, h2]
    by_cases h0 : e - s = 0
    · simp [h0]
    · have h3 : ¬ (((e - s : Nat) : Int) = 0) := by omega
      have h4 : ¬ ((s : Int) + ((e - s : Nat) : Int) > (d.bytes.length : Int)) := by omega
      simp only [h3, h4, if_false]
      rfl

/-! ### `binary.Uvarint` after `PutUvarint` -/

theorem uvarintAux_put (x : Nat) : ∀ (acc s i : Nat) (rest : Bytes),
    s = 7 * i → x * 2 ^ s < two64 → i + (putUvarint x).length ≤ 10 →
    uvarintAux (putUvarint x ++ rest) acc s i = some (acc + x * 2 ^ s, i + (putUvarint x).length) := by
  induction x using Nat.strongRecOn with
  | _ x ih =>
    intro acc s i rest hs hx hlen
    have hne := putUvarint_ne_nil x
    have hi : i ≠ 10 := by
      have : 0 < (putUvarint x).length := List.length_pos_iff.mpr hne
      omega
    unfold putUvarint at hlen ⊢
    split
    · rename_i hlt
      have hg : ¬ (i = 9 ∧ x > 1) := by
        intro ⟨h9, h1⟩
        subst h9; subst hs
        have : x * 2 ^ 63 ≥ 2 * 2 ^ 63 := Nat.mul_le_mul_right _ h1
        unfold two64 at hx
        omega
      simp only [List.cons_append, List.nil_append, uvarintAux, hi, if_false, hlt, if_true, hg,
        List.length_cons, List.length_nil]
      rw [Nat.mod_eq_of_lt hx]
    · rename_i hge
      simp only [hge, if_false, List.length_cons] at hlen
      have hge' : 128 ≤ x := by omega
      have hnot : ¬ (x % 128 + 128 < 128) := by omega
      simp only [List.cons_append, uvarintAux, hi, hnot, if_false]
      have hmod : (x % 128 + 128) % 128 = x % 128 := by omega
      rw [hmod]
      have hpow : 2 ^ (s + 7) = 2 ^ s * 128 := by rw [Nat.pow_add]
      have hlow : x % 128 * 2 ^ s ≤ x * 2 ^ s := Nat.mul_le_mul_right _ (Nat.mod_le _ _)
      have hlow' : x % 128 * 2 ^ s < two64 := Nat.lt_of_le_of_lt hlow hx
      have hdiv : x / 128 * 2 ^ (s + 7) ≤ x * 2 ^ s := by
        rw [hpow, ← Nat.mul_assoc, Nat.mul_comm (x / 128 * 2 ^ s), ← Nat.mul_assoc]
        exact Nat.mul_le_mul_right _ (by rw [Nat.mul_comm]; exact Nat.div_mul_le_self x 128)
      have hdiv' : x / 128 * 2 ^ (s + 7) < two64 := Nat.lt_of_le_of_lt hdiv hx
      rw [ih (x / 128) (by omega) _ (s + 7) (i + 1) rest (by omega) hdiv' (by omega)]
      rw [Nat.mod_eq_of_lt hlow']
      have hsum : x % 128 * 2 ^ s + x / 128 * 2 ^ (s + 7) = x * 2 ^ s := by
        rw [hpow]
        have : x / 128 * (2 ^ s * 128) = 128 * (x / 128) * 2 ^ s := by
          rw [Nat.mul_comm (2 ^ s) 128, ← Nat.mul_assoc, Nat.mul_comm (x / 128) 128]
        rw [this, ← Nat.add_mul, Nat.add_comm, Nat.div_add_mod]
      simp only [List.length_cons]
      congr 1
      congr 1
      · omega
      · omega

theorem putUvarint_small (x : Nat) (h : x < 128) : putUvarint x = [x] := by
  unfold putUvarint; simp [h]

/-- `binary.Uvarint` of what `PutUvarint` wrote, followed by anything -/
theorem uvarint_put (x : Nat) (rest : Bytes) (h : x < 2 ^ 64) :
    uvarint (putUvarint x ++ rest) = some (x, (putUvarint x).length) := by
  have := uvarintAux_put x 0 0 0 rest (by omega) (by simpa [two64] using h)
    (by have := putUvarint_length_le_ten x h; omega)
  simpa [uvarint] using this

/-- … also through the 10-byte window the readers use -/
theorem uvarint_put_window (x : Nat) (rest : Bytes) (h : x < 2 ^ 64) :
    uvarint ((putUvarint x ++ rest).take 10) = some (x, (putUvarint x).length) := by
  have hl := putUvarint_length_le_ten x h
  rw [List.take_append, List.take_of_length_le hl]
  exact uvarint_put x _ h

theorem uvarintGoAux_of_uvarintAux (buf : Bytes) : ∀ (x s i v n : Nat),
    uvarintAux buf x s i = some (v, n) → uvarintGoAux buf x s i = (v, (n : Int)) := by
  induction buf with
  | nil => intro x s i v n h; simp [uvarintAux] at h
  | cons b rest ih =>
    intro x s i v n h
    unfold uvarintAux at h
    unfold uvarintGoAux
    split at h
    · simp at h
    · rename_i hi
      simp only [hi, if_false]
      split at h
      · rename_i hb
        simp only [hb, if_true]
        split at h
        · simp at h
        · rename_i hg
          simp only [hg, if_false]
          simp only [Option.some.injEq, Prod.mk.injEq] at h
          rw [← h.1, ← h.2]
          simp
      · rename_i hb
        simp only [hb, if_false]
        exact ih _ _ _ _ _ h

theorem uvarintGo_of_uvarint (buf : Bytes) (v n : Nat) (h : uvarint buf = some (v, n)) :
    uvarintGo buf = (v, (n : Int)) :=
  uvarintGoAux_of_uvarintAux buf 0 0 0 v n h

/-! ### big-endian words -/

theorem be_length (k x : Nat) : (be k x).length = k := by
  induction k with
  | zero => rfl
  | succ k ih => simp [be, ih]

theorem unbe_be8 (x : Nat) (h : x < 2 ^ 64) : unbe (be 8 x) = x := by
  simp only [be, unbe, List.foldl]
  omega

/-! ### the separator split -/

/-- no term contains the separator byte -/
def NoSep (terms : List Bytes) : Prop := ∀ t ∈ terms, (255 : Nat) ∉ t

theorem splitSep_term (t : Bytes) (h : (255 : Nat) ∉ t) (rest cur : Bytes) :
    splitSep (t ++ 255 :: rest) cur = (cur ++ t) :: splitSep rest [] := by
  induction t generalizing cur with
  | nil => simp [splitSep]
  | cons b t ih =>
    have hb : b ≠ 255 := by intro hb; apply h; simp [hb]
    have ht : (255 : Nat) ∉ t := by intro ht; apply h; simp [ht]
    simp only [List.cons_append, splitSep, hb, if_false]
    rw [ih ht]
    simp

/-- splitting the encoded document gives back its terms, followed by the split of what comes
    after -/
theorem splitSep_docBytes_append (terms : List Bytes) (h : NoSep terms) (rest : Bytes) :
    splitSep (docBytes terms ++ rest) [] = terms ++ splitSep rest [] := by
  induction terms with
  | nil => simp [docBytes]
  | cons t ts ih =>
    have ht : (255 : Nat) ∉ t := h t (by simp)
    have hts : NoSep ts := fun u hu => h u (by simp [hu])
    have : docBytes (t :: ts) ++ rest = t ++ 255 :: (docBytes ts ++ rest) := by
      simp [docBytes]
    rw [this, splitSep_term t ht, ih hts]
    simp

theorem splitSep_docBytes (terms : List Bytes) (h : NoSep terms) :
    splitSep (docBytes terms) [] = terms := by
  have := splitSep_docBytes_append terms h []
  simpa [splitSep] using this

/-! ### the writer: closed form of what the coder emits -/

/-- the header of a chunk whose data starts at offset `off`: (docNum, end offset) -/
def hdrExt : Nat → List (Nat × Bytes) → List (Nat × Nat)
  | _, [] => []
  | off, (d, v) :: g => (d, off + v.length) :: hdrExt (off + v.length) g

/-- the uncompressed data of a chunk -/
def dataOf (g : List (Nat × Bytes)) : Bytes := g.flatMap (·.2)

/-- the documents of chunk `c` -/
def chunkVals (cs : Nat) (vals : List (Nat × Bytes)) (c : Nat) : List (Nat × Bytes) :=
  vals.filter (fun p => p.1 / cs == c)

/-- one flushed chunk: header, then the compressed data -/
def encChunk (z : Codec) (hdr : List (Nat × Nat)) (data : Bytes) : Bytes :=
  putUvarint hdr.length ++ encDeltas 0 0 hdr ++ z.Z data

/-- the bytes of chunk `c`: chunk 0 and every chunk holding a document is flushed, the others
    stay empty -/
def chunkBytes (z : Codec) (cs : Nat) (vals : List (Nat × Bytes)) (c : Nat) : Bytes :=
  if c = 0 ∨ chunkVals cs vals c ≠ [] then
    encChunk z (hdrExt 0 (chunkVals cs vals c)) (dataOf (chunkVals cs vals c))
  else []

def chunksOf (z : Codec) (cs n : Nat) (vals : List (Nat × Bytes)) : List Bytes :=
  (List.range n).map (chunkBytes z cs vals)

/-- the field's doc-value section for the chunk byte strings `G` -/
def sectionOf (G : List Bytes) : Bytes :=
  G.flatten ++ (endOffsets 0 (G.map List.length)).flatMap putUvarint ++
    be 8 ((endOffsets 0 (G.map List.length)).flatMap putUvarint).length ++ be 8 G.length

/-- the coder between two calls, in either mode: chunks `G` emitted (to `final` or to the writer),
    current chunk `k` with header `mt` and data `buf` -/
def st (p : Bool) (cs k : Nat) (G : List Bytes) (mb : Bytes) (mt : List (Nat × Nat))
    (buf : Bytes) : Coder :=
  { final := if p then [] else G.flatten, chunkSize := cs, currChunk := k,
    chunkLens := G.map List.length, progressive := p, chunkMetaBuf := mb, chunkBuf := buf,
    chunkMeta := mt, out := if p then G.flatten else [] }

theorem flatten_eq_nil_of_all_nil (G : List Bytes) (h : ∀ c, c < G.length → G[c]? = some []) :
    G.flatten = [] := by
  induction G with
  | nil => rfl
  | cons a G ih =>
    have ha : a = [] := by simpa using h 0 (by simp)
    subst ha
    simp only [List.flatten_cons, List.nil_append]
    apply ih
    intro c hc
    have := h (c + 1) (by simpa using hc)
    simpa using this

theorem flatten_set_of_empty_above (G : List Bytes) (k : Nat) (X : Bytes) (hk : k < G.length)
    (he : ∀ c, k ≤ c → c < G.length → G[c]? = some []) : (G.set k X).flatten = G.flatten ++ X := by
  induction G generalizing k with
  | nil => simp at hk
  | cons a G ih =>
    cases k with
    | zero =>
      have ha : a = [] := by simpa using he 0 (by omega) (by simp)
      subst ha
      have : G.flatten = [] := by
        apply flatten_eq_nil_of_all_nil
        intro c hc
        have := he (c + 1) (by omega) (by simpa using hc)
        simpa using this
      simp [this]
    | succ k =>
      simp only [List.set_cons_succ, List.flatten_cons, List.append_assoc]
      rw [ih k (by simpa using hk)]
      intro c hkc hc
      have := he (c + 1) (by omega) (by simpa using hc)
      simpa using this

theorem flush_st (z : Codec) (p : Bool) (cs k : Nat) (G : List Bytes) (mt : List (Nat × Nat))
    (buf : Bytes) (hk : k < G.length)
    (he : ∀ c, k ≤ c → c < G.length → G[c]? = some []) :
    (st p cs k G [] mt buf).flush z =
      .ok (st p cs k (G.set k (encChunk z mt buf))
            (putUvarint mt.length ++ encDeltas 0 0 mt) mt buf) := by
  have hf : (G.set k (putUvarint mt.length ++ (encDeltas 0 0 mt ++ z.Z buf))).flatten =
      G.flatten ++ (putUvarint mt.length ++ (encDeltas 0 0 mt ++ z.Z buf)) :=
    flatten_set_of_empty_above G k _ hk he
  cases p <;>
    simp [Coder.flush, st, hk, hf, List.map_set, encChunk, Nat.add_comm, Nat.add_assoc]

theorem add_same (z : Codec) (p : Bool) (cs k : Nat) (G : List Bytes) (mt : List (Nat × Nat))
    (buf : Bytes) (d : Nat) (v : Bytes) (hcs : cs ≠ 0) (hd : d / cs = k) :
    (st p cs k G [] mt buf).add z d v =
      .ok (st p cs k G [] (mt ++ [(d, buf.length + v.length)]) (buf ++ v)) := by
  simp [Coder.add, st, hcs, hd]

theorem add_new (z : Codec) (p : Bool) (cs k : Nat) (G : List Bytes) (mt : List (Nat × Nat))
    (buf : Bytes) (d : Nat) (v : Bytes) (hcs : cs ≠ 0) (hd : d / cs ≠ k) (hk : k < G.length)
    (he : ∀ c, k ≤ c → c < G.length → G[c]? = some []) :
    (st p cs k G [] mt buf).add z d v =
      .ok (st p cs (d / cs) (G.set k (encChunk z mt buf)) [] [(d, v.length)] v) := by
  have hf := flush_st z p cs k G mt buf hk he
  have h1 : (st p cs k G [] mt buf).chunkSize = cs := rfl
  have h2 : (st p cs k G [] mt buf).currChunk = k := rfl
  unfold Coder.add
  simp only [h1, h2, hcs, if_false, bne_iff_ne, ne_eq, hd, not_false_eq_true, if_true, hf]
  simp [st]

theorem chunkVals_cons_same (cs : Nat) (d : Nat) (v : Bytes) (rest : List (Nat × Bytes)) :
    chunkVals cs ((d, v) :: rest) (d / cs) = (d, v) :: chunkVals cs rest (d / cs) := by
  simp [chunkVals]

theorem chunkVals_cons_other (cs : Nat) (d : Nat) (v : Bytes) (rest : List (Nat × Bytes)) (c : Nat)
    (h : d / cs ≠ c) : chunkVals cs ((d, v) :: rest) c = chunkVals cs rest c := by
  simp [chunkVals, h]

theorem chunkVals_eq_nil (cs : Nat) (vals : List (Nat × Bytes)) (c : Nat)
    (h : ∀ p ∈ vals, p.1 / cs ≠ c) : chunkVals cs vals c = [] := by
  unfold chunkVals
  rw [List.filter_eq_nil_iff]
  intro a ha
  simpa using h a ha

theorem chunkBytes_cons_other (z : Codec) (cs : Nat) (d : Nat) (v : Bytes)
    (rest : List (Nat × Bytes)) (c : Nat) (h : d / cs ≠ c) :
    chunkBytes z cs ((d, v) :: rest) c = chunkBytes z cs rest c := by
  unfold chunkBytes
  rw [chunkVals_cons_other cs d v rest c h]

/-- documents arrive in chunk order, in chunks from `k` up to the number of chunks -/
def ChunkSorted (cs k n : Nat) (todo : List (Nat × Bytes)) : Prop :=
  todo.Pairwise (fun a b => a.1 / cs ≤ b.1 / cs) ∧ ∀ p ∈ todo, k ≤ p.1 / cs ∧ p.1 / cs < n

/-- Running the coder from any state between two calls over the remaining documents, then `Close`:
    the chunks below the current one are untouched, the current one receives the pending and the
    remaining documents of that chunk, the later ones are as in the closed form. -/
theorem run_G (z : Codec) (p : Bool) (cs : Nat) (hcs : cs ≠ 0) (todo : List (Nat × Bytes)) :
    ∀ (k : Nat) (G : List Bytes) (mt : List (Nat × Nat)) (buf : Bytes),
    k < G.length → (∀ c, k ≤ c → c < G.length → G[c]? = some []) →
    ChunkSorted cs k G.length todo →
    ∃ k' G' mb' mt' buf',
      (addAll z (st p cs k G [] mt buf) todo >>= fun c => c.flush z) =
        .ok (st p cs k' G' mb' mt' buf') ∧
      G'.length = G.length ∧
      ∀ c, G'[c]? =
        if c < k then G[c]?
        else if c = k then
          some (encChunk z (mt ++ hdrExt buf.length (chunkVals cs todo k))
                  (buf ++ dataOf (chunkVals cs todo k)))
        else if c < G.length then some (chunkBytes z cs todo c)
        else none := by
  induction todo with
  | nil =>
    intro k G mt buf hk he _
    refine ⟨k, G.set k (encChunk z mt buf), putUvarint mt.length ++ encDeltas 0 0 mt, mt, buf, ?_,
      by simp, ?_⟩
    · simp only [addAll, ok_bind]
      exact flush_st z p cs k G mt buf hk he
    · intro c
      rw [List.getElem?_set]
      by_cases h1 : c < k
      · have : k ≠ c := by omega
        simp [h1, this]
      · by_cases h2 : c = k
        · subst h2
          simp [hk, chunkVals, hdrExt, dataOf]
        · have : k ≠ c := by omega
          simp only [this, if_false, h1, h2]
          by_cases h3 : c < G.length
          · have hc0 : c ≠ 0 := by omega
            rw [he c (by omega) h3]
            simp [h3, chunkBytes, chunkVals, hc0]
          · simp [h3]
  | cons dv rest ih =>
    obtain ⟨d, v⟩ := dv
    intro k G mt buf hk he hs
    obtain ⟨hpw, hrange⟩ := hs
    have hd := hrange (d, v) (by simp)
    simp only at hd
    rw [List.pairwise_cons] at hpw
    by_cases hsame : d / cs = k
    · -- same chunk
      have hs' : ChunkSorted cs k G.length rest :=
        ⟨hpw.2, fun q hq => hrange q (by simp [hq])⟩
      obtain ⟨k', G', mb', mt', buf', hrun, hlen, hpt⟩ :=
        ih k G (mt ++ [(d, buf.length + v.length)]) (buf ++ v) hk he hs'
      refine ⟨k', G', mb', mt', buf', ?_, hlen, ?_⟩
      · simp only [addAll, add_same z p cs k G mt buf d v hcs hsame]
        exact hrun
      · intro c
        rw [hpt c]
        by_cases h1 : c < k
        · simp [h1]
        · by_cases h2 : c = k
          · subst h2
            subst hsame
            simp [chunkVals_cons_same, hdrExt, dataOf]
          · have hne : d / cs ≠ c := by omega
            simp only [h1, h2, if_false, chunkBytes_cons_other z cs d v rest c hne]
    · -- a new chunk: flush, reset, add
      have hlt : k < d / cs := by omega
      have he1 : ∀ c, d / cs ≤ c → c < (G.set k (encChunk z mt buf)).length →
          (G.set k (encChunk z mt buf))[c]? = some [] := by
        intro c h1 h2
        rw [List.getElem?_set]
        have : k ≠ c := by omega
        simp only [this, if_false]
        exact he c (by omega) (by simpa using h2)
      have hs' : ChunkSorted cs (d / cs) (G.set k (encChunk z mt buf)).length rest := by
        refine ⟨hpw.2, fun q hq => ⟨hpw.1 q hq, ?_⟩⟩
        simpa using (hrange q (by simp [hq])).2
      obtain ⟨k', G', mb', mt', buf', hrun, hlen, hpt⟩ :=
        ih (d / cs) (G.set k (encChunk z mt buf)) [(d, v.length)] v (by simpa using hd.2) he1 hs'
      refine ⟨k', G', mb', mt', buf', ?_, by simpa using hlen, ?_⟩
      · simp only [addAll, add_new z p cs k G mt buf d v hcs hsame hk he]
        exact hrun
      · intro c
        rw [hpt c]
        have hall : ∀ q ∈ (d, v) :: rest, d / cs ≤ q.1 / cs := by
          intro q hq
          rcases List.mem_cons.mp hq with h | h
          · subst h; exact Nat.le_refl _
          · exact hpw.1 q h
        by_cases h1 : c < k
        · have h1' : c < d / cs := by omega
          have : k ≠ c := by omega
          simp [h1, h1', this]
        · by_cases h2 : c = k
          · subst h2
            have hnil : chunkVals cs ((d, v) :: rest) c = [] :=
              chunkVals_eq_nil cs _ c (fun q hq => by have := hall q hq; omega)
            simp [hlt, hk, hnil, hdrExt, dataOf]
          · simp only [h1, h2, if_false]
            by_cases h3 : c < d / cs
            · have hkc : k ≠ c := by omega
              have hcl : c < G.length := by omega
              have hc0 : c ≠ 0 := by omega
              have hnil : chunkVals cs ((d, v) :: rest) c = [] :=
                chunkVals_eq_nil cs _ c (fun q hq => by have := hall q hq; omega)
              rw [if_pos h3, List.getElem?_set, if_neg hkc, he c (by omega) hcl]
              simp [hcl, chunkBytes, hnil, hc0]
            · by_cases h4 : c = d / cs
              · subst h4
                have hcl : d / cs < G.length := hd.2
                simp [hcl, chunkBytes, chunkVals_cons_same, hdrExt, dataOf]
              · have hne : d / cs ≠ c := by omega
                simp [h3, h4, chunkBytes_cons_other z cs d v rest c hne]

theorem write_st (p : Bool) (cs k : Nat) (G : List Bytes) (mb : Bytes) (mt : List (Nat × Nat))
    (buf : Bytes) : (st p cs k G mb mt buf).write.1.out = sectionOf G := by
  cases p <;> simp [Coder.write, st, sectionOf]

theorem out_st_nonprogressive (cs k : Nat) (G : List Bytes) (mb : Bytes) (mt : List (Nat × Nat))
    (buf : Bytes) : (st false cs k G mb mt buf).out = [] := rfl

/-- ascending document numbers inside the segment are chunk-sorted -/
theorem chunkSorted_of_ascending (cs maxDocNum : Nat) (vals : List (Nat × Bytes))
    (hasc : vals.Pairwise (fun a b => a.1 < b.1)) (hmax : ∀ p ∈ vals, p.1 ≤ maxDocNum) :
    ChunkSorted cs 0 (maxDocNum / cs + 1) vals := by
  refine ⟨hasc.imp (fun h => Nat.div_le_div_right (Nat.le_of_lt h)), fun p hp => ⟨Nat.zero_le _, ?_⟩⟩
  exact Nat.lt_succ_of_le (Nat.div_le_div_right (c := cs) (hmax p hp))

/-- Both modes of the coder emit the closed form. -/
theorem coder_run (z : Codec) (p : Bool) (cs maxDocNum : Nat) (hcs : 0 < cs)
    (hn : maxDocNum / cs + 1 < 2 ^ 64) (vals : List (Nat × Bytes))
    (hasc : vals.Pairwise (fun a b => a.1 < b.1)) (hmax : ∀ q ∈ vals, q.1 ≤ maxDocNum) :
    ∃ k mb mt buf,
      (Coder.new cs maxDocNum p >>= fun c => addAll z c vals >>= fun c => c.flush z) =
        .ok (st p cs k (chunksOf z cs (maxDocNum / cs + 1) vals) mb mt buf) := by
  have hcs' : cs ≠ 0 := by omega
  have hnew : Coder.new cs maxDocNum p =
      .ok (st p cs 0 (List.replicate (maxDocNum / cs + 1) []) [] [] []) := by
    have : (maxDocNum / cs + 1) % two64 = maxDocNum / cs + 1 :=
      Nat.mod_eq_of_lt (by unfold two64; exact hn)
    cases p <;> simp [Coder.new, hcs', st, this]
  obtain ⟨k', G', mb', mt', buf', hrun, hlen, hpt⟩ :=
    run_G z p cs hcs' vals 0 (List.replicate (maxDocNum / cs + 1) []) [] [] (by simp)
      (by intro c _ hc; simp at hc; simp [hc])
      (by simpa using chunkSorted_of_ascending cs maxDocNum vals hasc hmax)
  refine ⟨k', mb', mt', buf', ?_⟩
  rw [hnew, ok_bind, hrun]
  congr 2
  apply List.ext_getElem?
  intro c
  rw [hpt c]
  simp only [Nat.not_lt_zero, if_false, List.length_replicate, chunksOf, List.getElem?_map]
  by_cases h0 : c = 0
  · subst h0
    simp [chunkBytes]
  · by_cases h1 : c < maxDocNum / cs + 1
    · simp [h0, h1]
    · simp [h0, h1]

/-! ### reading: positions inside the file -/

/-- the bytes `X` sit at offset `off`, followed by at least ten more bytes (every 10-byte window
    that starts inside `X` is inside the file) -/
def At (bs : Bytes) (off : Nat) (X : Bytes) : Prop :=
  ∃ rest, bs.drop off = X ++ rest ∧ 10 ≤ rest.length

theorem At.length_le {bs : Bytes} {off : Nat} {X : Bytes} (h : At bs off X) :
    off + X.length + 10 ≤ bs.length := by
  obtain ⟨rest, hd, hr⟩ := h
  have := congrArg List.length hd
  simp only [List.length_drop, List.length_append] at this
  omega

theorem At.left {bs : Bytes} {off : Nat} {A B : Bytes} (h : At bs off (A ++ B)) : At bs off A := by
  obtain ⟨rest, hd, hr⟩ := h
  exact ⟨B ++ rest, by simpa using hd, by simp; omega⟩

theorem At.right {bs : Bytes} {off : Nat} {A B : Bytes} (h : At bs off (A ++ B)) :
    At bs (off + A.length) B := by
  obtain ⟨rest, hd, hr⟩ := h
  refine ⟨rest, ?_, hr⟩
  rw [← List.drop_drop, hd, List.append_assoc, List.drop_left]

theorem At.read_exact {file : Data} {off : Nat} {X : Bytes} (h : At file.bytes off X)
    (hlen : file.bytes.length < 2 ^ 63) : file.read off (off + X.length) = .ok X := by
  have hl := h.length_le
  obtain ⟨rest, hd, _⟩ := h
  rw [Data.read_ok file off (off + X.length) (by omega) (by omega) hlen, hd]
  congr 1
  rw [show off + X.length - off = X.length by omega]
  simp

/-- the 10-byte window at a varint written by `PutUvarint` decodes to it -/
theorem At.read_window {file : Data} {off x : Nat} (h : At file.bytes off (putUvarint x))
    (hx : x < 2 ^ 64) (hlen : file.bytes.length < 2 ^ 63) :
    ∃ w, file.read off (add64 off 10) = .ok w ∧ uvarint w = some (x, (putUvarint x).length) := by
  have hl := h.length_le
  obtain ⟨rest, hd, _⟩ := h
  have ha : add64 off 10 = off + 10 := add64_small (by omega)
  refine ⟨(file.bytes.drop off).take 10, ?_, ?_⟩
  · rw [ha, Data.read_ok file off (off + 10) (by omega) (by omega) hlen]
    congr 2
    omega
  · rw [hd]
    exact uvarint_put_window x rest hx

theorem endOffsets_lt (acc : Nat) (L : List Nat) : ∀ x ∈ endOffsets acc L, x < 2 ^ 64 := by
  induction L generalizing acc with
  | nil => intro x hx; simp [endOffsets] at hx
  | cons l L ih =>
    intro x hx
    simp only [endOffsets, List.mem_cons] at hx
    rcases hx with h | h
    · subst h; unfold add64 two64; omega
    · exact ih _ x h

theorem endOffsets_length (acc : Nat) (L : List Nat) : (endOffsets acc L).length = L.length := by
  induction L generalizing acc with
  | nil => rfl
  | cons l L ih => simp [endOffsets, ih]

/-- without wrap-around the end offsets are the running sums -/
theorem endOffsets_getElem? (L : List Nat) : ∀ (acc i : Nat), acc + L.sum < 2 ^ 64 →
    (endOffsets acc L)[i]? = if i < L.length then some (acc + (L.take (i + 1)).sum) else none := by
  induction L with
  | nil => intro acc i _; simp [endOffsets]
  | cons l L ih =>
    intro acc i h
    simp only [List.sum_cons] at h
    have ha : add64 acc l = acc + l := add64_small (by omega)
    cases i with
    | zero => simp [endOffsets, ha]
    | succ i =>
      simp only [endOffsets, ha, List.getElem?_cons_succ, List.length_cons, Nat.add_lt_add_iff_right,
        List.take_succ_cons, List.sum_cons]
      rw [ih (acc + l) i (by omega)]
      simp [Nat.add_assoc]

/-- the loop reading the chunk offsets returns the list that was written -/
theorem readOffsets_spec (file : Data) (pos : Nat) (hlen : file.bytes.length < 2 ^ 63)
    (L : List Nat) : ∀ (o : Nat), (∀ x ∈ L, x < 2 ^ 64) →
    At file.bytes (pos + o) (L.flatMap putUvarint) →
    readOffsets file pos L.length o = .ok L := by
  induction L with
  | nil => intro o _ _; rfl
  | cons x L ih =>
    intro o hL h
    simp only [List.flatMap_cons] at h
    have hl := h.length_le
    have hx : x < 2 ^ 64 := hL x (by simp)
    obtain ⟨w, hw, hu⟩ := h.left.read_window hx hlen
    have hp := putUvarint_length_le_ten x hx
    have ha : add64 pos o = pos + o := add64_small (by omega)
    have ho : add64 o (putUvarint x).length = o + (putUvarint x).length := add64_small (by omega)
    have hr := h.right
    rw [Nat.add_assoc] at hr
    simp only [List.length_cons, readOffsets, ha, hw, ok_bind, hu, ho,
      ih (o + (putUvarint x).length) (fun y hy => hL y (by simp [hy])) hr, pure_eq]

/-- start offset of chunk `c` inside the data area -/
def offAt (G : List Bytes) (c : Nat) : Nat := (G.take c).flatten.length

theorem offAt_succ (G : List Bytes) (c : Nat) (X : Bytes) (h : G[c]? = some X) :
    offAt G (c + 1) = offAt G c + X.length := by
  unfold offAt
  rw [List.take_add_one, h]
  simp

theorem offAt_le (G : List Bytes) (c : Nat) : offAt G c ≤ G.flatten.length := by
  unfold offAt
  have : G.flatten = (G.take c).flatten ++ (G.drop c).flatten := by
    rw [← List.flatten_append, List.take_append_drop]
  rw [this, List.length_append]; omega

theorem sum_map_length_take (G : List Bytes) (i : Nat) :
    ((G.map List.length).take i).sum = offAt G i := by
  unfold offAt
  rw [List.length_flatten, List.map_take]

theorem chunkOffsets_getElem? (G : List Bytes) (hG : G.flatten.length < 2 ^ 64) (i : Nat) :
    (endOffsets 0 (G.map List.length))[i]? = if i < G.length then some (offAt G (i + 1)) else none := by
  rw [endOffsets_getElem? _ 0 i (by rw [← List.length_flatten]; omega)]
  simp [sum_map_length_take]

/-- chunk `c` sits at its start offset in the data area -/
theorem at_chunk {bs : Bytes} {off : Nat} {G : List Bytes} (h : At bs off G.flatten) (c : Nat)
    (X : Bytes) (hc : G[c]? = some X) : At bs (off + offAt G c) X := by
  have hlt : c < G.length := by
    rcases Nat.lt_or_ge c G.length with h | h
    · exact h
    · rw [List.getElem?_eq_none h] at hc; cases hc
  have hX : G[c] = X := by
    rw [List.getElem?_eq_getElem hlt] at hc; exact Option.some.inj hc
  have hsplit : G.flatten = (G.take c).flatten ++ (X ++ (G.drop (c + 1)).flatten) := by
    conv => lhs; rw [← List.take_append_drop c G, List.drop_eq_getElem_cons hlt, hX]
    simp
  rw [hsplit] at h
  exact h.right.left

/-- the file holds `pre`, the section for the chunk strings `G`, and at least ten more bytes -/
structure Layout (file : Data) (pre : Bytes) (G : List Bytes) (suf : Bytes) : Prop where
  bytes : file.bytes = pre ++ sectionOf G ++ suf
  suf10 : 10 ≤ suf.length
  len : file.bytes.length < 2 ^ 63
  ne : G ≠ []

/-- the chunk end offsets as written -/
def offsOf (G : List Bytes) : List Nat := endOffsets 0 (G.map List.length)
def offB (G : List Bytes) : Bytes := (offsOf G).flatMap putUvarint

theorem sectionOf_eq (G : List Bytes) :
    sectionOf G = G.flatten ++ (offB G ++ (be 8 (offB G).length ++ be 8 G.length)) := by
  simp [sectionOf, offB, offsOf]

theorem offB_pos (G : List Bytes) (h : G ≠ []) : 0 < (offB G).length := by
  cases G with
  | nil => exact absurd rfl h
  | cons a G =>
    have := putUvarint_ne_nil (add64 0 a.length)
    simp only [offB, offsOf, List.map_cons, endOffsets, List.flatMap_cons, List.length_append]
    have : 0 < (putUvarint (add64 0 a.length)).length := List.length_pos_iff.mpr this
    omega

namespace Layout
variable {file : Data} {pre : Bytes} {G : List Bytes} {suf : Bytes}

theorem at_section (L : Layout file pre G suf) : At file.bytes pre.length (sectionOf G) :=
  ⟨suf, by rw [L.bytes, List.append_assoc, List.drop_left], L.suf10⟩

theorem at_data (L : Layout file pre G suf) : At file.bytes pre.length G.flatten := by
  have := L.at_section; rw [sectionOf_eq] at this; exact this.left

theorem at_offB (L : Layout file pre G suf) :
    At file.bytes (pre.length + G.flatten.length) (offB G) := by
  have := L.at_section; rw [sectionOf_eq] at this; exact this.right.left

theorem at_len (L : Layout file pre G suf) :
    At file.bytes (pre.length + G.flatten.length + (offB G).length) (be 8 (offB G).length) := by
  have := L.at_section; rw [sectionOf_eq] at this; exact this.right.right.left

theorem at_num (L : Layout file pre G suf) :
    At file.bytes (pre.length + G.flatten.length + (offB G).length + 8) (be 8 G.length) := by
  have := L.at_section; rw [sectionOf_eq] at this
  have := this.right.right.right
  simpa [be_length] using this

theorem section_length (G : List Bytes) :
    (sectionOf G).length = G.flatten.length + (offB G).length + 16 := by
  rw [sectionOf_eq]; simp [be_length]; omega

theorem data_lt (L : Layout file pre G suf) : G.flatten.length < 2 ^ 63 := by
  have := L.at_data.length_le; have := L.len; omega

/-- `loadFieldDocValueReader` on the section: the offsets come back, the cache is empty -/
theorem load (L : Layout file pre G suf) (hn : G.length < 2 ^ 63) :
    loadFieldDocValueReader file pre.length (pre.length + (sectionOf G).length) =
      .ok (some { curChunkNum := maxInt64, chunkOffsets := offsOf G, dvDataLoc := pre.length,
                  curChunkHeader := [], curChunkData := none, uncompressed := [] }) := by
  have hlen := L.len
  have h1 := L.at_len
  have h2 := L.at_num
  have h3 := L.at_offB
  have hl2 := h2.length_le
  have hpos := offB_pos G L.ne
  have hsl := section_length G
  simp only [be_length] at hl2
  have hs : pre.length ≠ maxUint64 := by unfold maxUint64; omega
  have hsub : sub64 (pre.length + (sectionOf G).length) pre.length > 16 := by
    rw [sub64_small (by omega) (by omega)]; omega
  have e8 : sub64 (pre.length + (sectionOf G).length) 8 =
      pre.length + G.flatten.length + (offB G).length + 8 := by
    rw [sub64_small (by omega) (by omega)]; omega
  have e16 : sub64 (pre.length + (sectionOf G).length) 16 =
      pre.length + G.flatten.length + (offB G).length := by
    rw [sub64_small (by omega) (by omega)]; omega
  have r1 := h2.read_exact hlen
  have r2 := h1.read_exact hlen
  simp only [be_length] at r1 r2
  have eend : pre.length + (sectionOf G).length =
      pre.length + G.flatten.length + (offB G).length + 8 + 8 := by omega
  have epos : sub64 (pre.length + G.flatten.length + (offB G).length) (offB G).length =
      pre.length + G.flatten.length := by
    rw [sub64_small (by omega) (by omega)]; omega
  have hro := readOffsets_spec file (pre.length + G.flatten.length) hlen (offsOf G) 0
    (endOffsets_lt _ _) (by rw [Nat.add_zero]; exact h3)
  have hol : (offsOf G).length = G.length := by simp [offsOf, endOffsets_length]
  rw [hol] at hro
  have hn' : ¬ G.length ≥ 2 ^ 63 := by omega
  unfold loadFieldDocValueReader
  simp only [hs, if_false, hsub, if_true, e8, e16]
  rw [eend, r1, ok_bind, r2, ok_bind, unbe_be8 _ (by omega), unbe_be8 _ (by omega), epos]
  simp only [hn', if_false, hro, ok_bind, pure_eq]

end Layout

/-! ### loading a chunk -/

theorem length_encDeltas_ge (H : List (Nat × Nat)) : ∀ (dd doff : Nat),
    H.length ≤ (encDeltas dd doff H).length := by
  induction H with
  | nil => intro _ _; simp [encDeltas]
  | cons m H ih =>
    intro dd doff
    obtain ⟨d, e⟩ := m
    have := ih d e
    have h1 : 0 < (putUvarint (sub64 d dd)).length := List.length_pos_iff.mpr (putUvarint_ne_nil _)
    simp only [encDeltas, List.length_cons, List.length_append]
    omega

/-- the header loop recovers the absolute (docNum, end offset) pairs -/
theorem readHeader_spec (file : Data) (metaLoc : Nat) (hlen : file.bytes.length < 2 ^ 63)
    (H : List (Nat × Nat)) : ∀ (o dd doff : Nat),
    (∀ m ∈ H, m.1 < 2 ^ 64 ∧ m.2 < 2 ^ 64) →
    At file.bytes (metaLoc + o) (encDeltas dd doff H) →
    readHeader file metaLoc H.length o dd doff = .ok (H, o + (encDeltas dd doff H).length) := by
  induction H with
  | nil => intro o dd doff _ _; simp [readHeader, encDeltas]
  | cons m H ih =>
    intro o dd doff hH h
    obtain ⟨d, e⟩ := m
    have hde := hH (d, e) (by simp)
    simp only at hde
    simp only [encDeltas] at h
    have hl := h.length_le
    simp only [List.length_append] at hl
    have ha : At file.bytes (metaLoc + o) (putUvarint (sub64 d dd)) := h.left.left
    have hb : At file.bytes (metaLoc + o + (putUvarint (sub64 d dd)).length)
        (putUvarint (sub64 e doff)) := h.left.right
    have hr := h.right
    simp only [List.length_append] at hr
    obtain ⟨wa, hwa, hua⟩ := ha.read_window (sub64_lt _ _) hlen
    obtain ⟨wb, hwb, hub⟩ := hb.read_window (sub64_lt _ _) hlen
    have hga := uvarintGo_of_uvarint _ _ _ hua
    have hgb := uvarintGo_of_uvarint _ _ _ hub
    have e1 : add64 metaLoc o = metaLoc + o := add64_small (by omega)
    have e2 : add64 o (u64OfInt ((putUvarint (sub64 d dd)).length : Int)) =
        o + (putUvarint (sub64 d dd)).length := by
      rw [u64OfInt_nat _ (by omega)]; exact add64_small (by omega)
    have e3 : add64 metaLoc (o + (putUvarint (sub64 d dd)).length) =
        metaLoc + o + (putUvarint (sub64 d dd)).length := by
      rw [add64_small (by omega)]; omega
    have e4 : add64 (o + (putUvarint (sub64 d dd)).length)
        (u64OfInt ((putUvarint (sub64 e doff)).length : Int)) =
        o + (putUvarint (sub64 d dd)).length + (putUvarint (sub64 e doff)).length := by
      rw [u64OfInt_nat _ (by omega)]; exact add64_small (by omega)
    have hr' : At file.bytes
        (metaLoc + (o + (putUvarint (sub64 d dd)).length + (putUvarint (sub64 e doff)).length))
        (encDeltas d e H) := by
      have : metaLoc + (o + (putUvarint (sub64 d dd)).length + (putUvarint (sub64 e doff)).length) =
          metaLoc + o + ((putUvarint (sub64 d dd)).length + (putUvarint (sub64 e doff)).length) := by
        omega
      rw [this]; exact hr
    have hih := ih _ d e (fun m hm => hH m (by simp [hm])) hr'
    simp only [List.length_cons, readHeader, e1, hwa, ok_bind, hga, e2, e3, hwb, hgb, e4, hih,
      add64_sub64 hde.1, add64_sub64 hde.2, pure_eq, encDeltas, List.length_append]
    congr 2
    omega

theorem readChunkBoundary_spec (G : List Bytes) (hG : G.flatten.length < 2 ^ 64) (c : Nat)
    (hc : c < G.length) :
    readChunkBoundary c (offsOf G) = .ok (offAt G c, offAt G (c + 1)) := by
  unfold readChunkBoundary idx offsOf
  cases c with
  | zero =>
    simp [chunkOffsets_getElem? G hG, hc, offAt]
  | succ c =>
    have : c < G.length := by omega
    simp [chunkOffsets_getElem? G hG, hc, this]

namespace Layout
variable {file : Data} {pre : Bytes} {G : List Bytes} {suf : Bytes}

theorem loadDvChunk_empty (L : Layout file pre G suf) (r : Reader)
    (hr : r.chunkOffsets = offsOf G) (c : Nat) (hc : G[c]? = some []) :
    r.loadDvChunk file c =
      .ok { r with curChunkHeader := [], curChunkData := none, curChunkNum := c,
                   uncompressed := [] } := by
  have hlt : c < G.length := by
    rcases Nat.lt_or_ge c G.length with h | h
    · exact h
    · rw [List.getElem?_eq_none h] at hc; cases hc
  have hb := readChunkBoundary_spec G (by have := L.data_lt; omega) c hlt
  have hs := offAt_succ G c [] hc
  unfold Reader.loadDvChunk
  simp only [hr, hb, ok_bind, hs, List.length_nil, Nat.add_zero, ge_iff_le, Nat.le_refl, if_true,
    pure_eq]

theorem loadDvChunk_enc (L : Layout file pre G suf) (r : Reader)
    (hr : r.chunkOffsets = offsOf G) (hr2 : r.dvDataLoc = pre.length) (c : Nat) (z : Codec)
    (H : List (Nat × Nat)) (data : Bytes) (hc : G[c]? = some (encChunk z H data))
    (hH : ∀ m ∈ H, m.1 < 2 ^ 64 ∧ m.2 < 2 ^ 64) :
    r.loadDvChunk file c =
      .ok { r with curChunkHeader := H, curChunkData := some (z.Z data), curChunkNum := c,
                   uncompressed := [] } := by
  have hlen := L.len
  have hlt : c < G.length := by
    rcases Nat.lt_or_ge c G.length with h | h
    · exact h
    · rw [List.getElem?_eq_none h] at hc; cases hc
  have hb := readChunkBoundary_spec G (by have := L.data_lt; omega) c hlt
  have hs := offAt_succ G c _ hc
  have hat := at_chunk L.at_data c _ hc
  have hl := hat.length_le
  unfold encChunk at hat hl hs
  simp only [List.length_append] at hl hs
  have hpn := putUvarint_ne_nil H.length
  have hpnl : 0 < (putUvarint H.length).length := List.length_pos_iff.mpr hpn
  have hHl := length_encDeltas_ge H 0 0
  have hn : H.length < 2 ^ 64 := by omega
  have hn' : ¬ H.length ≥ 2 ^ 63 := by omega
  obtain ⟨w, hw, hu⟩ := hat.left.left.read_window hn hlen
  have hed : At file.bytes (pre.length + offAt G c + (putUvarint H.length).length + 0)
      (encDeltas 0 0 H) := by rw [Nat.add_zero]; exact hat.left.right
  have hh := readHeader_spec file _ hlen H 0 0 0 hH hed
  have hzd := hat.right
  simp only [List.length_append] at hzd
  have hrd := hzd.read_exact hlen
  have hnot : ¬ offAt G c ≥ offAt G (c + 1) := by omega
  have e1 : add64 pre.length (offAt G c) = pre.length + offAt G c := add64_small (by omega)
  have e2 : add64 (pre.length + offAt G c) (putUvarint H.length).length =
      pre.length + offAt G c + (putUvarint H.length).length := add64_small (by omega)
  have e3 : add64 (pre.length + offAt G c + (putUvarint H.length).length)
      (0 + (encDeltas 0 0 H).length) =
      pre.length + offAt G c + ((putUvarint H.length).length + (encDeltas 0 0 H).length) := by
    rw [add64_small (by omega)]; omega
  have e4 : add64 pre.length (offAt G (c + 1)) = pre.length + offAt G (c + 1) :=
    add64_small (by omega)
  have e5 : sub64 (pre.length + offAt G (c + 1))
      (pre.length + offAt G c + ((putUvarint H.length).length + (encDeltas 0 0 H).length)) =
      (z.Z data).length := by
    rw [sub64_small (by omega) (by omega)]; omega
  have e6 : add64 (pre.length + offAt G c + ((putUvarint H.length).length +
      (encDeltas 0 0 H).length)) (z.Z data).length =
      pre.length + offAt G c + ((putUvarint H.length).length + (encDeltas 0 0 H).length) +
        (z.Z data).length := add64_small (by omega)
  unfold Reader.loadDvChunk
  simp only [hr, hr2, hb, ok_bind, hnot, if_false, e1, hw, hu, e2, hn', hh, e3, e4, e5, e6, hrd,
    pure_eq]

end Layout

/-! ### `sort.Search` and `getDocValueLocs` -/

/-- the binary search only looks at `f` between its bounds -/
theorem searchAux_congr (f f' : Nat → Bool) : ∀ (fuel i j : Nat),
    (∀ m, i ≤ m → m < j → f m = f' m) → searchAux f fuel i j = searchAux f' fuel i j := by
  intro fuel
  induction fuel with
  | zero => intro i j _; rfl
  | succ fuel ih =>
    intro i j h
    unfold searchAux
    by_cases hij : i < j
    · have hm : f ((i + j) / 2) = f' ((i + j) / 2) := h _ (by omega) (by omega)
      simp only [hij, if_true, hm]
      rw [ih ((i + j) / 2 + 1) j (fun m h1 h2 => h m (by omega) h2),
        ih i ((i + j) / 2) (fun m h1 h2 => h m h1 (by omega))]
    · simp [hij]

/-- on a predicate that is false below `k` and true from `k` on, the binary search returns `k`:
    it agrees with the linear search for the first index where the predicate holds -/
theorem searchAux_spec (f : Nat → Bool) (k : Nat) : ∀ (fuel i j : Nat),
    i ≤ k → k ≤ j → j - i ≤ fuel →
    (∀ m, i ≤ m → m < k → f m = false) → (∀ m, k ≤ m → m < j → f m = true) →
    searchAux f fuel i j = k := by
  intro fuel
  induction fuel with
  | zero => intro i j h1 h2 h3 _ _; simp only [searchAux]; omega
  | succ fuel ih =>
    intro i j h1 h2 h3 hlo hhi
    unfold searchAux
    by_cases hij : i < j
    · simp only [hij, if_true]
      cases hf : f ((i + j) / 2) with
      | false =>
        have hk : (i + j) / 2 < k := by
          rcases Nat.lt_or_ge ((i + j) / 2) k with h | h
          · exact h
          · have := hhi _ h (by omega); rw [hf] at this; cases this
        simp only [Bool.not_false, if_true]
        exact ih _ _ (by omega) h2 (by omega) (fun m a b => hlo m (by omega) b) hhi
      | true =>
        have hk : k ≤ (i + j) / 2 := by
          rcases Nat.lt_or_ge ((i + j) / 2) k with h | h
          · have := hlo _ (by omega) h; rw [hf] at this; cases this
          · exact h
        simp only [Bool.not_true, Bool.false_eq_true, if_false]
        exact ih _ _ h1 hk (by omega) hlo (fun m a b => hhi m a (by omega))
    · simp only [hij, if_false]; omega

theorem sortSearch_spec (n : Nat) (f : Nat → Bool) (k : Nat) (hk : k ≤ n)
    (hlo : ∀ m, m < k → f m = false) (hhi : ∀ m, k ≤ m → m < n → f m = true) :
    sortSearch n f = k :=
  searchAux_spec f k n 0 n (Nat.zero_le _) hk (by omega) (fun m _ h => hlo m h) hhi

/-- on an ascending header `sort.Search` with the closure of `getDocValueLocs` is the linear
    search for the first entry whose document number is `≥ d` -/
theorem sortSearch_eq_findIdx (H : List (Nat × Nat)) (hs : H.Pairwise (fun a b => a.1 ≤ b.1))
    (d : Nat) :
    sortSearch H.length (hdrGe H d) = H.findIdx (fun m => decide (m.1 ≥ d)) := by
  apply sortSearch_spec
  · exact List.findIdx_le_length
  · intro m hm
    have hlt : m < H.length := Nat.lt_of_lt_of_le hm List.findIdx_le_length
    have := List.not_of_lt_findIdx hm
    unfold hdrGe
    rw [List.getElem?_eq_getElem hlt]
    exact this
  · intro m h1 h2
    have hk : H.findIdx (fun m => decide (m.1 ≥ d)) < H.length := Nat.lt_of_le_of_lt h1 h2
    have hp := List.findIdx_getElem (w := hk)
    unfold hdrGe
    rw [List.getElem?_eq_getElem h2]
    rcases Nat.eq_or_lt_of_le h1 with e | hlt
    · simp only [← e]; exact hp
    · have := (List.pairwise_iff_getElem.mp hs) _ m hk h2 hlt
      simp only [decide_eq_true_eq] at hp ⊢
      omega

theorem hdrExt_append (gA gB : List (Nat × Bytes)) : ∀ off,
    hdrExt off (gA ++ gB) = hdrExt off gA ++ hdrExt (off + (dataOf gA).length) gB := by
  induction gA with
  | nil => intro off; simp [hdrExt, dataOf]
  | cons q gA ih =>
    intro off
    obtain ⟨d, v⟩ := q
    simp only [List.cons_append, hdrExt, ih, dataOf, List.flatMap_cons, List.length_append]
    rw [Nat.add_assoc]

theorem length_hdrExt (g : List (Nat × Bytes)) : ∀ off, (hdrExt off g).length = g.length := by
  induction g with
  | nil => intro _; rfl
  | cons q g ih => intro off; obtain ⟨d, v⟩ := q; simp [hdrExt, ih]

/-- every header entry carries the number of one of the documents and an offset inside the data -/
theorem mem_hdrExt (g : List (Nat × Bytes)) : ∀ off m, m ∈ hdrExt off g →
    (∃ q ∈ g, m.1 = q.1) ∧ m.2 ≤ off + (dataOf g).length := by
  induction g with
  | nil => intro off m hm; simp [hdrExt] at hm
  | cons q g ih =>
    intro off m hm
    obtain ⟨d, v⟩ := q
    simp only [hdrExt, List.mem_cons] at hm
    simp only [dataOf, List.flatMap_cons, List.length_append]
    rcases hm with h | h
    · subst h
      exact ⟨⟨(d, v), by simp, rfl⟩, by simp⟩
    · obtain ⟨⟨q, hq, e⟩, hle⟩ := ih _ m h
      refine ⟨⟨q, by simp [hq], e⟩, ?_⟩
      simp only [dataOf] at hle
      omega

/-- the end offset recorded by the last header entry is the length of the data -/
theorem hdrExt_last (g : List (Nat × Bytes)) : ∀ off, g ≠ [] →
    ∃ m, (hdrExt off g)[g.length - 1]? = some m ∧ m.2 = off + (dataOf g).length := by
  induction g with
  | nil => intro _ h; exact absurd rfl h
  | cons q g ih =>
    intro off _
    obtain ⟨d, v⟩ := q
    cases g with
    | nil => exact ⟨(d, off + v.length), by simp [hdrExt], by simp [dataOf]⟩
    | cons q' g' =>
      obtain ⟨m, hm, he⟩ := ih (off + v.length) (by simp)
      refine ⟨m, ?_, ?_⟩
      · simp only [List.length_cons, Nat.add_sub_cancel] at hm ⊢
        simp only [hdrExt, List.getElem?_cons_succ] at hm ⊢
        exact hm
      · rw [he]; simp [dataOf, Nat.add_assoc]

/-- the search predicate on a header split at the searched document number -/
theorem search_split (HA HB : List (Nat × Nat)) (d : Nat) (hA : ∀ m ∈ HA, m.1 < d)
    (hB : ∀ m ∈ HB, d ≤ m.1) :
    sortSearch (HA ++ HB).length (hdrGe (HA ++ HB) d) = HA.length := by
  apply sortSearch_spec
  · simp
  · intro m hm
    unfold hdrGe
    rw [List.getElem?_append_left hm, List.getElem?_eq_getElem hm]
    have := hA _ (List.getElem_mem hm)
    simp; omega
  · intro m h1 h2
    simp only [List.length_append] at h2
    have h3 : m - HA.length < HB.length := by omega
    unfold hdrGe
    rw [List.getElem?_append_right h1, List.getElem?_eq_getElem h3]
    have := hB _ (List.getElem_mem h3)
    simp; omega

/-- the document is in the chunk: its byte range -/
theorem getDocValueLocs_found (gA gB : List (Nat × Bytes)) (d : Nat) (b : Bytes)
    (hA : ∀ q ∈ gA, q.1 < d) (hB : ∀ q ∈ gB, d < q.1) :
    getDocValueLocs (hdrExt 0 (gA ++ (d, b) :: gB)) d =
      .ok ((dataOf gA).length, (dataOf gA).length + b.length) := by
  have hsplit := hdrExt_append gA ((d, b) :: gB) 0
  simp only [Nat.zero_add, hdrExt] at hsplit
  have hA' : ∀ m ∈ hdrExt 0 gA, m.1 < d := by
    intro m hm
    obtain ⟨⟨q, hq, e⟩, _⟩ := mem_hdrExt gA 0 m hm
    rw [e]; exact hA q hq
  have hB' : ∀ m ∈ ((d, (dataOf gA).length + b.length) ::
      hdrExt ((dataOf gA).length + b.length) gB), d ≤ m.1 := by
    intro m hm
    rcases List.mem_cons.mp hm with h | h
    · subst h; exact Nat.le_refl _
    · obtain ⟨⟨q, hq, e⟩, _⟩ := mem_hdrExt gB _ m h
      rw [e]; exact Nat.le_of_lt (hB q hq)
  have hs := search_split _ _ d hA' hB'
  have hlA := length_hdrExt gA 0
  simp only [getDocValueLocs, hsplit, hs, hlA]
  have hget : (hdrExt 0 gA ++ (d, (dataOf gA).length + b.length) ::
      hdrExt ((dataOf gA).length + b.length) gB)[gA.length]? =
      some (d, (dataOf gA).length + b.length) := by
    rw [List.getElem?_append_right (by omega), hlA]; simp
  simp only [hget, if_true]
  unfold readDocValueBoundary
  simp only [hget]
  by_cases h0 : gA = []
  · subst h0; simp [dataOf]
  · have hpos : gA.length > 0 := List.length_pos_iff.mpr h0
    obtain ⟨m, hm, he⟩ := hdrExt_last gA 0 h0
    have hget' : (hdrExt 0 gA ++ (d, (dataOf gA).length + b.length) ::
        hdrExt ((dataOf gA).length + b.length) gB)[gA.length - 1]? = some m := by
      rw [List.getElem?_append_left (by omega)]; exact hm
    simp only [hpos, if_true, hget', he, Nat.zero_add]

/-- the document is not in the chunk -/
theorem getDocValueLocs_notfound (gA gB : List (Nat × Bytes)) (d : Nat)
    (hA : ∀ q ∈ gA, q.1 < d) (hB : ∀ q ∈ gB, d < q.1) :
    getDocValueLocs (hdrExt 0 (gA ++ gB)) d = .ok (maxUint64, maxUint64) := by
  have hsplit := hdrExt_append gA gB 0
  simp only [Nat.zero_add] at hsplit
  have hA' : ∀ m ∈ hdrExt 0 gA, m.1 < d := by
    intro m hm
    obtain ⟨⟨q, hq, e⟩, _⟩ := mem_hdrExt gA 0 m hm
    rw [e]; exact hA q hq
  have hB' : ∀ m ∈ hdrExt (dataOf gA).length gB, d < m.1 := by
    intro m hm
    obtain ⟨⟨q, hq, e⟩, _⟩ := mem_hdrExt gB _ m hm
    rw [e]; exact hB q hq
  have hs := search_split _ _ d hA' (fun m hm => Nat.le_of_lt (hB' m hm))
  have hlA := length_hdrExt gA 0
  simp only [getDocValueLocs, hsplit, hs, hlA]
  rw [List.getElem?_append_right (by omega), hlA, Nat.sub_self]
  cases hB0 : hdrExt (dataOf gA).length gB with
  | nil => simp
  | cons m rest =>
    have := hB' m (by rw [hB0]; simp)
    have hne : m.1 ≠ d := by omega
    simp [hne]

/-- an ascending chunk splits around any document number -/
theorem split_ascending (g : List (Nat × Bytes)) (hasc : g.Pairwise (fun a b => a.1 < b.1))
    (d : Nat) :
    (∃ gA b gB, g = gA ++ (d, b) :: gB ∧ (∀ q ∈ gA, q.1 < d) ∧ (∀ q ∈ gB, d < q.1) ∧
        lookup g d = some b) ∨
    (∃ gA gB, g = gA ++ gB ∧ (∀ q ∈ gA, q.1 < d) ∧ (∀ q ∈ gB, d < q.1) ∧ lookup g d = none) := by
  induction g with
  | nil => exact .inr ⟨[], [], rfl, by simp, by simp, rfl⟩
  | cons q g ih =>
    obtain ⟨k, v⟩ := q
    rw [List.pairwise_cons] at hasc
    rcases Nat.lt_trichotomy k d with hk | hk | hk
    · have hne : (k == d) = false := by simp; omega
      rcases ih hasc.2 with ⟨gA, b, gB, e, h1, h2, h3⟩ | ⟨gA, gB, e, h1, h2, h3⟩
      · refine .inl ⟨(k, v) :: gA, b, gB, by simp [e], ?_, h2, ?_⟩
        · intro q hq
          rcases List.mem_cons.mp hq with h | h
          · subst h; exact hk
          · exact h1 q h
        · simpa [lookup, List.find?_cons, hne] using h3
      · refine .inr ⟨(k, v) :: gA, gB, by simp [e], ?_, h2, ?_⟩
        · intro q hq
          rcases List.mem_cons.mp hq with h | h
          · subst h; exact hk
          · exact h1 q h
        · simpa [lookup, List.find?_cons, hne] using h3
    · subst hk
      exact .inl ⟨[], v, g, rfl, by simp, fun q hq => hasc.1 q hq, by simp [lookup]⟩
    · refine .inr ⟨[], (k, v) :: g, rfl, by simp, ?_, ?_⟩
      · intro q hq
        rcases List.mem_cons.mp hq with h | h
        · subst h; exact hk
        · have := hasc.1 q h; simp only at this; omega
      · have hne : (k == d) = false := by simp; omega
        simp only [lookup, List.find?_cons, hne, Option.map_eq_none_iff]
        rw [List.find?_eq_none]
        intro q hq
        have := hasc.1 q hq
        simp only at this
        simp; omega

/-! ### visiting a document: the cache invariant -/

/-- the input contract for one field (at the level of the byte strings handed to `Add`) -/
structure ValidVals (cs maxDocNum : Nat) (vals : List (Nat × Bytes)) : Prop where
  cs_pos : 0 < cs
  asc : vals.Pairwise (fun a b => a.1 < b.1)
  max : ∀ q ∈ vals, q.1 ≤ maxDocNum
  maxDoc : maxDocNum < 2 ^ 63 - 1
  raw : (dataOf vals).length < 2 ^ 64 - 1

/-- what the column holds for `d`, as bytes -/
def bytesOf (vals : List (Nat × Bytes)) (d : Nat) : Bytes := (lookup vals d).getD []

theorem dataOf_append (gA gB : List (Nat × Bytes)) : dataOf (gA ++ gB) = dataOf gA ++ dataOf gB := by
  simp [dataOf]

theorem dataOf_cons (d : Nat) (b : Bytes) (g : List (Nat × Bytes)) :
    dataOf ((d, b) :: g) = b ++ dataOf g := by
  simp [dataOf]

theorem length_dataOf_chunkVals_le (cs : Nat) (vals : List (Nat × Bytes)) (c : Nat) :
    (dataOf (chunkVals cs vals c)).length ≤ (dataOf vals).length := by
  induction vals with
  | nil => simp [chunkVals, dataOf]
  | cons q vals ih =>
    obtain ⟨d, v⟩ := q
    unfold chunkVals at ih ⊢
    rw [List.filter_cons]
    split
    · simp only [dataOf_cons, List.length_append]; omega
    · simp only [dataOf_cons, List.length_append]; omega

theorem lookup_chunkVals (cs : Nat) (vals : List (Nat × Bytes)) (d : Nat) :
    lookup (chunkVals cs vals (d / cs)) d = lookup vals d := by
  induction vals with
  | nil => rfl
  | cons q vals ih =>
    obtain ⟨k, v⟩ := q
    unfold chunkVals lookup at ih ⊢
    rw [List.filter_cons]
    by_cases hk : k = d
    · subst hk; simp
    · have hne : (k == d) = false := by simp [hk]
      split
      · simp only [List.find?_cons, hne]; exact ih
      · simp only [List.find?_cons, hne]; exact ih

theorem slice_mid (A b B : Bytes) :
    ((A ++ b ++ B).drop A.length).take (A.length + b.length - A.length) = b := by
  rw [List.append_assoc, List.drop_left, Nat.add_sub_cancel_left, List.take_left]

/-- chunk `c` is loaded: the header is the one written, and if the chunk holds documents the
    compressed data is cached and the decompressed copy is either absent or the chunk's data -/
def Loaded (z : Codec) (cs : Nat) (vals : List (Nat × Bytes)) (r : Reader) (c : Nat) : Prop :=
  r.curChunkHeader = hdrExt 0 (chunkVals cs vals c) ∧
  (chunkVals cs vals c ≠ [] →
    r.curChunkData = some (z.Z (dataOf (chunkVals cs vals c))) ∧
    (r.uncompressed = [] ∨ r.uncompressed = dataOf (chunkVals cs vals c)))

/-- `visitDocValues` on a loaded chunk delivers the document's bytes cut at the separators and
    keeps the chunk loaded -/
theorem visitDocValues_spec (z : Codec) {cs maxDocNum : Nat} {vals : List (Nat × Bytes)}
    (hv : ValidVals cs maxDocNum vals) (r : Reader) (d : Nat)
    (hl : Loaded z cs vals r (d / cs)) :
    ∃ r', r.visitDocValues z d = .ok (splitSep (bytesOf vals d) [], r') ∧
      Loaded z cs vals r' (d / cs) ∧ r'.chunkOffsets = r.chunkOffsets ∧
      r'.dvDataLoc = r.dvDataLoc ∧ r'.curChunkNum = r.curChunkNum := by
  obtain ⟨hh, hd⟩ := hl
  have hgasc : (chunkVals cs vals (d / cs)).Pairwise (fun a b => a.1 < b.1) := hv.asc.filter _
  have hlk := lookup_chunkVals cs vals d
  have hsz := length_dataOf_chunkVals_le cs vals (d / cs)
  have hraw := hv.raw
  rcases split_ascending _ hgasc d with ⟨gA, b, gB, e, h1, h2, h3⟩ | ⟨gA, gB, e, h1, h2, h3⟩
  · -- the document is in the chunk
    have hb : bytesOf vals d = b := by unfold bytesOf; rw [← hlk, h3]; rfl
    have hlocs := getDocValueLocs_found gA gB d b h1 h2
    rw [← e] at hlocs
    have hdata : dataOf (chunkVals cs vals (d / cs)) = dataOf gA ++ b ++ dataOf gB := by
      rw [e, dataOf_append, dataOf_cons, List.append_assoc]
    have hdl := congrArg List.length hdata
    simp only [List.length_append] at hdl
    have hm1 : ¬ (dataOf gA).length = maxUint64 := by unfold maxUint64; omega
    have hm2 : ¬ (dataOf gA).length + b.length = maxUint64 := by unfold maxUint64; omega
    unfold Reader.visitDocValues
    rw [hh, hlocs, ok_bind]
    by_cases hb0 : b = []
    · subst hb0
      refine ⟨r, ?_, ⟨hh, hd⟩, rfl, rfl, rfl⟩
      simp [hb, splitSep]
    · have hblen : 0 < b.length := List.length_pos_iff.mpr hb0
      have hm3 : ¬ (dataOf gA).length = (dataOf gA).length + b.length := by omega
      have hne : chunkVals cs vals (d / cs) ≠ [] := by rw [e]; simp
      obtain ⟨hcd, hunc⟩ := hd hne
      simp only [hm1, hm2, hm3, or_self, if_false]
      have hslice := slice_mid (dataOf gA) b (dataOf gB)
      rw [← hdata] at hslice
      rcases hunc with hu | hu
      · -- decompress now
        refine ⟨{ r with uncompressed := dataOf (chunkVals cs vals (d / cs)) }, ?_,
          ⟨hh, fun _ => ⟨hcd, .inr rfl⟩⟩, rfl, rfl, rfl⟩
        have hrng : (dataOf gA).length ≤ (dataOf gA).length + b.length ∧
            (dataOf gA).length + b.length ≤ (dataOf (chunkVals cs vals (d / cs))).length := by omega
        have hslice' := hslice
        rw [Nat.add_sub_cancel_left] at hslice'
        simp [hu, hcd, z.rt, hrng, hslice', hb, hh]
      · -- the decompressed copy is there
        refine ⟨r, ?_, ⟨hh, hd⟩, rfl, rfl, rfl⟩
        have hpos : r.uncompressed.length > 0 := by rw [hu]; omega
        have hrng : (dataOf gA).length ≤ (dataOf gA).length + b.length ∧
            (dataOf gA).length + b.length ≤ r.uncompressed.length := by rw [hu]; omega
        simp only [hpos, if_true, pure_eq, ok_bind, hrng, and_self]
        rw [hu, hslice, hb]
  · -- no entry for the document
    have hb : bytesOf vals d = [] := by unfold bytesOf; rw [← hlk, h3]; rfl
    have hlocs := getDocValueLocs_notfound gA gB d h1 h2
    rw [← e] at hlocs
    refine ⟨r, ?_, ⟨hh, hd⟩, rfl, rfl, rfl⟩
    unfold Reader.visitDocValues
    rw [hh, hlocs, ok_bind]
    simp [hb, splitSep]

theorem chunksOf_getElem? (z : Codec) (cs n : Nat) (vals : List (Nat × Bytes)) (c : Nat)
    (hc : c < n) : (chunksOf z cs n vals)[c]? = some (chunkBytes z cs vals c) := by
  simp [chunksOf, List.getElem?_map, List.getElem?_range hc]

/-- the reader between two visits -/
def Inv (z : Codec) (cs maxDocNum : Nat) (vals : List (Nat × Bytes)) (pre : Bytes) (r : Reader) :
    Prop :=
  r.chunkOffsets = offsOf (chunksOf z cs (maxDocNum / cs + 1) vals) ∧
  r.dvDataLoc = pre.length ∧
  (r.curChunkNum < maxDocNum / cs + 1 → Loaded z cs vals r r.curChunkNum)

/-- one `VisitDocumentValues` call in any state satisfying the invariant -/
theorem visit_spec (z : Codec) {cs maxDocNum : Nat} {vals : List (Nat × Bytes)}
    (hv : ValidVals cs maxDocNum vals) {file : Data} {pre suf : Bytes}
    (L : Layout file pre (chunksOf z cs (maxDocNum / cs + 1) vals) suf)
    (r : Reader) (hr : Inv z cs maxDocNum vals pre r) (d : Nat) (hd : d ≤ maxDocNum) :
    ∃ r', r.visit z file cs d = .ok (splitSep (bytesOf vals d) [], r') ∧
      Inv z cs maxDocNum vals pre r' := by
  obtain ⟨ho, hloc, hcache⟩ := hr
  have hcs : cs ≠ 0 := by have := hv.cs_pos; omega
  have hc : d / cs < maxDocNum / cs + 1 := Nat.lt_succ_of_le (Nat.div_le_div_right hd)
  -- after the reload test the chunk of `d` is loaded
  have hload : ∃ r1, (if (d / cs != r.curChunkNum) = true then r.loadDvChunk file (d / cs)
        else .ok r) = .ok r1 ∧
      Loaded z cs vals r1 (d / cs) ∧ r1.chunkOffsets = r.chunkOffsets ∧
      r1.dvDataLoc = r.dvDataLoc ∧ r1.curChunkNum = d / cs := by
    by_cases hsame : d / cs = r.curChunkNum
    · refine ⟨r, by simp [hsame], ?_, rfl, rfl, hsame.symm⟩
      rw [hsame]; exact hcache (by rw [← hsame]; exact hc)
    · have hne : (d / cs != r.curChunkNum) = true := by simp [hsame]
      have hG := chunksOf_getElem? z cs _ vals (d / cs) hc
      by_cases hfl : d / cs = 0 ∨ chunkVals cs vals (d / cs) ≠ []
      · have hcb : chunkBytes z cs vals (d / cs) =
            encChunk z (hdrExt 0 (chunkVals cs vals (d / cs)))
              (dataOf (chunkVals cs vals (d / cs))) := by
          unfold chunkBytes; rw [if_pos hfl]
        rw [hcb] at hG
        have hH : ∀ m ∈ hdrExt 0 (chunkVals cs vals (d / cs)), m.1 < 2 ^ 64 ∧ m.2 < 2 ^ 64 := by
          intro m hm
          obtain ⟨⟨q, hq, e⟩, hle⟩ := mem_hdrExt _ 0 m hm
          have hq' : q ∈ vals := (List.mem_filter.mp hq).1
          have := hv.max q hq'
          have := hv.maxDoc
          have := hv.raw
          have := length_dataOf_chunkVals_le cs vals (d / cs)
          exact ⟨by omega, by omega⟩
        refine ⟨{ r with curChunkHeader := hdrExt 0 (chunkVals cs vals (d / cs)),
                         curChunkData := some (z.Z (dataOf (chunkVals cs vals (d / cs)))),
                         curChunkNum := d / cs, uncompressed := [] },
          by rw [if_pos hne]; exact L.loadDvChunk_enc r ho hloc _ z _ _ hG hH,
          ⟨rfl, fun _ => ⟨rfl, .inl rfl⟩⟩, rfl, rfl, rfl⟩
      · have hcb : chunkBytes z cs vals (d / cs) = [] := by
          unfold chunkBytes; rw [if_neg hfl]
        rw [hcb] at hG
        have hnil : chunkVals cs vals (d / cs) = [] := by
          apply Classical.byContradiction
          intro h; exact hfl (.inr h)
        refine ⟨{ r with curChunkHeader := [], curChunkData := none, curChunkNum := d / cs,
                         uncompressed := [] },
          by rw [if_pos hne]; exact L.loadDvChunk_empty r ho _ hG,
          ⟨by simp [hnil, hdrExt], fun h => absurd hnil h⟩, rfl, rfl, rfl⟩
  obtain ⟨r1, hr1, hl1, ho1, hloc1, hcn1⟩ := hload
  obtain ⟨r', hvis, hl', ho', hloc', hcn'⟩ := visitDocValues_spec z hv r1 d hl1
  refine ⟨r', ?_, ?_⟩
  · unfold Reader.visit
    simp only [hcs, if_false, hr1, ok_bind, hvis]
  · refine ⟨by rw [ho', ho1, ho], by rw [hloc', hloc1, hloc], fun _ => ?_⟩
    rw [hcn', hcn1]; exact hl'

/-- any sequence of visits, in any order, with repetitions -/
theorem visitAll_spec (z : Codec) {cs maxDocNum : Nat} {vals : List (Nat × Bytes)}
    (hv : ValidVals cs maxDocNum vals) {file : Data} {pre suf : Bytes}
    (L : Layout file pre (chunksOf z cs (maxDocNum / cs + 1) vals) suf) (ds : List Nat) :
    ∀ (r : Reader), Inv z cs maxDocNum vals pre r → (∀ d ∈ ds, d ≤ maxDocNum) →
    ∃ r', Reader.visitAll z file cs r ds =
        .ok (ds.map (fun d => splitSep (bytesOf vals d) []), r') ∧
      Inv z cs maxDocNum vals pre r' := by
  induction ds with
  | nil => intro r hr _; exact ⟨r, rfl, hr⟩
  | cons d ds ih =>
    intro r hr hds
    obtain ⟨r1, h1, hi1⟩ := visit_spec z hv L r hr d (hds d (by simp))
    obtain ⟨r2, h2, hi2⟩ := ih r1 hi1 (fun x hx => hds x (by simp [hx]))
    exact ⟨r2, by simp only [Reader.visitAll, h1, ok_bind, h2, pure_eq, List.map_cons], hi2⟩

/-- the freshly loaded reader and every clone satisfy the invariant -/
theorem inv_fresh (z : Codec) (cs maxDocNum : Nat) (vals : List (Nat × Bytes)) (pre : Bytes)
    (hmax : maxDocNum < 2 ^ 63 - 1) (r : Reader)
    (ho : r.chunkOffsets = offsOf (chunksOf z cs (maxDocNum / cs + 1) vals))
    (hloc : r.dvDataLoc = pre.length) (hc : r.curChunkNum = maxInt64) :
    Inv z cs maxDocNum vals pre r := by
  refine ⟨ho, hloc, fun h => ?_⟩
  have : maxDocNum / cs ≤ maxDocNum := Nat.div_le_self _ _
  rw [hc] at h; unfold maxInt64 at h; omega

theorem inv_clone (z : Codec) (cs maxDocNum : Nat) (vals : List (Nat × Bytes)) (pre : Bytes)
    (hmax : maxDocNum < 2 ^ 63 - 1) (r : Reader) (hr : Inv z cs maxDocNum vals pre r) :
    Inv z cs maxDocNum vals pre r.clone :=
  inv_fresh z cs maxDocNum vals pre hmax r.clone hr.1 hr.2.1 rfl

/-! ### the two layouts and the reader opened on them -/

theorem bind_eq_ok {α β : Type} {x : Res α} {f : α → Res β} {b : β} (h : (x >>= f) = .ok b) :
    ∃ a, x = .ok a ∧ f a = .ok b := by
  cases x with
  | ok a => exact ⟨a, rfl, h⟩
  | err => simp at h
  | panic => simp at h

/-- the builder (new.go): non-progressive coder, documents with an empty byte string skipped,
    start offset taken after `Close` -/
theorem buildField_eq (z : Codec) (cs maxDocNum count : Nat) (hcs : 0 < cs)
    (hn : maxDocNum / cs + 1 < 2 ^ 64) (bvals : List (Nat × Bytes))
    (hasc : bvals.Pairwise (fun a b => a.1 < b.1)) (hmax : ∀ q ∈ bvals, q.1 ≤ maxDocNum) :
    buildField z cs maxDocNum count bvals =
      .ok (sectionOf (chunksOf z cs (maxDocNum / cs + 1) (bvals.filter (fun p => p.2.length > 0))),
           count,
           count + (sectionOf (chunksOf z cs (maxDocNum / cs + 1)
             (bvals.filter (fun p => p.2.length > 0)))).length) := by
  obtain ⟨k, mb, mt, buf, h⟩ := coder_run z false cs maxDocNum hcs hn
    (bvals.filter (fun p => p.2.length > 0)) (hasc.filter _)
    (fun q hq => hmax q (List.mem_filter.mp hq).1)
  obtain ⟨c1, h1, h⟩ := bind_eq_ok h
  obtain ⟨c2, h2, h3⟩ := bind_eq_ok h
  simp only [buildField, h1, ok_bind, h2, h3, write_st, out_st_nonprogressive, List.length_nil,
    Nat.add_zero, pure_eq]

/-- the merger (merge.go): progressive coder, start offset taken before the first chunk -/
theorem mergeField_eq (z : Codec) (cs maxDocNum count : Nat) (hcs : 0 < cs)
    (hn : maxDocNum / cs + 1 < 2 ^ 64) (bvals : List (Nat × Bytes))
    (hasc : bvals.Pairwise (fun a b => a.1 < b.1)) (hmax : ∀ q ∈ bvals, q.1 ≤ maxDocNum) :
    mergeField z cs maxDocNum count bvals =
      .ok (sectionOf (chunksOf z cs (maxDocNum / cs + 1) bvals), count,
           count + (sectionOf (chunksOf z cs (maxDocNum / cs + 1) bvals)).length) := by
  obtain ⟨k, mb, mt, buf, h⟩ := coder_run z true cs maxDocNum hcs hn bvals hasc hmax
  obtain ⟨c1, h1, h⟩ := bind_eq_ok h
  obtain ⟨c2, h2, h3⟩ := bind_eq_ok h
  simp only [mergeField, h1, ok_bind, h2, h3, write_st, pure_eq]

theorem chunksOf_length (z : Codec) (cs n : Nat) (vals : List (Nat × Bytes)) :
    (chunksOf z cs n vals).length = n := by simp [chunksOf]

/-- opening the reader on the section: it loads, has one end offset per chunk, and satisfies the
    cache invariant -/
theorem reader_opens (z : Codec) {cs maxDocNum : Nat} {vals : List (Nat × Bytes)}
    (hv : ValidVals cs maxDocNum vals) (file : Data) (pre suf : Bytes)
    (hbytes : file.bytes = pre ++ sectionOf (chunksOf z cs (maxDocNum / cs + 1) vals) ++ suf)
    (hsuf : 10 ≤ suf.length) (hlen : file.bytes.length < 2 ^ 63) :
    Layout file pre (chunksOf z cs (maxDocNum / cs + 1) vals) suf ∧
    ∃ r0, loadFieldDocValueReader file pre.length
        (pre.length + (sectionOf (chunksOf z cs (maxDocNum / cs + 1) vals)).length) =
          .ok (some r0) ∧
      r0.chunkOffsets.length = maxDocNum / cs + 1 ∧ r0.curChunkNum = maxInt64 ∧
      Inv z cs maxDocNum vals pre r0 := by
  have hne : chunksOf z cs (maxDocNum / cs + 1) vals ≠ [] := by
    intro h
    have := chunksOf_length z cs (maxDocNum / cs + 1) vals
    rw [h] at this; simp at this
  have L : Layout file pre (chunksOf z cs (maxDocNum / cs + 1) vals) suf := ⟨hbytes, hsuf, hlen, hne⟩
  have hmd := hv.maxDoc
  have hdiv : maxDocNum / cs ≤ maxDocNum := Nat.div_le_self _ _
  have hn : (chunksOf z cs (maxDocNum / cs + 1) vals).length < 2 ^ 63 := by
    rw [chunksOf_length]; omega
  refine ⟨L, _, L.load hn, ?_, rfl, ?_⟩
  · simp [offsOf, endOffsets_length, chunksOf_length]
  · exact inv_fresh z cs maxDocNum vals pre hmd _ rfl rfl rfl

/-! ### from byte strings to terms -/

theorem lookup_encVals (vals : List (Nat × List Bytes)) (d : Nat) :
    lookup (encVals vals) d = (lookup vals d).map docBytes := by
  induction vals with
  | nil => rfl
  | cons q vals ih =>
    obtain ⟨k, ts⟩ := q
    unfold lookup encVals at ih ⊢
    simp only [List.map_cons, List.find?_cons]
    cases hk : (k == d) with
    | true => simp
    | false => simpa using ih

/-- what the reader's split delivers for the encoded column is the document's terms -/
theorem splitSep_bytesOf_encVals (vals : List (Nat × List Bytes)) (hsep : ∀ q ∈ vals, NoSep q.2)
    (d : Nat) : splitSep (bytesOf (encVals vals) d) [] = termsOf vals d := by
  unfold bytesOf termsOf
  rw [lookup_encVals]
  cases h : lookup vals d with
  | none => simp [splitSep]
  | some ts =>
    have hmem : ∃ q ∈ vals, q.2 = ts := by
      unfold lookup at h
      cases hf : vals.find? (fun p => p.1 == d) with
      | none => rw [hf] at h; cases h
      | some q =>
        rw [hf] at h
        exact ⟨q, List.mem_of_find?_eq_some hf, by simpa using h⟩
    obtain ⟨q, hq, e⟩ := hmem
    simp only [Option.map_some, Option.getD_some]
    exact splitSep_docBytes ts (e ▸ hsep q hq)

/-- skipping the documents with an empty byte string (new.go:746) changes nothing -/
theorem bytesOf_filter_nonempty (bvals : List (Nat × Bytes))
    (hasc : bvals.Pairwise (fun a b => a.1 < b.1)) (d : Nat) :
    bytesOf (bvals.filter (fun p => p.2.length > 0)) d = bytesOf bvals d := by
  induction bvals with
  | nil => rfl
  | cons q bvals ih =>
    obtain ⟨k, v⟩ := q
    rw [List.pairwise_cons] at hasc
    have ih' := ih hasc.2
    unfold bytesOf lookup at ih' ⊢
    rw [List.filter_cons]
    by_cases hk : k = d
    · subst hk
      by_cases hv : v.length > 0
      · simp [hv]
      · have hv0 : v = [] := by
          cases v with
          | nil => rfl
          | cons a v => simp at hv
        have hnone : (bvals.filter (fun p => p.2.length > 0)).find? (fun p => p.1 == k) = none := by
          rw [List.find?_eq_none]
          intro q hq
          have := hasc.1 q (List.mem_filter.mp hq).1
          simp only at this
          simp; omega
        simp [hnone, hv0]
    · have hne : (k == d) = false := by simp [hk]
      split
      · simp only [List.find?_cons, hne]; exact ih'
      · simp only [List.find?_cons, hne]; exact ih'

theorem dataOf_filter_length_le (bvals : List (Nat × Bytes)) (p : Nat × Bytes → Bool) :
    (dataOf (bvals.filter p)).length ≤ (dataOf bvals).length := by
  induction bvals with
  | nil => simp
  | cons q bvals ih =>
    obtain ⟨k, v⟩ := q
    rw [List.filter_cons]
    split
    · simp only [dataOf_cons, List.length_append]; omega
    · simp only [dataOf_cons, List.length_append]; omega

theorem ValidVals.filter {cs maxDocNum : Nat} {bvals : List (Nat × Bytes)}
    (hv : ValidVals cs maxDocNum bvals) (p : Nat × Bytes → Bool) :
    ValidVals cs maxDocNum (bvals.filter p) :=
  ⟨hv.cs_pos, hv.asc.filter _, fun q hq => hv.max q (List.mem_filter.mp hq).1, hv.maxDoc,
   Nat.lt_of_le_of_lt (dataOf_filter_length_le bvals p) hv.raw⟩

end Ice.Model.DocValues
