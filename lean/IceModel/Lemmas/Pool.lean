import IceModel.Lemmas.Pool.Reuse
import IceModel.Lemmas.Pool.Fresh
/-
  The pool over time (C14): after ANY history of earlier calls of `New` - other batches, other norm
  functions, other map orders, inside or outside the input contract, successful or not - the pool is
  empty or holds a clean object (`pool_after_ok`); hence the next call returns what a fresh builder
  returns.  The same for builders running concurrently on objects they own exclusively.
-/
namespace Ice.Model.Pool
open Ice Ice.Spec Ice.Model.Builder

/-! ### one goroutine -/

/-- the pool invariant -/
def PoolOK (p : Pool) : Prop := ∀ o, p = some o → Clean o

theorem get_clean {p : Pool} (h : PoolOK p) : Clean p.get := by
  cases p with
  | none => exact clean_fresh
  | some o => exact h o rfl

theorem newWith_fst (p : Pool) (nc : Bytes → Nat → Nat) (π : Order) (b : Batch) (ret : Bool) :
    (newWith p nc π b ret).1 = (buildFrom p.get nc π b).map (·.1) := by
  unfold newWith
  cases buildFrom p.get nc π b with
  | error e => rfl
  | ok x => rfl

/-- one call of `New`, whatever its arguments and its fate, leaves the pool empty or clean -/
theorem newWith_ok {p : Pool} (h : PoolOK p) (nc : Bytes → Nat → Nat) (π : Order) (b : Batch)
    (ret : Bool) : PoolOK (newWith p nc π b ret).2 := by
  intro o ho
  unfold newWith at ho
  split at ho
  · cases ho
  · next r o' e =>
    cases ret with
    | false => cases ho
    | true =>
      simp only [if_true, Option.some.injEq] at ho
      rw [← ho]
      exact clean_recycle nc b (reset_clean (get_clean h) e)

theorem foldl_step_ok (hist : List Attempt) : ∀ p, PoolOK p → PoolOK (hist.foldl Pool.step p) := by
  induction hist with
  | nil => intro p h; exact h
  | cons a r ih => intro p h; exact ih _ (newWith_ok h a.nc a.π a.b a.returned)

theorem pool_after_ok (hist : List Attempt) : PoolOK (Pool.after hist) :=
  foldl_step_ok hist none (fun _ h => by cases h)

/-- the call after any history returns what a fresh builder returns -/
theorem history_invisible (hist : List Attempt) (nc : Bytes → Nat → Nat) (π : Order) (b : Batch)
    (hv : ValidBatch b) (hπ : PermOK π) (ret : Bool) :
    (newWith (Pool.after hist) nc π b ret).1 = run nc π b := by
  rw [newWith_fst]
  exact reuse_invisible (get_clean (pool_after_ok hist)) nc π b hv hπ

/-! ### several goroutines -/

/-- every pooled and every held object is clean; every result recorded for a call inside the
    contract is the result of a fresh builder on that call's batch alone -/
structure SysOK (jobs : Nat → Job) (σ : Sys) : Prop where
  pool : ∀ o ∈ σ.pool, Clean o
  held : ∀ x ∈ σ.held, Clean x.2
  results : ∀ x ∈ σ.results, ValidBatch (jobs x.1).b → PermOK (jobs x.1).π →
    x.2 = run (jobs x.1).nc (jobs x.1).π (jobs x.1).b

theorem sysOK_init (jobs : Nat → Job) : SysOK jobs {} :=
  ⟨fun _ h => (by cases h), fun _ h => (by cases h), fun _ h => (by cases h)⟩

theorem sysOK_get {jobs : Nat → Job} {σ : Sys} (h : SysOK jobs σ) (i k : Nat) :
    SysOK jobs (σ.step jobs (.get i k)) := by
  simp only [Sys.step]
  cases hk : σ.pool[k]? with
  | some o =>
    refine ⟨fun o' ho' => h.pool o' (List.mem_of_mem_eraseIdx ho'), ?_, h.results⟩
    intro x hx
    rcases List.mem_cons.1 hx with e | hx
    · rw [e]; exact h.pool o (List.mem_of_getElem? hk)
    · exact h.held x hx
  | none =>
    refine ⟨h.pool, ?_, h.results⟩
    intro x hx
    rcases List.mem_cons.1 hx with e | hx
    · rw [e]; exact clean_fresh
    · exact h.held x hx

theorem sysOK_done {jobs : Nat → Job} {σ : Sys} (h : SysOK jobs σ) (i : Nat) (ret : Bool) :
    SysOK jobs (σ.step jobs (.done i ret)) := by
  simp only [Sys.step]
  cases hf : σ.held.find? (fun x => x.1 == i) with
  | none => exact h
  | some jo =>
    obtain ⟨j, o⟩ := jo
    have ho : Clean o := h.held (j, o) (List.mem_of_find?_eq_some hf)
    have hheld : ∀ x ∈ σ.held.filter (fun x => x.1 != i), Clean x.2 :=
      fun x hx => h.held x (List.mem_filter.1 hx).1
    have hres : ValidBatch (jobs i).b → PermOK (jobs i).π →
        (buildFrom o (jobs i).nc (jobs i).π (jobs i).b).map (·.1) =
          run (jobs i).nc (jobs i).π (jobs i).b :=
      fun hv hπ => reuse_invisible ho _ _ _ hv hπ
    simp only
    cases he : buildFrom o (jobs i).nc (jobs i).π (jobs i).b with
    | error e =>
      refine ⟨h.pool, hheld, ?_⟩
      intro x hx hv hπ
      rcases List.mem_cons.1 hx with e' | hx
      · subst e'
        have := hres hv hπ
        rw [he] at this
        exact this
      · exact h.results x hx hv hπ
    | ok ro =>
      obtain ⟨r, o'⟩ := ro
      refine ⟨?_, hheld, ?_⟩
      · intro x hx
        cases ret with
        | false => exact h.pool x hx
        | true =>
          simp only [if_true] at hx
          rcases List.mem_cons.1 hx with e' | hx
          · rw [e']; exact clean_recycle _ _ (reset_clean ho he)
          · exact h.pool x hx
      · intro x hx hv hπ
        rcases List.mem_cons.1 hx with e' | hx
        · subst e'
          have := hres hv hπ
          rw [he] at this
          exact this
        · exact h.results x hx hv hπ

theorem sysOK_step {jobs : Nat → Job} {σ : Sys} (h : SysOK jobs σ) (ev : Ev) :
    SysOK jobs (σ.step jobs ev) := by
  cases ev with
  | get i k => exact sysOK_get h i k
  | done i ret => exact sysOK_done h i ret

theorem sysOK_run (jobs : Nat → Job) (evs : List Ev) : SysOK jobs (Sys.run jobs evs) := by
  unfold Sys.run
  suffices ∀ σ, SysOK jobs σ → SysOK jobs (evs.foldl (Sys.step jobs) σ) from this _ (sysOK_init jobs)
  induction evs with
  | nil => intro σ h; exact h
  | cons ev r ih => intro σ h; exact ih _ (sysOK_step h ev)

end Ice.Model.Pool
