import IceModel.Props.C01
import IceModel.Props.C04
import IceModel.Props.C05Bytes
/-
  END-TO-END, builder path: definitions.

    `Built.toLSeg mode r`   the laid-out segment description (`Format.LSeg`) of what `New` built
                            (`Builder.Built`): what `interim.convert` hands to the byte writers
    `Bounds nc b`           the numeric input contract (every number the format stores in a fixed
                            width fits), on the level of the INPUT batch
    `SpecBounds S`          the same on the level of the rolled-up documents of `Spec.build`
                            (`Bounds nc b → SpecBounds (build nc mode b)`, `Lemmas/E2ESpec.lean`)
    `Sizes K L`             the size hypotheses in the form `C04.Valid` has them
-/
namespace Ice.Props.E2E
open Ice Ice.Spec Ice.Model Ice.Model.Builder Ice.Model.Format

/-! ## from the built segment to the laid-out description -/

/-- a location as the location encoder receives it: the field is the field id, i.e. the index of
    the name in the field table (the inverse of `Builder.resolveILoc`; the table is duplicate-free,
    `locToB_resolve`, `postingToE_resolve` in `Lemmas/E2EValid.lean`) -/
def locToB (F : List Bytes) (l : Loc) : ChunkBytes.BLoc :=
  { fieldID := F.idxOf l.field, pos := l.pos, start := l.start, stop := l.stop }

/-- a posting as `writeDictsTermField` hands it to the two chunked int coders -/
def postingToE (F : List Bytes) (p : Posting) : ChunkBytes.Entry :=
  { doc := p.doc, freq := p.freq, norm := p.norm, locs := p.locs.map (locToB F) }

/-- the terms of a field: the builder never 1-hit encodes (`use1HitEncoding` is nil in
    `writePostings` as called from new.go:846), so every term is `general` -/
def termsOfView (F : List Bytes) (v : FieldView) : List (Bytes × TermDesc) :=
  v.entries.map fun e => (e.1, TermDesc.general (e.2.map (postingToE F)))

/-- the stored content of one document as `writeStoredFields` walks it (new.go:600-610): for the
    field ids in ascending order that have a stored value, the values in document order -/
def storedDocOf (F : List Bytes) (d : List (Bytes × Bytes)) : Stored.Doc :=
  (List.range F.length).filterMap fun i =>
    let vs := (d.filter (fun p => p.1 == F.getD i [])).map (·.2)
    if vs.isEmpty then none else some (i, vs)

/-- field `i` (name `n`) of the built segment as a field description -/
def fieldDescOf (r : Built) (n : Bytes) (i : Nat) : FieldDesc :=
  { name := n, fieldDocs := r.fieldDocs.getD i 0, fieldFreqs := r.fieldFreqs.getD i 0,
    terms := match r.dicts[i]? with
      | some v => termsOfView r.fields v
      | none => [],
    dv := match r.dicts[i]? with
      | some v => v.dv
      | none => none }

end Ice.Props.E2E

namespace Ice.Model.Builder
open Ice Ice.Model Ice.Model.Format

/-- **what `New` lays out.**  The segment description `interim.convert` serializes: `merger = false`,
    one field description per entry of `FieldsInv`, every term `general`, the doc-value column the
    builder derived from the postings (`docTermMap`), the stored values per document. -/
def Built.toLSeg (mode : Nat) (r : Built) : LSeg :=
  { merger := false, numDocs := r.stored.length, chunkMode := mode,
    fields := r.fields.zipIdx.map fun x => Ice.Props.E2E.fieldDescOf r x.1 x.2,
    stored := r.stored.map (Ice.Props.E2E.storedDocOf r.fields) }

end Ice.Model.Builder

namespace Ice.Props.E2E
open Ice Ice.Spec Ice.Model Ice.Model.Builder Ice.Model.Format

/-! ## the numeric input contract -/

/-- **Bounds on the input batch** (all decidable given the batch, except the statement about
    `nc`).  Go-level reasons:
    * `numDocs`  document numbers are `uint32` in roaring bitmaps (`uint32(docNum)`, new.go:523)
    * `norm`     `nc` returns the bit pattern of a `float32` (`math.Float32bits`, new.go:519);
                 the reader converts `uint32(normBits)` (posting.go:488)
    * `nameLen`  a field name is a Go string: its length is an `int`
    * `lengths`  `FieldFreqs[fieldID] += field.Length()` is a `uint64` counter (new.go:408); the
                 model does not wrap it
    * `freq`     per document, the sum of all term frequencies is below 2^63: the rolled-up
                 frequency (an `int` sum, new.go:493) is shifted left by one into a `uint64`
                 (`encodeFreqHasLocs`) and read back into an `int`
    * `nlocs`    per document, fewer than 2^57 locations: `numBytesLocs` (an `int`, at most 40
                 bytes per location) is written as `uint64` and converted back to `int` by the
                 reader (posting.go:506-512); the reader allocates `make([]Location, freq)`
    * `locs`     a term occurrence has at most `freq` locations (`nextLocs[0:freq]` is indexed by
                 the location count, posting.go:491-519: the analysis emits one location per
                 counted token, or none); `pos`, `start`, `end` are `int`s written as `uint64`
    * `noSep`    a term of a doc-value field does not contain the byte 0xff, which
                 `docTermMap` uses as the separator (new.go:853, docvalues.go:277) -/
structure Bounds (nc : Bytes → Nat → Nat) (b : Batch) : Prop where
  numDocs : b.length < 2 ^ 32
  norm : ∀ n l, nc n l < 2 ^ 32
  nameLen : ∀ d ∈ b, ∀ f ∈ d, f.name.length < 2 ^ 64
  lengths : (b.flatten.map (·.length)).sum < 2 ^ 64
  freq : ∀ d ∈ b, ((d.flatMap (·.terms)).map (·.freq)).sum < 2 ^ 63
  nlocs : ∀ d ∈ b, ((d.flatMap (·.terms)).map (·.locs.length)).sum < 2 ^ 57
  locs : ∀ d ∈ b, ∀ f ∈ d, ∀ o ∈ f.terms, o.locs.length ≤ o.freq ∧
    ∀ l ∈ o.locs, l.pos < 2 ^ 64 ∧ l.start < 2 ^ 64 ∧ l.stop < 2 ^ 64
  noSep : ∀ d ∈ b, ∀ f ∈ d, dvFlagOf b f.name = true → ∀ o ∈ f.terms, (255 : Nat) ∉ o.term

/-- the same bounds where they are needed: on the rolled-up documents of the specification -/
structure SpecBounds (S : AbsSeg) : Prop where
  numDocs : S.docs.length < 2 ^ 32
  nameLen : ∀ f ∈ S.fields, f.length < 2 ^ 64
  freqs : ∀ x ∈ S.fieldFreqs, x < 2 ^ 64
  field : ∀ d ∈ S.docs, ∀ af ∈ d, af.norm < 2 ^ 32 ∧
    (af.dv = true → ∀ x ∈ af.terms, (255 : Nat) ∉ x.term) ∧
    ∀ x ∈ af.terms, x.freq < 2 ^ 63 ∧ x.locs.length ≤ x.freq ∧ x.locs.length < 2 ^ 57 ∧
      ∀ l ∈ x.locs, l.pos < 2 ^ 64 ∧ l.start < 2 ^ 64 ∧ l.stop < 2 ^ 64

/-- **Sizes**: what has to fit into memory / the file, in the form `C04.Valid` has it.
    * `records`   the uncompressed stored records of all documents together are a Go slice (`int`)
    * `storedLen` so is the stored section
                  (the chunk-offset trailer's byte length and count, which are written as `uint32`,
                  follow from `storedLen` and `numDocs < 2^32`: `trailer_ok`, `Lemmas/E2EValid.lean`)
    * `dvRaw`     the uncompressed doc-value bytes of a field (`uint64` offsets)
    * `file`      the file is shorter than 2^62 bytes (`C04.Valid.size`) -/
structure Sizes (K : Codecs) (L : LSeg) : Prop where
  records : (L.stored.map Stored.record).flatten.length < 2 ^ 63
  storedLen : (Stored.writeStoredFields K.stored docBlock L.stored).bytes.length < 2 ^ 63
  dvRaw : ∀ f ∈ L.fields, ∀ vals ∈ f.dv, C07.rawSize vals < 2 ^ 64 - 1
  file : match serialize K L with
    | .ok (data, _) => data.length + 44 < 2 ^ 62
    | _ => True

end Ice.Props.E2E
