import IceModel.Lemmas.E2EMTerms
import IceModel.Lemmas.E2EMDv
/-
  END-TO-END, merger path: `mergedLSeg mode ins` lays out `Spec.merge mode ins`.
-/
namespace Ice.Props.E2EM
open Ice Ice.Spec Ice.Model Ice.Model.Format
open Ice.Model.MergeRest (DocRel Rel₂ reDoc_asc reDoc_fields_lt)
open Ice.Props.C03 (ValidDrops)
open Ice.Props.E2E

theorem fieldOf_name (mode : Nat) (ins : List MIn) (f : Bytes) : (fieldOf mode ins f).name = f := by
  unfold fieldOf
  split <;> rfl

theorem sIn_absIns (ins : List MIn) : C02Stored.absIns (ins.map (·.sIn)) = absIns ins := by
  unfold C02Stored.absIns absIns
  rw [List.map_map]; rfl

theorem mergedFields_sIn (ins : List MIn) : C02Stored.mergedFields (ins.map (·.sIn)) = mFields ins := by
  unfold C02Stored.mergedFields mFields
  rw [List.map_map]; rfl

section
variable {K : Codecs} {mode : Nat} {ins : List MIn}
  (hok : ∀ i ∈ ins, MInOK K i) (hB : MBounds mode ins)

include hok in
theorem drops_valid : ∀ i ∈ ins, ValidDrops i.abs.docs.length i.drops :=
  fun i hi => (hok i hi).stored.drops

include hok hB in
theorem mNumDocs_spec : mNumDocs ins = (merge mode (absIns ins)).1.docs.length :=
  mNumDocs_eq mode ins (drops_valid hok) hB.total

theorem mergedLSeg_fields_getElem? (i : Nat) :
    (mergedLSeg mode ins).fields[i]? =
      ((mFields ins)[i]?).map (fun f => if mNumDocs ins = 0 then emptyField f else fieldOf mode ins f) := by
  unfold mergedLSeg
  simp only
  split <;> simp [List.getElem?_map]

include hok hB in
/-- **`mergedLSeg` lays out `Spec.merge`** -/
theorem mergedLSeg_lays : Lays (merge mode (absIns ins)).1 (mergedLSeg mode ins) := by
  have hdrops := drops_valid hok
  have habs : ∀ i ∈ ins, AbsOK i.abs := fun i hi => (hok i hi).abs
  have hnd := mNumDocs_spec hok hB
  have hF := mFields_eq mode ins
  have hsok : ∀ s ∈ ins.map (·.sIn), C02Stored.InputOK K.stored docBlock s := by
    intro s hs
    obtain ⟨i, hi, rfl⟩ := List.mem_map.1 hs
    exact (hok i hi).stored
  have hlen : (C02Stored.mergedFields (ins.map (·.sIn))).length < 65535 := by
    rw [mergedFields_sIn]; exact hB.nfields
  -- the description of the field with id `i`
  have hfield : ∀ (i : Nat) (f : Bytes) (fd : FieldDesc),
      (merge mode (absIns ins)).1.fields[i]? = some f → (mergedLSeg mode ins).fields[i]? = some fd →
      fd = if mNumDocs ins = 0 then emptyField f else fieldOf mode ins f := by
    intro i f fd hf hfd
    rw [mergedLSeg_fields_getElem?, hF, hf] at hfd
    simpa using hfd.symm
  have hempty : mNumDocs ins = 0 → (merge mode (absIns ins)).1.docs = [] := by
    intro h0
    exact List.eq_nil_of_length_eq_zero (by rw [← hnd]; exact h0)
  refine
    { numDocs := hnd, mode := rfl, names := ?_, fieldDocs := ?_, fieldFreqs := ?_, terms := ?_,
      oneHit := fun _ _ _ _ _ _ _ => rfl, stored := ?_, storedAsc := ?_, storedIds := ?_,
      dv := ?_, dvNonempty := (fun h => by cases h), empty := ?_ }
  · -- names
    unfold mergedLSeg
    simp only
    rw [← hF]
    split
    · rw [List.map_map]
      conv => rhs; rw [← List.map_id (mFields ins)]
      apply List.map_congr_left; intro f _; rfl
    · rw [List.map_map]
      conv => rhs; rw [← List.map_id (mFields ins)]
      apply List.map_congr_left; intro f _; exact fieldOf_name mode ins f
  · -- fieldDocs
    show (mergedLSeg mode ins).fields.map (·.fieldDocs) =
      (merge mode (absIns ins)).1.fields.map
        (fun f => (merge mode (absIns ins)).1.docs.countP (fun d => fieldHasTerm d f))
    unfold mergedLSeg
    simp only
    rw [← hF]
    split
    · next h0 =>
      rw [List.map_map, hempty h0]
      apply List.map_congr_left; intro f _; rfl
    · next h0 =>
      rw [List.map_map]
      apply List.map_congr_left; intro f _
      exact (fieldOf_spec hdrops habs hB (by unfold numDocs; omega) f).2.1
  · -- fieldFreqs
    show (mergedLSeg mode ins).fields.map (·.fieldFreqs) =
      (merge mode (absIns ins)).1.fields.map
        (fun f => ((merge mode (absIns ins)).1.docs.map (fun d => fieldTermFreq d f)).sum)
    unfold mergedLSeg
    simp only
    rw [← hF]
    split
    · next h0 =>
      rw [List.map_map, hempty h0]
      apply List.map_congr_left; intro f _; rfl
    · next h0 =>
      rw [List.map_map]
      apply List.map_congr_left; intro f _
      exact (fieldOf_spec hdrops habs hB (by unfold numDocs; omega) f).2.2.1
  · -- terms
    intro i f fd hf hfd
    have := hfield i f fd hf hfd
    by_cases h0 : mNumDocs ins = 0
    · rw [if_pos h0] at this
      subst this
      refine ⟨?_, ?_⟩
      · unfold terms; rw [hempty h0]; rfl
      · intro j t td hj; cases hj
    · rw [if_neg h0] at this
      subst this
      obtain ⟨_, _, _, _, h5, h6⟩ := fieldOf_spec hdrops habs hB (by unfold numDocs; omega) f
      exact ⟨h5, h6⟩
  · -- stored
    have := C02Stored.S_merged_rel K.stored docBlock mode (ins.map (·.sIn)) hsok hlen
    rw [mergedFields_sIn, sIn_absIns, hF] at this
    exact this
  · intro d hd
    simp only [mergedLSeg, mDocs, C02Stored.mergedDocs, List.mem_flatMap, List.mem_map] at hd
    obtain ⟨i, _, d0, _, rfl⟩ := hd
    exact reDoc_asc _ _ _
  · intro d hd fv hfv
    simp only [mergedLSeg, mDocs, C02Stored.mergedDocs, List.mem_flatMap, List.mem_map] at hd
    obtain ⟨i, _, d0, _, rfl⟩ := hd
    have := reDoc_fields_lt _ _ _ fv hfv
    rw [mergedFields_sIn, hF] at this
    exact this
  · -- doc values
    intro i f fd hf hfd
    have hdv : ∀ i ∈ ins, DvColOK f i := fun i hi => (hok i hi).dv f
    have := hfield i f fd hf hfd
    by_cases h0 : mNumDocs ins = 0
    · rw [if_pos h0] at this
      subst this
      intro n
      unfold dvOf; rw [hempty h0]; rfl
    · rw [if_neg h0] at this
      subst this
      rw [(fieldOf_spec hdrops habs hB (by unfold numDocs; omega) f).2.2.2.1]
      unfold dvColM
      cases hh : dvHas ins f with
      | false =>
        simp only [Bool.false_eq_true, if_false]
        exact dvOf_nil_of_not_has hdv hh
      | true =>
        simp only [if_true]
        obtain ⟨h1, h2, _⟩ := dvColFrom_shape (mode := mode) hdv
        exact ⟨h1, h2, dvColFrom_dvOf hdv⟩
  · intro h0 fd hfd
    unfold mergedLSeg at hfd h0
    simp only at hfd h0
    rw [if_pos h0] at hfd
    obtain ⟨f, _, rfl⟩ := List.mem_map.1 hfd
    exact ⟨rfl, rfl⟩

end

end Ice.Props.E2EM
