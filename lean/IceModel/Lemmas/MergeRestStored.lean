import IceModel.Model.MergeRest
import IceModel.Lemmas.MergeRestRemap
import IceModel.Lemmas.MergeRestFields
import IceModel.Props.C06
/-
  The re-encode path of `mergeStoredAndRemap` (`mergeStoredAndRemapSegment`, merge.go:708-763) on
  a source segment written by the stored writer: every surviving document is visited
  (`C06_visit`), its values are regrouped by merged field id, and the destination coder receives
  exactly what `Stored.writeDocs` feeds it for the regrouped documents.
-/
namespace Ice.Model.MergeRest
open Ice Ice.Model Ice.Model.Stored

/-! ### lists indexed by `range` -/

theorem getElem?_map_range {α : Type} (f : Nat → α) (n i : Nat) :
    ((List.range n).map f)[i]? = if i < n then some (f i) else none := by
  rw [List.getElem?_map]
  by_cases h : i < n
  · rw [List.getElem?_range h, if_pos h]; rfl
  · rw [List.getElem?_eq_none (by simpa using h), if_neg h]; rfl

theorem set_map_range {α : Type} (f : Nat → α) (n i : Nat) (x : α) :
    ((List.range n).map f).set i x = (List.range n).map (fun m => if m = i then x else f m) := by
  apply List.ext_getElem?
  intro j
  rw [List.getElem?_set, getElem?_map_range, getElem?_map_range]
  simp only [List.length_map, List.length_range]
  by_cases hij : i = j
  · subst hij
    by_cases hi : i < n <;> simp [hi]
  · have : ¬ j = i := fun e => hij e.symm
    simp [hij, this]

theorem eq_map_range_getD {α : Type} (l : List α) (a : α) :
    l = (List.range l.length).map (fun m => l.getD m a) := by
  apply List.ext_getElem?
  intro i
  rw [getElem?_map_range]
  by_cases h : i < l.length
  · rw [if_pos h, List.getD_eq_getElem?_getD, List.getElem?_eq_getElem h]; rfl
  · rw [if_neg h, List.getElem?_eq_none (by omega)]

theorem zipIdx_map_range {α : Type} (f : Nat → α) (n : Nat) :
    ((List.range n).map f).zipIdx = (List.range n).map (fun m => (f m, m)) := by
  apply List.ext_getElem?
  intro i
  rw [List.getElem?_zipIdx, getElem?_map_range, getElem?_map_range]
  by_cases h : i < n <;> simp [h]

/-! ### regrouping the delivered values -/

/-- merged field id of a source field id: `int(fieldsMap[s.fieldsInv[field]]) - 1` -/
def toMerged (srcFields : List Bytes) (fm : Builder.AMap Bytes Nat) (fid : Nat) : Nat :=
  fieldsMapGet fm (srcFields.getD fid []) - 1

/-- `vals` after the visit: per merged field id the delivered values of that field, in order -/
def regroup (toM : Nat → Nat) (nM : Nat) (dl : List (Nat × Bytes)) : List (List Bytes) :=
  (List.range nM).map fun m => (dl.filter fun p => toM p.1 == m).map (·.2)

/-- the document as the merge re-encodes it -/
def reDoc (toM : Nat → Nat) (nM : Nat) (d : Doc) : Doc := groupsOf (regroup toM nM (flat d))

/-- every source field id of the delivered values is known and maps into the merged list -/
def Mapped (srcFields : List Bytes) (fm : Builder.AMap Bytes Nat) (nM : Nat)
    (dl : List (Nat × Bytes)) : Prop :=
  ∀ p ∈ dl, p.1 < srcFields.length ∧ fieldsMapGet fm (srcFields.getD p.1 []) ≠ 0 ∧
    fieldsMapGet fm (srcFields.getD p.1 []) - 1 < nM

theorem collectVals_fn (srcFields : List Bytes) (fm : Builder.AMap Bytes Nat) (nM : Nat) :
    ∀ (dl : List (Nat × Bytes)) (g : Nat → List Bytes), Mapped srcFields fm nM dl →
    collectVals srcFields fm dl ((List.range nM).map g) =
      .ok ((List.range nM).map fun m =>
        g m ++ (dl.filter fun p => toMerged srcFields fm p.1 == m).map (·.2)) := by
  intro dl
  induction dl with
  | nil => intro g _; simp [collectVals]
  | cons p r ih =>
    intro g hm
    obtain ⟨fid, v⟩ := p
    obtain ⟨h1, h2, h3⟩ := hm (fid, v) (by simp)
    have hr : Mapped srcFields fm nM r := fun q hq => hm q (by simp [hq])
    have hname : srcFields[fid]? = some (srcFields.getD fid []) := by
      rw [List.getD_eq_getElem?_getD, List.getElem?_eq_getElem h1]; rfl
    simp only at h1 h2 h3
    rw [collectVals, hname]
    simp only [h2, if_false, List.length_map, List.length_range, h3, if_true]
    rw [set_map_range, ih _ hr]
    congr 1
    apply List.map_congr_left
    intro m hm'
    have hmn : m < nM := List.mem_range.1 hm'
    have hgd : ((List.range nM).map g).getD (fieldsMapGet fm (srcFields.getD fid []) - 1) [] =
        g (fieldsMapGet fm (srcFields.getD fid []) - 1) := by
      rw [List.getD_eq_getElem?_getD, getElem?_map_range, if_pos h3]; rfl
    rw [hgd, List.filter_cons]
    by_cases he : m = fieldsMapGet fm (srcFields.getD fid []) - 1
    · have hb : (toMerged srcFields fm (fid, v).1 == m) = true := by
        rw [beq_iff_eq]; exact he.symm
      rw [if_pos hb, if_pos he]
      subst he
      simp
    · have hb : ¬ (toMerged srcFields fm (fid, v).1 == m) = true := by
        rw [beq_iff_eq]; exact fun e => he e.symm
      rw [if_neg hb, if_neg he]

theorem collectVals_ok (srcFields : List Bytes) (fm : Builder.AMap Bytes Nat) (nM : Nat)
    (dl : List (Nat × Bytes)) (hm : Mapped srcFields fm nM dl) :
    collectVals srcFields fm dl (List.replicate nM []) =
      .ok (regroup (toMerged srcFields fm) nM dl) := by
  have h0 : List.replicate nM ([] : List Bytes) = (List.range nM).map (fun _ => []) := by
    apply List.ext_getElem?
    intro i
    rw [List.getElem?_replicate, getElem?_map_range]
  rw [h0, collectVals_fn srcFields fm nM dl _ hm]
  simp [regroup]

/-- the values of the regrouped document: by merged field id, input order within a field -/
theorem flat_reDoc (toM : Nat → Nat) (nM : Nat) (d : Doc) :
    flat (reDoc toM nM d) =
      (List.range nM).flatMap fun m =>
        ((flat d).filter fun p => toM p.1 == m).map fun p => (m, p.2) := by
  simp only [reDoc, groupsOf, regroup, zipIdx_map_range, flat, List.map_map, List.flatMap_map,
    Function.comp_def]

/-! ### the coder depends on a document only through its flat values -/

theorem encodeDoc_congr {a b : Doc} (h : flat a = flat b) (e : Enc) :
    encodeDoc a e = encodeDoc b e := by
  rw [encodeDoc_eq, encodeDoc_eq, h]

theorem writeDocs_congr (cd : Codec) : ∀ (a b : List Doc), a.map flat = b.map flat →
    ∀ (c : Coder) (dso : List Nat), writeDocs cd a c dso = writeDocs cd b c dso := by
  intro a
  induction a with
  | nil =>
    intro b h c dso
    cases b with
    | nil => rfl
    | cons _ _ => simp at h
  | cons x a ih =>
    intro b h c dso
    cases b with
    | nil => simp at h
    | cons y b =>
      simp only [List.map_cons, List.cons.injEq] at h
      simp only [writeDocs, encodeDoc_congr h.1]
      exact ih b h.2 _ _

theorem writeDocs_snd_length (cd : Codec) (docs : List Doc) (c : Coder) (dso : List Nat) :
    (writeDocs cd docs c dso).2.length = dso.length + docs.length :=
  writeDocs_dso_length cd docs c dso

theorem writeDocs_snoc (cd : Codec) (docs : List Doc) (d : Doc) (c : Coder) (dso : List Nat) :
    writeDocs cd (docs ++ [d]) c dso =
      ((writeDocs cd docs c dso).1.add cd (encodeDoc d {}).mta (encodeDoc d {}).data,
       (writeDocs cd docs c dso).2 ++ [(writeDocs cd docs c dso).1.buf.length]) := by
  rw [writeDocs_append]; rfl

/-! ### the destination state as a `writeDocs` state -/

/-- the merge state holds what `writeDocs` holds after writing the documents `D` from `(c0, [])`;
    the still unset tail of `docNumOffsets` is zero -/
structure Tracks (cd : Codec) (c0 : Coder) (total : Nat) (st : MS) (D : List Doc) : Prop where
  coder : st.coder = (writeDocs cd D c0 []).1
  num : st.newDocNum = D.length
  dno : st.dno = (writeDocs cd D c0 []).2 ++ List.replicate (total - D.length) 0

theorem Tracks.init (cd : Codec) (c0 : Coder) (total : Nat) (vdc : Buf) :
    Tracks cd c0 total { newDocNum := 0, dno := List.replicate total 0, coder := c0, vdc := vdc } [] :=
  ⟨rfl, rfl, by simp [writeDocs]⟩

theorem set_dso_replicate (dso : List Nat) (k x : Nat) (hk : 0 < k) :
    (dso ++ List.replicate k 0).set dso.length x = (dso ++ [x]) ++ List.replicate (k - 1) 0 := by
  rw [List.set_append, if_neg (by omega), Nat.sub_self]
  obtain ⟨j, rfl⟩ : ∃ j, k = j + 1 := ⟨k - 1, by omega⟩
  simp [List.replicate_succ]

theorem Tracks.step (cd : Codec) (c0 : Coder) (total : Nat) (st : MS) (D : List Doc) (d : Doc)
    (vdc : Buf) (h : Tracks cd c0 total st D) (hroom : D.length < total) :
    st.newDocNum < st.dno.length ∧
    Tracks cd c0 total
      { newDocNum := st.newDocNum + 1, dno := st.dno.set st.newDocNum st.coder.buf.length,
        coder := st.coder.add cd (encodeDoc d {}).mta (encodeDoc d {}).data, vdc := vdc }
      (D ++ [d]) := by
  have hl : (writeDocs cd D c0 []).2.length = D.length := by
    rw [writeDocs_snd_length]; simp
  constructor
  · rw [h.dno, h.num]; simp [hl]; omega
  · constructor
    · simp only [writeDocs_snoc, h.coder]
    · simp [h.num]
    · simp only [writeDocs_snoc]
      rw [h.dno, h.num, h.coder]
      have := set_dso_replicate (writeDocs cd D c0 []).2 (total - D.length)
        (writeDocs cd D c0 []).1.buf.length (by omega)
      rw [hl] at this
      rw [this]
      congr 2
      simp; omega

/-! ### the document loop on a segment written by the stored writer -/

theorem flat_lt {nf : Nat} {d : Doc} (h : ∀ fv ∈ d, fv.1 < nf) : ∀ p ∈ flat d, p.1 < nf := by
  intro p hp
  simp only [flat, List.mem_flatMap, List.mem_map] at hp
  obtain ⟨fv, hfv, v, _, rfl⟩ := hp
  exact h fv hfv

/-- every field of the source is known to the merged map and lies inside the merged list -/
def FieldsMapped (srcFields : List Bytes) (fm : Builder.AMap Bytes Nat) (nM : Nat) : Prop :=
  ∀ i, i < srcFields.length → fieldsMapGet fm (srcFields.getD i []) ≠ 0 ∧
    fieldsMapGet fm (srcFields.getD i []) - 1 < nM

theorem remapSegLoop_stored (cd : Codec) (bs : Nat) (src : Src) (docs : List Doc) (tail : Bytes)
    (drops : List Nat) (fm : Builder.AMap Bytes Nat) (nM : Nat) (c0 : Coder) (total : Nat)
    (hseg : src.seg = segOfNew cd bs src.fields.length docs tail)
    (hv : Ice.Props.C06.Valid cd bs src.fields.length docs)
    (hmap : FieldsMapped src.fields fm nM) :
    ∀ (l : List Nat) (st : MS) (seen : List Nat) (D : List Doc),
    (∀ d ∈ l, d < docs.length ∧ d < 2 ^ 32) →
    Tracks cd c0 total st D →
    D.length + (l.filter fun d => !drops.contains d).length ≤ total →
    ∃ st' seen', remapSegLoop cd src drops fm nM l st seen = .ok (st', seen') ∧
      Tracks cd c0 total st'
        (D ++ (l.filter fun d => !drops.contains d).map fun d =>
          reDoc (toMerged src.fields fm) nM (docs.getD d [])) := by
  intro l
  induction l with
  | nil => intro st seen D _ ht _; exact ⟨st, seen, rfl, by simpa using ht⟩
  | cons d r ih =>
    intro st seen D hl ht hroom
    obtain ⟨hd1, hd2⟩ := hl d (by simp)
    have hr : ∀ x ∈ r, x < docs.length ∧ x < 2 ^ 32 := fun x hx => hl x (by simp [hx])
    rw [remapSegLoop, isDropped_small drops d hd2]
    by_cases hc : drops.contains d = true
    · rw [if_pos hc]
      have hc' : d ∈ drops := List.contains_iff_mem.1 hc
      have hf : ((d :: r).filter fun d => !drops.contains d) =
          r.filter fun d => !drops.contains d := by simp [hc']
      rw [hf] at hroom ⊢
      exact ih _ _ _ hr ht hroom
    · rw [if_neg hc]
      have hc' : d ∉ drops := fun h => hc (List.contains_iff_mem.2 h)
      have hf : ((d :: r).filter fun d => !drops.contains d) =
          d :: r.filter fun d => !drops.contains d := by simp [hc']
      rw [hf] at hroom ⊢
      simp only [List.length_cons] at hroom
      obtain ⟨buf', hvis⟩ := Ice.Props.C06.C06_visit cd bs src.fields.length docs tail hv d hd1
        st.vdc none
      rw [hseg, hvis]
      simp only [Res.bind_ok, takeStop]
      have hgd : docs.getD d [] = docs[d] := by
        rw [List.getD_eq_getElem?_getD, List.getElem?_eq_getElem hd1]; rfl
      have hmapped : Mapped src.fields fm nM (flat docs[d]) := by
        intro p hp
        have := flat_lt (hv.2.2.1 docs[d] (List.getElem_mem hd1)) p hp
        exact ⟨this, hmap p.1 this⟩
      rw [collectVals_ok _ _ _ _ hmapped]
      simp only [Res.bind_ok]
      obtain ⟨hlt, ht'⟩ := Tracks.step cd c0 total st D
        (reDoc (toMerged src.fields fm) nM docs[d]) buf' ht (by omega)
      rw [if_pos hlt]
      obtain ⟨st', seen', h1, h2⟩ := ih _ (seen ++ [st.newDocNum]) _ hr ht'
        (by simp only [List.length_append, List.length_cons, List.length_nil]; omega)
      refine ⟨st', seen', h1, ?_⟩
      simp only [List.map_cons, hgd]
      simpa [List.append_assoc] using h2

end Ice.Model.MergeRest
