import IceModel.Lemmas.ErrFlowSyntax
/-
  Error flow, part 2 (semantics): a nondeterministic execution relation for error-flow skeletons
  that knows neither conditions nor loop counts, and the central lemma: in a program in which every
  call is immediately checked, an execution that starts with a nil error variable either sees no
  failing call, or stops at the first one and returns a non-nil error.
-/
namespace Ice.ErrFlow
open Ice.Bridge.ErrFlow

/-- callees that never return a nil error: the error constructors.  `fmt.Errorf` is the only one the
    package binds with `F` inside a check (`if err != nil { return fmt.Errorf("…: %w", err) }`). -/
def alwaysFails (c : String) : Bool := c == "Errorf"

/-- one executed call: was its error result discarded by the code (`D`), its callee, did it fail -/
structure Step where
  dropped : Bool
  callee : String
  failed : Bool
  deriving Repr, DecidableEq

/-- how the execution of a statement list ends: it falls off its end, it returns, or a jump is under
    way; `e` is the state of the error variable (`true` = non-nil) -/
inductive Out where
  | norm (e : Bool)
  | ret (nonNil : Bool)
  | jump (e : Bool)
  deriving Repr, DecidableEq

/-- `Exec e p tr o`: started with error variable `e`, the statement list `p` can execute the calls
    `tr` (in this order) and end as `o`.  The derivation is the oracle: it picks for every call whether
    it fails (`callOk`/`callFail`, `drop b`), for every unguarded block whether it is skipped, run, or
    run again (`blockSkip`, `blockNorm`), where a jump lands, and what a `return <expr>` yields while the
    error variable is nil (`retOther`).  Only `{:err` is deterministic: entered iff the error variable
    is non-nil (`guardSkip` needs `e = false`, every rule entering a guarded block needs `e = true`). -/
inductive Exec : Bool → List Stmt → List Step → Out → Prop
  | nil {e} : Exec e [] [] (.norm e)
  /-- a bound call succeeds: the error variable becomes nil (not possible for an error constructor) -/
  | callOk {e c rest tr o} : alwaysFails c = false → Exec false rest tr o →
      Exec e (.call c :: rest) (⟨false, c, false⟩ :: tr) o
  /-- a bound call fails: the error variable becomes non-nil -/
  | callFail {e c rest tr o} : Exec true rest tr o →
      Exec e (.call c :: rest) (⟨false, c, true⟩ :: tr) o
  /-- a call whose error is discarded: fails or not, the error variable is untouched -/
  | drop {e c rest tr o} (b : Bool) : Exec e rest tr o →
      Exec e (.drop c :: rest) (⟨true, c, b⟩ :: tr) o
  | retNil {e rest} : Exec e (.ret false :: rest) [] (.ret false)
  /-- `return …, err` with a non-nil error variable returns a non-nil error -/
  | retErr {rest} : Exec true (.ret true :: rest) [] (.ret true)
  /-- `return …, <expr>` while the error variable is nil: anything (a sentinel error, a nil `err`, …) -/
  | retOther {rest} (b : Bool) : Exec false (.ret true :: rest) [] (.ret b)
  /-- break / continue / goto: leaves the statement list … -/
  | jump {e rest} : Exec e (.jump :: rest) [] (.jump e)
  /-- … or (forward goto) lands on a later statement of the same list -/
  | jumpResume {e rest rest' tr o} : rest' <:+ rest → Exec e rest' tr o →
      Exec e (.jump :: rest) tr o
  /-- `if err != nil { … }` with a nil error variable: not entered -/
  | guardSkip {body rest tr o} : Exec false rest tr o → Exec false (.block true body :: rest) tr o
  /-- `if err != nil { … }` with a non-nil error variable: entered, and left at its end -/
  | guardNorm {body rest tr1 tr2 e' o} : Exec true body tr1 (.norm e') → Exec e' rest tr2 o →
      Exec true (.block true body :: rest) (tr1 ++ tr2) o
  /-- any other block (if / else / for / range / switch / case): not entered, or not entered again -/
  | blockSkip {e body rest tr o} : Exec e rest tr o → Exec e (.block false body :: rest) tr o
  /-- … its body runs to its end, and then the block is considered again (0 or more further rounds) -/
  | blockNorm {e body rest tr1 tr2 e' o} : Exec e body tr1 (.norm e') →
      Exec e' (.block false body :: rest) tr2 o →
      Exec e (.block false body :: rest) (tr1 ++ tr2) o
  /-- a `return` inside a block (guarded blocks only with a non-nil error variable) -/
  | blockRet {e g body rest tr b} : (g = true → e = true) → Exec e body tr (.ret b) →
      Exec e (.block g body :: rest) tr (.ret b)
  /-- a jump inside a block leaves the enclosing list as well (labelled break/continue, break inside
      an `if`) … -/
  | blockJumpOut {e g body rest tr e'} : (g = true → e = true) → Exec e body tr (.jump e') →
      Exec e (.block g body :: rest) tr (.jump e')
  /-- … or starts the next round of this block (`continue`; then `blockSkip` = `break`) … -/
  | blockJumpLoop {e body rest tr1 tr2 e' o} : Exec e body tr1 (.jump e') →
      Exec e' (.block false body :: rest) tr2 o →
      Exec e (.block false body :: rest) (tr1 ++ tr2) o
  /-- … or lands on any later statement of the enclosing list (`break`, forward `goto`) -/
  | blockJumpResume {e g body rest rest' tr1 tr2 e' o} : (g = true → e = true) →
      Exec e body tr1 (.jump e') → rest' <:+ rest → Exec e' rest' tr2 o →
      Exec e (.block g body :: rest) (tr1 ++ tr2) o

/-- result of a function execution -/
inductive Result where
  | returned (errNonNil : Bool)
  | fellOff
  deriving Repr, DecidableEq

def Out.result : Out → Result
  | .ret b => .returned b
  | _ => .fellOff

/-- an execution of a function body: the error variable starts nil -/
def Run (p : Prog) (tr : List Step) (r : Result) : Prop := ∃ o, Exec false p tr o ∧ o.result = r

/-! ### traces -/

/-- a failure the code can observe: a bound (not discarded) call that failed -/
def Step.isFailure (s : Step) : Bool := !s.dropped && s.failed

/-- some bound call failed -/
def AnyFailed (tr : List Step) : Prop := ∃ s ∈ tr, s.isFailure = true
/-- no bound call failed -/
def NoFail (tr : List Step) : Prop := ∀ s ∈ tr, s.isFailure = false

instance (tr : List Step) : Decidable (AnyFailed tr) := by unfold AnyFailed; infer_instance
instance (tr : List Step) : Decidable (NoFail tr) := by unfold NoFail; infer_instance

theorem noFail_iff_not_anyFailed (tr : List Step) : NoFail tr ↔ ¬ AnyFailed tr := by
  simp [NoFail, AnyFailed]

/-- the execution stops at its first failure: the failing call `c` is the last call made, except
    possibly for a wrapper call `w` with `W w` that also "fails" (builds the error to return) -/
def FailFastW (W : String → Prop) (tr : List Step) : Prop :=
  ∃ pre c wrap, tr = pre ++ ⟨false, c, true⟩ :: wrap ∧ NoFail pre ∧
    (wrap = [] ∨ ∃ w, W w ∧ wrap = [⟨false, w, true⟩])

/-- … the wrapper being an error constructor (`fmt.Errorf`) -/
def FailFast (tr : List Step) : Prop := FailFastW (fun w => alwaysFails w = true) tr

theorem NoFail.nil : NoFail [] := by simp [NoFail]
theorem NoFail.cons {s : Step} {tr : List Step} (hs : s.isFailure = false) (h : NoFail tr) :
    NoFail (s :: tr) := by
  intro x hx
  rcases List.mem_cons.1 hx with rfl | hx
  · exact hs
  · exact h x hx
theorem NoFail.append {a b : List Step} (ha : NoFail a) (hb : NoFail b) : NoFail (a ++ b) := by
  intro x hx
  rcases List.mem_append.1 hx with hx | hx
  · exact ha x hx
  · exact hb x hx

theorem FailFastW.cons {W : String → Prop} {s : Step} {tr : List Step} (hs : s.isFailure = false)
    (h : FailFastW W tr) : FailFastW W (s :: tr) := by
  obtain ⟨pre, c, wrap, rfl, hp, hw⟩ := h
  exact ⟨s :: pre, c, wrap, by simp, hp.cons hs, hw⟩
theorem FailFastW.append {W : String → Prop} {a tr : List Step} (ha : NoFail a)
    (h : FailFastW W tr) : FailFastW W (a ++ tr) := by
  obtain ⟨pre, c, wrap, rfl, hp, hw⟩ := h
  exact ⟨a ++ pre, c, wrap, by simp, ha.append hp, hw⟩
theorem FailFastW.anyFailed {W : String → Prop} {tr : List Step} (h : FailFastW W tr) :
    AnyFailed tr := by
  obtain ⟨pre, c, wrap, rfl, _, _⟩ := h
  exact ⟨⟨false, c, true⟩, by simp, rfl⟩
theorem FailFastW.mono {W W' : String → Prop} (hW : ∀ w, W w → W' w) {tr : List Step}
    (h : FailFastW W tr) : FailFastW W' tr := by
  obtain ⟨pre, c, wrap, rfl, hp, hw⟩ := h
  refine ⟨pre, c, wrap, rfl, hp, ?_⟩
  rcases hw with hw | ⟨w, h1, h2⟩
  · exact Or.inl hw
  · exact Or.inr ⟨w, hW w h1, h2⟩
/-- without wrappers, the failing call is literally the last call -/
theorem FailFastW.nowrap {tr : List Step} (h : FailFastW (fun _ => False) tr) :
    ∃ pre c, tr = pre ++ [⟨false, c, true⟩] ∧ NoFail pre := by
  obtain ⟨pre, c, wrap, rfl, hp, hw⟩ := h
  rcases hw with rfl | ⟨_, h1, _⟩
  · exact ⟨pre, c, rfl, hp⟩
  · exact h1.elim

/-! ### the discipline -/

/-- the wrapper call of the check that follows a call, if it has one -/
def wrapOf : List Stmt → Option String
  | .block true [.call w, .ret true] :: _ => some w
  | _ => none

mutual
def wrappersStmt : Stmt → List String
  | .block _ body => wrappers body
  | _ => []
/-- the callees `w` of all checks of the form `F … {:err F w R err }` -/
def wrappers : List Stmt → List String
  | [] => []
  | s :: rest =>
    (match s with
      | .call _ => (wrapOf rest).toList
      | _ => []) ++ wrappersStmt s ++ wrappers rest
end

/-- every call is immediately checked (`uncheckedS p = []`, i.e. the bridge's `unchecked` is empty on
    the flat form) and every wrapping check wraps with a callee satisfying `W` -/
def DiscW (W : String → Prop) (p : Prog) : Prop := uncheckedS p = [] ∧ ∀ w ∈ wrappers p, W w

/-- … with an error constructor -/
def Disc (p : Prog) : Prop := uncheckedS p = [] ∧ ∀ w ∈ wrappers p, alwaysFails w = true

instance (p : Prog) : Decidable (Disc p) := by unfold Disc; infer_instance

theorem disc_iff_discW (p : Prog) : Disc p ↔ DiscW (fun w => alwaysFails w = true) p := Iff.rfl

theorem DiscW.nil {W : String → Prop} : DiscW W [] := by simp [DiscW, uncheckedS, wrappers]

theorem DiscW.tail {W : String → Prop} {s : Stmt} {rest : Prog} (h : DiscW W (s :: rest)) :
    DiscW W rest := by
  obtain ⟨h1, h2⟩ := h
  simp only [uncheckedS, List.append_eq_nil_iff] at h1
  refine ⟨h1.2, fun w hw => h2 w ?_⟩
  simp only [wrappers, List.mem_append]
  exact Or.inr hw

theorem DiscW.body {W : String → Prop} {g : Bool} {body rest : Prog}
    (h : DiscW W (.block g body :: rest)) : DiscW W body := by
  obtain ⟨h1, h2⟩ := h
  simp only [uncheckedS, uncheckedStmt, List.append_eq_nil_iff] at h1
  refine ⟨h1.1.2, fun w hw => h2 w ?_⟩
  simp only [wrappers, wrappersStmt, List.mem_append]
  exact Or.inl (Or.inr hw)

theorem DiscW.suffix {W : String → Prop} {p q : Prog} (h : DiscW W p) (hs : q <:+ p) :
    DiscW W q := by
  obtain ⟨t, rfl⟩ := hs
  induction t with
  | nil => simpa using h
  | cons s t ih => exact ih (DiscW.tail h)

/-- what a disciplined program has after a call -/
inductive CheckShape (W : String → Prop) : List Stmt → Prop
  | direct {rest} : CheckShape W (.ret true :: rest)
  | guarded {rest} : CheckShape W (.block true [.ret true] :: rest)
  | wrapped {w rest} : W w → CheckShape W (.block true [.call w, .ret true] :: rest)

theorem DiscW.check {W : String → Prop} {c : String} {rest : Prog}
    (h : DiscW W (.call c :: rest)) : CheckShape W rest := by
  obtain ⟨h1, h2⟩ := h
  simp only [uncheckedS, uncheckedStmt, List.append_eq_nil_iff] at h1
  have hc : checkedNext rest = true := by
    by_cases hc : checkedNext rest = true
    · exact hc
    · simp [hc] at h1
  have hw : ∀ w, wrapOf rest = some w → W w := by
    intro w hw
    apply h2
    simp [wrappers, hw]
  unfold checkedNext at hc
  split at hc
  · exact .direct
  · exact .guarded
  · exact .wrapped (hw _ (by simp [wrapOf]))
  · cases hc

/-- with a non-nil error variable, a check returns a non-nil error, after at most the wrapper call -/
theorem exec_check {W : String → Prop} (hW : ∀ w, W w → alwaysFails w = true) {rest : Prog}
    (hc : CheckShape W rest) {tr : List Step} {o : Out} (h : Exec true rest tr o) :
    o = .ret true ∧ (tr = [] ∨ ∃ w, W w ∧ tr = [⟨false, w, true⟩]) := by
  cases hc with
  | direct => cases h; exact ⟨rfl, Or.inl rfl⟩
  | guarded =>
    cases h with
    | guardNorm hb _ => cases hb
    | blockRet _ hb => cases hb; exact ⟨rfl, Or.inl rfl⟩
    | blockJumpOut _ hb => cases hb
    | blockJumpResume _ hb _ _ => cases hb
  | wrapped hw =>
    rename_i w _
    have key : ∀ {tr o}, Exec true [.call w, .ret true] tr o →
        o = .ret true ∧ tr = [⟨false, w, true⟩] := by
      intro tr o hb
      cases hb with
      | callOk hn _ => rw [hW w hw] at hn; cases hn
      | callFail hr => cases hr; exact ⟨rfl, rfl⟩
    cases h with
    | guardNorm hb _ => cases (key hb).1
    | blockRet _ hb => obtain ⟨ho, ht⟩ := key hb; exact ⟨ho, Or.inr ⟨w, hw, ht⟩⟩
    | blockJumpOut _ hb => cases (key hb).1
    | blockJumpResume _ hb _ _ => cases (key hb).1

/-- an outcome that carries no pending error -/
def Out.clean : Out → Prop
  | .norm e => e = false
  | .jump e => e = false
  | .ret _ => True

/-- central lemma -/
theorem exec_discW {W : String → Prop} (hW : ∀ w, W w → alwaysFails w = true)
    {e : Bool} {p : Prog} {tr : List Step} {o : Out} (h : Exec e p tr o) :
    e = false → DiscW W p → (NoFail tr ∧ o.clean) ∨ (FailFastW W tr ∧ o = .ret true) := by
  induction h with
  | nil => intro he _; exact Or.inl ⟨NoFail.nil, he⟩
  | callOk _ _ ih =>
    intro _ hd
    rcases ih rfl hd.tail with ⟨h1, h2⟩ | ⟨h1, h2⟩
    · exact Or.inl ⟨h1.cons rfl, h2⟩
    · exact Or.inr ⟨h1.cons rfl, h2⟩
  | callFail hr _ =>
    intro _ hd
    obtain ⟨ho, ht⟩ := exec_check hW hd.check hr
    exact Or.inr ⟨⟨[], _, _, rfl, NoFail.nil, ht⟩, ho⟩
  | drop b _ ih =>
    intro he hd
    rcases ih he hd.tail with ⟨h1, h2⟩ | ⟨h1, h2⟩
    · exact Or.inl ⟨h1.cons rfl, h2⟩
    · exact Or.inr ⟨h1.cons rfl, h2⟩
  | retNil => intro _ _; exact Or.inl ⟨NoFail.nil, trivial⟩
  | retErr => intro he; cases he
  | retOther b => intro _ _; exact Or.inl ⟨NoFail.nil, trivial⟩
  | jump => intro he _; exact Or.inl ⟨NoFail.nil, he⟩
  | jumpResume hs _ ih => intro he hd; exact ih he (hd.tail.suffix hs)
  | guardSkip _ ih => intro he hd; exact ih he hd.tail
  | guardNorm _ _ _ _ => intro he; cases he
  | blockSkip _ ih => intro he hd; exact ih he hd.tail
  | blockNorm _ _ ih1 ih2 =>
    intro he hd
    rcases ih1 he hd.body with ⟨h1, h2⟩ | ⟨_, h2⟩
    · rcases ih2 h2 hd with ⟨h3, h4⟩ | ⟨h3, h4⟩
      · exact Or.inl ⟨h1.append h3, h4⟩
      · exact Or.inr ⟨h3.append h1, h4⟩
    · cases h2
  | blockRet hg _ ih =>
    intro he hd
    rcases ih he hd.body with ⟨h1, h2⟩ | ⟨h1, h2⟩
    · exact Or.inl ⟨h1, trivial⟩
    · exact Or.inr ⟨h1, h2⟩
  | blockJumpOut hg _ ih =>
    intro he hd
    rcases ih he hd.body with ⟨h1, h2⟩ | ⟨_, h2⟩
    · exact Or.inl ⟨h1, h2⟩
    · cases h2
  | blockJumpLoop _ _ ih1 ih2 =>
    intro he hd
    rcases ih1 he hd.body with ⟨h1, h2⟩ | ⟨_, h2⟩
    · rcases ih2 h2 hd with ⟨h3, h4⟩ | ⟨h3, h4⟩
      · exact Or.inl ⟨h1.append h3, h4⟩
      · exact Or.inr ⟨h3.append h1, h4⟩
    · cases h2
  | blockJumpResume hg _ hs _ ih1 ih2 =>
    intro he hd
    rcases ih1 he hd.body with ⟨h1, h2⟩ | ⟨_, h2⟩
    · rcases ih2 h2 (hd.tail.suffix hs) with ⟨h3, h4⟩ | ⟨h3, h4⟩
      · exact Or.inl ⟨h1.append h3, h4⟩
      · exact Or.inr ⟨h3.append h1, h4⟩
    · cases h2

/-- … for error-constructor wrappers -/
theorem exec_disc {e : Bool} {p : Prog} {tr : List Step} {o : Out} (h : Exec e p tr o)
    (he : e = false) (hd : Disc p) : (NoFail tr ∧ o.clean) ∨ (FailFast tr ∧ o = .ret true) :=
  exec_discW (fun _ h => h) h he hd

/-- … and for programs without wrapping checks -/
theorem exec_disc_nowrap {e : Bool} {p : Prog} {tr : List Step} {o : Out} (h : Exec e p tr o)
    (he : e = false) (hu : uncheckedS p = []) (hw : wrappers p = []) :
    (NoFail tr ∧ o.clean) ∨ (FailFastW (fun _ => False) tr ∧ o = .ret true) :=
  exec_discW (fun _ h => h.elim) h he ⟨hu, by simp [hw]⟩

/-! ### discarded results -/

/-- forget whether a discarded call failed -/
def Step.forget (s : Step) : Step := if s.dropped then { s with failed := false } else s

theorem Step.forget_bound {c : String} {b : Bool} {s : Step} (h : s.forget = (⟨false, c, b⟩ : Step).forget) :
    s = ⟨false, c, b⟩ := by
  obtain ⟨d, c', b'⟩ := s
  cases d <;> simp_all [Step.forget]

theorem Step.forget_dropped {c : String} {b : Bool} {s : Step} (h : s.forget = (⟨true, c, b⟩ : Step).forget) :
    ∃ b', s = ⟨true, c, b'⟩ := by
  obtain ⟨d, c', b'⟩ := s
  cases d <;> simp_all [Step.forget]

/-- whether discarded calls fail has no influence whatsoever on an execution -/
theorem exec_forget {e : Bool} {p : Prog} {tr : List Step} {o : Out} (h : Exec e p tr o) :
    ∀ tr' : List Step, tr'.map Step.forget = tr.map Step.forget → Exec e p tr' o := by
  induction h with
  | nil => intro tr' h; simp at h; subst h; exact .nil
  | callOk hc _ ih =>
    intro tr' h
    cases tr' with
    | nil => simp at h
    | cons s t =>
      simp only [List.map_cons, List.cons.injEq] at h
      rw [Step.forget_bound h.1]; exact .callOk hc (ih t h.2)
  | callFail _ ih =>
    intro tr' h
    cases tr' with
    | nil => simp at h
    | cons s t =>
      simp only [List.map_cons, List.cons.injEq] at h
      rw [Step.forget_bound h.1]; exact .callFail (ih t h.2)
  | drop b _ ih =>
    intro tr' h
    cases tr' with
    | nil => simp at h
    | cons s t =>
      simp only [List.map_cons, List.cons.injEq] at h
      obtain ⟨b', rfl⟩ := Step.forget_dropped h.1
      exact .drop b' (ih t h.2)
  | retNil => intro tr' h; simp at h; subst h; exact .retNil
  | retErr => intro tr' h; simp at h; subst h; exact .retErr
  | retOther b => intro tr' h; simp at h; subst h; exact .retOther b
  | jump => intro tr' h; simp at h; subst h; exact .jump
  | jumpResume hs _ ih => intro tr' h; exact .jumpResume hs (ih tr' h)
  | guardSkip _ ih => intro tr' h; exact .guardSkip (ih tr' h)
  | guardNorm _ _ ih1 ih2 =>
    intro tr' h
    rw [List.map_append, List.map_eq_append_iff] at h
    obtain ⟨a, b, rfl, ha, hb⟩ := h
    exact .guardNorm (ih1 a ha) (ih2 b hb)
  | blockSkip _ ih => intro tr' h; exact .blockSkip (ih tr' h)
  | blockNorm _ _ ih1 ih2 =>
    intro tr' h
    rw [List.map_append, List.map_eq_append_iff] at h
    obtain ⟨a, b, rfl, ha, hb⟩ := h
    exact .blockNorm (ih1 a ha) (ih2 b hb)
  | blockRet hg _ ih => intro tr' h; exact .blockRet hg (ih tr' h)
  | blockJumpOut hg _ ih => intro tr' h; exact .blockJumpOut hg (ih tr' h)
  | blockJumpLoop _ _ ih1 ih2 =>
    intro tr' h
    rw [List.map_append, List.map_eq_append_iff] at h
    obtain ⟨a, b, rfl, ha, hb⟩ := h
    exact .blockJumpLoop (ih1 a ha) (ih2 b hb)
  | blockJumpResume hg _ hs _ ih1 ih2 =>
    intro tr' h
    rw [List.map_append, List.map_eq_append_iff] at h
    obtain ⟨a, b, rfl, ha, hb⟩ := h
    exact .blockJumpResume hg (ih1 a ha) hs (ih2 b hb)

end Ice.ErrFlow
