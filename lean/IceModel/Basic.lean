/-
  Basic vocabulary shared by Spec, Model and Driver.  Core Lean only (the driver must link).
-/
namespace Ice

/-- Byte strings.  Bytes are modelled as natural numbers; producers keep them `< 256`. -/
abbrev Bytes := List Nat

namespace Bytes

/-- `bytes.Compare`: lexicographic order on byte strings (also Go's `sort.Strings` order and
    vellum's key order). -/
def cmp : Bytes → Bytes → Ordering
  | [], [] => .eq
  | [], _ :: _ => .lt
  | _ :: _, [] => .gt
  | a :: as, b :: bs => if a < b then .lt else if b < a then .gt else cmp as bs

def le (a b : Bytes) : Bool := cmp a b != .gt
def lt (a b : Bytes) : Bool := cmp a b == .lt

end Bytes

/-- insert into an ascending duplicate-free list, keeping it so (structural: reduces in the
    kernel, so concrete witnesses can be checked by `decide`) -/
def insertU (x : Bytes) : List Bytes → List Bytes
  | [] => [x]
  | y :: r =>
    match Bytes.cmp x y with
    | .lt => x :: y :: r
    | .eq => y :: r
    | .gt => y :: insertU x r

/-- ascending, duplicate-free list of the byte strings in `l` -/
def sortDedup (l : List Bytes) : List Bytes := l.foldr insertU []

def sumNat (l : List Nat) : Nat := l.foldl (· + ·) 0

/-- the name of the `_id` field -/
def idField : Bytes := [95, 105, 100]

end Ice
