import IceModel.Spec.Seg
/-
  Specification of a postings iterator (property C05): the iterator owns the list of live
  postings that lie after the last returned one.  `Next` pops the head; `Advance d` first drops
  everything below `d`; an empty remainder answers `none` for ever.
-/
namespace Ice.Spec

inductive IterOp where
  | next
  | advance (d : Nat)
deriving DecidableEq, Repr, Inhabited

structure Flags where
  freq : Bool
  norm : Bool
  locs : Bool
deriving DecidableEq, Repr, Inhabited

/-- what the caller may look at, given the flags it asked for (§2.10 item 8 of DESIGN.md) -/
def view (fl : Flags) (p : Posting) : Posting :=
  { doc := p.doc,
    freq := if fl.freq then p.freq else 0,
    norm := if fl.norm then p.norm else 0,
    locs := if fl.locs then p.locs else [] }

/-- postings not named by the exclusion list (`none` = nil bitmap) -/
def live (P : List Posting) (E : Option (List Nat)) : List Posting :=
  match E with
  | none => P
  | some e => P.filter (fun p => !e.contains p.doc)

def iterStep (L : List Posting) (op : IterOp) : Option Posting × List Posting :=
  let L' := match op with
    | .next => L
    | .advance d => L.dropWhile (fun p => p.doc < d)
  match L' with
  | [] => (none, [])
  | p :: r => (some p, r)

def iterRun (fl : Flags) : List Posting → List IterOp → List (Option Posting)
  | _, [] => []
  | L, op :: ops =>
    let (r, L') := iterStep L op
    (r.map (view fl)) :: iterRun fl L' ops

end Ice.Spec
