import IceModel.Basic
/-
  The abstract specification: what a segment *means*.

  A segment is a sequence of rolled-up documents plus a field list and statistics.  Every read
  API is a function of that (`terms`, `postings`, `stored`, `dvOf`, `stats`, `docsMatching`).
  `build` follows the sentence in property C01, `merge` the sentence in C02/C03; neither follows
  the algorithms of new.go / merge.go.
-/
namespace Ice.Spec

/-- one token location as handed in by the analysis (`segment.Location`) -/
structure Loc where
  field : Bytes
  pos : Nat
  start : Nat
  stop : Nat
deriving DecidableEq, Repr, Inhabited

/-- one `FieldTerm` of a field instance -/
structure TermOcc where
  term : Bytes
  freq : Nat
  locs : List Loc
deriving DecidableEq, Repr, Inhabited

/-- one field instance of an input document (`segment.Field`) -/
structure FieldInst where
  name : Bytes
  length : Nat
  store : Bool
  dv : Bool
  value : Bytes
  terms : List TermOcc
deriving DecidableEq, Repr, Inhabited

abbrev Doc := List FieldInst
abbrev Batch := List Doc

/-- a term of one field of one document after roll-up -/
structure ATerm where
  term : Bytes
  freq : Nat
  locs : List Loc
deriving DecidableEq, Repr, Inhabited

/-- one field of one document after roll-up -/
structure AField where
  name : Bytes
  length : Nat            -- Σ Length() of all instances
  norm : Nat              -- float32 bit pattern of normCalc(name, length)
  terms : List ATerm      -- ascending by term, no duplicates
  stored : List Bytes     -- values of the storing instances, in document order
  dv : Bool               -- this document has doc values in this field
deriving DecidableEq, Repr, Inhabited

abbrev ADoc := List AField

structure AbsSeg where
  docs : List ADoc
  fields : List Bytes          -- `_id` :: ascending rest
  fieldDocs : List Nat         -- aligned with `fields`
  fieldFreqs : List Nat        -- aligned with `fields`
  chunkMode : Nat
deriving DecidableEq, Repr, Inhabited

/-- a posting as seen through an iterator -/
structure Posting where
  doc : Nat
  freq : Nat
  norm : Nat
  locs : List Loc
deriving DecidableEq, Repr, Inhabited

/-! ### build -/

/-- norm functions used by the correspondence harness: a three-parameter family of strictly
    positive, finite float32 bit patterns -/
structure NormP where
  a : Nat
  b : Nat
  c : Nat
deriving Repr, Inhabited

def NormP.calc (p : NormP) (name : Bytes) (len : Nat) : Nat :=
  1 + (p.a * len + p.b * name.sum + p.c) % 0x7f7fffff

def resolveLoc (fname : Bytes) (l : Loc) : Loc :=
  if l.field.isEmpty then { l with field := fname } else l

/-- all occurrences of one field's terms in a document, grouped by term -/
def rollTerms (fname : Bytes) (occs : List TermOcc) : List ATerm :=
  (sortDedup (occs.map (·.term))).map fun t =>
    let os := occs.filter (fun o => o.term == t)
    { term := t, freq := (os.map (·.freq)).sum,
      locs := os.flatMap (fun o => o.locs.map (resolveLoc fname)) }

def rollField (nc : Bytes → Nat → Nat) (dvFlag : Bytes → Bool) (d : Doc) (n : Bytes) : AField :=
  let insts := d.filter (fun f => f.name == n)
  let len := (insts.map (·.length)).sum
  let terms := rollTerms n (insts.flatMap (·.terms))
  { name := n, length := len, norm := nc n len, terms := terms,
    stored := (insts.filter (·.store)).map (·.value),
    dv := dvFlag n && !terms.isEmpty }

def rollDoc (nc : Bytes → Nat → Nat) (dvFlag : Bytes → Bool) (d : Doc) : ADoc :=
  ((d.map (·.name)).eraseDups).map (rollField nc dvFlag d)

/-- `_id` first, then every other name in ascending byte order -/
def fieldList (names : List Bytes) : List Bytes :=
  idField :: (sortDedup names).filter (fun n => n != idField)

/-- a field has doc values in a built segment iff any instance in the batch asks for them -/
def dvFlagOf (b : Batch) (n : Bytes) : Bool :=
  b.any (fun d => d.any (fun f => f.name == n && f.dv))

def ADoc.field? (d : ADoc) (f : Bytes) : Option AField := d.find? (fun af => af.name == f)

def build (nc : Bytes → Nat → Nat) (mode : Nat) (b : Batch) : AbsSeg :=
  let fields := fieldList (b.flatMap (fun d => d.map (·.name)))
  let docs := b.map (rollDoc nc (dvFlagOf b))
  { docs := docs, fields := fields,
    fieldDocs := fields.map (fun f => docs.countP (fun d => (d.field? f).isSome)),
    fieldFreqs := fields.map (fun f => (docs.map (fun d => match d.field? f with
                                                         | some af => af.length | none => 0)).sum),
    chunkMode := mode }

/-! ### merge -/

/-- documents of `s` not named by `drops`, in order -/
def survivors (s : AbsSeg) (drops : List Nat) : List ADoc :=
  (s.docs.zipIdx.filter (fun p => !drops.contains p.2)).map (·.1)

/-- the old→new document number map of one segment, numbering survivors from `start` -/
def remap (n : Nat) (drops : List Nat) (start : Nat) : List (Option Nat) × Nat :=
  (List.range n).foldl (fun (acc : List (Option Nat) × Nat) i =>
    if drops.contains i then (acc.1 ++ [none], acc.2) else (acc.1 ++ [some acc.2], acc.2 + 1))
    ([], start)

def remapAll : List (Nat × List Nat) → Nat → List (List (Option Nat))
  | [], _ => []
  | (n, drops) :: r, start =>
    let (m, next) := remap n drops start
    m :: remapAll r next

def fieldTermFreq (d : ADoc) (f : Bytes) : Nat :=
  match d.field? f with
  | some af => (af.terms.map (·.freq)).sum
  | none => 0

def fieldHasTerm (d : ADoc) (f : Bytes) : Bool :=
  match d.field? f with
  | some af => !af.terms.isEmpty
  | none => false

def merge (mode : Nat) (ins : List (AbsSeg × List Nat)) : AbsSeg × List (List (Option Nat)) :=
  let docs := ins.flatMap (fun p => survivors p.1 p.2)
  let fields := fieldList (ins.flatMap (fun p => p.1.fields))
  ({ docs := docs, fields := fields,
     fieldDocs := fields.map (fun f => docs.countP (fun d => fieldHasTerm d f)),
     fieldFreqs := fields.map (fun f => (docs.map (fun d => fieldTermFreq d f)).sum),
     chunkMode := mode },
   remapAll (ins.map (fun p => (p.1.docs.length, p.2))) 0)

/-! ### observations -/

def numDocs (s : AbsSeg) : Nat := s.docs.length

/-- ascending list of the live terms of field `f` -/
def terms (s : AbsSeg) (f : Bytes) : List Bytes :=
  sortDedup (s.docs.flatMap (fun d => match d.field? f with
                                       | some af => af.terms.map (·.term) | none => []))

def postingOf (d : ADoc) (i : Nat) (f t : Bytes) : Option Posting :=
  match d.field? f with
  | none => none
  | some af => match af.terms.find? (fun x => x.term == t) with
    | none => none
    | some x => some { doc := i, freq := x.freq, norm := af.norm, locs := x.locs }

/-- the postings of term `t` in field `f`, ascending by document number -/
def postings (s : AbsSeg) (f t : Bytes) : List Posting :=
  s.docs.zipIdx.filterMap (fun p => postingOf p.1 p.2 f t)

/-- stored values of document `n`: by field-list order, input order inside a field -/
def stored (s : AbsSeg) (n : Nat) : List (Bytes × Bytes) :=
  match s.docs[n]? with
  | none => []
  | some d => s.fields.flatMap (fun f => match d.field? f with
                                           | some af => af.stored.map (fun v => (f, v))
                                           | none => [])

/-- doc values of document `n` in field `f` -/
def dvOf (s : AbsSeg) (n : Nat) (f : Bytes) : List Bytes :=
  match s.docs[n]? with
  | none => []
  | some d => match d.field? f with
    | some af => if af.dv then af.terms.map (·.term) else []
    | none => []

/-- (TotalDocumentCount, DocumentCount, SumTotalTermFrequency); zero for unknown fields -/
def stats (s : AbsSeg) (f : Bytes) : Nat × Nat × Nat :=
  match s.fields.idxOf? f with
  | none => (0, 0, 0)
  | some i => (numDocs s, s.fieldDocs.getD i 0, s.fieldFreqs.getD i 0)

/-- ascending union of the documents of the listed (field, term) pairs -/
def docsMatching (s : AbsSeg) (ts : List (Bytes × Bytes)) : List Nat :=
  let ds := ts.flatMap (fun ft => (postings s ft.1 ft.2).map (·.doc))
  (List.range (numDocs s)).filter (fun i => ds.contains i)

/-- dictionary entries (term, count) restricted to a range and a predicate -/
def dictEntries (s : AbsSeg) (f : Bytes) (lo hi : Option Bytes) (aut : Bytes → Bool) :
    List (Bytes × Nat) :=
  ((terms s f).filter (fun t =>
      (match lo with | none => true | some l => Bytes.le l t) &&
      (match hi with | none => true | some h => Bytes.lt t h) && aut t)).map
    (fun t => (t, (postings s f t).length))

end Ice.Spec
