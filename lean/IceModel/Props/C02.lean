import IceModel.Spec.Seg
import IceModel.Lemmas.Build
/-
  Property C02 on the specification level: merging built segments is the same as building the
  surviving documents directly - provided the input batches agree on which fields have doc values
  (`DVConsistent`).  Without that hypothesis the statement is false (`C02_dv_counterexample`),
  which is the known finding KF-C02-dvflag.
-/
namespace Ice.Props.C02
open Ice Ice.Spec

/-- the surviving input documents of a batch -/
def survivorsB (b : Batch) (drops : List Nat) : Batch :=
  (b.zipIdx.filter (fun p => !drops.contains p.2)).map (·.1)

/-- one input of a merge of built segments: batch, chunk mode, deletions -/
structure In where
  batch : Batch
  mode : Nat
  drops : List Nat

def allSurvivors (ins : List In) : Batch := ins.flatMap (fun i => survivorsB i.batch i.drops)

/-- every surviving document sees, for each of its fields, the same doc-values flag in its own
    batch as in the batch of all survivors -/
def DVConsistent (ins : List In) : Prop :=
  ∀ i ∈ ins, ∀ d ∈ survivorsB i.batch i.drops, ∀ f ∈ d,
    dvFlagOf i.batch f.name = dvFlagOf (allSurvivors ins) f.name

instance (ins : List In) : Decidable (DVConsistent ins) := by
  unfold DVConsistent; infer_instance

def mergeBuilt (nc : Bytes → Nat → Nat) (m : Nat) (ins : List In) : AbsSeg :=
  (merge m (ins.map (fun i => (build nc i.mode i.batch, i.drops)))).1

/-- the documents of the merge are the documents of the rebuild -/
theorem C02_docs (nc : Bytes → Nat → Nat) (m : Nat) (ins : List In) (h : DVConsistent ins) :
    (mergeBuilt nc m ins).docs = (build nc m (allSurvivors ins)).docs := by
  simp only [mergeBuilt, merge_docs, build_docs, List.flatMap_map, survivors_build]
  rw [allSurvivors, List.map_flatMap]
  apply flatMap_congr'
  intro i hi
  apply List.map_congr_left
  intro d hd
  exact rollDoc_congr nc _ _ d (h i hi d hd)

/-- … hence every observation that is a function of the documents agrees: dictionaries,
    postings with frequencies, norms and locations, doc values, DocsMatchingTerms -/
theorem C02_observations (nc : Bytes → Nat → Nat) (m : Nat) (ins : List In) (h : DVConsistent ins) :
    let a := mergeBuilt nc m ins
    let b := build nc m (allSurvivors ins)
    numDocs a = numDocs b ∧
    (∀ f, terms a f = terms b f) ∧
    (∀ f t, postings a f t = postings b f t) ∧
    (∀ n f, dvOf a n f = dvOf b n f) ∧
    (∀ ts, docsMatching a ts = docsMatching b ts) ∧
    (∀ f lo hi aut, dictEntries a f lo hi aut = dictEntries b f lo hi aut) := by
  have hd := C02_docs nc m ins h
  exact ⟨numDocs_congr hd, terms_congr hd, postings_congr hd, dvOf_congr hd,
    docsMatching_congr hd, dictEntries_congr hd⟩

/-- the merged field list contains every field of the rebuilt one (it is the union of the
    inputs' lists; fields only deleted documents used stay) -/
theorem C02_fields_superset (nc : Bytes → Nat → Nat) (m : Nat) (ins : List In) :
    ∀ f ∈ (build nc m (allSurvivors ins)).fields, f ∈ (mergeBuilt nc m ins).fields := by
  intro f hf
  rw [build_fields, mem_fieldList] at hf
  rw [mergeBuilt, merge_fields, mem_fieldList]
  rcases hf with hf | hf
  · exact Or.inl hf
  · right
    simp only [allSurvivors, List.mem_flatMap] at hf
    obtain ⟨d, ⟨i, hi, hd⟩, hfd⟩ := hf
    simp only [List.flatMap_map, List.mem_flatMap]
    refine ⟨i, hi, ?_⟩
    rw [build_fields, mem_fieldList]
    right
    exact List.mem_flatMap.2 ⟨d, mem_keepP (p := fun j => !i.drops.contains j) (k := 0) hd, hfd⟩

/-- Without `DVConsistent` the property fails: two one-document batches with the same field `f`
    (byte 102), the first asking for doc values, the second not.  After the merge the second
    survivor has no doc values; after a rebuild it has. -/
theorem C02_dv_counterexample :
    let d1 : Doc := [{ name := [102], length := 1, store := false, dv := true, value := [],
                       terms := [{ term := [97], freq := 1, locs := [] }] }]
    let d2 : Doc := [{ name := [102], length := 1, store := false, dv := false, value := [],
                       terms := [{ term := [97], freq := 1, locs := [] }] }]
    let ins : List In := [{ batch := [d1], mode := 1025, drops := [] }, { batch := [d2], mode := 1025, drops := [] }]
    let nc : Bytes → Nat → Nat := fun _ _ => 1
    dvOf (mergeBuilt nc 1025 ins) 1 [102] = [] ∧
    dvOf (build nc 1025 (allSurvivors ins)) 1 [102] = [[97]] := by
  decide

/-- non-vacuity of `DVConsistent`: a two-batch merge with a deletion that satisfies it -/
example : DVConsistent
    [{ batch := [[{ name := [102], length := 1, store := true, dv := true, value := [1],
                    terms := [{ term := [97], freq := 1, locs := [] }] }], []], mode := 2, drops := [1] },
     { batch := [[{ name := [102], length := 2, store := false, dv := true, value := [],
                    terms := [{ term := [98], freq := 2, locs := [] }] }]], mode := 1025, drops := [] }] := by
  decide

end Ice.Props.C02
