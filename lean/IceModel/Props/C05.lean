import IceModel.Model.Iter
import IceModel.Lemmas.Iter
/-
  Property C05 at the entry level: the model of `PostingsIterator` (general encoding) run on any
  script equals the specification iterator run on the live postings.

  The reader flags must be well formed: `includeLocs` implies `includeFreqNorm`.  Every flag pair
  computed by `PostingsList.iterator` (`RFlags.of`) is well formed; for the remaining pair
  (`incFN = false`, `incL = true`) the equation is false (`C05_entry_needs_wf`), because the code
  decodes no locations when the freq/norm reader is off while `decoded` only looks at `incL`.
-/
namespace Ice.Props.C05
open Ice Ice.Spec Ice.Model.Iter

/-- postings are strictly ascending by document number (roaring bitmaps enumerate ascending) -/
def Sorted (P : List Posting) : Prop := P.Pairwise (fun a b => a.doc < b.doc)

theorem C05_entry (cs : Nat) (hcs : 0 < cs) (P : List Posting) (hP : Sorted P)
    (E : Option (List Nat)) (fl : RFlags) (hfl : fl.incL = true → fl.incFN = true)
    (ops : List IterOp) :
    run (mk cs P E fl) ops = specRun fl (live P E) ops := by
  obtain ⟨lv, cl, hmode, hinv⟩ := mk_inv cs P E fl
  exact run_spec hcs hP hmode hfl ops _ _ hinv

/-- the flags computed by `PostingsList.iterator` are always well formed -/
theorem RFlags.of_wf (fl : Flags) : (RFlags.of fl).incL = true → (RFlags.of fl).incFN = true := by
  intro h
  have h' : fl.locs = true := h
  simp [RFlags.of, h']

theorem C05_entry_of (cs : Nat) (hcs : 0 < cs) (P : List Posting) (hP : Sorted P)
    (E : Option (List Nat)) (fl : Flags) (ops : List IterOp) :
    run (mk cs P E (RFlags.of fl)) ops = specRun (RFlags.of fl) (live P E) ops :=
  C05_entry cs hcs P hP E (RFlags.of fl) (RFlags.of_wf fl) ops

/-- without the well-formedness hypothesis on the flags the statement is false -/
theorem C05_entry_needs_wf :
    ¬ ∀ (cs : Nat) (_ : 0 < cs) (P : List Posting) (_ : Sorted P) (E : Option (List Nat))
        (fl : RFlags) (ops : List IterOp),
        run (mk cs P E fl) ops = specRun fl (live P E) ops := by
  intro h
  have hs : Sorted [{ doc := 0, freq := 0, norm := 0, locs := [⟨[], 0, 0, 1⟩] }] :=
    List.pairwise_singleton _ _
  have := h 1 (by decide) _ hs none ⟨false, true⟩ [.next]
  revert this
  decide

/-! a non-trivial instance: three chunks of size 2, one excluded document, all readers on -/

def exP : List Posting :=
  [ { doc := 0, freq := 1, norm := 10, locs := [⟨[], 0, 0, 1⟩] },
    { doc := 1, freq := 2, norm := 11, locs := [] },
    { doc := 3, freq := 3, norm := 12, locs := [⟨[], 1, 2, 3⟩] },
    { doc := 4, freq := 4, norm := 13, locs := [⟨[], 2, 4, 5⟩, ⟨[], 3, 6, 7⟩] },
    { doc := 5, freq := 5, norm := 14, locs := [] } ]

def exFl : RFlags := RFlags.of { freq := true, norm := true, locs := true }

def exOps : List IterOp := [.next, .advance 2, .advance 1, .next, .next]

example : 0 < 2 ∧ Sorted exP ∧ (exFl.incL = true → exFl.incFN = true) ∧
    run (mk 2 exP (some [3]) exFl) exOps = specRun exFl (live exP (some [3])) exOps :=
  ⟨by decide, by simp [Sorted, exP], by decide,
   C05_entry 2 (by decide) exP (by simp [Sorted, exP]) (some [3]) exFl (by decide) exOps⟩

/-- the transcript of that instance, computed through the specification -/
example : run (mk 2 exP (some [3]) exFl) exOps =
    [ some (some { doc := 0, freq := 1, norm := 10, locs := [⟨[], 0, 0, 1⟩] }),
      some (some { doc := 4, freq := 4, norm := 13, locs := [⟨[], 2, 4, 5⟩, ⟨[], 3, 6, 7⟩] }),
      some (some { doc := 5, freq := 5, norm := 14, locs := [] }),
      some none, some none ] := by
  rw [C05_entry 2 (by decide) exP (by simp [Sorted, exP]) (some [3]) exFl (by decide) exOps]
  decide

end Ice.Props.C05

namespace Ice.Props.C05
open Ice Ice.Spec Ice.Model.Iter

/-- what the caller looks at (per flag) of what the code decoded is what it may look at of the
    true posting -/
theorem view_decoded (fl : Flags) (p : Posting) : view fl (decoded (RFlags.of fl) p) = view fl p := by
  cases fl with
  | mk f n l => cases f <;> cases n <;> cases l <;> simp [view, decoded, RFlags.of]

private theorem specRun_view (fl : Flags) (L : List Posting) (ops : List IterOp) :
    (specRun (RFlags.of fl) L ops).map (fun r => r.map (fun o => o.map (view fl))) =
      (iterRun fl L ops).map some := by
  induction ops generalizing L with
  | nil => rfl
  | cons op ops ih =>
    simp only [specRun, iterRun, List.map_cons]
    rw [ih]
    congr 1
    cases h : (iterStep L op).1 with
    | none => simp
    | some p => simp [view_decoded]

/-- C05 in the vocabulary of the specification the correspondence harness uses
    (`Spec.iterRun`, answers projected to the requested components): the model never faults and
    its answers, seen through the flags, are the specification's -/
theorem C05_view (cs : Nat) (hcs : 0 < cs) (P : List Posting) (hP : Sorted P)
    (E : Option (List Nat)) (fl : Flags) (ops : List IterOp) :
    (run (mk cs P E (RFlags.of fl)) ops).map (fun r => r.map (fun o => o.map (view fl))) =
      (iterRun fl (live P E) ops).map some := by
  rw [C05_entry_of cs hcs P hP E fl ops]
  exact specRun_view fl _ ops

end Ice.Props.C05
