import IceModel.Bridge.ErrFlow
import IceModel.Props.ErrFlow
import IceModel.Props.ErrFlowWrite
import IceModel.Props.ErrFlowRead
import IceModel.Props.ErrFlowPersist
/-
  Error flow, WHOLE PACKAGE: every theorem here ranges over all of `Gen.ErrFlow.flows`, so a change of
  the error flow of any function can break this module.  It is not meant to be registered for a
  property (the per-area modules `ErrFlowWrite`, `ErrFlowRead`, `ErrFlowPersist` are); it records
  that the areas, together with the few functions outside them, account for the whole table.
  The whole-package pinned lists `unchecked_pinned`, `dropped_pinned`, `write_path_covered` are in
  `Bridge/ErrFlow.lean`.
-/
namespace Ice.Props.ErrFlowAll
open Ice Ice.Gen Ice.Bridge.ErrFlow Ice.ErrFlow Ice.Props.ErrFlow

/-- the structured program of a function of the package (`[]` for an unknown name) -/
def progOf (name : String) : Prog := progIn ErrFlow.flows name

/-- every flat event list of the package parses (balanced braces, known events only) -/
theorem parse_flows_ok : ∀ f ∈ ErrFlow.flows, (parse f.2).isSome := by decide +kernel

/-- function names are unique in `flows`, so `progOf` picks THE flow of a function -/
theorem flows_names_nodup : (ErrFlow.flows.map (·.1)).Nodup := by decide +kernel

theorem progOf_flat : ∀ f ∈ ErrFlow.flows, flat (progOf f.1) = f.2 := by decide +kernel

/-- in the package, the call inside a wrapping check `{:err F w R err }` is always `fmt.Errorf` -/
theorem flows_wrappers : ∀ f ∈ ErrFlow.flows, ∀ w ∈ wrappers (progOf f.1), w = "Errorf" := by
  decide +kernel

/-- functions without an exception … -/
def covered : List String := (ErrFlow.flows.filter (fun f => unchecked f.2 = [])).map (·.1)
/-- … and with one -/
def notCovered : List String := (ErrFlow.flows.filter (fun f => unchecked f.2 ≠ [])).map (·.1)

/-- all 90 functions without an exception are sound: a failing call makes them return a non-nil
    error at once (modulo the discarded results pinned in `dropped_pinned`) -/
theorem sound_covered : ∀ n ∈ covered, Sound (progOf n) := by
  have h : ∀ n ∈ covered, Disc (progOf n) := by decide +kernel
  exact fun n hn => sound_of_disc (h n hn)

theorem covered_length : covered.length = 90 ∧ notCovered.length = 11 := by decide +kernel

/-- the functions NOT covered are exactly those named in `unchecked_pinned` -/
theorem notCovered_eq :
    notCovered = (allUnchecked.map (·.1)).eraseDups ∧
    notCovered =
      ["DictionaryIterator.Next", "PostingsIterator.nextAtOrAfter", "Segment.Dictionary",
       "Segment.visitDocument", "enumerator.Close", "enumerator.Next", "interim.reset",
       "mergeTermFreqNormLocs", "newWithChunkMode", "persistMergedRestField",
       "setupActiveForField"] := by
  constructor <;> decide +kernel

/-- every function is in one of the two lists -/
theorem covered_or_not : ∀ f ∈ ErrFlow.flows, f.1 ∈ covered ∨ f.1 ∈ notCovered := by
  decide +kernel

/-- of the write path (`write_path_covered`), only `persistMergedRestField` has exceptions -/
theorem write_path_exceptions :
    (["Segment.WriteTo", "Merger.WriteTo", "mergeToWriter", "persistMergedRest",
      "persistMergedRestField", "persistFooter", "persistFields", "writePostings",
      "mergeStoredAndRemap", "interim.convert", "interim.writeStoredFields",
      "interim.writeDicts"].filter (· ∈ notCovered)) = ["persistMergedRestField"] := by
  decide +kernel

/-- the functions that belong to no area -/
theorem outside_areas :
    (ErrFlow.flows.map (·.1)).filter
        (fun n => n ∉ ErrFlowWrite.writeFns ∧ n ∉ ErrFlowRead.readFns ∧ n ∉ ErrFlowPersist.persistFns) =
      ["New", "ZSTDCompress", "enumerator.Close", "enumerator.Next", "initSegmentBase",
       "interim.reset", "newEnumerator"] := by decide +kernel

/-- the area tables agree with the whole table on their functions -/
theorem areas_agree :
    (∀ n ∈ ErrFlowWrite.writeFns, ErrFlowWrite.progOf n = progOf n) ∧
    (∀ n ∈ ErrFlowRead.readFns, ErrFlowRead.progOf n = progOf n) ∧
    (∀ n ∈ ErrFlowPersist.persistFns, ErrFlowPersist.progOf n = progOf n) :=
  ⟨ErrFlowWrite.write_progOf_whole, ErrFlowRead.read_progOf_whole,
   ErrFlowPersist.persist_progOf_whole⟩

/-! ### the exceptions outside the areas (the others are commented in `ErrFlowWrite`, `ErrFlowRead`)

  * `enumerator.Next` / `Next` (enumerator.go): `err := m.itrs[vi].Next();
    if err != nil && err != vellum.ErrIteratorDone { return err }` - a COMBINED CONDITION (the translator
    marks `{:err` only for the bare `x != nil`).  The sentinel is swallowed on purpose (an exhausted
    iterator is recognised by `updateMatches`); anything else is returned at once.  HARMLESS.
  * `enumerator.Close` / `Close` (enumerator.go): `for … { err := itr.Close(); if rv == nil { rv = err } };
    return rv` - the FIRST error is kept and returned at the end, but the remaining iterators are still
    closed: "returns non-nil after a failure" holds, "fails fast" is violated ON PURPOSE.
  * `interim.reset` / `Reset` (new.go): `if s.builder != nil { err = s.builder.Reset(&s.builderBuf) }`
    then four field resets (no calls) and `return err` - RETURNED AT THE END.  HARMLESS.
-/

end Ice.Props.ErrFlowAll
