import IceModel.Lemmas.Pool
import IceModel.Props.C01
/-
  Property C14: the bytes `New` produces depend only on the batch, the norm function and the chunk
  mode - not on which batches were built before (the pooled builder state), not on map iteration
  order, not on other builds running concurrently.

  Proved here on the level of entries (`Built`, the value the byte-level theorems C04-C08, C11, C12
  encode) for the builder algorithm of new.go INCLUDING its `sync.Pool`: `Model/Pool.lean` runs the
  passes of `Model/Builder.lean` on the object taken from the pool - re-sliced backing arrays with the
  cells earlier builds left in them, windows with the capacity of the whole reused array, stale slice
  headers - instead of on the fresh state `Builder.run` starts from.

    * `Clean` is what the next build relies on; `&interim{}` is clean (`C14_fresh_clean`); reset()
      (the plan generated from /repo, `C14_reset_is_plan`) re-establishes it after ANY build that
      returns, inside the contract or not (`C14_reset_clean`);
    * on a clean object the build returns what a fresh builder returns (`C14_reuse_invisible`), for
      every map order (`C14_reuse_order_invisible`);
    * hence after any history of calls - other batches, norm functions, map orders, failed calls
      whose object is dropped - the next call returns the result of `Builder.run` on its own batch
      (`C14_history`), and so does every one of several builders working concurrently on objects
      they own exclusively, in any interleaving of Get / build / Put (`C14_concurrent`);
    * the clearing loops of reset() are load-bearing: without the one of `IncludeDocValues` a field
      inherits the doc-value flag of the field that had its index in the previous batch
      (`C14_v0_counterexample`), without `Clear()` a term inherits the documents of the postings
      list that had its id (`C14_v1_counterexample`).

  Assumptions of the model (see Model/Pool.lean): `append` never reads cells beyond `len` (so the
  slices that only grow by `append` are represented by their content and their shape is replayed);
  `sync.Pool` hands an object to one caller at a time and nothing else shares an `interim`; the byte
  buffers are write-before-read scratch space on the byte level.
-/
namespace Ice.Props.C14
open Ice Ice.Spec Ice.Model.Builder Ice.Model.Pool

/-! ### the invariant -/

/-- `Clean obj`: every slice has length 0; every cell of `IncludeDocValues`' array is false; every
    bitmap in `Postings`' array is empty; every key slice in `DictKeys`' array has length 0.  The cells
    of `freqNormsBacking`/`locsBacking`, the slice headers in `FreqNorms`/`Locs`, the counters, the maps
    and strings are unconstrained. -/
theorem C14_clean_def (o : PoolObj) : Clean o ↔
    (o.fieldsInv.len = 0 ∧ o.dicts.len = 0 ∧ o.dictKeys.len = 0 ∧ o.includeDV.len = 0 ∧
     o.postings.len = 0 ∧ o.freqNorms.len = 0 ∧ o.fnBacking.len = 0 ∧ o.locs.len = 0 ∧
     o.locBacking.len = 0 ∧ o.numTerms.len = 0 ∧ o.numLocs.len = 0 ∧
     o.builderBuf.len = 0 ∧ o.metaBuf.len = 0 ∧ o.tmp0.len = 0 ∧ o.tmp1.len = 0) ∧
    (∀ x ∈ o.includeDV.backing, x = false) ∧
    (∀ x ∈ o.postings.backing, x = []) ∧
    (∀ g ∈ o.dictKeys.backing, g.len = 0) :=
  ⟨fun h => ⟨⟨h.fieldsInv, h.dicts, h.dictKeys, h.includeDV, h.postings, h.freqNorms, h.fnBacking,
      h.locs, h.locBacking, h.numTerms, h.numLocs, h.bufs⟩, h.includeDVIn, h.postingsIn, h.dictKeysIn⟩,
   fun ⟨⟨a, b, c, d, e, f, g, h, i, j, k, l⟩, m, n, p⟩ => ⟨a, b, c, p, d, m, e, n, f, g, h, i, j, k, l⟩⟩

/-- `&interim{}`, what `sync.Pool.New` returns (new.go:112) -/
theorem C14_fresh_clean : Clean PoolObj.fresh := clean_fresh

/-- the model's reset() is the interpretation of the plan generated from /repo's reset()
    (new.go:179-224), field by field and statement by statement -/
theorem C14_reset_is_plan :
    Plan.names resetActs = Ice.Gen.PoolReset.resetPlan ∧ ∀ o, interp resetActs o = some (reset o) :=
  ⟨reset_implements_plan.2.1, reset_implements_plan.2.2⟩

/-- reset() drops `FieldsInv` (`= nil`, not `[:0]`): the segment just returned keeps that array -/
theorem C14_reset_drops_fieldsInv (o : PoolObj) : (reset o).fieldsInv.cap = 0 := reset_fieldsInv_nil o

/-- the pool model EXTENDS the builder model of C01: on `&interim{}` the build from a pooled object is
    `Builder.run`, for every batch (inside the contract or not) and every order, errors included -/
theorem C14_fresh_is_run (nc : Bytes → Nat → Nat) (π : Order) (b : Batch) :
    (buildFrom PoolObj.fresh nc π b).map (·.1) = run nc π b := buildFrom_fresh nc π b

/-! ### reuse is invisible -/

/-- THE CORE: a build on a clean pooled object - reused arrays, stale cells, larger window
    capacities - returns exactly what a fresh builder returns -/
theorem C14_reuse_invisible {o : PoolObj} (ho : Clean o) (nc : Bytes → Nat → Nat) (π : Order)
    (b : Batch) (hv : ValidBatch b) (hπ : PermOK π) :
    (buildFrom o nc π b).map (·.1) = run nc π b :=
  reuse_invisible ho nc π b hv hπ

/-- … and neither the pooled object nor the map order matters: the result is the one of a fresh
    builder iterating its maps in insertion order, `builtOf nc b` -/
theorem C14_reuse_order_invisible {o : PoolObj} (ho : Clean o) (nc : Bytes → Nat → Nat) (π : Order)
    (b : Batch) (hv : ValidBatch b) (hπ : PermOK π) :
    (buildFrom o nc π b).map (·.1) = run nc idOrder b ∧ run nc idOrder b = .ok (builtOf nc b) := by
  rw [reuse_invisible ho nc π b hv hπ, Ice.Props.C01.C01_order_independent nc π b hv hπ]
  exact ⟨rfl, run_eq nc idOrder b hv (fun _ _ m => List.Perm.refl m)⟩

/-- two clean objects, two map orders: the same result -/
theorem C14_any_two {o o' : PoolObj} (ho : Clean o) (ho' : Clean o') (nc : Bytes → Nat → Nat)
    (π π' : Order) (b : Batch) (hv : ValidBatch b) (hπ : PermOK π) (hπ' : PermOK π') :
    (buildFrom o nc π b).map (·.1) = (buildFrom o' nc π' b).map (·.1) := by
  rw [(C14_reuse_order_invisible ho nc π b hv hπ).1, (C14_reuse_order_invisible ho' nc π' b hv hπ').1]

/-- after a build that returned - whatever the batch, the norm function, the order; no contract
    needed - reset() makes the object clean again -/
theorem C14_reset_clean {o o' : PoolObj} (ho : Clean o) {nc : Bytes → Nat → Nat} {π : Order}
    {b : Batch} {r : Built} (e : buildFrom o nc π b = .ok (r, o')) :
    Clean (reset o') ∧ Clean (recycle nc b o') :=
  ⟨reset_clean ho e, clean_recycle nc b (reset_clean ho e)⟩

/-! ### histories -/

/-- after ANY list of earlier calls of `New` (each with its own batch, norm function and map order;
    `returned = false` drops the object, a call whose build fails drops it too; then the next call
    gets a fresh object) the pool is empty or holds a clean object -/
theorem C14_pool_invariant (hist : List Attempt) : ∀ o, Pool.after hist = some o → Clean o :=
  pool_after_ok hist

/-- … and the next call returns what `Builder.run` returns on its batch alone -/
theorem C14_history (hist : List Attempt) (nc : Bytes → Nat → Nat) (π : Order) (b : Batch)
    (hv : ValidBatch b) (hπ : PermOK π) (returned : Bool) :
    (newWith (Pool.after hist) nc π b returned).1 = run nc π b :=
  history_invisible hist nc π b hv hπ returned

/-! ### concurrent builders -/

/-- any assignment of clean (or fresh) objects to builders: every builder gets its solo result, and
    what is put back is clean -/
theorem C14_concurrent_assign (jobs : List (PoolObj × Job)) (hc : ∀ j ∈ jobs, Clean j.1) :
    ∀ j ∈ jobs,
      (ValidBatch j.2.b → PermOK j.2.π →
        (buildFrom j.1 j.2.nc j.2.π j.2.b).map (·.1) = run j.2.nc j.2.π j.2.b) ∧
      (∀ r o', buildFrom j.1 j.2.nc j.2.π j.2.b = .ok (r, o') → Clean (recycle j.2.nc j.2.b o')) :=
  fun j hj => ⟨fun hv hπ => reuse_invisible (hc j hj) _ _ _ hv hπ,
               fun _ _ e => clean_recycle _ _ (reset_clean (hc j hj) e)⟩

/-- any interleaving of Get / build / Put of any number of builders over a shared pool (a multiset of
    objects, `Get` takes any of them or a fresh one, an object belongs to one builder until it is put
    back): at every moment all pooled and all held objects are clean, and every result recorded for a
    call inside the contract is `Builder.run` of that call's own batch -/
theorem C14_concurrent (jobs : Nat → Job) (evs : List Ev) :
    (∀ o ∈ (Sys.run jobs evs).pool, Clean o) ∧
    (∀ x ∈ (Sys.run jobs evs).held, Clean x.2) ∧
    (∀ x ∈ (Sys.run jobs evs).results, ValidBatch (jobs x.1).b → PermOK (jobs x.1).π →
      x.2 = run (jobs x.1).nc (jobs x.1).π (jobs x.1).b) :=
  ⟨(sysOK_run jobs evs).pool, (sysOK_run jobs evs).held, (sysOK_run jobs evs).results⟩

/-! ### executable examples -/

open Ice.Props.C01 (nA tx ty nc0 revOrder)

def fld (dv : Bool) (ts : List Bytes) : FieldInst :=
  { name := nA, length := ts.length, store := false, dv := dv, value := [],
    terms := ts.map (fun t => { term := t, freq := 1,
                                locs := [{ field := [], pos := 1, start := 0, stop := 1 }] }) }

/-- A: two documents, field `a` (index 1) asks for doc values; 2 postings lists, 3 freq/norms -/
def bA : Batch := [[fld true [tx, ty]], [fld true [tx]]]
/-- B: one document, field `a` does NOT ask for doc values; 1 postings list, 1 freq/norm -/
def bB : Batch := [[fld false [ty]]]
/-- C: larger than A: 3 postings lists, 5 freq/norms -/
def bC : Batch := [[fld false [tx, ty, nA]], [fld false [tx]], [fld true [nA]]]

def resultOf (x : M (Built × PoolObj)) : Option Built :=
  match x with
  | .ok (r, _) => some r
  | .error _ => none

def objOf (x : M (Built × PoolObj)) : PoolObj :=
  match x with
  | .ok (_, o) => o
  | .error _ => PoolObj.fresh

def errOf (x : M (Built × PoolObj)) : Option BuildErr :=
  match x with
  | .ok _ => none
  | .error e => some e

def soloOf (x : M Built) : Option Built :=
  match x with
  | .ok r => some r
  | .error _ => none

/-- the object as the build of A leaves it -/
def objAfterA : PoolObj := objOf (buildFrom PoolObj.fresh nc0 idOrder bA)

example : ValidBatch bA ∧ ValidBatch bB ∧ ValidBatch bC := by decide

/-- the build of A leaves its data in the object: not clean; reset() cleans it and keeps the arrays -/
example : ¬ Clean objAfterA ∧ Clean (reset objAfterA) ∧
    (reset objAfterA).includeDV = { backing := [false, false], len := 0 } ∧
    (reset objAfterA).postings = { backing := [[], []], len := 0 } ∧
    (reset objAfterA).fnBacking.cap = 3 ∧ (reset objAfterA).locBacking.cap = 3 ∧
    (reset objAfterA).dictKeys = { backing := [{}, { backing := [tx, ty], len := 0 }], len := 0 } := by
  decide

/-- B on the recycled object of A runs WITHIN the capacity of A's arrays: its single window is
    `freqNormsBacking[0:0]` with capacity 3 (a fresh builder: capacity 1), `Postings` is re-sliced -/
example :
    let o := objOf (buildFrom (reset objAfterA) nc0 idOrder bB)
    o.freqNorms.content = [.shared 0 1 3] ∧ o.fnBacking.len = 1 ∧ o.fnBacking.cap = 3 ∧
    o.postings = { backing := [[0], []], len := 1 } ∧
    o.includeDV = { backing := [false, false], len := 2 } := by decide

/-- … and returns what a fresh builder returns -/
example : resultOf (buildFrom (reset objAfterA) nc0 idOrder bB) = soloOf (run nc0 idOrder bB) := by
  decide

/-- a history A, B, (a dropped attempt), C, B - within capacity, beyond capacity (C re-allocates),
    within again - with different map orders: the last call returns the solo result -/
def hist : List Attempt :=
  [⟨nc0, idOrder, bA, true⟩, ⟨nc0, revOrder, bB, true⟩, ⟨nc0, idOrder, bA, false⟩,
   ⟨nc0, revOrder, bC, true⟩]

example : soloOf (newWith (Pool.after hist) nc0 idOrder bB true).1 = soloOf (run nc0 idOrder bB) ∧
    (Pool.after hist).get.fnBacking.cap = 5 ∧ (Pool.after hist).get.postings.cap = 3 := by decide

/-! ### the clearing loops of reset() are necessary -/

def dvOfRes (x : Option Built) (n : Nat) (f : Bytes) : List Bytes :=
  match x with
  | some r => r.dvOf n f
  | none => []

/-- reset() WITHOUT the loop `IncludeDocValues[i] = false` (new.go:193-195; the truncation is kept):
    field `a` has index 1 in A and in B; A asks for doc values, B does not.  B built on the object
    recycled from A returns a doc-value column for `a`; a fresh builder returns none. -/
theorem C14_v0_counterexample :
    ValidBatch bB ∧ ¬ Clean (reset_v0 objAfterA) ∧
    (reset_v0 objAfterA).includeDV = { backing := [false, true], len := 0 } ∧
    dvOfRes (resultOf (buildFrom (reset_v0 objAfterA) nc0 idOrder bB)) 0 nA = [ty] ∧
    dvOfRes (soloOf (run nc0 idOrder bB)) 0 nA = [] := by decide

/-- B': term `x` of the second document gets postings id 0, the id `x` had in A -/
def bB' : Batch := [[fld false []], [fld false [tx]]]

/-- reset() WITHOUT `idn.Clear()` (new.go:197-199): the bitmap of postings list 0 still holds A's
    documents {0, 1}; in B' the term `x` (postings list 0) occurs in document 1 only.  The dictionary
    writer walks the bitmap {0, 1} but pass 2 recorded ONE freq/norm: `freqNorms[1]` is out of range
    (new.go:799) - the build on the recycled object panics where a fresh builder succeeds. -/
theorem C14_v1_counterexample :
    ValidBatch bB' ∧ ¬ Clean (reset_v1 objAfterA) ∧
    (reset_v1 objAfterA).postings = { backing := [[0, 1], [0]], len := 0 } ∧
    errOf (buildFrom (reset_v1 objAfterA) nc0 idOrder bB') = some (.index 799) ∧
    (soloOf (run nc0 idOrder bB')).isSome = true := by decide

-- UNPROVED: none of the statements staged for C14 is left open.  Outside the scope of these
-- theorems (modelling assumptions, not proof gaps):
--   * the step from `Built` to bytes is the subject of the byte-level properties (C04-C08, C11, C12);
--     the chunk mode enters only there;
--   * the shape (capacity, stale tail) of the append-only slices after a build is REPLAYED from their
--     content (`harvest`), it is not derived from a statement-by-statement Go-slice semantics of every
--     `append` in the passes; `Clean (reset obj')` depends on it only through `harvestKeys_rest`;
--   * outside the input contract (`ValidBatch`, `PermOK`) only `C14_fresh_is_run`, `C14_reset_clean`
--     and the pool invariants hold; `C14_reuse_invisible` is not claimed there (a window that outgrows
--     its reservation re-allocates in a fresh builder but writes on into the spare capacity of a
--     reused array);
--   * `lastNumDocs`/`lastOutSize` do not influence the result but do influence how much `br.Grow`
--     allocates up front (new.go:47-57): previous-average-bytes-per-doc × (len(results)+100).

end Ice.Props.C14
