import IceModel.Bridge.Mutations
/-
  Property C15: reading, persisting and merging never modify a segment or the caller's bitmaps.

  Heap model: bitmaps live in cells; every cell has an *origin class* (how the code reached it).
  An operation is a sequence of mutations, each of a cell of some origin class.  The frame theorem
  says that cells of classes the operation never mutates keep their value; the instance plugs in
  the table of ALL mutation sites of the package regenerated from /repo (`Gen.Mutations`), whose
  origins are disjoint from everything a caller owns.  Segment images are immutable byte slices:
  the package never stores into a slice obtained from `segment.Data` (there is no assignment
  through such a slice; the bitmaps decoded from it are copied by `FromBuffer`… see DESIGN.md),
  which the snapshot leg of the harness checks dynamically.
-/
namespace Ice.Props.C15
open Ice

abbrev Cell := Nat

structure Mutation where
  cell : Cell
  val : List Nat
deriving Repr

def applyM (h : Cell → List Nat) (m : Mutation) : Cell → List Nat :=
  fun c => if c = m.cell then m.val else h c

/-- frame: an operation that only mutates cells outside `protected` leaves every protected cell
    as it was - for any sequence of mutations -/
theorem frame (protectedCell : Cell → Bool) (ms : List Mutation) (h : Cell → List Nat)
    (hown : ∀ m ∈ ms, protectedCell m.cell = false) :
    ∀ c, protectedCell c = true → (ms.foldl applyM h) c = h c := by
  induction ms generalizing h with
  | nil => intro c _; rfl
  | cons m ms ih =>
    intro c hc
    simp only [List.foldl_cons]
    rw [ih (applyM h m) (fun m' hm' => hown m' (List.mem_cons_of_mem _ hm')) c hc]
    have : protectedCell m.cell = false := hown m (List.mem_cons_self)
    unfold applyM
    by_cases hcm : c = m.cell
    · subst hcm; simp_all
    · simp [hcm]

/-- origin classes of bitmaps that belong to the caller: the deletion bitmaps handed to `Merge`
    (they travel through `Merger.drops` and the `drops`/`dropsIn` parameters), the exclusion
    bitmap handed to `PostingsList` (`PostingsList.except`), a replaced actual bitmap, and any
    bitmap entering through a parameter of an exported function - except the documented output
    parameter of `OrInto` -/
def callerOwned (origin : String × String) : Bool :=
  origin == ("field", "Merger.drops") || origin == ("field", "PostingsList.except") ||
  origin == ("field", "PostingsIterator.ActualBM") ||
  (origin.1 == "entry-param" && origin.2 != "PostingsList.OrInto#0") ||
  origin.1 == "other" || origin.1 == "receiver"

/-- no mutation site of the package touches a caller-owned bitmap -/
theorem C15_sites_owned :
    ∀ m ∈ Gen.Mutations.mutatedRoots, callerOwned (m.2.2.1, m.2.2.2) = false := by
  decide

/-- the two tables agree: what is mutated is one of the four owned origins -/
theorem C15_owned_not_caller : ∀ o ∈ Bridge.ownedOrigins, callerOwned o = false := by decide

/-- C15 on the heap model: assign every cell its origin class; any run of operations whose
    mutations all come from the generated site table leaves caller-owned cells unchanged -/
theorem C15 (originOf : Cell → String × String) (ms : List Mutation) (h : Cell → List Nat)
    (hsites : ∀ m ∈ ms, ∃ s ∈ Gen.Mutations.mutatedRoots, originOf m.cell = (s.2.2.1, s.2.2.2)) :
    ∀ c, callerOwned (originOf c) = true → (ms.foldl applyM h) c = h c := by
  apply frame (fun c => callerOwned (originOf c)) ms h
  intro m hm
  obtain ⟨s, hs, he⟩ := hsites m hm
  show callerOwned (originOf m.cell) = false
  rw [he]
  exact C15_sites_owned s hs

/-- non-vacuity: a deletion bitmap is protected, the builder's bitmaps are not -/
example : callerOwned ("field", "Merger.drops") = true ∧ callerOwned ("field", "interim.Postings") = false ∧
    callerOwned ("entry-param", "mergeStoredAndRemap#1") = true := by decide

end Ice.Props.C15
