import IceModel.Model.Format
import IceModel.Lemmas.Format
import IceModel.Lemmas.FormatLoad
import IceModel.Props.C06
import IceModel.Props.C07
import IceModel.Props.C11
import IceModel.Props.ChunkBytes
/-
  Property C04 on the byte level: every segment ice writes can be loaded back and reads
  identically - the CONTAINER around the sections.

  `serialize K L = .ok (data, ft)` is a segment ice has written (builder or merger, see
  `Model/Format.lean`); `fileOf K data ft` is the file.  All theorems are for `Valid K L`
  (decidable) and for both backings `mem` of `segment.Data`.  Every read of the loader is strict
  (fails or panics outside the data section), so each "… = .ok …" below contains the in-bounds
  statement for the windows it opens (`read_inbounds`, `C04_tail`).

    C04_footer    parseFooter finds the footer values serialize recorded (C11_parse_persist)
    C04_count     the byte count WriteTo / the merger report is the file length
    C04_tail      the fields section (≥ 15 bytes) closes the data section exactly
    C04_fields    load: names, fieldDocs, fieldFreqs, one dictLoc per field, in order
    C04_stored    the loaded stored-fields reader is the built one; all visits as in C06
    C04_dv        doc-value readers per field as in C07 (any order of visits); none without
    C04_dict      dictionaryOf returns the FST: keys in order, 1-hit codes / record offsets
    C04_postings  readPostings at the FST value: 1-hit (doc, norm) or the record; decoders at
                  freqOffset / locOffset give back the entries chunk by chunk (T6/T7)
    C04_empty     zero-document segments of both writers serialize and load
    C04_empty_v0_counterexample   the pre-49af17c merger file makes `load` panic (by `decide`)
    ex_*          a two-field, three-document segment serialized and loaded back (kernel-checked)

  -- PROVED ELSEWHERE (Props/C04Total.lean): the three items below - `C04_total`,
  -- `C04_backing_irrelevant`, `C04_new_eq_load`.  They were not part of this file:
  --  * totality of the writer: "`serialize K L` succeeds for every structurally valid `L` whose
  --    output stays below 2^62 bytes".  All theorems take the successful run as a hypothesis
  --    (`hs`), which is the shape of C04 ("every segment ice *writes*"); `serialize_zero` proves
  --    totality for segments without documents, `ex_serialize` for the example.
  --  * one loaded value for both backings: `load true` and `load false` are each shown to
  --    succeed with the same fields / offsets / stored offsets, and with doc-value readers that
  --    satisfy the same C07 statements; that the reader structures are *equal* would need the
  --    closed form of the reader (`DocValues.Layout.load`) threaded through `dv_field`.
  --  * the segment `New` returns without going through a file (`initSegmentBase`: fields and
  --    offsets from memory, `loadDvReaders` on the data section without footer): it shares
  --    `dictionaryOf` / `readPostings` / `loadDvReaders` and the stored-fields reader
  --    (`C04_stored` shows the loaded reader *is* `Stored.segOfNew`), but is not stated here.
-/
namespace Ice.Props.C04
open Ice Ice.Model Ice.Model.Format
open Ice.Model.Writer (be unbe Footer footerFields persistFooter parseFooter CRC)
open Ice.Model.ChunkBytes (Entry Coder tfAdds locAdds uvarintU64 Fresh)
open Ice.Model.DocValues (add64 sub64 maxUint64 Data)

/-- Valid descriptions: `_id` is field 0 (so there is at least one field), fewer than 2^16
    fields (field ids are `uint16`), `numDocs` is the number of stored documents and fits the
    `uint32` document numbers of roaring, a chunk mode `getChunkSize` knows and that does not
    divide by zero, valid fields (`FieldDesc.Valid`: numbers in `uint64`, term keys ascending,
    postings valid as in `ChunkBytes`, doc values valid as in C07), a description without
    documents has no terms, doc values or statistics (both writers then write zeros: the
    `fieldDocs` / `fieldFreqs` maps are empty resp. nil), stored content valid as in C06
    (incl. the `uint32` trailer fields), and the file is shorter than 2^62 bytes. -/
structure Valid (K : Codecs) (L : LSeg) : Prop where
  id_first : L.fields.head?.map (·.name) = some idField
  nfields : L.fields.length < 2 ^ 16
  numDocs_eq : L.numDocs = L.stored.length
  numDocs_lt : L.numDocs < 2 ^ 32
  mode : 1 ≤ L.chunkMode ∧ L.chunkMode ≤ 1025
  fields : ∀ f ∈ L.fields, f.Valid L.merger L.numDocs
  empty : L.numDocs = 0 → ∀ f ∈ L.fields,
    f.terms = [] ∧ f.dv = none ∧ f.fieldDocs = 0 ∧ f.fieldFreqs = 0
  stored : C06.Valid K.stored docBlock L.fields.length L.stored
  trailer : ((storedOut K L).chunkOffsets.flatMap putUvarint).length < 2 ^ 32 ∧
    (storedOut K L).chunkOffsets.length < 2 ^ 32
  size : match serialize K L with
    | .ok (data, _) => data.length + 44 < 2 ^ 62
    | _ => True

theorem Valid.size_lt {K : Codecs} {L : LSeg} (hv : Valid K L) {data : Bytes} {ft : Footer}
    (hs : serialize K L = .ok (data, ft)) : data.length + 44 < 2 ^ 62 := by
  have := hv.size
  rw [hs] at this
  exact this

theorem Valid.fields_ne {K : Codecs} {L : LSeg} (hv : Valid K L) : L.fields ≠ [] := by
  intro h
  have := hv.id_first
  rw [h] at this
  cases this

/-! ## the shape of a written segment -/

/-- everything the theorems below use about a written segment -/
structure Written (K : Codecs) (L : LSeg) (data : Bytes) (ft : Footer) (mid : Bytes)
    (dictLocs : List Nat) : Prop where
  shape : Shape K L data ft mid dictLocs
  zero : L.numDocs = 0 → mid = [] ∧ dictLocs = L.fields.map (fun _ => 0) ∧
    ft.docValueOffset = if L.merger then maxUint64 else 0
  pos : 0 < L.numDocs → ∃ fb outs, Middle K L ft mid dictLocs fb outs
  len : data.length + 44 < 2 ^ 62

theorem written {K : Codecs} {L : LSeg} (hv : Valid K L) {data : Bytes} {ft : Footer}
    (hs : serialize K L = .ok (data, ft)) : ∃ mid dictLocs, Written K L data ft mid dictLocs := by
  obtain ⟨mid, dictLocs, h1, h2, h3⟩ := serialize_inv K L data ft hv.numDocs_lt hs
  exact ⟨mid, dictLocs, h1, h2, h3, hv.size_lt hs⟩

/-- the fields of a segment with documents, one by one: where each one's bytes lie and what was
    recorded for it -/
theorem middle_fields {K : Codecs} {L : LSeg} (hv : Valid K L) (hnd : 0 < L.numDocs)
    {ft : Footer} {mid : Bytes} {dictLocs : List Nat} {fb : Bytes} {outs : List FieldOut}
    (hm : Middle K L ft mid dictLocs fb outs) :
    outs.length = L.fields.length ∧
    ∀ (i : Nat) (f : FieldDesc), L.fields[i]? = some f →
      ∃ Bpre b Bpost o, fb = Bpre ++ b ++ Bpost ∧ outs[i]? = some o ∧
        FieldPost K L.merger L.chunkMode L.numDocs f ((storedOut K L).bytes.length + Bpre.length) b o := by
  obtain ⟨tf, lc, st', hf1, hf2, hrun⟩ := hm.run
  obtain ⟨_, hlen, hel⟩ := foldW_inv (writeField K L.merger L.chunkMode L.numDocs)
    (fun s => Fresh s.tf ∧ Fresh s.lc) (FieldPost K L.merger L.chunkMode L.numDocs) L.fields
    (fun s c x s' b o hI hx hs =>
      writeField_inv K L.merger L.chunkMode L.numDocs hv.mode.1 hnd hv.numDocs_lt s s' c x b o hI
        (hv.fields x hx) hs)
    { tf := tf, lc := lc } _ st' fb outs ⟨hf1, hf2⟩ hrun
  exact ⟨hlen, hel⟩

theorem dictLocs_lt {K : Codecs} {L : LSeg} (hv : Valid K L) {data : Bytes} {ft : Footer}
    {mid : Bytes} {dictLocs : List Nat} (hw : Written K L data ft mid dictLocs) :
    ∀ x ∈ dictLocs, x < 2 ^ 64 := by
  intro x hx
  by_cases hnd : 0 < L.numDocs
  · obtain ⟨fb, outs, hm⟩ := hw.pos hnd
    obtain ⟨hlen, hel⟩ := middle_fields hv hnd hm
    rw [hm.dl_eq] at hx
    obtain ⟨o, ho, rfl⟩ := List.mem_map.mp hx
    obtain ⟨i, hi⟩ := List.mem_iff_getElem?.mp ho
    have hil : i < L.fields.length := by
      rw [← hlen]
      by_cases h : i < outs.length
      · exact h
      · rw [List.getElem?_eq_none (by omega)] at hi; cases hi
    obtain ⟨_, _, _, o', _, ho', hp⟩ := hel i _ (List.getElem?_eq_getElem hil)
    rw [hi] at ho'; cases ho'
    obtain ⟨_, _, _, _, _, _, _, hd, _⟩ := hp
    rw [hd]; exact u64_lt _
  · obtain ⟨_, hd, _⟩ := hw.zero (by omega)
    rw [hd] at hx
    obtain ⟨_, _, rfl⟩ := List.mem_map.mp hx
    decide

/-! ## C04_footer -/

theorem storedIndexOffset_le (K : Codecs) (L : LSeg) :
    (storedOut K L).storedIndexOffset ≤ (storedOut K L).bytes.length := by
  obtain ⟨W, dso, hb, hs, _, _⟩ := Stored.writeStoredFields_located K.stored docBlock (by decide) L.stored
  unfold storedOut
  rw [hb, hs]; simp

theorem footer_fits {K : Codecs} {L : LSeg} (hv : Valid K L) {data : Bytes} {ft : Footer}
    {mid : Bytes} {dictLocs : List Nat} (hw : Written K L data ft mid dictLocs) (c : Nat) :
    C11.Footer.Fits { ft with crc := c } := by
  have hlen := hw.len
  have hd := congrArg List.length hw.shape.data_eq
  simp only [List.length_append] at hd
  have hsio := storedIndexOffset_le K L
  refine ⟨?_, ?_, ?_, ?_, ?_, hw.shape.version⟩
  · show ft.numDocs < 2 ^ 64
    rw [hw.shape.numDocs]; have := hv.numDocs_lt; omega
  · show ft.storedIndexOffset < 2 ^ 64
    rw [hw.shape.sio]; omega
  · show ft.fieldsIndexOffset < 2 ^ 64
    rw [hw.shape.fio]; exact u64_lt _
  · show ft.docValueOffset < 2 ^ 64
    by_cases hnd : 0 < L.numDocs
    · obtain ⟨fb, outs, hm⟩ := hw.pos hnd
      rw [hm.dvo]; exact u64_lt _
    · obtain ⟨_, _, h⟩ := hw.zero (by omega)
      rw [h]; split <;> decide
  · show ft.chunkMode < 2 ^ 32
    rw [hw.shape.mode]; have := hv.mode.2; omega

/-- **C04_footer.**  `load` finds the footer values `serialize` recorded: number of documents,
    the three section offsets, chunk mode, version 2; the checksum slot holds the CRC-32 of all
    preceding bytes. -/
theorem C04_footer (K : Codecs) (L : LSeg) (hv : Valid K L) (data : Bytes) (ft : Footer)
    (hs : serialize K L = .ok (data, ft)) :
    parseFooter (fileOf K data ft) =
      some { ft with crc := K.crc.upd 0 (data ++ footerFields ft) } := by
  obtain ⟨mid, dictLocs, hw⟩ := written hv hs
  unfold fileOf
  rw [C11.C11_parse_persist K.crc data _ (footer_fits hv hw _) K.crc_lt]
  simp only [K.crc.upd_append]
  rfl

/-- the data section of the file is what `serialize` produced (`data.Slice(0, len-footerLen)`) -/
theorem data_of_file (K : Codecs) (data : Bytes) (ft : Footer) :
    (fileOf K data ft).take ((fileOf K data ft).length - 44) = data := by
  unfold fileOf
  rw [List.length_append, C11.persistFooter_length, Nat.add_sub_cancel, List.take_left]

/-- **C04_count.**  The byte count `Segment.WriteTo` and the merger report is the file length;
    `New` reports the length of the data section (the footer is not part of a segment in memory). -/
theorem C04_count (K : Codecs) (data : Bytes) (ft : Footer) :
    (fileOf K data ft).length = data.length + 44 ∧
    Writer.segmentWriteTo C11.healthy K.crc data ft =
      (.ok (fileOf K data ft).length,
       { got := fileOf K data ft, calls := 2, erred := false }) := by
  have hl : (fileOf K data ft).length = data.length + 44 := by
    unfold fileOf; rw [List.length_append, C11.persistFooter_length]
  refine ⟨hl, ?_⟩
  rw [C11.C11_segment_file, hl]
  unfold fileOf persistFooter
  simp only [K.crc.upd_append, List.append_assoc]
  rfl

/-! ## the fields section closes every file -/

/-- **In-bounds lemma (writer side).**  The data section of every written segment ends with the
    fields section: the records and the table of their addresses, which `fieldsIndexOffset`
    points at and which reaches exactly to the end.  With `_id` as field 0 it has at least 15
    bytes (the `_id` record has 7 or more, its table entry 8).  Everything else the loader looks
    at through a 10-byte window (the chunk-offset trailer of the stored section, dictionaries,
    postings records, chunk streams, doc-value sections and the doc-value index) lies in front of
    it - so no window leaves the data section (`field_at`, `field_dict` give the position of
    each piece; `Lemmas/FormatLoad.lean: read_inbounds` is the reader's side). -/
theorem C04_tail (K : Codecs) (L : LSeg) (hv : Valid K L) (data : Bytes) (ft : Footer)
    (hs : serialize K L = .ok (data, ft)) :
    ∃ head F, data = head ++ F ∧ 15 ≤ F.length ∧
      (storedOut K L).bytes.length ≤ head.length ∧
      ft.fieldsIndexOffset + 8 * L.fields.length = data.length := by
  obtain ⟨mid, dictLocs, hw⟩ := written hv hs
  have hlen := hw.len
  have hd := hw.shape.data_eq
  refine ⟨(storedOut K L).bytes ++ mid, _, hd, ?_, by simp, ?_⟩
  · -- the first record is `_id`'s
    cases hfs : L.fields with
    | nil => exact absurd hfs hv.fields_ne
    | cons f0 rest =>
      have hid : f0.name = idField := by
        have := hv.id_first
        rw [hfs] at this
        simpa using this
      have hdl := hw.shape.dl_len
      rw [hfs] at hdl
      cases hdls : dictLocs with
      | nil => rw [hdls] at hdl; simp at hdl
      | cons d0 drest =>
        have h4 := persistFieldsLoop_bytes_ge (drest.zip rest)
          ((storedOut K L).bytes.length + mid.length + (fieldRecord d0 f0).length)
        have hrec : 7 ≤ (fieldRecord d0 f0).length := by
          unfold fieldRecord
          simp only [List.length_append, hid]
          have := putUvarint_length_pos d0
          have := putUvarint_length_pos idField.length
          have := putUvarint_length_pos f0.fieldDocs
          have := putUvarint_length_pos f0.fieldFreqs
          have : idField.length = 3 := rfl
          omega
        simp only [persistFields, List.zip_cons_cons, persistFieldsLoop, List.length_append,
          List.flatMap_cons, C11.be_length]
        omega
  · have hdl := congrArg List.length hd
    unfold persistFields at hdl
    simp only [List.length_append] at hdl
    have h8 := Stored.flatMap_be8_length
      (persistFieldsLoop ((storedOut K L).bytes.length + mid.length) (dictLocs.zip L.fields)).2
    have hl := persistFieldsLoop_length (dictLocs.zip L.fields)
      ((storedOut K L).bytes.length + mid.length)
    have hz : (dictLocs.zip L.fields).length = L.fields.length := by
      rw [List.length_zip, hw.shape.dl_len, Nat.min_self]
    rw [hw.shape.fio]
    unfold persistFields
    simp only
    rw [u64_small (by omega)]
    omega

/-! ## C04_fields -/

/-- **C04_fields** (component).  `loadFields` on the data section recovers, in field order, the
    dictionary locations, names, `fieldDocs` and `fieldFreqs` the writer recorded; the field count
    is right: the walk over the address table stops exactly at the end of the data section. -/
theorem loadFields_written {K : Codecs} {L : LSeg} (hv : Valid K L) {data : Bytes} {ft : Footer}
    {mid : Bytes} {dictLocs : List Nat} (hw : Written K L data ft mid dictLocs) (mem : Bool) :
    loadFields { bytes := data, mem := mem } ft.fieldsIndexOffset =
      .ok { fieldsInv := L.fields.map (·.name), dictLocs := dictLocs,
            fieldDocs := L.fields.map (·.fieldDocs), fieldFreqs := L.fields.map (·.fieldFreqs) } := by
  have hlen := hw.len
  have hd := hw.shape.data_eq
  unfold persistFields at hd
  simp only at hd
  have hdl := congrArg List.length hd
  simp only [List.length_append] at hdl
  have hfio : ft.fieldsIndexOffset = ((storedOut K L).bytes ++ mid).length +
      (persistFieldsLoop ((storedOut K L).bytes ++ mid).length (dictLocs.zip L.fields)).1.length := by
    rw [hw.shape.fio]
    unfold persistFields
    simp only [List.length_append]
    rw [u64_small (by omega)]
  have hval : ∀ p ∈ dictLocs.zip L.fields, p.1 < 2 ^ 64 ∧ p.2.name.length < 2 ^ 64 ∧
      p.2.fieldDocs < 2 ^ 64 ∧ p.2.fieldFreqs < 2 ^ 64 := by
    intro p hp
    obtain ⟨h1, h2⟩ := List.of_mem_zip hp
    obtain ⟨a, b, c, _⟩ := hv.fields p.2 h2
    exact ⟨dictLocs_lt hv hw p.1 h1, a, b, c⟩
  have key := loadFieldsLoop_ok { bytes := data, mem := mem } ((storedOut K L).bytes ++ mid)
    (dictLocs.zip L.fields)
    (by show data = _; rw [hd]; simp only [List.length_append, List.append_assoc])
    (by show data.length < 2 ^ 62; omega) hval (dictLocs.zip L.fields).length 0 {} (data.length + 1)
    (by omega) (by
      have := persistFieldsLoop_length (dictLocs.zip L.fields) ((storedOut K L).bytes ++ mid).length
      simp only [List.length_append] at this
      have h8 := Stored.flatMap_be8_length
        (persistFieldsLoop ((storedOut K L).bytes.length + mid.length) (dictLocs.zip L.fields)).2
      omega)
  unfold loadFields
  rw [hfio]
  show loadFieldsLoop _ _ (data.length + 1) 0 {} = _
  rw [key]
  have hz : (dictLocs.zip L.fields).map (·.1) = dictLocs := by
    rw [List.map_fst_zip]; rw [hw.shape.dl_len]; exact Nat.le_refl _
  have hz2 : (dictLocs.zip L.fields).map (·.2) = L.fields := by
    rw [List.map_snd_zip]; rw [hw.shape.dl_len]; exact Nat.le_refl _
  have hg : ∀ {α : Type} (g : FieldDesc → α),
      (dictLocs.zip L.fields).map (fun x => g x.2) = L.fields.map g := by
    intro α g
    have := congrArg (List.map g) hz2
    rw [List.map_map] at this
    exact this
  simp only [List.drop_zero, accOf, FieldsAcc.append, List.nil_append, hz, hg]

/-! ## C04_stored -/

theorem fields_section_ge {K : Codecs} {L : LSeg} (hv : Valid K L) {data : Bytes} {ft : Footer}
    {mid : Bytes} {dictLocs : List Nat} (hw : Written K L data ft mid dictLocs) (c : Nat) :
    12 ≤ (persistFields c (dictLocs.zip L.fields)).1.length := by
  have h := persistFields_length_ge c (dictLocs.zip L.fields)
  have hl : (dictLocs.zip L.fields).length = L.fields.length := by
    rw [List.length_zip, hw.shape.dl_len, Nat.min_self]
  have : 0 < L.fields.length := List.length_pos_iff.mpr hv.fields_ne
  omega

theorem stored_bytes_pos (K : Codecs) (L : LSeg) : 8 ≤ (storedOut K L).bytes.length := by
  obtain ⟨P, dso, hb, _⟩ := Stored.writeStoredFields_layout K.stored docBlock L.stored
  unfold storedOut
  rw [hb]
  simp [Stored.be_length]
  omega

/-- `C06_load` read as a statement about `loadStoredFieldChunk` -/
theorem loadChunk_of_C06 (cd : Stored.Codec) (bs nf : Nat) (docs : List Stored.Doc) (tail : Bytes)
    (hvl : C06.ValidLoad cd bs nf docs tail) :
    Stored.loadStoredFieldChunk ((Stored.writeStoredFields cd bs docs).bytes ++ tail)
      (Stored.writeStoredFields cd bs docs).storedIndexOffset =
      .ok (Stored.writeStoredFields cd bs docs).chunkOffsets := by
  have h := C06.C06_load cd bs nf docs tail hvl
  unfold Stored.segOfLoad at h
  simp only at h
  cases hl : Stored.loadStoredFieldChunk ((Stored.writeStoredFields cd bs docs).bytes ++ tail)
      (Stored.writeStoredFields cd bs docs).storedIndexOffset with
  | ok offs =>
    rw [hl] at h
    simp only [Stored.Res.map, Stored.segOfNew, Res.ok.injEq, Stored.Seg.mk.injEq] at h
    rw [h.2.2.2.2.1]
  | err => rw [hl] at h; cases h
  | panic => rw [hl] at h; cases h

/-- **C04_stored** (component).  `loadStoredFieldChunk` on the data section recovers the chunk
    offsets of the stored section (which is the prefix of the file). -/
theorem loadStored_written {K : Codecs} {L : LSeg} (hv : Valid K L) {data : Bytes} {ft : Footer}
    {mid : Bytes} {dictLocs : List Nat} (hw : Written K L data ft mid dictLocs) :
    Stored.loadStoredFieldChunk data ft.storedIndexOffset = .ok (storedOut K L).chunkOffsets := by
  have hF := fields_section_ge hv hw ((storedOut K L).bytes.length + mid.length)
  have hvl : C06.ValidLoad K.stored docBlock L.fields.length L.stored
      (mid ++ (persistFields ((storedOut K L).bytes.length + mid.length) (dictLocs.zip L.fields)).1) :=
    ⟨hv.stored, hv.trailer.1, hv.trailer.2, by simp only [List.length_append]; omega⟩
  have h := loadChunk_of_C06 K.stored docBlock L.fields.length L.stored _ hvl
  rw [hw.shape.sio, hw.shape.data_eq, List.append_assoc]
  exact h

/-! ## where a field's bytes lie -/

/-- In a segment with documents the bytes of field `i` lie behind a non-empty prefix `P` and in
    front of a suffix `S` of at least 12 bytes (the doc-value index and the fields section): no
    10-byte window opened inside the field's bytes leaves the data section. -/
theorem field_at {K : Codecs} {L : LSeg} (hv : Valid K L) {data : Bytes} {ft : Footer}
    {mid : Bytes} {dictLocs : List Nat} (hw : Written K L data ft mid dictLocs)
    (hnd : 0 < L.numDocs) {fb : Bytes} {outs : List FieldOut}
    (hm : Middle K L ft mid dictLocs fb outs) (i : Nat) (f : FieldDesc)
    (hf : L.fields[i]? = some f) :
    ∃ o P b S, outs[i]? = some o ∧ data = P ++ b ++ S ∧ 12 ≤ S.length ∧ P ≠ [] ∧
      FieldPost K L.merger L.chunkMode L.numDocs f P.length b o := by
  obtain ⟨_, hel⟩ := middle_fields hv hnd hm
  obtain ⟨Bpre, b, Bpost, o, hfb, ho, hp⟩ := hel i f hf
  have hF := fields_section_ge hv hw ((storedOut K L).bytes.length + mid.length)
  refine ⟨o, (storedOut K L).bytes ++ Bpre, b,
    Bpost ++ dvIndexBytes outs ++
      (persistFields ((storedOut K L).bytes.length + mid.length) (dictLocs.zip L.fields)).1,
    ho, ?_, by simp only [List.length_append]; omega, ?_, by rw [List.length_append]; exact hp⟩
  · rw [hw.shape.data_eq, hm.mid_eq, hfb]; simp only [List.append_assoc]
  · intro h
    have := stored_bytes_pos K L
    have h0 := congrArg List.length h
    simp only [List.length_append, List.length_nil] at h0
    omega

/-! ## C04_dv (loader part) -/

/-- what is known about the reader of a field with doc values: the column was written by the
    writer of C07 at the end of a prefix `pre` of the data section, at least ten bytes follow it,
    and `loadFieldDocValueReader` opens it at the recorded offsets -/
structure DvOpen (K : Codecs) (L : LSeg) (d : Data) (vals : List (Nat × List Bytes))
    (r0 : DocValues.Reader) : Prop where
  ex : ∃ pre sec suf s e,
    C07.writeField (dvMode L.merger) K.dv dvChunk (L.numDocs - 1) pre.length vals = .ok (sec, s, e) ∧
    d.bytes = pre ++ sec ++ suf ∧ 10 ≤ suf.length ∧
    DocValues.loadFieldDocValueReader d s e = .ok (some r0)

theorem dv_field {K : Codecs} {L : LSeg} (hv : Valid K L) {data : Bytes}
    (hlen : data.length + 44 < 2 ^ 62) (mem : Bool) {f : FieldDesc} (hfv : f.Valid L.merger L.numDocs)
    {o : FieldOut} {P b S : Bytes} (hd : data = P ++ b ++ S) (hS : 12 ≤ S.length)
    (hp : FieldPost K L.merger L.chunkMode L.numDocs f P.length b o) :
    o.dvStart < 2 ^ 64 ∧ o.dvEnd < 2 ^ 64 ∧
    ∃ r, DocValues.loadFieldDocValueReader { bytes := data, mem := mem } o.dvStart o.dvEnd = .ok r ∧
      (f.dv = none → r = none) ∧
      (∀ vals, f.dv = some vals → ∃ r0, r = some r0 ∧ DvOpen K L { bytes := data, mem := mem } vals r0) := by
  have _ := hv
  obtain ⟨tb, vals, sec, _, _, _, hb, _, hdv⟩ := hp
  cases hfd : f.dv with
  | none =>
    rw [hfd] at hdv
    obtain ⟨_, h1, h2⟩ := hdv
    rw [h1, h2]
    refine ⟨by decide, by decide, none, C07.C07_no_docvalues _ _, (fun _ => rfl), (fun v h => by cases h)⟩
  | some dvals =>
    rw [hfd] at hdv
    obtain ⟨s, e, hw, h1, h2⟩ := hdv
    have hvals := hfv.2.2.2.2.2 dvals hfd
    have heq := C07.writeField_eq (dvMode L.merger) K.dv hvals
      (P.length + tb.length + (dictBytes K (fstEntries f.terms vals)).length)
    rw [hw] at heq
    simp only [Res.ok.injEq, Prod.mk.injEq] at heq
    obtain ⟨hsec, hs, he⟩ := heq
    have hdl := congrArg List.length hd
    rw [hb] at hdl
    simp only [List.length_append] at hdl
    have hsl : s < 2 ^ 64 := by rw [hs]; omega
    have hel : e < 2 ^ 64 := by rw [he, ← hsec]; omega
    rw [h1, h2, u64_small hsl, u64_small hel]
    have hfile : ({ bytes := data, mem := mem } : Data).bytes =
        (P ++ tb ++ dictBytes K (fstEntries f.terms vals)) ++ sec ++ S := by
      show data = _
      rw [hd, hb]; simp only [List.append_assoc]
    have hpl : (P ++ tb ++ dictBytes K (fstEntries f.terms vals)).length =
        P.length + tb.length + (dictBytes K (fstEntries f.terms vals)).length := by
      simp only [List.length_append]
    obtain ⟨r0, hr0, _⟩ := C07.C07_roundtrip (dvMode L.merger) K.dv hvals { bytes := data, mem := mem }
      (P ++ tb ++ dictBytes K (fstEntries f.terms vals)) S sec s e (by rw [hpl]; exact hw) hfile
      (by omega) (by show data.length < 2 ^ 63; omega)
    refine ⟨hsl, hel, some r0, hr0, (fun h => by cases h), ?_⟩
    intro v hv'
    cases hv'
    exact ⟨r0, rfl, ⟨_, sec, S, s, e, by rw [hpl]; exact hw, hfile, by omega, hr0⟩⟩

/-- **C04_dv** (loader part).  `loadDvReaders` succeeds; a segment without documents is loaded
    without touching the doc-value index (no reader at all); with documents every field without
    doc values gets no reader and every field with doc values the reader of C07, opened at the
    offsets found in the index. -/
theorem loadDv_written {K : Codecs} {L : LSeg} (hv : Valid K L) {data : Bytes} {ft : Footer}
    {mid : Bytes} {dictLocs : List Nat} (hw : Written K L data ft mid dictLocs) (mem : Bool) (c : Nat) :
    ∃ rs, loadDvReaders { bytes := data, mem := mem } { ft with crc := c } (L.fields.map (·.name))
        = .ok rs ∧ rs.length = L.fields.length ∧
      (L.numDocs = 0 → ∀ r ∈ rs, r = none) ∧
      (0 < L.numDocs → ∀ (i : Nat) (f : FieldDesc), L.fields[i]? = some f →
        ∃ r, rs[i]? = some r ∧ (f.dv = none → r = none) ∧
          ∀ vals, f.dv = some vals → ∃ r0, r = some r0 ∧
            DvOpen K L { bytes := data, mem := mem } vals r0) := by
  have hlen := hw.len
  by_cases hnd : 0 < L.numDocs
  · obtain ⟨fb, outs, hm⟩ := hw.pos hnd
    obtain ⟨hol, _⟩ := middle_fields hv hnd hm
    have hF := fields_section_ge hv hw ((storedOut K L).bytes.length + mid.length)
    have hde := hw.shape.data_eq
    have hdl := congrArg List.length hde
    rw [hm.mid_eq] at hdl
    simp only [List.length_append] at hdl
    have hdvo : ft.docValueOffset = (storedOut K L).bytes.length + fb.length := by
      rw [hm.dvo, u64_small (by omega)]
    -- per recorded field: offsets and readers
    have hper : ∀ o ∈ outs, o.dvStart < 2 ^ 64 ∧ o.dvEnd < 2 ^ 64 ∧
        ∃ r, DocValues.loadFieldDocValueReader { bytes := data, mem := mem } o.dvStart o.dvEnd = .ok r := by
      intro o ho
      obtain ⟨i, hi⟩ := List.mem_iff_getElem?.mp ho
      have hil : i < L.fields.length := by
        rw [← hol]
        by_cases h : i < outs.length
        · exact h
        · rw [List.getElem?_eq_none (by omega)] at hi; cases hi
      obtain ⟨o', P, b, S, ho', hd, hS, _, hp⟩ := field_at hv hw hnd hm i _ (List.getElem?_eq_getElem hil)
      rw [hi] at ho'; cases ho'
      obtain ⟨h1, h2, r, hr, _⟩ := dv_field hv hlen mem (hv.fields _ (List.getElem_mem hil)) hd hS hp
      exact ⟨h1, h2, r, hr⟩
    have hdrop : ({ bytes := data, mem := mem } : Data).bytes.drop
        ((storedOut K L).bytes.length + fb.length + 0) = dvIndexBytes outs ++
          (persistFields ((storedOut K L).bytes.length + mid.length) (dictLocs.zip L.fields)).1 := by
      show data.drop _ = _
      rw [hde, hm.mid_eq, Nat.add_zero]
      have : (storedOut K L).bytes ++ (fb ++ dvIndexBytes outs) ++
          (persistFields ((storedOut K L).bytes.length + (fb ++ dvIndexBytes outs).length)
            (dictLocs.zip L.fields)).1 =
          ((storedOut K L).bytes ++ fb) ++ (dvIndexBytes outs ++
            (persistFields ((storedOut K L).bytes.length + (fb ++ dvIndexBytes outs).length)
              (dictLocs.zip L.fields)).1) := by simp only [List.append_assoc]
      rw [this, ← List.length_append, List.drop_left]
    obtain ⟨rs, hrs, hrl, hri⟩ := loadDvLoop_ok { bytes := data, mem := mem }
      ((storedOut K L).bytes.length + fb.length) (by show data.length < 2 ^ 62; omega) outs
      (L.fields.map (·.name)) 0 _ (by simp [hol]) hdrop (by omega)
      (by show _ ≤ data.length; omega) hper
    refine ⟨rs, ?_, by rw [hrl, hol], fun h0 => by omega, ?_⟩
    · unfold loadDvReaders
      have h1 : ¬ (({ ft with crc := c } : Footer).docValueOffset = maxUint64 ∨
          ({ ft with crc := c } : Footer).numDocs = 0) := by
        show ¬ (ft.docValueOffset = maxUint64 ∨ ft.numDocs = 0)
        rw [hdvo, hw.shape.numDocs]
        unfold maxUint64
        omega
      rw [if_neg h1]
      show loadDvLoop _ ft.docValueOffset _ 0 = _
      rw [hdvo]
      exact hrs
    · intro _ i f hf
      obtain ⟨o, P, b, S, ho, hd, hS, _, hp⟩ := field_at hv hw hnd hm i f hf
      obtain ⟨r, hr1, hr2⟩ := hri i o ho
      obtain ⟨_, _, r', hr', hnone, hsome⟩ := dv_field hv hlen mem
        (hv.fields f (List.mem_of_getElem? hf)) hd hS hp
      rw [hr2] at hr'; cases hr'
      exact ⟨r, hr1, hnone, hsome⟩
  · refine ⟨(L.fields.map (·.name)).map fun _ => none, ?_, by simp, ?_, fun h => absurd h hnd⟩
    · unfold loadDvReaders
      have : ({ ft with crc := c } : Footer).numDocs = 0 := by
        show ft.numDocs = 0
        rw [hw.shape.numDocs]; omega
      rw [if_pos (Or.inr this)]
    · intro _ r hr
      simp only [List.map_map, List.mem_map] at hr
      obtain ⟨_, _, rfl⟩ := hr
      rfl

/-! ## the loaded segment -/

/-- the footer `load` parses from the file of a written segment -/
def loadedFooter (K : Codecs) (data : Bytes) (ft : Footer) : Footer :=
  { ft with crc := K.crc.upd 0 (data ++ footerFields ft) }

/-- the segment `load` builds from the file of a written segment, given the doc-value readers -/
def loadedSeg (K : Codecs) (L : LSeg) (data : Bytes) (ft : Footer) (mem : Bool)
    (dictLocs : List Nat) (rs : List (Option DocValues.Reader)) : Loaded :=
  { data := { bytes := data, mem := mem }, footer := loadedFooter K data ft,
    fieldsInv := L.fields.map (·.name), dictLocs := dictLocs,
    fieldDocs := L.fields.map (·.fieldDocs), fieldFreqs := L.fields.map (·.fieldFreqs),
    storedChunkOffsets := (storedOut K L).chunkOffsets, dvReaders := rs }

/-- `load` succeeds on every written file, for both backings, and builds `loadedSeg` -/
theorem load_written {K : Codecs} {L : LSeg} (hv : Valid K L) {data : Bytes} {ft : Footer}
    (hs : serialize K L = .ok (data, ft)) (mem : Bool) :
    ∃ mid dictLocs rs, Written K L data ft mid dictLocs ∧
      load mem (fileOf K data ft) = .ok (loadedSeg K L data ft mem dictLocs rs) ∧
      rs.length = L.fields.length ∧
      (L.numDocs = 0 → ∀ r ∈ rs, r = none) ∧
      (0 < L.numDocs → ∀ (i : Nat) (f : FieldDesc), L.fields[i]? = some f →
        ∃ r, rs[i]? = some r ∧ (f.dv = none → r = none) ∧
          ∀ vals, f.dv = some vals → ∃ r0, r = some r0 ∧
            DvOpen K L { bytes := data, mem := mem } vals r0) := by
  obtain ⟨mid, dictLocs, hw⟩ := written hv hs
  obtain ⟨rs, hrs, hrl, hz, hp⟩ := loadDv_written hv hw mem (K.crc.upd 0 (data ++ footerFields ft))
  refine ⟨mid, dictLocs, rs, hw, ?_, hrl, hz, hp⟩
  unfold load
  rw [C04_footer K L hv data ft hs]
  simp only [data_of_file]
  have h1 := loadFields_written hv hw mem
  have h2 := loadStored_written hv hw
  simp only [h1, ChunkBytes.ok_bind, h2, hrs, ChunkBytes.pure_eq_ok]
  rfl

/-! ## C04_fields, C04_stored, C04_dv, C04_empty: statements about `load` -/

/-- **C04_fields.**  The loaded segment has the fields of the description, in order, with their
    names, `fieldDocs` and `fieldFreqs`; one dictionary location per field (all 0 without
    documents); and the footer values of `serialize`. -/
theorem C04_fields (K : Codecs) (L : LSeg) (hv : Valid K L) (data : Bytes) (ft : Footer)
    (hs : serialize K L = .ok (data, ft)) (mem : Bool) :
    ∃ ld, load mem (fileOf K data ft) = .ok ld ∧
      ld.data = { bytes := data, mem := mem } ∧
      ld.footer = { ft with crc := K.crc.upd 0 (data ++ footerFields ft) } ∧
      ld.footer.numDocs = L.numDocs ∧ ld.footer.chunkMode = L.chunkMode ∧
      ld.fieldsInv = L.fields.map (·.name) ∧
      ld.fieldDocs = L.fields.map (·.fieldDocs) ∧ ld.fieldFreqs = L.fields.map (·.fieldFreqs) ∧
      ld.dictLocs.length = L.fields.length ∧
      (L.numDocs = 0 → ld.dictLocs = L.fields.map fun _ => 0) := by
  obtain ⟨mid, dictLocs, rs, hw, hl, _⟩ := load_written hv hs mem
  exact ⟨_, hl, rfl, rfl, hw.shape.numDocs, hw.shape.mode, rfl, rfl, rfl, hw.shape.dl_len,
    fun h => (hw.zero h).2.1⟩

/-- **C04_stored.**  The stored-fields reader of the loaded segment is the reader of the segment
    that was built (C06: the stored section is the prefix of the file), so every visit delivers
    the stored values of the description: for a document of the segment, any incoming context
    buffer and any visitor stop; nothing beyond the count. -/
theorem C04_stored (K : Codecs) (L : LSeg) (hv : Valid K L) (data : Bytes) (ft : Footer)
    (hs : serialize K L = .ok (data, ft)) (mem : Bool) :
    ∃ ld tail, load mem (fileOf K data ft) = .ok ld ∧
      data = (storedOut K L).bytes ++ tail ∧
      ld.storedSeg = Stored.segOfNew K.stored docBlock L.fields.length L.stored tail ∧
      (∀ (n : Nat) (hn : n < L.stored.length) (buf : Stored.Buf) (stop : Option Nat),
        ∃ buf', Stored.visit K.stored ld.storedSeg buf n stop =
          .ok (Stored.takeStop stop (Stored.flat L.stored[n]), buf')) ∧
      (∀ (n : Nat), L.stored.length ≤ n → ∀ (buf : Stored.Buf) (stop : Option Nat),
        Stored.visit K.stored ld.storedSeg buf n stop = .ok ([], buf)) := by
  obtain ⟨mid, dictLocs, rs, hw, hl, _⟩ := load_written hv hs mem
  have hseg : (loadedSeg K L data ft mem dictLocs rs).storedSeg =
      Stored.segOfNew K.stored docBlock L.fields.length L.stored
        (mid ++ (persistFields ((storedOut K L).bytes.length + mid.length) (dictLocs.zip L.fields)).1) := by
    unfold Loaded.storedSeg loadedSeg loadedFooter Stored.segOfNew
    simp only [List.length_map]
    rw [hw.shape.numDocs, hw.shape.sio, hv.numDocs_eq]
    congr 1
    rw [hw.shape.data_eq, List.append_assoc]; rfl
  refine ⟨_, _, hl, by rw [hw.shape.data_eq, List.append_assoc], hseg, ?_, ?_⟩
  · intro n hn buf stop
    rw [hseg]
    exact C06.C06_visit K.stored docBlock L.fields.length L.stored _ hv.stored n hn buf stop
  · intro n hn buf stop
    rw [hseg]
    exact C06.C06_beyond K.stored docBlock L.fields.length L.stored _ n hn buf stop

/-- **C04_dv.**  Doc values of the loaded segment.  A field without doc values has no reader.
    A field with the column `vals` has a reader with one end offset per chunk and an empty cache,
    on which every sequence of visits (any order, repetitions) succeeds and delivers, visit by
    visit, exactly the terms of the visited document (C07 at the section's position; the
    section is followed by at least ten bytes of the data section).  Without documents nothing
    is read from the doc-value index and no field has a reader. -/
theorem C04_dv (K : Codecs) (L : LSeg) (hv : Valid K L) (data : Bytes) (ft : Footer)
    (hs : serialize K L = .ok (data, ft)) (mem : Bool) :
    ∃ ld, load mem (fileOf K data ft) = .ok ld ∧ ld.dvReaders.length = L.fields.length ∧
      (L.numDocs = 0 → ∀ r ∈ ld.dvReaders, r = none) ∧
      (0 < L.numDocs → ∀ (i : Nat) (f : FieldDesc), L.fields[i]? = some f →
        (f.dv = none → ld.dvReaders[i]? = some none) ∧
        ∀ vals, f.dv = some vals → ∃ r0, ld.dvReaders[i]? = some (some r0) ∧
          r0.chunkOffsets.length = (L.numDocs - 1) / dvChunk + 1 ∧
          r0.curChunkNum = DocValues.maxInt64 ∧ r0.curChunkHeader = [] ∧
          r0.curChunkData = none ∧ r0.uncompressed = [] ∧
          ∀ ds : List Nat, (∀ d ∈ ds, d ≤ L.numDocs - 1) →
            ∃ r', DocValues.Reader.visitAll K.dv ld.data dvChunk r0 ds =
              .ok (ds.map (DocValues.termsOf vals), r')) := by
  obtain ⟨mid, dictLocs, rs, hw, hl, hrl, hz, hp⟩ := load_written hv hs mem
  refine ⟨_, hl, hrl, hz, ?_⟩
  intro hnd i f hf
  obtain ⟨r, hr, hnone, hsome⟩ := hp hnd i f hf
  refine ⟨fun h => by rw [← hnone h]; exact hr, ?_⟩
  intro vals hvals
  obtain ⟨r0, rfl, ⟨pre, sec, suf, s, e, hwf, hfile, hsuf, hload⟩⟩ := hsome vals hvals
  have hcv := (hv.fields f (List.mem_of_getElem? hf)).2.2.2.2.2 vals hvals
  have hlen : ({ bytes := data, mem := mem } : Data).bytes.length < 2 ^ 63 := by
    have := hw.len
    show data.length < 2 ^ 63
    omega
  obtain ⟨r0', hr0', h1, h2, h3, h4, h5, _⟩ := C07.C07_roundtrip (dvMode L.merger) K.dv hcv _ pre suf
    sec s e hwf hfile hsuf hlen
  rw [hload] at hr0'
  simp only [Res.ok.injEq, Option.some.injEq] at hr0'
  subst hr0'
  refine ⟨r0, hr, h1, h2, h3, h4, h5, ?_⟩
  intro ds hds
  exact C07.C07_visit_any_order (dvMode L.merger) K.dv hcv _ pre suf sec s e hwf hfile hsuf hlen r0
    hload ds hds

/-! ## C04_dict, C04_postings -/

/-- the dictionary of field `i` of a segment with documents, and where each term's bytes lie:
    behind a non-empty prefix and in front of at least 12 more bytes of the data section -/
theorem field_dict {K : Codecs} {L : LSeg} (hv : Valid K L) {data : Bytes} {ft : Footer}
    {mid : Bytes} {dictLocs : List Nat} (hw : Written K L data ft mid dictLocs)
    (hnd : 0 < L.numDocs) (mem : Bool) (rs : List (Option DocValues.Reader))
    (i : Nat) (f : FieldDesc) (hf : L.fields[i]? = some f) :
    ∃ vals : List Nat, vals.length = f.terms.length ∧ (∀ v ∈ vals, 0 < v ∧ v < 2 ^ 64) ∧
      dictionaryOf K (loadedSeg K L data ft mem dictLocs rs) i =
        .ok (some ((f.terms.map (·.1)).zip vals)) ∧
      ∀ (j : Nat) (t : Bytes × TermDesc), f.terms[j]? = some t →
        ∃ pre tbj suf v, vals[j]? = some v ∧ data = pre ++ tbj ++ suf ∧ pre ≠ [] ∧
          12 ≤ suf.length ∧ TermPost K L.chunkMode L.numDocs t pre.length tbj v := by
  obtain ⟨fb, outs, hm⟩ := hw.pos hnd
  obtain ⟨o, P, b, S, ho, hd, hS, hP, hp⟩ := field_at hv hw hnd hm i f hf
  obtain ⟨tb, vals, sec, hvl, hel, hasc, hb, hdl, _⟩ := hp
  have hlen := hw.len
  have hdlen := congrArg List.length hd
  rw [hb] at hdlen
  simp only [List.length_append] at hdlen
  have hPpos : 0 < P.length := List.length_pos_iff.mpr hP
  -- every term's place and value
  have hterm : ∀ (j : Nat) (t : Bytes × TermDesc), f.terms[j]? = some t →
      ∃ pre tbj suf v, vals[j]? = some v ∧ data = pre ++ tbj ++ suf ∧ pre ≠ [] ∧
        12 ≤ suf.length ∧ TermPost K L.chunkMode L.numDocs t pre.length tbj v := by
    intro j t ht
    obtain ⟨Tpre, tbj, Tpost, v, htb, hvj, htp⟩ := hel j t ht
    refine ⟨P ++ Tpre, tbj, Tpost ++ dictBytes K (fstEntries f.terms vals) ++ sec ++ S, v, hvj, ?_,
      by simp [hP], by simp only [List.length_append]; omega, by rw [List.length_append]; exact htp⟩
    rw [hd, hb, htb]; simp only [List.append_assoc]
  have hvals : ∀ v ∈ vals, 0 < v ∧ v < 2 ^ 64 := by
    intro v hvm
    obtain ⟨j, hj⟩ := List.mem_iff_getElem?.mp hvm
    have hjl : j < f.terms.length := by
      rw [← hvl]
      by_cases h : j < vals.length
      · exact h
      · rw [List.getElem?_eq_none (by omega)] at hj; cases hj
    obtain ⟨pre, tbj, suf, v', hv', hdd, hpre, _, htp⟩ := hterm j _ (List.getElem?_eq_getElem hjl)
    rw [hj] at hv'; cases hv'
    have hl := congrArg List.length hdd
    simp only [List.length_append] at hl
    have := termPost_value htp (List.length_pos_iff.mpr hpre) (by omega)
    exact ⟨this.1, this.2.1⟩
  refine ⟨vals, hvl, hvals, ?_, hterm⟩
  have hes := fstEntries_eq f.terms vals (fun v hvm => (hvals v hvm).1)
  rw [hes] at hasc hb hdlen
  have hdl' : o.dictLoc = P.length + tb.length := by rw [hdl, u64_small (by omega)]
  apply dictionary_ok K _ i (P.length + tb.length) _ (sec ++ S)
  · show dictLocs[i]? = _
    rw [hm.dl_eq, List.getElem?_map, ho, ← hdl']; rfl
  · omega
  · show data.drop _ = _
    rw [hd, hb]
    have : P ++ (tb ++ dictBytes K ((f.terms.map (·.1)).zip vals) ++ sec) ++ S =
        (P ++ tb) ++ (dictBytes K ((f.terms.map (·.1)).zip vals) ++ (sec ++ S)) := by
      simp only [List.append_assoc]
    rw [this, ← List.length_append, List.drop_left]
  · simp only [List.length_append]; omega
  · show _ ≤ data.length; omega
  · show data.length < 2 ^ 62; omega
  · exact hasc
  · intro e he
    exact (hvals e.2 (List.of_mem_zip he).2).2

/-- **C04_dict.**  For every field of a segment with documents, `dictionaryOf` returns its FST:
    the term keys of the description in order, each with its value - the 1-hit code of a 1-hit
    term, and for a general term a positive offset inside the data section that is not mistaken
    for a 1-hit code (`C04_postings` says what lies there).  Without documents no field has a
    dictionary (`dictLocs` all 0). -/
theorem C04_dict (K : Codecs) (L : LSeg) (hv : Valid K L) (data : Bytes) (ft : Footer)
    (hs : serialize K L = .ok (data, ft)) (mem : Bool) :
    ∃ ld, load mem (fileOf K data ft) = .ok ld ∧
      (L.numDocs = 0 → ∀ i, dictionaryOf K ld i = .ok none) ∧
      (0 < L.numDocs → ∀ (i : Nat) (f : FieldDesc), L.fields[i]? = some f →
        ∃ fst, dictionaryOf K ld i = .ok (some fst) ∧ fst.map (·.1) = f.terms.map (·.1) ∧
          ∀ (j : Nat) (key : Bytes) (td : TermDesc), f.terms[j]? = some (key, td) →
            ∃ v, fst[j]? = some (key, v) ∧
              match td with
              | .oneHit d n => v = encode1Hit d n
              | .general _ => 0 < v ∧ v < data.length ∧ is1Hit v = false) := by
  obtain ⟨mid, dictLocs, rs, hw, hl, _⟩ := load_written hv hs mem
  refine ⟨_, hl, ?_, ?_⟩
  · intro h0 i
    have hz := (hw.zero h0).2.1
    unfold dictionaryOf loadedSeg
    simp only
    cases hd : dictLocs[i]? with
    | none => rfl
    | some x =>
      have : x = 0 := by
        rw [hz] at hd
        simp only [List.getElem?_map] at hd
        cases hq : L.fields[i]? with
        | none => rw [hq] at hd; cases hd
        | some q => rw [hq] at hd; simp at hd; exact hd.symm
      subst this
      simp
  · intro hnd i f hf
    obtain ⟨vals, hvl, hvals, hdict, hterm⟩ := field_dict hv hw hnd mem rs i f hf
    refine ⟨_, hdict, ?_, ?_⟩
    · rw [List.map_fst_zip]; simp [hvl]
    · intro j key td ht
      obtain ⟨pre, tbj, suf, v, hvj, hdd, hpre, _, htp⟩ := hterm j _ ht
      have hl' := congrArg List.length hdd
      simp only [List.length_append] at hl'
      have hlen := hw.len
      have hval := termPost_value htp (List.length_pos_iff.mpr hpre) (by omega)
      refine ⟨v, ?_, ?_⟩
      · rw [List.getElem?_zip_eq_some]
        exact ⟨by rw [List.getElem?_map, ht]; rfl, hvj⟩
      · cases td with
        | oneHit d n => exact hval.2.2
        | general es =>
          obtain ⟨h1, h2, h3⟩ := hval.2.2
          exact ⟨hval.1, by omega, h3⟩

/-- **C04_postings.**  For every term of every field (segment with documents): the FST value
    found by `dictionaryOf` leads `readPostings` to the term's postings.
    * 1-hit term: the decoded document number and norm bits.
    * general term: the record whose `docs` are the entries' document numbers, whose chunk size is
      `getChunkSize chunkMode card numDocs`, and whose `freqOffset` / `locOffset` (the latter
      after the reader's `+= freqOffset`) are offsets at which chunked-int decoders open - for
      both backings of `ChunkBytes.Data.read` - and load, for every chunk, bytes from which
      entry-by-entry decoding gives back exactly the entries of that chunk (T6/T7 of
      `Props/ChunkBytes.lean` at the term's position in the file). -/
theorem C04_postings (K : Codecs) (L : LSeg) (hv : Valid K L) (data : Bytes) (ft : Footer)
    (hs : serialize K L = .ok (data, ft)) (mem : Bool) (hnd : 0 < L.numDocs)
    (i : Nat) (f : FieldDesc) (hf : L.fields[i]? = some f)
    (j : Nat) (key : Bytes) (td : TermDesc) (ht : f.terms[j]? = some (key, td)) :
    ∃ ld fst v, load mem (fileOf K data ft) = .ok ld ∧ dictionaryOf K ld i = .ok (some fst) ∧
      fst[j]? = some (key, v) ∧
      match td with
      | .oneHit d n => readPostings K ld v = .ok (.oneHit d n)
      | .general es =>
        ∃ fo lo raw cs, readPostings K ld v = .ok (.general fo lo (es.map (·.doc)) cs) ∧
          ld.store K v = some { freqOffset := fo, locOffset := raw, docs := es.map (·.doc) } ∧
          getChunkSize L.chunkMode es.length L.numDocs = .ok cs ∧ 0 < cs ∧
          ∀ file : Bool, ∃ dt dl,
            ChunkBytes.Decoder.newWith file data fo = .ok dt ∧
            ChunkBytes.Decoder.newWith file data lo = .ok dl ∧
            ∀ c, c < (L.numDocs - 1) / cs + 1 →
              ∃ fb lb, dt.loadChunk K.chunk c = .ok fb ∧ dl.loadChunk K.chunk c = .ok lb ∧
                ChunkBytes.decodeAll ((ChunkBytes.chunkOf cs es c).length + 1) ⟨fb, 0⟩ ⟨lb, 0⟩
                  = .ok ((ChunkBytes.chunkOf cs es c).map fun e => (e.freq, e.norm, e.locs)) := by
  obtain ⟨mid, dictLocs, rs, hw, hl, _⟩ := load_written hv hs mem
  obtain ⟨vals, hvl, hvals, hdict, hterm⟩ := field_dict hv hw hnd mem rs i f hf
  obtain ⟨pre, tbj, suf, v, hvj, hdd, hpre, hsuf, htp⟩ := hterm j _ ht
  have hlen := hw.len
  have hl' := congrArg List.length hdd
  simp only [List.length_append] at hl'
  have hprepos : 0 < pre.length := List.length_pos_iff.mpr hpre
  have htv := (hv.fields f (List.mem_of_getElem? hf)).2.2.2.2.1 (key, td) (List.mem_of_getElem? ht)
  refine ⟨_, _, v, hl, hdict, ?_, ?_⟩
  · rw [List.getElem?_zip_eq_some]
    exact ⟨by rw [List.getElem?_map, ht]; rfl, hvj⟩
  · cases td with
    | oneHit d n =>
      obtain ⟨_, rfl⟩ := htp
      obtain ⟨_, hd31, hn31, _⟩ := htv
      show readPostings K _ (encode1Hit d n) = _
      unfold readPostings
      rw [if_pos (is1Hit_encode d n), decode_encode1Hit d n hd31 hn31]
    | general es =>
      obtain ⟨hne, hok⟩ := htv
      obtain ⟨cs, tf0, lc0, tf', lc', hcs, hcspos, hf1, hc1, hl1, hf2, hc2, hl2, htf', hlc', hb, hvv⟩ := htp
      have hbl := congrArg List.length hb
      simp only [List.length_append] at hbl
      obtain ⟨hraw, hw1lt, hw1c, hw2c, hadj⟩ := locOffset_roundtrip tf' lc' pre.length hprepos (by omega)
      rw [u64_small (by omega)] at hvv
      -- the record lies at `v`
      have hdrop : ({ bytes := data, mem := mem } : Data).bytes.drop v =
          putUvarint (tf'.writeAt pre.length).1 ++
            putUvarint (if (lc'.writeAt (pre.length + (tf'.writeAt pre.length).2.1.length)).1 > 0 ∧
                (tf'.writeAt pre.length).1 > 0
              then sub64 (lc'.writeAt (pre.length + (tf'.writeAt pre.length).2.1.length)).1
                (tf'.writeAt pre.length).1
              else (lc'.writeAt (pre.length + (tf'.writeAt pre.length).2.1.length)).1) ++
            putUvarint (K.rEnc (es.map (·.doc))).length ++ K.rEnc (es.map (·.doc)) ++ suf := by
        show data.drop v = _
        rw [hdd, hb, hvv]
        have : pre ++ ((tf'.writeAt pre.length).2.1 ++
            (lc'.writeAt (pre.length + (tf'.writeAt pre.length).2.1.length)).2.1 ++
            postingsRecord K (tf'.writeAt pre.length).1
              (lc'.writeAt (pre.length + (tf'.writeAt pre.length).2.1.length)).1 (es.map (·.doc))) ++ suf =
            (pre ++ (tf'.writeAt pre.length).2.1 ++
              (lc'.writeAt (pre.length + (tf'.writeAt pre.length).2.1.length)).2.1) ++
            (postingsRecord K (tf'.writeAt pre.length).1
              (lc'.writeAt (pre.length + (tf'.writeAt pre.length).2.1.length)).1 (es.map (·.doc)) ++ suf) := by
          simp only [List.append_assoc]
        rw [this]
        have hl3 : (pre ++ (tf'.writeAt pre.length).2.1 ++
            (lc'.writeAt (pre.length + (tf'.writeAt pre.length).2.1.length)).2.1).length =
            pre.length + (tf'.writeAt pre.length).2.1.length +
              (lc'.writeAt (pre.length + (tf'.writeAt pre.length).2.1.length)).2.1.length := by
          simp only [List.length_append]
        rw [← hl3, List.drop_left]
        unfold postingsRecord
        simp only [List.append_assoc]
      have hdocs : (es.map (·.doc)).Pairwise (· < ·) := by
        rw [List.pairwise_map]; exact hok.2.1
      have h32 : ∀ d ∈ es.map (·.doc), d < 2 ^ 32 := by
        intro d hd
        obtain ⟨e, he, rfl⟩ := List.mem_map.mp hd
        have := hok.2.2 e he
        have := hv.numDocs_lt
        omega
      have hrec := readRecord_ok K (loadedSeg K L data ft mem dictLocs rs) v _ _
        (es.map (fun (e : Entry) => e.doc)) suf hdrop (by omega) (by show v ≤ data.length; omega) (by show data.length < 2 ^ 62; omega)
        hw1lt hraw hdocs h32
      have hcs' : getChunkSize (loadedSeg K L data ft mem dictLocs rs).footer.chunkMode
          (es.map (·.doc)).length (loadedSeg K L data ft mem dictLocs rs).footer.numDocs = .ok cs := by
        show getChunkSize ft.chunkMode _ ft.numDocs = _
        rw [hw.shape.mode, hw.shape.numDocs, List.length_map]; exact hcs
      refine ⟨(tf'.writeAt pre.length).1,
        (lc'.writeAt (pre.length + (tf'.writeAt pre.length).2.1.length)).1,
        (if (lc'.writeAt (pre.length + (tf'.writeAt pre.length).2.1.length)).1 > 0 ∧
                (tf'.writeAt pre.length).1 > 0
              then sub64 (lc'.writeAt (pre.length + (tf'.writeAt pre.length).2.1.length)).1
                (tf'.writeAt pre.length).1
              else (lc'.writeAt (pre.length + (tf'.writeAt pre.length).2.1.length)).1),
        cs, ?_, ?_, hcs, hcspos, ?_⟩
      · unfold readPostings
        have h1 : is1Hit v = false := is1Hit_offset v (by omega)
        rw [h1]
        simp only [Bool.false_eq_true, if_false, hrec, ChunkBytes.ok_bind, hcs',
          ChunkBytes.pure_eq_ok]
        rw [hadj]
      · unfold Loaded.store
        rw [hrec]
      · intro file
        have hidx : ∀ e ∈ es, e.doc / cs < (L.numDocs - 1) / cs + 1 := by
          intro e he
          have := hok.2.2 e he
          exact chunk_index_lt cs e.doc (L.numDocs - 1) (by omega)
        have := postings_decoders K.chunk cs ((L.numDocs - 1) / cs + 1) hcspos es hok.1 hok.sorted hidx
          (Nat.succ_pos _) tf0 lc0 tf' lc' hf1 hc1 hl1 hf2 hc2 hl2 htf' hlc' file pre
          (postingsRecord K (tf'.writeAt pre.length).1
            (lc'.writeAt (pre.length + (tf'.writeAt pre.length).2.1.length)).1 (es.map (·.doc)) ++ suf)
          hpre
        simp only at this
        have hdata : pre ++ (tf'.writeAt pre.length).2.1 ++
            (lc'.writeAt (pre.length + (tf'.writeAt pre.length).2.1.length)).2.1 ++
            (postingsRecord K (tf'.writeAt pre.length).1
              (lc'.writeAt (pre.length + (tf'.writeAt pre.length).2.1.length)).1 (es.map (·.doc)) ++ suf)
            = data := by
          rw [hdd, hb]; simp only [List.append_assoc]
        rw [hdata] at this
        exact this (by omega) (by intro _; simp only [List.length_append]; omega)

/-! ## C04_empty -/

/-- without documents `serialize` cannot fail: stored section (trailer only), fields section -/
theorem serialize_zero (K : Codecs) (L : LSeg) (h0 : L.numDocs = 0) :
    ∃ data ft, serialize K L = .ok (data, ft) ∧
      data = (storedOut K L).bytes ++
        (persistFields (storedOut K L).bytes.length ((L.fields.map fun _ => 0).zip L.fields)).1 ∧
      ft.docValueOffset = (if L.merger then maxUint64 else 0) := by
  unfold serialize serializeWith
  have : ¬ (L.numDocs > 0) := by omega
  simp only [if_true, this, if_false, ChunkBytes.pure_eq_ok, ChunkBytes.ok_bind]
  exact ⟨_, _, rfl, by simp [storedOut], rfl⟩

/-- **C04_empty.**  A segment without documents - the builder on an empty batch
    (`docValueOffset = 0`, the zero value `convert` leaves in `fdvIndexOffset`), the merger when
    nothing survives (`docValueOffset = 2^64-1`) - serializes, and the file loads for both
    backings: the fields are there, no field has a dictionary (`dictLocs` all 0) or a doc-value
    reader (the doc-value index is not touched), and every stored-field visit delivers nothing. -/
theorem C04_empty (K : Codecs) (L : LSeg) (hv : Valid K L) (h0 : L.numDocs = 0) (mem : Bool) :
    ∃ data ft ld, serialize K L = .ok (data, ft) ∧ load mem (fileOf K data ft) = .ok ld ∧
      ld.footer.numDocs = 0 ∧
      ld.footer.docValueOffset = (if L.merger then 2 ^ 64 - 1 else 0) ∧
      ld.fieldsInv = L.fields.map (·.name) ∧
      ld.dictLocs = L.fields.map (fun _ => 0) ∧
      (∀ r ∈ ld.dvReaders, r = none) ∧
      (∀ i, dictionaryOf K ld i = .ok none) ∧
      (∀ (n : Nat) (buf : Stored.Buf) (stop : Option Nat),
        Stored.visit K.stored ld.storedSeg buf n stop = .ok ([], buf)) := by
  obtain ⟨data, ft, hs, _, hdvo⟩ := serialize_zero K L h0
  obtain ⟨ld1, hl1, _, hft, hnd, _, hfi, _, _, _, hdl⟩ := C04_fields K L hv data ft hs mem
  obtain ⟨ld2, hl2, _, hz, _⟩ := C04_dv K L hv data ft hs mem
  obtain ⟨ld3, hl3, hd0, _⟩ := C04_dict K L hv data ft hs mem
  obtain ⟨ld4, tail, hl4, _, _, _, hbeyond⟩ := C04_stored K L hv data ft hs mem
  rw [hl1] at hl2 hl3 hl4
  cases hl2; cases hl3; cases hl4
  refine ⟨data, ft, ld1, hs, hl1, by rw [hnd, h0], ?_, hfi, hdl h0, hz h0, hd0 h0, ?_⟩
  · rw [hft]; exact hdvo
  · intro n buf stop
    exact hbeyond n (by rw [← hv.numDocs_eq, h0]; exact Nat.zero_le _) buf stop

/-! ## `Valid` is decidable -/

instance (cs m : Nat) (vals : List (Nat × List Bytes)) : Decidable (C07.Valid cs m vals) :=
  decidable_of_iff
    (0 < cs ∧ vals.Pairwise (fun a b => a.1 < b.1) ∧ (∀ q ∈ vals, q.1 ≤ m) ∧ m < 2 ^ 63 - 1 ∧
      C07.rawSize vals < 2 ^ 64 - 1 ∧ ∀ q ∈ vals, ∀ t ∈ q.2, (255 : Nat) ∉ t)
    ⟨fun ⟨a, b, c, d, e, f⟩ => ⟨a, b, c, d, e, f⟩, fun ⟨a, b, c, d, e, f⟩ => ⟨a, b, c, d, e, f⟩⟩

instance (merger : Bool) (numDocs : Nat) (f : FieldDesc) : Decidable (f.Valid merger numDocs) := by
  unfold FieldDesc.Valid
  have : Decidable (∀ vals, f.dv = some vals → C07.Valid dvChunk (numDocs - 1) vals) := by
    cases f.dv with
    | none => exact isTrue (fun _ h => by cases h)
    | some v =>
      exact decidable_of_iff (C07.Valid dvChunk (numDocs - 1) v)
        ⟨fun h _ e => by cases e; exact h, fun h => h v rfl⟩
  infer_instance

instance (K : Codecs) (L : LSeg) : Decidable (Valid K L) := by
  have : Decidable (match serialize K L with
      | .ok (data, _) => data.length + 44 < 2 ^ 62
      | _ => True) := by
    split <;> infer_instance
  exact decidable_of_iff
    (L.fields.head?.map (·.name) = some idField ∧ L.fields.length < 2 ^ 16 ∧
      L.numDocs = L.stored.length ∧ L.numDocs < 2 ^ 32 ∧ (1 ≤ L.chunkMode ∧ L.chunkMode ≤ 1025) ∧
      (∀ f ∈ L.fields, f.Valid L.merger L.numDocs) ∧
      (L.numDocs = 0 → ∀ f ∈ L.fields,
        f.terms = [] ∧ f.dv = none ∧ f.fieldDocs = 0 ∧ f.fieldFreqs = 0) ∧
      C06.Valid K.stored docBlock L.fields.length L.stored ∧
      (((storedOut K L).chunkOffsets.flatMap putUvarint).length < 2 ^ 32 ∧
        (storedOut K L).chunkOffsets.length < 2 ^ 32) ∧
      (match serialize K L with
        | .ok (data, _) => data.length + 44 < 2 ^ 62
        | _ => True))
    ⟨fun ⟨a, b, c, d, e, f, g, h, i, j⟩ => ⟨a, b, c, d, e, f, g, h, i, j⟩,
     fun ⟨a, b, c, d, e, f, g, h, i, j⟩ => ⟨a, b, c, d, e, f, g, h, i, j⟩⟩

/-! ## a concrete segment -/

/-- sum of bytes modulo 2^32: a checksum with the update law -/
def exCRC : CRC :=
  { upd := fun c b => (c + b.sum) % 2 ^ 32,
    upd_append := by
      intro c a b
      simp only [List.sum_append]
      omega }

/-- a toy FST format: per entry the key length, the key, the value as big-endian u64 -/
def encFst : List (Bytes × Nat) → Bytes
  | [] => []
  | (k, v) :: r => k.length :: k ++ be 8 v ++ encFst r

def decFst : Nat → Bytes → Option (List (Bytes × Nat))
  | 0, _ => none
  | _, [] => some []
  | fuel + 1, n :: r =>
    if r.length < n + 8 then none else
    match decFst fuel (r.drop (n + 8)) with
    | none => none
    | some es => some ((r.take n, unbe ((r.drop n).take 8)) :: es)

theorem encFst_rt : ∀ (es : List (Bytes × Nat)) (fuel : Nat), (encFst es).length < fuel →
    (∀ e ∈ es, e.2 < 2 ^ 64) → decFst fuel (encFst es) = some es := by
  intro es
  induction es with
  | nil => intro fuel hf _; cases fuel with
    | zero => simp [encFst] at hf
    | succ f => simp [encFst, decFst]
  | cons e es ih =>
    intro fuel hf hv
    obtain ⟨k, v⟩ := e
    cases fuel with
    | zero => omega
    | succ f =>
      have hlen : (encFst ((k, v) :: es)).length = 1 + k.length + 8 + (encFst es).length := by
        simp [encFst, C11.be_length]; omega
      have hv8 : v < 256 ^ 8 := by have := hv (k, v) (by simp); simpa using this
      have hrest : ∀ e ∈ es, e.2 < 2 ^ 64 := fun e he => hv e (by simp [he])
      have e1 : (k ++ (be 8 v ++ encFst es)).drop (k.length + 8) = encFst es := by
        rw [← List.drop_drop, List.drop_left]
        exact List.drop_left' (C11.be_length 8 v)
      have e2 : (k ++ (be 8 v ++ encFst es)).take k.length = k := by simp
      have e3 : ((k ++ (be 8 v ++ encFst es)).drop k.length).take 8 = be 8 v := by
        rw [List.drop_left]
        exact List.take_left' (C11.be_length 8 v)
      have hnot : ¬ (k ++ (be 8 v ++ encFst es)).length < k.length + 8 := by
        simp [C11.be_length]
      simp only [encFst, List.cons_append, List.append_assoc, decFst, hnot, if_false, e1, e2, e3]
      rw [ih f (by omega) hrest, C11.unbe_be 8 v hv8]

/-- "identity" codecs: no compression, a bitmap is the list of its members (one byte each, for
    the small document numbers of the example), the toy FST format above -/
def exK : Codecs :=
  { Z := id, unZ := some, rt := fun _ => rfl, z_nil := rfl,
    rEnc := id, rDec := some, r_rt := fun _ _ _ => rfl,
    fstEnc := encFst, fstDec := fun b => decFst (b.length + 1) b,
    fst_rt := fun es _ hv => encFst_rt es _ (Nat.lt_succ_self _) hv,
    crc := exCRC, crc_lt := fun _ _ => Nat.mod_lt _ (by decide) }

def exL : LSeg :=
  { merger := false, numDocs := 3, chunkMode := 2,
    fields := [
      { name := idField, fieldDocs := 3, fieldFreqs := 3,
        terms := [([48], .general [⟨0, 1, 7, []⟩]), ([49], .general [⟨1, 1, 7, []⟩]),
                  ([50], .general [⟨2, 1, 7, []⟩])],
        dv := none },
      { name := [102], fieldDocs := 3, fieldFreqs := 5,
        terms := [([97], .general [⟨0, 2, 9, [⟨1, 1, 0, 1⟩, ⟨1, 3, 4, 5⟩]⟩, ⟨1, 1, 9, []⟩, ⟨2, 1, 300, []⟩]),
                  ([98], .general [⟨1, 1, 9, [⟨1, 2, 2, 3⟩]⟩])],
        dv := some [(0, [[97]]), (1, [[97], [98]]), (2, [[97]])] } ],
    stored := [[(0, [[48]])], [(0, [[49]]), (1, [[120, 121]])], [(0, [[50]])]] }

def exData : Bytes := [3, 1, 0, 0, 1, 48, 6, 3, 0, 0, 1, 1, 1, 2, 49, 120, 121, 3, 1, 0, 0, 1, 50, 0, 23, 0, 0, 0, 2, 0, 0, 0, 2, 0, 0, 0,
    0, 0, 0, 0, 0, 0, 0, 0, 0, 0, 0, 0, 6, 0, 0, 0, 0, 0, 0, 0, 17, 2, 2, 2, 2, 7, 57, 0, 1, 0, 2, 2, 2, 2, 7, 66, 0, 1,
    1, 2, 0, 2, 2, 7, 75, 0, 1, 2, 30, 1, 48, 0, 0, 0, 0, 0, 0, 0, 62, 1, 49, 0, 0, 0, 0, 0, 0, 0, 71, 1, 50, 0, 0, 0,
    0, 0, 0, 0, 80, 2, 4, 7, 5, 9, 2, 9, 2, 172, 2, 2, 9, 9, 8, 1, 1, 0, 1, 1, 3, 4, 5, 115, 10, 3, 0, 1, 2, 2, 2, 2, 3,
    9, 2, 5, 5, 4, 1, 2, 2, 3, 143, 1, 5, 1, 1, 20, 1, 97, 0, 0, 0, 0, 0, 0, 0, 137, 1, 98, 0, 0, 0, 0, 0, 0, 0, 156, 3,
    0, 2, 1, 4, 1, 2, 97, 255, 97, 255, 98, 255, 97, 255, 15, 0, 0, 0, 0, 0, 0, 0, 1, 0, 0, 0, 0, 0, 0, 0, 1, 255, 255,
    255, 255, 255, 255, 255, 255, 255, 1, 255, 255, 255, 255, 255, 255, 255, 255, 255, 1, 182, 1, 214, 1, 84, 3, 95,
    105, 100, 3, 3, 161, 1, 1, 102, 3, 5, 0, 0, 0, 0, 0, 0, 0, 238, 0, 0, 0, 0, 0, 0, 0, 245]

def exFooter : Footer :=
  { numDocs := 3, storedIndexOffset := 33, fieldsIndexOffset := 251, docValueOffset := 214,
    chunkMode := 2, version := 2, crc := 0 }

theorem putUvarint_small (x : Nat) (h : x < 128) : putUvarint x = [x] := by
  unfold putUvarint; simp [h]

theorem putUvarint_two (x : Nat) (h1 : 128 ≤ x) (h2 : x < 16384) :
    putUvarint x = [x % 128 + 128, x / 128] := by
  rw [putUvarint, if_neg (by omega), putUvarint_small _ (by omega)]

def exStored : Bytes := [3, 1, 0, 0, 1, 48, 6, 3, 0, 0, 1, 1, 1, 2, 49, 120, 121, 3, 1, 0, 0, 1, 50, 0, 23, 0, 0, 0, 2, 0, 0, 0, 2, 0, 0, 0,
    0, 0, 0, 0, 0, 0, 0, 0, 0, 0, 0, 0, 6, 0, 0, 0, 0, 0, 0, 0, 17]

set_option maxRecDepth 10000 in
theorem stored_ex : Stored.writeStoredFields exK.stored docBlock exL.stored =
    { bytes := exStored, storedIndexOffset := 33, chunkOffsets := [0, 23] } := by
  simp [exL, exK, Codecs.stored, docBlock, Stored.writeStoredFields, Stored.writeDocs, Stored.encodeDoc,
    Stored.encodeStoredFieldValues, Stored.Coder.add, Stored.Coder.flush, Stored.Coder.write,
    putUvarint_small, be, exStored]

def c0 : ChunkBytes.Coder := { chunkSize := 1024, lensArr := [0], lensLen := 1, currChunk := 0, chunkBuf := [], final := [] }
def c1 : ChunkBytes.Coder := { chunkSize := 2, lensArr := [0, 0], lensLen := 2, currChunk := 0, chunkBuf := [], final := [] }

theorem new_ex : ChunkBytes.Coder.new 1024 2 = .ok c0 := by
  simp [ChunkBytes.Coder.new, ChunkBytes.totalChunks, two64, ChunkBytes.two63, c0]

set_option maxRecDepth 10000 in
theorem term1 : writeTerm exK false 2 3 ⟨c0, c0⟩ 57 ([48], .general [⟨0, 1, 7, []⟩]) =
    .ok (⟨c1, c1⟩, [2, 2, 2, 2, 7, 57, 0, 1, 0], 62) := by
  simp [writeTerm, TermDesc.entries, getChunkSize, c0, c1, ChunkBytes.Coder.setChunkSize,
    ChunkBytes.totalChunks, ChunkBytes.Coder.capLens, two64, ChunkBytes.two63,
    ChunkBytes.Coder.encode, ChunkBytes.Coder.addAll, ChunkBytes.Coder.add, ChunkBytes.Coder.close,
    ChunkBytes.tfAdds, ChunkBytes.locAdds, ChunkBytes.locAddsOf, encodeFreqHasLocs,
    ChunkBytes.Coder.writeAt, ChunkBytes.Coder.write, ChunkBytes.Coder.chunkLens,
    ChunkBytes.endOffsets, ChunkBytes.Coder.reset, postingsRecord, u64, exK, Codecs.chunk,
    putUvarint_small, DocValues.sub64]

theorem putUvarint_max : putUvarint DocValues.maxUint64 = [255, 255, 255, 255, 255, 255, 255, 255, 255, 1] := by
  unfold DocValues.maxUint64
  rw [putUvarint, if_neg (by decide), putUvarint, if_neg (by decide), putUvarint, if_neg (by decide),
    putUvarint, if_neg (by decide), putUvarint, if_neg (by decide), putUvarint, if_neg (by decide),
    putUvarint, if_neg (by decide), putUvarint, if_neg (by decide), putUvarint, if_neg (by decide),
    putUvarint, if_pos (by decide)]

set_option maxRecDepth 100000 in
theorem ex_serialize : serialize exK exL = .ok (exData, exFooter) := by
  unfold serialize serializeWith
  rw [stored_ex]
  simp [exL, new_ex, foldW, writeField, idField,
    writeTerm, TermDesc.entries, getChunkSize, c0, ChunkBytes.Coder.setChunkSize,
    ChunkBytes.totalChunks, ChunkBytes.Coder.capLens, two64, ChunkBytes.two63,
    ChunkBytes.Coder.encode, ChunkBytes.Coder.addAll, ChunkBytes.Coder.add, ChunkBytes.Coder.close,
    ChunkBytes.tfAdds, ChunkBytes.locAdds, ChunkBytes.locAddsOf, encodeFreqHasLocs,
    ChunkBytes.numBytesLocs, ChunkBytes.totalUvarintBytes, numUvarintBytes_eq_length,
    ChunkBytes.Coder.writeAt, ChunkBytes.Coder.write, ChunkBytes.Coder.chunkLens,
    ChunkBytes.endOffsets, ChunkBytes.Coder.reset, postingsRecord, u64, exK, Codecs.chunk, Codecs.dv,
    putUvarint_small, putUvarint_two, putUvarint_max, DocValues.sub64, DocValues.add64,
    fstEntries, ascKeys, Bytes.lt, Bytes.cmp, encFst, be, exStored,
    DocValues.buildField, DocValues.Coder.new, DocValues.addAll, DocValues.Coder.add,
    DocValues.Coder.flush, DocValues.Coder.write, DocValues.encVals, DocValues.docBytes,
    DocValues.encDeltas, DocValues.endOffsets, dvChunk, dvIndexBytes, persistFields,
    persistFieldsLoop, fieldRecord, exData, exFooter]

def exReader : DocValues.Reader :=
  { curChunkNum := DocValues.maxInt64, chunkOffsets := [15], dvDataLoc := 182,
    curChunkHeader := [], curChunkData := none, uncompressed := [] }

def exLoaded (mem : Bool) : Loaded :=
  { data := { bytes := exData, mem := mem },
    footer := { exFooter with crc := 10277 },
    fieldsInv := [idField, [102]], dictLocs := [84, 161], fieldDocs := [3, 3], fieldFreqs := [3, 5],
    storedChunkOffsets := [0, 23], dvReaders := [none, some exReader] }

set_option maxRecDepth 100000 in
theorem ex_load : load true (fileOf exK exData exFooter) = .ok (exLoaded true) ∧
    load false (fileOf exK exData exFooter) = .ok (exLoaded false) := by
  constructor <;> decide

set_option maxRecDepth 100000 in
theorem ex_read :
    dictionaryOf exK (exLoaded true) 0 = .ok (some [([48], 62), ([49], 71), ([50], 80)]) ∧
    dictionaryOf exK (exLoaded true) 1 = .ok (some [([97], 137), ([98], 156)]) ∧
    readPostings exK (exLoaded true) 137 = .ok (.general 115 125 [0, 1, 2] 2) ∧
    readPostings exK (exLoaded true) 156 = .ok (.general 143 148 [1] 2) ∧
    readPostings exK (exLoaded true) 62 = .ok (.general 57 0 [0] 2) := by
  refine ⟨by decide, by decide, by decide, by decide, by decide⟩

/-- the multi-chunk term `a` of field `f` read back chunk by chunk (chunk size 2: documents 0, 1
    in chunk 0 - document 0 with two locations -, document 2 with the two-byte norm in chunk 1) -/
def readChunk (off loff c : Nat) : Res (List (Nat × Nat × List ChunkBytes.BLoc)) :=
  match ChunkBytes.Decoder.newWith true exData off, ChunkBytes.Decoder.newWith true exData loff with
  | .ok dt, .ok dl =>
    match dt.loadChunk exK.chunk c, dl.loadChunk exK.chunk c with
    | .ok fb, .ok lb => ChunkBytes.decodeAll 3 ⟨fb, 0⟩ ⟨lb, 0⟩
    | _, _ => .err
  | _, _ => .err

set_option maxRecDepth 100000 in
theorem ex_chunks :
    readChunk 115 125 0 = .ok [(2, 9, [⟨1, 1, 0, 1⟩, ⟨1, 3, 4, 5⟩]), (1, 9, [])] ∧
    readChunk 115 125 1 = .ok [(1, 300, [])] ∧
    readChunk 143 148 0 = .ok [(1, 9, [⟨1, 2, 2, 3⟩])] := by
  refine ⟨by decide, by decide, by decide⟩

set_option maxRecDepth 100000 in
/-- doc values and stored values of the loaded segment -/
theorem ex_values :
    (match DocValues.Reader.visitAll exK.dv (exLoaded false).data dvChunk exReader [2, 0, 1, 1] with
      | .ok (l, _) => some l
      | _ => none) = some [[[97]], [[97]], [[97], [98]], [[97], [98]]] ∧
    C06.delivered (Stored.visit exK.stored (exLoaded false).storedSeg Stored.Buf.empty 1 none) =
      .ok [(0, [49]), (1, [120, 121])] := by
  refine ⟨by decide, by decide⟩

set_option maxRecDepth 100000 in
/-- the hypotheses of the theorems are satisfiable: the example is a valid description -/
theorem ex_valid : Valid exK exL := by
  refine ⟨rfl, by decide, rfl, by decide, by decide, ?_, (fun h => by cases h), ?_, ?_, ?_⟩
  · intro f hf
    simp only [exL, List.mem_cons, List.not_mem_nil, or_false] at hf
    rcases hf with rfl | rfl
    · refine ⟨by decide, by decide, by decide, by decide, by decide, fun v h => by cases h⟩
    · refine ⟨by decide, by decide, by decide, by decide, by decide, ?_⟩
      intro v h
      simp only [Option.some.injEq] at h
      subst h
      refine ⟨by decide, by decide, by decide, by decide, ?_, ?_⟩
      · simp [C07.rawSize, DocValues.encVals, DocValues.dataOf, DocValues.docBytes]
      · intro q hq
        simp only [List.mem_cons, List.not_mem_nil, or_false] at hq
        rcases hq with rfl | rfl | rfl <;> intro t ht <;> simp at ht <;>
          (try rcases ht with rfl | rfl) <;> (try subst ht) <;> simp
  · refine ⟨by decide, by decide, by decide, ?_, ?_⟩
    · simp [exL, Stored.record, Stored.encodeDoc, Stored.encodeStoredFieldValues, putUvarint_small]
    · rw [stored_ex]; decide
  · unfold storedOut
    rw [stored_ex]
    simp [putUvarint_small]
  · rw [ex_serialize]; decide

/-- in the builder the doc-value column is the one derived from the postings (`docTermMap`) -/
example : (exL.fields.map fun f => f.dv.map fun v => decide (v = dvOfTerms exL.numDocs f.terms)) =
    [none, some true] := by decide

/-- … so the theorems apply to it; e.g. `C04_postings` for the multi-chunk term `a` of field 1 -/
example := C04_postings exK exL ex_valid exData exFooter ex_serialize false (by decide) 1 _ rfl 0 _ _ rfl

/-! ### the zero-survivor merge before and after commit 49af17c -/

/-- a merge in which no document survives; the merged field list is `_id` -/
def exL0 : LSeg :=
  { merger := true, numDocs := 0, chunkMode := 1025,
    fields := [{ name := idField, fieldDocs := 0, fieldFreqs := 0, terms := [], dv := none }],
    stored := [] }

def exData0_v0 : Bytes := [0, 3, 95, 105, 100, 0, 0, 0, 0, 0, 0, 0, 0, 0, 0]
def exData0 : Bytes := [0, 0, 0, 0, 0, 2, 0, 0, 0, 2] ++ [0, 3, 95, 105, 100, 0, 0, 0, 0, 0, 0, 0, 0, 0, 10]

def exFooter0_v0 : Footer :=
  { numDocs := 0, storedIndexOffset := 0, fieldsIndexOffset := 7, docValueOffset := 2 ^ 64 - 1,
    chunkMode := 1025, version := 2, crc := 0 }
def exFooter0 : Footer := { exFooter0_v0 with storedIndexOffset := 10, fieldsIndexOffset := 17 }

set_option maxRecDepth 100000 in
/-- **C04_empty, the defect that was repaired.**  Before commit 49af17c the merger wrote no stored
    section when nothing survived (`storedIndexOffset = 0`): the file is well-formed up to the
    footer, but `loadStoredFieldChunk` slices at position -4 and `load` panics.  As the code
    stands the stored section (its trailer) is written and the file loads. -/
theorem C04_empty_v0_counterexample :
    serialize_v0 exK exL0 = .ok (exData0_v0, exFooter0_v0) ∧
    load true (fileOf exK exData0_v0 exFooter0_v0) = .panic ∧
    serialize exK exL0 = .ok (exData0, exFooter0) ∧
    (match load true (fileOf exK exData0 exFooter0) with
     | .ok ld => decide (ld.fieldsInv = [idField] ∧ ld.dictLocs = [0] ∧ ld.dvReaders = [none] ∧
         ld.storedChunkOffsets = [0, 0] ∧ ld.footer.numDocs = 0)
     | _ => false) = true := by
  refine ⟨?_, by decide, ?_, by decide⟩
  · simp [serialize_v0, serializeWith, exL0, persistFields, persistFieldsLoop, fieldRecord, idField,
      putUvarint_small, be, u64, two64, DocValues.maxUint64, exData0_v0, exFooter0_v0]
  · simp [serialize, serializeWith, exL0, persistFields, persistFieldsLoop, fieldRecord, idField,
      putUvarint_small, be, u64, two64, DocValues.maxUint64, exData0, exFooter0, exFooter0_v0,
      Stored.writeStoredFields, Stored.writeDocs, Stored.Coder.write, Stored.Coder.flush, docBlock,
      exK, Codecs.stored]

end Ice.Props.C04

/-! axiom audit (expected: a subset of propext, Classical.choice, Quot.sound) -/
section Audit
open Ice.Props.C04
#print axioms C04_footer
#print axioms C04_count
#print axioms C04_tail
#print axioms Ice.Model.Format.read_inbounds
#print axioms C04_fields
#print axioms C04_stored
#print axioms C04_dv
#print axioms C04_dict
#print axioms C04_postings
#print axioms C04_empty
#print axioms C04_empty_v0_counterexample
#print axioms load_written
#print axioms ex_valid
#print axioms ex_serialize
#print axioms ex_load
#print axioms ex_read
#print axioms ex_chunks
#print axioms ex_values
end Audit
