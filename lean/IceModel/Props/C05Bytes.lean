import IceModel.Model.IterBytes
import IceModel.Lemmas.IterBytesMk
import IceModel.Lemmas.IterBytesReuse
import IceModel.Props.C05
import IceModel.Props.ChunkBytes
/-
  Property C05 at the BYTE level, and property C13 (reuse of a `PostingsIterator`).

  The byte-level model of `PostingsIterator` (`Model/IterBytes.lean`: the two chunk readers are
  `chunkedIntDecoder`s with their buffers and `memUvarintReader` cursors over the bytes of the
  segment) SIMULATES the entry-level model (`Model/Iter.lean`), which by `C05_entry` equals the
  specification iterator.  Composition of: T2/T3 (one entry ↔ its bytes), T6/T7 (chunks ↔ stream),
  C05_entry (entry-level iterator = specification).

  (B1)  `B1_sim`   forward simulation of one `Next`/`Advance`, for every well-formed state
        `B1`       the same with the entry-level invariant folded in: the byte-level iterator never
                   errs or panics, stays well formed, commutes with `absIt`, answers as specified
  (B2)  `B2`       `runB (mkB …) ops` = the specification's answers, for every chunk size, every
                   ascending valid entry list written by the model writer, every exclusion list,
                   every flag triple, every script                    (`B2_rflags`, `B2_view`)
  (B3)  `B3_locOffset`, `B3_idle`, `B3_run`   lists without locations: `locOffset = 0`
                   (`termNotEncoded`), the location decoder only ever holds an untouched reader on
                   the nil slice, no fault
  (B4)  `B4_env`, `B4`, `B4_decoder`   reuse (C13): `iterator(…, rv)` with ANY `rv` yields a
                   well-formed state with the same abstraction as a fresh iterator, hence the same
                   transcript for every script; `newChunkedIntDecoder(data, off, rv)` parses the
                   same decoder as with `nil` and fails in the same way, for every `rv`
        `B4_any`   the same WITHOUT any hypothesis on the bytes: for every postings list, every
                   `data` (corrupt or not), every `rv`, every script, reused and fresh iterator
                   produce the same transcript, errors and panics included
  Nothing is partial.  No field that `reset()` leaves behind is read before it is overwritten:
  B4 holds for every `used` state, so there is no reuse defect to report at HEAD.

  Hypotheses beyond "written by the model writer" (all are input contracts of the Go code):
    * `Entry.Valid` (uint64 ranges, < 2^57 locations);
    * `#locations ≤ freq`   (`nextLocs[0:freq]`, posting.go:491-499; else `T3_freq_contract`);
    * `norm < 2^32`         (`math.Float32frombits(uint32(normBits))`, posting.go:488);
    * every field id `< len(fieldsInv)` (`fieldsInv[fieldID]`, posting.go:444);
    * documents strictly ascending and `≤ maxDoc`; file shorter than `2^62` bytes; a non-empty
      prefix in front of the streams (offset 0 means `termNotEncoded`).
-/
namespace Ice.Props.C05Bytes
open Ice Ice.Spec Ice.Model Ice.Model.ChunkBytes Ice.Model.IterBytes
open Ice.Model.Iter (RFlags It)
open Ice.Props.ChunkBytes (T6_writeAt T7_chunks T7_sorted)

/-! ## (B1) simulation -/

/-- (B1, forward simulation) In a well-formed state, whenever the entry-level model makes a step
    from the abstraction, the byte-level model makes the same step: same answer, no `err`, no
    `panic`, well-formed successor, and the abstraction commutes. -/
theorem B1_sim {E : Env} (hE : E.OK) {i : ItB} (h : WF E i) (op : IterOp) {r : Option Posting}
    {j : It} (hj : Iter.step (absIt E i) op = some (r, j)) :
    ∃ i', stepB E.K i op = .ok (r, i') ∧ WF E i' ∧ absIt E i' = j ∧ i'.fl = i.fl :=
  stepB_sim hE h hj

/-- well formed, and the abstraction satisfies the invariant of `C05_entry` for the remaining
    live postings `L` -/
def WFR (E : Env) (fl : RFlags) (lv : Posting → Bool) (cl : Bool) (i : ItB) (L : List Posting) : Prop :=
  WF E i ∧ Iter.StepInv E.cs (E.es.map (toP E.finv)) fl lv cl (absIt E i) L

/-- (B1) For entries in ascending document order: from a reachable (`WFR`) state every operation
    of the byte-level iterator succeeds, leads to a reachable state, is the entry-level step of the
    abstraction, and answers what the specification iterator answers. -/
theorem B1 {E : Env} (hE : E.OK) (hs : Iter.SortedP (E.es.map (toP E.finv))) {fl : RFlags}
    (hfl : fl.incL = true → fl.incFN = true) {lv : Posting → Bool} {cl : Bool}
    (hmode : cl = true → ∀ p, lv p = true) {i : ItB} {L : List Posting} (h : WFR E fl lv cl i L)
    (op : IterOp) :
    ∃ r i', stepB E.K i op = .ok (r, i') ∧ WFR E fl lv cl i' (iterStep L op).2 ∧
      Iter.step (absIt E i) op = some (r, absIt E i') ∧
      r = (iterStep L op).1.map (Iter.decoded fl) := by
  obtain ⟨j, hstep, hinv⟩ := Iter.step_spec hE.cspos hs hmode hfl (absIt E i) L op h.2
  obtain ⟨i', e, w, a, _⟩ := stepB_sim hE h.1 hstep
  exact ⟨_, i', e, ⟨w, by rw [a]; exact hinv⟩, by rw [a]; exact hstep, rfl⟩

/-- (B1) along a whole script: as long as the entry-level model does not fault, the byte-level
    transcript is the entry-level transcript -/
theorem B1_run {E : Env} (hE : E.OK) {i : ItB} (h : WF E i) (ops : List IterOp)
    (hno : ∀ x ∈ Iter.run (absIt E i) ops, x ≠ none) :
    runB E.K i ops = (Iter.run (absIt E i) ops).map resOf :=
  runB_sim hE ops i h hno

/-! ## the environment of an iterator over what the model writer wrote -/

/-- T6/T7 in the form the invariant uses: decoders opened at the two offsets `writeAt` returned
    load, for every chunk index up to `maxDoc / cs`, exactly `fnBytes` / `locBytes` of the entries
    of that chunk. -/
theorem streams_load (K : Codec) (cs maxDoc : Nat) (hpos : 0 < cs) (hm : maxDoc / cs + 1 < 2 ^ 63)
    (es : List Entry) (hs : es.Pairwise (fun a b => a.doc ≤ b.doc)) (hdoc : ∀ e ∈ es, e.doc ≤ maxDoc)
    (tf lc tf' lc' : Coder)
    (htf : Coder.new cs maxDoc = .ok tf) (hlc : Coder.new cs maxDoc = .ok lc)
    (htf' : tf.encode K (tfAdds es) = .ok tf') (hlc' : lc.encode K (locAdds es) = .ok lc')
    (file : Bool) (pre suf : Bytes) (hpre : pre ≠ [])
    (hsz : (layout pre tf' lc' suf).2.2.length < 2 ^ 62) (hsuf : file = true → 10 ≤ suf.length) :
    ∃ dt dl, Decoder.newWith file (layout pre tf' lc' suf).2.2 (layout pre tf' lc' suf).1 = .ok dt ∧
      Decoder.newWith file (layout pre tf' lc' suf).2.2 (layout pre tf' lc' suf).2.1 = .ok dl ∧
      ∀ c, c ≤ maxDoc / cs →
        dt.loadChunk K c = .ok (fnBytes (chunkE cs es c)) ∧
        dl.loadChunk K c = .ok (locBytes (chunkE cs es c)) := by
  obtain ⟨c0, hnew, hf, hc1, hc2⟩ := Coder.new_ok (m := maxDoc) hpos hm
  have e1 : tf = c0 := by rw [htf] at hnew; cases hnew; rfl
  have e2 : lc = c0 := by rw [hlc] at hnew; cases hnew; rfl
  have hf1 : Fresh tf ∧ tf.chunkSize = cs ∧ tf.lensLen = maxDoc / cs + 1 := by
    rw [e1]; exact ⟨hf, hc1, hc2⟩
  have hf2 : Fresh lc ∧ lc.chunkSize = cs ∧ lc.lensLen = maxDoc / cs + 1 := by
    rw [e2]; exact ⟨hf, hc1, hc2⟩
  have hidx1 : ∀ a ∈ tfAdds es, a.1 / cs < maxDoc / cs + 1 := by
    intro a ha
    simp only [tfAdds, List.mem_map] at ha
    obtain ⟨e, he, rfl⟩ := ha
    exact chunk_index_lt cs e.doc maxDoc (hdoc e he)
  have hidx2 : ∀ a ∈ locAdds es, a.1 / cs < maxDoc / cs + 1 := by
    intro a ha
    simp only [locAdds, List.mem_flatMap] at ha
    obtain ⟨e, he, ha⟩ := ha
    rw [locAddsOf_doc e a ha]
    exact chunk_index_lt cs e.doc maxDoc (hdoc e he)
  obtain ⟨hs1, hs2⟩ := T7_sorted cs es hs
  -- the layout, spelled out
  let w1 := tf'.writeAt pre.length
  let w2 := lc'.writeAt (pre.length + w1.2.1.length)
  have hL : layout pre tf' lc' suf = (w1.1, w2.1, pre ++ w1.2.1 ++ w2.2.1 ++ suf) := rfl
  rw [hL] at hsz ⊢
  simp only at hsz ⊢
  have hd1 : pre ++ w1.2.1 ++ w2.2.1 ++ suf = pre ++ (tf'.writeAt pre.length).2.1 ++ (w2.2.1 ++ suf) := by
    simp only [w1, List.append_assoc]
  have hd2 : pre ++ w1.2.1 ++ w2.2.1 ++ suf =
      (pre ++ w1.2.1) ++ (lc'.writeAt (pre ++ w1.2.1).length).2.1 ++ suf := by
    simp only [w2, List.length_append]
  obtain ⟨dt, hdt, hlt⟩ := T6_writeAt K tf hf1.1 cs _ hf1.2.1 hpos hf1.2.2 (Nat.succ_pos _) (tfAdds es)
    hs1 hidx1 tf' htf' file pre (w2.2.1 ++ suf) hpre (by rw [← hd1]; exact hsz)
    (by intro h; have := hsuf h; simp; omega)
  obtain ⟨dl, hdl, hll⟩ := T6_writeAt K lc hf2.1 cs _ hf2.2.1 hpos hf2.2.2 (Nat.succ_pos _) (locAdds es)
    hs2 hidx2 lc' hlc' file (pre ++ w1.2.1) suf (by simp [hpre]) (by rw [← hd2]; exact hsz) hsuf
  rw [← hd1] at hdt
  rw [← hd2] at hdl
  have hw2 : w2.1 = (lc'.writeAt (pre ++ w1.2.1).length).1 := by simp only [w2, List.length_append]
  refine ⟨dt, dl, hdt, by rw [hw2]; exact hdl, ?_⟩
  intro c hc
  refine ⟨?_, ?_⟩
  · rw [hlt c (by omega), (T7_chunks cs es c).1]; rfl
  · rw [hll c (by omega), (T7_chunks cs es c).2]; rfl

/-- the input contract of the reader on the entries, beyond `Entry.Valid` -/
structure Contract (finv : List Bytes) (maxDoc : Nat) (es : List Entry) : Prop where
  valid : ∀ e ∈ es, e.Valid
  freq : ∀ e ∈ es, e.locs.length ≤ e.freq
  norm : ∀ e ∈ es, e.norm < 2 ^ 32
  fld : ∀ e ∈ es, ∀ l ∈ e.locs, l.fieldID < finv.length
  doc : ∀ e ∈ es, e.doc ≤ maxDoc
  sorted : es.Pairwise (fun a b => a.doc < b.doc)

/-- the `PostingsList` a term of the written segment gives -/
def plOf (cs : Nat) (file : Bool) (L : Nat × Nat × Bytes) (finv : List Bytes) (es : List Entry)
    (ex : Option (List Nat)) : PLB :=
  { cs := cs, freqOffset := L.1, locOffset := L.2.1, file := file, data := L.2.2, fieldsInv := finv,
    docs := es.map (·.doc), except := ex }

/-- everything the model writer and `writePostings` do for one term -/
structure Written (K : Codec) (cs maxDoc : Nat) (es : List Entry) (file : Bool) (pre suf : Bytes)
    (L : Nat × Nat × Bytes) : Prop where
  cspos : 0 < cs
  total : maxDoc / cs + 1 < 2 ^ 63
  coders : ∃ tf lc tf' lc', Coder.new cs maxDoc = .ok tf ∧ Coder.new cs maxDoc = .ok lc ∧
    tf.encode K (tfAdds es) = .ok tf' ∧ lc.encode K (locAdds es) = .ok lc' ∧
    L = layout pre tf' lc' suf
  pre : pre ≠ []
  size : L.2.2.length < 2 ^ 62
  suf : file = true → 10 ≤ suf.length

/-- from the writer to the environment of the invariant -/
theorem env_of_written {K : Codec} {cs maxDoc : Nat} {es : List Entry} {file : Bool} {pre suf : Bytes}
    {L : Nat × Nat × Bytes} (hw : Written K cs maxDoc es file pre suf L) {finv : List Bytes}
    (hc : Contract finv maxDoc es) :
    ∃ E : Env, E.OK ∧ E.K = K ∧ E.es = es ∧ E.cs = cs ∧ E.finv = finv ∧ E.locOffset = L.2.1 ∧
      ∀ ex, E.pl ex = plOf cs file L finv es ex := by
  obtain ⟨tf, lc, tf', lc', htf, hlc, htf', hlc', rfl⟩ := hw.coders
  have hsle : es.Pairwise (fun a b => a.doc ≤ b.doc) := hc.sorted.imp (fun h => Nat.le_of_lt h)
  obtain ⟨dt, dl, hdt, hdl, hload⟩ := streams_load K cs maxDoc hw.cspos hw.total es hsle hc.doc
    tf lc tf' lc' htf hlc htf' hlc' file pre suf hw.pre hw.size hw.suf
  refine ⟨{ K := K, es := es, cs := cs, maxDoc := maxDoc, file := file,
            data := (layout pre tf' lc' suf).2.2, freqOffset := (layout pre tf' lc' suf).1,
            locOffset := (layout pre tf' lc' suf).2.1, finv := finv, dt := dt, dl := dl },
    ?_, rfl, rfl, rfl, rfl, rfl, fun _ => rfl⟩
  exact ⟨hw.cspos, hc.valid, hc.freq, hc.norm, hc.fld, hc.doc, hdt, hdl,
    fun c h => (hload c h).1, fun c h => (hload c h).2⟩

theorem sorted_map {finv : List Bytes} {es : List Entry} (h : es.Pairwise (fun a b => a.doc < b.doc)) :
    C05.Sorted (es.map (toP finv)) := by
  unfold C05.Sorted
  rw [List.pairwise_map]
  exact h

theorem specRun_ne_none (fl : RFlags) : ∀ (ops : List IterOp) (L : List Posting),
    ∀ x ∈ Iter.specRun fl L ops, x ≠ none := by
  intro ops
  induction ops with
  | nil => intro L x hx; cases hx
  | cons op ops ih =>
    intro L x hx
    simp only [Iter.specRun, List.mem_cons] at hx
    rcases hx with rfl | hx
    · simp
    · exact ih _ x hx

/-! ## (B2) the byte-level iterator equals the specification -/

/-- (B2) for reader flags with `includeLocs → includeFreqNorm` -/
theorem B2_rflags {K : Codec} {cs maxDoc : Nat} {es : List Entry} {file : Bool} {pre suf : Bytes}
    {L : Nat × Nat × Bytes} (hw : Written K cs maxDoc es file pre suf L) {finv : List Bytes}
    (hc : Contract finv maxDoc es) (ex : Option (List Nat)) (fl : RFlags)
    (hfl : fl.incL = true → fl.incFN = true) (ops : List IterOp) :
    ∃ i0, mkB (plOf cs file L finv es ex) fl = .ok i0 ∧
      runB K i0 ops = (Iter.specRun fl (live (es.map (toP finv)) ex) ops).map resOf := by
  obtain ⟨E, hE, rfl, rfl, rfl, rfl, _, hpl⟩ := env_of_written hw hc
  obtain ⟨i0, hmk, hwf, habs⟩ := iteratorB_ok hE ex fl none
  rw [hpl] at hmk
  refine ⟨i0, hmk, ?_⟩
  have hent := C05.C05_entry E.cs hE.cspos (E.es.map (toP E.finv)) (sorted_map hc.sorted) ex fl hfl ops
  rw [runB_sim hE ops i0 hwf (by rw [habs, hent]; exact specRun_ne_none fl ops _), habs, hent]

/-- (B2) `runB (mkB …) ops` is the specification's transcript: for every chunk size `> 0`, every
    ascending valid entry list written by the model writer, every exclusion list, every flag
    triple of `PostingsList.Iterator`, every script.  No `err`, no `panic`. -/
theorem B2 {K : Codec} {cs maxDoc : Nat} {es : List Entry} {file : Bool} {pre suf : Bytes}
    {L : Nat × Nat × Bytes} (hw : Written K cs maxDoc es file pre suf L) {finv : List Bytes}
    (hc : Contract finv maxDoc es) (ex : Option (List Nat)) (fl : Flags) (ops : List IterOp) :
    ∃ i0, mkB (plOf cs file L finv es ex) (RFlags.of fl) = .ok i0 ∧
      runB K i0 ops =
        (Iter.specRun (RFlags.of fl) (live (es.map (toP finv)) ex) ops).map resOf :=
  B2_rflags hw hc ex (RFlags.of fl) (C05.RFlags.of_wf fl) ops

/-- a byte-level answer seen through the flags the caller asked for -/
def viewRes (fl : Flags) : Res (Option Posting) → Res (Option Posting)
  | .ok o => .ok (o.map (view fl))
  | .err => .err
  | .panic => .panic

/-- (B2) in the vocabulary of the correspondence harness (`Spec.iterRun`, `view`) -/
theorem B2_view {K : Codec} {cs maxDoc : Nat} {es : List Entry} {file : Bool} {pre suf : Bytes}
    {L : Nat × Nat × Bytes} (hw : Written K cs maxDoc es file pre suf L) {finv : List Bytes}
    (hc : Contract finv maxDoc es) (ex : Option (List Nat)) (fl : Flags) (ops : List IterOp) :
    ∃ i0, mkB (plOf cs file L finv es ex) (RFlags.of fl) = .ok i0 ∧
      (runB K i0 ops).map (viewRes fl) = (iterRun fl (live (es.map (toP finv)) ex) ops).map .ok := by
  obtain ⟨i0, h1, h2⟩ := B2 hw hc ex fl ops
  refine ⟨i0, h1, ?_⟩
  have hent := C05.C05_entry_of cs hw.cspos _ (sorted_map (finv := finv) hc.sorted) ex fl ops
  have hview := C05.C05_view cs hw.cspos _ (sorted_map (finv := finv) hc.sorted) ex fl ops
  rw [hent] at hview
  rw [h2, List.map_map]
  have : (viewRes fl ∘ resOf) =
      (fun r => match r with
        | some o => Res.ok o
        | none => Res.err) ∘ (fun r : Option (Option Posting) => r.map (fun o => o.map (view fl))) := by
    funext r
    cases r <;> rfl
  rw [this, ← List.map_map, hview, List.map_map]
  rfl

/-! ## (B3) postings without locations: `locOffset = 0` (`termNotEncoded`) -/

theorem locAdds_nil {es : List Entry} (h : ∀ e ∈ es, e.locs = []) : locAdds es = [] := by
  unfold locAdds
  apply List.flatMap_eq_nil_iff.mpr
  intro e he
  simp [locAddsOf, h e he]

/-- (B3) a list none of whose postings has locations gets `locOffset = 0` from `writeAt` -/
theorem B3_locOffset {K : Codec} {cs maxDoc : Nat} {es : List Entry} {file : Bool} {pre suf : Bytes}
    {L : Nat × Nat × Bytes} (hw : Written K cs maxDoc es file pre suf L)
    (hnl : ∀ e ∈ es, e.locs = []) : L.2.1 = 0 := by
  obtain ⟨tf, lc, tf', lc', _, hlc, _, hlc', rfl⟩ := hw.coders
  rw [locAdds_nil hnl] at hlc'
  have hfin : lc'.final = [] := by
    unfold Coder.new at hlc
    cases htot : totalChunks cs maxDoc with
    | err => rw [htot] at hlc; simp at hlc
    | panic => rw [htot] at hlc; simp at hlc
    | ok total =>
      rw [htot] at hlc
      simp only [ok_bind] at hlc
      split at hlc
      · cases hlc
      · simp only [pure_eq_ok, Res.ok.injEq] at hlc
        subst hlc
        simp only [Coder.encode, Coder.addAll, Coder.close] at hlc'
        split at hlc'
        · simp only [Res.ok.injEq] at hlc'
          subst hlc'
          simp [K.z_nil]
        · cases hlc'
  simp [layout, Coder.writeAt, hfin]

/-- (B3) with `locOffset = 0` the location decoder of a well-formed iterator that includes
    locations holds at most a reader on the nil slice at cursor 0: `loadChunk` installs it
    (intdecoder.go:72-75), and no read has ever moved it.  By (B1) every state a run reaches is
    well formed, so the location reader is never touched. -/
theorem B3_idle {E : Env} (hE : E.OK) (h0 : E.locOffset = 0) {i : ItB} (h : WF E i)
    (hl : i.fl.incL = true) :
    ∃ b, i.lcR = some b ∧ b.d.startOffset = 0 ∧ ∀ r, b.r = some r → r = ⟨[], 0⟩ := by
  obtain ⟨b, hb, hok⟩ := h.lc hl
  have hs : b.d.startOffset = 0 := by
    rw [hok.dEq, Decoder.newWith_startOffset hE.newL, h0]
  exact ⟨b, hb, hs, hok.zero hs⟩

/-- the states a script runs through (the transcript of `runB` with the state after each call) -/
def statesB (K : Codec) : ItB → List IterOp → List ItB
  | _, [] => []
  | i, op :: ops =>
    match stepB K i op with
    | .ok (_, i') => i' :: statesB K i' ops
    | _ => []

theorem statesB_wf {E : Env} (hE : E.OK) : ∀ (ops : List IterOp) (i : ItB), WF E i →
    (∀ x ∈ Iter.run (absIt E i) ops, x ≠ none) → ∀ s ∈ statesB E.K i ops, WF E s ∧ s.fl = i.fl := by
  intro ops
  induction ops with
  | nil => intro i _ _ s hs; cases hs
  | cons op ops ih =>
    intro i h hno s hs
    cases hst : Iter.step (absIt E i) op with
    | none =>
      exfalso
      apply hno none _ rfl
      simp [Iter.run, hst]
    | some pr =>
      obtain ⟨o, j⟩ := pr
      obtain ⟨i', e, w, a, f⟩ := stepB_sim hE h hst
      have hrun : Iter.run (absIt E i) (op :: ops) = some o :: Iter.run j ops := by
        simp [Iter.run, hst]
      rw [hrun] at hno
      simp only [statesB, e, List.mem_cons] at hs
      rcases hs with rfl | hs
      · exact ⟨w, f⟩
      · obtain ⟨w', f'⟩ :=
          ih i' w (by rw [a]; intro x hx; exact hno x (List.mem_cons_of_mem _ hx)) s hs
        exact ⟨w', f'.trans f⟩

/-- (B3) end to end: a list without locations, iterated with `includeLocs`, never errs or panics
    (the transcript is the specification's), although its location stream does not exist, and in
    every state of the run the location decoder is idle (empty reader at cursor 0 or none). -/
theorem B3_run {K : Codec} {cs maxDoc : Nat} {es : List Entry} {file : Bool} {pre suf : Bytes}
    {L : Nat × Nat × Bytes} (hw : Written K cs maxDoc es file pre suf L) {finv : List Bytes}
    (hc : Contract finv maxDoc es) (hnl : ∀ e ∈ es, e.locs = []) (ex : Option (List Nat))
    (fl : Flags) (hlocs : fl.locs = true) (ops : List IterOp) :
    L.2.1 = 0 ∧
    ∃ i0, mkB (plOf cs file L finv es ex) (RFlags.of fl) = .ok i0 ∧
      runB K i0 ops =
        (Iter.specRun (RFlags.of fl) (live (es.map (toP finv)) ex) ops).map resOf ∧
      ∀ s ∈ i0 :: statesB K i0 ops,
        ∃ b, s.lcR = some b ∧ b.d.startOffset = 0 ∧ ∀ r, b.r = some r → r = ⟨[], 0⟩ := by
  have h0 := B3_locOffset hw hnl
  refine ⟨h0, ?_⟩
  obtain ⟨E, hE, rfl, rfl, rfl, rfl, hloc, hpl⟩ := env_of_written hw hc
  obtain ⟨i0, hmk, hwf, habs⟩ := iteratorB_ok hE ex (RFlags.of fl) none
  rw [hpl] at hmk
  have hent := C05.C05_entry E.cs hE.cspos (E.es.map (toP E.finv)) (sorted_map hc.sorted) ex
    (RFlags.of fl) (C05.RFlags.of_wf fl) ops
  have hno : ∀ x ∈ Iter.run (absIt E i0) ops, x ≠ none := by
    rw [habs, hent]; exact specRun_ne_none _ ops _
  refine ⟨i0, hmk, ?_, ?_⟩
  · rw [runB_sim hE ops i0 hwf hno, habs, hent]
  · intro s hs
    have hfl0 : i0.fl = RFlags.of fl := by
      have : (absIt E i0).fl = RFlags.of fl := by rw [habs]; cases ex <;> rfl
      exact this
    have hws : WF E s ∧ s.fl = i0.fl := by
      rcases List.mem_cons.mp hs with rfl | hs
      · exact ⟨hwf, rfl⟩
      · exact statesB_wf hE ops i0 hwf hno s hs
    have hfl : s.fl.incL = true := by
      rw [hws.2, hfl0]; exact hlocs
    exact B3_idle hE (hloc.trans h0) hws.1 hfl

/-! ## (B4) reuse of a used iterator (property C13) -/

/-- (B4) `newChunkedIntDecoder(data, offset, rv)`, for EVERY `rv` (whatever offsets its
    `chunkOffsets` array holds, whatever its capacity), parses exactly the decoder that
    `newChunkedIntDecoder(data, offset, nil)` parses - the resliced array is overwritten index by
    index before anything reads it - keeps `rv`'s other buffers, and fails exactly when and how
    the fresh call fails. -/
theorem B4_decoder (file : Bool) (data : Bytes) (offset : Nat) (rv : Option DecB) :
    (∀ d, Decoder.newWith file data offset = .ok d →
      ∃ tail, newDecB file data offset rv =
        .ok { (rv.getD emptyDec) with d := d, dataNil := false, offsTail := tail }) ∧
    (Decoder.newWith file data offset = .err → newDecB file data offset rv = .err) ∧
    (Decoder.newWith file data offset = .panic → newDecB file data offset rv = .panic) :=
  newDecB_spec file data offset rv

/-- (B4) `PostingsList.iterator(…, rv)` with ANY previously used iterator `used` - whatever chunk
    it had loaded, wherever its cursors stood, whatever its buffers hold, whatever flags it was
    created with - and `PostingsList.iterator(…, nil)` both succeed, both states are well formed,
    and `absIt` maps them to the SAME entry-level state. -/
theorem B4_env {E : Env} (hE : E.OK) (used : ItB) (ex : Option (List Nat)) (fl : RFlags) :
    ∃ i0 i1, mkB (E.pl ex) fl = .ok i0 ∧ mkBReuse used (E.pl ex) fl = .ok i1 ∧
      WF E i0 ∧ WF E i1 ∧ absIt E i1 = absIt E i0 := by
  obtain ⟨i0, h0, w0, a0⟩ := iteratorB_ok hE ex fl none
  obtain ⟨i1, h1, w1, a1⟩ := iteratorB_ok hE ex fl (some used)
  exact ⟨i0, i1, h0, h1, w0, w1, a1.trans a0.symm⟩

/-- (B4, C13) hence a reused iterator produces, for every script, the transcript of a fresh one
    (which is the specification's). -/
theorem B4 {K : Codec} {cs maxDoc : Nat} {es : List Entry} {file : Bool} {pre suf : Bytes}
    {L : Nat × Nat × Bytes} (hw : Written K cs maxDoc es file pre suf L) {finv : List Bytes}
    (hc : Contract finv maxDoc es) (used : ItB) (ex : Option (List Nat)) (fl : Flags) :
    ∃ i0 i1, mkB (plOf cs file L finv es ex) (RFlags.of fl) = .ok i0 ∧
      mkBReuse used (plOf cs file L finv es ex) (RFlags.of fl) = .ok i1 ∧
      ∀ ops, runB K i1 ops = runB K i0 ops ∧
        runB K i1 ops =
          (Iter.specRun (RFlags.of fl) (live (es.map (toP finv)) ex) ops).map resOf := by
  obtain ⟨E, hE, rfl, rfl, rfl, rfl, _, hpl⟩ := env_of_written hw hc
  obtain ⟨i0, i1, h0, h1, w0, w1, a⟩ := B4_env hE used ex (RFlags.of fl)
  rw [hpl] at h0 h1
  refine ⟨i0, i1, h0, h1, ?_⟩
  intro ops
  have hent := C05.C05_entry E.cs hE.cspos (E.es.map (toP E.finv)) (sorted_map hc.sorted) ex
    (RFlags.of fl) (C05.RFlags.of_wf fl) ops
  have habs0 : absIt E i0 = Iter.mk E.cs (E.es.map (toP E.finv)) ex (RFlags.of fl) := by
    obtain ⟨i0', h0', _, a0'⟩ := iteratorB_ok hE ex (RFlags.of fl) none
    rw [hpl] at h0'
    have : i0' = i0 := by
      have := h0'.symm.trans h0
      cases this; rfl
    rw [← this]; exact a0'
  have hno0 : ∀ x ∈ Iter.run (absIt E i0) ops, x ≠ none := by
    rw [habs0, hent]; exact specRun_ne_none _ ops _
  have hno1 : ∀ x ∈ Iter.run (absIt E i1) ops, x ≠ none := by rw [a]; exact hno0
  have r1 := runB_sim hE ops i1 w1 hno1
  have r0 := runB_sim hE ops i0 w0 hno0
  refine ⟨by rw [r1, r0, a], by rw [r1, a, habs0, hent]⟩

/-- a script on what the constructor returned (a failed construction ends the transcript) -/
def runRes (K : Codec) : Res ItB → List IterOp → List (Res (Option Posting))
  | .ok i, ops => runB K i ops
  | .err, _ => [.err]
  | .panic, _ => [.panic]

/-- (B4, C13, no hypothesis at all) For EVERY postings list and EVERY `data` - well-formed streams,
    corrupt bytes, offsets pointing anywhere - every flag pair, every `used` iterator and every
    script: constructing over `used` and running the script gives exactly the transcript of a
    fresh iterator, including where and how it errs or panics.  (The two states differ only in
    stale array tails, `cap(nextLocs)`, a nil reader versus a reader on the nil slice, and
    decoders behind a flag that is off; `ItEq` in `Lemmas/IterBytesReuse.lean` is preserved by
    every operation.) -/
theorem B4_any (K : Codec) (p : PLB) (fl : RFlags) (used : ItB) (ops : List IterOp) :
    runRes K (mkBReuse used p fl) ops = runRes K (mkB p fl) ops := by
  have h := iteratorB_rel p fl used
  unfold mkB mkBReuse
  cases h1 : iteratorB p fl (some used) <;> cases h2 : iteratorB p fl none <;>
    rw [h1, h2] at h <;> simp only [ResRel] at h
  exact runB_rel K ops h

/-! ## executable instances

  Chunk size 2, documents 0,1,3,4,5 (three chunks), two fields, locations on 0, 3 and 4 (one with a
  two-byte varint), document 3 excluded, an `Advance` from chunk 0 across chunk 1 into chunk 2.
  `exData` are the bytes the model writer produces behind the prefix `[1,2,3]` (checked below,
  by evaluation in the kernel). -/

def exE : List Entry :=
  [ { doc := 0, freq := 1, norm := 10, locs := [⟨0, 0, 0, 1⟩] },
    { doc := 1, freq := 2, norm := 11, locs := [] },
    { doc := 3, freq := 3, norm := 12, locs := [⟨1, 1, 2, 3⟩] },
    { doc := 4, freq := 4, norm := 13, locs := [⟨0, 2, 4, 5⟩, ⟨1, 3, 6, 300⟩] },
    { doc := 5, freq := 5, norm := 14, locs := [] } ]

def exFinv : List Bytes := [[102], [103, 104]]

def exK : Codec := Ice.Props.ChunkBytes.exCodec

def exData : Bytes :=
  [1, 2, 3,
   3, 6, 10, 16, 7, 9, 3, 10, 4, 11, 7, 9, 7, 12, 7, 9, 9, 13, 10, 14,
   3, 7, 14, 26, 7, 9, 4, 0, 0, 0, 1, 7, 9, 4, 1, 1, 2, 3, 7, 9, 9, 0, 2, 4, 5, 1, 3, 6, 172, 2,
   0, 0, 0, 0, 0, 0, 0, 0, 0, 0]

def exL : Nat × Nat × Bytes := (3, 23, exData)

def exFlags : Flags := { freq := true, norm := true, locs := true }

def exOps : List IterOp := [.next, .advance 2, .advance 1, .next, .next]

def exAnswers : List (Res (Option Posting)) :=
  [ .ok (some { doc := 0, freq := 1, norm := 10, locs := [⟨[102], 0, 0, 1⟩] }),
    .ok (some { doc := 4, freq := 4, norm := 13, locs := [⟨[102], 2, 4, 5⟩, ⟨[103, 104], 3, 6, 300⟩] }),
    .ok (some { doc := 5, freq := 5, norm := 14, locs := [] }),
    .ok none, .ok none ]

def exTf : Coder :=
  { chunkSize := 2, lensArr := [0, 0, 0], lensLen := 3, currChunk := 0, chunkBuf := [], final := [] }

def exTf' : Coder :=
  { chunkSize := 2, lensArr := [6, 4, 6], lensLen := 3, currChunk := 3, chunkBuf := [9, 13, 10, 14],
    final := [7, 9, 3, 10, 4, 11, 7, 9, 7, 12, 7, 9, 9, 13, 10, 14] }

def exLc' : Coder :=
  { chunkSize := 2, lensArr := [7, 7, 12], lensLen := 3, currChunk := 3,
    chunkBuf := [9, 0, 2, 4, 5, 1, 3, 6, 172, 2],
    final := [7, 9, 4, 0, 0, 0, 1, 7, 9, 4, 1, 1, 2, 3, 7, 9, 9, 0, 2, 4, 5, 1, 3, 6, 172, 2] }

/-- the model writer (two `chunkedIntCoder`s, `writeAt` twice) produces `exData` and the offsets
    3 and 23 - the hypotheses of B2/B3/B4 are satisfiable -/
theorem exWritten : Written exK 2 5 exE true [1, 2, 3] (List.replicate 10 0) exL :=
  { cspos := by decide
    total := by decide
    coders := ⟨exTf, exTf, exTf', exLc', by decide +kernel, by decide +kernel, by decide +kernel,
      by decide +kernel, by decide +kernel⟩
    pre := by decide
    size := by decide +kernel
    suf := fun _ => by decide }

theorem exContract : Contract exFinv 5 exE :=
  { valid := by decide
    freq := by decide
    norm := by decide
    fld := by decide
    doc := by decide
    sorted := by decide }

/-- a fresh iterator on the literal bytes, evaluated -/
def exFresh : Res ItB := mkB (plOf 2 true exL exFinv exE (some [3])) (RFlags.of exFlags)

/-- an iterator over the same term without exclusions, advanced into the last chunk
    (`Advance(5)`: chunk 2 loaded, both cursors at the end of their chunk buffers) … -/
def exUsed : Res ItB :=
  match mkB (plOf 2 true exL exFinv exE none) (RFlags.of exFlags) with
  | .ok i =>
    (match stepB exK i (.advance 5) with
     | .ok (_, u) => .ok u
     | .err => .err
     | .panic => .panic)
  | .err => .err
  | .panic => .panic

/-- … and reused for the list with the exclusion -/
def exReused : Res ItB :=
  match exUsed with
  | .ok u => mkBReuse u (plOf 2 true exL exFinv exE (some [3])) (RFlags.of exFlags)
  | .err => .err
  | .panic => .panic

def runOf (i : Res ItB) (ops : List IterOp) : List (Res (Option Posting)) := runRes exK i ops

/-- the used iterator really stands in the last chunk with both cursors moved -/
example : (match exUsed with
    | .ok u => (u.currChunk, u.fnR.map (fun b => (b.curChunkBytes, b.r)),
                u.lcR.map (fun b => (b.curChunkBytes, b.r)))
    | _ => (0, none, none)) =
    (2, some ([9, 13, 10, 14], some ⟨[9, 13, 10, 14], 4⟩),
        some ([9, 0, 2, 4, 5, 1, 3, 6, 172, 2], some ⟨[9, 0, 2, 4, 5, 1, 3, 6, 172, 2], 10⟩)) := by
  decide +kernel

/-- fresh: evaluated byte by byte -/
theorem ex_fresh : runOf exFresh exOps = exAnswers := by decide +kernel

/-- reused: evaluated byte by byte -/
theorem ex_reused : runOf exReused exOps = exAnswers := by decide +kernel

/-- a hostile `rv`: decoders of a different term with more chunk offsets than needed (so the
    array is RESLICED and keeps stale offsets until they are overwritten), a loaded chunk, a
    cursor in the middle, stale decompression buffers; freq/norm reader without a
    `memUvarintReader` -/
def exJunk : ItB :=
  { cs := 7, freqOffset := 99, locOffset := 98, file := false, data := [1, 1, 1], fieldsInv := [],
    all := [9], act := [8], clean := true, currChunk := 2,
    fnR := some { d := { file := false, data := [1, 1, 1], startOffset := 77, dataStartOffset := 80,
                         chunkOffsets := [99, 98, 97, 96, 95] },
                  dataNil := false, offsTail := [94, 93], curChunkBytes := [5, 5, 5],
                  uncompressed := [5, 5, 5], uncTail := [6, 6, 6, 6, 6, 6, 6, 6], r := none },
    lcR := some { d := { file := false, data := [], startOffset := 0, dataStartOffset := 0,
                         chunkOffsets := [1] },
                  dataNil := true, offsTail := [], curChunkBytes := [200, 1],
                  uncompressed := [200, 1], uncTail := [], r := some ⟨[200, 1], 1⟩ },
    nextLocsCap := 1, fl := { incFN := true, incL := false } }

theorem ex_junk : runOf (mkBReuse exJunk (plOf 2 true exL exFinv exE (some [3])) (RFlags.of exFlags))
    exOps = exAnswers := by decide +kernel

/-- the same transcript through the theorems: (B2) for the fresh iterator … -/
example : ∃ i0, exFresh = .ok i0 ∧ runB exK i0 exOps = exAnswers := by
  obtain ⟨i0, h1, h2⟩ := B2 exWritten exContract (some [3]) exFlags exOps
  refine ⟨i0, h1, ?_⟩
  rw [h2]
  decide +kernel

/-- … and (B4) for ANY reused iterator -/
example (used : ItB) : ∃ i1, mkBReuse used (plOf 2 true exL exFinv exE (some [3])) (RFlags.of exFlags)
    = .ok i1 ∧ runB exK i1 exOps = exAnswers := by
  obtain ⟨i0, i1, _, h1, h2⟩ := B4 exWritten exContract used (some [3]) exFlags
  refine ⟨i1, h1, ?_⟩
  rw [(h2 exOps).2]
  decide +kernel

/-- (B3) instance: a list without locations iterated with `includeLocs`; the location stream does
    not exist (`locOffset = 0`) and nothing faults.  Evaluated end to end from the writer. -/
def exNoLocs : List Entry :=
  [ { doc := 0, freq := 1, norm := 10, locs := [] }, { doc := 3, freq := 2, norm := 11, locs := [] } ]

def exNoLocsL : Nat × Nat × Bytes :=
  match Coder.new 2 3, Coder.new 2 3 with
  | .ok tf, .ok lc =>
    (match tf.encode exK (tfAdds exNoLocs), lc.encode exK (locAdds exNoLocs) with
     | .ok tf', .ok lc' => layout [1] tf' lc' []
     | _, _ => (0, 0, []))
  | _, _ => (0, 0, [])

example : exNoLocsL.2.1 = 0 ∧
    runOf (mkB (plOf 2 false exNoLocsL [] exNoLocs none) (RFlags.of exFlags)) [.next, .next, .next] =
      [ .ok (some { doc := 0, freq := 1, norm := 10, locs := [] }),
        .ok (some { doc := 3, freq := 2, norm := 11, locs := [] }), .ok none ] := by
  decide +kernel

end Ice.Props.C05Bytes

/-! axiom audit (expected: a subset of propext, Classical.choice, Quot.sound) -/
section Audit
open Ice.Props.C05Bytes
#print axioms B1_sim
#print axioms B1
#print axioms B1_run
#print axioms streams_load
#print axioms env_of_written
#print axioms B2_rflags
#print axioms B2
#print axioms B2_view
#print axioms B3_locOffset
#print axioms B3_idle
#print axioms B3_run
#print axioms B4_decoder
#print axioms B4_env
#print axioms B4
#print axioms B4_any
#print axioms exWritten
#print axioms exContract
#print axioms ex_fresh
#print axioms ex_reused
#print axioms ex_junk
end Audit
