import IceModel.Props.C03
import IceModel.Lemmas.Build
import IceModel.Lemmas.Compose
/-
  Property C17 on the specification level: merging is compositional.
    * `C17_flatten`   : an inner merge (carrying its own deletions) may be replaced by its inputs
    * `C17_translate` : an inner merge without deletions, followed by the deletions translated
                        through its document-number map, equals merging with the deletions directly
    * `C17_translate_reported` : that translation is what `DocumentNumbers()` of the inner merge reports
    * `C17_identity`  : merging a single merged segment without deletions changes nothing
  `Equiv` is equality of everything a reader can observe (documents, field list, statistics);
  only the chunk mode - an encoding parameter - may differ.
-/
namespace Ice.Props.C17
open Ice Ice.Spec Ice.Props.C03

def Equiv (a b : AbsSeg) : Prop :=
  a.docs = b.docs ∧ a.fields = b.fields ∧ a.fieldDocs = b.fieldDocs ∧ a.fieldFreqs = b.fieldFreqs

theorem C17_flatten (m m1 : Nat) (pre A post : List (AbsSeg × List Nat)) :
    Equiv (merge m (pre ++ [((merge m1 A).1, [])] ++ post)).1 (merge m (pre ++ A ++ post)).1 :=
  merge_replace m m pre A post _ _ (by rw [survivors_nil, merge_docs]) (mem_merge_fields m1 A)

/-- the inputs of `A` with their deletions removed -/
def noDrops (A : List (AbsSeg × List Nat)) : List (AbsSeg × List Nat) := A.map (fun p => (p.1, []))

/-- deletions of `A` renumbered into the inner (deletion-free) merge: document `d` of the segment
    starting at `base` becomes `base + d` -/
def translate : List (AbsSeg × List Nat) → Nat → List Nat
  | [], _ => []
  | (s, d) :: r, base => d.map (· + base) ++ translate r (base + s.docs.length)

theorem translate_eq (A : List (AbsSeg × List Nat)) (base : Nat) :
    translate A base = shiftDrops A base := by
  induction A generalizing base with
  | nil => rfl
  | cons p r ih => obtain ⟨s, d⟩ := p; simp only [translate, shiftDrops, ih]

theorem C17_translate (m m1 : Nat) (pre A post : List (AbsSeg × List Nat))
    (hv : ∀ p ∈ A, ValidDrops p.1.docs.length p.2) :
    Equiv (merge m (pre ++ [((merge m1 (noDrops A)).1, translate A 0)] ++ post)).1
          (merge m (pre ++ A ++ post)).1 := by
  have hv' : ∀ p ∈ A, ∀ x ∈ p.2, x < p.1.docs.length := fun p hp => (hv p hp).2
  refine merge_replace m m pre A post _ _ ?_ ?_
  · rw [translate_eq]; exact survivors_merge_noDrops m1 A hv'
  · intro x hx
    rw [noDrops, merge_fields_noDrops, mem_fieldList]; simp [hx]

/-- `translate` renumbers exactly as the inner merge's reported document numbers do -/
theorem C17_translate_reported (m1 : Nat) (A : List (AbsSeg × List Nat)) (i d : Nat) (s : AbsSeg)
    (drops : List Nat) (hi : A[i]? = some (s, drops)) (hd : d < s.docs.length) :
    lookup (merge m1 (noDrops A)).2 i d =
      some (some (d + ((A.take i).map (fun p => p.1.docs.length)).sum)) := by
  have hi' : (noDrops A)[i]? = some (s, []) := by simp [noDrops, hi]
  rw [lookup_merge m1 (noDrops A) i d s [] hi', if_pos hd]
  simp only [noDrops, ← List.map_take, List.map_map, List.contains_nil]
  simp [Function.comp_def, liveCount_nil, Nat.add_comm]

theorem C17_identity (m m0 : Nat) (X : List (AbsSeg × List Nat)) :
    Equiv (merge m [((merge m0 X).1, [])]).1 (merge m0 X).1 := by
  have := merge_replace m m0 [] X [] (merge m0 X).1 [] (by rw [survivors_nil, merge_docs])
    (mem_merge_fields m0 X)
  simpa [Equiv] using this

/-- `Equiv` segments answer every read API identically -/
theorem Equiv_observations (a b : AbsSeg) (h : Equiv a b) :
    numDocs a = numDocs b ∧ a.fields = b.fields ∧
    (∀ f, terms a f = terms b f) ∧ (∀ f t, postings a f t = postings b f t) ∧
    (∀ n, stored a n = stored b n) ∧ (∀ n f, dvOf a n f = dvOf b n f) ∧
    (∀ f, stats a f = stats b f) ∧ (∀ ts, docsMatching a ts = docsMatching b ts) := by
  obtain ⟨hd, hf, h3, h4⟩ := h
  exact ⟨numDocs_congr hd, hf, terms_congr hd, postings_congr hd, stored_congr hd hf,
    dvOf_congr hd, stats_congr hd hf h3 h4, docsMatching_congr hd⟩

end Ice.Props.C17
