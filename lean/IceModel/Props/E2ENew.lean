import IceModel.Props.E2EBuild
import IceModel.Props.C04Total
/-
  END TO END, builder path, without "the writer succeeded", and for the segment `New` RETURNS.

  `Props/E2EBuild.lean` proves: for a batch inside the contract and the bounds, IF `serialize`
  succeeds, the file loads and the loaded segment reads as `Spec.build nc mode b` (`ReadsAs`).
  `Props/C04Total.lean` proves: `serialize` never fails on a valid description, and the segment
  `New` hands back through `initSegmentBase` (`initSegment`, no file involved) IS the segment
  loaded memory-backed from the persisted file (since commit 6ad80a3; before it - `initSegmentV0`
  - up to the checksum slot of the footer).  Here the two are combined:

    E2E_total          no hypothesis `hs`: the writer succeeds, the file loads on BOTH backings, and
                       each loaded segment reads as the specification
    readsAs_withCrc    `ReadsAs` does not look at the checksum slot of the footer
    E2E_new            `initSegment K (r.toLSeg mode) = .ok nw` and `ReadsAs K (build nc mode b) nw`:
                       the segment `New` returns, read directly, answers as the specification
    SameReads          "`ld` answers every read API of `ReadsAs` as `nw` does", observation by
                       observation (same FST values, same postings records, same transcripts, …)
    E2E_new_eq_loaded  the segment `New` returns and the segment loaded from the persisted file
                       (memory- or file-backed) are `SameReads`, both read as the specification,
                       and have the same footer (`Segment.CRC()` included)
    E2E_new_eq_loaded_mem   memory-backed: `ld = nw`
    crc_same           `Segment.CRC()` of the segment `New` returns = checksum the file ends with =
                       `CRC()` of the loaded segment (both backings)      [code after commit 6ad80a3]
    E2E_new_v0         the pre-fix `New` (`initSegmentV0`) also read as the specification …
    crc_v0_differs     … but reported another checksum than the loaded segment (alias, registered
                       name: `crc_not_an_observation`) - the defect 6ad80a3 repaired
    exn_*              the example batch `exB` of `Props/E2EBuild.lean`

  HYPOTHESES: those of `E2E_read` minus `hs`; nothing added.
-/
namespace Ice.Props.E2E
open Ice Ice.Spec Ice.Model Ice.Model.Builder Ice.Model.Format
open Ice.Model.IterBytes (PLB mkB runB toP)
open Ice.Model.Iter (RFlags)
open Ice.Model.Writer (Footer footerFields)

/-! ## `ReadsAs` and the checksum slot -/

/-- **`ReadsAs` does not mention the checksum.**  Every observation of `ReadsAs` (`fieldsInv`,
    `fieldDocs`, `fieldFreqs`, `numDocs`, `chunkMode`, `loadedStats`, `dictionaryOf`,
    `readPostings`, `plbOf`, `storedSeg`, `dvReaders`, `data`) is the same function of a segment
    and of the segment with another value in `footer.crc` - by unfolding. -/
theorem readsAs_withCrc (K : Codecs) (S : AbsSeg) (ld : Loaded) (c : Nat) :
    ReadsAs K S (ld.withCrc c) ↔ ReadsAs K S ld :=
  ⟨fun h => ⟨h.fields, h.stats, h.dict, h.dictNone, h.iter, h.stored, h.dv⟩,
   fun h => ⟨h.fields, h.stats, h.dict, h.dictNone, h.iter, h.stored, h.dv⟩⟩

/-- **before commit 6ad80a3** `Segment.CRC()` was an observable on which the segment `New`
    returned and the loaded one disagreed (so it could not have been part of `ReadsAs`): on the
    example segment of `Props/C04.lean` the pre-fix `New` (`initSegmentV0`) and `load` report
    different checksums. -/
theorem crc_v0_differs :
    ∃ nw ld, initSegmentV0 C04.exK C04.exL = .ok nw ∧
      load true (fileOf C04.exK C04.exData C04.exFooter) = .ok ld ∧
      nw.footer.crc ≠ ld.footer.crc :=
  ⟨_, _, C04.C04_new_crc_v0_counterexample.1, C04.C04_new_crc_v0_counterexample.2.1, by decide⟩

/-- registered name; refers to the PRE-FIX code (`initSegmentV0`; commit 6ad80a3 repaired
    `newWithChunkMode`).  Alias of `crc_v0_differs`.  For the repaired `initSegment` the checksum
    is the same on both segments: `crc_same`. -/
theorem crc_not_an_observation :
    ∃ nw ld, initSegmentV0 C04.exK C04.exL = .ok nw ∧
      load true (fileOf C04.exK C04.exData C04.exFooter) = .ok ld ∧
      nw.footer.crc ≠ ld.footer.crc :=
  crc_v0_differs

/-! ## "answers identically" -/

/-- **`ld` answers every read API as `nw` does** - the observations of `ReadsAs K S`, one by one,
    compared between two segments (`S` only delimits the arguments: field ids / terms / documents
    of the segment).
    * `fields`, `stats`   tables, document count, chunk mode, `CollectionStats` of every name
    * `dict`     `Segment.dictionary` of EVERY field id gives the same result (same FST: same keys
                 AND the same values, i.e. postings offsets)
    * `postings` for every term of every field: `PostingsList.read` at the FST value gives the
                 same postings list (offsets, document numbers, chunk size) …
    * `iter`     … and iterators over it - any exclusion bitmap, flags, script, fresh or built over
                 any used iterator - are created without error on both and give the same
                 transcript (seen through the flags the caller asked for)
    * `stored`   `VisitStoredFields` gives the same result for every document number, buffer, stop
    * `dv`       the same doc-value readers; every sequence of visits of documents of the segment
                 from such a reader succeeds on both with the same terms and the same reader after -/
structure SameReads (K : Codecs) (S : AbsSeg) (nw ld : Loaded) : Prop where
  fields : ld.fieldsInv = nw.fieldsInv ∧ ld.fieldDocs = nw.fieldDocs ∧ ld.fieldFreqs = nw.fieldFreqs ∧
    ld.footer.numDocs = nw.footer.numDocs ∧ ld.footer.chunkMode = nw.footer.chunkMode
  stats : ∀ f, loadedStats ld f = loadedStats nw f
  dict : ∀ i : Nat, dictionaryOf K ld i = dictionaryOf K nw i
  postings : ∀ (i : Nat) (f : Bytes), S.fields[i]? = some f →
    ∀ (j : Nat) (t : Bytes), (terms S f)[j]? = some t →
    ∃ fst v fo lo docs cs, dictionaryOf K nw i = .ok (some fst) ∧ fst[j]? = some (t, v) ∧
      readPostings K nw v = .ok (.general fo lo docs cs) ∧
      readPostings K ld v = .ok (.general fo lo docs cs) ∧
      ∀ (ex : Option (List Nat)) (fl : Flags) (ops : List IterOp),
        (∃ i0 i0', mkB (plbOf nw fo lo cs docs ex) (RFlags.of fl) = .ok i0 ∧
          mkB (plbOf ld fo lo cs docs ex) (RFlags.of fl) = .ok i0' ∧
          (runB K.chunk i0' ops).map (C05Bytes.viewRes fl) =
            (runB K.chunk i0 ops).map (C05Bytes.viewRes fl)) ∧
        ∀ used used' : Ice.Model.IterBytes.ItB,
          ∃ i1 i1', Ice.Model.IterBytes.mkBReuse used (plbOf nw fo lo cs docs ex) (RFlags.of fl) = .ok i1 ∧
            Ice.Model.IterBytes.mkBReuse used' (plbOf ld fo lo cs docs ex) (RFlags.of fl) = .ok i1' ∧
            (runB K.chunk i1' ops).map (C05Bytes.viewRes fl) =
              (runB K.chunk i1 ops).map (C05Bytes.viewRes fl)
  stored : ∀ (n : Nat) (buf : Stored.Buf) (stop : Option Nat),
    Stored.visit K.stored ld.storedSeg buf n stop = Stored.visit K.stored nw.storedSeg buf n stop
  dv : ld.dvReaders = nw.dvReaders ∧
    ∀ (i : Nat) (r0 : DocValues.Reader), nw.dvReaders[i]? = some (some r0) → i < S.fields.length →
      ∀ ds : List Nat, (∀ d ∈ ds, d < S.docs.length) →
        ∃ out, DocValues.Reader.visitAll K.dv nw.data dvChunk r0 ds = .ok out ∧
          DocValues.Reader.visitAll K.dv ld.data dvChunk r0 ds = .ok out

/-- a reused iterator answers as a fresh one (`B4_any`), in the form used below -/
theorem reuse_of_fresh (K : Codecs) (p : PLB) (fl : RFlags) {i0 : Ice.Model.IterBytes.ItB}
    (hmk : mkB p fl = .ok i0) (used : Ice.Model.IterBytes.ItB) :
    ∃ i1, Ice.Model.IterBytes.mkBReuse used p fl = .ok i1 ∧
      ∀ ops, runB K.chunk i1 ops = runB K.chunk i0 ops := by
  have hany := fun ops => C05Bytes.B4_any K.chunk p fl used ops
  rw [hmk] at hany
  cases hre : Ice.Model.IterBytes.mkBReuse used p fl with
  | ok i1 =>
    refine ⟨i1, rfl, fun ops => ?_⟩
    have := hany ops
    rw [hre] at this
    simpa only [C05Bytes.runRes] using this
  | err => have := hany []; rw [hre] at this; simp [C05Bytes.runRes, runB] at this
  | panic => have := hany []; rw [hre] at this; simp [C05Bytes.runRes, runB] at this

/-- **transfer.**  Two segments that both read as `S`, with the same tables, the same
    dictionaries, the same stored-fields reader, the same doc-value readers, and on which
    `readPostings` / doc-value visits of the second succeed with the first's result whenever the
    first's succeed, answer every read API identically. -/
theorem sameReads_of {K : Codecs} {S : AbsSeg} {nw ld : Loaded}
    (hn : ReadsAs K S nw) (hl : ReadsAs K S ld)
    (hdict : ∀ i : Nat, dictionaryOf K ld i = dictionaryOf K nw i)
    (hpost : ∀ v, DocValues.OkLe (readPostings K nw v) (readPostings K ld v))
    (hst : ld.storedSeg = nw.storedSeg)
    (hdvr : ld.dvReaders = nw.dvReaders)
    (hvis : ∀ (r0 : DocValues.Reader) (ds : List Nat),
      DocValues.OkLe (DocValues.Reader.visitAll K.dv nw.data dvChunk r0 ds)
        (DocValues.Reader.visitAll K.dv ld.data dvChunk r0 ds)) :
    SameReads K S nw ld := by
  obtain ⟨n1, n2, n3, n4, n5⟩ := hn.fields
  obtain ⟨l1, l2, l3, l4, l5⟩ := hl.fields
  refine ⟨⟨by rw [l1, n1], by rw [l2, n2], by rw [l3, n3], by rw [l4, n4], by rw [l5, n5]⟩,
    fun f => by rw [hl.stats, hn.stats], hdict, ?_, fun n buf stop => by rw [hst], hdvr, ?_⟩
  · intro i f hf j t ht
    obtain ⟨fst, v, fo, lo, cs, hd, hj, hr, hit⟩ := hn.iter i f hf j t ht
    obtain ⟨fst', v', fo', lo', cs', hd', hj', hr', hit'⟩ := hl.iter i f hf j t ht
    -- the same dictionary, hence the same FST value; the same record, hence the same offsets
    rw [hdict, hd] at hd'
    injection hd' with hd'
    injection hd' with hd'
    subst hd'
    rw [hj] at hj'
    injection hj' with hj'
    injection hj' with _ hv
    subst hv
    have hr2 := hpost v _ hr
    rw [hr2] at hr'
    injection hr' with hr'
    injection hr' with h1 h2 _ h4
    subst h1 h2 h4
    refine ⟨fst, v, fo, lo, _, cs, hd, hj, hr, hr2, ?_⟩
    intro ex fl ops
    obtain ⟨i0, hmk, hrun⟩ := hit ex fl ops
    obtain ⟨i0', hmk', hrun'⟩ := hit' ex fl ops
    refine ⟨⟨i0, i0', hmk, hmk', by rw [hrun, hrun']⟩, ?_⟩
    intro used used'
    obtain ⟨i1, hre, hsame⟩ := reuse_of_fresh K _ _ hmk used
    obtain ⟨i1', hre', hsame'⟩ := reuse_of_fresh K _ _ hmk' used'
    exact ⟨i1, i1', hre, hre', by rw [hsame, hsame', hrun, hrun']⟩
  · intro i r0 hr0 hi ds hds
    have hf : S.fields[i]? = some S.fields[i] := List.getElem?_eq_getElem hi
    obtain ⟨ro, hro, hm⟩ := hn.dv i _ hf
    rw [hr0] at hro
    injection hro with hro
    subst hro
    obtain ⟨r', hr'⟩ := hm ds hds
    exact ⟨_, hr', hvis r0 ds _ hr'⟩

section
variable {nc : Bytes → Nat → Nat} {π : Order} {b : Batch} {r : Built}
  (hv : ValidBatch b) (hπ : PermOK π) (hrun : run nc π b = .ok r)
  (mode : Nat) (hmode : 1 ≤ mode ∧ mode ≤ 1025) (hB : Bounds nc b)
  (K : Codecs) (hsz : Sizes K (r.toLSeg mode))

/-! ## 1. without "the writer succeeded" -/

include hv hπ hrun hmode hB hsz in
/-- **E2E_total.**  For every batch inside the contract of `New` and the numeric bounds, every map
    order and every codec triple with the round-trip laws: `convert` / `WriteTo` SUCCEED
    (`C04_total`), the file loads - memory- and file-backed - and every read API of the loaded
    segment, executed on the bytes, returns what `Spec.build nc mode b` says. -/
theorem E2E_total :
    ∃ data ft, serialize K (r.toLSeg mode) = .ok (data, ft) ∧
      ∀ mem : Bool, ∃ ld, load mem (fileOf K data ft) = .ok ld ∧ ld.data.mem = mem ∧
        ReadsAs K (build nc mode b) ld := by
  have hV := E2E_valid hv hπ hrun mode hmode hB K hsz
  obtain ⟨data, ft, hs⟩ := C04.C04_total K _ hV.toValid'
  exact ⟨data, ft, hs, fun mem => E2E_read hv hπ hrun mode hmode hB K hsz hs mem⟩

/-! ## 2. the segment `New` returns -/

include hv hπ hrun hmode hB hsz in
/-- **E2E_new.**  `New` succeeds, and the segment it returns - assembled by `initSegmentBase` from
    the builder's tables and the data section, no file, nothing parsed - answers every read API,
    executed on its bytes, as `Spec.build nc mode b` says: field tables and statistics,
    dictionaries, postings iterators (fresh; reused: `E2E_new_reuse`), stored fields, doc values.
    It is memory-backed. -/
theorem E2E_new :
    ∃ nw, initSegment K (r.toLSeg mode) = .ok nw ∧ nw.data.mem = true ∧
      ReadsAs K (build nc mode b) nw := by
  have hV := E2E_valid hv hπ hrun mode hmode hB K hsz
  obtain ⟨data, ft, hs⟩ := C04.C04_total K _ hV.toValid'
  obtain ⟨nw, ld, hn, hl, he, _, hd⟩ := C04.C04_new_eq_load K _ hV data ft hs
  obtain ⟨ld', hl', _, hR⟩ := E2E_read hv hπ hrun mode hmode hB K hsz hs true
  rw [hl] at hl'
  injection hl' with hl'
  subst hl'
  rw [he] at hR
  exact ⟨nw, hn, by rw [hd], hR⟩

include hv hπ hrun hmode hB hsz in
/-- **E2E_new_v0.**  The segment the PRE-FIX `New` returned (`initSegmentV0`, before commit
    6ad80a3) read as the specification too: it is the repaired one with another value in the
    checksum slot (`C04_new_eq_v0`), which `ReadsAs` does not look at (`readsAs_withCrc`). -/
theorem E2E_new_v0 :
    ∃ nw0, initSegmentV0 K (r.toLSeg mode) = .ok nw0 ∧ nw0.data.mem = true ∧
      ReadsAs K (build nc mode b) nw0 := by
  have hV := E2E_valid hv hπ hrun mode hmode hB K hsz
  obtain ⟨data, ft, hs⟩ := C04.C04_total K _ hV.toValid'
  obtain ⟨nw0, ld, hn, hl, he, _, hd, _⟩ := C04.C04_new_v0_eq_load K _ hV data ft hs
  obtain ⟨ld', hl', _, hR⟩ := E2E_read hv hπ hrun mode hmode hB K hsz hs true
  rw [hl] at hl'
  injection hl' with hl'
  subst hl'
  rw [he] at hR
  exact ⟨nw0, hn, by rw [hd], (readsAs_withCrc K _ nw0 _).1 hR⟩

/-- the iterator component of `ReadsAs`, for iterators built over a used one (any segment) -/
theorem ReadsAs.iter_reuse {K : Codecs} {S : AbsSeg} {ld : Loaded} (h : ReadsAs K S ld)
    (i : Nat) (f : Bytes) (hf : S.fields[i]? = some f)
    (j : Nat) (t : Bytes) (ht : (terms S f)[j]? = some t) :
    ∃ fst v fo lo cs, dictionaryOf K ld i = .ok (some fst) ∧ fst[j]? = some (t, v) ∧
      readPostings K ld v = .ok (.general fo lo ((postings S f t).map (·.doc)) cs) ∧
      ∀ (used : Ice.Model.IterBytes.ItB) (ex : Option (List Nat)) (fl : Flags) (ops : List IterOp),
        ∃ i1, Ice.Model.IterBytes.mkBReuse used
            (plbOf ld fo lo cs ((postings S f t).map (·.doc)) ex) (RFlags.of fl) = .ok i1 ∧
          (runB K.chunk i1 ops).map (C05Bytes.viewRes fl) =
            (iterRun fl (live (postings S f t) ex) ops).map .ok := by
  obtain ⟨fst, v, fo, lo, cs, h1, h2, h3, h4⟩ := h.iter i f hf j t ht
  refine ⟨fst, v, fo, lo, cs, h1, h2, h3, ?_⟩
  intro used ex fl ops
  obtain ⟨i0, hmk, hrun0⟩ := h4 ex fl ops
  obtain ⟨i1, hre, hsame⟩ := reuse_of_fresh K _ _ hmk used
  exact ⟨i1, hre, by rw [hsame, hrun0]⟩

/-! ## 3. `New`'s segment and the loaded one answer identically -/

include hv hπ hrun hmode hB hsz in
/-- **E2E_new_eq_loaded** (property C04: "the loaded segment answers every read API identically to
    the original").  The writer succeeds; `New` returns `nw`; for both backings the persisted file
    loads to some `ld`; `nw` and `ld` both read as the specification, and `ld` gives the same
    answer as `nw` to every observation of `ReadsAs` (`SameReads`): tables and statistics, the
    dictionary of every field id, the postings list of every term, every iterator transcript,
    every stored-fields visit, every doc-value visit sequence.  Their footers are equal
    (`Segment.CRC()` included; code after commit 6ad80a3). -/
theorem E2E_new_eq_loaded :
    ∃ data ft nw, serialize K (r.toLSeg mode) = .ok (data, ft) ∧
      initSegment K (r.toLSeg mode) = .ok nw ∧ ReadsAs K (build nc mode b) nw ∧
      ∀ mem : Bool, ∃ ld, load mem (fileOf K data ft) = .ok ld ∧ ld.data.mem = mem ∧
        ReadsAs K (build nc mode b) ld ∧ SameReads K (build nc mode b) nw ld ∧
        ld.footer = nw.footer := by
  have hV := E2E_valid hv hπ hrun mode hmode hB K hsz
  obtain ⟨data, ft, hs⟩ := C04.C04_total K _ hV.toValid'
  obtain ⟨nw, ld, hn, hl, he, _, _⟩ := C04.C04_new_eq_load K _ hV data ft hs
  subst he
  obtain ⟨ld', hl', hm, hR⟩ := E2E_read hv hπ hrun mode hmode hB K hsz hs true
  rw [hl] at hl'
  injection hl' with hl'
  subst hl'
  refine ⟨data, ft, ld, hs, hn, hR, ?_⟩
  intro mem
  cases mem with
  | true =>
    exact ⟨ld, hl, hm, hR, sameReads_of hR hR (fun _ => rfl) (fun _ => DocValues.OkLe.refl _) rfl rfl
      (fun _ _ => DocValues.OkLe.refl _), rfl⟩
  | false =>
    have hlf := load_toFile _ _ hl
    obtain ⟨ld2, hl2, hm2, hR2⟩ := E2E_read hv hπ hrun mode hmode hB K hsz hs false
    rw [hlf] at hl2
    injection hl2 with hl2
    subst hl2
    refine ⟨_, hlf, hm2, hR2, ?_, rfl⟩
    refine sameReads_of hR hR2 ?_ (fun v => readPostings_toFile K _ v) rfl rfl
      (fun r0 ds => DocValues.visitAll_toFile K.dv _ dvChunk ds r0)
    intro i
    -- `dictionaryOf` succeeds on `nw` for every field id (`ReadsAs.dict` / `dictNone`)
    have hok : ∃ o, dictionaryOf K ld i = .ok o := by
      cases hf : (build nc mode b).fields[i]? with
      | some f => obtain ⟨o, ho, _⟩ := hR.dict i f hf; exact ⟨o, ho⟩
      | none => exact ⟨none, hR.dictNone i hf⟩
    obtain ⟨o, ho⟩ := hok
    rw [ho]
    exact dictionaryOf_toFile K _ i o ho

include hv hπ hrun hmode hB hsz in
/-- **E2E_new_eq_loaded_mem** (code after commit 6ad80a3).  Memory-backed load: the loaded
    segment IS the segment `New` returned - every component, the checksum slot included - so
    every function of a segment gives the same result on both. -/
theorem E2E_new_eq_loaded_mem :
    ∃ data ft nw ld, serialize K (r.toLSeg mode) = .ok (data, ft) ∧
      initSegment K (r.toLSeg mode) = .ok nw ∧ load true (fileOf K data ft) = .ok ld ∧
      ld = nw ∧
      nw.footer.crc = K.crc.upd 0 (data ++ footerFields ft) ∧
      ReadsAs K (build nc mode b) nw := by
  have hV := E2E_valid hv hπ hrun mode hmode hB K hsz
  obtain ⟨data, ft, hs⟩ := C04.C04_total K _ hV.toValid'
  obtain ⟨nw, ld, hn, hl, he, hf, _⟩ := C04.C04_new_eq_load K _ hV data ft hs
  obtain ⟨ld', hl', _, hR⟩ := E2E_read hv hπ hrun mode hmode hB K hsz hs true
  rw [hl] at hl'
  injection hl' with hl'
  subst hl'
  subst he
  exact ⟨data, ft, ld, ld, hs, hn, hl, rfl, by rw [hf], hR⟩

include hv hπ hrun hmode hB hsz in
/-- **crc_same** (code after commit 6ad80a3).  `Segment.CRC()` of the segment `New` returns is
    the checksum its persisted file ends with (the last four bytes, big-endian: CRC-32 of the
    data section followed by the 40 footer-field bytes), which is what a segment loaded from that
    file - either backing - reports. -/
theorem crc_same :
    ∃ data ft nw, serialize K (r.toLSeg mode) = .ok (data, ft) ∧
      initSegment K (r.toLSeg mode) = .ok nw ∧
      nw.footer.crc = K.crc.upd 0 (data ++ footerFields ft) ∧
      Ice.Model.Writer.unbe ((fileOf K data ft).drop ((fileOf K data ft).length - 4)) = nw.footer.crc ∧
      ∀ mem : Bool, ∃ ld, load mem (fileOf K data ft) = .ok ld ∧ ld.footer.crc = nw.footer.crc := by
  have hV := E2E_valid hv hπ hrun mode hmode hB K hsz
  obtain ⟨data, ft, hs⟩ := C04.C04_total K _ hV.toValid'
  obtain ⟨nw, ld, hn, hl, he, hf, _⟩ := C04.C04_new_eq_load K _ hV data ft hs
  subst he
  have hcrc : ld.footer.crc = K.crc.upd 0 (data ++ footerFields ft) := by rw [hf]
  refine ⟨data, ft, ld, hs, hn, hcrc, ?_, ?_⟩
  · have h40 : (footerFields { ft with crc := K.crc.upd 0 data }).length = 40 := by
      simp [footerFields, C11.be_length]
    have hfile : fileOf K data ft = (data ++ footerFields { ft with crc := K.crc.upd 0 data }) ++
        Ice.Model.Writer.be 4 (K.crc.upd (K.crc.upd 0 data)
          (footerFields { ft with crc := K.crc.upd 0 data })) := by
      unfold fileOf Ice.Model.Writer.persistFooter
      rw [List.append_assoc]
    have hlen : (fileOf K data ft).length - 4 =
        (data ++ footerFields { ft with crc := K.crc.upd 0 data }).length := by
      rw [(C04.C04_count K data ft).1, List.length_append, h40]
      omega
    rw [hcrc, hlen, hfile, List.drop_left, C11.unbe_be 4 _ (K.crc_lt _ _), K.crc.upd_append]
    rfl
  · intro mem
    cases mem with
    | true => exact ⟨ld, hl, rfl⟩
    | false => exact ⟨_, load_toFile _ _ hl, rfl⟩

end

/-! ## 4. the example batch `exB` of `Props/E2EBuild.lean`

  Hypotheses: `ex_validBatch`, `ex_perm`, `ex_run`, `ex_bounds`, `ex_sizes`; chunk mode 2, the
  codecs `C04.exK`.  `exL = (builtOf C01.nc0 exB).toLSeg 2`. -/

/-- `E2E_total` on `exB` -/
theorem exn_total :
    ∃ data ft, serialize C04.exK exL = .ok (data, ft) ∧
      ∀ mem : Bool, ∃ ld, load mem (fileOf C04.exK data ft) = .ok ld ∧ ld.data.mem = mem ∧
        ReadsAs C04.exK (build C01.nc0 2 exB) ld :=
  E2E_total ex_validBatch ex_perm ex_run 2 (by decide) ex_bounds C04.exK ex_sizes

/-- `E2E_new` on `exB`: `New` returns a segment that reads as the specification -/
theorem exn_new :
    ∃ nw, initSegment C04.exK exL = .ok nw ∧ nw.data.mem = true ∧
      ReadsAs C04.exK (build C01.nc0 2 exB) nw :=
  E2E_new ex_validBatch ex_perm ex_run 2 (by decide) ex_bounds C04.exK ex_sizes

/-- `E2E_new_eq_loaded` on `exB`, with the bytes of `ex_serialize` -/
theorem exn_new_eq_loaded :
    ∃ nw, initSegment C04.exK exL = .ok nw ∧ ReadsAs C04.exK (build C01.nc0 2 exB) nw ∧
      ∀ mem : Bool, ∃ ld, load mem (fileOf C04.exK exData exFooter) = .ok ld ∧ ld.data.mem = mem ∧
        ReadsAs C04.exK (build C01.nc0 2 exB) ld ∧ SameReads C04.exK (build C01.nc0 2 exB) nw ld ∧
        ld.footer = nw.footer := by
  obtain ⟨data, ft, nw, hs, hn, hR, h⟩ :=
    E2E_new_eq_loaded ex_validBatch ex_perm ex_run 2 (by decide) ex_bounds C04.exK ex_sizes
  have hs' : serialize C04.exK exL = .ok (data, ft) := hs
  rw [ex_serialize] at hs'
  injection hs' with hs'
  injection hs' with h1 h2
  subst h1 h2
  exact ⟨nw, hn, hR, h⟩

/-- the left-hand side of `ReadsAs.iter`, evaluated on the bytes of the segment `New` returns (no
    file): the term `a` (key 0) of field `f` (id 1) looked up in its dictionary, its record read, an
    iterator with all flags and document 1 excluded run over `Next, Next, Advance 0` -/
def exNewTranscript : List (Res (Option Posting)) :=
  match initSegment C04.exK exL with
  | .ok nw =>
    (match dictionaryOf C04.exK nw 1 with
     | .ok (some fst) =>
       (match fst[0]? with
        | some (_, v) =>
          (match readPostings C04.exK nw v with
           | .ok (.general fo lo docs cs) =>
             C05Bytes.runRes C04.exK.chunk
               (mkB (plbOf nw fo lo cs docs (some [1])) (RFlags.of ⟨true, true, true⟩))
               [.next, .next, .advance 0]
           | _ => [])
        | none => [])
     | _ => [])
  | _ => []

set_option maxRecDepth 100000 in
/-- … the answers of `ex_transcript` (loaded file) and `ex_spec_transcript` (specification) -/
theorem exn_transcript : exNewTranscript =
    [ .ok (some { doc := 0, freq := 2, norm := 524,
                  locs := [⟨fF, 1, 0, 1⟩, ⟨fF, 3, 4, 5⟩] }), .ok none, .ok none ] := by
  decide +kernel

/-- checksum slot, dictionary locations and stored chunk offsets of the segment `New` returns and
    of the loaded one -/
def exCrcObs : Option ((Nat × List Nat × List Nat) × (Nat × List Nat × List Nat)) :=
  match initSegment C04.exK exL, load true (fileOf C04.exK exData exFooter) with
  | .ok nw, .ok ld => some ((nw.footer.crc, nw.dictLocs, nw.storedChunkOffsets),
                            (ld.footer.crc, ld.dictLocs, ld.storedChunkOffsets))
  | _, _ => none

set_option maxRecDepth 100000 in
/-- … `Segment.CRC()` on this example (code after commit 6ad80a3): 10873 on the segment `New`
    returns and on the loaded one; the tables are the same -/
theorem exn_crc : exCrcObs = some ((10873, [87, 163], [0, 23]), (10873, [87, 163], [0, 23])) := by
  decide +kernel

/-- the same for the pre-fix `New` -/
def exCrcObsV0 : Option ((Nat × List Nat × List Nat) × (Nat × List Nat × List Nat)) :=
  match initSegmentV0 C04.exK exL, load true (fileOf C04.exK exData exFooter) with
  | .ok nw, .ok ld => some ((nw.footer.crc, nw.dictLocs, nw.storedChunkOffsets),
                            (ld.footer.crc, ld.dictLocs, ld.storedChunkOffsets))
  | _, _ => none

set_option maxRecDepth 100000 in
/-- … before commit 6ad80a3 `Segment.CRC()` was the one observable that differed on this example:
    10372 on the segment `New` returned (checksum of the data section), 10873 on the loaded one -/
theorem exn_crc_v0 : exCrcObsV0 = some ((10372, [87, 163], [0, 23]), (10873, [87, 163], [0, 23])) := by
  decide +kernel

/-- `crc_same` on `exB` -/
theorem exn_crc_same :
    ∃ nw, initSegment C04.exK exL = .ok nw ∧
      nw.footer.crc = C04.exK.crc.upd 0 (exData ++ footerFields exFooter) ∧
      ∀ mem : Bool, ∃ ld, load mem (fileOf C04.exK exData exFooter) = .ok ld ∧
        ld.footer.crc = nw.footer.crc := by
  obtain ⟨data, ft, nw, hs, hn, hc, _, h⟩ :=
    crc_same ex_validBatch ex_perm ex_run 2 (by decide) ex_bounds C04.exK ex_sizes
  have hs' : serialize C04.exK exL = .ok (data, ft) := hs
  rw [ex_serialize] at hs'
  injection hs' with hs'
  injection hs' with h1 h2
  subst h1 h2
  exact ⟨nw, hn, hc, h⟩

end Ice.Props.E2E

/-! axiom audit (expected: a subset of propext, Classical.choice, Quot.sound) -/
section Audit
open Ice.Props.E2E
#print axioms readsAs_withCrc
#print axioms crc_v0_differs
#print axioms crc_not_an_observation
#print axioms crc_same
#print axioms E2E_new_v0
#print axioms sameReads_of
#print axioms E2E_total
#print axioms E2E_new
#print axioms ReadsAs.iter_reuse
#print axioms E2E_new_eq_loaded
#print axioms E2E_new_eq_loaded_mem
#print axioms exn_total
#print axioms exn_new
#print axioms exn_new_eq_loaded
#print axioms exn_transcript
#print axioms exn_crc
#print axioms exn_crc_v0
#print axioms exn_crc_same
end Audit
