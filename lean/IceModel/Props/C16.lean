import IceModel.Model.MergeLoop
import IceModel.Lemmas.MergeLoopStats
import IceModel.Lemmas.Build
/-
  Property C16: collection statistics (stats.go; merge.go `fieldDocs`, `fieldFreqs`).
-/
namespace Ice.Props.C16
open Ice Ice.Spec Ice.Model.MergeLoop

/-! ## statistics of the specification: unknown fields, built segments, `Merge` -/

theorem idxOf?_eq_none (l : List Bytes) (a : Bytes) (h : a ∉ l) : l.idxOf? a = none := by
  induction l with
  | nil => rfl
  | cons b r ih =>
    rw [List.idxOf?_cons]
    have hb : ¬ b = a := fun e => h (by simp [e])
    have hr : a ∉ r := fun e => h (by simp [e])
    simp [hb, ih hr]

/-- **C16_unknown**: `CollectionStats` of a field the segment does not know is all zero
    (stats.go:47-55: `fieldIDPlus1 == 0`) -/
theorem C16_unknown (s : AbsSeg) (f : Bytes) (h : f ∉ s.fields) : stats s f = (0, 0, 0) := by
  simp [stats, idxOf?_eq_none s.fields f h]

theorem getD_map_idx (l : List Bytes) (g : Bytes → Nat) (f : Bytes) (i : Nat)
    (h : l[i]? = some f) : (l.map g).getD i 0 = g f := by
  simp [List.getD, List.getElem?_map, h]

/-- a known field reads the two per-field counters at its index -/
theorem stats_known (s : AbsSeg) (f : Bytes) (h : f ∈ s.fields) (gd gf : Bytes → Nat)
    (hd : s.fieldDocs = s.fields.map gd) (hf : s.fieldFreqs = s.fields.map gf) :
    stats s f = (numDocs s, gd f, gf f) := by
  obtain ⟨i, h1, h2, _⟩ := idxOf?_spec s.fields f h
  simp only [stats, h1, hd, hf, getD_map_idx _ _ f i h2]

/-- **C16_built**: for a built segment, (TotalDocumentCount, DocumentCount,
    SumTotalTermFrequency) = (number of documents, number of documents carrying the field,
    Σ of the field lengths) -/
theorem C16_built (nc : Bytes → Nat → Nat) (mode : Nat) (b : Batch) (f : Bytes)
    (h : f ∈ (build nc mode b).fields) :
    stats (build nc mode b) f =
      (b.length,
       (b.map (rollDoc nc (dvFlagOf b))).countP (fun d => (d.field? f).isSome),
       ((b.map (rollDoc nc (dvFlagOf b))).map
          (fun d => match d.field? f with | some af => af.length | none => 0)).sum) := by
  rw [stats_known (build nc mode b) f h
    (fun f => (b.map (rollDoc nc (dvFlagOf b))).countP (fun d => (d.field? f).isSome))
    (fun f => ((b.map (rollDoc nc (dvFlagOf b))).map
      (fun d => match d.field? f with | some af => af.length | none => 0)).sum) rfl rfl]
  simp [numDocs, build_docs]

/-- `CollectionStats.Merge` (stats.go:41-45) on the three counters -/
def statsAdd (a b : Nat × Nat × Nat) : Nat × Nat × Nat :=
  (a.1 + b.1, a.2.1 + b.2.1, a.2.2 + b.2.2)

/-- **C16_merge_additive**: `Merge` is associative and commutative with unit (0,0,0) -/
theorem C16_merge_additive :
    (∀ a b c, statsAdd (statsAdd a b) c = statsAdd a (statsAdd b c)) ∧
    (∀ a b, statsAdd a b = statsAdd b a) ∧
    (∀ a, statsAdd a (0, 0, 0) = a) ∧ (∀ a, statsAdd (0, 0, 0) a = a) := by
  refine ⟨?_, ?_, ?_, ?_⟩
  · intro a b c; simp only [statsAdd, Prod.mk.injEq]; omega
  · intro a b; simp only [statsAdd, Prod.mk.injEq]; omega
  · intro a; simp [statsAdd]
  · intro a; simp [statsAdd]

/-! ## M3: the statistics computed by the merge loop -/

theorem allItems_proj (active : List Active) (k : Bytes) :
    (allItems (segsOf active k)).map (fun np => np.1) = (termPostings active k).map (·.doc) ∧
    (allItems (segsOf active k)).map (fun np => np.2.freq) = (termPostings active k).map (·.freq) := by
  unfold allItems segsOf termPostings
  induction active with
  | nil => exact ⟨rfl, rfl⟩
  | cons s r ih =>
    simp only [List.filterMap_cons, List.flatMap_cons, List.map_append]
    cases lookupK k s.dict with
    | none => exact ih
    | some ps =>
      simp only [Option.map_some, List.flatMap_cons, List.map_append, ih.1, ih.2, itemsOf,
        List.map_map, Function.comp_def]
      exact ⟨trivial, trivial⟩

theorem fieldHasTerm_iff (d : ADoc) (f : Bytes) :
    fieldHasTerm d f = true ↔ ∃ t, t ∈ docTerms d f := by
  unfold fieldHasTerm docTerms
  cases d.field? f with
  | none => simp
  | some af =>
    by_cases h : af.terms = []
    · simp [h]
    · obtain ⟨x, hx⟩ := List.exists_mem_of_ne_nil _ h
      simp only [List.mem_map]
      constructor
      · intro _; exact ⟨x.term, x, hx, rfl⟩
      · intro _; cases hh : af.terms with
        | nil => exact absurd hh h
        | cons a r => rfl

/-- the surviving documents keep their per-field term lists -/
theorem termsNodup_merge (mode : Nat) (ins : List (AbsSeg × List Nat)) (f : Bytes)
    (h : ∀ p ∈ ins, TermsNodupDocs p.1.docs f) : TermsNodupDocs (merge mode ins).1.docs f := by
  intro d hd
  rw [merge_docs, List.mem_flatMap] at hd
  obtain ⟨p, hp, hs⟩ := hd
  rw [survivors_eq] at hs
  exact h p hp d (mem_keepP hs)

/-- **M3**: the counters of field `f` after the merge loop are those of the specification:
    `fieldDocs` = number of merged documents with at least one term in `f`,
    `fieldFreqs` = Σ over the merged documents of the frequencies of their terms in `f`.
    Needs at most 2^32 documents (`uint32(hitNewDocNum)` at merge.go:574-575) and rolled-up
    documents (no term twice in a field). -/
theorem C16_merge_model (mode : Nat) (f : Bytes) (ins : List (AbsSeg × List Nat))
    (hmode : 1 ≤ mode ∧ mode ≤ 1025) (hdocs : 1 ≤ numDocs (merge mode ins).1)
    (hsize : numDocs (merge mode ins).1 ≤ 2 ^ 32)
    (hnd : ∀ p ∈ ins, TermsNodupDocs p.1.docs f) :
    ∃ r, mergeField (absCfg mode ins) (absSegs mode f ins) = .ok r ∧
      r.fieldDocs = (merge mode ins).1.docs.countP (fun d => fieldHasTerm d f) ∧
      r.fieldFreq = ((merge mode ins).1.docs.map (fun d => fieldTermFreq d f)).sum := by
  have hwf : WFActive (absCfg mode ins) (setupActive (absSegs mode f ins)) := by
    rw [setupActive_absSegs]; exact wfActive_abs mode f ins hmode hdocs
  obtain ⟨r, hr, _, hfd, hff⟩ := mergeField_closed (absCfg mode ins) rfl (absSegs mode f ins) hwf
  refine ⟨r, hr, ?_, ?_⟩
  · -- documents
    rw [hfd, setupActive_absSegs]
    rw [length_bmAddAll _ (merge mode ins).1.docs.length
      (atIdx (fun d => fieldHasTerm d f) (merge mode ins).1.docs)]
    · exact countP_range_getElem (fun d => fieldHasTerm d f) (merge mode ins).1.docs
    · intro y
      have hmapu : ∀ k, (allItems (segsOf (activeFrom f ins 0) k)).map (fun np => u32 np.1) =
          (postings (merge mode ins).1 f k).map (fun p => u32 p.doc) := by
        intro k
        have := (allItems_proj (activeFrom f ins 0) k).1
        rw [termPostings_merge mode] at this
        have h2 := congrArg (List.map u32) this
        simpa [List.map_map, Function.comp_def] using h2
      simp only [List.mem_flatMap, hmapu, List.mem_map]
      constructor
      · rintro ⟨k, _, p, hp, rfl⟩
        have hlt := postings_doc_lt _ f k p hp
        have hu : u32 p.doc = p.doc := Nat.mod_eq_of_lt (by unfold numDocs at hsize; omega)
        rw [hu]
        refine ⟨hlt, ?_⟩
        obtain ⟨q, hq, hqp⟩ := List.mem_filterMap.1 hp
        have hmem := List.mem_zipIdx hq
        have hdoc : (merge mode ins).1.docs[p.doc]? = some q.1 := by
          rw [postingOf_doc hqp]
          have h3 := hmem.2.2
          simp only [Nat.sub_zero] at h3
          rw [h3]
          exact List.getElem?_eq_getElem (by omega)
        simp only [atIdx, hdoc]
        exact (fieldHasTerm_iff q.1 f).2 ⟨k, (postingOf_isSome q.1 q.2 f k).1 (by rw [hqp]; rfl)⟩
      · rintro ⟨hlt, hq⟩
        rcases hd : (merge mode ins).1.docs[y]? with _ | d
        · simp [atIdx, hd] at hq
        · simp only [atIdx, hd] at hq
          obtain ⟨t, ht⟩ := (fieldHasTerm_iff d f).1 hq
          obtain ⟨p, hp⟩ := Option.isSome_iff_exists.1 ((postingOf_isSome d y f t).2 ht)
          have hpm : p ∈ postings (merge mode ins).1 f t := by
            refine List.mem_filterMap.2 ⟨(d, y), ?_, hp⟩
            rw [List.mem_iff_getElem?]
            exact ⟨y, by simp [List.getElem?_zipIdx, hd]⟩
          have hterm : t ∈ terms (merge mode ins).1 f :=
            (mem_terms_iff _ f t).2 (fun e => by rw [e] at hpm; cases hpm)
          rw [← mergedTerms_spec mode f ins] at hterm
          have hpd := postingOf_doc hp
          refine ⟨t, (List.mem_filter.1 hterm).1, p, hpm, ?_⟩
          rw [hpd]
          exact Nat.mod_eq_of_lt (by unfold numDocs at hsize; omega)
  · -- frequencies
    rw [hff, setupActive_absSegs]
    simp only [(allItems_proj _ _).2, termPostings_merge mode]
    rw [sum_filter_zero _ (fun k => !(termPostings (activeFrom f ins 0) k).isEmpty)]
    · rw [mergedTerms_spec mode f ins]
      exact sum_terms_freq _ f (termsNodup_merge mode ins f hnd)
    · intro k hk
      rw [termPostings_merge mode] at hk
      have : postings (merge mode ins).1 f k = [] := by
        cases h : postings (merge mode ins).1 f k with
        | nil => rfl
        | cons a r => rw [h] at hk; simp at hk
      rw [this]; rfl

/-- **M3, as `CollectionStats`**: the triple a reader of the merged segment computes for a field
    of the merged field list, from the counters the loop produced, is `Spec.stats` -/
theorem C16_merge_stats (mode : Nat) (f : Bytes) (ins : List (AbsSeg × List Nat))
    (hmode : 1 ≤ mode ∧ mode ≤ 1025) (hdocs : 1 ≤ numDocs (merge mode ins).1)
    (hsize : numDocs (merge mode ins).1 ≤ 2 ^ 32)
    (hnd : ∀ p ∈ ins, TermsNodupDocs p.1.docs f) (hf : f ∈ (merge mode ins).1.fields) :
    ∃ r, mergeField (absCfg mode ins) (absSegs mode f ins) = .ok r ∧
      stats (merge mode ins).1 f = (numDocs (merge mode ins).1, r.fieldDocs, r.fieldFreq) := by
  obtain ⟨r, hr, h1, h2⟩ := C16_merge_model mode f ins hmode hdocs hsize hnd
  refine ⟨r, hr, ?_⟩
  rw [stats_known (merge mode ins).1 f hf
    (fun f => (merge mode ins).1.docs.countP (fun d => fieldHasTerm d f))
    (fun f => ((merge mode ins).1.docs.map (fun d => fieldTermFreq d f)).sum) rfl rfl, h1, h2]

/-! ## the accumulation before commit c645d07 -/

private def P (d fr n : Nat) : Posting := { doc := d, freq := fr, norm := n, locs := [] }

/-- Before c645d07 `prepareNewTerm` did `fieldFreqs[fieldID] += newCard` inside its loop over the
    low iterators: the *running cardinality*, not the frequencies.  Two one-document segments,
    the same term "a" with frequency 5 in each: the sum of the term frequencies is 10, the old
    code reports 1 + 2 = 3. -/
theorem C16_v0_counterexample :
    let s0 : SegIn := { dict := some [([97], [P 0 5 7])], drops := none, newDocNums := [some 0] }
    let s1 : SegIn := { dict := some [([97], [P 0 5 7])], drops := none, newDocNums := [some 1] }
    let cfg : Cfg := { fieldsInv := [idField, [102]], chunkMode := 1025, newSegDocCount := 2 }
    (mergeField cfg [s0, s1]).toOption.map (·.fieldFreq) = some 10 ∧
    (mergeField { cfg with sumFreqFix := false } [s0, s1]).toOption.map (·.fieldFreq) = some 3 := by
  decide

/-- … and with the empty term the old code ran that loop once per segment holding it (the
    `prevTerm == nil` corner keeps `prevTerm` nil, merge.go:284, 316-317), counting the term twice:
    frequencies 1 and 1, old result (1 + 2) + (1 + 2) = 6.  The fixed code adds `sumFreq` once per
    (term, segment) delivery and is not affected by the repeated `prepareNewTerm`. -/
theorem C16_v0_empty_term :
    let s0 : SegIn := { dict := some [([], [P 0 1 7])], drops := none, newDocNums := [some 0] }
    let s1 : SegIn := { dict := some [([], [P 0 1 7])], drops := none, newDocNums := [some 1] }
    let cfg : Cfg := { fieldsInv := [idField, [102]], chunkMode := 1025, newSegDocCount := 2 }
    (mergeField cfg [s0, s1]).toOption.map (·.fieldFreq) = some 2 ∧
    (mergeField { cfg with sumFreqFix := false } [s0, s1]).toOption.map (·.fieldFreq) = some 6 := by
  decide

end Ice.Props.C16
