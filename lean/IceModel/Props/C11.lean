import IceModel.Model.Writer
import IceModel.Lemmas.Writer
/-
  Property C11: every written file ends in the 44-byte footer whose last four bytes are the CRC-32
  of all preceding bytes; the byte count returned equals the bytes written; persisting a loaded
  segment again reproduces the file byte for byte.
-/
namespace Ice.Props.C11
open Ice Ice.Model.Writer

/-- a destination that accepts everything -/
def healthy : Sink := { beh := fun _ _ n => ⟨n, false⟩ }

/-- footer fields fit their widths (document counts and offsets are uint64, mode/version uint32) -/
def Footer.Fits (f : Footer) : Prop :=
  f.numDocs < 2 ^ 64 ∧ f.storedIndexOffset < 2 ^ 64 ∧ f.fieldsIndexOffset < 2 ^ 64 ∧
  f.docValueOffset < 2 ^ 64 ∧ f.chunkMode < 2 ^ 32 ∧ f.version = 2

theorem unbe_be (k x : Nat) (h : x < 256 ^ k) : unbe (be k x) = x := by
  exact unbe_be' k x h

theorem be_length (k x : Nat) : (be k x).length = k := by
  exact length_be k x

/-- the footer is 44 bytes -/
theorem persistFooter_length (h : CRC) (f : Footer) : (persistFooter h f).length = 44 := by
  exact length_persistFooter h f

theorem healthy_wellBehaved : healthy.WellBehaved := by
  intro i got n
  exact ⟨Nat.le_refl _, fun h => absurd h (Nat.lt_irrefl _)⟩

theorem healthy_noErr : SinkPres healthy (fun st => st.erred = false) :=
  noErr_pres healthy (fun _ _ _ => rfl)

theorem footerFields_crc (f : Footer) (c : Nat) : footerFields { f with crc := c } = footerFields f := rfl

/-- `Segment.WriteTo` on a healthy destination: data, the six fields, and the CRC of everything
    before it; the count returned is the file length -/
theorem C11_segment_file (h : CRC) (data : Bytes) (f : Footer) :
    segmentWriteTo healthy h data f =
      (.ok (data.length + 44),
       { got := data ++ footerFields f ++ be 4 (h.upd 0 (data ++ footerFields f)),
         calls := 2, erred := false }) := by
  have h44 := length_persistFooter h { f with crc := h.upd 0 data }
  have hne : (persistFooter h { f with crc := h.upd 0 data }).isEmpty = false := by
    cases hp : persistFooter h { f with crc := h.upd 0 data } with
    | nil => rw [hp] at h44; cases h44
    | cons _ _ => rfl
  rw [segmentWriteTo_def]
  simp only [sinkWrite_def, healthy, List.take_length, bwrite_def]
  rw [writeLoop_stop _ _ _ _ _ (by simp only [h44]; decide)]
  simp only [flush_def, sinkWrite_def, List.nil_append, hne, Nat.lt_irrefl,
    decide_false, Bool.or_false, Bool.false_eq_true, if_false, List.take_length, Nat.zero_add]
  simp only [persistFooter, footerFields_crc, h.upd_append, List.append_assoc]

/-- the merge path: the data writes followed by the footer seeded with the running checksum
    (mergeSegmentBasesWriter: `footer.crc = cr.Sum32()` then `persistFooter(footer, cr)`) -/
def mergeScript (h : CRC) (dataW : List Bytes) (f : Footer) : List Bytes :=
  dataW ++ [persistFooter h { f with crc := h.upd 0 dataW.flatten }]

theorem C11_merge_file (h : CRC) (honour : Nat → Bool) (size : Nat) (hsize : 0 < size)
    (dataW : List Bytes) (f : Footer) :
    let r := mergerWriteTo healthy h honour size (mergeScript h dataW f)
    r.1 = .ok (dataW.flatten.length + 44) ∧
    r.2.got = dataW.flatten ++ footerFields f ++ be 4 (h.upd 0 (dataW.flatten ++ footerFields f)) := by
  have _ := hsize
  have hspec := mergerWriteTo_spec healthy_wellBehaved h honour size (mergeScript h dataW f)
  have hk : (mergerWriteTo healthy h honour size (mergeScript h dataW f)).2.erred = false :=
    mergerWriteTo_pres healthy_noErr h honour size _ rfl
  obtain ⟨h1, h2⟩ := hspec.2 hk
  have hfl : (mergeScript h dataW f).flatten =
      dataW.flatten ++ footerFields f ++ be 4 (h.upd 0 (dataW.flatten ++ footerFields f)) := by
    simp only [mergeScript, List.flatten_append, List.flatten_cons, List.flatten_nil, List.append_nil,
      persistFooter, footerFields_crc, h.upd_append, List.append_assoc]
  refine ⟨?_, ?_⟩
  · rw [h1, hfl]
    simp only [List.length_append, length_footerFields, length_be]
  · rw [h2, hfl]

/- FALSE AS STATED (kept for the record; see `chw_healthy_false` below): for the empty script the
   countHashWriter still holds its initial checksum `0`, while the statement demands `h.upd 0 []`,
   and the abstract `CRC` has no law `upd c [] = c`.

/-- the running checksum of countHashWriter over a healthy script is the checksum of its bytes -/
theorem chw_healthy (h : CRC) (honour : Nat → Bool) (size : Nat) (hsize : 0 < size) (W : List Bytes) :
    let r := mergeWrites healthy h honour W 0 { size := size } {}
    r.2.1 = { crc := h.upd 0 W.flatten, n := W.flatten.length } ∧ r.2.2 = false
    -- (no proof: refuted by `chw_healthy_false`; true variants: `chw_healthy_partial`, `chw_healthy_fold`)
-/

/-- a (degenerate) checksum satisfying the `CRC` law but not `upd c [] = c` -/
def constCRC : CRC := { upd := fun _ _ => 1, upd_append := fun _ _ _ => rfl }

/-- counterexample to the original `chw_healthy`: `h := constCRC`, `W := []` -/
theorem chw_healthy_false :
    ¬ (∀ (h : CRC) (honour : Nat → Bool) (size : Nat) (_ : 0 < size) (W : List Bytes),
        let r := mergeWrites healthy h honour W 0 { size := size } {}
        r.2.1 = { crc := h.upd 0 W.flatten, n := W.flatten.length } ∧ r.2.2 = false) := by
  intro H
  have := (H constCRC (fun _ => true) 1 (by decide) []).1
  revert this
  decide

/-- the running checksum of countHashWriter over a healthy script is the checksum of its bytes:
    the strongest true variant of `chw_healthy` - the extra hypothesis (only relevant for the empty
    script) is necessary, see `chw_healthy_false` -/
theorem chw_healthy_partial (h : CRC) (honour : Nat → Bool) (size : Nat) (hsize : 0 < size)
    (W : List Bytes) (hW : W = [] → h.upd 0 [] = 0) :
    let r := mergeWrites healthy h honour W 0 { size := size } {}
    r.2.1 = { crc := h.upd 0 W.flatten, n := W.flatten.length } ∧ r.2.2 = false := by
  have _ := hsize
  have hi : Inv ({ size := size } : Bufio) [] := inv_init size {} rfl
  obtain ⟨_, _, g3⟩ := mergeWrites_spec healthy_wellBehaved h honour W 0 _ {} [] hi
  have hk : (mergeWrites healthy h honour W 0 { size := size } {}).1.sk.erred = false :=
    mergeWrites_pres healthy_noErr h honour W 0 _ _ rfl
  obtain ⟨m1, m2⟩ := g3 hk
  refine ⟨?_, m1⟩
  rw [m2, crcFold_flatten h _ W hW]
  simp

/-- without any side condition: the running checksum is the fold of the update function over the
    script (`crcFold`), which is `h.upd 0 W.flatten` for every non-empty script -/
theorem chw_healthy_fold (h : CRC) (honour : Nat → Bool) (size : Nat) (W : List Bytes) :
    let r := mergeWrites healthy h honour W 0 { size := size } {}
    r.2.1 = { crc := crcFold h 0 W, n := W.flatten.length } ∧ r.2.2 = false := by
  have hi : Inv ({ size := size } : Bufio) [] := inv_init size {} rfl
  obtain ⟨_, _, g3⟩ := mergeWrites_spec healthy_wellBehaved h honour W 0 _ {} [] hi
  have hk : (mergeWrites healthy h honour W 0 { size := size } {}).1.sk.erred = false :=
    mergeWrites_pres healthy_noErr h honour W 0 _ _ rfl
  obtain ⟨m1, m2⟩ := g3 hk
  refine ⟨?_, m1⟩
  rw [m2]
  simp

/-- `parseFooter` reads back what `persistFooter` wrote (checksum truncated to 32 bits by its
    4-byte slot) -/
theorem C11_parse_persist (h : CRC) (data : Bytes) (f : Footer) (hf : Footer.Fits f)
    (hc : ∀ c b, h.upd c b < 2 ^ 32) :
    parseFooter (data ++ persistFooter h f) =
      some { f with crc := h.upd f.crc (footerFields f) } := by
  obtain ⟨h1, h2, h3, h4, h5, h6⟩ := hf
  have e64 : (2 : Nat) ^ 64 = 256 ^ 8 := by decide
  have e32 : (2 : Nat) ^ 32 = 256 ^ 4 := by decide
  rw [e64] at h1 h2 h3 h4
  rw [e32] at h5
  have h7 : h.upd f.crc (footerFields f) < 256 ^ 4 := by rw [← e32]; exact hc _ _
  have h6' : f.version < 256 ^ 4 := by rw [h6]; decide
  rw [persistFooter]
  generalize h.upd f.crc (footerFields f) = c at *
  rw [footerFields, parseFooter_append _ _ _ _ _ _ _ _ (length_be _ _) (length_be _ _) (length_be _ _)
    (length_be _ _) (length_be _ _) (length_be _ _) (length_be _ _)]
  rw [unbe_be' _ _ h1, unbe_be' _ _ h2, unbe_be' _ _ h3, unbe_be' _ _ h4, unbe_be' _ _ h5,
    unbe_be' _ _ h6', unbe_be' _ _ h7]
  simp [h6]

/-- Persisting a loaded segment reproduces the file byte for byte: `load` keeps the data section
    and the parsed footer; `Segment.WriteTo` re-hashes the data. -/
theorem C11_repersist (h : CRC) (data : Bytes) (f : Footer) (hf : Footer.Fits f)
    (hc : ∀ c b, h.upd c b < 2 ^ 32) :
    let file := data ++ persistFooter h { f with crc := h.upd 0 data }
    ∀ pf, parseFooter file = some pf →
      (segmentWriteTo healthy h data pf).2.got = file := by
  intro file pf hpf
  have hf' : Footer.Fits { f with crc := h.upd 0 data } := hf
  rw [C11_parse_persist h data _ hf' hc] at hpf
  cases hpf
  rw [C11_segment_file]
  simp only [file, persistFooter, footerFields_crc, h.upd_append, List.append_assoc]

/-! ### the defect that was repaired (fix: commit 45c8aa5) -/

/-- `Segment.WriteTo` before the fix: the footer checksum continues from `footer.crc` -/
def segmentWriteTo_v0 (h : CRC) (data : Bytes) (f : Footer) : Bytes :=
  data ++ persistFooter h f

/-- a concrete checksum with the update law: sum of bytes modulo 2^32 -/
def sumCRC : CRC :=
  { upd := fun c b => (c + b.sum) % 2 ^ 32,
    upd_append := by
      intro c a b
      simp only [List.sum_append]
      omega }

def exFooter : Footer :=
  { numDocs := 1, storedIndexOffset := 0, fieldsIndexOffset := 0, docValueOffset := 0,
    chunkMode := 1025, version := 2, crc := 0 }

/-- before the fix, re-persisting a loaded segment did NOT reproduce the file: witness with the
    one-byte data section `[1]` -/
theorem C11_v0_counterexample :
    let file := [1] ++ persistFooter sumCRC { exFooter with crc := sumCRC.upd 0 [1] }
    ∃ pf, parseFooter file = some pf ∧ segmentWriteTo_v0 sumCRC [1] pf ≠ file := by
  decide

/-- non-vacuity: the hypotheses of `C11_repersist` are satisfiable -/
example : Footer.Fits exFooter ∧ ∀ c b, sumCRC.upd c b < 2 ^ 32 := by
  refine ⟨by unfold Footer.Fits exFooter; decide, fun c b => Nat.mod_lt _ (by decide)⟩

end Ice.Props.C11
