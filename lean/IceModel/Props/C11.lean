import IceModel.Model.Writer
/-
  Property C11: every written file ends in the 44-byte footer whose last four bytes are the CRC-32
  of all preceding bytes; the byte count returned equals the bytes written; persisting a loaded
  segment again reproduces the file byte for byte.
-/
namespace Ice.Props.C11
open Ice Ice.Model.Writer

/-- a destination that accepts everything -/
def healthy : Sink := { beh := fun _ _ n => ⟨n, false⟩ }

/-- footer fields fit their widths (document counts and offsets are uint64, mode/version uint32) -/
def Footer.Fits (f : Footer) : Prop :=
  f.numDocs < 2 ^ 64 ∧ f.storedIndexOffset < 2 ^ 64 ∧ f.fieldsIndexOffset < 2 ^ 64 ∧
  f.docValueOffset < 2 ^ 64 ∧ f.chunkMode < 2 ^ 32 ∧ f.version = 2

theorem unbe_be (k x : Nat) (h : x < 256 ^ k) : unbe (be k x) = x := by
  sorry

theorem be_length (k x : Nat) : (be k x).length = k := by
  sorry

/-- the footer is 44 bytes -/
theorem persistFooter_length (h : CRC) (f : Footer) : (persistFooter h f).length = 44 := by
  sorry

/-- `Segment.WriteTo` on a healthy destination: data, the six fields, and the CRC of everything
    before it; the count returned is the file length -/
theorem C11_segment_file (h : CRC) (data : Bytes) (f : Footer) :
    segmentWriteTo healthy h data f =
      (.ok (data.length + 44),
       { got := data ++ footerFields f ++ be 4 (h.upd 0 (data ++ footerFields f)),
         calls := 2, erred := false }) := by
  sorry

/-- the merge path: the data writes followed by the footer seeded with the running checksum
    (mergeSegmentBasesWriter: `footer.crc = cr.Sum32()` then `persistFooter(footer, cr)`) -/
def mergeScript (h : CRC) (dataW : List Bytes) (f : Footer) : List Bytes :=
  dataW ++ [persistFooter h { f with crc := h.upd 0 dataW.flatten }]

theorem C11_merge_file (h : CRC) (honour : Nat → Bool) (size : Nat) (hsize : 0 < size)
    (dataW : List Bytes) (f : Footer) :
    let r := mergerWriteTo healthy h honour size (mergeScript h dataW f)
    r.1 = .ok (dataW.flatten.length + 44) ∧
    r.2.got = dataW.flatten ++ footerFields f ++ be 4 (h.upd 0 (dataW.flatten ++ footerFields f)) := by
  sorry

/-- the running checksum of countHashWriter over a healthy script is the checksum of its bytes -/
theorem chw_healthy (h : CRC) (honour : Nat → Bool) (size : Nat) (hsize : 0 < size) (W : List Bytes) :
    let r := mergeWrites healthy h honour W 0 { size := size } {}
    r.2.1 = { crc := h.upd 0 W.flatten, n := W.flatten.length } ∧ r.2.2 = false := by
  sorry

/-- `parseFooter` reads back what `persistFooter` wrote (checksum truncated to 32 bits by its
    4-byte slot) -/
theorem C11_parse_persist (h : CRC) (data : Bytes) (f : Footer) (hf : Footer.Fits f)
    (hc : ∀ c b, h.upd c b < 2 ^ 32) :
    parseFooter (data ++ persistFooter h f) =
      some { f with crc := h.upd f.crc (footerFields f) } := by
  sorry

/-- Persisting a loaded segment reproduces the file byte for byte: `load` keeps the data section
    and the parsed footer; `Segment.WriteTo` re-hashes the data. -/
theorem C11_repersist (h : CRC) (data : Bytes) (f : Footer) (hf : Footer.Fits f)
    (hc : ∀ c b, h.upd c b < 2 ^ 32) :
    let file := data ++ persistFooter h { f with crc := h.upd 0 data }
    ∀ pf, parseFooter file = some pf →
      (segmentWriteTo healthy h data pf).2.got = file := by
  sorry

/-! ### the defect that was repaired (fix: commit 45c8aa5) -/

/-- `Segment.WriteTo` before the fix: the footer checksum continues from `footer.crc` -/
def segmentWriteTo_v0 (h : CRC) (data : Bytes) (f : Footer) : Bytes :=
  data ++ persistFooter h f

/-- a concrete checksum with the update law: sum of bytes modulo 2^32 -/
def sumCRC : CRC :=
  { upd := fun c b => (c + b.sum) % 2 ^ 32,
    upd_append := by
      intro c a b
      simp only [List.sum_append]
      omega }

def exFooter : Footer :=
  { numDocs := 1, storedIndexOffset := 0, fieldsIndexOffset := 0, docValueOffset := 0,
    chunkMode := 1025, version := 2, crc := 0 }

/-- before the fix, re-persisting a loaded segment did NOT reproduce the file: witness with the
    one-byte data section `[1]` -/
theorem C11_v0_counterexample :
    let file := [1] ++ persistFooter sumCRC { exFooter with crc := sumCRC.upd 0 [1] }
    ∃ pf, parseFooter file = some pf ∧ segmentWriteTo_v0 sumCRC [1] pf ≠ file := by
  sorry

/-- non-vacuity: the hypotheses of `C11_repersist` are satisfiable -/
example : Footer.Fits exFooter ∧ ∀ c b, sumCRC.upd c b < 2 ^ 32 := by
  sorry

end Ice.Props.C11
