import IceModel.Model.Iter
import IceModel.Model.Dict
import IceModel.Lemmas.Iter
import IceModel.Lemmas.IterReplace
import IceModel.Props.C05
/-
  Property C05 with a REPLACED actual-bitmap: `OptimizablePostingsIterator.ReplaceActual(abm)`
  (posting.go:685-696) narrows the postings an iterator delivers to a subset `abm` of the list's
  document numbers (the searcher's conjunction optimisation ANDs the `ActualBitmap()`s of several
  iterators and hands the result back to each of them).

  Go:    i.ActualBM = abm; i.Actual = abm.Iterator()
  model: `replaceActual i abm = { i with act := abm, clean := false }`
         (`clean` is the pointer test `i.postings.postings == i.ActualBM`; see Model/Iter.lean).

  Hypotheses on `abm` and the Go-level facts behind them:
    * `abm.Pairwise (· < ·)`: a roaring iterator enumerates strictly ascending, no duplicates;
    * `∀ d ∈ abm, d ∈ P.map (·.doc)`: the caller's obligation - the optimisation only ever
      intersects `ActualBitmap()`s, each of which is a subset of the list's bitmap.  Without it the
      `for allN != n` loop runs `i.all` past its end (`C05_replace_needs_subset_counterexample`).
-/
namespace Ice.Props.C05
open Ice Ice.Spec Ice.Model Ice.Model.Iter

/-- what was there before the replacement (the exclusion, the old `Actual` cursor, the old
    `clean`) does not matter on a fresh iterator: the replacement wins -/
theorem replaceActual_mk (cs : Nat) (P : List Posting) (E : Option (List Nat)) (fl : RFlags)
    (abm : List Nat) :
    replaceActual (mk cs P E fl) abm =
      { cs := cs, P := P, all := P.map (·.doc), act := abm, clean := false, currChunk := 0,
        fnR := none, lcR := [], fl := fl } := by
  cases E <;> rfl

/-- frame: `ReplaceActual` assigns `ActualBM` / `Actual` only -/
theorem replaceActual_frame (i : It) (abm : List Nat) :
    (replaceActual i abm).cs = i.cs ∧ (replaceActual i abm).P = i.P ∧
    (replaceActual i abm).all = i.all ∧ (replaceActual i abm).currChunk = i.currChunk ∧
    (replaceActual i abm).fnR = i.fnR ∧ (replaceActual i abm).lcR = i.lcR ∧
    (replaceActual i abm).fl = i.fl ∧ (replaceActual i abm).act = abm ∧
    (replaceActual i abm).clean = false :=
  ⟨rfl, rfl, rfl, rfl, rfl, rfl, rfl, rfl, rfl⟩

/-! ### replacement on a freshly created iterator -/

/-- entry level (`specRun`, reader flags), any exclusion at creation -/
theorem C05_replace_entry (cs : Nat) (hcs : 0 < cs) (P : List Posting) (hP : Sorted P)
    (E : Option (List Nat)) (fl : RFlags) (hfl : fl.incL = true → fl.incFN = true)
    (abm : List Nat) (ha : abm.Pairwise (· < ·)) (hsub : ∀ d ∈ abm, d ∈ P.map (·.doc))
    (ops : List IterOp) :
    run (replaceActual (mk cs P E fl) abm) ops =
      specRun fl (P.filter (fun p => abm.contains p.doc)) ops := by
  obtain ⟨lv, cl, _, hinv⟩ := mk_Inv cs P E fl
  exact run_replace_inv hcs hP hfl hinv ha (by rw [mk_all]; exact hsub) ops

/-- in the vocabulary of `C05_view`, any exclusion at creation -/
theorem C05_replace_view (cs : Nat) (hcs : 0 < cs) (P : List Posting) (hP : Sorted P)
    (E : Option (List Nat)) (fl : Flags)
    (abm : List Nat) (ha : abm.Pairwise (· < ·)) (hsub : ∀ d ∈ abm, d ∈ P.map (·.doc))
    (ops : List IterOp) :
    (run (replaceActual (mk cs P E (RFlags.of fl)) abm) ops).map
        (fun r => r.map (fun o => o.map (view fl))) =
      (iterRun fl (P.filter (fun p => abm.contains p.doc)) ops).map some := by
  rw [C05_replace_entry cs hcs P hP E (RFlags.of fl) (RFlags.of_wf fl) abm ha hsub ops]
  exact specRun_view' fl _ ops

/-- C05 with a replaced actual-bitmap: an iterator created without exclusion and then narrowed
    to `abm` never faults and answers exactly like the specification iterator over the postings
    whose document is in `abm` -/
theorem C05_replace (cs : Nat) (hcs : 0 < cs) (P : List Posting) (hP : Sorted P) (fl : Flags)
    (abm : List Nat) (ha : abm.Pairwise (· < ·)) (hsub : ∀ d ∈ abm, d ∈ P.map (·.doc))
    (ops : List IterOp) :
    (run (replaceActual (mk cs P none (RFlags.of fl)) abm) ops).map
        (fun r => r.map (fun o => o.map (view fl))) =
      (iterRun fl (P.filter (fun p => abm.contains p.doc)) ops).map some :=
  C05_replace_view cs hcs P hP none fl abm ha hsub ops

/-- the same for an iterator created WITH an exclusion `e`: the replacement wins, also the
    excluded documents named by `abm` are delivered (`abm` need not avoid `e`) -/
theorem C05_replace_except (cs : Nat) (hcs : 0 < cs) (P : List Posting) (hP : Sorted P)
    (e : List Nat) (fl : Flags)
    (abm : List Nat) (ha : abm.Pairwise (· < ·)) (hsub : ∀ d ∈ abm, d ∈ P.map (·.doc))
    (ops : List IterOp) :
    (run (replaceActual (mk cs P (some e) (RFlags.of fl)) abm) ops).map
        (fun r => r.map (fun o => o.map (view fl))) =
      (iterRun fl (P.filter (fun p => abm.contains p.doc)) ops).map some :=
  C05_replace_view cs hcs P hP (some e) fl abm ha hsub ops

/-- the form the correspondence driver uses (`IceModel/Driver/Run.lean`: `{ i0 with act :=
    (P.filter (fun p => keep.contains p.doc)).map (·.doc), clean := false }`): for an ARBITRARY
    list `keep` the bitmap `keep ∩ postings` is a sorted subset, so no hypothesis on `keep` is
    left -/
theorem C05_replace_keep (cs : Nat) (hcs : 0 < cs) (P : List Posting) (hP : Sorted P)
    (E : Option (List Nat)) (fl : RFlags) (hfl : fl.incL = true → fl.incFN = true)
    (keep : List Nat) (ops : List IterOp) :
    run ({ mk cs P E fl with
            act := (P.filter (fun p => keep.contains p.doc)).map (·.doc), clean := false }) ops =
      specRun fl (P.filter (fun p => keep.contains p.doc)) ops := by
  have hsorted : ((P.filter (fun p => keep.contains p.doc)).map (·.doc)).Pairwise (· < ·) := by
    rw [List.pairwise_map]
    exact List.Pairwise.sublist List.filter_sublist hP
  have hsub : ∀ d ∈ (P.filter (fun p => keep.contains p.doc)).map (·.doc), d ∈ P.map (·.doc) := by
    intro d hd
    obtain ⟨q, hq, rfl⟩ := List.mem_map.mp hd
    exact List.mem_map.mpr ⟨q, (List.mem_filter.mp hq).1, rfl⟩
  have h := C05_replace_entry cs hcs P hP E fl hfl _ hsorted hsub ops
  have hfilter : P.filter (fun p =>
        ((P.filter (fun p => keep.contains p.doc)).map (·.doc)).contains p.doc) =
      P.filter (fun p => keep.contains p.doc) := by
    apply List.filter_congr
    intro p hp
    rw [Bool.eq_iff_iff]
    simp only [List.contains_eq_mem, decide_eq_true_eq, List.mem_map, List.mem_filter]
    constructor
    · rintro ⟨q, ⟨_, hq⟩, hqd⟩
      rw [← hqd]; exact hq
    · intro hk
      exact ⟨p, ⟨hp, hk⟩, rfl⟩
  rw [hfilter] at h
  exact h

/-- when `abm` is a subset of the live documents (what the optimisation produces), the result is
    also the live postings narrowed to `abm` -/
theorem filter_abm_live (P : List Posting) (e : List Nat) (abm : List Nat)
    (hdisj : ∀ d ∈ abm, ¬ d ∈ e) :
    P.filter (fun p => abm.contains p.doc) =
      (live P (some e)).filter (fun p => abm.contains p.doc) := by
  simp only [live, List.filter_filter]
  apply List.filter_congr
  intro p _
  by_cases h : p.doc ∈ abm
  · have := hdisj _ h
    simp [h, this]
  · simp [h]

/-- `ReplaceActual` with the list's OWN bitmap object (pointer-equal to `postings.postings`):
    the state is the one of an iterator created without exclusion, so by `C05_entry` all postings
    are delivered through the clean path - also when the iterator had been created with an
    exclusion -/
theorem C05_replace_sameobj (cs : Nat) (hcs : 0 < cs) (P : List Posting) (hP : Sorted P)
    (E : Option (List Nat)) (fl : RFlags) (hfl : fl.incL = true → fl.incFN = true)
    (ops : List IterOp) :
    run (replaceActualSameObj (mk cs P E fl)) ops = specRun fl P ops := by
  have : replaceActualSameObj (mk cs P E fl) = mk cs P none fl := by cases E <;> rfl
  rw [this]
  exact C05_entry cs hcs P hP none fl hfl ops

/-! ### replacement in the middle of a script -/

/-- `ReplaceActual` applied LATER: after any script `ops1` all of whose answers were postings
    (the iterator is not exhausted), with an `abm` whose documents are all still ahead of the
    `all` cursor of the state reached, the rest of the run is again the specification iterator over
    the postings named by `abm` (the fresh `Actual` cursor starts at the beginning of `abm`; the
    chunk readers are where the `all` cursor left them and catch up) -/
theorem C05_replace_later_entry (cs : Nat) (hcs : 0 < cs) (P : List Posting) (hP : Sorted P)
    (E : Option (List Nat)) (fl : RFlags) (hfl : fl.incL = true → fl.incFN = true)
    (ops1 : List IterOp) (rs : List (Option Posting)) (st : It)
    (hrun : runSt (mk cs P E fl) ops1 = some (rs, st)) (hrs : ∀ r ∈ rs, r ≠ none)
    (abm : List Nat) (ha : abm.Pairwise (· < ·)) (hsub : ∀ d ∈ abm, d ∈ st.all)
    (ops2 : List IterOp) :
    run (replaceActual st abm) ops2 =
      specRun fl (P.filter (fun p => abm.contains p.doc)) ops2 := by
  obtain ⟨lv, cl, hmode, hinv⟩ := mk_Inv cs P E fl
  obtain ⟨L', Pre', R', hst⟩ := runSt_Inv hcs hP hmode hfl ops1 _ _ _ _ hinv rs st hrun hrs
  exact run_replace_inv hcs hP hfl hst ha hsub ops2

theorem C05_replace_later (cs : Nat) (hcs : 0 < cs) (P : List Posting) (hP : Sorted P)
    (E : Option (List Nat)) (fl : Flags)
    (ops1 : List IterOp) (rs : List (Option Posting)) (st : It)
    (hrun : runSt (mk cs P E (RFlags.of fl)) ops1 = some (rs, st)) (hrs : ∀ r ∈ rs, r ≠ none)
    (abm : List Nat) (ha : abm.Pairwise (· < ·)) (hsub : ∀ d ∈ abm, d ∈ st.all)
    (ops2 : List IterOp) :
    (run (replaceActual st abm) ops2).map (fun r => r.map (fun o => o.map (view fl))) =
      (iterRun fl (P.filter (fun p => abm.contains p.doc)) ops2).map some := by
  rw [C05_replace_later_entry cs hcs P hP E (RFlags.of fl) (RFlags.of_wf fl) ops1 rs st hrun hrs
    abm ha hsub ops2]
  exact specRun_view' fl _ ops2

/-! ### `Count()` -/

/-- `PostingsIterator.Count()` is `i.postings.Count()` (posting.go:698-704): a function of the
    postings LIST (`Dict.count`: cardinality of the bitmap minus the excluded members), which
    `ReplaceActual` does not touch - so it keeps reporting the number of live postings, not the
    number of postings the narrowed iterator delivers; the latter is
    `ActualBitmap().GetCardinality()`, the length of `abm`.  (The iterator model `It` carries no
    `Count`; the list-level `Dict.count` is the modelled function.) -/
theorem C05_replace_count (cs : Nat) (P : List Posting) (hP : Sorted P) (E : Option (List Nat))
    (fl : RFlags) (abm : List Nat) (ha : abm.Pairwise (· < ·))
    (hsub : ∀ d ∈ abm, d ∈ P.map (·.doc)) :
    -- ActualBitmap().GetCardinality() = number of postings the narrowed iterator delivers
    (replaceActual (mk cs P E fl) abm).act.length =
        (P.filter (fun p => abm.contains p.doc)).length ∧
    -- Count() = the list's count = number of live postings, independent of `abm`
    Dict.count { postings := some (P.map (·.doc)), except := E, chunkSize := cs } =
        (live P E).length := by
  constructor
  · have h := filter_inAbm_docs P hP abm ha hsub
    have h2 : (replaceActual (mk cs P E fl) abm).act = abm := rfl
    rw [h2]
    conv => lhs; rw [← h]
    rw [List.length_map]; rfl
  · cases E with
    | none => simp [Dict.count, live]
    | some e =>
      simp only [Dict.count, live]
      have h1 := length_filter_not (fun d => e.contains d) (P.map (·.doc))
      have h2 : (P.filter (fun p => !e.contains p.doc)).length =
          ((P.map (·.doc)).filter (fun d => !e.contains d)).length := by
        rw [List.filter_map, List.length_map]; rfl
      rw [h2, h1, List.length_map]
      simp

/-! ### the seeded change: fast path chosen by `except == nil` -/

/-- the seeded variant: the clean fast path is chosen by `i.postings.except == nil` instead of
    `i.postings.postings == i.ActualBM`, so a replacement does not leave it -/
def replaceActualBad (i : It) (abm : List Nat) : It := { i with act := abm }

/-- six postings in one chunk, pairwise different freq / norm / locations -/
def kcP : List Posting :=
  [ { doc := 0, freq := 1, norm := 10, locs := [⟨[], 0, 0, 1⟩] },
    { doc := 1, freq := 2, norm := 11, locs := [⟨[], 1, 1, 2⟩] },
    { doc := 2, freq := 3, norm := 12, locs := [⟨[], 2, 2, 3⟩] },
    { doc := 3, freq := 4, norm := 13, locs := [⟨[], 3, 3, 4⟩] },
    { doc := 4, freq := 5, norm := 14, locs := [⟨[], 4, 4, 5⟩] },
    { doc := 5, freq := 6, norm := 15, locs := [⟨[], 5, 5, 6⟩] } ]

def kcFl : RFlags := RFlags.of { freq := true, norm := true, locs := true }

def kcOps : List IterOp := [.next, .advance 4, .next]

/-- what the seeded variant answers: the chunk readers never skip the entries of the postings
    left out, so document 1 is delivered with document 0's freq/norm/locations and document 4
    with document 2's.
    (`cleanLoop` is defined by well-founded recursion, which `decide` cannot evaluate; the
    transcript is computed by `simp` with its unfolding equations.) -/
theorem C05_replace_keepclean_transcript :
    run (replaceActualBad (mk 8 kcP none kcFl) [1, 3, 4]) kcOps =
      [ some (some { doc := 1, freq := 1, norm := 10, locs := [⟨[], 0, 0, 1⟩] }),
        some (some { doc := 4, freq := 3, norm := 12, locs := [⟨[], 2, 2, 3⟩] }),
        some none ] := by
  simp [run, step, nextDoc, replaceActualBad, mk, kcP, kcFl, kcOps, RFlags.of, cleanLoop_step,
    cleanLoop_done, repeatSkip, currChunkNext, needLoad, loadChunk, chunkOf, hasLocs]

/-- the statement of `C05_replace` is false for the seeded variant -/
theorem C05_replace_keepclean_counterexample :
    0 < 8 ∧ Sorted kcP ∧ [1, 3, 4].Pairwise (· < ·) ∧ (∀ d ∈ [1, 3, 4], d ∈ kcP.map (·.doc)) ∧
    run (replaceActualBad (mk 8 kcP none kcFl) [1, 3, 4]) kcOps ≠
      specRun kcFl (kcP.filter (fun p => [1, 3, 4].contains p.doc)) kcOps ∧
    -- the first answer is document 1 carrying document 0's data
    (run (replaceActualBad (mk 8 kcP none kcFl) [1, 3, 4]) kcOps).head? =
      some (some (some { doc := 1, freq := 1, norm := 10, locs := [⟨[], 0, 0, 1⟩] })) ∧
    (specRun kcFl (kcP.filter (fun p => [1, 3, 4].contains p.doc)) kcOps).head? =
      some (some (some { doc := 1, freq := 2, norm := 11, locs := [⟨[], 1, 1, 2⟩] })) := by
  rw [C05_replace_keepclean_transcript]
  refine ⟨by decide, by simp [Sorted, kcP], by decide, by decide, by decide, by decide, by decide⟩

/-- the real method on the same instance (through `C05_replace_entry`) -/
theorem C05_replace_keepclean_real :
    run (replaceActual (mk 8 kcP none kcFl) [1, 3, 4]) kcOps =
      [ some (some { doc := 1, freq := 2, norm := 11, locs := [⟨[], 1, 1, 2⟩] }),
        some (some { doc := 4, freq := 5, norm := 14, locs := [⟨[], 4, 4, 5⟩] }),
        some none ] := by
  rw [C05_replace_entry 8 (by decide) kcP (by simp [Sorted, kcP]) none kcFl (by decide) [1, 3, 4]
    (by decide) (by decide) kcOps]
  decide

/-! ### the hypotheses are needed -/

/-- `abm` not a subset of the list's documents: the `for allN != n` loop exhausts `i.all`
    (Go: `Next()` on a roaring iterator without next element) - the transcript ends in a fault -/
theorem C05_replace_needs_subset_counterexample :
    run (replaceActual (mk 8 kcP none kcFl) [1, 7]) [.next, .next] =
      [ some (some { doc := 1, freq := 2, norm := 11, locs := [⟨[], 1, 1, 2⟩] }), none ] := by
  simp [run, step, nextDoc, replaceActual, mk, kcP, kcFl, RFlags.of, exclLoop_step, exclLoop_done,
    exclLoop_exhausted, currChunkNext, needLoad, loadChunk, chunkOf, hasLocs]

/-- the state of the six-posting iterator after `Advance 3` -/
def kcSt3 : It :=
  { cs := 8, P := kcP, all := [4, 5], act := [4, 5], clean := true, currChunk := 0,
    fnR := some (kcP.drop 4), lcR := kcP.drop 4, fl := kcFl }

/-- replacing LATER with an `abm` that names a document the `all` cursor has already passed
    (here: document 1 after `Advance 3`) faults in the same way: the side condition
    `∀ d ∈ abm, d ∈ st.all` of `C05_replace_later` cannot be dropped -/
theorem C05_replace_later_passed_counterexample :
    runSt (mk 8 kcP none kcFl) [.advance 3] =
      some ([some { doc := 3, freq := 4, norm := 13, locs := [⟨[], 3, 3, 4⟩] }], kcSt3) ∧
    kcSt3.all = [4, 5] ∧ run (replaceActual kcSt3 [1, 4]) [.next] = [none] := by
  refine ⟨?_, rfl, ?_⟩
  · simp [runSt, step, nextDoc, mk, kcP, kcFl, kcSt3, RFlags.of, cleanLoop_step,
      cleanLoop_done, repeatSkip, currChunkNext, needLoad, loadChunk, chunkOf, hasLocs]
  · simp [run, step, nextDoc, replaceActual, kcSt3, kcP, kcFl, RFlags.of, exclLoop_step,
      exclLoop_exhausted, currChunkNext, needLoad, hasLocs]

/-! ### non-vacuity -/

/-- `C05_replace`'s hypotheses on a non-trivial instance: the list `exP` of `C05.lean` (three
    chunks of size 2), narrowed to documents 1 and 4, all readers on -/
example : 0 < 2 ∧ Sorted exP ∧ [1, 4].Pairwise (· < ·) ∧ (∀ d ∈ [1, 4], d ∈ exP.map (·.doc)) ∧
    (run (replaceActual (mk 2 exP none (RFlags.of ⟨true, true, true⟩)) [1, 4]) exOps).map
        (fun r => r.map (fun o => o.map (view ⟨true, true, true⟩))) =
      (iterRun ⟨true, true, true⟩ (exP.filter (fun p => [1, 4].contains p.doc)) exOps).map some :=
  ⟨by decide, by simp [Sorted, exP], by decide, by decide,
   C05_replace 2 (by decide) exP (by simp [Sorted, exP]) ⟨true, true, true⟩ [1, 4] (by decide)
     (by decide) exOps⟩

/-- its transcript, computed through the specification: Next ↦ 1, Advance 2 ↦ 4, then nothing -/
example : run (replaceActual (mk 2 exP none exFl) [1, 4]) exOps =
    [ some (some { doc := 1, freq := 2, norm := 11, locs := [] }),
      some (some { doc := 4, freq := 4, norm := 13, locs := [⟨[], 2, 4, 5⟩, ⟨[], 3, 6, 7⟩] }),
      some none, some none, some none ] := by
  rw [C05_replace_entry 2 (by decide) exP (by simp [Sorted, exP]) none exFl (by decide) [1, 4]
    (by decide) (by decide) exOps]
  decide

/-- created with the exclusion `[3, 4]`, then narrowed to `[1, 4]`: document 4 is delivered
    although it had been excluded -/
example : run (replaceActual (mk 2 exP (some [3, 4]) exFl) [1, 4]) exOps =
    [ some (some { doc := 1, freq := 2, norm := 11, locs := [] }),
      some (some { doc := 4, freq := 4, norm := 13, locs := [⟨[], 2, 4, 5⟩, ⟨[], 3, 6, 7⟩] }),
      some none, some none, some none ] := by
  rw [C05_replace_entry 2 (by decide) exP (by simp [Sorted, exP]) (some [3, 4]) exFl (by decide)
    [1, 4] (by decide) (by decide) exOps]
  decide

/-- `Count()` on the six-posting instance narrowed to `[1, 3, 4]`: still 6, while 3 postings are
    delivered -/
example : Dict.count { postings := some (kcP.map (·.doc)), except := none, chunkSize := 8 } = 6 ∧
    (replaceActual (mk 8 kcP none kcFl) [1, 3, 4]).act.length = 3 := by decide

/-- a later replacement that satisfies the side conditions of `C05_replace_later_entry`, and
    what it delivers: after `Advance 3` narrowed to `[5]` (document 4's entries are skipped) -/
example : run (replaceActual kcSt3 [5]) [.next, .next] =
    [ some (some { doc := 5, freq := 6, norm := 15, locs := [⟨[], 5, 5, 6⟩] }), some none ] := by
  rw [C05_replace_later_entry 8 (by decide) kcP (by simp [Sorted, kcP]) none kcFl (by decide)
    [.advance 3] _ kcSt3 C05_replace_later_passed_counterexample.1 (by decide) [5] (by decide)
    (by decide) [.next, .next]]
  decide

end Ice.Props.C05
