import IceModel.Model.Dict
import IceModel.Lemmas.Dict
/-
  Properties C08 (dictionary counts), C13 (reuse of postings lists) and C18 (DocsMatchingTerms)
  on the model of dict.go / posting.go / segment.go.
-/
namespace Ice.Props.C08
open Ice Ice.Model Ice.Model.Dict

def Res.map {α β} (f : α → β) : Res α → Res β
  | .ok a => .ok (f a)
  | .err => .err
  | .panic => .panic

/-- every FST value of the segment is a 1-hit code or the offset of a readable record, and the
    chunk mode is a valid one -/
def Seg.Readable (s : Seg) : Prop :=
  s.chunkMode ≤ 1025 ∧ ∀ fe ∈ s.fields, ∀ e ∈ fe.2, is1Hit e.2 = true ∨ (s.store e.2).isSome = true

/-- the true number of documents behind an FST value -/
def trueCount (s : Seg) (v : Nat) : Nat :=
  if is1Hit v then 1 else match s.store v with
    | some r => r.docs.length
    | none => 0

/-- the documents behind an FST value -/
def trueDocs (s : Seg) (v : Nat) : List Nat :=
  if is1Hit v then [(decode1Hit v).1] else match s.store v with
    | some r => r.docs
    | none => []

/-! ### C08: a dictionary iterator reports true counts whatever encodings it met before -/

/-- norms are strictly positive, so a 1-hit value always carries a non-zero norm -/
def Seg.NormsPositive (s : Seg) : Prop :=
  ∀ fe ∈ s.fields, ∀ e ∈ fe.2, is1Hit e.2 = true → (decode1Hit e.2).2 ≠ 0

theorem trueCount_eq_length (s : Seg) (v : Nat) : trueCount s v = (trueDocs s v).length := by
  unfold trueCount trueDocs
  split
  · rfl
  · split <;> rfl

/-- per-entry readability, as needed along an FST entry list -/
def EntriesOk (s : Seg) (es : List (Bytes × Nat)) : Prop :=
  ∀ e ∈ es, (is1Hit e.2 = true ∨ (s.store e.2).isSome = true) ∧
            (is1Hit e.2 = true → (decode1Hit e.2).2 ≠ 0)

theorem entriesOk_of_mem (s : Seg) (hr : Seg.Readable s) (hn : Seg.NormsPositive s)
    (fe : Bytes × List (Bytes × Nat)) (hf : fe ∈ s.fields) : EntriesOk s fe.2 :=
  fun e he => ⟨hr.2 fe hf e he, hn fe hf e he⟩

/-- what `read` (after the fix) leaves in the list for a readable, norm-positive value -/
theorem read_fixed_spec (s : Seg) (hm : s.chunkMode ≤ 1025) (p : PL) (v : Nat)
    (hv : is1Hit v = true ∨ (s.store v).isSome = true)
    (hp : is1Hit v = true → (decode1Hit v).2 ≠ 0) :
    ∃ p', read fixed s p v = .ok p' ∧ p'.except = p.except ∧ p'.hasSeg = p.hasSeg ∧
      (p'.except = none → count p' = trueCount s v) ∧ orInto p' = trueDocs s v ∧
      (p'.except = none → p'.hasSeg = true → iterDocs fixed p' = .ok (trueDocs s v)) := by
  cases h1 : is1Hit v with
  | true =>
    have hnz := hp h1
    refine ⟨_, read_1hit fixed s p v h1, rfl, rfl, ?_, ?_, ?_⟩
    · intro he; rw [count_1hit _ hnz he]; simp [trueCount, h1]
    · simp [orInto, trueDocs, h1, hnz]
    · intro he _; simp at he; simp [iterDocs, trueDocs, h1, hnz, he]
  | false =>
    have hs : (s.store v).isSome = true := by simpa [h1] using hv
    obtain ⟨r, hr⟩ := Option.isSome_iff_exists.mp hs
    obtain ⟨cs, hcs⟩ := read_fixed_general s p v r h1 hr hm
    refine ⟨_, hcs, rfl, rfl, ?_, ?_, ?_⟩
    · intro he; rw [count_general _ r.docs rfl he rfl]; simp [trueCount, h1, hr]
    · simp [orInto, trueDocs, h1, hr]
    · intro he hseg
      rw [iterDocs_fixed_general _ r.docs rfl he rfl hseg]; simp [trueDocs, h1, hr]

theorem dictIter_fixed (s : Seg) (hm : s.chunkMode ≤ 1025) (es : List (Bytes × Nat))
    (hes : EntriesOk s es) (tmp : PL) (ht : tmp.except = none) :
    dictIter fixed s es tmp = .ok (es.map (fun e => (e.1, trueCount s e.2))) := by
  induction es generalizing tmp with
  | nil => rfl
  | cons e es ih =>
    obtain ⟨t, v⟩ := e
    have he := hes (t, v) (List.mem_cons_self)
    obtain ⟨p', hrd, hex, _, hc, _, _⟩ := read_fixed_spec s hm tmp v he.1 he.2
    have hex' : p'.except = none := hex.trans ht
    have ih' := ih (fun e h => hes e (List.mem_cons_of_mem _ h)) p' hex'
    simp [dictIter, hrd, ih', hc hex']

theorem C08_counts (s : Seg) (hr : Seg.Readable s) (hn : Seg.NormsPositive s) (f : Bytes)
    (fst : List (Bytes × Nat)) (hf : (f, fst) ∈ s.fields) (tmp : PL) (ht : tmp.except = none) :
    dictIter fixed s fst tmp = .ok (fst.map (fun e => (e.1, trueCount s e.2))) := by
  exact dictIter_fixed s hr.1 fst (entriesOk_of_mem s hr hn (f, fst) hf) tmp ht

/-- before fix 332b42f a general entry met after a 1-hit entry was counted as 1 -/
theorem C08_v0_counterexample :
    ∃ (s : Seg) (fst : List (Bytes × Nat)), Seg.Readable s ∧ Seg.NormsPositive s ∧
      ([102], fst) ∈ s.fields ∧
      dictIter v0 s fst {} ≠ .ok (fst.map (fun e => (e.1, trueCount s e.2))) := by
  refine ⟨{ fields := [([102], [([97], encode1Hit 3 7), ([98], 40)])],
            store := fun o => if o = 40 then some { freqOffset := 10, locOffset := 5, docs := [1, 2, 5] }
                              else none,
            chunkMode := 1025, numDocs := 6 },
          [([97], encode1Hit 3 7), ([98], 40)], ?_, ?_, ?_, ?_⟩
  · refine ⟨by decide, ?_⟩
    intro fe hfe e he
    simp at hfe; subst hfe
    simp at he
    rcases he with rfl | rfl
    · exact Or.inl (is1Hit_encode 3 7)
    · right; simp
  · intro fe hfe e he h1
    simp at hfe; subst hfe
    simp at he
    rcases he with rfl | rfl
    · simp [decode_encode1Hit 3 7 (by decide) (by decide)]
    · exact absurd h1 (by decide)
  · simp
  · decide

/-! ### C13: a reused postings list is indistinguishable from a fresh one -/

theorem C13_list_reuse (s : Seg) (hr : Seg.Readable s) (f t : Bytes) (except : Option (List Nat))
    (rv : PL) :
    Res.map (observe fixed) (postingsList fixed s (dictionary s f) t except (some rv)) =
    Res.map (observe fixed) (postingsList fixed s (dictionary s f) t except none) := by
  unfold postingsList
  cases hb : (dictionary s f).fst.bind (fun fst => fstGet fst t) with
  | none =>
    cases hp : rv.postings <;>
      simp [Res.map, observe, postingsListInit, hp, count, orInto, iterDocs, fixed]
  | some v =>
    cases hp : rv.postings with
    | none => simp [postingsListInit, hp]
    | some ds =>
      simp only [postingsListInit, hp, Option.map_some]
      cases h1 : is1Hit v with
      | true =>
        rw [read_1hit _ _ _ _ h1, read_1hit _ _ _ _ h1]
        by_cases hnz : (decode1Hit v).2 = 0 <;>
          simp [Res.map, observe, count, orInto, iterDocs, fixed, hnz]
      | false =>
        cases hs : s.store v with
        | none => rw [read_unreadable _ _ _ _ h1 hs, read_unreadable _ _ _ _ h1 hs]
        | some r =>
          cases hc : getChunkSize s.chunkMode r.docs.length s.numDocs <;>
            simp [Dict.read, h1, hs, hc, Res.map]

/-- … and what is observed is the truth: count, documents, iterator -/
theorem C13_list_correct (s : Seg) (hr : Seg.Readable s) (hn : Seg.NormsPositive s) (f t : Bytes)
    (rv : Option PL) :
    ∃ p, postingsList fixed s (dictionary s f) t none rv = .ok p ∧
      let docs := match (dictionary s f).fst.bind (fun fst => fstGet fst t) with
        | none => []
        | some v => trueDocs s v
      count p = docs.length ∧ orInto p = docs ∧ iterDocs fixed p = .ok docs := by
  unfold postingsList
  cases hb : (dictionary s f).fst.bind (fun fst => fstGet fst t) with
  | none =>
    cases rv with
    | none => exact ⟨_, rfl, by simp [count], by simp [orInto], by simp [iterDocs]⟩
    | some rv =>
      refine ⟨_, rfl, ?_, ?_, ?_⟩ <;>
        cases hp : rv.postings <;> simp [postingsListInit, hp, count, orInto, iterDocs, fixed]
  | some v =>
    cases hd : (dictionary s f).fst with
    | none => simp [hd] at hb
    | some fst =>
      obtain ⟨hseg, fe, hfe, hfst⟩ := dictionary_some s f fst hd
      have hg : fstGet fst t = some v := by simpa [hd] using hb
      obtain ⟨e, he, hev⟩ := fstGet_mem fst t v hg
      have hok := entriesOk_of_mem s hr hn fe hfe e (hfst ▸ he)
      rw [hev] at hok
      obtain ⟨p', hrd, hex, hhs, hc, ho, hi⟩ :=
        read_fixed_spec s hr.1 (postingsListInit (dictionary s f).hasSeg rv none) v hok.1 hok.2
      have hex' : p'.except = none := by rw [hex]; cases rv <;> rfl
      have hhs' : p'.hasSeg = true := by rw [hhs, ← hseg]; cases rv <;> rfl
      refine ⟨p', hrd, ?_, ho, hi hex' hhs'⟩
      rw [hc hex']
      exact trueCount_eq_length s v

/-- before fix 6e88f49: a used list handed to a lookup in an unknown field came back with a
    bitmap but no segment; its Iterator dereferenced nil -/
theorem C13_v0_counterexample :
    ∃ (s : Seg) (rv : PL),
      Res.map (observe v0) (postingsList v0 s (dictionary s [120]) [97] none (some rv)) ≠
      Res.map (observe v0) (postingsList v0 s (dictionary s [120]) [97] none none) := by
  refine ⟨{ fields := [], store := fun _ => none, chunkMode := 0, numDocs := 0 },
          { postings := some [1] }, ?_⟩
  simp [postingsList, dictionary, postingsListInit, Res.map, observe, iterDocs, v0]

/-! ### C18: DocsMatchingTerms is the union over the listed pairs -/

def docsOf (s : Seg) (f t : Bytes) : List Nat :=
  match (dictionary s f).fst.bind (fun fst => fstGet fst t) with
  | none => []
  | some v => trueDocs s v

/-- the cache of `DocsMatchingTerms` is transparent: it only ever holds `dictionary s lf` -/
theorem docsMatchingFixed_cons (s : Seg) (f t : Bytes) (r : List (Bytes × Bytes))
    (cache : Option (Bytes × Dictionary))
    (hc : ∀ lf d, cache = some (lf, d) → d = dictionary s lf) (acc : List Nat) :
    docsMatchingFixed s ((f, t) :: r) cache acc =
      match (dictionary s f).fst with
      | none => docsMatchingFixed s r (some (f, dictionary s f)) acc
      | some _ =>
        match postingsList fixed s (dictionary s f) t none none with
        | .ok pl => docsMatchingFixed s r (some (f, dictionary s f)) (acc ++ orInto pl)
        | .err => .err
        | .panic => .panic := by
  cases cache with
  | none => simp only [docsMatchingFixed]; rfl
  | some c =>
    obtain ⟨lf, d⟩ := c
    have hd := hc lf d rfl
    subst hd
    by_cases h : lf = f
    · subst h; simp only [docsMatchingFixed, beq_self_eq_true, if_true]; rfl
    · have h' : (lf == f) = false := by simpa using h
      simp only [docsMatchingFixed, h', Bool.false_eq_true, if_false]; rfl

theorem docsMatchingFixed_gen (s : Seg) (hr : Seg.Readable s) (hn : Seg.NormsPositive s)
    (ts : List (Bytes × Bytes)) (cache : Option (Bytes × Dictionary))
    (hc : ∀ lf d, cache = some (lf, d) → d = dictionary s lf) (acc : List Nat) :
    docsMatchingFixed s ts cache acc =
      .ok (acc ++ ts.flatMap (fun ft => docsOf s ft.1 ft.2)) := by
  induction ts generalizing cache acc with
  | nil => simp [docsMatchingFixed]
  | cons ft r ih =>
    obtain ⟨f, t⟩ := ft
    have hc' : ∀ lf d, some (f, dictionary s f) = some (lf, d) → d = dictionary s lf := by
      intro lf d h; cases h; rfl
    rw [docsMatchingFixed_cons s f t r cache hc acc]
    cases hfst : (dictionary s f).fst with
    | none =>
      simp only []
      rw [ih _ hc']
      simp [docsOf, hfst]
    | some fst =>
      obtain ⟨p, hp, _, ho, _⟩ := C13_list_correct s hr hn f t none
      simp only [hp]
      rw [ih _ hc']
      simp [docsOf, ho, List.append_assoc]

theorem C18_union (s : Seg) (hr : Seg.Readable s) (hn : Seg.NormsPositive s)
    (ts : List (Bytes × Bytes)) :
    docsMatchingFixed s ts none [] = .ok (ts.flatMap (fun ft => docsOf s ft.1 ft.2)) := by
  simpa using docsMatchingFixed_gen s hr hn ts none (by simp) []

/-- before fix 0f30b10 any list naming an unknown field - or starting with the empty field name -
    panicked -/
theorem C18_v0_unknown_field (s : Seg) (f t : Bytes) (r : List (Bytes × Bytes))
    (hf : ∀ fe ∈ s.fields, fe.1 ≠ f) (hne : f ≠ []) :
    docsMatchingV0 s ((f, t) :: r) [] none [] = .panic := by
  have hne' : (f != []) = true := by simpa using hne
  simp [docsMatchingV0, hne', dictionary_unknown s f hf]

theorem C18_v0_empty_first (s : Seg) (t : Bytes) (r : List (Bytes × Bytes)) :
    docsMatchingV0 s (([], t) :: r) [] none [] = .panic := by
  simp [docsMatchingV0]

/-- non-vacuity: a readable segment with a 1-hit and a general term -/
def exSeg : Seg :=
  { fields := [([102], [([97], encode1Hit 3 7), ([98], 40)])],
    store := fun o => if o = 40 then some { freqOffset := 10, locOffset := 5, docs := [1, 2, 5] } else none,
    chunkMode := 1025, numDocs := 6 }

example : Seg.Readable exSeg ∧ Seg.NormsPositive exSeg := by
  refine ⟨⟨by decide, ?_⟩, ?_⟩
  · intro fe hfe e he
    simp [exSeg] at hfe; subst hfe
    simp at he
    rcases he with rfl | rfl
    · exact Or.inl (is1Hit_encode 3 7)
    · right; simp [exSeg]
  · intro fe hfe e he h1
    simp [exSeg] at hfe; subst hfe
    simp at he
    rcases he with rfl | rfl
    · simp [decode_encode1Hit 3 7 (by decide) (by decide)]
    · exact absurd h1 (by decide)

example : dictIter fixed exSeg [([97], encode1Hit 3 7), ([98], 40)] {} = .ok [([97], 1), ([98], 3)] := by
  decide

end Ice.Props.C08
