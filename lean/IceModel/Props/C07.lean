import IceModel.Model.DocValues
import IceModel.Lemmas.DocValues
/-
  Property C07: for every field indexed with doc values, a DocumentValueReader delivers, for any
  document visited in any order, exactly that document's terms in that field in sorted order, and
  nothing for fields without doc values or documents without terms.

  Proved here for the model of one field's column (`IceModel/Model/DocValues.lean`):
    * the chunked content coder in both modes (builder: non-progressive, merger: progressive),
    * `loadFieldDocValueReader` on the bytes it wrote, placed anywhere in a file,
    * the stateful reader (`loadDvChunk`, `getDocValueLocs` with the binary search, `visitDocValues`
      with its one-chunk cache and the lazily decompressed copy) under every sequence of visits.
  The abstract input `vals` lists (docNum, terms) for the documents that have terms, ascending by
  document number, terms in the order the builder emits them (ascending).  "Sorted order" is the
  order of that list: the reader returns the list itself.

  The readers of a `DocumentValueReader` for several fields are independent per-field readers
  (docvalues.go:297-311), so the statement for a subset of fields is the conjunction of the
  per-field statements; a field without doc values has the nil reader (`C07_no_docvalues`).
-/
namespace Ice.Props.C07
open Ice Ice.Model Ice.Model.DocValues

/-- total number of bytes of the field's encoded documents (terms plus one separator each) -/
def rawSize (vals : List (Nat × List Bytes)) : Nat := (dataOf (encVals vals)).length

/-- the input contract: chunk size positive (Go: 1024), documents ascending and inside the segment,
    sizes inside uint64 / int, no term contains the separator byte 0xff -/
structure Valid (cs maxDocNum : Nat) (vals : List (Nat × List Bytes)) : Prop where
  cs_pos : 0 < cs
  asc : vals.Pairwise (fun a b => a.1 < b.1)
  max : ∀ q ∈ vals, q.1 ≤ maxDocNum
  maxDoc : maxDocNum < 2 ^ 63 - 1
  raw : rawSize vals < 2 ^ 64 - 1
  noSep : ∀ q ∈ vals, NoSep q.2

/-- who wrote the column -/
inductive Mode where
  | builder     -- new.go: non-progressive coder, start offset read after Close
  | merger      -- merge.go: progressive coder, start offset read before the first chunk
deriving DecidableEq, Repr

/-- bytes written, start offset, end offset -/
def writeField (m : Mode) (z : Codec) (cs maxDocNum count : Nat) (vals : List (Nat × List Bytes)) :
    Res (Bytes × Nat × Nat) :=
  match m with
  | .builder => buildField z cs maxDocNum count (encVals vals)
  | .merger => mergeField z cs maxDocNum count (encVals vals)

/-! ### the separator split -/

/-- cutting `term₁ 0xff term₂ 0xff …` at the separators returns the terms -/
theorem C07_split (terms : List Bytes) (h : NoSep terms) : splitSep (docBytes terms) [] = terms :=
  splitSep_docBytes terms h

/-- … and the hypothesis is necessary: a term containing 0xff is delivered in pieces -/
theorem C07_split_needs_NoSep : ¬ ∀ terms : List Bytes, splitSep (docBytes terms) [] = terms := by
  intro h
  have := h [[1, 255, 2]]
  revert this
  decide

example : splitSep (docBytes [[1, 255, 2]]) [] = [[1], [2]] := by decide

/-! ### both layouts -/

theorem validVals_encVals {cs maxDocNum : Nat} {vals : List (Nat × List Bytes)}
    (hv : Valid cs maxDocNum vals) : ValidVals cs maxDocNum (encVals vals) := by
  refine ⟨hv.cs_pos, ?_, ?_, hv.maxDoc, hv.raw⟩
  · unfold encVals; rw [List.pairwise_map]; exact hv.asc
  · intro q hq
    unfold encVals at hq
    obtain ⟨p, hp, e⟩ := List.mem_map.mp hq
    subst e; exact hv.max p hp

/-- the column as the reader will see it: the closed form of the coder's output, and the byte
    strings it was fed (the builder skips empty ones) -/
def fed (m : Mode) (vals : List (Nat × List Bytes)) : List (Nat × Bytes) :=
  match m with
  | .builder => (encVals vals).filter (fun p => p.2.length > 0)
  | .merger => encVals vals

theorem writeField_eq (m : Mode) (z : Codec) {cs maxDocNum : Nat} {vals : List (Nat × List Bytes)}
    (hv : Valid cs maxDocNum vals) (count : Nat) :
    writeField m z cs maxDocNum count vals =
      .ok (sectionOf (chunksOf z cs (maxDocNum / cs + 1) (fed m vals)), count,
           count + (sectionOf (chunksOf z cs (maxDocNum / cs + 1) (fed m vals))).length) := by
  have hb := validVals_encVals hv
  have hn : maxDocNum / cs + 1 < 2 ^ 64 := by
    have := hv.maxDoc
    have : maxDocNum / cs ≤ maxDocNum := Nat.div_le_self _ _
    omega
  cases m with
  | builder => exact buildField_eq z cs maxDocNum count hb.cs_pos hn _ hb.asc hb.max
  | merger => exact mergeField_eq z cs maxDocNum count hb.cs_pos hn _ hb.asc hb.max

/-- C07_progressive (writer half): in both modes the coder never fails, the recorded start offset
    is the position before the first chunk and the end offset the position behind the section. -/
theorem C07_progressive (m : Mode) (z : Codec) {cs maxDocNum : Nat}
    {vals : List (Nat × List Bytes)} (hv : Valid cs maxDocNum vals) (count : Nat) :
    ∃ sec, writeField m z cs maxDocNum count vals = .ok (sec, count, count + sec.length) :=
  ⟨_, writeField_eq m z hv count⟩

/-- when every listed document has a term (the builder's situation) the two modes write the same
    bytes -/
theorem C07_progressive_same_bytes (z : Codec) {cs maxDocNum : Nat}
    {vals : List (Nat × List Bytes)} (hv : Valid cs maxDocNum vals)
    (hne : ∀ q ∈ vals, q.2 ≠ []) (count : Nat) :
    writeField .builder z cs maxDocNum count vals = writeField .merger z cs maxDocNum count vals := by
  rw [writeField_eq .builder z hv, writeField_eq .merger z hv]
  have : fed .builder vals = fed .merger vals := by
    unfold fed
    rw [List.filter_eq_self]
    intro p hp
    unfold encVals at hp
    obtain ⟨q, hq, e⟩ := List.mem_map.mp hp
    subst e
    have := hne q hq
    cases hts : q.2 with
    | nil => exact absurd hts this
    | cons t ts => simp [docBytes]; omega
  rw [this]

/-! ### the reader -/

private theorem fed_valid (m : Mode) {cs maxDocNum : Nat} {vals : List (Nat × List Bytes)}
    (hv : Valid cs maxDocNum vals) :
    ValidVals cs maxDocNum (fed m vals) ∧
    ∀ d, splitSep (bytesOf (fed m vals) d) [] = termsOf vals d := by
  have hb := validVals_encVals hv
  cases m with
  | builder =>
    refine ⟨hb.filter _, fun d => ?_⟩
    unfold fed
    rw [bytesOf_filter_nonempty _ hb.asc]
    exact splitSep_bytesOf_encVals vals hv.noSep d
  | merger => exact ⟨hb, fun d => splitSep_bytesOf_encVals vals hv.noSep d⟩

/-- everything the theorems below need, for a file holding the written section anywhere -/
private theorem core (m : Mode) (z : Codec) {cs maxDocNum : Nat} {vals : List (Nat × List Bytes)}
    (hv : Valid cs maxDocNum vals) (file : Data) (pre suf sec : Bytes) (dvStart dvEnd : Nat)
    (hw : writeField m z cs maxDocNum pre.length vals = .ok (sec, dvStart, dvEnd))
    (hfile : file.bytes = pre ++ sec ++ suf) (hsuf : 10 ≤ suf.length)
    (hlen : file.bytes.length < 2 ^ 63) :
    DocValues.Layout file pre (chunksOf z cs (maxDocNum / cs + 1) (fed m vals)) suf ∧
    ∃ r0, loadFieldDocValueReader file dvStart dvEnd = .ok (some r0) ∧
      r0.chunkOffsets.length = maxDocNum / cs + 1 ∧ r0.curChunkNum = maxInt64 ∧
      Inv z cs maxDocNum (fed m vals) pre r0 := by
  rw [writeField_eq m z hv] at hw
  simp only [Res.ok.injEq, Prod.mk.injEq] at hw
  obtain ⟨h1, h2, h3⟩ := hw
  subst h1; subst h2; subst h3
  exact reader_opens z (fed_valid m hv).1 file pre suf hfile hsuf hlen

/-- C07_roundtrip: the reader opens on what either writer wrote, wherever the section lies in the
    file (at least ten bytes follow it: in a segment the footer alone has 44), with one end offset
    per chunk and an empty cache. -/
theorem C07_roundtrip (m : Mode) (z : Codec) {cs maxDocNum : Nat} {vals : List (Nat × List Bytes)}
    (hv : Valid cs maxDocNum vals) (file : Data) (pre suf sec : Bytes) (dvStart dvEnd : Nat)
    (hw : writeField m z cs maxDocNum pre.length vals = .ok (sec, dvStart, dvEnd))
    (hfile : file.bytes = pre ++ sec ++ suf) (hsuf : 10 ≤ suf.length)
    (hlen : file.bytes.length < 2 ^ 63) :
    ∃ r0, loadFieldDocValueReader file dvStart dvEnd = .ok (some r0) ∧
      r0.chunkOffsets.length = maxDocNum / cs + 1 ∧ r0.curChunkNum = maxInt64 ∧
      r0.curChunkHeader = [] ∧ r0.curChunkData = none ∧ r0.uncompressed = [] ∧
      r0.dvDataLoc = dvStart := by
  obtain ⟨L, r0, hload, hlen0, hcn, _⟩ := core m z hv file pre suf sec dvStart dvEnd hw hfile hsuf hlen
  have hload' := hload
  rw [writeField_eq m z hv] at hw
  simp only [Res.ok.injEq, Prod.mk.injEq] at hw
  obtain ⟨h1, h2, h3⟩ := hw
  subst h1; subst h2; subst h3
  rw [L.load (by rw [chunksOf_length]; have := hv.maxDoc
                 have : maxDocNum / cs ≤ maxDocNum := Nat.div_le_self _ _
                 omega)] at hload'
  simp only [Res.ok.injEq, Option.some.injEq] at hload'
  subst hload'
  exact ⟨_, hload, hlen0, hcn, rfl, rfl, rfl, rfl⟩

/-- C07_visit_any_order: every sequence of visits (any order, repetitions) on the opened reader
    succeeds and delivers, visit by visit, exactly the terms of the visited document, and nothing
    for a document without terms. -/
theorem C07_visit_any_order (m : Mode) (z : Codec) {cs maxDocNum : Nat}
    {vals : List (Nat × List Bytes)} (hv : Valid cs maxDocNum vals) (file : Data)
    (pre suf sec : Bytes) (dvStart dvEnd : Nat)
    (hw : writeField m z cs maxDocNum pre.length vals = .ok (sec, dvStart, dvEnd))
    (hfile : file.bytes = pre ++ sec ++ suf) (hsuf : 10 ≤ suf.length)
    (hlen : file.bytes.length < 2 ^ 63)
    (r0 : Reader) (hload : loadFieldDocValueReader file dvStart dvEnd = .ok (some r0))
    (ds : List Nat) (hds : ∀ d ∈ ds, d ≤ maxDocNum) :
    ∃ r', Reader.visitAll z file cs r0 ds = .ok (ds.map (termsOf vals), r') := by
  obtain ⟨L, r0', hload', _, _, hinv⟩ := core m z hv file pre suf sec dvStart dvEnd hw hfile hsuf hlen
  rw [hload] at hload'
  simp only [Res.ok.injEq, Option.some.injEq] at hload'
  subst hload'
  obtain ⟨hval, hterms⟩ := fed_valid m hv
  obtain ⟨r', hvis, _⟩ := visitAll_spec z hval L ds r0 hinv hds
  refine ⟨r', ?_⟩
  rw [hvis]
  congr 2
  exact List.map_congr_left (fun d _ => hterms d)

/-- … and the same holds for a reader cloned (`cloneInto`) from the reader in whatever state an
    earlier sequence of visits left it. -/
theorem C07_visit_after_clone (m : Mode) (z : Codec) {cs maxDocNum : Nat}
    {vals : List (Nat × List Bytes)} (hv : Valid cs maxDocNum vals) (file : Data)
    (pre suf sec : Bytes) (dvStart dvEnd : Nat)
    (hw : writeField m z cs maxDocNum pre.length vals = .ok (sec, dvStart, dvEnd))
    (hfile : file.bytes = pre ++ sec ++ suf) (hsuf : 10 ≤ suf.length)
    (hlen : file.bytes.length < 2 ^ 63)
    (r0 : Reader) (hload : loadFieldDocValueReader file dvStart dvEnd = .ok (some r0))
    (ds1 : List Nat) (hds1 : ∀ d ∈ ds1, d ≤ maxDocNum) (out1 : List (List Bytes)) (r1 : Reader)
    (h1 : Reader.visitAll z file cs r0 ds1 = .ok (out1, r1))
    (ds2 : List Nat) (hds2 : ∀ d ∈ ds2, d ≤ maxDocNum) :
    ∃ r2, Reader.visitAll z file cs r1.clone ds2 = .ok (ds2.map (termsOf vals), r2) := by
  obtain ⟨L, r0', hload', _, _, hinv⟩ := core m z hv file pre suf sec dvStart dvEnd hw hfile hsuf hlen
  rw [hload] at hload'
  simp only [Res.ok.injEq, Option.some.injEq] at hload'
  subst hload'
  obtain ⟨hval, hterms⟩ := fed_valid m hv
  obtain ⟨r1', hvis1, hinv1⟩ := visitAll_spec z hval L ds1 r0 hinv hds1
  rw [h1] at hvis1
  simp only [Res.ok.injEq, Prod.mk.injEq] at hvis1
  obtain ⟨_, e⟩ := hvis1
  subst e
  have hinvc := inv_clone z cs maxDocNum (fed m vals) pre hv.maxDoc r1 hinv1
  obtain ⟨r2, hvis2, _⟩ := visitAll_spec z hval L ds2 r1.clone hinvc hds2
  refine ⟨r2, ?_⟩
  rw [hvis2]
  congr 2
  exact List.map_congr_left (fun d _ => hterms d)

/-- a field without doc values (`fieldNotUninverted`) has the nil reader: nothing is delivered -/
theorem C07_no_docvalues (file : Data) (dvEnd : Nat) :
    loadFieldDocValueReader file (2 ^ 64 - 1) dvEnd = .ok none := by
  simp [loadFieldDocValueReader, maxUint64]

/-- `sort.Search` (the binary search itself is modelled) with the closure of `getDocValueLocs`
    returns, on a header ascending by document number, what the linear search returns: the first
    index whose document number is `≥ d` -/
theorem C07_search_is_linear (H : List (Nat × Nat)) (hs : H.Pairwise (fun a b => a.1 ≤ b.1))
    (d : Nat) : sortSearch H.length (hdrGe H d) = H.findIdx (fun m => decide (m.1 ≥ d)) :=
  sortSearch_eq_findIdx H hs d

/-! ### a concrete instance

  chunk size 2, documents 0..7; documents 4, 5 and 7 have terms, so chunk 0 is flushed empty,
  chunk 1 is never flushed (length 0), chunks 2 and 3 hold data.  The toy codec reverses the block
  and puts a marker byte in front, so compressed and decompressed bytes differ. -/

def exCodec : Codec where
  Z := fun b => if b = [] then [] else 7 :: b.reverse
  unZ := fun b =>
    match b with
    | [] => some []
    | 7 :: r => some r.reverse
    | _ => none
  rt := by intro b; cases b <;> simp
  z_nil := rfl

def exVals : List (Nat × List Bytes) := [(4, [[1], [2, 3]]), (5, [[9]]), (7, [[]])]
def exPre : Bytes := [42, 42, 42]
def exSuf : Bytes := List.replicate 10 99

/-- the section both writers produce for it -/
def exSec : Bytes :=
  [0, 2, 4, 5, 1, 2, 7, 255, 9, 255, 3, 2, 255, 1, 1, 7, 1, 7, 255, 1, 1, 14, 19,
   0, 0, 0, 0, 0, 0, 0, 4, 0, 0, 0, 0, 0, 0, 0, 4]

def exFile (mem : Bool) : Data := { bytes := exPre ++ exSec ++ exSuf, mem := mem }

theorem exValid : Valid 2 7 exVals := by
  refine ⟨by decide, by simp [exVals], by simp [exVals], by decide, ?_, ?_⟩
  · simp [rawSize, exVals, encVals, dataOf, docBytes]
  · intro q hq
    simp only [exVals, List.mem_cons, List.not_mem_nil, or_false] at hq
    rcases hq with h | h | h <;> subst h <;> intro t ht <;> simp at ht <;>
      (try rcases ht with h | h) <;> subst_vars <;> simp

/-- both writers produce `exSec` and record the offsets 3 and 42 -/
example : writeField .builder exCodec 2 7 3 exVals = .ok (exSec, 3, 42) := by
  simp [writeField, buildField, Coder.new, addAll, Coder.add, Coder.flush, Coder.write, exVals,
    encVals, docBytes, two64, putUvarint_small, encDeltas, sub64, add64, endOffsets, exCodec,
    Writer.be, exSec]

example : writeField .merger exCodec 2 7 3 exVals = .ok (exSec, 3, 42) := by
  simp [writeField, mergeField, Coder.new, addAll, Coder.add, Coder.flush, Coder.write, exVals,
    encVals, docBytes, two64, putUvarint_small, encDeltas, sub64, add64, endOffsets, exCodec,
    Writer.be, exSec]

/-- the reader opened on it: four chunk end offsets (chunk 0 is the 1-byte empty header, chunk 1
    has length 0), nothing cached -/
def exR0 : Reader :=
  { curChunkNum := maxInt64, chunkOffsets := [1, 1, 14, 19], dvDataLoc := 3,
    curChunkHeader := [], curChunkData := none, uncompressed := [] }

example : loadFieldDocValueReader (exFile true) 3 42 = .ok (some exR0) := by decide
example : loadFieldDocValueReader (exFile false) 3 42 = .ok (some exR0) := by decide

/-- visits in a scrambled order with repetitions, evaluated by the kernel: backwards across chunks,
    into the empty leading chunk and the unflushed chunk, and back into a chunk visited before -/
example :
    Reader.visitAll exCodec (exFile false) 2 exR0 [7, 4, 5, 0, 1, 2, 3, 6, 4, 5, 7, 7] =
      .ok ([[[]], [[1], [2, 3]], [[9]], [], [], [], [], [], [[1], [2, 3]], [[9]], [[]], [[]]],
           { curChunkNum := 3, chunkOffsets := [1, 1, 14, 19], dvDataLoc := 3,
             curChunkHeader := [(7, 1)], curChunkData := some [7, 255],
             uncompressed := [255] }) := by
  decide

/-- the same instance through the theorem: any order of visits whatsoever -/
example (mem : Bool) (ds : List Nat) (hds : ∀ d ∈ ds, d ≤ 7) :
    ∃ r', Reader.visitAll exCodec (exFile mem) 2 exR0 ds = .ok (ds.map (termsOf exVals), r') := by
  refine C07_visit_any_order .builder exCodec exValid (exFile mem) exPre exSuf exSec 3 42 ?_ rfl
    (by decide) (by show (exPre ++ exSec ++ exSuf).length < 2 ^ 63; decide) exR0 ?_ ds hds
  · simp [writeField, buildField, Coder.new, addAll, Coder.add, Coder.flush, Coder.write, exVals,
      encVals, docBytes, two64, putUvarint_small, encDeltas, sub64, add64, endOffsets, exCodec,
      Writer.be, exSec, exPre]
  · cases mem <;> decide

/-- a document outside the segment is outside the contract: the chunk index is out of range of
    the offsets and the Go code panics (readChunkBoundary, intcoder.go:197) -/
example : Reader.visitAll exCodec (exFile false) 2 exR0 [8] = .panic := by decide

end Ice.Props.C07
