import IceModel.Model.Conc
import IceModel.Lemmas.Conc
/-
  Property C09 (concurrent and re-entrant readers) and C19 (a failed storage read never wedges the
  segment) on the concurrency model: any number of threads, any programs (with arbitrary nesting
  of operations inside visitor callbacks), any schedule, any storage-fault pattern.
-/
namespace Ice.Props.C09
open Ice.Model.Conc

/-- storage that never fails -/
def healthy : Nat → Bool := fun _ => false

/-- C09(a): on healthy storage every completed operation returned exactly what it returns alone,
    whatever the other threads did and however the scheduler interleaved them -/
theorem C09_results (w : World) (progs : List (List Op)) (σ : List Tid) :
    ∀ th ∈ (run fixed w healthy (init progs) σ).ths, ∀ e ∈ th.log, e.2 = alone w e.1 := by
  intro th hth e he
  obtain ⟨t, ht⟩ := List.mem_iff_getElem?.1 hth
  rcases ((inv_reach w healthy progs σ).thread t th ht).log e he with ⟨h | ⟨⟨i, hi⟩, _⟩, _⟩
  · exact h
  · simp [healthy] at hi

/-- forget the nested operations of the visits of a program -/
abbrev flatProg (p : List Op) : List Op := p.map Op.flat

/-
  FALSE AS STATED (a completed visit is logged as `.visit n nested` with the frame's *remaining*
  nested list, which is `[]` at completion, not with the program's nested list); refuted below by
  `C09_log_prefix_false`, replaced by `C09_log_prefix_partial`:

  theorem C09_log_prefix (w : World) (fails : Nat → Bool) (progs : List (List Op)) (σ : List Tid)
      (t : Nat) (th : Thread) (p : List Op)
      (ht : (run fixed w fails (init progs) σ).ths[t]? = some th) (hp : progs[t]? = some p) :
      (th.log.map (·.1)) <+: p
-/

/-- operations of a thread complete in program order - modulo the nested lists of visits: the
    logged operations are a prefix of the program with every `visit n nested` replaced by
    `visit n []` (strongest true variant of `C09_log_prefix`) -/
theorem C09_log_prefix_partial (w : World) (fails : Nat → Bool) (progs : List (List Op)) (σ : List Tid)
    (t : Nat) (th : Thread) (p : List Op)
    (ht : (run fixed w fails (init progs) σ).ths[t]? = some th) (hp : progs[t]? = some p) :
    (th.log.map (·.1)) <+: flatProg p := by
  have hI := inv_reach w fails progs σ
  have h1 := hI.prog t th p ht hp
  have h2 : th.log.map (fun e => e.1.flat) = th.log.map (·.1) :=
    List.map_congr_left (fun e he => ((hI.thread t th ht).log e he).2)
  unfold ProgInv at h1
  rw [h2, List.append_assoc] at h1
  exact ⟨_, h1⟩

/-- the original statement holds for programs whose top-level visits have no nested operations -/
theorem C09_log_prefix_flat (w : World) (fails : Nat → Bool) (progs : List (List Op)) (σ : List Tid)
    (t : Nat) (th : Thread) (p : List Op)
    (ht : (run fixed w fails (init progs) σ).ths[t]? = some th) (hp : progs[t]? = some p)
    (hflat : ∀ op ∈ p, op.flat = op) :
    (th.log.map (·.1)) <+: p := by
  have h := C09_log_prefix_partial w fails progs σ t th p ht hp
  have : flatProg p = p := by
    unfold flatProg
    rw [List.map_congr_left hflat, List.map_id']
  rwa [this] at h

/-- C09(b): no reachable configuration has two threads about to touch the same shared location
    with at least one write (all accesses to the FST cache happen under the mutex; the stored-field
    path has no shared location any more) -/
theorem C09_norace (w : World) (fails : Nat → Bool) (progs : List (List Op)) (σ : List Tid) :
    ¬ Race fixed (run fixed w fails (init progs) σ) := by
  rintro ⟨t1, t2, th1, th2, l, w1, w2, hne, h1, h2, ha1, ha2, _⟩
  have hI := inv_reach w fails progs σ
  have key : ∀ (th : Thread) (l : Loc) (b : Bool), nextAccess fixed th = some (l, b) → Holds th.stack := by
    intro th l b h
    obtain ⟨stack, todo, log⟩ := th
    unfold nextAccess at h
    split at h <;> simp_all [Holds, fixed]
  have e1 := (hI.mutex t1 th1 h1).1 (key th1 l w1 ha1)
  have e2 := (hI.mutex t2 th2 h2).1 (key th2 l w2 ha2)
  rw [e1] at e2
  exact hne (Option.some.inj e2)

/-- C19 / deadlock freedom: whatever storage reads failed, as long as some thread has work left,
    some thread can take a step (the mutex is never left held by a finished call) -/
theorem C19_never_stuck (w : World) (fails : Nat → Bool) (progs : List (List Op)) (σ : List Tid) :
    ¬ Stuck fixed w fails (run fixed w fails (init progs) σ) := by
  rintro ⟨⟨t, th, ht, hwork⟩, hall⟩
  have hI := inv_reach w fails progs σ
  generalize run fixed w fails (init progs) σ = c at *
  cases hmx : c.sh.mutex with
  | none =>
    rcases step_none (hall t th ht) with ⟨h1, h2⟩ | ⟨h, _⟩
    · rcases hwork with h | h <;> contradiction
    · simp [hmx] at h
  | some o =>
    have hlt := hI.owner o hmx
    have ho : c.ths[o]? = some c.ths[o] := List.getElem?_eq_getElem hlt
    have hh := (hI.mutex o _ ho).2 hmx
    rcases step_none (hall o _ ho) with ⟨h1, _⟩ | ⟨_, f, r, up, h⟩
    · rw [h1] at hh; exact hh
    · rw [h] at hh; simp [Holds] at hh

/-- C19: under storage faults every completed operation returned its solo result or, for a
    dictionary lookup, an error -/
theorem C19_results (w : World) (fails : Nat → Bool) (progs : List (List Op)) (σ : List Tid) :
    ∀ th ∈ (run fixed w fails (init progs) σ).ths, ∀ e ∈ th.log,
      e.2 = alone w e.1 ∨ (∃ f, e.1 = .dict f ∧ e.2 = .dictErr) := by
  intro th hth e he
  obtain ⟨t, ht⟩ := List.mem_iff_getElem?.1 hth
  rcases ((inv_reach w fails progs σ).thread t th ht).log e he with ⟨h | ⟨_, h⟩, _⟩
  · exact Or.inl h
  · exact Or.inr h

/-- C19: the mutex is held only by a thread that is inside the locked region of `dictionary` -/
theorem C19_mutex_owner (w : World) (fails : Nat → Bool) (progs : List (List Op)) (σ : List Tid)
    (t : Tid) (h : (run fixed w fails (init progs) σ).sh.mutex = some t) :
    ∃ th, (run fixed w fails (init progs) σ).ths[t]? = some th ∧
      ∃ f pc r up, th.stack = .dict f pc r :: up ∧ 1 ≤ pc := by
  have hI := inv_reach w fails progs σ
  generalize run fixed w fails (init progs) σ = c at *
  have hlt := hI.owner t h
  have ho : c.ths[t]? = some c.ths[t] := List.getElem?_eq_getElem hlt
  have hh := (hI.mutex t _ ho).2 h
  refine ⟨_, ho, ?_⟩
  generalize c.ths[t] = th at *
  obtain ⟨stack, todo, log⟩ := th
  cases stack with
  | nil => exact hh.elim
  | cons fr up =>
    cases fr with
    | dict f pc r => exact ⟨f, pc, r, up, rfl, hh⟩
    | visit n pc buf nested => exact hh.elim

/-! ### the repaired defects, on the model of the code before the fixes -/

def w0 : World := { F := fun f => 100 + f, B := fun n => 200 + n }

/-- the counterexample to `C09_log_prefix` as originally stated: one thread, program
    `[visit 1 [dict 0]]`, run to completion - the log is `[visit 1 []]` -/
theorem C09_log_prefix_false :
    ¬ ∀ (w : World) (fails : Nat → Bool) (progs : List (List Op)) (σ : List Tid)
        (t : Nat) (th : Thread) (p : List Op),
        (run fixed w fails (init progs) σ).ths[t]? = some th → progs[t]? = some p →
        (th.log.map (·.1)) <+: p := by
  intro h
  have := h w0 healthy [[.visit 1 [.dict 0]]] (List.replicate 12 0) 0 _ _ rfl rfl
  obtain ⟨r, hr⟩ := this
  have h0 : (Op.visit 1 [] : Op) = .visit 1 [.dict 0] := (List.cons.inj hr).1
  simp at h0

/-- before f904785: a visit nested inside a visitor callback overwrote the outer visit's buffer -/
theorem C09_v0_reentrancy :
    ∃ σ, ∃ th ∈ (run v0 w0 healthy (init [[.visit 1 [.visit 2 []]]]) σ).ths,
      ∃ e ∈ th.log, e.2 ≠ alone w0 e.1 := by
  refine ⟨List.replicate 8 0, _, List.mem_cons_self, _, List.mem_cons_self, ?_⟩
  decide

/-- before f904785: two threads visiting different documents could see each other's block, and
    the accesses raced -/
theorem C09_v0_crosstalk :
    ∃ σ, ∃ th ∈ (run v0 w0 healthy (init [[.visit 1 []], [.visit 2 []]]) σ).ths,
      ∃ e ∈ th.log, e.2 ≠ alone w0 e.1 := by
  refine ⟨[0, 0, 1, 1, 0, 0], _, List.mem_cons_self, _, List.mem_cons_self, ?_⟩
  decide

theorem C09_v0_race :
    ∃ σ, Race v0 (run v0 w0 healthy (init [[.visit 1 []], [.visit 2 []]]) σ) := by
  exact ⟨[0, 1], 0, 1, _, _, .scratch, true, true, by decide, rfl, rfl, rfl, rfl, Or.inl rfl⟩

/-- before 8a73a25: a storage failure inside `dictionary` left the mutex held; the next lookup
    (even by the same thread) waits for ever -/
theorem C19_v0_wedged :
    ∃ σ, Stuck v0 w0 (fun i => i == 0) (run v0 w0 (fun i => i == 0) (init [[.dict 1, .dict 1]]) σ) := by
  have hc : run v0 w0 (fun i => i == 0) (init [[.dict 1, .dict 1]]) [0, 0, 0, 0, 0] =
      { sh := { cache := [], mutex := some 0, scratch := 0, reads := 1 },
        ths := [{ stack := [.dict 1 0 none], todo := [], log := [(.dict 1, .dictErr)] }] } := rfl
  refine ⟨[0, 0, 0, 0, 0], ?_⟩
  rw [hc]
  refine ⟨⟨0, _, rfl, Or.inl (by simp)⟩, ?_⟩
  intro t th h
  match t, h with
  | 0, h =>
    cases h
    rfl
  | t + 1, h => simp at h

/-- non-vacuity: a schedule on which both threads finish with a warm and a cold cache lookup -/
example : ((run fixed w0 healthy (init [[.dict 1], [.dict 1]]) [0,0,1,0,0,0,0,0,1,1,1,1,1]).ths.map
    (fun th => th.log.map (·.2))) = [[.dictOk 101], [.dictOk 101]] := by
  rfl

end Ice.Props.C09
