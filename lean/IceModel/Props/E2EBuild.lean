import IceModel.Lemmas.E2EIter
import IceModel.Lemmas.E2EDv
import IceModel.Lemmas.E2ERaw
/-
  END TO END, builder path:  `New` + `WriteTo` + `load` + the byte-level readers = `Spec.build`.

  For every batch `b` inside the contract of `New` (`ValidBatch b`) and inside explicit numeric
  bounds (`Bounds nc b`), every map order `π` and norm function `nc`:
    * `Builder.run nc π b = .ok r` is the segment `interim.convert` builds (C01: it never fails),
    * `r.toLSeg mode` is what `convert` lays out (`Lemmas/E2EDefs.lean`), `serialize K (r.toLSeg mode)
      = .ok (data, ft)` the bytes it writes, `fileOf K data ft` the file `WriteTo` produces,
    * `load mem (fileOf K data ft) = .ok ld` the segment opened from that file, for BOTH backings,
  and every read API of `ld`, executed on the bytes by the byte-level models, returns what the
  specification `Spec.build nc mode b` says:

    E2E_layout   the description is the builder's: all terms `general`, doc values = `dvOfTerms`,
                 stored (id, value) pairs = `Builder.storedOut`; `toLSeg_raw`: terms = raw `FieldOut`
    E2E_valid    the description is a valid input of the container (`C04.Valid`)
    E2E_load     the file loads (both backings)
    E2E_fields   field list, per-field statistics, document count, chunk mode; `CollectionStats`
    E2E_dict     the FST of every field holds exactly `Spec.terms` in order; unknown ids: none
    E2E_iter     for every field, every term of it, every exclusion bitmap, flag triple and script
                 of `Next`/`Advance`: the byte-level `PostingsIterator` over the postings list that
                 `dictionary` + `PostingsList.read` set up answers exactly as the specification
                 iterator over `Spec.postings` (C04 ∘ C05Bytes ∘ C01), without error or panic
    E2E_stored   `VisitStoredFields(n)` delivers `Spec.stored … n` (names through `fieldsInv`),
                 cut at the visitor's stop; nothing beyond the count (C04 ∘ C06 ∘ C01)
    E2E_dv       the doc-value reader of a field delivers, for any sequence of visits,
                 `Spec.dvOf … n f`; a field without reader has no doc values (C04 ∘ C07 ∘ C01)
    E2E_read     all of it in one structure
    ex_*         a three-document batch for which every hypothesis holds (kernel-checked)

  HYPOTHESES (beyond `ValidBatch b`, `PermOK π`, which are C01's):
    `hmode : 1 ≤ mode ≤ 1025`   the chunk modes `getChunkSize` knows (chunk.go: legacy modes are
                                the chunk size itself - 0 divides by zero -, 1025 = chunkModeV1)
    `Bounds nc b`               see `Lemmas/E2EDefs.lean` (each field with its Go-level reason)
    `Sizes K L`                 what has to fit into memory and into the file, in the form
                                `C04.Valid` states it (incl. "the file is shorter than 2^62 bytes")
    `hs : serialize … = .ok …`  the writer succeeded (totality of `serialize` is not proved here)
  `K : Codecs` is any triple of codecs (zstd, roaring, vellum) with the round-trip laws of C04.
-/
namespace Ice.Props.E2E
open Ice Ice.Spec Ice.Model Ice.Model.Builder Ice.Model.Format
open Ice.Model.IterBytes (PLB mkB runB toP)
open Ice.Model.Iter (RFlags)
open Ice.Model.Writer (Footer)

/-! ## read APIs of a loaded segment -/

/-- `Segment.CollectionStats` (stats.go:45-54) -/
def loadedStats (ld : Loaded) (f : Bytes) : Nat × Nat × Nat :=
  match ld.fieldsInv.idxOf? f with
  | none => (0, 0, 0)
  | some i => (ld.footer.numDocs, ld.fieldDocs.getD i 0, ld.fieldFreqs.getD i 0)

/-- the keys of a dictionary (`none`: nil FST, no keys) -/
def dictKeys : Option (List (Bytes × Nat)) → List Bytes
  | none => []
  | some fst => fst.map (·.1)

/-- the `PostingsList` that `Dictionary.PostingsList` + `PostingsList.read` hand to
    `PostingsList.iterator`: offsets and chunk size from the record, the segment's data (memory- or
    file-backed as the segment is) and field table, the exclusion bitmap of the caller -/
def plbOf (ld : Loaded) (fo lo cs : Nat) (docs : List Nat) (ex : Option (List Nat)) : PLB :=
  { cs := cs, freqOffset := fo, locOffset := lo, file := !ld.data.mem, data := ld.data.bytes,
    fieldsInv := ld.fieldsInv, docs := docs, except := ex }

theorem getD_lt {l : List Nat} {B : Nat} (h : ∀ x ∈ l, x < B) (hB : 0 < B) (i : Nat) :
    l.getD i 0 < B := by
  rw [List.getD_eq_getElem?_getD]
  cases hi : l[i]? with
  | none => exact hB
  | some x => exact h x (List.mem_of_getElem? hi)

section
variable {nc : Bytes → Nat → Nat} {π : Order} {b : Batch} {r : Built}
  (hv : ValidBatch b) (hπ : PermOK π) (hrun : run nc π b = .ok r)
  (mode : Nat) (hmode : 1 ≤ mode ∧ mode ≤ 1025) (hB : Bounds nc b)
  (K : Codecs) (hsz : Sizes K (r.toLSeg mode))

/-! ## E2E_valid -/

include hv hπ hrun hB hsz in
/-- every field description of `r.toLSeg mode` is valid -/
theorem field_valid {i : Nat} {f : Bytes} (hf : (build nc mode b).fields[i]? = some f)
    {fd : FieldDesc} (hfd : (r.toLSeg mode).fields[i]? = some fd) :
    fd.Valid false (r.toLSeg mode).numDocs := by
  have hSB := specBounds_of_bounds hB mode
  have hF := spec_fields_length (nc := nc) hv mode
  have hnd : (r.toLSeg mode).numDocs = b.length := toLSeg_numDocs hv hπ hrun mode
  have hdl : (build nc mode b).docs.length = b.length := by rw [build_docs, List.length_map]
  have hmem : fd ∈ (r.toLSeg mode).fields := List.mem_of_getElem? hfd
  rw [toLSeg_field hv hπ hrun mode hf] at hfd
  injection hfd with hfd
  have hb32 := hB.numDocs
  refine ⟨?_, ?_, ?_, ?_, ?_, ?_⟩
  · rw [← hfd]; exact hSB.nameLen f (List.mem_of_getElem? hf)
  · rw [← hfd]
    exact getD_lt (fun x hx => by have := spec_fieldDocs_le (nc := nc) mode x hx; omega) (by decide) i
  · rw [← hfd]
    exact getD_lt hSB.freqs (by decide) i
  · rw [← hfd]
    simp only [List.map_map]
    have : ((fun x : Bytes × TermDesc => x.1) ∘ fun t => (t, TermDesc.general
        ((postings (build nc mode b) f t).map (postingToE (build nc mode b).fields)))) = id := by
      funext t; rfl
    rw [this, List.map_id]
    exact ascKeys_of_asc _ (asc_terms _ _)
  · intro td htd
    rw [← hfd] at htd
    simp only [List.mem_map] at htd
    obtain ⟨t, ht, rfl⟩ := htd
    refine ⟨?_, ?_⟩
    · intro h0
      exact postings_ne_nil ht (List.map_eq_nil_iff.1 h0)
    · rw [hnd, ← hdl]
      exact entriesOK_postings hSB hF f t
  · intro vals hvals
    rw [← hfd] at hvals
    simp only at hvals
    obtain ⟨hsome, _, _⟩ := dv_at hv hπ hrun mode hf
    obtain ⟨hasc, hmax, hterms⟩ := hsome vals hvals
    refine ⟨by decide, hasc, ?_, ?_, ?_, ?_⟩
    · intro q hq
      have := hmax q hq
      rw [hnd]; omega
    · rw [hnd]; omega
    · exact hsz.dvRaw fd hmem vals (by rw [← hfd]; exact hvals)
    · intro q hq t ht
      have h1 : DocValues.termsOf vals q.1 = q.2 := by
        unfold DocValues.termsOf
        rw [lookup_of_mem hasc hq]; rfl
      rw [← h1, hterms q.1] at ht
      exact dvOf_noSep hSB q.1 f t ht

include hv hπ hrun hmode hB hsz in
/-- **E2E_valid.**  What `New` lays out for a batch inside the contract and the bounds is a valid
    input of the container: all of C04 applies to it. -/
theorem E2E_valid : C04.Valid K (r.toLSeg mode) := by
  have hF := spec_fields_length (nc := nc) hv mode
  have hnd : (r.toLSeg mode).numDocs = b.length := toLSeg_numDocs hv hπ hrun mode
  have hlen := toLSeg_fields_length hv hπ hrun mode
  refine ⟨?_, ?_, ?_, ?_, hmode, ?_, ?_, ?_,
    trailer_ok K _ (by simp only [Built.toLSeg, List.length_map, stored_length hv hπ hrun]
                       exact hB.numDocs) hsz.storedLen, hsz.file⟩
  · have h1 : ((r.toLSeg mode).fields.map (·.name)).head? = some idField := by
      rw [toLSeg_names hv hπ hrun mode]; rfl
    rw [List.head?_map] at h1
    exact h1
  · rw [hlen]; omega
  · simp [Built.toLSeg]
  · rw [hnd]; exact hB.numDocs
  · intro fd hfd
    obtain ⟨i, f, hf, hfi⟩ := toLSeg_field_mem hv hπ hrun mode hfd
    exact field_valid hv hπ hrun mode hB K hsz hf hfi
  · intro h0 fd hfd
    have hb : b = [] := List.eq_nil_of_length_eq_zero (by rw [← hnd]; exact h0)
    obtain ⟨i, f, hf, hfi⟩ := toLSeg_field_mem hv hπ hrun mode hfd
    obtain ⟨_, _, hnone⟩ := dv_at hv hπ hrun mode hf
    rw [toLSeg_field hv hπ hrun mode hf] at hfi
    injection hfi with hfi
    subst hb
    rw [← hfi]
    refine ⟨?_, hnone rfl, ?_, ?_⟩
    · have : terms (build nc mode []) f = [] := rfl
      rw [this]; rfl
    · simp only [build, List.getD_eq_getElem?_getD, List.getElem?_map]
      cases (fieldList (List.flatMap (fun d => List.map (fun x => x.name) d) ([] : Batch)))[i]? <;> simp
    · simp only [build, List.getD_eq_getElem?_getD, List.getElem?_map]
      cases (fieldList (List.flatMap (fun d => List.map (fun x => x.name) d) ([] : Batch)))[i]? <;> simp
  · refine ⟨by decide, by rw [hlen]; omega, ?_, hsz.records, hsz.storedLen⟩
    intro d hd fv hfv
    simp only [Built.toLSeg, List.mem_map] at hd
    obtain ⟨sd, _, rfl⟩ := hd
    unfold storedDocOf at hfv
    simp only [List.mem_filterMap, List.mem_range] at hfv
    obtain ⟨k, hk, hkv⟩ := hfv
    split at hkv
    · cases hkv
    · injection hkv with hkv
      rw [← hkv, hlen, ← fields_eq hv hπ hrun mode]
      exact hk

include hv hπ hrun in
/-- **the description is the builder's.**  Every term is `general` (no 1-hit encoding in the
    builder); the doc-value column of every field is the one `Format.dvOfTerms` derives from the
    field's postings - `docTermMap` of new.go:852-854; the stored values of every document, as
    (field id, value) pairs, are those the loop new.go:600-610 encodes (`Builder.storedOut` of the
    document's `docStoredFields`).  (That the terms are the builder's raw per-field output
    `FieldOut` - field ids inside locations - is `toLSeg_raw`, `Lemmas/E2ERaw.lean`.) -/
theorem E2E_layout :
    (∀ fd ∈ (r.toLSeg mode).fields,
      (∀ t ∈ fd.terms, ∃ es, t.2 = TermDesc.general es) ∧
      ∀ vals, fd.dv = some vals → vals = dvOfTerms (r.toLSeg mode).numDocs fd.terms) ∧
    ∀ (n : Nat) (d : Doc), b[n]? = some d →
      ((r.toLSeg mode).stored[n]?).map Stored.flat =
        some (Builder.storedOut (FL b).length (dsfOf (FL b) d)) := by
  refine ⟨?_, ?_⟩
  · intro fd hfd
    refine ⟨?_, toLSeg_dv hv hπ hrun mode hfd⟩
    intro t ht
    obtain ⟨i, f, hf, hfi⟩ := toLSeg_field_mem hv hπ hrun mode hfd
    rw [toLSeg_field hv hπ hrun mode hf] at hfi
    injection hfi with hfi
    rw [← hfi] at ht
    simp only [List.mem_map] at ht
    obtain ⟨_, _, rfl⟩ := ht
    exact ⟨_, rfl⟩
  · intro n d hd
    have hr := C01.built_eq hv hπ hrun
    subst hr
    simp only [Built.toLSeg, builtOf, List.getElem?_map, hd, Option.map_some]
    rw [flat_storedDocOf_raw _ (FL_nodup b)]

/-! ## the loaded segment -/

variable {data : Bytes} {ft : Footer} (hs : serialize K (r.toLSeg mode) = .ok (data, ft))
  (mem : Bool)

include hv hπ hrun hmode hB hsz hs in
/-- **E2E_load.**  The file `WriteTo` produces loads, memory- and file-backed. -/
theorem E2E_load : ∃ ld, load mem (fileOf K data ft) = .ok ld := by
  obtain ⟨ld, hl, _⟩ := C04.C04_fields K _ (E2E_valid hv hπ hrun mode hmode hB K hsz) data ft hs mem
  exact ⟨ld, hl⟩

variable {ld : Loaded} (hl : load mem (fileOf K data ft) = .ok ld)

include hv hπ hrun hmode hB hsz hs hl in
/-- **E2E_fields.**  The loaded segment has the field list of the specification (`_id` first, the
    others ascending), its per-field statistics, its document count and the chunk mode; hence
    `CollectionStats` of every field name (known or not) is `Spec.stats`. -/
theorem E2E_fields :
    ld.fieldsInv = (build nc mode b).fields ∧
    ld.fieldDocs = (build nc mode b).fieldDocs ∧
    ld.fieldFreqs = (build nc mode b).fieldFreqs ∧
    ld.footer.numDocs = numDocs (build nc mode b) ∧
    ld.footer.chunkMode = mode ∧
    ld.data.mem = mem ∧
    ∀ f, loadedStats ld f = stats (build nc mode b) f := by
  obtain ⟨ld', hl', hdata, _, hnd, hcm, hfi, hfd, hff, _, _⟩ :=
    C04.C04_fields K _ (E2E_valid hv hπ hrun mode hmode hB K hsz) data ft hs mem
  rw [hl] at hl'
  injection hl' with hl'
  subst hl'
  have h1 : ld.fieldsInv = (build nc mode b).fields := by rw [hfi, toLSeg_names hv hπ hrun mode]
  have h2 : ld.fieldDocs = (build nc mode b).fieldDocs := by rw [hfd, toLSeg_fieldDocs hv hπ hrun mode]
  have h3 : ld.fieldFreqs = (build nc mode b).fieldFreqs := by
    rw [hff, toLSeg_fieldFreqs hv hπ hrun mode]
  have h4 : ld.footer.numDocs = numDocs (build nc mode b) := by
    rw [hnd, toLSeg_numDocs hv hπ hrun mode]; simp [numDocs, build]
  refine ⟨h1, h2, h3, h4, hcm, by rw [hdata], ?_⟩
  intro f
  unfold loadedStats stats
  rw [h1, h2, h3, h4]
  cases (build nc mode b).fields.idxOf? f <;> rfl

include hv hπ hrun hmode hB hsz hs hl in
/-- **E2E_dict.**  `Segment.dictionary` of field `i` (name `f`): the keys of its FST are exactly
    the terms of the specification, in order.  With documents every field has an FST; a field id
    outside the field list has none. -/
theorem E2E_dict :
    (∀ (i : Nat) (f : Bytes), (build nc mode b).fields[i]? = some f →
      ∃ o, dictionaryOf K ld i = .ok o ∧ dictKeys o = terms (build nc mode b) f ∧
        (b ≠ [] → o.isSome)) ∧
    (∀ i : Nat, (build nc mode b).fields[i]? = none → dictionaryOf K ld i = .ok none) := by
  have hV := E2E_valid hv hπ hrun mode hmode hB K hsz
  obtain ⟨ld', hl', h0, hpos⟩ := C04.C04_dict K _ hV data ft hs mem
  rw [hl] at hl'
  injection hl' with hl'
  subst hl'
  have hnd : (r.toLSeg mode).numDocs = b.length := toLSeg_numDocs hv hπ hrun mode
  refine ⟨?_, ?_⟩
  · intro i f hf
    by_cases hb : b = []
    · refine ⟨none, h0 (by rw [hnd, hb]; rfl) i, ?_, fun h => absurd hb h⟩
      subst hb
      rfl
    · have hpos' : 0 < (r.toLSeg mode).numDocs := by
        rw [hnd]; exact List.length_pos_iff.mpr hb
      obtain ⟨fst, hd, hkeys, _⟩ := hpos hpos' i _ (toLSeg_field hv hπ hrun mode hf)
      refine ⟨some fst, hd, ?_, fun _ => rfl⟩
      simp only [dictKeys, hkeys, List.map_map]
      have : ((fun x : Bytes × TermDesc => x.1) ∘ fun t => (t, TermDesc.general
          ((postings (build nc mode b) f t).map (postingToE (build nc mode b).fields)))) = id := by
        funext t; rfl
      rw [this, List.map_id]
  · intro i hi
    obtain ⟨ld', hl', _, _, _, _, _, _, _, hdl, _⟩ := C04.C04_fields K _ hV data ft hs mem
    rw [hl] at hl'
    injection hl' with hl'
    subst hl'
    have : ld.dictLocs[i]? = none := by
      rw [List.getElem?_eq_none_iff] at hi ⊢
      rw [hdl, toLSeg_fields_length hv hπ hrun mode]
      exact hi
    unfold dictionaryOf
    rw [this]

include hv hπ hrun hmode hB hsz hs hl in
/-- **E2E_stored.**  `VisitStoredFields(n)` on the loaded segment, with any pooled context buffer
    and any visitor stop, delivers - field ids resolved through the loaded field table - exactly
    the stored values `Spec.stored` lists for document `n`, up to and including the value at which
    the visitor stops; nothing for `n` beyond the count. -/
theorem E2E_stored (n : Nat) (buf : Stored.Buf) (stop : Option Nat) :
    ∃ vs buf', Stored.visit K.stored ld.storedSeg buf n stop = .ok (vs, buf') ∧
      vs.map (fun p => (ld.fieldsInv.getD p.1 [], p.2)) =
        Stored.takeStop stop (stored (build nc mode b) n) := by
  have hV := E2E_valid hv hπ hrun mode hmode hB K hsz
  obtain ⟨hfi, _⟩ := E2E_fields hv hπ hrun mode hmode hB K hsz hs mem hl
  obtain ⟨ld', tail, hl', _, _, hvisit, hbeyond⟩ := C04.C04_stored K _ hV data ft hs mem
  rw [hl] at hl'
  injection hl' with hl'
  subst hl'
  have hslen : (r.toLSeg mode).stored.length = b.length := by
    simp [Built.toLSeg, stored_length hv hπ hrun]
  by_cases hn : n < b.length
  · obtain ⟨buf', hvis⟩ := hvisit n (by rw [hslen]; exact hn) buf stop
    refine ⟨_, buf', hvis, ?_⟩
    rw [← takeStop_map]
    congr 1
    -- the stored document of the description is the reconstruction of `r.storedOf n`
    have hrn : n < r.stored.length := by rw [stored_length hv hπ hrun]; exact hn
    have hdoc : (r.toLSeg mode).stored[n]'(by rw [hslen]; exact hn) =
        storedDocOf r.fields (r.storedOf n) := by
      simp only [Built.toLSeg, List.getElem_map, Built.storedOf, List.getD_eq_getElem?_getD,
        List.getElem?_eq_getElem hrn, Option.getD_some]
    rw [hdoc, C01.C01_stored hv hπ hrun mode n, hfi, fields_eq hv hπ hrun mode]
    obtain ⟨g, hg⟩ := spec_stored_keyed (build nc mode b) n
    rw [hg]
    exact flat_storedDocOf _ (spec_fields_nodup mode) g
  · refine ⟨[], buf, hbeyond n (by rw [hslen]; omega) buf stop, ?_⟩
    have : stored (build nc mode b) n = [] := by
      unfold stored
      rw [build_docs, List.getElem?_eq_none (by rw [List.length_map]; omega)]
    rw [this, Stored.takeStop_nil]
    rfl

include hv hπ hrun hmode hB hsz hs hl in
/-- **E2E_dv.**  Doc values of field `i` (name `f`) of the loaded segment.  Either the field has
    no reader (`fieldNotUninverted`) and the specification lists no doc values for it in any
    document; or it has the reader of C07, on which every sequence of visits of documents of the
    segment - any order, repetitions - succeeds and delivers, visit by visit, exactly
    `Spec.dvOf … n f`. -/
theorem E2E_dv (i : Nat) (f : Bytes) (hf : (build nc mode b).fields[i]? = some f) :
    ∃ ro, ld.dvReaders[i]? = some ro ∧
      match ro with
      | none => ∀ n, dvOf (build nc mode b) n f = []
      | some r0 => ∀ ds : List Nat, (∀ d ∈ ds, d < b.length) →
          ∃ r', DocValues.Reader.visitAll K.dv ld.data dvChunk r0 ds =
            .ok (ds.map (fun n => dvOf (build nc mode b) n f), r') := by
  have hV := E2E_valid hv hπ hrun mode hmode hB K hsz
  obtain ⟨ld', hl', hlen, h0, hpos⟩ := C04.C04_dv K _ hV data ft hs mem
  rw [hl] at hl'
  injection hl' with hl'
  subst hl'
  have hnd : (r.toLSeg mode).numDocs = b.length := toLSeg_numDocs hv hπ hrun mode
  have hi : i < ld.dvReaders.length := by
    rw [hlen, toLSeg_fields_length hv hπ hrun mode]
    by_cases h : i < (build nc mode b).fields.length
    · exact h
    · rw [List.getElem?_eq_none (by omega)] at hf; cases hf
  obtain ⟨hsome, hnone, _⟩ := dv_at hv hπ hrun mode hf
  by_cases hb : b = []
  · refine ⟨none, ?_, ?_⟩
    · rw [List.getElem?_eq_getElem hi]
      congr 1
      exact h0 (by rw [hnd, hb]; rfl) _ (List.getElem_mem hi)
    · intro n
      subst hb
      simp [dvOf, build]
  · have hpos' : 0 < (r.toLSeg mode).numDocs := by
      rw [hnd]; exact List.length_pos_iff.mpr hb
    obtain ⟨hn, hs'⟩ := hpos hpos' i _ (toLSeg_field hv hπ hrun mode hf)
    cases hdv : (viewOf nc (FL b) b i).dv with
    | none => exact ⟨none, hn hdv, hnone hdv⟩
    | some vals =>
      obtain ⟨r0, hr0, _, _, _, _, _, hvis⟩ := hs' vals hdv
      refine ⟨some r0, hr0, ?_⟩
      intro ds hds
      obtain ⟨r', hr'⟩ := hvis ds (fun d hd => by have := hds d hd; rw [hnd]; omega)
      refine ⟨r', ?_⟩
      rw [hr']
      congr 2
      apply List.map_congr_left
      intro n _
      exact (hsome vals hdv).2.2 n

include hv hπ hrun hmode hB hsz hs hl in
/-- **E2E_iter.**  For every field `f` (id `i`) and every term `t` of it (the `j`-th key of the
    field's FST): `Segment.dictionary` finds the FST value `v`, `PostingsList.read` reads the
    term's record at `v` - document numbers, chunk size, the two stream offsets -, and a
    `PostingsIterator` created over it (byte-level model: chunk offsets parsed out of the data
    section, chunks decompressed, varints read through `memUvarintReader`s, locations resolved
    through the loaded field table) answers EVERY script of `Next` / `Advance` calls, for EVERY
    exclusion bitmap and flag triple, exactly as the specification iterator over
    `Spec.postings (build nc mode b) f t` restricted to the live documents - seen through the
    flags the caller asked for; no call errs or panics. -/
theorem E2E_iter (i : Nat) (f : Bytes) (hf : (build nc mode b).fields[i]? = some f)
    (j : Nat) (t : Bytes) (ht : (terms (build nc mode b) f)[j]? = some t) :
    ∃ fst v fo lo cs, dictionaryOf K ld i = .ok (some fst) ∧ fst[j]? = some (t, v) ∧
      readPostings K ld v =
        .ok (.general fo lo ((postings (build nc mode b) f t).map (·.doc)) cs) ∧
      ∀ (ex : Option (List Nat)) (fl : Flags) (ops : List IterOp),
        ∃ i0, mkB (plbOf ld fo lo cs ((postings (build nc mode b) f t).map (·.doc)) ex)
            (RFlags.of fl) = .ok i0 ∧
          (runB K.chunk i0 ops).map (C05Bytes.viewRes fl) =
            (iterRun fl (live (postings (build nc mode b) f t) ex) ops).map .ok := by
  have hV := E2E_valid hv hπ hrun mode hmode hB K hsz
  have hSB := specBounds_of_bounds hB mode
  have hF := spec_fields_length (nc := nc) hv mode
  have hnd : (r.toLSeg mode).numDocs = b.length := toLSeg_numDocs hv hπ hrun mode
  have hdl : (build nc mode b).docs.length = b.length := by rw [build_docs, List.length_map]
  -- a field with a term has a document
  have hb : b ≠ [] := by
    intro hb
    subst hb
    have : terms (build nc mode []) f = [] := rfl
    rw [this] at ht
    cases ht
  have hpos : 0 < (r.toLSeg mode).numDocs := by rw [hnd]; exact List.length_pos_iff.mpr hb
  obtain ⟨mid, dictLocs, rs, hw, hl', _⟩ := C04.load_written hV hs mem
  rw [hl] at hl'
  injection hl' with hl'
  subst hl'
  have hfd := toLSeg_field hv hπ hrun mode hf
  have htj : ((terms (build nc mode b) f).map (fun t => (t, TermDesc.general
      ((postings (build nc mode b) f t).map (postingToE (build nc mode b).fields)))))[j]? =
      some (t, TermDesc.general
        ((postings (build nc mode b) f t).map (postingToE (build nc mode b).fields))) := by
    rw [List.getElem?_map, ht]; rfl
  have hloc := fun p (hp : p ∈ postings (build nc mode b) f t) => posting_loc_field_mem hv hp
  have hc := contract_postings hSB hF f t hloc
  rw [hdl, ← hnd] at hc
  obtain ⟨fst, v, fo, lo, cs, hdict, _, hfj, hread, _, E, hE, hK, hes, hcs, hfinv, hfile, hdata,
    hfo, hlo, _⟩ := term_env hV hw hpos mem rs i _ hfd j t _ htj _ hc (!mem)
  refine ⟨fst, v, fo, lo, cs, hdict, hfj, ?_, ?_⟩
  · rw [hread, List.map_map]; rfl
  · intro ex fl ops
    obtain ⟨i0, hmk, hrunB⟩ := iter_env hE (by rw [hes]; exact hc.sorted) ex fl ops
    have hpl : E.pl ex = plbOf (C04.loadedSeg K (r.toLSeg mode) data ft mem dictLocs rs) fo lo cs
        ((postings (build nc mode b) f t).map (·.doc)) ex := by
      unfold Ice.Model.IterBytes.Env.pl plbOf
      rw [hcs, hfo, hlo, hfile, hdata, hfinv, hes, List.map_map]
      simp only [C04.loadedSeg, toLSeg_names hv hπ hrun mode]
      rfl
    rw [hpl] at hmk
    refine ⟨i0, hmk, ?_⟩
    rw [← hK, hrunB, hes, hfinv, map_toP_postingToE hloc]

include hv hπ hrun hmode hB hsz hs hl in
/-- **E2E_iter, reused iterator (C13).**  The same answers come from an iterator constructed over
    ANY previously used `PostingsIterator` (`PostingsList.iterator(…, rv)`), whatever state it is
    in. -/
theorem E2E_iter_reuse (i : Nat) (f : Bytes) (hf : (build nc mode b).fields[i]? = some f)
    (j : Nat) (t : Bytes) (ht : (terms (build nc mode b) f)[j]? = some t) :
    ∃ fst v fo lo cs, dictionaryOf K ld i = .ok (some fst) ∧ fst[j]? = some (t, v) ∧
      readPostings K ld v =
        .ok (.general fo lo ((postings (build nc mode b) f t).map (·.doc)) cs) ∧
      ∀ (used : Ice.Model.IterBytes.ItB) (ex : Option (List Nat)) (fl : Flags) (ops : List IterOp),
        ∃ i1, Ice.Model.IterBytes.mkBReuse used
            (plbOf ld fo lo cs ((postings (build nc mode b) f t).map (·.doc)) ex) (RFlags.of fl) = .ok i1 ∧
          (runB K.chunk i1 ops).map (C05Bytes.viewRes fl) =
            (iterRun fl (live (postings (build nc mode b) f t) ex) ops).map .ok := by
  obtain ⟨fst, v, fo, lo, cs, h1, h2, h3, h4⟩ :=
    E2E_iter hv hπ hrun mode hmode hB K hsz hs mem hl i f hf j t ht
  refine ⟨fst, v, fo, lo, cs, h1, h2, h3, ?_⟩
  intro used ex fl ops
  obtain ⟨i0, hmk, hrun0⟩ := h4 ex fl ops
  have hany := fun ops => C05Bytes.B4_any K.chunk
    (plbOf ld fo lo cs ((postings (build nc mode b) f t).map (·.doc)) ex) (RFlags.of fl) used ops
  rw [hmk] at hany
  cases hre : Ice.Model.IterBytes.mkBReuse used
      (plbOf ld fo lo cs ((postings (build nc mode b) f t).map (·.doc)) ex) (RFlags.of fl) with
  | ok i1 =>
    refine ⟨i1, rfl, ?_⟩
    have := hany ops
    rw [hre] at this
    simp only [C05Bytes.runRes] at this
    rw [this, hrun0]
  | err => have := hany []; rw [hre] at this; simp [C05Bytes.runRes, runB] at this
  | panic => have := hany []; rw [hre] at this; simp [C05Bytes.runRes, runB] at this

end

/-! ## summary -/

/-- everything a reader can observe of the loaded segment `ld` is what the abstract segment `S`
    says (the conclusions of `E2E_fields` … `E2E_dv`) -/
structure ReadsAs (K : Codecs) (S : AbsSeg) (ld : Loaded) : Prop where
  fields : ld.fieldsInv = S.fields ∧ ld.fieldDocs = S.fieldDocs ∧ ld.fieldFreqs = S.fieldFreqs ∧
    ld.footer.numDocs = numDocs S ∧ ld.footer.chunkMode = S.chunkMode
  stats : ∀ f, loadedStats ld f = stats S f
  dict : ∀ (i : Nat) (f : Bytes), S.fields[i]? = some f →
    ∃ o, dictionaryOf K ld i = .ok o ∧ dictKeys o = terms S f ∧ (S.docs ≠ [] → o.isSome)
  dictNone : ∀ i : Nat, S.fields[i]? = none → dictionaryOf K ld i = .ok none
  iter : ∀ (i : Nat) (f : Bytes), S.fields[i]? = some f →
    ∀ (j : Nat) (t : Bytes), (terms S f)[j]? = some t →
    ∃ fst v fo lo cs, dictionaryOf K ld i = .ok (some fst) ∧ fst[j]? = some (t, v) ∧
      readPostings K ld v = .ok (.general fo lo ((postings S f t).map (·.doc)) cs) ∧
      ∀ (ex : Option (List Nat)) (fl : Flags) (ops : List IterOp),
        ∃ i0, mkB (plbOf ld fo lo cs ((postings S f t).map (·.doc)) ex) (RFlags.of fl) = .ok i0 ∧
          (runB K.chunk i0 ops).map (C05Bytes.viewRes fl) =
            (iterRun fl (live (postings S f t) ex) ops).map .ok
  stored : ∀ (n : Nat) (buf : Stored.Buf) (stop : Option Nat),
    ∃ vs buf', Stored.visit K.stored ld.storedSeg buf n stop = .ok (vs, buf') ∧
      vs.map (fun p => (ld.fieldsInv.getD p.1 [], p.2)) = Stored.takeStop stop (stored S n)
  dv : ∀ (i : Nat) (f : Bytes), S.fields[i]? = some f →
    ∃ ro, ld.dvReaders[i]? = some ro ∧
      match ro with
      | none => ∀ n, dvOf S n f = []
      | some r0 => ∀ ds : List Nat, (∀ d ∈ ds, d < S.docs.length) →
          ∃ r', DocValues.Reader.visitAll K.dv ld.data dvChunk r0 ds =
            .ok (ds.map (fun n => dvOf S n f), r')

/-- **E2E_read.**  For every batch inside the contract of `New` and the numeric bounds, every map
    order and every codec triple with the round-trip laws: the file that `New` + `WriteTo`
    produce loads - memory- and file-backed - and every read API of the loaded segment, executed
    on the bytes, returns what `Spec.build nc mode b` says. -/
theorem E2E_read {nc : Bytes → Nat → Nat} {π : Order} {b : Batch} {r : Built}
    (hv : ValidBatch b) (hπ : PermOK π) (hrun : run nc π b = .ok r)
    (mode : Nat) (hmode : 1 ≤ mode ∧ mode ≤ 1025) (hB : Bounds nc b)
    (K : Codecs) (hsz : Sizes K (r.toLSeg mode))
    {data : Bytes} {ft : Footer} (hs : serialize K (r.toLSeg mode) = .ok (data, ft)) (mem : Bool) :
    ∃ ld, load mem (fileOf K data ft) = .ok ld ∧ ld.data.mem = mem ∧
      ReadsAs K (build nc mode b) ld := by
  obtain ⟨ld, hl⟩ := E2E_load hv hπ hrun mode hmode hB K hsz hs mem
  obtain ⟨h1, h2, h3, h4, h5, h6, h7⟩ := E2E_fields hv hπ hrun mode hmode hB K hsz hs mem hl
  obtain ⟨hd1, hd2⟩ := E2E_dict hv hπ hrun mode hmode hB K hsz hs mem hl
  have hdl : (build nc mode b).docs.length = b.length := by rw [build_docs, List.length_map]
  refine ⟨ld, hl, h6, ⟨h1, h2, h3, h4, h5⟩, h7, ?_, hd2,
    E2E_iter hv hπ hrun mode hmode hB K hsz hs mem hl,
    E2E_stored hv hπ hrun mode hmode hB K hsz hs mem hl, ?_⟩
  · intro i f hf
    obtain ⟨o, ho, hk, hsome⟩ := hd1 i f hf
    refine ⟨o, ho, hk, fun hne => hsome ?_⟩
    intro hb
    apply hne
    rw [build_docs, hb]; rfl
  · intro i f hf
    have := E2E_dv hv hπ hrun mode hmode hB K hsz hs mem hl i f hf
    rw [hdl]
    exact this

/-! ## a concrete batch: the hypotheses are satisfiable, `serialize` succeeds

  Three documents, fields `_id` and `f`.  Document 0: `f` stored (value "xy"), with doc values,
  term `a` with frequency 2 and two locations.  Document 1: `f` with doc values, terms `a` (no
  location) and `b` (one location that names its field).  Document 2: `_id` only.
  Chunk mode 2 (two chunks), the "identity" codecs of `Props/C04.lean`. -/

def fF : Bytes := [102]
def ta : Bytes := [97]
def tb : Bytes := [98]

def exB : Batch :=
  [ [ { name := idField, length := 1, store := true, dv := false, value := [48],
        terms := [ { term := [48], freq := 1, locs := [] } ] },
      { name := fF, length := 2, store := true, dv := true, value := [120, 121],
        terms := [ { term := ta, freq := 2,
                     locs := [ { field := [], pos := 1, start := 0, stop := 1 },
                               { field := [], pos := 3, start := 4, stop := 5 } ] } ] } ],
    [ { name := idField, length := 1, store := true, dv := false, value := [49],
        terms := [ { term := [49], freq := 1, locs := [] } ] },
      { name := fF, length := 2, store := false, dv := true, value := [],
        terms := [ { term := ta, freq := 1, locs := [] },
                   { term := tb, freq := 1,
                     locs := [ { field := fF, pos := 2, start := 2, stop := 3 } ] } ] } ],
    [ { name := idField, length := 1, store := true, dv := false, value := [50],
        terms := [ { term := [50], freq := 1, locs := [] } ] } ] ]

/-- what `New` builds from `exB` (`ex_run`) -/
def exR : Built := builtOf C01.nc0 exB

/-- … and lays out -/
def exL : LSeg := exR.toLSeg 2

theorem ex_validBatch : ValidBatch exB := by decide

theorem ex_perm : PermOK idOrder := fun _ _ m => List.Perm.refl m

theorem ex_run : run C01.nc0 idOrder exB = .ok exR := run_eq _ _ _ ex_validBatch ex_perm

theorem ex_bounds : Bounds C01.nc0 exB := by
  refine ⟨by decide, ?_, by decide, by decide, by decide, by decide, by decide, by decide⟩
  intro n l
  show 1 + (3 * l + 5 * n.sum + 7) % 0x7f7fffff < 2 ^ 32
  omega

set_option maxRecDepth 100000 in
/-- the description, evaluated: field ids inside locations, the doc-value column of `f` -/
theorem ex_layout : exL =
    { merger := false, numDocs := 3, chunkMode := 2,
      fields := [
        { name := idField, fieldDocs := 3, fieldFreqs := 3,
          terms := [([48], .general [⟨0, 1, 1511, []⟩]), ([49], .general [⟨1, 1, 1511, []⟩]),
                    ([50], .general [⟨2, 1, 1511, []⟩])],
          dv := none },
        { name := fF, fieldDocs := 2, fieldFreqs := 4,
          terms := [(ta, .general [⟨0, 2, 524, [⟨1, 1, 0, 1⟩, ⟨1, 3, 4, 5⟩]⟩, ⟨1, 1, 524, []⟩]),
                    (tb, .general [⟨1, 1, 524, [⟨1, 2, 2, 3⟩]⟩])],
          dv := some [(0, [ta]), (1, [ta, tb])] } ],
      stored := [[(0, [[48]]), (1, [[120, 121]])], [(0, [[49]])], [(0, [[50]])]] } := by
  decide +kernel

def exData : Bytes :=
  [6, 3, 0, 0, 1, 1, 1, 2, 48, 120, 121, 3, 1, 0, 0, 1, 49, 3, 1, 0, 0, 1, 50, 0, 23, 0, 0, 0, 2, 0, 0, 0, 2, 0, 0, 0,
    0, 0, 0, 0, 0, 0, 0, 0, 0, 0, 0, 0, 11, 0, 0, 0, 0, 0, 0, 0, 17, 2, 3, 3, 2, 231, 11, 57, 0, 1, 0, 2, 3, 3, 2, 231,
    11, 67, 0, 1, 1, 2, 0, 3, 2, 231, 11, 77, 0, 1, 2, 30, 1, 48, 0, 0, 0, 0, 0, 0, 0, 63, 1, 49, 0, 0, 0, 0, 0, 0, 0,
    73, 1, 50, 0, 0, 0, 0, 0, 0, 0, 83, 2, 6, 6, 5, 140, 4, 2, 140, 4, 2, 9, 9, 8, 1, 1, 0, 1, 1, 3, 4, 5, 118, 9, 2, 0,
    1, 2, 3, 3, 3, 140, 4, 2, 5, 5, 4, 1, 2, 2, 3, 144, 1, 6, 1, 1, 20, 1, 97, 0, 0, 0, 0, 0, 0, 0, 139, 1, 98, 0, 0, 0,
    0, 0, 0, 0, 158, 2, 0, 2, 1, 4, 97, 255, 97, 255, 98, 255, 11, 0, 0, 0, 0, 0, 0, 0, 1, 0, 0, 0, 0, 0, 0, 0, 1, 255,
    255, 255, 255, 255, 255, 255, 255, 255, 1, 255, 255, 255, 255, 255, 255, 255, 255, 255, 1, 184, 1, 212, 1, 87, 3,
    95, 105, 100, 3, 3, 163, 1, 1, 102, 2, 4, 0, 0, 0, 0, 0, 0, 0, 236, 0, 0, 0, 0, 0, 0, 0, 243]

def exFooter : Footer :=
  { numDocs := 3, storedIndexOffset := 33, fieldsIndexOffset := 249, docValueOffset := 212,
    chunkMode := 2, version := 2, crc := 0 }

set_option maxRecDepth 100000 in
/-- `serialize` succeeds on the description (evaluated in the kernel) -/
theorem ex_serialize : serialize C04.exK exL = .ok (exData, exFooter) := by decide +kernel

set_option maxRecDepth 100000 in
theorem ex_sizes : Sizes C04.exK exL := by
  refine ⟨by decide +kernel, by decide +kernel, by decide +kernel, ?_⟩
  rw [ex_serialize]; decide

/-- all hypotheses of the end-to-end theorems hold for the example … -/
theorem ex_valid : C04.Valid C04.exK exL :=
  E2E_valid ex_validBatch ex_perm ex_run 2 (by decide) ex_bounds C04.exK ex_sizes

/-- … so the loaded file reads as the specification says, for both backings -/
theorem ex_read (mem : Bool) :
    ∃ ld, load mem (fileOf C04.exK exData exFooter) = .ok ld ∧ ld.data.mem = mem ∧
      ReadsAs C04.exK (build C01.nc0 2 exB) ld :=
  E2E_read ex_validBatch ex_perm ex_run 2 (by decide) ex_bounds C04.exK ex_sizes ex_serialize mem

/-- the left-hand side of `E2E_iter`, evaluated on the bytes: the term `a` (key 0) of field `f`
    (id 1) looked up in the loaded dictionary, its record read, an iterator with all flags and
    document 1 excluded run over `Next, Next, Advance 0` -/
def exTranscript (mem : Bool) : List (Res (Option Posting)) :=
  match load mem (fileOf C04.exK exData exFooter) with
  | .ok ld =>
    (match dictionaryOf C04.exK ld 1 with
     | .ok (some fst) =>
       (match fst[0]? with
        | some (_, v) =>
          (match readPostings C04.exK ld v with
           | .ok (.general fo lo docs cs) =>
             C05Bytes.runRes C04.exK.chunk
               (mkB (plbOf ld fo lo cs docs (some [1])) (RFlags.of ⟨true, true, true⟩))
               [.next, .next, .advance 0]
           | _ => [])
        | none => [])
     | _ => [])
  | _ => []

set_option maxRecDepth 100000 in
theorem ex_transcript (mem : Bool) : exTranscript mem =
    [ .ok (some { doc := 0, freq := 2, norm := 524,
                  locs := [⟨fF, 1, 0, 1⟩, ⟨fF, 3, 4, 5⟩] }), .ok none, .ok none ] := by
  cases mem <;> decide +kernel

set_option maxRecDepth 100000 in
/-- … and the right-hand side, evaluated on the specification: the same answers -/
theorem ex_spec_transcript :
    iterRun ⟨true, true, true⟩ (live (postings (build C01.nc0 2 exB) fF ta) (some [1]))
      [.next, .next, .advance 0] =
    [ some { doc := 0, freq := 2, norm := 524, locs := [⟨fF, 1, 0, 1⟩, ⟨fF, 3, 4, 5⟩] },
      none, none ] := by
  decide +kernel

set_option maxRecDepth 100000 in
/-- the observations of the specification for the example -/
theorem ex_spec :
    (build C01.nc0 2 exB).fields = [idField, fF] ∧
    terms (build C01.nc0 2 exB) fF = [ta, tb] ∧
    stored (build C01.nc0 2 exB) 0 = [(idField, [48]), (fF, [120, 121])] ∧
    dvOf (build C01.nc0 2 exB) 1 fF = [ta, tb] ∧
    stats (build C01.nc0 2 exB) fF = (3, 2, 4) := by
  decide +kernel

end Ice.Props.E2E

/-! axiom audit (expected: a subset of propext, Classical.choice, Quot.sound) -/
section Audit
open Ice.Props.E2E
#print axioms E2E_layout
#print axioms toLSeg_raw
#print axioms E2E_valid
#print axioms E2E_load
#print axioms E2E_fields
#print axioms E2E_dict
#print axioms E2E_iter
#print axioms E2E_iter_reuse
#print axioms E2E_stored
#print axioms E2E_dv
#print axioms E2E_read
#print axioms specBounds_of_bounds
#print axioms term_env
#print axioms ex_serialize
#print axioms ex_sizes
#print axioms ex_valid
#print axioms ex_read
#print axioms ex_transcript
#print axioms ex_spec_transcript
#print axioms ex_spec
end Audit
