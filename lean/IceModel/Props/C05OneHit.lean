import IceModel.Model.Iter1Hit
/-
  Property C05 for 1-hit encoded postings lists.
-/
namespace Ice.Props.C05
open Ice Ice.Spec Ice.Model

private theorem run_finished (i : Iter1Hit.It) (h : i.finished = true) (ops : List IterOp) :
    Iter1Hit.run i ops = Iter.specRun i.fl [] ops := by
  induction ops with
  | nil => rfl
  | cons op ops ih =>
    simp only [Iter1Hit.run, Iter1Hit.step, h, if_true, Iter.specRun, iterStep]
    cases op <;> simp [ih]

/-- a 1-hit iterator behaves like the specification iterator over its single posting -/
theorem C05_onehit (doc norm : Nat) (E : Option (List Nat)) (fl : Iter.RFlags) (ops : List IterOp) :
    Iter1Hit.run (Iter1Hit.mk doc norm E fl) ops =
      Iter.specRun fl (live [Iter1Hit.posting doc norm] E) ops := by
  cases ops with
  | nil => rfl
  | cons op ops =>
    by_cases hex : (Iter1Hit.mk doc norm E fl).finished = true
    · -- excluded: nothing is ever delivered
      have hl : live [Iter1Hit.posting doc norm] E = [] := by
        cases E with
        | none => simp [Iter1Hit.mk] at hex
        | some e =>
          simp only [Iter1Hit.mk] at hex
          have hm : doc ∈ e := by simpa using hex
          simp [live, Iter1Hit.posting, hm]
      rw [hl]
      exact run_finished _ hex _
    · have hl : live [Iter1Hit.posting doc norm] E = [Iter1Hit.posting doc norm] := by
        cases E with
        | none => rfl
        | some e =>
          simp only [Iter1Hit.mk] at hex
          have hm : ¬ doc ∈ e := by simpa using hex
          simp [live, Iter1Hit.posting, hm]
      rw [hl]
      have hf : (Iter1Hit.mk doc norm E fl).finished = false := by
        cases h : (Iter1Hit.mk doc norm E fl).finished <;> simp_all
      have hfl : (Iter1Hit.mk doc norm E fl).fl = fl := by cases E <;> rfl
      have hd : (Iter1Hit.mk doc norm E fl).doc = doc := by cases E <;> rfl
      have hn : (Iter1Hit.mk doc norm E fl).norm = norm := by cases E <;> rfl
      cases op with
      | next =>
        simp only [Iter1Hit.run, Iter1Hit.step, hf, hd, hn, hfl, Iter.specRun, iterStep,
          Nat.not_lt_zero, if_false, Bool.false_eq_true]
        rw [run_finished _ rfl]
        simp [Iter1Hit.posting, Iter.decoded, hfl]
      | advance d =>
        by_cases hlt : doc < d
        · simp only [Iter1Hit.run, Iter1Hit.step, hf, hd, hlt, if_true, Iter.specRun, iterStep,
            Bool.false_eq_true, if_false]
          rw [run_finished _ rfl]
          simp [Iter1Hit.posting, hlt, hfl]
        · simp only [Iter1Hit.run, Iter1Hit.step, hf, hd, hn, hfl, hlt, if_false, Iter.specRun,
            iterStep, Bool.false_eq_true]
          rw [run_finished _ rfl]
          simp [Iter1Hit.posting, hlt, Iter.decoded, hfl]

end Ice.Props.C05
