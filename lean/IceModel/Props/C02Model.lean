import IceModel.Model.MergeLoop
import IceModel.Lemmas.MergeLoopEnum
import IceModel.Lemmas.MergeLoopGroups
import IceModel.Lemmas.MergeLoopSpec
import IceModel.Lemmas.MergeLoopOneHit
import IceModel.Lemmas.Bits
/-
  Property C02 on the level of the model of the merge loop (enumerator.go, merge.go).

  Part E1: the enumerator delivers the ordered join of its iterators.
-/
namespace Ice.Props.C02Model
open Ice Ice.Spec Ice.Model Ice.Model.MergeLoop

/-! ## E1: the enumerator -/

/-- the ordered join: for every key in ascending order, for every iterator holding it in index
    order, `(key, iteratorIndex, value)`.  The key is shown as the Go slice the caller sees:
    the empty key is always the nil slice (`keyOf [] = none`). -/
def triples (ls : List (List (Bytes × Nat))) : List (Key × Nat × Nat) :=
  (allKeys ls).flatMap (fun k => (holders ls k).map (fun iv => (keyOf k, iv.1, iv.2)))

theorem triples_eq (ls : List (List (Bytes × Nat))) : (expectedFull ls).map (·.1) = triples ls := by
  simp only [expectedFull, triples, List.map_flatMap, List.map_map, Function.comp_def]

/-- **E1** (sequence): `newEnumerator`, then `Current`/`Next` until `ErrIteratorDone`, over
    iterators whose contents are strictly ascending key lists (any number of them, possibly
    empty, possibly starting with the empty key) delivers exactly `triples`.  The result is `.ok`:
    no index panic, and the fuel `fuelFor` = number of (key, iterator) pairs is not exhausted. -/
theorem E1_sequence {ls : List (List (Bytes × Nat))} (h : WFIters ls) :
    enumerate (ls.map VIter.fresh) = .ok (triples ls) := by
  simp only [enumerate, enumerateFull_spec h, ← triples_eq]
  rfl

/-- **E1** (termination / fuel adequacy) for an arbitrary loop body: with `fuelFor` rounds or
    more, the loop `for err == nil { Current; body; Next }` is the fold of the body over the
    deliveries, each paired with the answer of `GetLowIdxsAndValues` at that moment (all the
    (index, value) pairs of the iterators holding the current key) -/
theorem E1_loop {σ : Type}
    (body : σ → Key × Nat × Nat → Except MergeErr (List (Nat × Nat)) → Except MergeErr σ)
    {ls : List (List (Bytes × Nat))} (h : WFIters ls) (hne : (ls.map List.length).sum ≠ 0)
    (extra : Nat) (s : σ) :
    Enum.loop body (extra + fuelFor (ls.map VIter.fresh)) (Enum.new (ls.map VIter.fresh)).1 s =
      foldBody body (expectedFull ls) s :=
  loop_spec body h hne extra s

/-- `newEnumerator` returns `ErrIteratorDone` iff no iterator holds a key -/
theorem E1_done {ls : List (List (Bytes × Nat))} (h : WFIters ls) :
    (Enum.new (ls.map VIter.fresh)).2 = decide ((ls.map List.length).sum = 0) := new_done h

/-- **E1** (nothing dropped, nothing invented): a triple is delivered iff its (key, value) pair
    is in the iterator of that index -/
theorem E1_mem {ls : List (List (Bytes × Nat))} (h : WFIters ls) (key : Key) (i v : Nat) :
    (key, i, v) ∈ triples ls ↔ ∃ k l, key = keyOf k ∧ ls[i]? = some l ∧ (k, v) ∈ l := by
  simp only [triples, List.mem_flatMap, List.mem_map, allKeys, mem_sortDedup]
  constructor
  · rintro ⟨k, _, ⟨j, w⟩, hjw, he⟩
    obtain ⟨_, l, hl, hlk⟩ := (mem_holdersAt k ls 0 j w).1 hjw
    simp only [Prod.mk.injEq] at he
    obtain ⟨rfl, rfl, rfl⟩ := he
    exact ⟨k, l, rfl, by simpa using hl, lookupK_mem hlk⟩
  · rintro ⟨k, l, rfl, hl, hkv⟩
    refine ⟨k, ⟨l, List.mem_of_getElem? hl, (k, v), hkv, rfl⟩, (i, v), ?_, rfl⟩
    exact (mem_holdersAt k ls 0 i v).2 ⟨Nat.zero_le _, l, by simpa using hl,
      lookupK_of_mem (h.asc l (List.mem_of_getElem? hl)) hkv⟩

/-- in particular the empty key is delivered, as the nil slice, for every iterator holding it -/
theorem E1_empty_key {ls : List (List (Bytes × Nat))} (h : WFIters ls) (i v : Nat)
    (l : List (Bytes × Nat)) (hl : ls[i]? = some l) (hv : ([], v) ∈ l) :
    (none, i, v) ∈ triples ls :=
  (E1_mem h none i v).2 ⟨[], l, rfl, hl, hv⟩

/-- the order of the deliveries: by key, then by iterator index, strictly -/
def tripleLt (a b : Key × Nat × Nat) : Prop :=
  Bytes.cmp a.1.bytes b.1.bytes = .lt ∨ (a.1 = b.1 ∧ a.2.1 < b.2.1)

/-- **E1** (order): the deliveries are strictly ascending by (key, iterator index) -/
theorem E1_sorted (ls : List (List (Bytes × Nat))) : (triples ls).Pairwise tripleLt := by
  unfold triples
  rw [List.pairwise_flatMap]
  constructor
  · intro k _
    rw [List.pairwise_map]
    have := holdersAt_fst_lt k ls 0
    rw [List.pairwise_map] at this
    exact this.imp (fun h => Or.inr ⟨rfl, h⟩)
  · have hasc : Asc (allKeys ls) := asc_sortDedup _
    refine hasc.imp ?_
    intro a b hab x hx y hy
    obtain ⟨p, _, rfl⟩ := List.mem_map.1 hx
    obtain ⟨q, _, rfl⟩ := List.mem_map.1 hy
    left
    simpa using hab

theorem tripleLt_irrefl (a : Key × Nat × Nat) : ¬ tripleLt a a := by
  rintro (h | ⟨_, h⟩)
  · exact Bytes.cmp_lt_irrefl _ h
  · exact Nat.lt_irrefl _ h

/-- **E1** (nothing duplicated) -/
theorem E1_nodup (ls : List (List (Bytes × Nat))) : (triples ls).Nodup := by
  rw [List.nodup_iff_pairwise_ne]
  exact (E1_sorted ls).imp (fun {a b} h (e : a = b) => tripleLt_irrefl a (by rw [← e] at h; exact h))

/-- the enumerator_test.go style check on the model: three iterators, the empty key in two -/
example : enumerate ([[([], 7), ([98], 1)], [], [([], 9), ([97], 2), ([98], 3)]].map VIter.fresh)
    = .ok [(none, 0, 7), (none, 2, 9), (some [97], 2, 2), (some [98], 0, 1), (some [98], 2, 3)] := by
  decide

/-- a *drained* iterator over an FST holding the empty key keeps showing (empty key, value): the
    reason for `updateMatches(true)`.  With `skipEmptyKey = false` after `Next` the enumerator
    would deliver the empty key again. -/
example : ((VIter.fresh [([], 7)]).next.1).current = (none, 7) := by decide
example : (((VIter.fresh [([], 7), ([97], 1)]).next.1).next.1).current = (some [], 7) := by decide

/-! ## M1 and M2 (intrinsic form): the merge loop of one field -/

/-- what segment `s` contributes to term `k`: its postings of `k` outside the deletion bitmap, in
    order, with the new document number, locations re-encoded with merged field ids -/
def segEntries (cfg : Cfg) (s : Active) (k : Bytes) : List MPosting :=
  match lookupK k s.dict with
  | some ps => (iterSurvivors s.drops ps).map
      (fun p => encPosting cfg.fieldsInv (newDocOf s.newDocNums p.doc) p)
  | none => []

/-- the postings of term `k` in the merged segment: concatenation over the segments in order -/
def termEntries (cfg : Cfg) (active : List Active) (k : Bytes) : List MPosting :=
  active.flatMap (fun s => segEntries cfg s k)

theorem allItems_entries (cfg : Cfg) (active : List Active) (k : Bytes) :
    (allItems (segsOf active k)).map (encItem cfg.fieldsInv) = termEntries cfg active k := by
  induction active with
  | nil => rfl
  | cons s r ih =>
    simp only [termEntries, List.flatMap_cons] at ih ⊢
    rw [← ih]
    simp only [segsOf, List.filterMap_cons, segEntries]
    cases lookupK k s.dict with
    | none => simp
    | some ps =>
      simp only [Option.map_some, allItems, List.flatMap_cons, List.map_append, itemsOf,
        List.map_map]
      rfl

/-- **M1**: on well-formed input (`WFActive`: ascending FSTs, `newDocNums` defined on every
    live document that carries a posting, a valid chunk mode, a non-empty result) the merge of a
    field does not fail.  In particular the error "see hit with dropped docNum" (merge.go:571) is
    unreachable: the postings iterator already excludes the dropped documents. -/
theorem M1_no_failure (cfg : Cfg) (hfix : cfg.sumFreqFix = true) (segs : List SegIn)
    (hwf : WFActive cfg (setupActive segs)) : ∃ r, mergeField cfg segs = .ok r :=
  ⟨_, mergeField_pure cfg hfix segs hwf⟩

theorem M1_droppedDoc_unreachable (cfg : Cfg) (hfix : cfg.sumFreqFix = true) (segs : List SegIn)
    (hwf : WFActive cfg (setupActive segs)) : mergeField cfg segs ≠ .error .droppedDoc := by
  rw [mergeField_pure cfg hfix segs hwf]; intro h; cases h

/-- **M2 (intrinsic)**: the merged dictionary holds, in ascending order, exactly the terms that
    keep at least one posting, each with the concatenation over the segments (in order) of the
    surviving postings renumbered - a term all of whose documents are deleted is not inserted, a
    term present in several segments (the empty term included) is inserted once. -/
theorem M2_intrinsic (cfg : Cfg) (hfix : cfg.sumFreqFix = true) (segs : List SegIn)
    (hwf : WFActive cfg (setupActive segs)) :
    ∃ r, mergeField cfg segs = .ok r ∧
      r.dict.map (fun e => (e.term, e.entries)) =
        (mergedTerms (setupActive segs)).filterMap (fun k =>
          if (termEntries cfg (setupActive segs) k).isEmpty then none
          else some (k, termEntries cfg (setupActive segs) k)) := by
  obtain ⟨r, hr, hd, _⟩ := mergeField_closed cfg hfix segs hwf
  refine ⟨r, hr, ?_⟩
  have h1 : r.dict.map (fun e => (e.term, e.entries)) =
      (r.dict.map coreE).map (fun c => (c.1, c.2.1)) := by
    simp [List.map_map, Function.comp_def, coreE]
  rw [h1, hd]
  generalize mergedTerms (setupActive segs) = ks
  induction ks with
  | nil => rfl
  | cons k ks ih =>
    simp only [List.flatMap_cons, List.map_append, ih, List.filterMap_cons]
    have he : (groupCur cfg (setupActive segs) k).entries = termEntries cfg (setupActive segs) k :=
      allItems_entries cfg _ k
    have hr0 : (groupCur cfg (setupActive segs) k).roaring.length = 0 ↔
        termEntries cfg (setupActive segs) k = [] := by
      rw [← he]
      simp only [groupCur, List.length_eq_zero_iff, bmAddAll_eq_nil, List.map_eq_nil_iff]
    unfold groupCore
    by_cases hz : termEntries cfg (setupActive segs) k = []
    · simp [hr0.2 hz, hz]
    · have : ¬ (groupCur cfg (setupActive segs) k).roaring.length = 0 := fun h => hz (hr0.1 h)
      simp [this, hz, he]

/-- the merged terms are strictly ascending (so `vellum.Builder.Insert` accepts them) -/
theorem M2_terms_ascending (cfg : Cfg) (hfix : cfg.sumFreqFix = true) (segs : List SegIn)
    (hwf : WFActive cfg (setupActive segs)) :
    ∃ r, mergeField cfg segs = .ok r ∧ Asc (r.dict.map (·.term)) := by
  obtain ⟨r, hr, hd⟩ := M2_intrinsic cfg hfix segs hwf
  refine ⟨r, hr, ?_⟩
  have : r.dict.map (·.term) = (r.dict.map (fun e => (e.term, e.entries))).map (·.1) := by
    simp [List.map_map, Function.comp_def]
  rw [this, hd, List.map_filterMap]
  have hasc : Asc (mergedTerms (setupActive segs)) := asc_sortDedup _
  have hsub : List.Sublist
      (List.filterMap (fun k => Option.map (fun x => x.1)
        (if (termEntries cfg (setupActive segs) k).isEmpty then none
         else some (k, termEntries cfg (setupActive segs) k)))
        (mergedTerms (setupActive segs))) (mergedTerms (setupActive segs)) := by
    generalize mergedTerms (setupActive segs) = ks
    induction ks with
    | nil => exact List.Sublist.slnil
    | cons k ks ih =>
      simp only [List.filterMap_cons]
      split
      · exact List.Sublist.cons _ ih
      · next b hb =>
        split at hb
        · cases hb
        · simp at hb; subst hb; exact List.Sublist.cons₂ _ ih
  exact hasc.sublist hsub

/-! ## M2 against `Spec.merge`

  The abstraction function (definitions in `IceModel/Lemmas/MergeLoopSpec.lean`):
    * `absDict s f`      : the FST of field `f` of `s` := `(Spec.terms s f).map (t ↦ (t, Spec.postings s f t))`
    * `absSegIn f s d nd`: `{ dict := some (absDict s f), drops := some d, newDocNums := nd }`
    * `absSegs mode f ins`: one `absSegIn` per input `(s, d)`, with `nd` the corresponding number map
                            of `(Spec.merge mode ins).2`
    * `absCfg mode ins`  : merged field list `(Spec.merge mode ins).1.fields`, chunk mode, and
                            `newSegDocCount := numDocs` of the merge. -/

theorem termEntries_eq (cfg : Cfg) (active : List Active) (k : Bytes) :
    termEntries cfg active k =
      (termPostings active k).map (fun p => encPosting cfg.fieldsInv p.doc p) := by
  unfold termEntries termPostings segEntries
  induction active with
  | nil => rfl
  | cons s r ih =>
    simp only [List.flatMap_cons, List.map_append, ih]
    congr 1
    cases lookupK k s.dict with
    | none => rfl
    | some ps => simp [List.map_map, Function.comp_def, encPosting]

theorem filterMap_nonempty {α β : Type} (l : List α) (g : α → List β) :
    l.filterMap (fun k => if (g k).isEmpty then none else some (k, g k)) =
      (l.filter (fun k => !(g k).isEmpty)).map (fun k => (k, g k)) := by
  induction l with
  | nil => rfl
  | cons a r ih =>
    simp only [List.filterMap_cons, List.filter_cons]
    cases h : (g a).isEmpty <;> simp only [h, Bool.false_eq_true, if_false, if_true, Bool.not_false, Bool.not_true, List.map_cons, ih]

/-- **M2 against the specification**: for the inputs abstracting `ins`, the merge loop of field
    `f` succeeds and writes, in this order, exactly the terms of the merged segment `m`, each
    with the postings `Spec.postings m f t` (document number, frequency, norm; locations
    re-encoded with the merged field ids). -/
theorem M2_spec (mode : Nat) (f : Bytes) (ins : List (AbsSeg × List Nat))
    (hmode : 1 ≤ mode ∧ mode ≤ 1025) (hdocs : 1 ≤ numDocs (merge mode ins).1) :
    ∃ r, mergeField (absCfg mode ins) (absSegs mode f ins) = .ok r ∧
      r.dict.map (fun e => (e.term, e.entries)) =
        (terms (merge mode ins).1 f).map (fun t =>
          (t, (postings (merge mode ins).1 f t).map
            (fun p => encPosting (merge mode ins).1.fields p.doc p))) := by
  have hwf : WFActive (absCfg mode ins) (setupActive (absSegs mode f ins)) := by
    rw [setupActive_absSegs]; exact wfActive_abs mode f ins hmode hdocs
  obtain ⟨r, hr, hd⟩ := M2_intrinsic (absCfg mode ins) rfl (absSegs mode f ins) hwf
  refine ⟨r, hr, ?_⟩
  rw [hd, setupActive_absSegs, filterMap_nonempty]
  have hfil : (mergedTerms (activeFrom f ins 0)).filter
      (fun k => !(termEntries (absCfg mode ins) (activeFrom f ins 0) k).isEmpty) =
      terms (merge mode ins).1 f := by
    rw [← mergedTerms_spec mode f ins]
    congr 1
    funext k
    rw [termEntries_eq, List.isEmpty_map]
  rw [hfil]
  apply List.map_congr_left
  intro t _
  rw [termEntries_eq, termPostings_merge mode]
  rfl

/-- every location of every document names a field of the merged segment (true for built
    segments whose analysis only names fields of the document; the contract of `fieldsMap[…]-1`
    at merge.go:591, 605) -/
def LocFieldsKnown (mode : Nat) (ins : List (AbsSeg × List Nat)) : Prop :=
  ∀ p ∈ ins, ∀ d ∈ p.1.docs, ∀ af ∈ d, ∀ x ∈ af.terms, ∀ l ∈ x.locs,
    l.field ∈ (merge mode ins).1.fields

theorem postingOf_locs {d : ADoc} {i : Nat} {f t : Bytes} {p : Posting}
    (h : postingOf d i f t = some p) : ∃ af ∈ d, ∃ x ∈ af.terms, p.locs = x.locs := by
  unfold postingOf at h
  split at h
  · cases h
  · next af haf =>
    split at h
    · cases h
    · next x hx =>
      cases h
      exact ⟨af, List.mem_of_find?_eq_some haf, x, List.mem_of_find?_eq_some hx, rfl⟩

/-- **M2, read back**: reading the written entries with the merged field list gives exactly
    `Spec.postings m f t` - provided fewer than 2^16 fields and `LocFieldsKnown` -/
theorem M2_spec_read (mode : Nat) (f : Bytes) (ins : List (AbsSeg × List Nat))
    (hmode : 1 ≤ mode ∧ mode ≤ 1025) (hdocs : 1 ≤ numDocs (merge mode ins).1)
    (hlen : (merge mode ins).1.fields.length ≤ 65536) (hloc : LocFieldsKnown mode ins) :
    ∃ r, mergeField (absCfg mode ins) (absSegs mode f ins) = .ok r ∧
      r.dict.map (fun e => (e.term, e.entries.map (MPosting.read (merge mode ins).1.fields))) =
        (terms (merge mode ins).1 f).map (fun t =>
          (t, (postings (merge mode ins).1 f t).map some)) := by
  obtain ⟨r, hr, hd⟩ := M2_spec mode f ins hmode hdocs
  refine ⟨r, hr, ?_⟩
  have : r.dict.map (fun e => (e.term, e.entries.map (MPosting.read (merge mode ins).1.fields))) =
      (r.dict.map (fun e => (e.term, e.entries))).map
        (fun c => (c.1, c.2.map (MPosting.read (merge mode ins).1.fields))) := by
    simp [List.map_map, Function.comp_def]
  rw [this, hd, List.map_map]
  apply List.map_congr_left
  intro t _
  simp only [Function.comp_def, List.map_map, Prod.mk.injEq, true_and]
  apply List.map_congr_left
  intro p hp
  apply read_encPosting _ hlen
  -- the locations of a merged posting come from a surviving document of some input
  obtain ⟨q, hq, hqp⟩ := List.mem_filterMap.1 hp
  have hmem : q.1 ∈ (merge mode ins).1.docs := by
    have := (List.mem_zipIdx hq).2.2
    rw [this]; exact List.getElem_mem _
  rw [merge_docs, List.mem_flatMap] at hmem
  obtain ⟨pi, hpi, hsurv⟩ := hmem
  have hdoc : q.1 ∈ pi.1.docs := by
    rw [survivors_eq] at hsurv; exact mem_keepP hsurv
  obtain ⟨af, haf, x, hx, hl⟩ := postingOf_locs hqp
  intro l hl'
  rw [hl] at hl'
  exact hloc pi hpi q.1 hdoc af haf x hx l hl'

/-! ## M4: the 1-hit encoding -/

/-- **M4**: `finishTerm` chooses the 1-hit encoding for a merged term iff the term has exactly
    one entry, with frequency 1, without locations, with a document number below 2^31 - *and*
    the last segment whose dictionary holds the term contributes that entry
    (`LastHolderContributes`).  The value is then the 1-hit code of that entry's document and
    norm.  Hypothesis `DocsAsc`: the new numbers written for a term ascend and fit 32 bits
    (discharged for `Spec.merge` in `M4_spec`). -/
theorem M4_oneHit (cfg : Cfg) (hfix : cfg.sumFreqFix = true) (segs : List SegIn)
    (hwf : WFActive cfg (setupActive segs)) (hd : ∀ k, DocsAsc (setupActive segs) k) :
    ∃ r, mergeField cfg segs = .ok r ∧ ∀ e ∈ r.dict, ∀ v,
      (e.oneHit = some v ↔
        ∃ p, e.entries = [p] ∧ p.freq = 1 ∧ p.locs = [] ∧ p.doc < 2 ^ 31 ∧
          LastHolderContributes (setupActive segs) e.term ∧ v = encode1Hit p.doc p.norm) := by
  obtain ⟨r, hr, hdict, _⟩ := mergeField_closed cfg hfix segs hwf
  refine ⟨r, hr, ?_⟩
  intro e he v
  have hmem : coreE e ∈ r.dict.map coreE := List.mem_map.2 ⟨e, he, rfl⟩
  rw [hdict, List.mem_flatMap] at hmem
  obtain ⟨k, _, hk⟩ := hmem
  unfold groupCore at hk
  simp only [] at hk
  split at hk
  · cases hk
  · simp only [List.mem_singleton, coreE, Prod.mk.injEq] at hk
    obtain ⟨h1, h2, _, h4⟩ := hk
    rw [h1, h2, h4, use1HitC_iff cfg (setupActive segs) k (hd k) v]
    have hent : (groupCur cfg (setupActive segs) k).entries =
        (allItems (segsOf (setupActive segs) k)).map (encItem cfg.fieldsInv) := rfl
    rw [hent]
    constructor
    · rintro ⟨np, hnp, hf, hl, h31, hlast, rfl⟩
      refine ⟨encItem cfg.fieldsInv np, by rw [hnp]; rfl, hf, ?_, h31, hlast, rfl⟩
      simp [encItem, encPosting, hl]
    · rintro ⟨p, hp, hf, hl, h31, hlast, rfl⟩
      rcases hits : allItems (segsOf (setupActive segs) k) with _ | ⟨np, _ | ⟨b, rest⟩⟩
      · rw [hits] at hp; cases hp
      · rw [hits] at hp
        simp only [List.map_cons, List.map_nil, List.cons.injEq, and_true] at hp
        subst hp
        refine ⟨np, rfl, hf, ?_, h31, hlast, rfl⟩
        simpa [encItem, encPosting] using hl
      · rw [hits] at hp; simp at hp

/-- decoding the 1-hit value gives back the document number and the norm of the entry (norm
    bits of a positive float32 are below 2^31) -/
theorem M4_decode (p : MPosting) (hd : p.doc < 2 ^ 31) (hn : p.norm < 2 ^ 31) :
    Ice.Model.decode1Hit (Ice.Model.encode1Hit p.doc p.norm) = (p.doc, p.norm) :=
  Ice.Model.decode_encode1Hit p.doc p.norm hd hn

theorem allItems_docs (active : List Active) (k : Bytes) :
    (allItems (segsOf active k)).map (fun np => np.1) = (termPostings active k).map (·.doc) := by
  unfold allItems segsOf termPostings
  induction active with
  | nil => rfl
  | cons s r ih =>
    simp only [List.filterMap_cons, List.flatMap_cons, List.map_append]
    cases lookupK k s.dict with
    | none => exact ih
    | some ps =>
      simp only [Option.map_some, List.flatMap_cons, List.map_append, ih, itemsOf,
        List.map_map, Function.comp_def]

/-- the abstraction of `Spec.merge` writes ascending document numbers -/
theorem docsAsc_abs (mode : Nat) (f : Bytes) (ins : List (AbsSeg × List Nat))
    (hsize : numDocs (merge mode ins).1 ≤ 2 ^ 32) (k : Bytes) :
    DocsAsc (activeFrom f ins 0) k := by
  have hd := allItems_docs (activeFrom f ins 0) k
  rw [termPostings_merge mode] at hd
  constructor
  · rw [hd]; exact postings_doc_sorted _ f k
  · intro np hnp
    have : np.1 ∈ (postings (merge mode ins).1 f k).map (·.doc) := by
      rw [← hd]; exact List.mem_map.2 ⟨np, hnp, rfl⟩
    obtain ⟨p, hp, hpe⟩ := List.mem_map.1 this
    have := postings_doc_lt _ f k p hp
    unfold numDocs at hsize
    omega

/-- **M4 for `Spec.merge`** -/
theorem M4_spec (mode : Nat) (f : Bytes) (ins : List (AbsSeg × List Nat))
    (hmode : 1 ≤ mode ∧ mode ≤ 1025) (hdocs : 1 ≤ numDocs (merge mode ins).1)
    (hsize : numDocs (merge mode ins).1 ≤ 2 ^ 32) :
    ∃ r, mergeField (absCfg mode ins) (absSegs mode f ins) = .ok r ∧ ∀ e ∈ r.dict, ∀ v,
      (e.oneHit = some v ↔
        ∃ p, e.entries = [p] ∧ p.freq = 1 ∧ p.locs = [] ∧ p.doc < 2 ^ 31 ∧
          LastHolderContributes (activeFrom f ins 0) e.term ∧ v = encode1Hit p.doc p.norm) := by
  have hwf : WFActive (absCfg mode ins) (setupActive (absSegs mode f ins)) := by
    rw [setupActive_absSegs]; exact wfActive_abs mode f ins hmode hdocs
  have := M4_oneHit (absCfg mode ins) rfl (absSegs mode f ins) hwf
    (by rw [setupActive_absSegs]; exact docsAsc_abs mode f ins hsize)
  rw [setupActive_absSegs] at this
  exact this

private def P (d fr n : Nat) : Posting := { doc := d, freq := fr, norm := n, locs := [] }

/-- `LastHolderContributes` is needed: `lastDocNum/lastFreq/lastNorm` are overwritten by every
    call of `mergeTermFreqNormLocs` (merge.go:305), also by one that finds no surviving posting.
    Term "a" has one surviving posting (segment 0), but segment 1 holds "a" only in a deleted
    document: the general encoding is used although the entry qualifies for 1-hit.  The reversed
    order of the segments gives 1-hit.  (A missed optimisation, not a wrong result: the
    general encoding of one posting is valid.) -/
example :
    let s0 : SegIn := { dict := some [([97], [P 0 1 7])], drops := none, newDocNums := [some 0] }
    let s1 : SegIn := { dict := some [([97], [P 0 1 9])], drops := some [0], newDocNums := [none] }
    let cfg : Cfg := { fieldsInv := [idField], chunkMode := 1025, newSegDocCount := 1 }
    (mergeField cfg [s0, s1]).toOption.map (fun r => r.dict.map (fun e => (e.entries, e.oneHit)))
      = some [([⟨0, 1, 7, []⟩], none)] ∧
    (mergeField cfg [{ s1 with newDocNums := [none] }, { s0 with newDocNums := [some 0] }]).toOption.map
        (fun r => r.dict.map (fun e => (e.entries, e.oneHit)))
      = some [([⟨0, 1, 7, []⟩], some (encode1Hit 0 7))] := by
  decide

/-! ## a concrete merge against the specification (non-vacuity; checked by the kernel)

  Three abstract segments, field "f": the empty term in two segments, term "c" only in a deleted
  document, one deletion in the first and one in the third segment. -/

private def exDoc (ts : List (Bytes × Nat)) : ADoc :=
  [{ name := [102], length := 3, norm := 9,
     terms := ts.map (fun t => { term := t.1, freq := t.2, locs := [⟨[102], 1, 0, 1⟩] }),
     stored := [], dv := false }]
private def exA : AbsSeg :=
  { docs := [exDoc [([], 1), ([97], 2)], exDoc [([97], 1)]], fields := [idField, [102]],
    fieldDocs := [0, 2], fieldFreqs := [0, 4], chunkMode := 1025 }
private def exB : AbsSeg :=
  { docs := [exDoc [([], 3), ([98], 1)]], fields := [idField, [102]],
    fieldDocs := [0, 1], fieldFreqs := [0, 4], chunkMode := 1025 }
private def exC : AbsSeg :=
  { docs := [exDoc [([99], 1)], exDoc [([97], 1)]], fields := [idField, [102]],
    fieldDocs := [0, 2], fieldFreqs := [0, 2], chunkMode := 1025 }
private def exIns : List (AbsSeg × List Nat) := [(exA, [1]), (exB, []), (exC, [0])]

/-- the loop's dictionary (read back), `fieldDocs` and `fieldFreqs` are those of `Spec.merge` -/
example :
    (mergeField (absCfg 1025 exIns) (absSegs 1025 [102] exIns)).toOption.map
      (fun r => (r.dict.map (fun e =>
          (e.term, e.entries.map (MPosting.read (merge 1025 exIns).1.fields))),
        r.fieldDocs, r.fieldFreq))
    = some ((terms (merge 1025 exIns).1 [102]).map
              (fun t => (t, (postings (merge 1025 exIns).1 [102] t).map some)),
            (stats (merge 1025 exIns).1 [102]).2.1, (stats (merge 1025 exIns).1 [102]).2.2) := by
  decide

example : (terms (merge 1025 exIns).1 [102]) = [[], [97], [98]] := by decide

-- UNPROVED:
--  * `DictEntry.card = entries.length` (the cardinality `prepareNewTerm` computes up front, from
--    which the chunk size is derived, equals the number of postings then written).  `coreE`
--    leaves `card`/`chunkSize` out; needed: `(groupSt …).card = termCard active k` (from
--    `cardLoop_ok` + `prepVals`) and `termCard = (allItems …).length`.
--  * `(triples ls).length = (ls.map List.length).sum` as a separate statement (it follows from
--    `E1_mem` + `E1_nodup` + the keys of each iterator being distinct).
--  * the case `numDocs = 0` of the merge: `persistMergedRest` is then not called (merge.go:137),
--    the loop is not run, all dictionaries are empty; `M2_spec`/`C16_merge_model` assume
--    `1 ≤ numDocs`.
--  * uint64 wrap-around of `fieldFreqs`, `fieldDocs`, `sumFreq`, `newCard` is not modelled (the
--    counters are naturals).

end Ice.Props.C02Model
