import IceModel.Model.Writer
import IceModel.Lemmas.Writer
/-
  Property C12: a failing writer or a cancelled merge never yields silent success.
-/
namespace Ice.Props.C12
open Ice Ice.Model.Writer

/-- `Merger.WriteTo` through a bufio writer of any size: if ANY call of the destination writer
    returned an error, the result is an error - even if the code ignored the error of every
    individual write (`honour` arbitrary): the bufio error is sticky and the final `Flush` is
    examined.  If no call failed, exactly the script reached the destination and the byte count
    returned is its length. -/
theorem C12_merger (s : Sink) (hs : s.WellBehaved) (h : CRC) (honour : Nat → Bool) (size : Nat)
    (hsize : 0 < size) (W : List Bytes) :
    let r := mergerWriteTo s h honour size W
    (r.2.erred = true → r.1 = .error) ∧
    (r.2.erred = false → r.1 = .ok W.flatten.length ∧ r.2.got = W.flatten) := by
  -- (`hsize` is not needed: the model is also correct for a zero-size buffer)
  have _ := hsize
  exact mergerWriteTo_spec hs h honour size W

/-- `Segment.WriteTo`: data directly (error examined), footer through bufio, `Flush` examined. -/
theorem C12_segment (s : Sink) (hs : s.WellBehaved) (h : CRC) (data : Bytes) (f : Footer) :
    let r := segmentWriteTo s h data f
    (r.2.erred = true → r.1 = .error) ∧
    (r.2.erred = false → r.1 = .ok (data.length + 44) ∧
        r.2.got = data ++ persistFooter h { f with crc := h.upd 0 data }) := by
  exact segmentWriteTo_spec hs h data f

/-- a writer that accepts `k` bytes in total and then fails (the harness's sweep writer) -/
def failAfter (k : Nat) : Sink :=
  { beh := fun _ got n => if got + n ≤ k then ⟨n, false⟩ else ⟨k - got, true⟩ }

theorem failAfter_wellBehaved (k : Nat) : (failAfter k).WellBehaved := by
  intro i got n
  simp only [failAfter]
  split
  · exact ⟨Nat.le_refl _, fun h => absurd h (Nat.lt_irrefl _)⟩
  · exact ⟨by simp only; omega, fun _ => rfl⟩

/-- `failAfter k` never accepts more than `k` bytes in total -/
theorem failAfter_got_le (k : Nat) : SinkPres (failAfter k) (fun st => st.got.length ≤ k) := by
  intro st p h
  simp only [sinkWrite_def, failAfter, List.length_append, List.length_take]
  split <;> simp only <;> omega

/-- the sweep of the correspondence leg, as a theorem: failing before the last byte ⇒ error -/
theorem C12_sweep (h : CRC) (honour : Nat → Bool) (size : Nat) (hsize : 0 < size) (W : List Bytes)
    (k : Nat) (hk : k < W.flatten.length) :
    (mergerWriteTo (failAfter k) h honour size W).1 = .error := by
  have hspec := C12_merger (failAfter k) (failAfter_wellBehaved k) h honour size hsize W
  have hle : (mergerWriteTo (failAfter k) h honour size W).2.got.length ≤ k :=
    mergerWriteTo_pres (failAfter_got_le k) h honour size W (Nat.zero_le _)
  cases he : (mergerWriteTo (failAfter k) h honour size W).2.erred
  · have := (hspec.2 he).2
    rw [this] at hle
    omega
  · exact hspec.1 he

/-! ### cancellation -/

/-- one step of a merge as far as cancellation is concerned -/
inductive Step where
  | write (p : Bytes)
  | poll (returnsErrClosed : Bool)     -- what the code does when it finds the channel closed

inductive MergeResult where
  | errClosed
  | done (written : Bytes)
  | partialSuccess (written : Bytes)    -- success reported although a poll saw the channel closed
deriving DecidableEq, Repr

/-- run a merge; `closedAt i` = the channel is closed when step `i` runs (monotone) -/
def runMerge (closedAt : Nat → Bool) : List Step → Nat → Bytes → Bool → MergeResult
  | [], _, out, sawClosed => if sawClosed then .partialSuccess out else .done out
  | .write p :: r, i, out, sc => runMerge closedAt r (i + 1) (out ++ p) sc
  | .poll ret :: r, i, out, sc =>
    if closedAt i then
      if ret then .errClosed else runMerge closedAt r (i + 1) out true
    else runMerge closedAt r (i + 1) out sc

def writesOf : List Step → Bytes
  | [] => []
  | .write p :: r => p ++ writesOf r
  | .poll _ :: r => writesOf r

/-- if every poll answers a closed channel with ErrClosed (the generated fact
    `Gen.WriteSites.closePolls`), a merge ends in ErrClosed or with the complete output -/
theorem C12_cancel (closedAt : Nat → Bool) (steps : List Step)
    (hp : ∀ st ∈ steps, ∀ b, st = Step.poll b → b = true) :
    runMerge closedAt steps 0 [] false = .errClosed ∨
    runMerge closedAt steps 0 [] false = .done (writesOf steps) := by
  have key : ∀ (steps : List Step), (∀ st ∈ steps, ∀ b, st = Step.poll b → b = true) →
      ∀ (i : Nat) (out : Bytes),
        runMerge closedAt steps i out false = .errClosed ∨
        runMerge closedAt steps i out false = .done (out ++ writesOf steps) := by
    intro steps
    induction steps with
    | nil => intro _ i out; right; simp [runMerge, writesOf]
    | cons st r ih =>
      intro hp i out
      have hr : ∀ st ∈ r, ∀ b, st = Step.poll b → b = true :=
        fun st hst => hp st (List.mem_cons_of_mem _ hst)
      cases st with
      | write p =>
        simp only [runMerge, writesOf]
        rw [← List.append_assoc]
        exact ih hr (i + 1) (out ++ p)
      | poll ret =>
        have hret : ret = true := hp (.poll ret) (List.mem_cons_self ..) ret rfl
        subst hret
        simp only [runMerge, writesOf]
        split
        · left; rfl
        · exact ih hr (i + 1) out
  simpa using key steps hp 0 []

/-- non-vacuity: a poll that does not return lets a partial success through -/
example : runMerge (fun _ => true) [.write [1], .poll false, .write [2]] 0 [] false
    = .partialSuccess [1, 2] := by decide

end Ice.Props.C12
