import IceModel.Props.C04
import IceModel.Lemmas.FormatTotal
import IceModel.Lemmas.FormatTotalNew
import IceModel.Lemmas.FormatTotalBacking
/-
  Property C04, the three items `Props/C04.lean` left open.

  1. TOTALITY OF THE WRITER.
       C04_total        `serialize K L` succeeds for every `Valid' K L` (`Valid` without `size`)
       serialize_ok     (Lemmas/FormatTotal.lean) the same from the three hypotheses actually
                        used: `numDocs < 2^32`, `1 ≤ chunkMode ≤ 1025`, valid fields
       valid_iff        `Valid K L ↔ Valid' K L ∧ the output is shorter than 2^62 - 44 bytes`
       total_needs_*    each hypothesis is needed: concrete descriptions on which the writer
                        returns an error / panics
       exm_valid'       a merger description (1-hit term, progressive doc values) is valid
     No size bound is needed for totality: positions are `uint64` with wrap-around, which never
     fails.  The size bound of `Valid` is needed for READING the file back (C04_footer … ).
     Consequently every theorem of `Props/C04.lean` holds without the hypothesis `hs`
     (`C04_written`: a valid description is written and the file loads).

  2. ONE LOADED VALUE FOR BOTH BACKINGS.
       load_toFile      (Lemmas/FormatTotalBacking.lean) for ANY file: if the memory-backed
                        `load` succeeds, the file-backed `load` returns the same value with the
                        backing flag flipped (`Loaded.toFile`)
       C04_backing_irrelevant   for a written segment both succeed, the two `Loaded` values differ
                        only in `data.mem`: same footer, fields, statistics, dictionary
                        locations, stored chunk offsets, EQUAL doc-value reader structures
                        (`DocValues.Reader` has no backing flag); the stored-fields reader is the
                        same; `dictionaryOf` agrees for every field id; `readPostings`, `store`
                        and every sequence of doc-value visits agree wherever the memory-backed
                        one succeeds (which is everywhere C04_postings / C04_dv speak about).

  3. THE SEGMENT `New` RETURNS (no file).
       initSegment      (Lemmas/FormatTotalNew.lean) `New` from `convert` on, `initSegmentBase`,
                        code after commit 6ad80a3 (`footer.crc = footerCRC(footer)`);
                        `initSegmentV0` the code before it
       C04_new_eq_load  the segment `New` returns and the segment loaded (memory-backed) from the
                        persisted file are EQUAL (`ld = nw`), `Segment.CRC()` included
       C04_new          the same with totality
       C04_new_v0_eq_load   before the fix: equal up to ONE observable, the checksum slot of the
                        footer (`New` stored the CRC-32 of the data section, a loaded segment
                        holds the CRC-32 of the file without its last four bytes); all readers
                        were the same functions of the same values
       C04_new_eq_v0    the repaired segment is the pre-fix one with the checksum slot corrected
       C04_new_crc_v0_counterexample   pre-fix: full equality was false (the example segment);
                        `C04_new_crc_counterexample` is an alias (registered name)
-/
namespace Ice.Props.C04
open Ice Ice.Model Ice.Model.Format
open Ice.Model.Writer (be unbe Footer footerFields persistFooter parseFooter CRC)
open Ice.Model.ChunkBytes (Entry Coder tfAdds locAdds uvarintU64 Fresh)
open Ice.Model.DocValues (add64 sub64 maxUint64 Data OkLe)

/-! ## 1. totality of the writer -/

/-- `Valid` without the bound on the size of the output (the only field of `Valid` that mentions
    the result of `serialize`) -/
structure Valid' (K : Codecs) (L : LSeg) : Prop where
  id_first : L.fields.head?.map (·.name) = some idField
  nfields : L.fields.length < 2 ^ 16
  numDocs_eq : L.numDocs = L.stored.length
  numDocs_lt : L.numDocs < 2 ^ 32
  mode : 1 ≤ L.chunkMode ∧ L.chunkMode ≤ 1025
  fields : ∀ f ∈ L.fields, f.Valid L.merger L.numDocs
  empty : L.numDocs = 0 → ∀ f ∈ L.fields,
    f.terms = [] ∧ f.dv = none ∧ f.fieldDocs = 0 ∧ f.fieldFreqs = 0
  stored : C06.Valid K.stored docBlock L.fields.length L.stored
  trailer : ((storedOut K L).chunkOffsets.flatMap putUvarint).length < 2 ^ 32 ∧
    (storedOut K L).chunkOffsets.length < 2 ^ 32

theorem Valid.toValid' {K : Codecs} {L : LSeg} (hv : Valid K L) : Valid' K L :=
  ⟨hv.id_first, hv.nfields, hv.numDocs_eq, hv.numDocs_lt, hv.mode, hv.fields, hv.empty, hv.stored,
    hv.trailer⟩

/-- **C04_total: the writer is total on valid descriptions.**  Every error branch of the model
    (`getChunkSize`: unknown mode; `Coder.new` / `SetChunkSize`: division by zero, negative
    length; `Coder.add` / `Close`: chunk index out of range; `writeTerm`: 1-hit in the builder or
    beyond 31 bits; `writeField`: vellum key order; the content coder of the doc values) is
    excluded by `Valid'`. -/
theorem C04_total (K : Codecs) (L : LSeg) (hv : Valid' K L) :
    ∃ data ft, serialize K L = .ok (data, ft) :=
  serialize_ok K L hv.numDocs_lt hv.mode (fun _ => hv.fields)

theorem Valid'.toValid {K : Codecs} {L : LSeg} (hv : Valid' K L) {data : Bytes} {ft : Footer}
    (hs : serialize K L = .ok (data, ft)) (hsz : data.length + 44 < 2 ^ 62) : Valid K L :=
  ⟨hv.id_first, hv.nfields, hv.numDocs_eq, hv.numDocs_lt, hv.mode, hv.fields, hv.empty, hv.stored,
    hv.trailer, by rw [hs]; exact hsz⟩

/-- `Valid` is `Valid'` plus: the (existing) output is shorter than `2^62 - 44` bytes -/
theorem valid_iff (K : Codecs) (L : LSeg) :
    Valid K L ↔ Valid' K L ∧ ∃ data ft, serialize K L = .ok (data, ft) ∧ data.length + 44 < 2 ^ 62 := by
  constructor
  · intro hv
    obtain ⟨data, ft, hs⟩ := C04_total K L hv.toValid'
    exact ⟨hv.toValid', data, ft, hs, hv.size_lt hs⟩
  · rintro ⟨hv, data, ft, hs, hsz⟩
    exact hv.toValid hs hsz

/-- **C04 without the hypothesis "has been written".**  A valid description is written, and the
    file loads for both backings (all theorems of `Props/C04.lean` apply to `data`, `ft`). -/
theorem C04_written (K : Codecs) (L : LSeg) (hv : Valid K L) (mem : Bool) :
    ∃ data ft ld, serialize K L = .ok (data, ft) ∧ load mem (fileOf K data ft) = .ok ld := by
  obtain ⟨data, ft, hs⟩ := C04_total K L hv.toValid'
  obtain ⟨ld, hl, _⟩ := C04_fields K L hv data ft hs mem
  exact ⟨data, ft, ld, hs, hl⟩

instance (K : Codecs) (L : LSeg) : Decidable (Valid' K L) :=
  decidable_of_iff
    (L.fields.head?.map (·.name) = some idField ∧ L.fields.length < 2 ^ 16 ∧
      L.numDocs = L.stored.length ∧ L.numDocs < 2 ^ 32 ∧ (1 ≤ L.chunkMode ∧ L.chunkMode ≤ 1025) ∧
      (∀ f ∈ L.fields, f.Valid L.merger L.numDocs) ∧
      (L.numDocs = 0 → ∀ f ∈ L.fields,
        f.terms = [] ∧ f.dv = none ∧ f.fieldDocs = 0 ∧ f.fieldFreqs = 0) ∧
      C06.Valid K.stored docBlock L.fields.length L.stored ∧
      (((storedOut K L).chunkOffsets.flatMap putUvarint).length < 2 ^ 32 ∧
        (storedOut K L).chunkOffsets.length < 2 ^ 32))
    ⟨fun ⟨a, b, c, d, e, f, g, h, i⟩ => ⟨a, b, c, d, e, f, g, h, i⟩,
     fun ⟨a, b, c, d, e, f, g, h, i⟩ => ⟨a, b, c, d, e, f, g, h, i⟩⟩

/-- non-vacuity: the example segment of `Props/C04.lean` -/
theorem ex_valid' : Valid' exK exL := ex_valid.toValid'

example : ∃ data ft, serialize exK exL = .ok (data, ft) := C04_total exK exL ex_valid'

/-- a merged segment: as `exL`, written by the merger, the first `_id` term 1-hit encoded -/
def exLm : LSeg :=
  { merger := true, numDocs := 3, chunkMode := 2,
    fields := [
      { name := idField, fieldDocs := 3, fieldFreqs := 3,
        terms := [([48], .oneHit 0 7), ([49], .general [⟨1, 1, 7, []⟩]),
                  ([50], .general [⟨2, 1, 7, []⟩])],
        dv := none },
      { name := [102], fieldDocs := 3, fieldFreqs := 5,
        terms := [([97], .general [⟨0, 2, 9, [⟨1, 1, 0, 1⟩, ⟨1, 3, 4, 5⟩]⟩, ⟨1, 1, 9, []⟩, ⟨2, 1, 300, []⟩]),
                  ([98], .general [⟨1, 1, 9, [⟨1, 2, 2, 3⟩]⟩])],
        dv := some [(0, [[97]]), (1, [[97], [98]]), (2, [[97]])] } ],
    stored := exL.stored }

set_option maxRecDepth 100000 in
theorem exm_valid' : Valid' exK exLm := by
  refine ⟨rfl, by decide, rfl, by decide, by decide, ?_, (fun h => by cases h), ex_valid.stored,
    ex_valid.trailer⟩
  intro f hf
  simp only [exLm, List.mem_cons, List.not_mem_nil, or_false] at hf
  rcases hf with rfl | rfl
  · refine ⟨by decide, by decide, by decide, by decide, by decide, fun v h => by cases h⟩
  · refine ⟨by decide, by decide, by decide, by decide, by decide, ?_⟩
    intro v h
    simp only [Option.some.injEq] at h
    subst h
    refine ⟨by decide, by decide, by decide, by decide, ?_, ?_⟩
    · simp [C07.rawSize, DocValues.encVals, DocValues.dataOf, DocValues.docBytes]
    · intro q hq
      simp only [List.mem_cons, List.not_mem_nil, or_false] at hq
      rcases hq with rfl | rfl | rfl <;> intro t ht <;> simp at ht <;>
        (try rcases ht with rfl | rfl) <;> (try subst ht) <;> simp

/-- non-vacuity for the merger (progressive doc-value coder, a 1-hit term) -/
example : ∃ data ft, serialize exK exLm = .ok (data, ft) := C04_total exK exLm exm_valid'

/-! ### every hypothesis the totality proof uses is needed

  One field `_id`, three documents (the stored content of `exL`); each description violates one
  hypothesis of `serialize_ok` and the writer fails in the corresponding branch. -/

def exBad (merger : Bool) (mode : Nat) (terms : List (Bytes × TermDesc))
    (dv : Option (List (Nat × List Bytes))) : LSeg :=
  { merger := merger, numDocs := 3, chunkMode := mode,
    fields := [{ name := idField, fieldDocs := 3, fieldFreqs := 3, terms := terms, dv := dv }],
    stored := exL.stored }

set_option maxRecDepth 100000 in
/-- `chunkMode ≤ 1025`: `getChunkSize` returns an error for an unknown mode -/
theorem total_needs_mode_known :
    serialize exK (exBad false 1026 [([48], .general [⟨0, 1, 7, []⟩])] none) = .err := by
  unfold serialize serializeWith
  simp [exBad, new_ex, foldW, writeField, writeTerm, TermDesc.entries, getChunkSize]

set_option maxRecDepth 100000 in
/-- `1 ≤ chunkMode`: `SetChunkSize(0, …)` divides by zero -/
theorem total_needs_mode_pos :
    serialize exK (exBad false 0 [([48], .general [⟨0, 1, 7, []⟩])] none) = .panic := by
  unfold serialize serializeWith
  simp [exBad, new_ex, foldW, writeField, writeTerm, TermDesc.entries, getChunkSize,
    ChunkBytes.Coder.setChunkSize, ChunkBytes.totalChunks]

set_option maxRecDepth 100000 in
/-- `TermDesc.Valid`: the builder has no 1-hit encoding -/
theorem total_needs_no_1hit_in_builder :
    serialize exK (exBad false 2 [([48], .oneHit 0 7)] none) = .err := by
  unfold serialize serializeWith
  simp [exBad, new_ex, foldW, writeField,
    writeTerm, TermDesc.entries, getChunkSize, c0, ChunkBytes.Coder.setChunkSize,
    ChunkBytes.totalChunks, ChunkBytes.Coder.capLens, two64, ChunkBytes.two63,
    ChunkBytes.Coder.encode, ChunkBytes.Coder.addAll, ChunkBytes.Coder.add, ChunkBytes.Coder.close,
    ChunkBytes.tfAdds, ChunkBytes.locAdds, ChunkBytes.locAddsOf, encodeFreqHasLocs, exK, Codecs.chunk]

set_option maxRecDepth 100000 in
/-- `EntriesOK`: a posting for document 5 of a 3-document segment: `chunkLens[currChunk]` is out
    of range in `Close` -/
theorem total_needs_doc_range :
    serialize exK (exBad false 2 [([48], .general [⟨5, 1, 7, []⟩])] none) = .panic := by
  unfold serialize serializeWith
  simp [exBad, new_ex, foldW, writeField,
    writeTerm, TermDesc.entries, getChunkSize, c0, ChunkBytes.Coder.setChunkSize,
    ChunkBytes.totalChunks, ChunkBytes.Coder.capLens, two64, ChunkBytes.two63,
    ChunkBytes.Coder.encode, ChunkBytes.Coder.addAll, ChunkBytes.Coder.add, ChunkBytes.Coder.close,
    ChunkBytes.tfAdds, ChunkBytes.locAdds, ChunkBytes.locAddsOf, encodeFreqHasLocs, exK, Codecs.chunk]

set_option maxRecDepth 100000 in
/-- `ascKeys`: vellum's `Insert` refuses a key that is not above the previous one -/
theorem total_needs_asc_keys :
    serialize exK (exBad false 2
      [([49], .general [⟨0, 1, 7, []⟩]), ([48], .general [⟨1, 1, 7, []⟩])] none) = .err := by
  unfold serialize serializeWith
  rw [show (exBad false 2 [([49], .general [⟨0, 1, 7, []⟩]), ([48], .general [⟨1, 1, 7, []⟩])]
    none).stored = exL.stored from rfl, stored_ex]
  simp [exBad, new_ex, foldW, writeField,
    writeTerm, TermDesc.entries, getChunkSize, c0, ChunkBytes.Coder.setChunkSize,
    ChunkBytes.totalChunks, ChunkBytes.Coder.capLens, two64, ChunkBytes.two63,
    ChunkBytes.Coder.encode, ChunkBytes.Coder.addAll, ChunkBytes.Coder.add, ChunkBytes.Coder.close,
    ChunkBytes.tfAdds, ChunkBytes.locAdds, ChunkBytes.locAddsOf, encodeFreqHasLocs,
    ChunkBytes.Coder.writeAt, ChunkBytes.Coder.write, ChunkBytes.Coder.chunkLens,
    ChunkBytes.endOffsets, ChunkBytes.Coder.reset, postingsRecord, u64, exK, Codecs.chunk,
    putUvarint_small, DocValues.sub64, fstEntries, ascKeys, Bytes.lt, Bytes.cmp, exStored]

set_option maxRecDepth 100000 in
/-- `C07.Valid`: a doc value for document 1024 of a 3-document segment: `chunkLens[currChunk]` is
    out of range in `flushContents` -/
theorem total_needs_dv_range :
    serialize exK (exBad false 2 [] (some [(1024, [[97]])])) = .panic := by
  unfold serialize serializeWith
  rw [show (exBad false 2 [] (some [(1024, [[97]])])).stored = exL.stored from rfl, stored_ex]
  simp [exBad, new_ex, foldW, writeField, fstEntries, ascKeys,
    DocValues.buildField, DocValues.Coder.new, DocValues.addAll, DocValues.Coder.add,
    DocValues.Coder.flush, DocValues.Coder.write, DocValues.encVals, DocValues.docBytes, dvChunk, two64]

/-! ## 3. the segment `New` returns

  `initSegment` is the code after commit 6ad80a3 (`footer.crc = footerCRC(footer)`),
  `initSegmentV0` the code before it (`footer.crc = s.w.Sum32()` only). -/

/-- the segment `initSegmentBase` built BEFORE commit 6ad80a3 (checksum of the data section) -/
def newSegV0 (K : Codecs) (L : LSeg) (data : Bytes) (ft : Footer) (dictLocs : List Nat)
    (rs : List (Option DocValues.Reader)) : Loaded :=
  { data := { bytes := data, mem := true }, footer := { ft with crc := K.crc.upd 0 data },
    fieldsInv := L.fields.map (·.name), dictLocs := dictLocs,
    fieldDocs := L.fields.map (·.fieldDocs), fieldFreqs := L.fields.map (·.fieldFreqs),
    storedChunkOffsets := (storedOut K L).chunkOffsets, dvReaders := rs }

/-- replace the checksum slot of the footer -/
def _root_.Ice.Model.Format.Loaded.withCrc (ld : Loaded) (c : Nat) : Loaded := { ld with footer := { ld.footer with crc := c } }

theorem newSegV0_withCrc (K : Codecs) (L : LSeg) (data : Bytes) (ft : Footer) (dictLocs : List Nat)
    (rs : List (Option DocValues.Reader)) :
    (newSegV0 K L data ft dictLocs rs).withCrc (K.crc.upd 0 (data ++ footerFields ft)) =
      loadedSeg K L data ft true dictLocs rs := rfl

/-- `New` (repaired and pre-fix) and persist + `load`, side by side: the same tables, the same
    doc-value readers; the repaired `New` builds literally the value `load` builds -/
theorem new_and_load {K : Codecs} {L : LSeg} (hv : Valid K L) {data : Bytes} {ft : Footer}
    (hs : serialize K L = .ok (data, ft)) :
    ∃ mid dictLocs rs, Written K L data ft mid dictLocs ∧
      convert K L = .ok (data, ft, dictLocs, (storedOut K L).chunkOffsets) ∧
      initSegmentV0 K L = .ok (newSegV0 K L data ft dictLocs rs) ∧
      initSegment K L = .ok (loadedSeg K L data ft true dictLocs rs) ∧
      load true (fileOf K data ft) = .ok (loadedSeg K L data ft true dictLocs rs) := by
  obtain ⟨dl, offs, hc⟩ := convert_of_serialize hs
  obtain ⟨rfl, mid, h1, h2, h3⟩ := convert_inv K L data ft dl offs hv.numDocs_lt hc
  have hw : Written K L data ft mid dl := ⟨h1, h2, h3, hv.size_lt hs⟩
  obtain ⟨rs, hrs, -⟩ := loadDv_written hv hw true (K.crc.upd 0 (data ++ footerFields ft))
  refine ⟨mid, dl, rs, hw, hc, ?_, ?_, ?_⟩
  · have hrs' : loadDvReaders { bytes := data, mem := true } { ft with crc := K.crc.upd 0 data }
        (L.fields.map (·.name)) = .ok rs := hrs
    unfold initSegmentV0
    rw [hc]
    simp only [ChunkBytes.ok_bind, hrs', ChunkBytes.pure_eq_ok]
    rfl
  · have hrs' : loadDvReaders { bytes := data, mem := true }
        { ft with crc := K.crc.upd 0 (data ++ footerFields ft) } (L.fields.map (·.name)) = .ok rs := hrs
    unfold initSegment
    rw [hc]
    simp only [ChunkBytes.ok_bind, footerCRC_eq, hrs', ChunkBytes.pure_eq_ok]
    rfl
  · unfold load
    rw [C04_footer K L hv data ft hs]
    simp only [data_of_file]
    have h1 := loadFields_written hv hw true
    have h2 := loadStored_written hv hw
    simp only [h1, ChunkBytes.ok_bind, h2, hrs, ChunkBytes.pure_eq_ok]
    rfl

/-- **C04_new_eq_load** (code after commit 6ad80a3).  The segment `New` returns (built by
    `initSegmentBase` from the builder's tables and the data section, nothing parsed) and the
    segment `load` builds, memory-backed, from the persisted file are EQUAL: `load` re-parses
    exactly the tables the builder held in memory (`fieldsInv`, `fieldDocs`, `fieldFreqs`,
    `dictLocs`, `storedFieldChunkOffsets`), opens the same doc-value readers, and finds in the
    last four bytes of the file the checksum `footerCRC` computed for the in-memory footer.
    Hence every reader of the segment - `Segment.CRC()` included - gives the same answer on
    both: "reading a freshly built segment" is "reading it after persist + load". -/
theorem C04_new_eq_load (K : Codecs) (L : LSeg) (hv : Valid K L) (data : Bytes) (ft : Footer)
    (hs : serialize K L = .ok (data, ft)) :
    ∃ nw ld, initSegment K L = .ok nw ∧ load true (fileOf K data ft) = .ok ld ∧
      ld = nw ∧
      nw.footer = { ft with crc := K.crc.upd 0 (data ++ footerFields ft) } ∧
      nw.data = { bytes := data, mem := true } := by
  obtain ⟨mid, dl, rs, _, _, _, hn, hl⟩ := new_and_load hv hs
  exact ⟨_, _, hn, hl, rfl, rfl, rfl⟩

/-- … and with totality: `New` succeeds on every valid description, and what it returns is what
    loading the persisted segment (memory-backed) gives -/
theorem C04_new (K : Codecs) (L : LSeg) (hv : Valid K L) :
    ∃ data ft nw, serialize K L = .ok (data, ft) ∧ initSegment K L = .ok nw ∧
      load true (fileOf K data ft) = .ok nw := by
  obtain ⟨data, ft, hs⟩ := C04_total K L hv.toValid'
  obtain ⟨nw, ld, hn, hl, he, _⟩ := C04_new_eq_load K L hv data ft hs
  exact ⟨data, ft, nw, hs, hn, he ▸ hl⟩

/-- **the code before commit 6ad80a3**: the segment `New` returned and the loaded one are the same
    value except for the checksum slot of the footer (`New` stored the CRC-32 of the data section,
    `load` finds the CRC-32 of the file without its last four bytes); all other components and
    all readers that do not look at the checksum agree. -/
theorem C04_new_v0_eq_load (K : Codecs) (L : LSeg) (hv : Valid K L) (data : Bytes) (ft : Footer)
    (hs : serialize K L = .ok (data, ft)) :
    ∃ nw ld, initSegmentV0 K L = .ok nw ∧ load true (fileOf K data ft) = .ok ld ∧
      ld = nw.withCrc (K.crc.upd 0 (data ++ footerFields ft)) ∧
      nw.footer = { ft with crc := K.crc.upd 0 data } ∧
      nw.data = { bytes := data, mem := true } ∧ ld.data = nw.data ∧
      ld.footer.numDocs = nw.footer.numDocs ∧
      ld.footer.storedIndexOffset = nw.footer.storedIndexOffset ∧
      ld.footer.fieldsIndexOffset = nw.footer.fieldsIndexOffset ∧
      ld.footer.docValueOffset = nw.footer.docValueOffset ∧
      ld.footer.chunkMode = nw.footer.chunkMode ∧ ld.footer.version = nw.footer.version ∧
      ld.fieldsInv = nw.fieldsInv ∧ ld.fieldDocs = nw.fieldDocs ∧ ld.fieldFreqs = nw.fieldFreqs ∧
      ld.dictLocs = nw.dictLocs ∧ ld.storedChunkOffsets = nw.storedChunkOffsets ∧
      ld.dvReaders = nw.dvReaders ∧
      ld.storedSeg = nw.storedSeg ∧
      (∀ i, dictionaryOf K ld i = dictionaryOf K nw i) ∧
      (∀ v, readPostings K ld v = readPostings K nw v) ∧
      (∀ v, ld.store K v = nw.store K v) ∧
      (∀ (r0 : DocValues.Reader) (ds : List Nat),
        DocValues.Reader.visitAll K.dv ld.data dvChunk r0 ds =
          DocValues.Reader.visitAll K.dv nw.data dvChunk r0 ds) := by
  obtain ⟨mid, dl, rs, _, _, hn, _, hl⟩ := new_and_load hv hs
  refine ⟨_, _, hn, hl, rfl, rfl, rfl, rfl, rfl, rfl, rfl, rfl, rfl, rfl, rfl, rfl, rfl, rfl, rfl,
    rfl, rfl, fun _ => rfl, fun _ => rfl, fun _ => rfl, fun _ _ => rfl⟩

/-- the repaired `New` returns the pre-fix segment with the checksum slot corrected -/
theorem C04_new_eq_v0 (K : Codecs) (L : LSeg) (hv : Valid K L) (data : Bytes) (ft : Footer)
    (hs : serialize K L = .ok (data, ft)) :
    ∃ nw nw0, initSegment K L = .ok nw ∧ initSegmentV0 K L = .ok nw0 ∧
      nw = nw0.withCrc (K.crc.upd 0 (data ++ footerFields ft)) := by
  obtain ⟨mid, dl, rs, _, _, hn0, hn, _⟩ := new_and_load hv hs
  exact ⟨_, _, hn, hn0, rfl⟩

/-- the segment `New` returned for the example BEFORE commit 6ad80a3 -/
def exNewV0 : Loaded := { exLoaded true with footer := { exFooter with crc := 9772 } }

/-- non-vacuity of `C04_new_eq_load`: for the example, the repaired `New` returns the loaded value -/
theorem ex_new : initSegment exK exL = .ok (exLoaded true) := by
  obtain ⟨nw, ld, hn, hl, he, _⟩ := C04_new_eq_load exK exL ex_valid exData exFooter ex_serialize
  rw [ex_load.1] at hl
  cases hl
  rw [← he] at hn
  exact hn

set_option maxRecDepth 100000 in
/-- **the defect commit 6ad80a3 repaired** (about `initSegmentV0`, the pre-fix code): the example
    segment as `New` returned it had checksum 9772 (data section), loaded from its file 10277
    (data section and the 40 bytes of footer fields); full equality was false. -/
theorem C04_new_crc_v0_counterexample :
    initSegmentV0 exK exL = .ok exNewV0 ∧ load true (fileOf exK exData exFooter) = .ok (exLoaded true) ∧
    exNewV0 ≠ exLoaded true ∧ exNewV0.withCrc 10277 = exLoaded true := by
  obtain ⟨nw, ld, hn, hl, he, hf, hd, _, _, _, _, _, _, _, h1, h2, h3, h4, h5, h6, _⟩ :=
    C04_new_v0_eq_load exK exL ex_valid exData exFooter ex_serialize
  rw [ex_load.1] at hl
  cases hl
  have hnw : nw = exNewV0 := by
    have hcrc : exK.crc.upd 0 exData = 9772 := by decide
    rw [hcrc] at hf
    obtain ⟨d, f, a, b, c, e, g, h⟩ := nw
    simp only at hf hd h1 h2 h3 h4 h5 h6
    subst hf hd h1 h2 h3 h4 h5 h6
    rfl
  rw [hnw] at hn
  exact ⟨hn, ex_load.1, by decide, by decide⟩

/-- registered name; refers to the PRE-FIX code (`initSegmentV0`): commit 6ad80a3 repaired
    `newWithChunkMode`, and for the repaired `initSegment` the equality holds (`C04_new_eq_load`,
    `ex_new`).  Alias of `C04_new_crc_v0_counterexample`. -/
theorem C04_new_crc_counterexample :
    initSegmentV0 exK exL = .ok exNewV0 ∧ load true (fileOf exK exData exFooter) = .ok (exLoaded true) ∧
    exNewV0 ≠ exLoaded true ∧ exNewV0.withCrc 10277 = exLoaded true :=
  C04_new_crc_v0_counterexample

/-! ## 2. one loaded value for both backings -/

/-- **C04_backing_irrelevant.**  The two backings of `segment.Data` load ONE segment value from a
    written file: `load false` returns what `load true` returns with the backing flag flipped.
    The doc-value reader structures are equal (not just equivalent), so are footer, field tables,
    dictionary locations and stored chunk offsets; the stored-fields reader is the same;
    `dictionaryOf` gives the same result for every field id; `readPostings`, the record store and
    every sequence of doc-value visits from any reader state give on the file backing the result
    they give on the memory backing whenever that one succeeds - which it does for every FST
    value (`C04_postings`) and every visit sequence inside the segment (`C04_dv`). -/
theorem C04_backing_irrelevant (K : Codecs) (L : LSeg) (hv : Valid K L) (data : Bytes) (ft : Footer)
    (hs : serialize K L = .ok (data, ft)) :
    ∃ ld, load true (fileOf K data ft) = .ok ld ∧ load false (fileOf K data ft) = .ok ld.toFile ∧
      ld.data = { bytes := data, mem := true } ∧ ld.toFile.data = { bytes := data, mem := false } ∧
      ld.toFile.footer = ld.footer ∧ ld.toFile.fieldsInv = ld.fieldsInv ∧
      ld.toFile.fieldDocs = ld.fieldDocs ∧ ld.toFile.fieldFreqs = ld.fieldFreqs ∧
      ld.toFile.dictLocs = ld.dictLocs ∧ ld.toFile.storedChunkOffsets = ld.storedChunkOffsets ∧
      ld.toFile.dvReaders = ld.dvReaders ∧
      ld.toFile.storedSeg = ld.storedSeg ∧
      (∀ i, dictionaryOf K ld.toFile i = dictionaryOf K ld i) ∧
      (∀ v r, readPostings K ld v = .ok r → readPostings K ld.toFile v = .ok r) ∧
      (∀ v r, ld.store K v = some r → ld.toFile.store K v = some r) ∧
      (∀ (r0 : DocValues.Reader) (ds : List Nat) out,
        DocValues.Reader.visitAll K.dv ld.data dvChunk r0 ds = .ok out →
          DocValues.Reader.visitAll K.dv ld.toFile.data dvChunk r0 ds = .ok out) := by
  obtain ⟨mid, dictLocs, rs, hw, hl, _⟩ := load_written hv hs true
  refine ⟨_, hl, load_toFile _ _ hl, rfl, rfl, rfl, rfl, rfl, rfl, rfl, rfl, rfl, rfl, ?_,
    fun v r h => readPostings_toFile K _ v r h, fun v r h => store_toFile K _ v r h,
    fun r0 ds out h => DocValues.visitAll_toFile K.dv _ dvChunk ds r0 out h⟩
  intro i
  by_cases hnd : 0 < L.numDocs
  · cases hf : L.fields[i]? with
    | some f =>
      obtain ⟨vals, _, _, hd, _⟩ := field_dict hv hw hnd true rs i f hf
      rw [hd]
      exact dictionaryOf_toFile K _ i _ hd
    | none =>
      have hdl : dictLocs[i]? = none := by
        rw [List.getElem?_eq_none_iff] at hf ⊢
        rw [hw.shape.dl_len]; exact hf
      have e1 : dictionaryOf K (loadedSeg K L data ft true dictLocs rs) i = .ok none := by
        unfold dictionaryOf loadedSeg
        simp only [hdl]
      rw [e1]
      exact dictionaryOf_toFile K _ i _ e1
  · have hz := (hw.zero (by omega)).2.1
    have e1 : dictionaryOf K (loadedSeg K L data ft true dictLocs rs) i = .ok none := by
      unfold dictionaryOf loadedSeg
      simp only
      cases hd : dictLocs[i]? with
      | none => rfl
      | some x =>
        have : x = 0 := by
          rw [hz] at hd
          simp only [List.getElem?_map] at hd
          cases hq : L.fields[i]? with
          | none => rw [hq] at hd; cases hd
          | some q => rw [hq] at hd; simp at hd; exact hd.symm
        subst this
        simp
    rw [e1]
    exact dictionaryOf_toFile K _ i _ e1

/-- … for the postings of every term the two backings give the same `readPostings` result (not
    only "if the memory backing succeeds") -/
theorem C04_backing_postings (K : Codecs) (L : LSeg) (hv : Valid K L) (data : Bytes) (ft : Footer)
    (hs : serialize K L = .ok (data, ft)) (hnd : 0 < L.numDocs)
    (i : Nat) (f : FieldDesc) (hf : L.fields[i]? = some f)
    (j : Nat) (key : Bytes) (td : TermDesc) (ht : f.terms[j]? = some (key, td)) :
    ∃ ld fst v p, load true (fileOf K data ft) = .ok ld ∧ load false (fileOf K data ft) = .ok ld.toFile ∧
      dictionaryOf K ld i = .ok (some fst) ∧ dictionaryOf K ld.toFile i = .ok (some fst) ∧
      fst[j]? = some (key, v) ∧
      readPostings K ld v = .ok p ∧ readPostings K ld.toFile v = .ok p := by
  obtain ⟨ld, fst, v, hl, hd, hj, hp⟩ := C04_postings K L hv data ft hs true hnd i f hf j key td ht
  have hp' : ∃ p, readPostings K ld v = .ok p := by
    cases td with
    | oneHit d n => exact ⟨_, hp⟩
    | general es => obtain ⟨fo, lo, raw, cs, h, _⟩ := hp; exact ⟨_, h⟩
  obtain ⟨p, hp⟩ := hp'
  exact ⟨ld, fst, v, p, hl, load_toFile _ _ hl, hd, dictionaryOf_toFile K ld i _ hd, hj, hp,
    readPostings_toFile K ld v p hp⟩

/-- … and for the doc values of every field every visit sequence inside the segment gives the
    same terms and leaves the same reader on both backings, starting from the (one) reader
    `load` opened -/
theorem C04_backing_dv (K : Codecs) (L : LSeg) (hv : Valid K L) (data : Bytes) (ft : Footer)
    (hs : serialize K L = .ok (data, ft)) (hnd : 0 < L.numDocs)
    (i : Nat) (f : FieldDesc) (hf : L.fields[i]? = some f) (vals : List (Nat × List Bytes))
    (hvals : f.dv = some vals) (ds : List Nat) (hds : ∀ d ∈ ds, d ≤ L.numDocs - 1) :
    ∃ ld r0 r', load true (fileOf K data ft) = .ok ld ∧ load false (fileOf K data ft) = .ok ld.toFile ∧
      ld.dvReaders[i]? = some (some r0) ∧ ld.toFile.dvReaders[i]? = some (some r0) ∧
      DocValues.Reader.visitAll K.dv ld.data dvChunk r0 ds =
        .ok (ds.map (DocValues.termsOf vals), r') ∧
      DocValues.Reader.visitAll K.dv ld.toFile.data dvChunk r0 ds =
        .ok (ds.map (DocValues.termsOf vals), r') := by
  obtain ⟨ld, hl, _, _, hp⟩ := C04_dv K L hv data ft hs true
  obtain ⟨_, hsome⟩ := hp hnd i f hf
  obtain ⟨r0, hr0, _, _, _, _, _, hvis⟩ := hsome vals hvals
  obtain ⟨r', hr'⟩ := hvis ds hds
  exact ⟨ld, r0, r', hl, load_toFile _ _ hl, hr0, hr0, hr',
    DocValues.visitAll_toFile K.dv ld.data dvChunk ds r0 _ hr'⟩

/-- non-vacuity: the example file under both backings -/
example : load false (fileOf exK exData exFooter) = .ok (exLoaded true).toFile :=
  load_toFile _ _ ex_load.1

example : (exLoaded true).toFile = exLoaded false := rfl

example := C04_backing_irrelevant exK exL ex_valid exData exFooter ex_serialize

end Ice.Props.C04

/-! axiom audit (expected: a subset of propext, Classical.choice, Quot.sound) -/
section Audit
open Ice.Props.C04
#print axioms C04_total
#print axioms Ice.Model.Format.serialize_ok
#print axioms valid_iff
#print axioms C04_written
#print axioms exm_valid'
#print axioms total_needs_mode_known
#print axioms total_needs_mode_pos
#print axioms total_needs_no_1hit_in_builder
#print axioms total_needs_doc_range
#print axioms total_needs_asc_keys
#print axioms total_needs_dv_range
#print axioms C04_new_eq_load
#print axioms C04_new
#print axioms C04_new_v0_eq_load
#print axioms C04_new_eq_v0
#print axioms ex_new
#print axioms C04_new_crc_v0_counterexample
#print axioms C04_new_crc_counterexample
#print axioms Ice.Model.Format.load_toFile
#print axioms C04_backing_irrelevant
#print axioms C04_backing_postings
#print axioms C04_backing_dv
end Audit
