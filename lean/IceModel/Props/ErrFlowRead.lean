import IceModel.Gen.ErrFlow
import IceModel.Props.ErrFlow
/-
  Error flow of the read path (property C19): facts about the functions of THIS AREA only.

  The generated table `Gen.ErrFlow.flows` is restricted to the names in `readFns`; every theorem below
  speaks about `readFlows = restrict flows readFns` (or the pinned lists computed from it) and is
  therefore insensitive to a change of the error flow of a function outside the area.  A function of
  the area that disappears from the table makes `read_fns_present` fail.
  The semantics (`Sound`, `checked_sound`, …) is in `Props/ErrFlow.lean`.

  Names beyond the coordinator's list, added because they are on the path: `DictionaryIterator.Close`,
  `PostingsIterator.Close`, `PostingsIterator.nextDocNumAtOrAfterClean`,
  `PostingsIterator.skipFreqNormReadHasLocs`, `chunkedIntDecoder.readUvarint`,
  `memUvarintReader.ReadUvarint`, `getChunkSize`, `Segment.DocumentValueReader`.
-/
namespace Ice.Props.ErrFlowRead
open Ice Ice.Gen Ice.Bridge.ErrFlow Ice.ErrFlow Ice.Props.ErrFlow

/-- the functions of the area -/
def readFns : List String :=
  ["load", "Load", "parseFooter", "Segment.loadFields", "Segment.loadStoredFieldChunk",
   "Segment.loadDvReaders", "Segment.loadFieldDocValueReader", "Segment.dictionary",
   "Segment.Dictionary", "Dictionary.Close", "Dictionary.Contains", "Dictionary.PostingsList",
   "Dictionary.postingsList", "Dictionary.postingsListFromOffset", "DictionaryIterator.Next",
   "DictionaryIterator.Close", "PostingsList.read", "PostingsList.init1Hit",
   "PostingsList.iterator", "PostingsList.Iterator", "PostingsIterator.Next",
   "PostingsIterator.Advance", "PostingsIterator.Close", "PostingsIterator.nextAtOrAfter",
   "PostingsIterator.nextDocNumAtOrAfter", "PostingsIterator.nextDocNumAtOrAfterClean",
   "PostingsIterator.currChunkNext", "PostingsIterator.loadChunk",
   "PostingsIterator.readFreqNormHasLocs", "PostingsIterator.readLocation",
   "PostingsIterator.skipFreqNormReadHasLocs", "newChunkedIntDecoder",
   "chunkedIntDecoder.loadChunk", "chunkedIntDecoder.readUvarint", "memUvarintReader.ReadUvarint",
   "getChunkSize", "docValueReader.loadDvChunk", "docValueReader.visitDocValues",
   "docValueReader.iterateAllDocValues", "Segment.visitDocumentFieldTerms",
   "DocumentValueReader.VisitDocumentValues", "Segment.DocumentValueReader",
   "Segment.VisitStoredFields", "Segment.visitDocument", "Segment.getDocStoredMetaAndUnCompressed",
   "Segment.getDocStoredOffsets", "Segment.getDocStoredOffsetsOnly", "Segment.DocsMatchingTerms",
   "Segment.CollectionStats", "ZSTDDecompress"]

/-- their flows -/
def readFlows : Flows := restrict ErrFlow.flows readFns

/-- the structured program of a function of the area (`[]` for any other name) -/
def progOf (name : String) : Prog := progIn readFlows name

/-- the functions of the area without / with an unchecked call -/
def readCovered : List String := coveredIn ErrFlow.flows readFns
def readNotCovered : List String := notCoveredIn ErrFlow.flows readFns

/-- every function of the area is in the generated table … -/
theorem read_fns_present : ∀ n ∈ readFns, n ∈ ErrFlow.flows.map (·.1) := by decide +kernel

/-- … exactly once -/
theorem read_names_nodup : (readFlows.map (·.1)).Nodup ∧ readFlows.length = readFns.length := by
  decide +kernel

/-- for a function of the area, the area's table and the whole table give the same program -/
theorem read_progOf_whole : ∀ n ∈ readFns, progOf n = progIn ErrFlow.flows n :=
  fun _ hn => progIn_restrict _ _ hn

/-- every flow of the area parses (balanced braces, known events only) -/
theorem read_parse_ok : ∀ f ∈ readFlows, (parse f.2).isSome := by decide +kernel

/-- `progOf` is the structure of the generated flat list -/
theorem read_progOf_flat : ∀ f ∈ readFlows, flat (progOf f.1) = f.2 := by decide +kernel

/-- the call inside a wrapping check `{:err F w R err }` is always `fmt.Errorf` -/
theorem read_wrappers : ∀ f ∈ readFlows, ∀ w ∈ wrappers (progOf f.1), w = "Errorf" := by
  decide +kernel

/-- PINNED: the calls of the area whose error is not checked at once (function, callee) -
    each reviewed by hand (comments at the end of this file) and exercised by the fault legs -/
theorem read_unchecked_pinned : uncheckedIn ErrFlow.flows readFns =
    [("DictionaryIterator.Next", "Next"),
     ("PostingsIterator.nextAtOrAfter", "nextDocNumAtOrAfter"),
     ("Segment.Dictionary", "dictionary"), ("Segment.visitDocument", "ReadUvarint")] := by
  decide +kernel

/-- PINNED: the discarded error results of the area (function, callee): the
    doc-value visit, whose error is turned into an empty result (what C19 allows) -/
theorem read_dropped_pinned : droppedIn ErrFlow.flows readFns =
    [("Segment.visitDocumentFieldTerms", "visitDocValues")] := by
  decide +kernel

/-- the functions of the area without an unchecked call … -/
theorem read_covered_eq : readCovered =
    ["Dictionary.Close", "Dictionary.Contains", "Dictionary.PostingsList",
     "Dictionary.postingsList", "Dictionary.postingsListFromOffset", "DictionaryIterator.Close",
     "DocumentValueReader.VisitDocumentValues", "Load", "PostingsIterator.Advance",
     "PostingsIterator.Close", "PostingsIterator.Next", "PostingsIterator.currChunkNext",
     "PostingsIterator.loadChunk", "PostingsIterator.nextDocNumAtOrAfter",
     "PostingsIterator.nextDocNumAtOrAfterClean", "PostingsIterator.readFreqNormHasLocs",
     "PostingsIterator.readLocation", "PostingsIterator.skipFreqNormReadHasLocs",
     "PostingsList.Iterator", "PostingsList.init1Hit", "PostingsList.iterator",
     "PostingsList.read", "Segment.CollectionStats", "Segment.DocsMatchingTerms",
     "Segment.DocumentValueReader", "Segment.VisitStoredFields", "Segment.dictionary",
     "Segment.getDocStoredMetaAndUnCompressed", "Segment.getDocStoredOffsets",
     "Segment.getDocStoredOffsetsOnly", "Segment.loadDvReaders", "Segment.loadFieldDocValueReader",
     "Segment.loadFields", "Segment.loadStoredFieldChunk", "Segment.visitDocumentFieldTerms",
     "ZSTDDecompress", "chunkedIntDecoder.loadChunk", "chunkedIntDecoder.readUvarint",
     "docValueReader.iterateAllDocValues", "docValueReader.loadDvChunk",
     "docValueReader.visitDocValues", "getChunkSize", "load", "memUvarintReader.ReadUvarint",
     "newChunkedIntDecoder", "parseFooter"] := by
  decide +kernel

/-- … and with one: exactly the functions named in `read_unchecked_pinned` -/
theorem read_notCovered_eq : readNotCovered =
    ["DictionaryIterator.Next", "PostingsIterator.nextAtOrAfter", "Segment.Dictionary",
     "Segment.visitDocument"] := by
  decide +kernel

theorem read_notCovered_eq_pinned :
    readNotCovered = ((uncheckedIn ErrFlow.flows readFns).map (·.1)).eraseDups := by
  rw [read_notCovered_eq, read_unchecked_pinned]; decide

/-- every covered function is disciplined: all calls checked at once, wrappers are `Errorf` -/
theorem read_disc : ∀ n ∈ readCovered, Disc (progOf n) := by decide +kernel

/-- SOUNDNESS for the area: in every covered function a failing call is the last thing done (but for
    wrapping the error) and makes the function return a non-nil error; a nil result means that no
    bound call failed (modulo the discarded results of `read_dropped_pinned`) -/
theorem read_sound : ∀ n ∈ readCovered, Sound (progOf n) :=
  sound_of_disc_all read_disc

/-! ### function by function -/

theorem sound_Dictionary_Close : Sound (progOf "Dictionary.Close") :=
  read_sound _ (by rw [read_covered_eq]; decide)
theorem sound_Dictionary_Contains : Sound (progOf "Dictionary.Contains") :=
  read_sound _ (by rw [read_covered_eq]; decide)
theorem sound_Dictionary_PostingsList : Sound (progOf "Dictionary.PostingsList") :=
  read_sound _ (by rw [read_covered_eq]; decide)
theorem sound_Dictionary_postingsList : Sound (progOf "Dictionary.postingsList") :=
  read_sound _ (by rw [read_covered_eq]; decide)
theorem sound_Dictionary_postingsListFromOffset : Sound (progOf "Dictionary.postingsListFromOffset") :=
  read_sound _ (by rw [read_covered_eq]; decide)
theorem sound_DictionaryIterator_Close : Sound (progOf "DictionaryIterator.Close") :=
  read_sound _ (by rw [read_covered_eq]; decide)
theorem sound_DocumentValueReader_VisitDocumentValues : Sound (progOf "DocumentValueReader.VisitDocumentValues") :=
  read_sound _ (by rw [read_covered_eq]; decide)
theorem sound_Load : Sound (progOf "Load") :=
  read_sound _ (by rw [read_covered_eq]; decide)
theorem sound_PostingsIterator_Advance : Sound (progOf "PostingsIterator.Advance") :=
  read_sound _ (by rw [read_covered_eq]; decide)
theorem sound_PostingsIterator_Close : Sound (progOf "PostingsIterator.Close") :=
  read_sound _ (by rw [read_covered_eq]; decide)
theorem sound_PostingsIterator_Next : Sound (progOf "PostingsIterator.Next") :=
  read_sound _ (by rw [read_covered_eq]; decide)
theorem sound_PostingsIterator_currChunkNext : Sound (progOf "PostingsIterator.currChunkNext") :=
  read_sound _ (by rw [read_covered_eq]; decide)
theorem sound_PostingsIterator_loadChunk : Sound (progOf "PostingsIterator.loadChunk") :=
  read_sound _ (by rw [read_covered_eq]; decide)
theorem sound_PostingsIterator_nextDocNumAtOrAfter : Sound (progOf "PostingsIterator.nextDocNumAtOrAfter") :=
  read_sound _ (by rw [read_covered_eq]; decide)
theorem sound_PostingsIterator_nextDocNumAtOrAfterClean : Sound (progOf "PostingsIterator.nextDocNumAtOrAfterClean") :=
  read_sound _ (by rw [read_covered_eq]; decide)
theorem sound_PostingsIterator_readFreqNormHasLocs : Sound (progOf "PostingsIterator.readFreqNormHasLocs") :=
  read_sound _ (by rw [read_covered_eq]; decide)
theorem sound_PostingsIterator_readLocation : Sound (progOf "PostingsIterator.readLocation") :=
  read_sound _ (by rw [read_covered_eq]; decide)
theorem sound_PostingsIterator_skipFreqNormReadHasLocs : Sound (progOf "PostingsIterator.skipFreqNormReadHasLocs") :=
  read_sound _ (by rw [read_covered_eq]; decide)
theorem sound_PostingsList_Iterator : Sound (progOf "PostingsList.Iterator") :=
  read_sound _ (by rw [read_covered_eq]; decide)
theorem sound_PostingsList_init1Hit : Sound (progOf "PostingsList.init1Hit") :=
  read_sound _ (by rw [read_covered_eq]; decide)
theorem sound_PostingsList_iterator : Sound (progOf "PostingsList.iterator") :=
  read_sound _ (by rw [read_covered_eq]; decide)
theorem sound_PostingsList_read : Sound (progOf "PostingsList.read") :=
  read_sound _ (by rw [read_covered_eq]; decide)
theorem sound_Segment_CollectionStats : Sound (progOf "Segment.CollectionStats") :=
  read_sound _ (by rw [read_covered_eq]; decide)
theorem sound_Segment_DocsMatchingTerms : Sound (progOf "Segment.DocsMatchingTerms") :=
  read_sound _ (by rw [read_covered_eq]; decide)
theorem sound_Segment_DocumentValueReader : Sound (progOf "Segment.DocumentValueReader") :=
  read_sound _ (by rw [read_covered_eq]; decide)
theorem sound_Segment_VisitStoredFields : Sound (progOf "Segment.VisitStoredFields") :=
  read_sound _ (by rw [read_covered_eq]; decide)
theorem sound_Segment_dictionary : Sound (progOf "Segment.dictionary") :=
  read_sound _ (by rw [read_covered_eq]; decide)
theorem sound_Segment_getDocStoredMetaAndUnCompressed : Sound (progOf "Segment.getDocStoredMetaAndUnCompressed") :=
  read_sound _ (by rw [read_covered_eq]; decide)
theorem sound_Segment_getDocStoredOffsets : Sound (progOf "Segment.getDocStoredOffsets") :=
  read_sound _ (by rw [read_covered_eq]; decide)
theorem sound_Segment_getDocStoredOffsetsOnly : Sound (progOf "Segment.getDocStoredOffsetsOnly") :=
  read_sound _ (by rw [read_covered_eq]; decide)
theorem sound_Segment_loadDvReaders : Sound (progOf "Segment.loadDvReaders") :=
  read_sound _ (by rw [read_covered_eq]; decide)
theorem sound_Segment_loadFieldDocValueReader : Sound (progOf "Segment.loadFieldDocValueReader") :=
  read_sound _ (by rw [read_covered_eq]; decide)
theorem sound_Segment_loadFields : Sound (progOf "Segment.loadFields") :=
  read_sound _ (by rw [read_covered_eq]; decide)
theorem sound_Segment_loadStoredFieldChunk : Sound (progOf "Segment.loadStoredFieldChunk") :=
  read_sound _ (by rw [read_covered_eq]; decide)
theorem sound_Segment_visitDocumentFieldTerms : Sound (progOf "Segment.visitDocumentFieldTerms") :=
  read_sound _ (by rw [read_covered_eq]; decide)
theorem sound_ZSTDDecompress : Sound (progOf "ZSTDDecompress") :=
  read_sound _ (by rw [read_covered_eq]; decide)
theorem sound_chunkedIntDecoder_loadChunk : Sound (progOf "chunkedIntDecoder.loadChunk") :=
  read_sound _ (by rw [read_covered_eq]; decide)
theorem sound_chunkedIntDecoder_readUvarint : Sound (progOf "chunkedIntDecoder.readUvarint") :=
  read_sound _ (by rw [read_covered_eq]; decide)
theorem sound_docValueReader_iterateAllDocValues : Sound (progOf "docValueReader.iterateAllDocValues") :=
  read_sound _ (by rw [read_covered_eq]; decide)
theorem sound_docValueReader_loadDvChunk : Sound (progOf "docValueReader.loadDvChunk") :=
  read_sound _ (by rw [read_covered_eq]; decide)
theorem sound_docValueReader_visitDocValues : Sound (progOf "docValueReader.visitDocValues") :=
  read_sound _ (by rw [read_covered_eq]; decide)
theorem sound_getChunkSize : Sound (progOf "getChunkSize") :=
  read_sound _ (by rw [read_covered_eq]; decide)
theorem sound_load : Sound (progOf "load") :=
  read_sound _ (by rw [read_covered_eq]; decide)
theorem sound_memUvarintReader_ReadUvarint : Sound (progOf "memUvarintReader.ReadUvarint") :=
  read_sound _ (by rw [read_covered_eq]; decide)
theorem sound_newChunkedIntDecoder : Sound (progOf "newChunkedIntDecoder") :=
  read_sound _ (by rw [read_covered_eq]; decide)
theorem sound_parseFooter : Sound (progOf "parseFooter") :=
  read_sound _ (by rw [read_covered_eq]; decide)

/-! ### the exceptions of the area: how each unchecked error IS examined in the source

  For the 4 functions of `readNotCovered` the discipline is genuinely violated, so `checked_sound`
  says nothing; each error is examined in another way (source read at HEAD of /repo).

  * `Segment.visitDocument` / `ReadUvarint` (segment.go): `field, err := binary.ReadUvarint(r);
    if err == io.EOF { break }; if err != nil { return err }`.  The `break` sits between the call and
    its check - exactly the shape of `Props.ErrFlow.unsound_example`.  HARMLESS BY DESIGN: `io.EOF` from
    the first varint of a (field, offset, length) triple is the regular end of the meta section, the
    function then returns nil; every other error reaches the check that follows.  The model reproduces
    the swallowed failure (`visitDocument_model_run`): this one is a TRUE report of the checker.
  * `PostingsIterator.nextAtOrAfter` / `nextDocNumAtOrAfter` (posting.go):
    `if err != nil || !exists { return nil, err }` - a COMBINED CONDITION (the translator marks `{:err`
    only for the bare `x != nil`), the error is returned.  HARMLESS.
  * `Segment.Dictionary` / `dictionary` (segment.go): `dict, err := s.dictionary(field);
    if err == nil && dict == nil { return emptyDictionary, nil }; return dict, err` - RETURNED AT THE
    END; the block in between is guarded by `err == nil`.  HARMLESS.
  * `DictionaryIterator.Next` / `Next` (dict.go): `i.err = i.itr.Next(); return &i.entry, nil` - the
    error is stored in the iterator and examined at the START OF THE NEXT CALL
    (`if i.err != nil && i.err != vellum.ErrIteratorDone { return nil, i.err }`).  The call that hit the
    failure reports success with the entry read before it; the failure surfaces one call later.  Not lost
    as long as the caller keeps calling `Next` until it gets `nil, nil` (the iterator contract, which the
    fault legs of C19 exercise); the error variable here outlives the call (assumption A2 fails).
-/

/-- `Segment.visitDocument`: in the model - as in Go when the error is `io.EOF` - the first
    `ReadUvarint` of a round can fail and the function return nil -/
theorem visitDocument_model_run :
    Run (progOf "Segment.visitDocument")
      [⟨false, "getDocStoredMetaAndUnCompressed", false⟩, ⟨false, "ReadUvarint", true⟩]
      (.returned false) :=
  run_Run (fuel := 20) (orc := [1, 0, 1, 1, 1, 0, 0, 2, 0]) (orc' := []) (o := .ret false)
    (by decide +kernel)

/-- the discarded result of the area: `Segment.visitDocumentFieldTerms` goes on after a failed
    `visitDocValues` (its error only empties the result) -/
theorem visitDocumentFieldTerms_covered : "Segment.visitDocumentFieldTerms" ∈ readCovered := by
  rw [read_covered_eq]; decide

end Ice.Props.ErrFlowRead
