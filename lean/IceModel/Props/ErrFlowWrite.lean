import IceModel.Gen.ErrFlow
import IceModel.Props.ErrFlow
/-
  Error flow of the write / merge path (property C12): facts about the functions of THIS AREA only.

  The generated table `Gen.ErrFlow.flows` is restricted to the names in `writeFns`; every theorem below
  speaks about `writeFlows = restrict flows writeFns` (or the pinned lists computed from it) and is
  therefore insensitive to a change of the error flow of a function outside the area.  A function of
  the area that disappears from the table makes `write_fns_present` fail.
  The semantics (`Sound`, `checked_sound`, …) is in `Props/ErrFlow.lean`.

  Names beyond the coordinator's list, added because they are on the path: `merge` (called by
  `Merger.WriteTo`), `writeMergedDict` (writes the merged dictionary), `encodeStoredFieldValues`.
-/
namespace Ice.Props.ErrFlowWrite
open Ice Ice.Gen Ice.Bridge.ErrFlow Ice.ErrFlow Ice.Props.ErrFlow

/-- the functions of the area -/
def writeFns : List String :=
  ["Segment.WriteTo", "Merger.WriteTo", "merge", "mergeSegmentBasesWriter", "mergeToWriter",
   "persistMergedRest", "persistMergedRestField", "persistFooter", "persistFields",
   "writePostings", "writeRoaringWithLen", "writeUvarints", "writeDvLocs", "writeMergedDict",
   "mergeStoredAndRemap", "mergeStoredAndRemapSegment", "Segment.copyStoredDocs",
   "buildMergedDocVals", "finishTerm", "prepareNewTerm", "setupActiveForField",
   "mergeTermFreqNormLocs", "interim.convert", "interim.writeStoredFields", "interim.writeDicts",
   "interim.writeDictsField", "interim.writeDictsTermField", "encodeStoredFieldValues",
   "newWithChunkMode", "chunkedIntCoder.Add", "chunkedIntCoder.Close", "chunkedIntCoder.Write",
   "chunkedIntCoder.writeAt", "chunkedContentCoder.Add", "chunkedContentCoder.Close",
   "chunkedContentCoder.Write", "chunkedContentCoder.flushContents", "chunkedDocumentCoder.Add",
   "chunkedDocumentCoder.Write", "chunkedDocumentCoder.flush", "chunkedDocumentCoder.newLine",
   "chunkedDocumentCoder.writeToBuf", "countHashWriter.Write"]

/-- their flows -/
def writeFlows : Flows := restrict ErrFlow.flows writeFns

/-- the structured program of a function of the area (`[]` for any other name) -/
def progOf (name : String) : Prog := progIn writeFlows name

/-- the functions of the area without / with an unchecked call -/
def writeCovered : List String := coveredIn ErrFlow.flows writeFns
def writeNotCovered : List String := notCoveredIn ErrFlow.flows writeFns

/-- every function of the area is in the generated table … -/
theorem write_fns_present : ∀ n ∈ writeFns, n ∈ ErrFlow.flows.map (·.1) := by decide +kernel

/-- … exactly once -/
theorem write_names_nodup : (writeFlows.map (·.1)).Nodup ∧ writeFlows.length = writeFns.length := by
  decide +kernel

/-- for a function of the area, the area's table and the whole table give the same program -/
theorem write_progOf_whole : ∀ n ∈ writeFns, progOf n = progIn ErrFlow.flows n :=
  fun _ hn => progIn_restrict _ _ hn

/-- every flow of the area parses (balanced braces, known events only) -/
theorem write_parse_ok : ∀ f ∈ writeFlows, (parse f.2).isSome := by decide +kernel

/-- `progOf` is the structure of the generated flat list -/
theorem write_progOf_flat : ∀ f ∈ writeFlows, flat (progOf f.1) = f.2 := by decide +kernel

/-- the call inside a wrapping check `{:err F w R err }` is always `fmt.Errorf` -/
theorem write_wrappers : ∀ f ∈ writeFlows, ∀ w ∈ wrappers (progOf f.1), w = "Errorf" := by
  decide +kernel

/-- PINNED: the calls of the area whose error is not checked at once (function, callee) -
    each reviewed by hand (comments at the end of this file): examined by a loop condition, together
    with another condition, or returned at the end -/
theorem write_unchecked_pinned : uncheckedIn ErrFlow.flows writeFns =
    [("mergeTermFreqNormLocs", "Next"), ("mergeTermFreqNormLocs", "Next"),
     ("newWithChunkMode", "initSegmentBase"), ("persistMergedRestField", "newEnumerator"),
     ("persistMergedRestField", "Next"), ("setupActiveForField", "Iterator")] := by
  decide +kernel

/-- PINNED: the discarded error results of the area (function, callee) - none
    comes from the destination writer: closing a chunk coder compresses into memory; `reset` of the
    pooled builder only decides whether the builder goes back to the pool -/
theorem write_dropped_pinned : droppedIn ErrFlow.flows writeFns =
    [("chunkedIntCoder.Add", "Close"), ("finishTerm", "Close"), ("finishTerm", "Close"),
     ("interim.writeDictsTermField", "Close"), ("interim.writeDictsTermField", "Close"),
     ("newWithChunkMode", "reset")] := by
  decide +kernel

/-- the functions of the area without an unchecked call … -/
theorem write_covered_eq : writeCovered =
    ["Merger.WriteTo", "Segment.WriteTo", "Segment.copyStoredDocs", "buildMergedDocVals",
     "chunkedContentCoder.Add", "chunkedContentCoder.Close", "chunkedContentCoder.Write",
     "chunkedContentCoder.flushContents", "chunkedDocumentCoder.Add", "chunkedDocumentCoder.Write",
     "chunkedDocumentCoder.flush", "chunkedDocumentCoder.newLine",
     "chunkedDocumentCoder.writeToBuf", "chunkedIntCoder.Add", "chunkedIntCoder.Close",
     "chunkedIntCoder.Write", "chunkedIntCoder.writeAt", "countHashWriter.Write",
     "encodeStoredFieldValues", "finishTerm", "interim.convert", "interim.writeDicts",
     "interim.writeDictsField", "interim.writeDictsTermField", "interim.writeStoredFields",
     "merge", "mergeSegmentBasesWriter", "mergeStoredAndRemap", "mergeStoredAndRemapSegment",
     "mergeToWriter", "persistFields", "persistFooter", "persistMergedRest", "prepareNewTerm",
     "writeDvLocs", "writeMergedDict", "writePostings", "writeRoaringWithLen", "writeUvarints"] := by
  decide +kernel

/-- … and with one: exactly the functions named in `write_unchecked_pinned` -/
theorem write_notCovered_eq : writeNotCovered =
    ["mergeTermFreqNormLocs", "newWithChunkMode", "persistMergedRestField", "setupActiveForField"] := by
  decide +kernel

theorem write_notCovered_eq_pinned :
    writeNotCovered = ((uncheckedIn ErrFlow.flows writeFns).map (·.1)).eraseDups := by
  rw [write_notCovered_eq, write_unchecked_pinned]; decide

/-- every covered function is disciplined: all calls checked at once, wrappers are `Errorf` -/
theorem write_disc : ∀ n ∈ writeCovered, Disc (progOf n) := by decide +kernel

/-- SOUNDNESS for the area: in every covered function a failing call is the last thing done (but for
    wrapping the error) and makes the function return a non-nil error; a nil result means that no
    bound call failed (modulo the discarded results of `write_dropped_pinned`) -/
theorem write_sound : ∀ n ∈ writeCovered, Sound (progOf n) :=
  sound_of_disc_all write_disc

/-! ### function by function -/

theorem sound_Merger_WriteTo : Sound (progOf "Merger.WriteTo") :=
  write_sound _ (by rw [write_covered_eq]; decide)
theorem sound_Segment_WriteTo : Sound (progOf "Segment.WriteTo") :=
  write_sound _ (by rw [write_covered_eq]; decide)
theorem sound_Segment_copyStoredDocs : Sound (progOf "Segment.copyStoredDocs") :=
  write_sound _ (by rw [write_covered_eq]; decide)
theorem sound_buildMergedDocVals : Sound (progOf "buildMergedDocVals") :=
  write_sound _ (by rw [write_covered_eq]; decide)
theorem sound_chunkedContentCoder_Add : Sound (progOf "chunkedContentCoder.Add") :=
  write_sound _ (by rw [write_covered_eq]; decide)
theorem sound_chunkedContentCoder_Close : Sound (progOf "chunkedContentCoder.Close") :=
  write_sound _ (by rw [write_covered_eq]; decide)
theorem sound_chunkedContentCoder_Write : Sound (progOf "chunkedContentCoder.Write") :=
  write_sound _ (by rw [write_covered_eq]; decide)
theorem sound_chunkedContentCoder_flushContents : Sound (progOf "chunkedContentCoder.flushContents") :=
  write_sound _ (by rw [write_covered_eq]; decide)
theorem sound_chunkedDocumentCoder_Add : Sound (progOf "chunkedDocumentCoder.Add") :=
  write_sound _ (by rw [write_covered_eq]; decide)
theorem sound_chunkedDocumentCoder_Write : Sound (progOf "chunkedDocumentCoder.Write") :=
  write_sound _ (by rw [write_covered_eq]; decide)
theorem sound_chunkedDocumentCoder_flush : Sound (progOf "chunkedDocumentCoder.flush") :=
  write_sound _ (by rw [write_covered_eq]; decide)
theorem sound_chunkedDocumentCoder_newLine : Sound (progOf "chunkedDocumentCoder.newLine") :=
  write_sound _ (by rw [write_covered_eq]; decide)
theorem sound_chunkedDocumentCoder_writeToBuf : Sound (progOf "chunkedDocumentCoder.writeToBuf") :=
  write_sound _ (by rw [write_covered_eq]; decide)
theorem sound_chunkedIntCoder_Add : Sound (progOf "chunkedIntCoder.Add") :=
  write_sound _ (by rw [write_covered_eq]; decide)
theorem sound_chunkedIntCoder_Close : Sound (progOf "chunkedIntCoder.Close") :=
  write_sound _ (by rw [write_covered_eq]; decide)
theorem sound_chunkedIntCoder_Write : Sound (progOf "chunkedIntCoder.Write") :=
  write_sound _ (by rw [write_covered_eq]; decide)
theorem sound_chunkedIntCoder_writeAt : Sound (progOf "chunkedIntCoder.writeAt") :=
  write_sound _ (by rw [write_covered_eq]; decide)
theorem sound_countHashWriter_Write : Sound (progOf "countHashWriter.Write") :=
  write_sound _ (by rw [write_covered_eq]; decide)
theorem sound_encodeStoredFieldValues : Sound (progOf "encodeStoredFieldValues") :=
  write_sound _ (by rw [write_covered_eq]; decide)
theorem sound_finishTerm : Sound (progOf "finishTerm") :=
  write_sound _ (by rw [write_covered_eq]; decide)
theorem sound_interim_convert : Sound (progOf "interim.convert") :=
  write_sound _ (by rw [write_covered_eq]; decide)
theorem sound_interim_writeDicts : Sound (progOf "interim.writeDicts") :=
  write_sound _ (by rw [write_covered_eq]; decide)
theorem sound_interim_writeDictsField : Sound (progOf "interim.writeDictsField") :=
  write_sound _ (by rw [write_covered_eq]; decide)
theorem sound_interim_writeDictsTermField : Sound (progOf "interim.writeDictsTermField") :=
  write_sound _ (by rw [write_covered_eq]; decide)
theorem sound_interim_writeStoredFields : Sound (progOf "interim.writeStoredFields") :=
  write_sound _ (by rw [write_covered_eq]; decide)
theorem sound_merge : Sound (progOf "merge") :=
  write_sound _ (by rw [write_covered_eq]; decide)
theorem sound_mergeSegmentBasesWriter : Sound (progOf "mergeSegmentBasesWriter") :=
  write_sound _ (by rw [write_covered_eq]; decide)
theorem sound_mergeStoredAndRemap : Sound (progOf "mergeStoredAndRemap") :=
  write_sound _ (by rw [write_covered_eq]; decide)
theorem sound_mergeStoredAndRemapSegment : Sound (progOf "mergeStoredAndRemapSegment") :=
  write_sound _ (by rw [write_covered_eq]; decide)
theorem sound_mergeToWriter : Sound (progOf "mergeToWriter") :=
  write_sound _ (by rw [write_covered_eq]; decide)
theorem sound_persistFields : Sound (progOf "persistFields") :=
  write_sound _ (by rw [write_covered_eq]; decide)
theorem sound_persistFooter : Sound (progOf "persistFooter") :=
  write_sound _ (by rw [write_covered_eq]; decide)
theorem sound_persistMergedRest : Sound (progOf "persistMergedRest") :=
  write_sound _ (by rw [write_covered_eq]; decide)
theorem sound_prepareNewTerm : Sound (progOf "prepareNewTerm") :=
  write_sound _ (by rw [write_covered_eq]; decide)
theorem sound_writeDvLocs : Sound (progOf "writeDvLocs") :=
  write_sound _ (by rw [write_covered_eq]; decide)
theorem sound_writeMergedDict : Sound (progOf "writeMergedDict") :=
  write_sound _ (by rw [write_covered_eq]; decide)
theorem sound_writePostings : Sound (progOf "writePostings") :=
  write_sound _ (by rw [write_covered_eq]; decide)
theorem sound_writeRoaringWithLen : Sound (progOf "writeRoaringWithLen") :=
  write_sound _ (by rw [write_covered_eq]; decide)
theorem sound_writeUvarints : Sound (progOf "writeUvarints") :=
  write_sound _ (by rw [write_covered_eq]; decide)

/-! ### discarded results: what can go unnoticed -/

/-- `chunkedIntCoder.Add` discards the error of `Close`; it can fail and `Add` return nil
    (`Props.ErrFlow.dropped_unnoticed`: this is the only kind of failure that can go unnoticed) -/
theorem chunkedIntCoder_Add_dropped_run :
    Run (progOf "chunkedIntCoder.Add") [⟨true, "Close", true⟩, ⟨false, "Write", false⟩]
      (.returned false) :=
  run_Run (fuel := 10) (orc := [1, 1, 0, 1]) (orc' := []) (o := .ret false) (by decide +kernel)

/-! ### the exceptions of the area: how each unchecked error IS examined in the source

  For the 4 functions of `writeNotCovered` the discipline is genuinely violated, so `checked_sound`
  says nothing; each error is examined in another way (source read at HEAD of /repo).  None loses an
  error other than a sentinel it means to swallow.

  * `mergeTermFreqNormLocs` / `Next` (twice; merge.go): `next, err := postItr.Next();
    for next != nil && err == nil { …; next, err = postItr.Next() }; return …, err`.  Examined by the
    LOOP CONDITION and returned at the end; nothing runs in between.  HARMLESS.  The model, which does
    not know conditions, has an execution that enters the loop after the failure and overwrites the
    error (`mergeTermFreqNormLocs_model_run`); Go excludes it by `err == nil`: a FALSE report.
  * `persistMergedRestField` / `newEnumerator`, `Next` (merge.go): `enumerator, err := newEnumerator(itrs);
    for err == nil { …; err = enumerator.Next() }; if err != vellum.ErrIteratorDone { return err }`.
    Loop condition, then compared with the sentinel: every error but `ErrIteratorDone` (the regular
    end of the enumeration) is returned.  HARMLESS.  All other calls of the function are checked at once.
  * `setupActiveForField` / `Iterator` (merge.go): `itr, err = dict.fst.Iterator(nil, nil);
    if err != nil && err != vellum.ErrIteratorDone { return …, err }` - a COMBINED CONDITION (the
    translator marks `{:err` only for the bare `x != nil`); `ErrIteratorDone` of an empty FST is
    tolerated, the `itr != nil` test follows.  HARMLESS.
  * `newWithChunkMode` / `initSegmentBase` (new.go): `sb, err := initSegmentBase(…);
    if err == nil && s.reset() == nil { … interimPool.Put(s) }; return sb, size, err` - RETURNED AT THE
    END; the `s.reset()` in the condition is the discarded result of `write_dropped_pinned`.  HARMLESS.
-/

/-- `mergeTermFreqNormLocs`: the model cannot see the loop condition `err == nil`, so it has an
    execution that Go does not have: `Next` fails, the loop is entered all the same, `Add` succeeds
    and overwrites the error, nil is returned.  (Why the function needs a hand review.) -/
theorem mergeTermFreqNormLocs_model_run :
    Run (progOf "mergeTermFreqNormLocs")
      [⟨false, "Next", true⟩, ⟨false, "Add", false⟩, ⟨false, "Next", false⟩]
      (.returned false) :=
  run_Run (fuel := 20) (orc := [1, 1]) (orc' := []) (o := .ret false) (by decide +kernel)

end Ice.Props.ErrFlowWrite
