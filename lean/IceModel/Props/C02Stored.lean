import IceModel.Model.MergeRest
import IceModel.Lemmas.MergeRestFields
import IceModel.Lemmas.MergeRestRemap
import IceModel.Lemmas.MergeRestStored
import IceModel.Lemmas.MergeRestCopy
import IceModel.Lemmas.MergeRestMerge
import IceModel.Lemmas.MergeRestSpec
import IceModel.Lemmas.MergeRestDv
import IceModel.Lemmas.MergeRestDvSpec
import IceModel.Lemmas.MergeRestDvField
import IceModel.Props.C03
import IceModel.Props.C06
import IceModel.Props.C07
/-
  Properties C02 / C03 / C06 / C07 / C17 on the level of the model of the parts of merge.go
  around the dictionary loop (`IceModel/Model/MergeRest.lean`):

    (F)  mergeFields / mapFields        the merged field list is `Spec.fieldList` of the union
    (N)  computeNewDocCount, newDocNums `Spec.remapAll`, `numDocs (Spec.merge …)`
    (S)  mergeStoredAndRemap            both paths; the merged stored section is
                                        `Stored.writeStoredFields` of the survivors' documents in
                                        merged field ids; every visit delivers `Spec.stored`
    (D)  buildMergedDocVals             (second half of this file)

  C17 on this level is the closure statement `S_output_is_input`: what a merge writes satisfies
  the hypotheses under which it may be merged again, and means `Spec.merge` of its inputs - so
  the specification-level theorems `C17_flatten`, `C17_translate`, `C17_identity` apply to chains
  of model merges.

  Hypotheses that are not part of the input contract of properties.jsonl but are needed:
    * `NonemptyFrames cd`: a zstd frame of a non-empty block is non-empty (third-party law; the
      copy path skips a block whose two chunk offsets coincide, merge.go:778).
    * copy path: `(recs docs).length + 10 < 2^63` (`storedOffset + MaxVarintLen64` in `int`).
    * fewer than 65535 merged fields (`uint16` field ids), at most 2^32 documents per input
      (`uint32(docNum)`), fewer than 2^63 - 1 merged documents (`docDropped` is a sentinel).
    * `ClosedDoc`: an abstract document stores values only under names its segment lists
      (`AbsSeg` does not enforce it; `Spec.build` does, `S_output_is_input` preserves it).
    * doc values: an input that is not in focus, or has no reader for the field, has no doc values
      in the field (`DvInputOK.rel`).

  -- UNPROVED: nothing in the stages (F), (N), (S) re-encode, (S) copy, (D).  Restrictions of what
  -- IS proved:
  --   * `S_copy_eq_reencode`, `S_copy_parser`, `S_copy_offsets` start from a destination state
  --     reachable in a merge (`Tracks`: a fresh coder after any documents `D`, with
  --     `docNumOffsets` zero beyond them), not from an arbitrary coder state.
  --   * the source of the stored part is memory-backed (`Stored.dataRead`), as in C06; a failing
  --     `Data.Read` of a file-backed source is not modelled.
  --   * (D) is proved for a column given as bytes per document (`ValidVals`); the passage to
  --     terms is the hypothesis `DvInputOK.rel` on the inputs (for built segments it is
  --     `C07`'s `splitSep_bytesOf_encVals`) and the conclusion `D_merged_dvOf` on the output.
  --   * `mergeToWriter` beyond the stored section (persistFields, footer) is not part of this
  --     model; `closeCh` is not modelled.
-/
namespace Ice.Props.C02Stored
open Ice Ice.Model Ice.Model.MergeRest
open Ice.Props.C03 (ValidDrops)

/-! ## (F) `mergeFields`, `mapFields` -/

/-- **F_fields.**  Whatever order the map `fieldsExist` is iterated in, the merged field list is
    `_id` followed by all other names of all inputs in ascending order, each once. -/
theorem F_fields {order : List Bytes} {segs : List (List Bytes)} (h : MapOrder order segs) :
    (mergeFieldsWith order segs).2 = Spec.fieldList segs.flatten :=
  mergeFieldsWith_fields h

/-- … in particular the result does not depend on the iteration order -/
theorem F_order_irrelevant {o₁ o₂ : List Bytes} {segs : List (List Bytes)}
    (h₁ : MapOrder o₁ segs) (h₂ : MapOrder o₂ segs) :
    mergeFieldsWith o₁ segs = mergeFieldsWith o₂ segs := by
  have e1 := mergeFieldsWith_fields h₁
  have e2 := mergeFieldsWith_fields h₂
  exact Prod.ext rfl (by rw [e1, e2])

theorem F_fields_default (segs : List (List Bytes)) :
    (mergeFields segs).2 = Spec.fieldList segs.flatten :=
  mergeFieldsWith_fields (mapOrder_keysOf segs)

/-- the merged field list is the field list of `Spec.merge` -/
theorem F_fields_merge (m : Nat) (ins : List (Spec.AbsSeg × List Nat)) :
    (mergeFields (ins.map (·.1.fields))).2 = (Spec.merge m ins).1.fields := by
  rw [F_fields_default, Spec.merge_fields, List.flatMap_def]

/-- **F_same_iff.**  `same` is true iff every input's list equals the first input's list
    (lists are non-empty: every ice field list starts with `_id`). -/
theorem F_same_iff (segs : List (List Bytes)) (hne : ∀ l ∈ segs, l ≠ []) :
    (mergeFields segs).1 = true ↔ ∀ l ∈ segs, l = segs.headD [] :=
  fieldsSame_iff segs hne

/-- **F_same_ids.**  When `same` holds and the inputs' lists are `_id`-first ascending, the
    merged list IS each input's list: all field ids and all field maps coincide.  This is what the
    byte-copy path of `mergeStoredAndRemap` relies on. -/
theorem F_same_ids {order : List Bytes} {segs : List (List Bytes)} (ho : MapOrder order segs)
    (hs : (mergeFieldsWith order segs).1 = true) (hw : ∀ l ∈ segs, IdFirstAsc l) :
    ∀ l ∈ segs, (mergeFieldsWith order segs).2 = l ∧
      ∀ name, fieldsMapGet (mapFields (mergeFieldsWith order segs).2) name =
        fieldsMapGet (mapFields l) name := by
  intro l hl
  have := mergeFieldsWith_same ho hs hw l hl
  exact ⟨this, fun name => by rw [this]⟩

/-- `fieldsMap[name]` is the position of the name plus one, 0 for an unknown name -/
theorem F_mapFields (l : List Bytes) (hn : l.Nodup) (hlen : l.length < 65535) (name : Bytes) :
    fieldsMapGet (mapFields l) name =
      match l.idxOf? name with
      | some i => i + 1
      | none => 0 :=
  fieldsMapGet_mapFields l hn hlen name

/-- segment 0's list is a strict prefix of segment 1's: `same` must be false (the length test of
    merge.go:838 is what detects it) -/
example : (mergeFields [[idField, [97]], [idField, [97], [98]]]).1 = false := by decide
/-- … and the other way round -/
example : (mergeFields [[idField, [97], [98]], [idField, [97]]]).1 = false := by decide
example : (mergeFields [[idField, [97], [98]], [idField, [97], [98]]]) =
    (true, [idField, [97], [98]]) := by decide
/-- different lists, same length -/
example : (mergeFields [[idField, [97]], [idField, [98]]]) =
    (false, [idField, [97], [98]]) := by decide
/-- outside the contract (a list without `_id`): an EMPTY later list does not reset `same` - the
    loop body never runs for it -/
example : (mergeFields [[idField, [97]], []]).1 = true := by decide
/-- the iteration order of the map does not matter -/
example : mergeFieldsWith [[99], [97], idField, [98]] [[idField, [99]], [idField, [97], [98]]] =
    mergeFields [[idField, [99]], [idField, [97], [98]]] := by decide

/-! ## (N) `computeNewDocCount`, `newDocNums` -/

/-- **N_count.**  `computeNewDocCount` is the number of documents of the merged segment. -/
theorem N_count (m : Nat) (ins : List (Spec.AbsSeg × List Nat))
    (hv : ∀ p ∈ ins, ValidDrops p.1.docs.length p.2)
    (hb : (ins.map fun p => p.1.docs.length).sum < 2 ^ 64) :
    computeNewDocCount (ins.map fun p => (p.1.docs.length, p.2)) =
      Spec.numDocs (Spec.merge m ins).1 := by
  rw [Spec.numDocs_merge, computeNewDocCount,
    computeNewDocCount_fold _ (by
      intro p hp
      obtain ⟨q, hq, rfl⟩ := List.mem_map.1 hp
      exact hv q hq) 0 (by simpa [List.map_map, Function.comp_def] using hb)]
  simp [List.map_map, Function.comp_def]

/-- … which is Σ (numDocs_i − |drops_i|) -/
theorem N_count_sum (m : Nat) (ins : List (Spec.AbsSeg × List Nat))
    (hv : ∀ p ∈ ins, ValidDrops p.1.docs.length p.2)
    (hb : (ins.map fun p => p.1.docs.length).sum < 2 ^ 64) :
    computeNewDocCount (ins.map fun p => (p.1.docs.length, p.2)) =
      (ins.map fun p => p.1.docs.length - p.2.length).sum := by
  rw [N_count m ins hv hb, Ice.Props.C03.C03_count m ins hv]

/-- **N_newDocNums.**  Whatever the stored bytes of the inputs are and whichever path each input
    takes: IF `mergeStoredAndRemap` returns, the maps it returns are those of `Spec.merge`, with
    `docDropped` for a deleted document - one map per input segment. -/
theorem N_newDocNums (cd : Stored.Codec) (bs : Nat) (srcs : List Src) (fieldsInv : List Bytes)
    (same : Bool) (n : Nat) (vdc : Stored.Buf) (m : Nat) (ins : List (Spec.AbsSeg × List Nat))
    (hlen : srcs.map (·.seg.numDocs) = ins.map (·.1.docs.length))
    (hsmall : ∀ s ∈ srcs, s.seg.numDocs ≤ 2 ^ 32)
    (out : Stored.StoredOut) (nums : List (List Nat)) (buf : Stored.Buf)
    (h : mergeStoredAndRemap cd bs srcs (ins.map (·.2)) fieldsInv same n vdc = .ok (out, nums, buf)) :
    nums = (Spec.merge m ins).2.map (·.map encNum) := by
  unfold mergeStoredAndRemap at h
  cases hs : segLoop cd (ins.map (·.2)) (mapFields fieldsInv) fieldsInv.length same srcs.zipIdx
      { newDocNum := 0, dno := List.replicate n 0, coder := { chunkSize := bs }, vdc := vdc } [] with
  | err => rw [hs] at h; simp [Stored.Res.bind] at h
  | panic => rw [hs] at h; simp [Stored.Res.bind] at h
  | ok p =>
    rw [hs] at h
    simp only [Stored.Res.bind_ok, Res.ok.injEq, Prod.mk.injEq] at h
    obtain ⟨st', acc'⟩ := p
    have := (segLoop_nums cd _ _ _ same srcs.zipIdx _ [] st' acc'
      (fun p hp => by
        obtain ⟨_, hlt, he⟩ := List.mem_zipIdx hp
        simp only [Nat.zero_add, Nat.sub_zero] at hlt he
        rw [he]; exact hsmall _ (List.getElem_mem hlt)) hs).1
    have hl : srcs.length = ins.length := by
      have := congrArg List.length hlen; simpa using this
    have hpairs : (srcs.zip (ins.map (·.2))).map (fun p => (p.1.seg.numDocs, p.2)) =
        ins.map fun p => (p.1.docs.length, p.2) := by
      apply List.ext_getElem?
      intro i
      have hi := congrArg (fun l => l[i]?) hlen
      simp only [List.getElem?_map] at hi
      simp only [List.getElem?_map, List.zip_eq_zipWith, List.getElem?_zipWith]
      cases h1 : srcs[i]? with
      | none =>
        rw [h1] at hi
        cases h2 : ins[i]? with
        | none => simp
        | some _ => rw [h2] at hi; simp at hi
      | some s =>
        rw [h1] at hi
        cases h2 : ins[i]? with
        | none => rw [h2] at hi; simp at hi
        | some p =>
          rw [h2] at hi
          simp only [Option.map_some, Option.some.injEq] at hi
          simp [hi]
    rw [← h.2.1, this, List.nil_append, Spec.merge_maps,
      pairsOf_zipIdx _ _ (by simp [hl]), hpairs]

/-- **N_every_segment.**  EVERY input segment gets a map of its own length - also segments after
    the last survivor, segments without documents, and when no document survives at all. -/
theorem N_every_segment (m : Nat) (ins : List (Spec.AbsSeg × List Nat)) :
    ((Spec.merge m ins).2.map (·.map encNum)).map List.length =
      ins.map (·.1.docs.length) := by
  have := Ice.Props.C03.C03_shape m ins
  simpa [List.map_map, Function.comp_def] using this

/-- the sentinel is not a document number (fewer than 2^63 - 1 documents) -/
theorem N_sentinel (k : Nat) (h : k < 2 ^ 63 - 1) : encNum (some k) ≠ encNum none := by
  simp only [encNum, docDropped]; omega

/-! ## (S) the stored section -/

section S
open Ice.Model.Stored

/-! ### one document, one block, one segment -/

/-- **S_reencode_doc.**  Re-encode path, one document (merge.go:722-749): if the stored document
    `d` (field ids of the source list) holds what the abstract document `a` stores, then the
    document the merge writes - the delivered values regrouped by MERGED field id
    (`fieldsMap[name] - 1`), ascending id, input order within a field - holds what `a` stores
    under the merged field list.  (The source lists a field for everything `a` stores.) -/
theorem S_reencode_doc (srcF mF : List Bytes) (hns : srcF.Nodup) (hn : mF.Nodup)
    (hlen : mF.length < 65535) (hsub : ∀ f ∈ srcF, f ∈ mF) (d : Doc) (a : Spec.ADoc)
    (hr : DocRel srcF d a) (hc : ClosedDoc srcF a) :
    collectVals srcF (mapFields mF) (flat d) (List.replicate mF.length []) =
      .ok (regroup (toMerged srcF (mapFields mF)) mF.length (flat d)) ∧
    DocRel mF (reDoc (toMerged srcF (mapFields mF)) mF.length d) a := by
  refine ⟨collectVals_ok _ _ _ _ ?_, reDoc_rel srcF mF hns hn hlen hsub d a hr hc⟩
  intro p hp
  have := hr.1 p hp
  exact ⟨this, fieldsMapped_of_subset srcF mF hn hlen hsub p.1 this⟩

/-- **S_copy_parser.**  Copy path, one decompressed block (merge.go:789-815): for ANY block the
    stored writer produces - the concatenated records of the documents `R`, records `00 00` of
    documents without stored fields and the record at the very end of the block included -
    followed by whatever the reused buffer holds up to its capacity (`X`, also nothing), the loop
    with its clamped look-ahead windows neither panics nor fails (no slice leaves the buffer) and
    re-adds exactly the documents `R`: the destination ends in the state `writeDocs` reaches. -/
theorem S_copy_parser (cd : Codec) (c0 : Coder) (total : Nat) (R : List Doc) (X : Bytes)
    (slots : Nat) (st : CS) (D : List Doc)
    (hb : (recs R).length + 10 < 2 ^ 63) (ht : Tracks cd c0 total st.ms D)
    (hroom : D.length + R.length ≤ total) (hslots : R.length ≤ slots) :
    ∃ st', copyLoop cd ⟨recs R ++ X, (recs R).length⟩ slots 0 st = .ok st' ∧
      st'.coder = (writeDocs cd (D ++ R) c0 []).1 ∧
      st'.dno = (writeDocs cd (D ++ R) c0 []).2 ++ List.replicate (total - (D ++ R).length) 0 ∧
      st'.newDocNum = (D ++ R).length := by
  obtain ⟨st', h1, h2⟩ := copyLoop_records cd ⟨recs R ++ X, (recs R).length⟩ c0 total R [] X slots
    st D (by simp) (by simp) (by simpa using hb) ht hroom hslots
  exact ⟨st', h1, h2.coder, h2.dno, h2.num⟩

/-- the hypothesis of `S_copy_parser` on the destination holds initially -/
theorem S_tracks_init (cd : Codec) (c0 : Coder) (total : Nat) :
    Tracks cd c0 total (CS.ms ⟨0, List.replicate total 0, c0⟩) [] :=
  Tracks.init cd c0 total Buf.empty

/-- **S_copy_segment.**  Copy path, one segment (merge.go:768-819): all blocks, empty last block
    skipped. -/
theorem S_copy_segment (cd : Codec) (hZ : NonemptyFrames cd) (bs nf : Nat) (hbs : 0 < bs)
    (docs : List Doc) (tail : Bytes) (c0 : Coder) (total : Nat)
    (hsz : (recs docs).length + 10 < 2 ^ 63) (st : CS) (D : List Doc)
    (ht : Tracks cd c0 total st.ms D) (hroom : D.length + docs.length ≤ total) :
    ∃ st', copyStoredDocs cd (segOfNew cd bs nf docs tail) st = .ok st' ∧
      Tracks cd c0 total st'.ms (D ++ docs) :=
  copyStoredDocs_stored cd hZ bs nf hbs docs tail c0 total hsz st D ht hroom

/-- **S_copy_offsets.**  After any documents `D` (so: wherever the destination stands inside its
    own block - block boundaries of source and destination need not align) the copy of the
    documents `docs` sets `docNumOffsets[|D| + j]` to the size of the destination's block buffer
    just before record `j` is added; when the destination flushed its block in the middle of a
    source block this is the offset inside the NEW destination block (0 for its first record). -/
theorem S_copy_offsets (cd : Codec) (hZ : NonemptyFrames cd) (bs nf : Nat) (hbs : 0 < bs)
    (docs : List Doc) (tail : Bytes) (c0 : Coder) (total : Nat)
    (hsz : (recs docs).length + 10 < 2 ^ 63) (st : CS) (D : List Doc)
    (ht : Tracks cd c0 total st.ms D) (hroom : D.length + docs.length ≤ total) :
    ∃ st', copyStoredDocs cd (segOfNew cd bs nf docs tail) st = .ok st' ∧
      ∀ j, j < docs.length →
        st'.dno[D.length + j]? = some (writeDocs cd (D ++ docs.take j) c0 []).1.buf.length := by
  obtain ⟨st', h1, h2⟩ := copyStoredDocs_stored cd hZ bs nf hbs docs tail c0 total hsz st D ht hroom
  refine ⟨st', h1, fun j hj => ?_⟩
  have hd : st'.dno = (writeDocs cd (D ++ docs) c0 []).2 ++
      List.replicate (total - (D ++ docs).length) 0 := h2.dno
  have hl : (writeDocs cd (D ++ docs) c0 []).2.length = (D ++ docs).length := by
    rw [writeDocs_snd_length]; simp
  have htk : (D ++ docs).take (D.length + j) = D ++ docs.take j := by
    rw [List.take_append, List.take_of_length_le (by omega)]; simp
  rw [hd, List.getElem?_append_left (by rw [hl]; simp; omega),
    writeDocs_snd_getElem? cd c0 _ _ (by simp; omega), htk]

/-! ### the whole merge -/

/-- one input of a merge on all levels: what it means, its deletions, the stored documents (in
    its own field ids) its stored section was written from, and the bytes behind that section -/
structure Input where
  abs : Spec.AbsSeg
  drops : List Nat
  docs : List Doc
  tail : Bytes

/-- the input as `mergeStoredAndRemap` sees it -/
def Input.src (cd : Codec) (bs : Nat) (i : Input) : Src :=
  { fields := i.abs.fields, seg := segOfNew cd bs i.abs.fields.length i.docs i.tail }

def Input.spec (cd : Codec) (bs : Nat) (i : Input) : SegSpec :=
  { src := i.src cd bs, docs := i.docs, tail := i.tail, drops := i.drops }

/-- the inputs of `Spec.merge` -/
def absIns (ins : List Input) : List (Spec.AbsSeg × List Nat) := ins.map fun i => (i.abs, i.drops)

/-- `fieldsInv` of the merge -/
def mergedFields (ins : List Input) : List Bytes := (mergeFields (ins.map (·.abs.fields))).2

/-- the survivors' stored documents in merged field ids -/
def mergedDocs (ins : List Input) : List Doc :=
  ins.flatMap fun i =>
    (Spec.keepP (fun n => !i.drops.contains n) 0 i.docs).map
      (reDoc (toMerged i.abs.fields (mapFields (mergedFields ins))) (mergedFields ins).length)

/-- the input contract of the stored part of a merge -/
structure InputOK (cd : Codec) (bs : Nat) (i : Input) : Prop where
  /-- `_id`, then the other names ascending -/
  fields : IdFirstAsc i.abs.fields
  /-- the contract of C06 for the input's stored section -/
  valid : Ice.Props.C06.Valid cd bs i.abs.fields.length i.docs
  small : i.docs.length ≤ 2 ^ 32
  /-- document by document the section holds what the abstract segment stores -/
  rel : Rel₂ (DocRel i.abs.fields) i.docs i.abs.docs
  /-- a document stores values only in fields its segment lists -/
  closed : ∀ a ∈ i.abs.docs, ClosedDoc i.abs.fields a
  drops : ValidDrops i.abs.docs.length i.drops

/-- additionally for an input that takes the byte-copy path -/
structure InputCopyOK (i : Input) : Prop where
  size : (recs i.docs).length + 10 < 2 ^ 63
  asc : ∀ d ∈ i.docs, DocAsc d

theorem idFirstAsc_nodup {l : List Bytes} (h : IdFirstAsc l) : l.Nodup := by
  obtain ⟨r, rfl, hasc, hid⟩ := h
  exact List.nodup_cons.2 ⟨hid, Builder.asc_nodup hasc⟩

theorem fieldList_idFirstAsc (names : List Bytes) : IdFirstAsc (Spec.fieldList names) := by
  refine ⟨_, rfl, List.Pairwise.filter _ (asc_sortDedup names), ?_⟩
  intro h
  simpa using (List.mem_filter.1 h).2

theorem mergedFields_eq (ins : List Input) :
    mergedFields ins = Spec.fieldList (ins.map (·.abs.fields)).flatten := F_fields_default _

theorem mergedFields_spec (m : Nat) (ins : List Input) :
    mergedFields ins = (Spec.merge m (absIns ins)).1.fields := by
  rw [mergedFields_eq, Spec.merge_fields, absIns, List.flatMap_map, List.flatMap_def]

theorem mergedFields_sup (ins : List Input) (i : Input) (hi : i ∈ ins) :
    ∀ f ∈ i.abs.fields, f ∈ mergedFields ins := by
  intro f hf
  rw [mergedFields_eq, Spec.mem_fieldList]
  exact .inr (List.mem_flatten.2 ⟨_, List.mem_map.2 ⟨i, hi, rfl⟩, hf⟩)

theorem mergedDocs_eq (cd : Codec) (bs : Nat) (ins : List Input) :
    mergedDocs ins = (ins.map (Input.spec cd bs)).flatMap
      (segDocs (mapFields (mergedFields ins)) (mergedFields ins).length) := by
  rw [List.flatMap_map]; rfl

theorem segOK_of_inputOK (cd : Codec) (bs : Nat) (ins : List Input)
    (hlen : (mergedFields ins).length < 65535) (i : Input) (hi : i ∈ ins)
    (hok : InputOK cd bs i) :
    SegOK cd bs (mapFields (mergedFields ins)) (mergedFields ins).length (i.spec cd bs) :=
  { seg := rfl
    valid := hok.valid
    mapped := fieldsMapped_of_subset _ _
      (idFirstAsc_nodup (by rw [mergedFields_eq]; exact fieldList_idFirstAsc _)) hlen
      (mergedFields_sup ins i hi)
    small := hok.small }

/-- when `same` holds the regrouping is the identity on every input's documents -/
theorem copyOK_of_same (cd : Codec) (bs : Nat) (ins : List Input)
    (hlen : (mergedFields ins).length < 65535) (hok : ∀ i ∈ ins, InputOK cd bs i)
    (hsame : (mergeFields (ins.map (·.abs.fields))).1 = true) (i : Input) (hi : i ∈ ins)
    (hc : InputCopyOK i) :
    CopyOK (mapFields (mergedFields ins)) (mergedFields ins).length (i.spec cd bs) := by
  have hF : mergedFields ins = i.abs.fields :=
    mergeFieldsWith_same (mapOrder_keysOf _) hsame
      (by intro l hl
          obtain ⟨j, hj, rfl⟩ := List.mem_map.1 hl
          exact (hok j hj).fields) _ (List.mem_map.2 ⟨i, hi, rfl⟩)
  refine ⟨hc.size, ?_⟩
  intro d hd
  show flat (reDoc (toMerged i.abs.fields (mapFields (mergedFields ins)))
    (mergedFields ins).length d) = flat d
  rw [hF]
  rw [hF] at hlen
  exact flat_reDoc_same _ (idFirstAsc_nodup (hok i hi).fields) hlen d (hc.asc d hd)
    (flat_lt ((hok i hi).valid.2.2.1 d hd))

/-- **S_merged.**  The stored section and the document-number maps of a merge
    (merge.go:117-132, 627-706): for inputs inside the contract, whichever path each of them
    takes (`copyStoredDocs` when `fieldsSame` and the input has no deletions, re-encoding
    otherwise - also mixed within one merge), the bytes written are exactly the stored section
    `writeStoredFields` writes for the survivors' documents in merged field ids, and the maps are
    those of `Spec.merge`. -/
theorem S_merged (cd : Codec) (hZ : NonemptyFrames cd) (bs : Nat) (hbs : 0 < bs) (m : Nat)
    (ins : List Input) (vdc : Buf) (hok : ∀ i ∈ ins, InputOK cd bs i)
    (hlen : (mergedFields ins).length < 65535)
    (hcopy : (mergeFields (ins.map (·.abs.fields))).1 = true →
      ∀ i ∈ ins, i.drops = [] → InputCopyOK i)
    (hb : (ins.map fun i => i.docs.length).sum < 2 ^ 64) :
    ∃ buf', mergeStored cd bs (ins.map (Input.src cd bs)) (ins.map (·.drops)) vdc =
      .ok (writeStoredFields cd bs (mergedDocs ins),
           (Spec.merge m (absIns ins)).2.map (·.map encNum), buf') := by
  have hdl : ∀ i ∈ ins, i.docs.length = i.abs.docs.length := fun i hi => (hok i hi).rel.length_eq
  -- the document count
  have hcount : computeNewDocCount
      ((ins.map (Input.src cd bs)).zipIdx.map fun p =>
        (p.1.seg.numDocs, (ins.map (·.drops)).getD p.2 [])) =
      (ins.map fun i => Spec.liveCount i.drops i.docs.length).sum := by
    have e : ((ins.map (Input.src cd bs)).zipIdx.map fun p =>
        (p.1.seg.numDocs, (ins.map (·.drops)).getD p.2 [])) =
        ins.map fun i => (i.docs.length, i.drops) := by
      have := pairsOf_zipIdx (ins.map (·.drops)) (ins.map (Input.src cd bs)) (by simp)
      unfold pairsOf at this
      rw [this]
      apply List.ext_getElem?
      intro k
      simp only [List.getElem?_map, List.zip_eq_zipWith, List.getElem?_zipWith]
      cases ins[k]? <;> simp [Input.src, segOfNew]
    rw [e, computeNewDocCount,
      computeNewDocCount_fold _ (by
        intro p hp
        obtain ⟨i, hi, rfl⟩ := List.mem_map.1 hp
        have := (hok i hi).drops
        rw [← hdl i hi] at this
        exact this) 0 (by simpa [List.map_map, Function.comp_def] using hb)]
    simp [List.map_map, Function.comp_def]
  obtain ⟨buf', h⟩ := mergeStoredAndRemap_eq cd hZ bs hbs (ins.map (Input.spec cd bs))
    (mergedFields ins) (mergeFields (ins.map (·.abs.fields))).1 vdc
    (by
      intro s hs
      obtain ⟨i, hi, rfl⟩ := List.mem_map.1 hs
      exact segOK_of_inputOK cd bs ins hlen i hi (hok i hi))
    (by
      intro hsame s hs hd
      obtain ⟨i, hi, rfl⟩ := List.mem_map.1 hs
      exact copyOK_of_same cd bs ins hlen hok hsame i hi (hcopy hsame i hi hd))
  refine ⟨buf', ?_⟩
  have E1 : (ins.map (Input.spec cd bs)).map (·.src) = ins.map (Input.src cd bs) := by
    rw [List.map_map]; rfl
  have E2 : (ins.map (Input.spec cd bs)).map (·.drops) = ins.map (·.drops) := by
    rw [List.map_map]; rfl
  have E3 : ((ins.map (Input.spec cd bs)).map fun s => Spec.liveCount s.drops s.docs.length) =
      ins.map fun i => Spec.liveCount i.drops i.docs.length := by
    rw [List.map_map]; rfl
  have E4 : (ins.map (Input.src cd bs)).map (·.fields) = ins.map (·.abs.fields) := by
    rw [List.map_map]; rfl
  have E5 : ((ins.map (Input.spec cd bs)).map fun s => (s.docs.length, s.drops)) =
      (absIns ins).map fun p => (p.1.docs.length, p.2) := by
    rw [absIns, List.map_map, List.map_map]
    apply List.map_congr_left
    intro i hi
    show (i.docs.length, i.drops) = (i.abs.docs.length, i.drops)
    rw [hdl i hi]
  rw [E1, E2, E3] at h
  have hdef : mergeStored cd bs (ins.map (Input.src cd bs)) (ins.map (·.drops)) vdc =
      mergeStoredAndRemap cd bs (ins.map (Input.src cd bs)) (ins.map (·.drops))
        (mergeFields ((ins.map (Input.src cd bs)).map (·.fields))).2
        (mergeFields ((ins.map (Input.src cd bs)).map (·.fields))).1
        (computeNewDocCount ((ins.map (Input.src cd bs)).zipIdx.map fun p =>
          (p.1.seg.numDocs, (ins.map (·.drops)).getD p.2 []))) vdc := by
    unfold mergeStored
    simp
  rw [hdef, E4, hcount]
  rw [show (mergeFields (ins.map (·.abs.fields))).2 = mergedFields ins from rfl, h,
    mergedDocs_eq cd bs, E5, Spec.merge_maps]

/-- **S_merged_rel.**  Document by document the merged section holds, under the merged field
    list, what `Spec.merge` says the merged segment stores. -/
theorem S_merged_rel (cd : Codec) (bs : Nat) (m : Nat) (ins : List Input)
    (hok : ∀ i ∈ ins, InputOK cd bs i) (hlen : (mergedFields ins).length < 65535) :
    Rel₂ (DocRel (mergedFields ins)) (mergedDocs ins) (Spec.merge m (absIns ins)).1.docs := by
  rw [Spec.merge_docs, absIns, List.flatMap_map]
  unfold mergedDocs
  have hmn : (mergedFields ins).Nodup :=
    idFirstAsc_nodup (by rw [mergedFields_eq]; exact fieldList_idFirstAsc _)
  have hrefl : Rel₂ (fun a b : Input => a = b ∧ a ∈ ins) ins ins :=
    Rel₂.of_get ins ins rfl (by
      intro k a b h1 h2
      rw [h1] at h2
      exact ⟨Option.some.inj h2, List.mem_of_getElem? h1⟩)
  apply hrefl.flatMap
  rintro i _ ⟨rfl, hi⟩
  have hio := hok i hi
  have hR : Rel₂ (fun d a => DocRel i.abs.fields d a ∧ ClosedDoc i.abs.fields a)
      i.docs i.abs.docs := by
    apply Rel₂.of_get _ _ hio.rel.length_eq
    intro k d a h1 h2
    exact ⟨hio.rel.get k d a h1 h2, hio.closed a (List.mem_of_getElem? h2)⟩
  rw [Spec.survivors_eq]
  apply (hR.keepP _ 0).map_left
  rintro d a ⟨h1, h2⟩
  exact reDoc_rel _ _ (idFirstAsc_nodup hio.fields) hmn hlen (mergedFields_sup ins i hi) d a h1 h2

/-- the contract of C06 for the merged section: field ids are merged ids; the sizes of the
    output are the caller's obligation -/
theorem S_merged_valid (cd : Codec) (bs : Nat) (hbs : 0 < bs) (ins : List Input)
    (hlen : (mergedFields ins).length < 65535)
    (h1 : (recs (mergedDocs ins)).length < 2 ^ 63)
    (h2 : (writeStoredFields cd bs (mergedDocs ins)).bytes.length < 2 ^ 63) :
    Ice.Props.C06.Valid cd bs (mergedFields ins).length (mergedDocs ins) := by
  refine ⟨hbs, by omega, ?_, h1, h2⟩
  intro d hd
  simp only [mergedDocs, List.mem_flatMap, List.mem_map] at hd
  obtain ⟨i, _, d0, _, rfl⟩ := hd
  exact reDoc_fields_lt _ _ _

/-- **S_merged_visit.**  On the merged segment (the written section, followed by whatever the
    rest of the merge writes) `VisitStoredFields(k)` delivers, for every merged document and
    whatever the pooled context held, exactly `Spec.stored (Spec.merge …) k` - field names through
    the merged `fieldsInv`, up to and including the value at which the visitor stops. -/
theorem S_merged_visit (cd : Codec) (bs : Nat) (hbs : 0 < bs) (m : Nat) (ins : List Input)
    (hok : ∀ i ∈ ins, InputOK cd bs i) (hlen : (mergedFields ins).length < 65535)
    (h1 : (recs (mergedDocs ins)).length < 2 ^ 63)
    (h2 : (writeStoredFields cd bs (mergedDocs ins)).bytes.length < 2 ^ 63)
    (tail : Bytes) (k : Nat) (hk : k < Spec.numDocs (Spec.merge m (absIns ins)).1) (buf : Buf)
    (stop : Option Nat) :
    ∃ vals buf', visit cd (segOfNew cd bs (mergedFields ins).length (mergedDocs ins) tail) buf k
        stop = .ok (takeStop stop vals, buf') ∧
      vals.map (nameOf (mergedFields ins)) = Spec.stored (Spec.merge m (absIns ins)).1 k := by
  have hrel := S_merged_rel cd bs m ins hok hlen
  have hkl : k < (mergedDocs ins).length := by rw [hrel.length_eq]; exact hk
  obtain ⟨buf', hv⟩ := Ice.Props.C06.C06_visit cd bs _ (mergedDocs ins) tail
    (S_merged_valid cd bs hbs ins hlen h1 h2) k hkl buf stop
  refine ⟨_, buf', hv, ?_⟩
  have hk' : k < (Spec.merge m (absIns ins)).1.docs.length := hk
  have := hrel.get k _ _ (List.getElem?_eq_getElem hkl) (List.getElem?_eq_getElem hk')
  rw [stored_eq, List.getElem?_eq_getElem hk', ← mergedFields_spec]
  exact this.2

/-- **S_copy_eq_reencode.**  For an input without deletions of a merge whose field lists are all
    the same, from every destination state reachable in a merge (the state after merging any
    documents `D` into a fresh coder), `copyStoredDocs` and `mergeStoredAndRemapSegment` both
    succeed and leave THE SAME destination: the same coder - block buffer, byte count, chunk
    offsets, bytes written - and the same `docNumOffsets`; the re-encode path advances `newDocNum`
    by `footer.numDocs`, which is what the caller of the copy path does (merge.go:670-673). -/
theorem S_copy_eq_reencode (cd : Codec) (hZ : NonemptyFrames cd) (bs : Nat) (hbs : 0 < bs)
    (ins : List Input) (hok : ∀ i ∈ ins, InputOK cd bs i)
    (hlen : (mergedFields ins).length < 65535)
    (hsame : (mergeFields (ins.map (·.abs.fields))).1 = true)
    (i : Input) (hi : i ∈ ins) (hd : i.drops = []) (hc : InputCopyOK i)
    (c0 : Coder) (total : Nat) (st : MS) (D : List Doc) (ht : Tracks cd c0 total st D)
    (hroom : D.length + i.docs.length ≤ total) :
    ∃ cs st' seen',
      copyStoredDocs cd (i.src cd bs).seg ⟨st.newDocNum, st.dno, st.coder⟩ = .ok cs ∧
      remapSegment cd (i.src cd bs) i.drops (mapFields (mergedFields ins))
        (mergedFields ins).length st = .ok (st', seen') ∧
      cs.coder = st'.coder ∧ cs.dno = st'.dno ∧
      st'.newDocNum = st.newDocNum + (i.src cd bs).seg.numDocs :=
  copy_eq_reencode cd hZ bs hbs _ _ c0 total (i.spec cd bs)
    (segOK_of_inputOK cd bs ins hlen i hi (hok i hi))
    (copyOK_of_same cd bs ins hlen hok hsame i hi hc) hd st D ht hroom

/-! ### C17 on this level: the output of a merge is an input of a merge -/

theorem closedDoc_mono {F G : List Bytes} (h : ∀ f ∈ F, f ∈ G) {a : Spec.ADoc}
    (hc : ClosedDoc F a) : ClosedDoc G a :=
  fun f hf => hc f (fun hF => hf (h f hF))

/-- **S_output_is_input.**  The merged segment - `Spec.merge` of the inputs, with the section
    `S_merged` says was written - satisfies the input contract again (its sizes permitting, and
    for any valid deletions), including the extra condition of the copy path.  Hence chains of
    merges stay inside the contract, and by `S_merged_visit` each of them means `Spec.merge`:
    the specification-level C17 theorems apply to them. -/
theorem S_output_is_input (cd : Codec) (bs : Nat) (hbs : 0 < bs) (m : Nat) (ins : List Input)
    (hok : ∀ i ∈ ins, InputOK cd bs i) (hlen : (mergedFields ins).length < 65535)
    (h1 : (recs (mergedDocs ins)).length + 10 < 2 ^ 63)
    (h2 : (writeStoredFields cd bs (mergedDocs ins)).bytes.length < 2 ^ 63)
    (h3 : (mergedDocs ins).length ≤ 2 ^ 32)
    (drops : List Nat) (hd : ValidDrops (Spec.merge m (absIns ins)).1.docs.length drops)
    (tail : Bytes) :
    let out : Input :=
      { abs := (Spec.merge m (absIns ins)).1, drops := drops, docs := mergedDocs ins, tail := tail }
    InputOK cd bs out ∧ InputCopyOK out := by
  intro out
  have hF : out.abs.fields = mergedFields ins := (mergedFields_spec m ins).symm
  constructor
  · refine ⟨?_, ?_, h3, ?_, ?_, hd⟩
    · rw [hF, mergedFields_eq]; exact fieldList_idFirstAsc _
    · rw [hF]; exact S_merged_valid cd bs hbs ins hlen (by omega) h2
    · rw [hF]; exact S_merged_rel cd bs m ins hok hlen
    · intro a ha
      rw [hF]
      have ha' : a ∈ (absIns ins).flatMap (fun p => Spec.survivors p.1 p.2) := ha
      simp only [absIns, List.flatMap_map, List.mem_flatMap] at ha'
      obtain ⟨i, hi, hai⟩ := ha'
      exact closedDoc_mono (mergedFields_sup ins i hi)
        ((hok i hi).closed a (Spec.mem_keepP (p := fun j => !i.drops.contains j) (k := 0) hai))
  · refine ⟨h1, ?_⟩
    intro d hd'
    simp only [out, mergedDocs, List.mem_flatMap, List.mem_map] at hd'
    obtain ⟨i, _, d0, _, rfl⟩ := hd'
    exact reDoc_asc _ _ _

end S

/-! ## (D) doc values -/

section D
open Ice.Model.DocValues

/-- **D_iterate.**  `iterateAllDocValues` (docvalues.go:201-230) on the clone of the reader opened
    on a column written by the doc-value writer - the builder's or the merger's mode, anywhere in
    a file - hands the visitor every (docNum, bytes) the column holds, in ascending document
    order, chunk by chunk; empty chunks and chunks never flushed contribute nothing. -/
theorem D_iterate {σ : Type} (mode : Ice.Props.C07.Mode) (z : Codec) {cs maxDocNum : Nat}
    {vals : List (Nat × List Bytes)} (hv : Ice.Props.C07.Valid cs maxDocNum vals) (file : Data)
    (pre suf sec : Bytes) (dvStart dvEnd : Nat)
    (hw : Ice.Props.C07.writeField mode z cs maxDocNum pre.length vals = .ok (sec, dvStart, dvEnd))
    (hfile : file.bytes = pre ++ sec ++ suf) (hsuf : 10 ≤ suf.length)
    (hlen : file.bytes.length < 2 ^ 63)
    (r0 : Reader) (hload : loadFieldDocValueReader file dvStart dvEnd = .ok (some r0))
    (f : σ → Nat → Bytes → Res σ) (s : σ) :
    resFst (iterateAll z file f (List.range r0.clone.chunkOffsets.length) r0.clone s) =
      foldV f (Ice.Props.C07.fed mode vals) s ∧
    (Ice.Props.C07.fed mode vals).Pairwise (fun a b => a.1 < b.1) := by
  have hb := Ice.Props.C07.validVals_encVals hv
  have hfed : ValidVals cs maxDocNum (Ice.Props.C07.fed mode vals) := by
    cases mode with
    | builder => exact hb.filter _
    | merger => exact hb
  rw [Ice.Props.C07.writeField_eq mode z hv] at hw
  simp only [Res.ok.injEq, Prod.mk.injEq] at hw
  obtain ⟨h1, h2, h3⟩ := hw
  subst h1; subst h2; subst h3
  obtain ⟨L, r0', hload', _, _, hinv⟩ := reader_opens z hfed file pre suf hfile hsuf hlen
  rw [hload] at hload'
  simp only [Res.ok.injEq, Option.some.injEq] at hload'
  subst hload'
  exact ⟨iterateAll_spec z hfed L f r0.clone s hinv.1 hinv.2.1, hfed.asc⟩

/-- one input of a merge as the doc-value part sees it for one field -/
structure DvInput where
  abs : Spec.AbsSeg
  drops : List Nat
  /-- `setupActiveForField`: the segment has a dictionary for the field with at least one key -/
  inFocus : Bool
  /-- its file, its reader for the field (if any), and the column that reader reads -/
  spec : DvSpec

/-- the inputs of `Spec.merge` -/
def dvAbsIns (ins : List DvInput) : List (Spec.AbsSeg × List Nat) :=
  ins.map fun i => (i.abs, i.drops)

/-- the column of the input the merge uses: none when the segment is not in focus or has no
    reader for the field -/
def DvInput.colIn (i : DvInput) : ColIn :=
  { n := i.abs.docs.length, drops := i.drops, col := if i.inFocus then i.spec.col else none }

/-- the merged column: for every input taking part, in input order, the survivors'
    (newDocNum, bytes) -/
def mergedCol (ins : List DvInput) : List (Nat × Bytes) := mergedColFrom (ins.map (·.colIn)) 0

/-- the input contract of the doc-value part for field `f` -/
structure DvInputOK (z : Codec) (cs : Nat) (f : Bytes) (i : DvInput) : Prop where
  /-- a reader, if there is one, reads a column written by the doc-value writer -/
  spec : i.spec.OK z cs
  /-- … for the documents of the segment -/
  docs : ∀ vals, i.spec.col = some vals → i.spec.maxDocNum < i.abs.docs.length
  /-- the column the merge uses holds the abstract doc values; a segment that does not take part
      has none in this field -/
  rel : match i.colIn.col with
    | some vals => ∀ d, splitSep (bytesOf vals d) [] = Spec.dvOf i.abs d f
    | none => ∀ d, Spec.dvOf i.abs d f = []

theorem colIn_ok (z : Codec) (cs : Nat) (f : Bytes) (i : DvInput) (h : DvInputOK z cs f i) :
    i.colIn.OK := by
  intro vals hvals
  unfold DvInput.colIn at hvals
  simp only at hvals
  cases hf : i.inFocus with
  | false => rw [hf] at hvals; simp at hvals
  | true =>
    rw [hf] at hvals
    simp only [if_true] at hvals
    have hs := h.spec
    unfold DvSpec.OK at hs
    rw [hvals] at hs
    simp only at hs
    obtain ⟨_, hv, _⟩ := hs
    refine ⟨hv.asc, ?_⟩
    intro p hp
    have := hv.max p hp
    have := h.docs vals hvals
    show p.1 < i.abs.docs.length
    omega

theorem merge_maps_colIn (m : Nat) (ins : List DvInput) :
    (Spec.merge m (dvAbsIns ins)).2 =
      Spec.remapAll ((ins.map (·.colIn)).map fun c => (c.n, c.drops)) 0 := by
  rw [Spec.merge_maps, dvAbsIns, List.map_map, List.map_map]; rfl

theorem numDocs_colIn (m : Nat) (ins : List DvInput) :
    Spec.numDocs (Spec.merge m (dvAbsIns ins)).1 =
      ((ins.map (·.colIn)).map fun c => Spec.liveCount c.drops c.n).sum := by
  rw [Spec.numDocs_merge, dvAbsIns, List.map_map, List.map_map]; rfl

/-- **D_merged.**  The doc-value part of `persistMergedRestField` for one field
    (merge.go:251-252, 336-337, 371-433) with the maps of the merge: `DocValues.mergeField`
    applied to the merged column; the field gets a column iff some input IN FOCUS has a reader for
    it (otherwise both offsets are `fieldNotUninverted` and nothing is written). -/
theorem D_merged (z : Codec) (cs : Nat) (hcs : 0 < cs) (f : Bytes) (m count : Nat)
    (ins : List DvInput) (hok : ∀ i ∈ ins, DvInputOK z cs f i)
    (hsmall : Spec.numDocs (Spec.merge m (dvAbsIns ins)).1 < 2 ^ 63 - 1) :
    dvField z cs (Spec.numDocs (Spec.merge m (dvAbsIns ins)).1) count ins (·.inFocus)
        (fun i => i.spec.seg) ((Spec.merge m (dvAbsIns ins)).2.map (·.map encNum)) =
      if ins.any (fun i => i.inFocus && i.spec.col.isSome) then
        mergeField z cs (sub64 (Spec.numDocs (Spec.merge m (dvAbsIns ins)).1) 1) count
          (mergedCol ins)
      else .ok ([], fieldNotUninverted, fieldNotUninverted) := by
  have hshape := Ice.Props.C03.C03_shape m (dvAbsIns ins)
  have hlen : ((Spec.merge m (dvAbsIns ins)).2.map (·.map encNum)).length = ins.length := by
    have := congrArg List.length hshape
    simpa [dvAbsIns] using this
  rw [dvField_eq z cs _ count hcs ins (·.inFocus) (·.spec) _ (by omega)
    (fun i hi _ => (hok i hi).spec) ?_]
  · congr 2
    -- the column
    rw [zipIdx_flatMap_getD
      (fun (i : DvInput) nums => if i.inFocus then i.spec.part nums else []) [] ins _ 0 (by omega),
      List.drop_zero, merge_maps_colIn]
    have hparts := parts_remapAll (ins.map (·.colIn)) 0
      (by
        intro c hc
        obtain ⟨i, hi, rfl⟩ := List.mem_map.1 hc
        exact colIn_ok z cs f i (hok i hi))
      (by rw [← numDocs_colIn m ins]; simp only [docDropped]; omega)
    rw [mergedCol, ← hparts]
    generalize (Spec.remapAll ((ins.map (·.colIn)).map fun c => (c.n, c.drops)) 0).map
      (·.map encNum) = N
    clear hparts hlen hshape hsmall
    induction ins generalizing N with
    | nil => rfl
    | cons i r ih =>
      cases N with
      | nil => rfl
      | cons nums N =>
        simp only [List.zip_cons_cons, List.flatMap_cons, List.map_cons]
        rw [ih (fun j hj => hok j (by simp [hj]))]
        congr 1
        unfold DvInput.colIn DvSpec.part
        cases i.inFocus with
        | false => simp
        | true => rfl
  · intro j i hj hf vals hcol p hp
    have hi := List.mem_of_getElem? hj
    have hio := hok i hi
    have hs := hio.spec
    unfold DvSpec.OK at hs
    rw [hcol] at hs
    simp only at hs
    obtain ⟨_, hv, _⟩ := hs
    have h1 := hv.max p hp
    have h2 := hio.docs vals hcol
    have hl := congrArg (fun l => l[j]?) hshape
    have hi' : (dvAbsIns ins)[j]? = some (i.abs, i.drops) := by
      rw [dvAbsIns, List.getElem?_map, hj]; rfl
    simp only [List.getElem?_map, hi', Option.map_some] at hl
    rw [List.getD_eq_getElem?_getD, List.getElem?_map]
    cases hm : (Spec.merge m (dvAbsIns ins)).2[j]? with
    | none => rw [hm] at hl; simp at hl
    | some nums =>
      rw [hm] at hl
      simp only [Option.map_some, Option.some.injEq] at hl
      simp only [Option.map_some, Option.getD_some, List.length_map]
      omega

/-- **D_merged_valid.**  The merged column satisfies the contract of the chunked content coder
    and of the reader (C07): document numbers ascend - so chunk indices never decrease - and lie
    below the merged count. -/
theorem D_merged_valid (z : Codec) (cs : Nat) (hcs : 0 < cs) (f : Bytes) (m : Nat)
    (ins : List DvInput) (hok : ∀ i ∈ ins, DvInputOK z cs f i)
    (hpos : 0 < Spec.numDocs (Spec.merge m (dvAbsIns ins)).1)
    (hsmall : Spec.numDocs (Spec.merge m (dvAbsIns ins)).1 < 2 ^ 63)
    (hraw : (dataOf (mergedCol ins)).length < 2 ^ 64 - 1) :
    ValidVals cs (Spec.numDocs (Spec.merge m (dvAbsIns ins)).1 - 1) (mergedCol ins) := by
  have hcok : ∀ c ∈ ins.map (·.colIn), c.OK := by
    intro c hc
    obtain ⟨i, hi, rfl⟩ := List.mem_map.1 hc
    exact colIn_ok z cs f i (hok i hi)
  refine ⟨hcs, mergedColFrom_asc _ 0 hcok, ?_, by omega, hraw⟩
  intro q hq
  have := (mergedColFrom_range _ 0 hcok q hq).2
  rw [← numDocs_colIn m ins] at this
  omega

/-- **D_merged_dvOf.**  For every merged document `k` the merged column holds the doc values of
    the survivor that became `k`: cut at the separators they are `Spec.dvOf (Spec.merge …) k f`;
    documents of inputs that take no part (not in focus, or no reader) have none. -/
theorem D_merged_dvOf (z : Codec) (cs : Nat) (f : Bytes) (m : Nat) (ins : List DvInput)
    (hok : ∀ i ∈ ins, DvInputOK z cs f i) (k : Nat)
    (hk : k < Spec.numDocs (Spec.merge m (dvAbsIns ins)).1) :
    splitSep (bytesOf (mergedCol ins) k) [] = Spec.dvOf (Spec.merge m (dvAbsIns ins)).1 k f := by
  have hcok : ∀ c ∈ ins.map (·.colIn), c.OK := by
    intro c hc
    obtain ⟨i, hi, rfl⟩ := List.mem_map.1 hc
    exact colIn_ok z cs f i (hok i hi)
  rw [numDocs_colIn] at hk
  obtain ⟨j, c, d, hj, hd, hc, hkeq⟩ := exists_source _ k hk
  rw [List.getElem?_map] at hj
  cases hi : ins[j]? with
  | none => rw [hi] at hj; simp at hj
  | some i =>
    rw [hi] at hj
    simp only [Option.map_some, Option.some.injEq] at hj
    subst hj
    have hio := hok i (List.mem_of_getElem? hi)
    -- the model side
    have hlook := lookup_mergedColFrom _ 0 hcok j i.colIn d
      (by rw [List.getElem?_map, hi]; rfl) hd hc
    rw [Nat.zero_add, ← hkeq] at hlook
    -- the specification side
    have hi' : (dvAbsIns ins)[j]? = some (i.abs, i.drops) := by
      rw [dvAbsIns, List.getElem?_map, hi]; rfl
    have hdlt : d < i.abs.docs.length := hd
    have hlm := Ice.Props.C03.lookup_merge m (dvAbsIns ins) j d i.abs i.drops hi'
    rw [if_pos hdlt] at hlm
    have hcd : i.drops.contains d = false := hc
    rw [hcd] at hlm
    simp only [Bool.false_eq_true, if_false] at hlm
    have hsum : (((dvAbsIns ins).take j).map fun p => Spec.liveCount p.2 p.1.docs.length).sum =
        (((ins.map (·.colIn)).take j).map fun c => Spec.liveCount c.drops c.n).sum := by
      rw [dvAbsIns, ← List.map_take, ← List.map_take, List.map_map, List.map_map]; rfl
    have hkeq' : k = (((ins.map (·.colIn)).take j).map fun c => Spec.liveCount c.drops c.n).sum +
        Spec.liveCount i.drops d := hkeq
    rw [hsum, ← hkeq'] at hlm
    have hcont := (Ice.Props.C03.C03_content m (dvAbsIns ins) j d k i.abs i.drops hi' hlm).1
    have hdv : Spec.dvOf (Spec.merge m (dvAbsIns ins)).1 k f = Spec.dvOf i.abs d f := by
      unfold Spec.dvOf; rw [hcont]
    rw [hdv]
    have hrel := hio.rel
    unfold bytesOf mergedCol
    rw [hlook]
    cases hcol : i.colIn.col with
    | none =>
      rw [hcol] at hrel
      simp only at hrel
      rw [hrel d]
      rfl
    | some vals =>
      rw [hcol] at hrel
      simp only at hrel
      exact hrel d

/-- **D_merged_read.**  Hence a `DocumentValueReader` on the merged segment delivers, for every
    sequence of visits of merged documents, `Spec.dvOf (Spec.merge …)`: compose `D_merged` with the
    reader theorems of C07. -/
theorem D_merged_read (z : Codec) (cs : Nat) (hcs : 0 < cs) (f : Bytes) (m : Nat)
    (ins : List DvInput) (hok : ∀ i ∈ ins, DvInputOK z cs f i)
    (hpos : 0 < Spec.numDocs (Spec.merge m (dvAbsIns ins)).1)
    (hsmall : Spec.numDocs (Spec.merge m (dvAbsIns ins)).1 < 2 ^ 63 - 1)
    (hraw : (dataOf (mergedCol ins)).length < 2 ^ 64 - 1)
    (hany : ins.any (fun i => i.inFocus && i.spec.col.isSome) = true)
    (file : Data) (pre suf : Bytes) (hsuf : 10 ≤ suf.length) (hlen : file.bytes.length < 2 ^ 63) :
    ∃ sec dvStart dvEnd,
      dvField z cs (Spec.numDocs (Spec.merge m (dvAbsIns ins)).1) pre.length ins (·.inFocus)
        (fun i => i.spec.seg) ((Spec.merge m (dvAbsIns ins)).2.map (·.map encNum)) =
        .ok (sec, dvStart, dvEnd) ∧
      (file.bytes = pre ++ sec ++ suf →
        ∃ r0, loadFieldDocValueReader file dvStart dvEnd = .ok (some r0) ∧
        ∀ ds : List Nat, (∀ d ∈ ds, d < Spec.numDocs (Spec.merge m (dvAbsIns ins)).1) →
          ∃ r', Reader.visitAll z file cs r0 ds =
            .ok (ds.map fun d => Spec.dvOf (Spec.merge m (dvAbsIns ins)).1 d f, r')) := by
  have hvalid := D_merged_valid z cs hcs f m ins hok hpos (by omega) hraw
  have hn : (Spec.numDocs (Spec.merge m (dvAbsIns ins)).1 - 1) / cs + 1 < 2 ^ 64 :=
    Nat.lt_of_le_of_lt (Nat.succ_le_succ (Nat.div_le_self _ _)) (by omega)
  have hsub : sub64 (Spec.numDocs (Spec.merge m (dvAbsIns ins)).1) 1 =
      Spec.numDocs (Spec.merge m (dvAbsIns ins)).1 - 1 := sub64_small (by omega) (by omega)
  have hD := D_merged z cs hcs f m pre.length ins hok hsmall
  rw [if_pos hany, hsub, mergeField_eq z cs _ _ hcs hn _ hvalid.asc hvalid.max] at hD
  refine ⟨_, _, _, hD, ?_⟩
  intro hfile
  obtain ⟨L, r0, hload, _, _, hinv⟩ := reader_opens z hvalid file pre suf hfile hsuf hlen
  refine ⟨r0, hload, ?_⟩
  intro ds hds
  obtain ⟨r', hvis, _⟩ := visitAll_spec z hvalid L ds _ hinv (fun d hd => by have := hds d hd; omega)
  refine ⟨r', ?_⟩
  have hmap : (ds.map fun d => splitSep (bytesOf (mergedCol ins) d) []) =
      ds.map fun d => Spec.dvOf (Spec.merge m (dvAbsIns ins)).1 d f :=
    List.map_congr_left (fun d hd => D_merged_dvOf z cs f m ins hok d (hds d hd))
  rw [hvis, hmap]

/-- **D_written_ok.**  Non-vacuity of `DvSpec.OK`, in general: a column written by the doc-value
    writer (either mode writes `sectionOf (chunksOf …)`, `C07.writeField_eq`) anywhere in a file,
    together with the reader `loadFieldDocValueReader` returns for it, is a `DvSpec` that is OK. -/
theorem D_written_ok (z : Codec) {cs maxDocNum : Nat} {vals : List (Nat × Bytes)}
    (hv : ValidVals cs maxDocNum vals) (pre suf : Bytes) (mem : Bool) (hsuf : 10 ≤ suf.length)
    (hlen : (pre ++ sectionOf (chunksOf z cs (maxDocNum / cs + 1) vals) ++ suf).length < 2 ^ 63) :
    ∃ r0, loadFieldDocValueReader
        ⟨pre ++ sectionOf (chunksOf z cs (maxDocNum / cs + 1) vals) ++ suf, mem⟩ pre.length
        (pre.length + (sectionOf (chunksOf z cs (maxDocNum / cs + 1) vals)).length) =
          .ok (some r0) ∧
      DvSpec.OK z cs
        { seg := { data := ⟨pre ++ sectionOf (chunksOf z cs (maxDocNum / cs + 1) vals) ++ suf, mem⟩,
                   reader := some r0 },
          cs := cs, maxDocNum := maxDocNum, pre := pre, suf := suf, col := some vals } := by
  obtain ⟨L, r0, hload, _, _, hinv⟩ := reader_opens z hv
    ⟨pre ++ sectionOf (chunksOf z cs (maxDocNum / cs + 1) vals) ++ suf, mem⟩ pre suf rfl hsuf hlen
  exact ⟨r0, hload, rfl, hv, L, r0, rfl, hinv.1, hinv.2.1⟩

end D

/-! ## examples (evaluated by the kernel)

  `decide +kernel` where the doc-value or stored WRITER is evaluated: `putUvarint` is defined by
  well-founded recursion, which `decide` cannot unfold but the kernel can; no axiom is involved
  (see the `#print axioms` of `S_example_three_segments` below). -/

section Examples
open Ice.Model.Stored
open Ice.Props.C06 (idCodec putUvarint_small)

instance (fields : List Bytes) (d : Doc) (a : Spec.ADoc) : Decidable (DocRel fields d a) := by
  unfold DocRel; exact inferInstance

instance (d : Doc) : Decidable (DocAsc d) := by unfold DocAsc; exact inferInstance

/-- a document all of whose field names are in the field list is closed under it (every segment
    built by `Spec.build` is like that) -/
theorem closed_of_names (fields : List Bytes) (a : Spec.ADoc) (h : ∀ af ∈ a, af.name ∈ fields) :
    ClosedDoc fields a := by
  intro f hf
  unfold gOf Spec.ADoc.field?
  have : a.find? (fun af => af.name == f) = none := by
    rw [List.find?_eq_none]
    intro af haf
    have := h af haf
    simp only [beq_iff_eq]
    intro e; exact hf (e ▸ this)
  rw [this]

def fa : Bytes := [97]
def fb : Bytes := [98]
def fc : Bytes := [99]

/-! ### (N) every segment gets a map -/

/-- no document survives: two maps of dropped sentinels, the count is 0 -/
example : (Spec.merge 1 [(Ice.Props.C03.exSeg 2, [0, 1]), (Ice.Props.C03.exSeg 1, [0])]).2.map
    (·.map encNum) = [[docDropped, docDropped], [docDropped]] := by decide
example : computeNewDocCount [(2, [0, 1]), (1, [0])] = 0 := by decide
/-- a segment without documents in the middle and a fully deleted one at the end get their
    (empty / all-dropped) maps -/
example : (Spec.merge 1 [(Ice.Props.C03.exSeg 1, []), (Ice.Props.C03.exSeg 0, []),
      (Ice.Props.C03.exSeg 2, [0, 1])]).2.map (·.map encNum) =
    [[0], [], [docDropped, docDropped]] := by decide
/-- the model: a zero-survivor merge of two real segments still writes a (loadable) empty stored
    section and returns both maps -/
example : Res.map (fun r => (r.1, r.2.1))
      (mergeStored idCodec 2
        [{ fields := [idField], seg := segOfNew idCodec 2 1 [[(0, [[1]])], [(0, [[2]])]] [] },
         { fields := [idField], seg := segOfNew idCodec 2 1 [] [] }] [[0, 1], []] Buf.empty) =
    .ok (writeStoredFields idCodec 2 [], [[docDropped, docDropped], []]) := by decide +kernel

/-! ### (S) three segments, different field lists, a deletion -/

def exS0 : Src :=
  { fields := [idField, fa],
    seg := segOfNew idCodec 2 2 [[(0, [[1]]), (1, [[10, 11]])], [(0, [[2]])]] [7, 7] }
def exS1 : Src :=
  { fields := [idField, fb, fc], seg := segOfNew idCodec 2 3 [[(0, [[3]]), (2, [[30], [31]])]] [] }
def exS2 : Src :=
  { fields := [idField, fa, fc],
    seg := segOfNew idCodec 2 3 [[(0, [[4]]), (1, [[40]]), (2, [[41]])]] [9] }

/-- merged field ids: `_id` 0, `a` 1, `b` 2, `c` 3 -/
def exSDocs : List Doc :=
  [[(0, [[2]]), (1, []), (2, []), (3, [])],
   [(0, [[3]]), (1, []), (2, []), (3, [[30], [31]])],
   [(0, [[4]]), (1, [[40]]), (2, []), (3, [[41]])]]

example : mergeFields [exS0.fields, exS1.fields, exS2.fields] = (false, [idField, fa, fb, fc]) := by
  decide

/-- document 0 of segment 0 is deleted; field `c` (stored values `30`, `31`) exists in segments
    1 and 2 only, field `b` in segment 1 only -/
theorem S_example_three_segments :
    Res.map (fun r => (r.1, r.2.1))
      (mergeStored idCodec 2 [exS0, exS1, exS2] [[0], [], []] Buf.empty) =
    .ok (writeStoredFields idCodec 2 exSDocs, [[docDropped, 0], [1], [2]]) := by decide +kernel

/-- … and the merged document 1 (old document 0 of segment 1) is visited with merged field ids -/
example : Res.map (·.1) (visit idCodec (segOfNew idCodec 2 4 exSDocs [5, 5]) Buf.empty 1 none) =
    .ok [(0, [3]), (3, [30]), (3, [31])] := by decide +kernel

/-! ### (S) the copy path: 3 + 2 documents, destination blocks of 2

  Source blocks: `[d0 d1] [d2]` and `[e0 e1] []`; destination blocks: `[d0 d1] [d2 e0] [e1]` - the
  destination flushes between `e0` and `e1`, in the middle of a source block.  `d2` has no stored
  fields (record `00 00`, alone in its source block), `e0` has an empty value. -/

def exC0 : Src :=
  { fields := [idField, fa],
    seg := segOfNew idCodec 2 2 [[(0, [[1]])], [(0, [[2]]), (1, [[20]])], []] [7, 7] }
def exC1 : Src :=
  { fields := [idField, fa], seg := segOfNew idCodec 2 2 [[(1, [[], [5, 5]])], [(0, [[6]])]] [] }

example : (mergeFields [exC0.fields, exC1.fields]).1 = true := by decide

theorem S_example_copy :
    Res.map (fun r => (r.1, r.2.1)) (mergeStored idCodec 2 [exC0, exC1] [[], []] Buf.empty) =
    .ok (writeStoredFields idCodec 2
          [[(0, [[1]])], [(0, [[2]]), (1, [[20]])], [], [(1, [[], [5, 5]])], [(0, [[6]])]],
         [[0, 1, 2], [3, 4]]) := by decide +kernel

/-- the per-document offsets: `e0` (new number 3) lies at offset 2 of the destination's second
    block (behind the 2-byte record of `d2`), `e1` (new number 4) at offset 0 of its third block -/
example : (writeStoredFields idCodec 2
      [[(0, [[1]])], [(0, [[2]]), (1, [[20]])], [], [(1, [[], [5, 5]])], [(0, [[6]])]]).bytes.drop 46 =
    Writer.be 8 0 ++ Writer.be 8 6 ++ Writer.be 8 0 ++ Writer.be 8 2 ++ Writer.be 8 0 := by
  decide +kernel

/-- the same inputs through the re-encode path (`fieldsSame` forced to false) give the same
    section -/
example :
    Res.map (fun r => r.1)
      (mergeStoredAndRemap idCodec 2 [exC0, exC1] [[], []] [idField, fa] false 5 Buf.empty) =
    Res.map (fun r => r.1)
      (mergeStoredAndRemap idCodec 2 [exC0, exC1] [[], []] [idField, fa] true 5 Buf.empty) := by
  decide +kernel

/-! ### (S) the hypotheses of `S_merged` are satisfiable -/

def mkF (name : Bytes) (stored : List Bytes) : Spec.AField :=
  { name := name, length := 0, norm := 0, terms := [], stored := stored, dv := false }

def exI0 : Input :=
  { abs := { docs := [[mkF idField [[1]], mkF fa [[10, 11]]], [mkF idField [[2]]]],
             fields := [idField, fa], fieldDocs := [0, 0], fieldFreqs := [0, 0], chunkMode := 1 },
    drops := [0],
    docs := [[(0, [[1]]), (1, [[10, 11]])], [(0, [[2]])]],
    tail := [7, 7] }

def exI1 : Input :=
  { abs := { docs := [[mkF idField [[3]], mkF fb [[30], [31]]]],
             fields := [idField, fb], fieldDocs := [0, 0], fieldFreqs := [0, 0], chunkMode := 1 },
    drops := [],
    docs := [[(0, [[3]]), (1, [[30], [31]])]],
    tail := [] }

theorem exI0_ok : InputOK idCodec 2 exI0 := by
  refine ⟨⟨[fa], rfl, by simp [Asc], by decide⟩, ⟨by decide, by decide, by decide, ?_, ?_⟩,
    by decide, ?_, ?_, ?_⟩
  · simp [exI0, record, encodeDoc, encodeStoredFieldValues, putUvarint_small]
  · simp [exI0, writeStoredFields, writeDocs, encodeDoc, encodeStoredFieldValues,
      Coder.add, Coder.flush, Coder.write, putUvarint_small, Writer.be, idCodec]
  · exact .cons (by decide) (.cons (by decide) .nil)
  · intro a ha
    apply closed_of_names
    revert a
    decide
  · exact ⟨by decide, by decide⟩

theorem exI1_ok : InputOK idCodec 2 exI1 := by
  refine ⟨⟨[fb], rfl, by simp [Asc], by decide⟩, ⟨by decide, by decide, by decide, ?_, ?_⟩,
    by decide, ?_, ?_, ?_⟩
  · simp [exI1, record, encodeDoc, encodeStoredFieldValues, putUvarint_small]
  · simp [exI1, writeStoredFields, writeDocs, encodeDoc, encodeStoredFieldValues,
      Coder.add, Coder.flush, Coder.write, putUvarint_small, Writer.be, idCodec]
  · exact .cons (by decide) .nil
  · intro a ha
    apply closed_of_names
    revert a
    decide
  · exact ⟨by decide, by decide⟩

/-- `S_merged` applied -/
example : ∃ buf', mergeStored idCodec 2 [exI0.src idCodec 2, exI1.src idCodec 2] [[0], []] Buf.empty =
    .ok (writeStoredFields idCodec 2 (mergedDocs [exI0, exI1]),
         (Spec.merge 1 (absIns [exI0, exI1])).2.map (·.map encNum), buf') :=
  S_merged idCodec (fun _ h => h) 2 (by decide) 1 [exI0, exI1] Buf.empty
    (by intro i hi; simp at hi; rcases hi with rfl | rfl; exact exI0_ok; exact exI1_ok)
    (by decide) (by intro h; exact absurd h (by decide)) (by decide)

example : mergedDocs [exI0, exI1] =
    [[(0, [[2]]), (1, []), (2, [])], [(0, [[3]]), (1, []), (2, [[30], [31]])]] := by decide
example : Spec.stored (Spec.merge 1 (absIns [exI0, exI1])).1 1 =
    [(idField, [3]), (fb, [30]), (fb, [31])] := by decide

/-! ### (D) doc values: which table `buildMergedDocVals` indexes -/

open Ice.Model.DocValues
open Ice.Props.C07 (exCodec)

/-- an input for one field: in focus or not, its file and reader -/
structure ExSeg where
  inFocus : Bool
  dv : DvSeg

/-- a segment built by the builder with the given doc values (`none`: no reader) -/
def mkSeg (cs maxDoc : Nat) (pre : Bytes) (vals : Option (List (Nat × List Bytes)))
    (inFocus : Bool) : ExSeg :=
  match vals with
  | none => ⟨inFocus, ⟨⟨pre ++ List.replicate 10 99, false⟩, none⟩⟩
  | some v =>
    match buildField exCodec cs maxDoc pre.length (encVals v) with
    | .ok (sec, st, en) =>
      let data : Data := ⟨pre ++ sec ++ List.replicate 10 99, false⟩
      match loadFieldDocValueReader data st en with
      | .ok r => ⟨inFocus, ⟨data, r⟩⟩
      | _ => ⟨inFocus, ⟨data, none⟩⟩
    | _ => ⟨inFocus, ⟨⟨[], false⟩, none⟩⟩

/-- A: 2 documents, field absent, not in focus.  B: 3 documents, in focus, documents 0 and 2 have
    terms, document 0 is deleted.  C: 4 documents, in focus, documents 1 and 3 have terms, document
    3 is deleted.  E: 1 document, in focus (it has the term dictionary) but no doc values.
    Chunks of 2 documents. -/
def exA := mkSeg 2 1 [1] none false
def exB := mkSeg 2 2 [2, 2] (some [(0, [[5]]), (2, [[6], [7]])]) true
def exC := mkSeg 2 3 [] (some [(1, [[8]]), (3, [[9]])]) true
def exE := mkSeg 2 0 [4] none true

def exNums : List (List Nat) := [[0, 1], [docDropped, 2, 3], [4, 5, 6, docDropped], [7]]

/-- the surviving doc values land under the new numbers 3 (B's document 2) and 5 (C's document 1) -/
theorem D_example : dvField exCodec 2 8 100 [exA, exB, exC, exE] (·.inFocus) (·.dv) exNums =
    mergeField exCodec 2 7 100 (encVals [(3, [[6], [7]]), (5, [[8]])]) := by decide +kernel

/-- no input in focus has a reader: the field is not uninverted, nothing is written -/
example : dvField exCodec 2 8 100 [exA, exE] (·.inFocus) (·.dv) exNums =
    .ok ([], fieldNotUninverted, fieldNotUninverted) := by decide +kernel

/-- A': like A with 3 documents; B': 2 documents, both with terms, no deletions -/
def exA' := mkSeg 2 2 [1] none false
def exB' := mkSeg 2 1 [2, 2] (some [(0, [[5]]), (1, [[6]])]) true

/-- **D_unfiltered_counterexample.**  The table `buildMergedDocVals` indexes with the position
    among the segments in focus is the FILTERED list built by `setupActiveForField`.  Indexing the
    unfiltered per-input list instead (`dvFieldUnfiltered`) is wrong as soon as an earlier input is
    not in focus: B' is input 1 but segment-in-focus 0, so its documents would be renumbered with
    A's map (0, 1) instead of its own (3, 4). -/
theorem D_unfiltered_counterexample :
    dvField exCodec 2 5 100 [exA', exB'] (·.inFocus) (·.dv) [[0, 1, 2], [3, 4]] =
      mergeField exCodec 2 4 100 (encVals [(3, [[5]]), (4, [[6]])]) ∧
    dvFieldUnfiltered exCodec 2 5 100 [exA', exB'] (·.inFocus) (·.dv) [[0, 1, 2], [3, 4]] =
      mergeField exCodec 2 4 100 (encVals [(0, [[5]]), (1, [[6]])]) ∧
    mergeField exCodec 2 4 100 (encVals [(0, [[5]]), (1, [[6]])]) ≠
      mergeField exCodec 2 4 100 (encVals [(3, [[5]]), (4, [[6]])]) := by
  refine ⟨by decide +kernel, by decide +kernel, by decide +kernel⟩

/-- with a shorter earlier input the unfiltered table is even indexed out of range (Go panics) -/
example : dvFieldUnfiltered exCodec 2 8 100 [exA, exB, exC, exE] (·.inFocus) (·.dv) exNums =
    .panic := by decide +kernel

end Examples

end Ice.Props.C02Stored
