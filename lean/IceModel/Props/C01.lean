import IceModel.Model.Builder
import IceModel.Lemmas.Builder.SpecDV
/-
  Property C01: the segment `New` builds returns exactly the postings its documents imply.

  Proved here for the BUILDER ALGORITHM of new.go (`IceModel/Model/Builder.lean`: the field table,
  the two passes over the documents with the shared backing arrays, the stored-field loop, the
  dictionary writer) against the abstract specification `Spec.build` (`IceModel/Spec/Seg.lean`), on
  the level of entries (the byte encodings of the entries are C05-C08, C11, C12).

  `run nc π b` is `convert` on the batch `b` with norm function `nc`; `π` supplies, for every
  (document, field), the order in which Go's `for term, tf := range tfs` (new.go:521) visits the
  rolled-up terms - an ARBITRARY permutation (`PermOK π`).  Inside the input contract `ValidBatch b`
    * `run` does not fail: no index or slice expression of new.go panics, no window is reallocated,
      vellum receives its keys strictly ascending (`C01_run_ok`),
    * its result does not depend on `π` (`C01_order_independent`) and is `builtOf nc b`,
    * every observation coincides with `Spec.build nc mode b`: the field list (`C01_fields`), the
      dictionary keys (`C01_terms`), the postings of every (field, term) with frequencies, norms and
      locations (`C01_postings`), stored values (`C01_stored`), doc values (`C01_dv`), the per-field
      statistics (`C01_stats`).
  THE WINDOW LEMMA - pass 2 appends into zero-length windows `backing[0:0]` of one shared array and
  stays inside what pass 1 reserved - has two halves: `C01_window_append` (an append strictly inside
  the reservation is an append to that postings list alone) and `C01_window_fits` (pass 2 never
  appends more than pass 1 counted, for every map order).  `window_overflow_corrupts` shows that the
  model really has no other protection: a window that outgrows its reservation overwrites its
  neighbour.

  The contract (`ValidBatch`, decidable): every location names its own field (empty name) or a field
  that occurs in the batch (otherwise `getOrDefineField` inside pass 2 defines a field behind the
  sorted table and `IncludeDocValues[fieldID]` panics, new.go:745); fewer than 65535 distinct field
  names (field ids are uint16).  Not needed: frequency ≥ number of locations.
-/
namespace Ice.Props.C01
open Ice Ice.Spec Ice.Model.Builder

/-! ### the refinement -/

/-- inside the contract the builder does not fail, whatever the map order -/
theorem C01_run_ok (nc : Bytes → Nat → Nat) (π : Order) (b : Batch) (hv : ValidBatch b) (hπ : PermOK π) :
    ∃ r, run nc π b = .ok r := ⟨_, run_eq nc π b hv hπ⟩

/-- map order independence: every permutation supplier gives the result of the identity order -/
theorem C01_order_independent (nc : Bytes → Nat → Nat) (π : Order) (b : Batch) (hv : ValidBatch b)
    (hπ : PermOK π) : run nc π b = run nc idOrder b := by
  rw [run_eq nc π b hv hπ, run_eq nc idOrder b hv (fun _ _ m => List.Perm.refl m)]

section
variable {nc : Bytes → Nat → Nat} {π : Order} {b : Batch} {r : Built}
  (hv : ValidBatch b) (hπ : PermOK π) (h : run nc π b = .ok r) (mode : Nat)
include hv hπ h

theorem built_eq : r = builtOf nc b := by
  rw [run_eq nc π b hv hπ] at h; injection h with h; exact h.symm

/-- the field list: `_id` first, the other names ascending -/
theorem C01_fields : r.fields = (build nc mode b).fields := by
  rw [built_eq hv hπ h]; rfl

/-- the dictionary keys of a field, in vellum insertion order, are the field's terms -/
theorem C01_terms (f : Bytes) : r.terms f = terms (build nc mode b) f := by
  rw [built_eq hv hπ h]; exact terms_builtOf nc mode b f

/-- … hence strictly ascending and duplicate-free, as vellum's Insert demands -/
theorem C01_terms_asc (f : Bytes) : Asc (r.terms f) := by
  rw [C01_terms hv hπ h 0 f]; exact asc_terms _ _

/-- the postings of every (field, term): documents ascending, summed frequency, norm of the summed
    length, locations in input order with their field names -/
theorem C01_postings (f t : Bytes) : r.postings f t = postings (build nc mode b) f t := by
  rw [built_eq hv hπ h]; exact postings_builtOf nc mode b f t

theorem C01_stored (n : Nat) : r.storedOf n = stored (build nc mode b) n := by
  rw [built_eq hv hπ h]; exact stored_builtOf nc mode b (FL_length_le hv.2) n

theorem C01_dv (n : Nat) (f : Bytes) : r.dvOf n f = dvOf (build nc mode b) n f := by
  rw [built_eq hv hπ h]; exact dvOf_builtOf nc mode b n f

theorem C01_stats : r.fieldDocs = (build nc mode b).fieldDocs ∧
    r.fieldFreqs = (build nc mode b).fieldFreqs := by
  rw [built_eq hv hπ h]; exact ⟨fieldDocs_builtOf nc mode b, fieldFreqs_builtOf nc mode b⟩

/-- (TotalDocumentCount, DocumentCount, SumTotalTermFrequency) of every field -/
theorem C01_stats_obs (f : Bytes) : r.stats b.length f = stats (build nc mode b) f := by
  obtain ⟨h1, h2⟩ := C01_stats hv hπ h mode
  unfold Built.stats stats
  have hn : numDocs (build nc mode b) = b.length := by simp [numDocs, build]
  rw [C01_fields hv hπ h mode, h1, h2, hn]
  cases (build nc mode b).fields.idxOf? f <;> rfl

end

/-! ### the window lemma -/

/-- an append into a window that is still strictly inside its reservation is an append to the list
    that window represents; every other window keeps its contents -/
theorem C01_window_append {α : Type} {res : List Nat} {W : List (Slice α)} {B : List α}
    {A : List (List α)} (h : Refines res W B A) {p : Nat} (hp : p < res.length)
    (hlt : (lget A p).length < nget res p) (x : α) :
    ∃ w, W[p]? = some w ∧
      Refines res (W.set p (w.append B x).1) (w.append B x).2 (A.set p (lget A p ++ [x])) :=
  h.append hp hlt x

/-- pass 2 emits, into every postings list, at most as many freq/norm entries and locations as
    pass 1 counted (`numTermsPerPostingsList`, `numLocsPerPostingsList`) - for every map order -/
theorem C01_window_fits {F : List Bytes} {b : Batch} {D : List (AMap Bytes Nat)} {K : List (List Bytes)}
    {nT nL : List Nat} {n : Nat} (nc : Bytes → Nat → Nat) (π : Order)
    (hD : DictInv F.length (evsI F b.flatten) D K nT nL n) (hπ : PermOK π)
    (hval : ∀ d ∈ b, ∀ f ∈ d, ∀ o ∈ f.terms, ∀ l ∈ o.locs, l.field = [] ∨ l.field ∈ F) :
    Fits n nT nL (allEmits false nc π F D b) := fits_all nc π hD hπ hval

/-- without the window lemma nothing protects the neighbour: two windows with one reserved cell
    each; a second append to the first overwrites the cell of the second -/
theorem window_overflow_corrupts :
    let B0 : List Nat := [0, 0]
    let w0 : Slice Nat := .shared 0 0 2
    let w1 : Slice Nat := .shared 1 0 1
    let (w1, B1) := w1.append B0 7
    let (w0, B2) := w0.append B1 5
    let (_, B3) := w0.append B2 6
    w1.get? B1 0 = some 7 ∧ w1.get? B3 0 = some 6 := by decide

/-! ### a concrete batch -/

def nA : Bytes := [97]
def nAll : Bytes := [95, 97, 108, 108]
def tx : Bytes := [120]
def ty : Bytes := [121]
def nc0 : Bytes → Nat → Nat := (NormP.mk 3 5 7).calc

/-- document 0: field `a` twice with the term `x` in both instances, a composite field `_all`
    (also twice) whose locations name the field `a`; document 1: `_id` and `a` -/
def ex : Batch :=
  [ [ { name := nA, length := 2, store := true, dv := true, value := [1],
        terms := [ { term := tx, freq := 1, locs := [ { field := [], pos := 1, start := 0, stop := 1 } ] },
                   { term := ty, freq := 1, locs := [ { field := [], pos := 2, start := 2, stop := 3 } ] } ] },
      { name := nAll, length := 1, store := false, dv := false, value := [],
        terms := [ { term := tx, freq := 1, locs := [ { field := nA, pos := 1, start := 0, stop := 1 } ] } ] },
      { name := nA, length := 1, store := true, dv := false, value := [2],
        terms := [ { term := tx, freq := 2, locs := [ { field := [], pos := 3, start := 4, stop := 5 } ] } ] },
      { name := nAll, length := 1, store := false, dv := false, value := [],
        terms := [ { term := tx, freq := 1, locs := [ { field := nA, pos := 3, start := 4, stop := 5 } ] } ] } ],
    [ { name := idField, length := 1, store := true, dv := false, value := [9],
        terms := [ { term := [49], freq := 1, locs := [] } ] },
      { name := nA, length := 1, store := false, dv := false, value := [],
        terms := [ { term := ty, freq := 1, locs := [] } ] } ] ]

def check (x : M Built) (p : Built → Bool) : Bool :=
  match x with
  | .ok r => p r
  | .error _ => false

def revOrder : Order := fun _ _ l => l.reverse

example : ValidBatch ex := by decide

/-- the model is executable: every observation of the built segment is the specification's -/
def agrees (r : Built) : Bool :=
  let s := build nc0 0 ex
  r.fields == s.fields && r.fieldDocs == s.fieldDocs && r.fieldFreqs == s.fieldFreqs &&
  s.fields.all (fun f => r.terms f == terms s f &&
    (terms s f).all (fun t => r.postings f t == postings s f t) &&
    (List.range 3).all (fun n => r.dvOf n f == dvOf s n f)) &&
  (List.range 3).all (fun n => r.storedOf n == stored s n)

example : check (run nc0 idOrder ex) agrees = true := by decide
example : check (run nc0 revOrder ex) agrees = true := by decide

/-- the repeated field: `x` occurs in both instances of `a` in document 0 - one posting, frequency
    1 + 2, norm of the summed length 3, both locations -/
example : check (run nc0 idOrder ex) (fun r => r.postings nA tx ==
    [ { doc := 0, freq := 3, norm := nc0 nA 3,
        locs := [ { field := nA, pos := 1, start := 0, stop := 1 },
                  { field := nA, pos := 3, start := 4, stop := 5 } ] } ]) = true := by decide

/-- the composite field keeps the field name its locations carry -/
example : check (run nc0 revOrder ex) (fun r => r.postings nAll tx ==
    [ { doc := 0, freq := 2, norm := nc0 nAll 2,
        locs := [ { field := nA, pos := 1, start := 0, stop := 1 },
                  { field := nA, pos := 3, start := 4, stop := 5 } ] } ]) = true := by decide

/-- the defect fixed by commit 6eca540 (`runV true` = the code before the fix: the locations of a
    term met again in the same document got `field.Name()`): the second location of `x` in `_all`
    comes out as a location in `_all` instead of `a` -/
example : check (runV true nc0 idOrder ex) (fun r => r.postings nAll tx ==
    [ { doc := 0, freq := 2, norm := nc0 nAll 2,
        locs := [ { field := nA, pos := 1, start := 0, stop := 1 },
                  { field := nAll, pos := 3, start := 4, stop := 5 } ] } ]) = true := by decide

example : check (runV true nc0 idOrder ex) (fun r =>
    r.postings nAll tx != postings (build nc0 0 ex) nAll tx) = true := by decide

end Ice.Props.C01
