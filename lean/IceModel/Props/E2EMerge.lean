import IceModel.Lemmas.E2EMRead
import IceModel.Lemmas.E2EMValid
import IceModel.Lemmas.E2EMLays
import IceModel.Lemmas.E2EMClose
import IceModel.Lemmas.E2EMFile
import IceModel.Lemmas.E2EMBuild
/-
  END TO END, merger path:  `Merge` + `WriteTo` + `load` + the byte-level readers = `Spec.merge`.

  For every list of input segments `ins : List MIn` inside the input contract of the merge models
  (`MInOK`: what `C02Model` / `C02Stored` / `C16` assume, see `Lemmas/E2EMDefs.lean`), valid
  deletion lists, and explicit numeric bounds on the RESULT (`MBounds`, `Sizes`):
    * `mergedLSeg mode ins` is what `mergeToWriter` lays out: field list from `mergeFields`,
      document count from `computeNewDocCount`, per field the dictionary / 1-hit decisions /
      statistics `MergeLoop.mergeField` produces and the doc-value column `buildMergedDocVals`
      feeds to its coder, the stored documents `mergeStoredAndRemap` writes;
    * `serialize K (mergedLSeg mode ins) = .ok (data, ft)` are the bytes (`Format.serialize` with
      `merger := true` is the model of `mergeToWriter`; it cannot fail: `C04_total`),
      `fileOf K data ft` the file `mergeSegmentBasesWriter` produces;
    * `load mem (fileOf K data ft) = .ok ld` the segment opened from it, for BOTH backings,
  and every read API of `ld`, executed on the bytes, returns what `(Spec.merge mode ins).1` says;
  the document-number maps `Merger.DocumentNumbers()` returns are `(Spec.merge mode ins).2`.

    E2EM_lays     the description lays out `Spec.merge` (fields, terms ↦ postings, stored, dv)
    E2EM_absOK    the invariants of abstract segments are preserved by the merge
    E2EM_valid    the description is a valid input of the container (`C04.Valid`)
    E2EM_written  it is written, and the file loads (both backings)
    E2EM_fields   field list, statistics (C16), document count, chunk mode, `CollectionStats`
    E2EM_dict     the FST of every field holds exactly `Spec.terms` in order
    E2EM_iter     every term: a general postings list read by the byte-level `PostingsIterator`,
                  or a 1-hit value read by the 1-hit path; every exclusion bitmap, flag triple and
                  script answers as the specification iterator over `Spec.postings`
    E2EM_iter_1hit  a term whose FST value is a 1-hit code has exactly one posting (frequency 1, no
                  locations) and the 1-hit iterator delivers it
    E2EM_iter_reuse  (C13) a general term's iterator built over ANY used iterator answers the same
    E2EM_stored   `VisitStoredFields`
    E2EM_dv       doc values
    E2EM_docnums  `mergeStoredAndRemap` (both paths) returns the maps of `Spec.merge` and writes
                  the stored section `serialize` writes
    E2EM_dv_model `buildMergedDocVals` on the inputs' files writes what `serialize` writes
    E2EM_read     all of it in one structure (`ReadsAsM`), for every backing, no `serialize`
                  hypothesis
    E2EM_norm31_counterexample   a norm with bit 31 set is not read back from a 1-hit value
  SECOND GENERATION
    E2EM_closure  a written + loaded segment (valid description laying out a well-formed abstract
                  segment) reads as its specification AND is an input inside the contract of the
                  merge models (`MInOK`; its stored reader is the models' `Src`; its doc-value
                  readers are `DvSpec`s that are OK)
    E2EM_docnums_loaded / E2EM_dv_model_loaded   the models run on the LOADED inputs
    Tree, Tree.spec, Tree.lseg, Tree.OK; tree_ok / trees_ok (mutual induction);
    E2E_tree      every segment reachable by `New` and `Merge` reads as its specification
    exT_*         a two-segment merge with a deletion, four 1-hit terms, a vanished term, a general
                  term with locations, different field lists, doc values (all kernel-checked)

  HYPOTHESES (Go-level meaning; definitions in `Lemmas/E2EMDefs.lean`)
    `MInOK K i`   per input: `AbsOK i.abs` (field list `_id`-first ascending, < 65535 fields;
                  documents only carry listed fields; documents are rolled up - no term twice in
                  a field; locations name listed fields; norm bits < 2^31; `SpecBounds`);
                  `C02Stored.InputOK` (its stored section was written by the stored writer from
                  `i.docs`, which hold what `i.abs` stores; ≤ 2^32 documents; the deletions name
                  existing documents, each once) + `InputCopyOK` (size condition of the copy path,
                  ascending field ids inside a stored document); `DvColOK` per field (the column a
                  doc-value reader of the input reads holds `Spec.dvOf`; no reader ⇒ no doc values).
                  The per-field dictionaries of the input are BY DEFINITION `absDict i.abs f`
                  (the abstraction function of `C02Model`); `E2EM_closure` shows that opened
                  segments are such inputs.
    `MBounds`     `1 ≤ mode ≤ 1025`; fewer than 2^32 merged documents; Σ input counts < 2^64;
                  fewer than 65535 merged fields; merged per-field frequency totals < 2^64.
    `Sizes K L`   as in `Props/E2EBuild.lean` (records, stored section, raw doc-value bytes, file).
    `NonemptyFrames K.stored` (only `E2EM_docnums`): a zstd frame of a non-empty block is non-empty.
-/
namespace Ice.Props.E2EM
open Ice Ice.Spec Ice.Model Ice.Model.Builder Ice.Model.Format
open Ice.Props.C03 (ValidDrops)
open Ice.Model.IterBytes (mkB runB)
open Ice.Model.Iter (RFlags)
open Ice.Model.Writer (Footer)
open Ice.Model.MergeRest (encNum NonemptyFrames mergeStored)
open Ice.Props.E2E

section
variable {K : Codecs} {mode : Nat} {ins : List MIn}
  (hok : ∀ i ∈ ins, MInOK K i) (hB : MBounds mode ins)

include hok hB in
/-- **E2EM_lays.** -/
theorem E2EM_lays : Lays (merge mode (absIns ins)).1 (mergedLSeg mode ins) := mergedLSeg_lays hok hB

include hok hB in
/-- **E2EM_absOK.** -/
theorem E2EM_absOK : AbsOK (merge mode (absIns ins)).1 :=
  absOK_merge mode ins (fun i hi => (hok i hi).abs) hB

variable (hsz : Sizes K (mergedLSeg mode ins))

include hok hB hsz in
/-- **E2EM_valid.**  What `mergeToWriter` lays out for inputs inside the contract and a result
    inside the bounds is a valid input of the container: all of C04 applies to it. -/
theorem E2EM_valid : C04.Valid K (mergedLSeg mode ins) :=
  lays_valid (E2EM_lays hok hB) (E2EM_absOK hok hB) hB.hmode hsz

include hok hB hsz in
/-- **E2EM_written.**  The merge writes a file (the writer model is total) and the file loads,
    memory- and file-backed. -/
theorem E2EM_written (mem : Bool) :
    ∃ data ft ld, serialize K (mergedLSeg mode ins) = .ok (data, ft) ∧
      load mem (fileOf K data ft) = .ok ld :=
  C04.C04_written K _ (E2EM_valid hok hB hsz) mem

variable {data : Bytes} {ft : Footer} (hs : serialize K (mergedLSeg mode ins) = .ok (data, ft))
  (mem : Bool) {ld : Loaded} (hl : load mem (fileOf K data ft) = .ok ld)

include hok hB hsz hs hl in
/-- **E2EM_fields.**  Field list (`_id` first, the union of the inputs' names ascending),
    per-field statistics (C16: documents with a term in the field, total term frequency), document
    count (C03: the survivors), chunk mode; `CollectionStats` of every name is `Spec.stats`. -/
theorem E2EM_fields :
    ld.fieldsInv = (merge mode (absIns ins)).1.fields ∧
    ld.fieldDocs = (merge mode (absIns ins)).1.fieldDocs ∧
    ld.fieldFreqs = (merge mode (absIns ins)).1.fieldFreqs ∧
    ld.footer.numDocs = numDocs (merge mode (absIns ins)).1 ∧
    ld.footer.chunkMode = mode ∧ ld.data.mem = mem ∧
    ∀ f, loadedStats ld f = stats (merge mode (absIns ins)).1 f :=
  lays_fields (E2EM_valid hok hB hsz) (E2EM_lays hok hB) hs mem hl

include hok hB hsz hs hl in
/-- **E2EM_dict.** -/
theorem E2EM_dict :
    (∀ (i : Nat) (f : Bytes), (merge mode (absIns ins)).1.fields[i]? = some f →
      ∃ o, dictionaryOf K ld i = .ok o ∧ dictKeys o = terms (merge mode (absIns ins)).1 f ∧
        ((merge mode (absIns ins)).1.docs ≠ [] → o.isSome)) ∧
    (∀ i : Nat, (merge mode (absIns ins)).1.fields[i]? = none → dictionaryOf K ld i = .ok none) :=
  lays_dict (E2EM_valid hok hB hsz) (E2EM_lays hok hB) hs mem hl

include hok hB hsz hs hl in
/-- **E2EM_iter.**  For every field `f` (id `i`) and every term `t` of it (the `j`-th key of the
    FST): `Segment.dictionary` finds the FST value `v`; either `PostingsList.read` reads the
    term's record and the byte-level `PostingsIterator` over it answers every script, for every
    exclusion bitmap and flag triple, as the specification iterator over
    `Spec.postings (Spec.merge …) f t`; or `v` is a 1-hit code, decoded to the single posting of
    the term, and the 1-hit path of the iterator answers so. -/
theorem E2EM_iter (i : Nat) (f : Bytes) (hf : (merge mode (absIns ins)).1.fields[i]? = some f)
    (j : Nat) (t : Bytes) (ht : (terms (merge mode (absIns ins)).1 f)[j]? = some t) :
    ∃ fst v, dictionaryOf K ld i = .ok (some fst) ∧ fst[j]? = some (t, v) ∧
      ((∃ fo lo cs, readPostings K ld v =
          .ok (.general fo lo ((postings (merge mode (absIns ins)).1 f t).map (·.doc)) cs) ∧
        ∀ (ex : Option (List Nat)) (fl : Flags) (ops : List IterOp),
          ∃ i0, mkB (plbOf ld fo lo cs ((postings (merge mode (absIns ins)).1 f t).map (·.doc)) ex)
              (RFlags.of fl) = .ok i0 ∧
            (runB K.chunk i0 ops).map (C05Bytes.viewRes fl) =
              (iterRun fl (live (postings (merge mode (absIns ins)).1 f t) ex) ops).map .ok) ∨
       (∃ d n, readPostings K ld v = .ok (.oneHit d n) ∧
          postings (merge mode (absIns ins)).1 f t = [Iter1Hit.posting d n] ∧
        ∀ (ex : Option (List Nat)) (fl : Flags) (ops : List IterOp),
          viewRun fl (Iter1Hit.run (Iter1Hit.mk d n ex (RFlags.of fl)) ops) =
            (iterRun fl (live (postings (merge mode (absIns ins)).1 f t) ex) ops).map some)) :=
  lays_iter (E2EM_valid hok hB hsz) (E2EM_lays hok hB) hs mem hl (E2EM_absOK hok hB) i f hf j t ht

include hok hB hsz hs hl in
/-- **E2EM_iter_1hit.**  A term whose FST value carries the 1-hit tag: `PostingsList.read`
    decodes document number and norm from the value, the term has exactly that one posting in
    the merged segment (frequency 1, no locations), and the iterator delivers it (or nothing if
    excluded). -/
theorem E2EM_iter_1hit (i : Nat) (f : Bytes)
    (hf : (merge mode (absIns ins)).1.fields[i]? = some f)
    (j : Nat) (t : Bytes) (ht : (terms (merge mode (absIns ins)).1 f)[j]? = some t)
    (fst : List (Bytes × Nat)) (v : Nat) (hd : dictionaryOf K ld i = .ok (some fst))
    (hv : fst[j]? = some (t, v)) (h1 : is1Hit v = true) :
    readPostings K ld v = .ok (.oneHit (decode1Hit v).1 (decode1Hit v).2) ∧
    postings (merge mode (absIns ins)).1 f t =
      [{ doc := (decode1Hit v).1, freq := 1, norm := (decode1Hit v).2, locs := [] }] ∧
    ∀ (ex : Option (List Nat)) (fl : Flags) (ops : List IterOp),
      viewRun fl (Iter1Hit.run (Iter1Hit.mk (decode1Hit v).1 (decode1Hit v).2 ex (RFlags.of fl)) ops) =
        (iterRun fl (live (postings (merge mode (absIns ins)).1 f t) ex) ops).map some := by
  obtain ⟨fst', v', hd', hv', hcase⟩ := E2EM_iter hok hB hsz hs mem hl i f hf j t ht
  rw [hd] at hd'
  injection hd' with hd'
  injection hd' with hd'
  subst hd'
  rw [hv] at hv'
  injection hv' with hv'
  injection hv' with _ hv'
  subst hv'
  have hread : readPostings K ld v = .ok (.oneHit (decode1Hit v).1 (decode1Hit v).2) := by
    unfold readPostings
    rw [if_pos h1]
  rcases hcase with ⟨fo, lo, cs, hr, _⟩ | ⟨d, n, hr, hp, hrun⟩
  · rw [hread] at hr
    cases hr
  · rw [hread] at hr
    injection hr with hr
    injection hr with hdd hnn
    rw [hdd, hnn]
    exact ⟨by rw [← hdd, ← hnn]; exact hread, hp, hrun⟩

include hok hB hsz hs hl in
/-- **E2EM_iter, reused iterator (C13).**  For a general term the same answers come from an
    iterator constructed over ANY previously used `PostingsIterator`, whatever state it is in. -/
theorem E2EM_iter_reuse (i : Nat) (f : Bytes)
    (hf : (merge mode (absIns ins)).1.fields[i]? = some f)
    (j : Nat) (t : Bytes) (ht : (terms (merge mode (absIns ins)).1 f)[j]? = some t)
    (fst : List (Bytes × Nat)) (v : Nat) (hd : dictionaryOf K ld i = .ok (some fst))
    (hv : fst[j]? = some (t, v)) (h1 : is1Hit v = false) :
    ∃ fo lo cs, readPostings K ld v =
        .ok (.general fo lo ((postings (merge mode (absIns ins)).1 f t).map (·.doc)) cs) ∧
      ∀ (used : Ice.Model.IterBytes.ItB) (ex : Option (List Nat)) (fl : Flags) (ops : List IterOp),
        ∃ i1, Ice.Model.IterBytes.mkBReuse used
            (plbOf ld fo lo cs ((postings (merge mode (absIns ins)).1 f t).map (·.doc)) ex)
            (RFlags.of fl) = .ok i1 ∧
          (runB K.chunk i1 ops).map (C05Bytes.viewRes fl) =
            (iterRun fl (live (postings (merge mode (absIns ins)).1 f t) ex) ops).map .ok := by
  obtain ⟨fst', v', hd', hv', hcase⟩ := E2EM_iter hok hB hsz hs mem hl i f hf j t ht
  rw [hd] at hd'
  injection hd' with hd'
  injection hd' with hd'
  subst hd'
  rw [hv] at hv'
  injection hv' with hv'
  injection hv' with _ hv'
  subst hv'
  rcases hcase with ⟨fo, lo, cs, hr, h4⟩ | ⟨d, n, hr, _, _⟩
  · refine ⟨fo, lo, cs, hr, ?_⟩
    intro used ex fl ops
    obtain ⟨i0, hmk, hrun0⟩ := h4 ex fl ops
    have hany := fun ops => C05Bytes.B4_any K.chunk
      (plbOf ld fo lo cs ((postings (merge mode (absIns ins)).1 f t).map (·.doc)) ex)
      (RFlags.of fl) used ops
    rw [hmk] at hany
    cases hre : Ice.Model.IterBytes.mkBReuse used
        (plbOf ld fo lo cs ((postings (merge mode (absIns ins)).1 f t).map (·.doc)) ex)
        (RFlags.of fl) with
    | ok i1 =>
      refine ⟨i1, rfl, ?_⟩
      have := hany ops
      rw [hre] at this
      simp only [C05Bytes.runRes] at this
      rw [this, hrun0]
    | err => have := hany []; rw [hre] at this; simp [C05Bytes.runRes, runB] at this
    | panic => have := hany []; rw [hre] at this; simp [C05Bytes.runRes, runB] at this
  · exfalso
    unfold readPostings at hr
    rw [h1] at hr
    simp only [Bool.false_eq_true, if_false] at hr
    cases hrr : readRecord K ld v with
    | ok r =>
      rw [hrr] at hr
      simp only [ChunkBytes.ok_bind] at hr
      cases hcs : getChunkSize ld.footer.chunkMode r.docs.length ld.footer.numDocs with
      | ok c => rw [hcs] at hr; simp at hr
      | err => rw [hcs] at hr; simp at hr
      | panic => rw [hcs] at hr; simp at hr
    | err => rw [hrr] at hr; simp at hr
    | panic => rw [hrr] at hr; simp at hr

include hok hB hsz hs hl in
/-- **E2EM_stored.** -/
theorem E2EM_stored (n : Nat) (buf : Stored.Buf) (stop : Option Nat) :
    ∃ vs buf', Stored.visit K.stored ld.storedSeg buf n stop = .ok (vs, buf') ∧
      vs.map (fun p => (ld.fieldsInv.getD p.1 [], p.2)) =
        Stored.takeStop stop (stored (merge mode (absIns ins)).1 n) :=
  lays_stored (E2EM_valid hok hB hsz) (E2EM_lays hok hB) hs mem hl n buf stop

include hok hB hsz hs hl in
/-- **E2EM_dv.** -/
theorem E2EM_dv (i : Nat) (f : Bytes) (hf : (merge mode (absIns ins)).1.fields[i]? = some f) :
    ∃ ro, ld.dvReaders[i]? = some ro ∧
      match ro with
      | none => ∀ n, dvOf (merge mode (absIns ins)).1 n f = []
      | some r0 => ∀ ds : List Nat, (∀ d ∈ ds, d < (merge mode (absIns ins)).1.docs.length) →
          ∃ r', DocValues.Reader.visitAll K.dv ld.data dvChunk r0 ds =
            .ok (ds.map (fun n => dvOf (merge mode (absIns ins)).1 n f), r') :=
  lays_dv (E2EM_valid hok hB hsz) (E2EM_lays hok hB) hs mem hl i f hf

include hok hB hsz in
/-- **E2EM_read.**  For inputs inside the contract and a result inside the bounds: the file
    `Merge` + `WriteTo` produce exists, loads - memory- and file-backed - and every read API of
    the loaded segment, executed on the bytes, returns what `Spec.merge mode ins` says. -/
theorem E2EM_read (mem : Bool) :
    ∃ data ft ld, serialize K (mergedLSeg mode ins) = .ok (data, ft) ∧
      load mem (fileOf K data ft) = .ok ld ∧ ld.data.mem = mem ∧
      ReadsAsM K (merge mode (absIns ins)).1 ld := by
  obtain ⟨data, ft, ld, hs, hl⟩ := E2EM_written hok hB hsz mem
  exact ⟨data, ft, ld, hs, hl, (E2EM_fields hok hB hsz hs mem hl).2.2.2.2.2.1,
    lays_read (E2EM_valid hok hB hsz) (E2EM_lays hok hB) hs mem hl (E2EM_absOK hok hB)⟩

end

/-! ## the merge models on the inputs' files produce what `serialize` writes -/

/-- an input together with the bytes that follow the stored section in its file -/
abbrev MInT := MIn × Bytes

theorem inputOK_tail {K : Codecs} {i : MIn} (h : C02Stored.InputOK K.stored docBlock i.sIn)
    (t : Bytes) : C02Stored.InputOK K.stored docBlock (i.sIn t) :=
  ⟨h.fields, h.valid, h.small, h.rel, h.closed, h.drops⟩

theorem inputCopyOK_tail {i : MIn} (h : C02Stored.InputCopyOK i.sIn) (t : Bytes) :
    C02Stored.InputCopyOK (i.sIn t) := ⟨h.size, h.asc⟩

/-- **E2EM_docnums** (C03 on the model of `mergeStoredAndRemap`, both paths).  On the inputs'
    stored sections - `Stored.segOfNew` of each input's documents, followed by whatever the rest of
    its file holds - and the deletion bitmaps, `mergeStoredAndRemap` (copying the blocks of inputs
    without deletions when all field lists agree, re-encoding otherwise) succeeds, writes exactly
    the stored section `serialize K (mergedLSeg …)` starts with, and returns as
    `Merger.DocumentNumbers()` the maps `(Spec.merge mode ins).2` (`docDropped` for `none`).
    `hZ`: a zstd frame of a non-empty block is not empty (third-party law). -/
theorem E2EM_docnums {K : Codecs} {mode : Nat} (insT : List MInT)
    (hok : ∀ x ∈ insT, MInOK K x.1) (hB : MBounds mode (insT.map (·.1)))
    (hZ : NonemptyFrames K.stored) (vdc : Stored.Buf) :
    ∃ buf', mergeStored K.stored docBlock
        (insT.map fun x => (x.1.sIn x.2).src K.stored docBlock) (insT.map (·.1.drops)) vdc =
      .ok (storedOut K (mergedLSeg mode (insT.map (·.1))),
           (merge mode (absIns (insT.map (·.1)))).2.map (·.map encNum), buf') := by
  have h := C02Stored.S_merged K.stored hZ docBlock (by decide) mode
    (insT.map fun x => x.1.sIn x.2) vdc
    (by intro s hs
        obtain ⟨x, hx, rfl⟩ := List.mem_map.1 hs
        exact inputOK_tail (hok x hx).stored x.2)
    (by have := hB.nfields
        have e : C02Stored.mergedFields (insT.map fun x => x.1.sIn x.2) = mFields (insT.map (·.1)) := by
          unfold C02Stored.mergedFields mFields
          rw [List.map_map, List.map_map]; rfl
        rw [e]; exact this)
    (by intro _ s hs _
        obtain ⟨x, hx, rfl⟩ := List.mem_map.1 hs
        exact inputCopyOK_tail (hok x hx).copy x.2)
    (by have := hB.total
        have e : ((insT.map fun x => x.1.sIn x.2).map fun i => i.docs.length) =
            (insT.map (·.1)).map fun i => i.abs.docs.length := by
          rw [List.map_map, List.map_map]
          apply List.map_congr_left
          intro x hx
          exact (hok x hx).stored.rel.length_eq
        rw [e]; exact this)
  obtain ⟨buf', h⟩ := h
  refine ⟨buf', ?_⟩
  have e1 : ((insT.map fun x => x.1.sIn x.2).map (C02Stored.Input.src K.stored docBlock)) =
      insT.map fun x => (x.1.sIn x.2).src K.stored docBlock := by rw [List.map_map]; rfl
  have e2 : ((insT.map fun x => x.1.sIn x.2).map (·.drops)) = insT.map (·.1.drops) := by
    rw [List.map_map]; rfl
  have e3 : C02Stored.absIns (insT.map fun x => x.1.sIn x.2) = absIns (insT.map (·.1)) := by
    unfold C02Stored.absIns absIns
    rw [List.map_map, List.map_map]; rfl
  have e4 : C02Stored.mergedDocs (insT.map fun x => x.1.sIn x.2) = mDocs (insT.map (·.1)) := by
    unfold mDocs C02Stored.mergedDocs C02Stored.mergedFields
    simp only [List.map_map, List.flatMap_map]
    rfl
  rw [e1, e2, e3, e4] at h
  exact h

theorem dvInOf_colIn {K : Codecs} {f : Bytes} {x : MIn × Ice.Model.MergeRest.DvSpec}
    (h : DvFileOK K f x.1 x.2) : (dvInOf f x).colIn = x.1.colIn f := by
  unfold C02Stored.DvInput.colIn dvInOf MIn.colIn
  simp only [h.col]

theorem dvInputOK_of {K : Codecs} {f : Bytes} {x : MIn × Ice.Model.MergeRest.DvSpec}
    (hc : DvColOK f x.1) (h : DvFileOK K f x.1 x.2) :
    C02Stored.DvInputOK K.dv dvChunk f (dvInOf f x) := by
  refine ⟨h.ok, h.docs, ?_⟩
  rw [dvInOf_colIn h]
  unfold MIn.colIn
  simp only
  cases hf : x.1.inFocus f with
  | false =>
    simp only [Bool.false_eq_true, if_false]
    intro d
    have hemp : (terms x.1.abs f).isEmpty = true := by
      unfold MIn.inFocus at hf; simpa using hf
    exact dvOf_nil_of_no_terms (S := x.1.abs) hemp d
  | true =>
    simp only [if_true]
    have hrel := hc.rel
    cases hcol : x.1.dvCol f with
    | none =>
      rw [hcol] at hrel
      exact hrel
    | some tv =>
      rw [hcol] at hrel
      simp only [Option.map_some]
      intro d
      rw [DocValues.splitSep_bytesOf_encVals tv (hc.valid tv hcol).2.2 d]
      exact hrel d

/-- **E2EM_dv_model.**  `buildMergedDocVals` (with the FILTERED document-number maps of
    `setupActiveForField`, merge.go:251-252, 336-337) run on the inputs' files for field `f`,
    with the writer standing at `count`, does exactly what `Format.writeField` does for the
    column `dvColM ins f` of the description: the progressive doc-value writer on the encoded
    merged column, or nothing (both offsets `fieldNotUninverted`) when no input in focus has a
    reader. -/
theorem E2EM_dv_model {K : Codecs} {mode : Nat} (f : Bytes)
    (insD : List (MIn × Ice.Model.MergeRest.DvSpec))
    (hok : ∀ x ∈ insD, MInOK K x.1) (hfile : ∀ x ∈ insD, DvFileOK K f x.1 x.2)
    (hB : MBounds mode (insD.map (·.1))) (hpos : 0 < mNumDocs (insD.map (·.1))) (count : Nat) :
    Ice.Model.MergeRest.dvField K.dv dvChunk (mNumDocs (insD.map (·.1))) count (insD.map (dvInOf f))
        (·.inFocus) (fun i => i.spec.seg)
        ((merge mode (absIns (insD.map (·.1)))).2.map (·.map encNum)) =
      match dvColM (insD.map (·.1)) f with
      | some vals => DocValues.mergeField K.dv dvChunk (mNumDocs (insD.map (·.1)) - 1) count
          (DocValues.encVals vals)
      | none => .ok ([], DocValues.maxUint64, DocValues.maxUint64) := by
  have hok' : ∀ i ∈ insD.map (·.1), MInOK K i := by
    intro i hi
    obtain ⟨x, hx, rfl⟩ := List.mem_map.1 hi
    exact hok x hx
  have hnd := mNumDocs_eq mode (insD.map (·.1)) (drops_valid hok') hB.total
  have habs : C02Stored.dvAbsIns (insD.map (dvInOf f)) = absIns (insD.map (·.1)) := by
    unfold C02Stored.dvAbsIns absIns
    rw [List.map_map, List.map_map]; rfl
  have hD := C02Stored.D_merged K.dv dvChunk (by decide) f mode count (insD.map (dvInOf f))
    (by intro i hi
        obtain ⟨x, hx, rfl⟩ := List.mem_map.1 hi
        exact dvInputOK_of ((hok x hx).dv f) (hfile x hx))
    (by rw [habs, ← hnd]
        have := hB.numDocs
        rw [← hnd] at this
        omega)
  rw [habs, ← hnd] at hD
  rw [hD]
  have hany : ((insD.map (dvInOf f)).any fun i => i.inFocus && i.spec.col.isSome) =
      dvHas (insD.map (·.1)) f := by
    unfold dvHas
    rw [List.any_map, List.any_map]
    have : ∀ (l : List (MIn × Ice.Model.MergeRest.DvSpec)), (∀ x ∈ l, DvFileOK K f x.1 x.2) →
        l.any ((fun i : C02Stored.DvInput => i.inFocus && i.spec.col.isSome) ∘ dvInOf f) =
        l.any ((fun i : MIn => i.inFocus f && (i.dvCol f).isSome) ∘ fun x => x.1) := by
      intro l
      induction l with
      | nil => intro _; rfl
      | cons x r ih =>
        intro hl
        simp only [List.any_cons, Function.comp_apply]
        rw [ih (fun y hy => hl y (by simp [hy]))]
        congr 1
        show (x.1.inFocus f && x.2.col.isSome) = _
        rw [(hl x (by simp)).col]
        simp
    exact this insD hfile
  have hcol : C02Stored.mergedCol (insD.map (dvInOf f)) =
      DocValues.encVals (dvColFrom f (insD.map (·.1)) 0) := by
    unfold C02Stored.mergedCol
    rw [encVals_dvColFrom, List.map_map, List.map_map]
    congr 1
    apply List.map_congr_left
    intro x hx
    exact dvInOf_colIn (hfile x hx)
  have hsub : DocValues.sub64 (mNumDocs (insD.map (·.1))) 1 = mNumDocs (insD.map (·.1)) - 1 := by
    apply DocValues.sub64_small
    · have := hB.numDocs
      rw [← hnd] at this
      omega
    · omega
  rw [hany, hcol, hsub]
  unfold dvColM
  cases dvHas (insD.map (·.1)) f with
  | false => rfl
  | true => rfl

/-! ## SECOND GENERATION: trees of merges

  Leaves are segments built by `New` from a batch, nodes are merges of their children (each with
  a deletion list).  `Tree.spec` is what the tree MEANS (nested `Spec.build` / `Spec.merge`),
  `Tree.lseg` what the writers lay out (`Built.toLSeg` / `mergedLSeg`, the inputs of a merge being
  the children's descriptions, `MIn.ofLSeg`).  `Tree.OK` collects the hypotheses node by node: the
  contract of `New` and the bounds at the leaves; valid deletions, the numeric bounds of the result
  and the copy-path size condition at the nodes.  The closure property that makes the induction
  go through is `minOK_of_lays` (`Lemmas/E2EMClose.lean`): a written segment that lays out a
  well-formed abstract segment is an input inside the contract of the merge. -/

inductive Tree where
  | leaf (mode : Nat) (b : Batch)
  | node (mode : Nat) (children : List (Tree × List Nat))

mutual
def Tree.spec (nc : Bytes → Nat → Nat) : Tree → AbsSeg
  | .leaf mode b => build nc mode b
  | .node mode cs => (merge mode (Tree.specs nc cs)).1
def Tree.specs (nc : Bytes → Nat → Nat) : List (Tree × List Nat) → List (AbsSeg × List Nat)
  | [] => []
  | (t, d) :: r => (Tree.spec nc t, d) :: Tree.specs nc r
end

mutual
def Tree.lseg (nc : Bytes → Nat → Nat) : Tree → LSeg
  | .leaf mode b => (builtOf nc b).toLSeg mode
  | .node mode cs => mergedLSeg mode (Tree.mins nc cs)
def Tree.mins (nc : Bytes → Nat → Nat) : List (Tree × List Nat) → List MIn
  | [] => []
  | (t, d) :: r => MIn.ofLSeg (Tree.spec nc t) d (Tree.lseg nc t) :: Tree.mins nc r
end

mutual
def Tree.OK (K : Codecs) (nc : Bytes → Nat → Nat) : Tree → Prop
  | .leaf mode b => ValidBatch b ∧ Bounds nc b ∧ (1 ≤ mode ∧ mode ≤ 1025) ∧
      (build nc mode b).fields.length < 65535 ∧ Sizes K ((builtOf nc b).toLSeg mode)
  | .node mode cs => Tree.OKs K nc cs ∧ MBounds mode (Tree.mins nc cs) ∧
      Sizes K (mergedLSeg mode (Tree.mins nc cs))
def Tree.OKs (K : Codecs) (nc : Bytes → Nat → Nat) : List (Tree × List Nat) → Prop
  | [] => True
  | (t, d) :: r => Tree.OK K nc t ∧ ValidDrops (Tree.spec nc t).docs.length d ∧
      (Stored.recs (Tree.lseg nc t).stored).length + 10 < 2 ^ 63 ∧ Tree.OKs K nc r
end

theorem absIns_mins (nc : Bytes → Nat → Nat) : ∀ cs, absIns (Tree.mins nc cs) = Tree.specs nc cs
  | [] => rfl
  | (t, d) :: r => by
    simp only [Tree.mins, Tree.specs, absIns, List.map_cons]
    congr 1
    exact absIns_mins nc r


section
variable {K : Codecs} {nc : Bytes → Nat → Nat}

mutual
theorem tree_ok (hn31 : ∀ n l, nc n l < 2 ^ 31) : ∀ (t : Tree), Tree.OK K nc t →
    C04.Valid K (t.lseg nc) ∧ Lays (t.spec nc) (t.lseg nc) ∧ AbsOK (t.spec nc)
  | .leaf mode b, h => by
    obtain ⟨hv, hB, hmode, hnf, hsz⟩ := h
    have hL : Lays (build nc mode b) ((builtOf nc b).toLSeg mode) := build_lays hv mode
    have hA : AbsOK (build nc mode b) := absOK_build hv mode hB hn31 hnf
    exact ⟨lays_valid hL hA hmode hsz, hL, hA⟩
  | .node mode cs, h => by
    obtain ⟨hcs, hB, hsz⟩ := h
    have hok := trees_ok hn31 cs hcs
    have e := absIns_mins nc cs
    have hL := mergedLSeg_lays hok hB
    have hA := absOK_merge mode _ (fun i hi => (hok i hi).abs) hB
    rw [e] at hL hA
    exact ⟨lays_valid hL hA hB.hmode hsz, hL, hA⟩
theorem trees_ok (hn31 : ∀ n l, nc n l < 2 ^ 31) : ∀ (cs : List (Tree × List Nat)), Tree.OKs K nc cs →
    ∀ i ∈ Tree.mins nc cs, MInOK K i
  | [], _ => by intro i hi; cases hi
  | (t, d) :: r, h => by
    obtain ⟨ht, hd, hcopy, hr⟩ := h
    obtain ⟨hV, hL, hA⟩ := tree_ok hn31 t ht
    intro i hi
    simp only [Tree.mins, List.mem_cons] at hi
    rcases hi with rfl | hi
    · exact minOK_of_lays hV hL hA d hd hcopy
    · exact trees_ok hn31 r hr i hi
end

end


/-- **E2E_tree.**  Every segment reachable by `New` and `Merge` (any tree, every node inside the
    bounds) is written, loads - memory- and file-backed - and reads, through the byte-level
    readers, as its specification. -/
theorem E2E_tree {K : Codecs} {nc : Bytes → Nat → Nat} (hn31 : ∀ n l, nc n l < 2 ^ 31) (t : Tree)
    (h : Tree.OK K nc t) (mem : Bool) :
    ∃ data ft ld, serialize K (t.lseg nc) = .ok (data, ft) ∧
      load mem (fileOf K data ft) = .ok ld ∧ ld.data.mem = mem ∧ ReadsAsM K (t.spec nc) ld := by
  obtain ⟨hV, hL, hA⟩ := tree_ok hn31 t h
  obtain ⟨data, ft, ld, hs, hl⟩ := C04.C04_written K _ hV mem
  exact ⟨data, ft, ld, hs, hl, (lays_fields hV hL hs mem hl).2.2.2.2.2.1,
    lays_read hV hL hs mem hl hA⟩

/-- the inputs of a node are inside the contract of the merge: all of `E2EM_*` applies to it -/
theorem E2E_tree_inputs {K : Codecs} {nc : Bytes → Nat → Nat} (hn31 : ∀ n l, nc n l < 2 ^ 31)
    (mode : Nat) (cs : List (Tree × List Nat)) (h : Tree.OK K nc (.node mode cs)) :
    (∀ i ∈ Tree.mins nc cs, MInOK K i) ∧ MBounds mode (Tree.mins nc cs) ∧
      Sizes K (mergedLSeg mode (Tree.mins nc cs)) ∧
      (Tree.node mode cs).spec nc = (merge mode (absIns (Tree.mins nc cs))).1 := by
  obtain ⟨hcs, hB, hsz⟩ := h
  refine ⟨trees_ok hn31 cs hcs, hB, hsz, ?_⟩
  rw [absIns_mins]
  rfl

/-! ## the hypothesis `AbsOK.norm31` is needed

  `Bounds.norm` of the builder path only asks for 32-bit norm bits.  For the merger that is not
  enough: `fSTValEncode1Hit` keeps 31 bits of the norm (posting.go: `mask31Bits`), so a 1-hit
  encoded posting whose norm has bit 31 set (the bit pattern of a NEGATIVE float32) is read back
  with a different norm.  Real executions satisfy `norm31`: `normCalc` returns non-negative
  values (in bluge `1/sqrt(length)`), whose sign bit is clear. -/

/-- one segment, one document, term `a` with frequency 1, no location, norm bits `2^31 + 5`: the
    merge loop 1-hit encodes it, and the FST value decodes to norm `5` -/
theorem E2EM_norm31_counterexample :
    let s0 : Ice.Model.MergeLoop.SegIn :=
      { dict := some [([97], [{ doc := 0, freq := 1, norm := 2 ^ 31 + 5, locs := [] }])],
        drops := none, newDocNums := [some 0] }
    let cfg : Ice.Model.MergeLoop.Cfg := { fieldsInv := [idField], chunkMode := 1025, newSegDocCount := 1 }
    (Ice.Model.MergeLoop.mergeField cfg [s0]).toOption.map
        (fun r => r.dict.map (fun e => (e.entries.map (·.norm), e.oneHit.map decode1Hit))) =
      some [([2 ^ 31 + 5], some (0, 5))] := by
  decide

/-- … accordingly such a term description is not a valid input of the container -/
example : ¬ TermDesc.Valid true 1 (.oneHit 0 (2 ^ 31 + 5)) := by decide

/-! ## the closure property on the level of files

  `Opened.OK`: a segment that was written from a valid description laying out a well-formed
  abstract segment, and loaded back (either backing).  What the merge models read of such
  segments - field list and stored reader, data and doc-value readers - are inputs inside the
  contract of the merge models, and what they write is `serialize` of `mergedLSeg`. -/

/-- a written and loaded segment with the deletions a merge is to apply to it -/
structure Opened where
  S : AbsSeg
  drops : List Nat
  L : LSeg
  ld : Loaded

/-- the merge input it is -/
def Opened.min (o : Opened) : MIn := MIn.ofLSeg o.S o.drops o.L

structure Opened.OK (K : Codecs) (o : Opened) : Prop where
  valid : C04.Valid K o.L
  lays : Lays o.S o.L
  abs : AbsOK o.S
  drops : ValidDrops o.S.docs.length o.drops
  copy : (Stored.recs o.L.stored).length + 10 < 2 ^ 63
  loaded : ∃ data ft mem, serialize K o.L = .ok (data, ft) ∧ load mem (fileOf K data ft) = .ok o.ld

/-- **closure (one input).**  An opened segment reads as its specification, and what the merge
    reads of it satisfies the input contract of the merge models: `MInOK` (term loop, stored part
    on both paths, doc-value columns), its stored reader is the `Src` of that input, and for every
    field its doc-value reader is a reader on the input's column. -/
theorem E2EM_closure {K : Codecs} {o : Opened} (h : o.OK K) :
    ReadsAsM K o.S o.ld ∧ MInOK K o.min ∧
    (∃ tail, ({ fields := o.ld.fieldsInv, seg := o.ld.storedSeg } : Ice.Model.MergeRest.Src) =
      (o.min.sIn tail).src K.stored docBlock) ∧
    ∀ f, ∃ sp : Ice.Model.MergeRest.DvSpec, sp.seg.data = o.ld.data ∧
      sp.seg.reader = Ice.Model.MergeRest.dvReaderOf o.ld.fieldsInv o.ld.dvReaders f ∧
      DvFileOK K f o.min sp := by
  obtain ⟨data, ft, mem, hs, hl⟩ := h.loaded
  exact ⟨lays_read h.valid h.lays hs mem hl h.abs,
    minOK_of_lays h.valid h.lays h.abs o.drops h.drops h.copy,
    loaded_src h.valid h.lays hs mem hl o.drops,
    loaded_dvFile h.valid h.lays h.abs hs mem hl o.drops⟩

theorem opened_insT {K : Codecs} : ∀ (os : List Opened), (∀ o ∈ os, o.OK K) →
    ∃ insT : List MInT, insT.map (·.1) = os.map Opened.min ∧
      (insT.map fun x => (x.1.sIn x.2).src K.stored docBlock) =
        os.map fun o => ({ fields := o.ld.fieldsInv, seg := o.ld.storedSeg } : Ice.Model.MergeRest.Src)
  | [], _ => ⟨[], rfl, rfl⟩
  | o :: r, h => by
    obtain ⟨insT, h1, h2⟩ := opened_insT r (fun x hx => h x (by simp [hx]))
    obtain ⟨_, _, ⟨tail, ht⟩, _⟩ := E2EM_closure (h o (by simp))
    exact ⟨(o.min, tail) :: insT, by simp [h1], by simp [h2, ht]⟩

/-- **E2EM_docnums on opened segments.**  `mergeStoredAndRemap` run on the field lists and
    stored readers of the loaded inputs writes the stored section of `serialize (mergedLSeg …)`
    and returns the maps of `Spec.merge`. -/
theorem E2EM_docnums_loaded {K : Codecs} {mode : Nat} (os : List Opened) (hok : ∀ o ∈ os, o.OK K)
    (hB : MBounds mode (os.map Opened.min)) (hZ : NonemptyFrames K.stored) (vdc : Stored.Buf) :
    ∃ buf', mergeStored K.stored docBlock
        (os.map fun o => { fields := o.ld.fieldsInv, seg := o.ld.storedSeg })
        (os.map (·.drops)) vdc =
      .ok (storedOut K (mergedLSeg mode (os.map Opened.min)),
           (merge mode (absIns (os.map Opened.min))).2.map (·.map encNum), buf') := by
  obtain ⟨insT, h1, h2⟩ := opened_insT os hok
  have hmin : ∀ x ∈ insT, MInOK K x.1 := by
    intro x hx
    have : x.1 ∈ insT.map (·.1) := List.mem_map.2 ⟨x, hx, rfl⟩
    rw [h1] at this
    obtain ⟨o, ho, he⟩ := List.mem_map.1 this
    rw [← he]
    exact (E2EM_closure (hok o ho)).2.1
  have h := E2EM_docnums (mode := mode) insT hmin (by rw [h1]; exact hB) hZ vdc
  have hd : insT.map (·.1.drops) = os.map (·.drops) := by
    have := congrArg (List.map (·.drops)) h1
    simpa [List.map_map, Function.comp_def, Opened.min, MIn.ofLSeg] using this
  rw [h1, h2, hd] at h
  exact h

theorem opened_insD {K : Codecs} (f : Bytes) : ∀ (os : List Opened), (∀ o ∈ os, o.OK K) →
    ∃ insD : List (MIn × Ice.Model.MergeRest.DvSpec), insD.map (·.1) = os.map Opened.min ∧
      (∀ x ∈ insD, MInOK K x.1 ∧ DvFileOK K f x.1 x.2) ∧
      insD.map (fun x => x.2.seg) = os.map fun o =>
        ({ data := o.ld.data,
           reader := Ice.Model.MergeRest.dvReaderOf o.ld.fieldsInv o.ld.dvReaders f } :
          Ice.Model.MergeRest.DvSeg)
  | [], _ => ⟨[], rfl, ⟨fun x hx => (by cases hx), rfl⟩⟩
  | o :: r, h => by
    obtain ⟨insD, h1, h2, h3⟩ := opened_insD f r (fun x hx => h x (by simp [hx]))
    obtain ⟨_, hmin, _, hdv⟩ := E2EM_closure (h o (by simp))
    obtain ⟨sp, hd, hr, hok⟩ := hdv f
    refine ⟨(o.min, sp) :: insD, by simp [h1], ?_, ?_⟩
    · intro x hx
      simp only [List.mem_cons] at hx
      rcases hx with rfl | hx
      · exact ⟨hmin, hok⟩
      · exact h2 x hx
    · simp only [List.map_cons, h3]
      congr 1
      cases hsp : sp.seg with
      | mk d rd =>
        rw [hsp] at hd hr
        simp only at hd hr
        rw [hd, hr]

/-- **E2EM_dv_model on opened segments.**  `buildMergedDocVals` for field `f`, run on the data
    and doc-value readers of the loaded inputs (in focus: the input has a term in `f`), with the
    maps `mergeStoredAndRemap` returned, does what `Format.writeField` does for the column of the
    description. -/
theorem E2EM_dv_model_loaded {K : Codecs} {mode : Nat} (f : Bytes) (os : List Opened)
    (hok : ∀ o ∈ os, o.OK K) (hB : MBounds mode (os.map Opened.min))
    (hpos : 0 < mNumDocs (os.map Opened.min)) (count : Nat) :
    Ice.Model.MergeRest.dvField K.dv dvChunk (mNumDocs (os.map Opened.min)) count os
        (fun o => o.min.inFocus f)
        (fun o => { data := o.ld.data,
                    reader := Ice.Model.MergeRest.dvReaderOf o.ld.fieldsInv o.ld.dvReaders f })
        ((merge mode (absIns (os.map Opened.min))).2.map (·.map encNum)) =
      match dvColM (os.map Opened.min) f with
      | some vals => DocValues.mergeField K.dv dvChunk (mNumDocs (os.map Opened.min) - 1) count
          (DocValues.encVals vals)
      | none => .ok ([], DocValues.maxUint64, DocValues.maxUint64) := by
  obtain ⟨insD, h1, h2, h3⟩ := opened_insD (K := K) f os hok
  have h := E2EM_dv_model (mode := mode) f insD (fun x hx => (h2 x hx).1) (fun x hx => (h2 x hx).2)
    (by rw [h1]; exact hB) (by rw [h1]; exact hpos) count
  rw [h1] at h
  rw [← h]
  apply dvField_congr
  · have := congrArg (List.map (fun i : MIn => i.inFocus f)) h1
    simp only [List.map_map] at this ⊢
    exact this.symm
  · rw [List.map_map]
    exact h3.symm

/-! ## a concrete merge: the hypotheses are satisfiable (kernel-checked)

  Two built segments.  The first is the three-document batch `exB` of `Props/E2EBuild.lean`
  (fields `_id`, `f`), its document 1 DELETED; the second a one-document batch with a field `g` the
  first does not know (so the field lists differ and the stored documents are re-encoded).
  In the result: the `_id` terms "0", "2", "3" and the term `c` of `g` are 1-HIT encoded (one
  posting, frequency 1, no locations); the `_id` term "1" and the term `b` of `f` vanish with the
  deleted document; term `a` of `f` keeps one posting with two locations (general encoding);
  `f` and `g` have doc values.  Chunk mode 2, the "identity" codecs of `Props/C04.lean`. -/

def fG : Bytes := [103]
def tc : Bytes := [99]

def exB2 : Batch :=
  [ [ { name := idField, length := 1, store := true, dv := false, value := [51],
        terms := [ { term := [51], freq := 1, locs := [] } ] },
      { name := fG, length := 1, store := true, dv := true, value := [122],
        terms := [ { term := tc, freq := 1, locs := [] } ] } ] ]

/-- merge of (`exB` without its document 1) and `exB2` -/
def exT : Tree := .node 2 [(.leaf 2 exB, [1]), (.leaf 2 exB2, [])]

theorem nc0_31 : ∀ n l, C01.nc0 n l < 2 ^ 31 := by
  intro n l
  show 1 + (3 * l + 5 * n.sum + 7) % 0x7f7fffff < 2 ^ 31
  omega

theorem ex2_validBatch : ValidBatch exB2 := by decide

theorem ex2_bounds : Bounds C01.nc0 exB2 := by
  refine ⟨by decide, ?_, by decide, by decide, by decide, by decide, by decide, by decide⟩
  intro n l
  show 1 + (3 * l + 5 * n.sum + 7) % 0x7f7fffff < 2 ^ 32
  omega

/-- what `New` lays out for the second batch -/
def exL2 : LSeg := (builtOf C01.nc0 exB2).toLSeg 2

def exData2 : Bytes :=
  [6, 2, 0, 0, 1, 1, 1, 1, 51, 122, 0, 10, 0, 0, 0, 2, 0, 0, 0, 2, 0, 0, 0, 0, 0, 0, 0, 0, 1, 3, 2, 231, 11, 28, 0, 1,
    0, 10, 1, 51, 0, 0, 0, 0, 0, 0, 0, 33, 1, 3, 2, 142, 4, 48, 0, 1, 0, 10, 1, 99, 0, 0, 0, 0, 0, 0, 0, 53, 1, 0, 2,
    99, 255, 5, 0, 0, 0, 0, 0, 0, 0, 1, 0, 0, 0, 0, 0, 0, 0, 1, 255, 255, 255, 255, 255, 255, 255, 255, 255, 1, 255,
    255, 255, 255, 255, 255, 255, 255, 255, 1, 68, 90, 37, 3, 95, 105, 100, 1, 1, 57, 1, 103, 1, 1, 0, 0, 0, 0, 0, 0, 0,
    112, 0, 0, 0, 0, 0, 0, 0, 119]

def exFooter2 : Footer :=
  { numDocs := 1, storedIndexOffset := 20, fieldsIndexOffset := 124, docValueOffset := 90,
    chunkMode := 2, version := 2, crc := 0 }

set_option maxRecDepth 100000 in
theorem ex2_serialize : serialize C04.exK exL2 = .ok (exData2, exFooter2) := by decide +kernel

set_option maxRecDepth 100000 in
theorem ex2_sizes : Sizes C04.exK exL2 := by
  refine ⟨by decide +kernel, by decide +kernel, by decide +kernel, ?_⟩
  rw [ex2_serialize]; decide

/-- the description of the merge -/
def exML : LSeg := exT.lseg C01.nc0

set_option maxRecDepth 100000 in
/-- **the description, evaluated**: document numbers renumbered (old 0, 2 of the first input ↦ 0, 1;
    old 0 of the second ↦ 2), four 1-hit terms, one general term with its locations in merged
    field ids, the vanished terms absent, stored values regrouped by merged field id -/
theorem exT_layout : exML =
    { merger := true, numDocs := 3, chunkMode := 2,
      fields := [
        { name := idField, fieldDocs := 3, fieldFreqs := 3,
          terms := [([48], .oneHit 0 1511), ([50], .oneHit 1 1511), ([51], .oneHit 2 1511)],
          dv := none },
        { name := fF, fieldDocs := 1, fieldFreqs := 2,
          terms := [(ta, .general [⟨0, 2, 524, [⟨1, 1, 0, 1⟩, ⟨1, 3, 4, 5⟩]⟩])],
          dv := some [(0, [ta])] },
        { name := fG, fieldDocs := 1, fieldFreqs := 1,
          terms := [(tc, .oneHit 2 526)],
          dv := some [(2, [tc])] } ],
      stored := [[(0, [[48]]), (1, [[120, 121]]), (2, [])],
                 [(0, [[50]]), (1, []), (2, [])],
                 [(0, [[51]]), (1, []), (2, [[122]])]] } := by
  decide +kernel

def exMData : Bytes :=
  [6, 3, 0, 0, 1, 1, 1, 2, 48, 120, 121, 3, 1, 0, 0, 1, 50, 6, 2, 0, 0, 1, 2, 1, 1, 51, 122, 0, 27, 0, 0, 0, 2, 0, 0,
    0, 2, 0, 0, 0, 0, 0, 0, 0, 0, 0, 0, 0, 0, 0, 0, 0, 11, 0, 0, 0, 0, 0, 0, 0, 17, 30, 1, 48, 128, 0, 2, 243, 128, 0,
    0, 0, 1, 50, 128, 0, 2, 243, 128, 0, 0, 1, 1, 51, 128, 0, 2, 243, 128, 0, 0, 2, 2, 3, 3, 5, 140, 4, 2, 9, 9, 8, 1,
    1, 0, 1, 1, 3, 4, 5, 92, 6, 1, 0, 10, 1, 97, 0, 0, 0, 0, 0, 0, 0, 110, 1, 0, 2, 97, 255, 5, 0, 0, 0, 0, 0, 0, 0, 1,
    0, 0, 0, 0, 0, 0, 0, 1, 10, 1, 99, 128, 0, 1, 7, 0, 0, 0, 2, 1, 2, 2, 99, 255, 5, 0, 0, 0, 0, 0, 0, 0, 1, 0, 0, 0,
    0, 0, 0, 0, 1, 255, 255, 255, 255, 255, 255, 255, 255, 255, 1, 255, 255, 255, 255, 255, 255, 255, 255, 255, 1, 125,
    147, 1, 158, 1, 180, 1, 61, 3, 95, 105, 100, 3, 3, 114, 1, 102, 1, 2, 147, 1, 1, 103, 1, 1, 0, 0, 0, 0, 0, 0, 0,
    207, 0, 0, 0, 0, 0, 0, 0, 214, 0, 0, 0, 0, 0, 0, 0, 219]

def exMFooter : Footer :=
  { numDocs := 3, storedIndexOffset := 37, fieldsIndexOffset := 225, docValueOffset := 180,
    chunkMode := 2, version := 2, crc := 0 }

set_option maxRecDepth 100000 in
/-- the bytes `mergeToWriter` writes for it (evaluated in the kernel) -/
theorem exT_serialize : serialize C04.exK exML = .ok (exMData, exMFooter) := by decide +kernel

set_option maxRecDepth 100000 in
theorem exT_sizes : Sizes C04.exK exML := by
  refine ⟨by decide +kernel, by decide +kernel, by decide +kernel, ?_⟩
  rw [exT_serialize]; decide

set_option maxRecDepth 100000 in
theorem exT_mbounds : MBounds 2 (Tree.mins C01.nc0 [(.leaf 2 exB, [1]), (.leaf 2 exB2, [])]) := by
  refine ⟨by decide, by decide +kernel, by decide +kernel, by decide +kernel, by decide +kernel⟩

set_option maxRecDepth 100000 in
/-- **every hypothesis of the tree theorem holds for the example** -/
theorem exT_ok : Tree.OK C04.exK C01.nc0 exT := by
  refine ⟨⟨⟨ex_validBatch, ex_bounds, by decide, by decide +kernel, ex_sizes⟩, ?_, ?_,
    ⟨ex2_validBatch, ex2_bounds, by decide, by decide +kernel, ex2_sizes⟩, ?_, ?_, trivial⟩,
    exT_mbounds, exT_sizes⟩
  · exact ⟨by decide, by decide +kernel⟩
  · decide +kernel
  · exact ⟨by decide, by decide⟩
  · decide +kernel

/-- … so the merged file reads as `Spec.merge` says, for both backings -/
theorem exT_read (mem : Bool) :
    ∃ ld, load mem (fileOf C04.exK exMData exMFooter) = .ok ld ∧ ld.data.mem = mem ∧
      ReadsAsM C04.exK (exT.spec C01.nc0) ld := by
  obtain ⟨data, ft, ld, hs, hl, hm, hr⟩ := E2E_tree nc0_31 exT exT_ok mem
  have e : serialize C04.exK exML = .ok (data, ft) := hs
  rw [exT_serialize] at e
  injection e with e
  injection e with e1 e2
  subst e1; subst e2
  exact ⟨ld, hl, hm, hr⟩

set_option maxRecDepth 100000 in
/-- the observations of the specification of the example -/
theorem exT_spec :
    (exT.spec C01.nc0).fields = [idField, fF, fG] ∧
    numDocs (exT.spec C01.nc0) = 3 ∧
    terms (exT.spec C01.nc0) idField = [[48], [50], [51]] ∧
    terms (exT.spec C01.nc0) fF = [ta] ∧
    postings (exT.spec C01.nc0) fG tc = [{ doc := 2, freq := 1, norm := 526, locs := [] }] ∧
    stored (exT.spec C01.nc0) 0 = [(idField, [48]), (fF, [120, 121])] ∧
    dvOf (exT.spec C01.nc0) 2 fG = [tc] ∧
    stats (exT.spec C01.nc0) fF = (3, 1, 2) ∧
    (merge 2 (absIns (Tree.mins C01.nc0 [(.leaf 2 exB, [1]), (.leaf 2 exB2, [])]))).2 =
      [[some 0, none, some 1], [some 2]] := by
  decide +kernel

/-- the left-hand sides of `E2EM_iter`, evaluated on the bytes: the general term `a` of field
    `f` (id 1, key 0) through the byte-level iterator, the 1-hit term `c` of field `g` (id 2,
    key 0) through the 1-hit path; all flags, script `Next, Next, Advance 0` -/
def exMTranscript (mem : Bool) (field : Nat) : List (Res (Option Posting)) :=
  match load mem (fileOf C04.exK exMData exMFooter) with
  | .ok ld =>
    (match dictionaryOf C04.exK ld field with
     | .ok (some fst) =>
       (match fst[0]? with
        | some (_, v) =>
          (match readPostings C04.exK ld v with
           | .ok (.general fo lo docs cs) =>
             C05Bytes.runRes C04.exK.chunk
               (mkB (plbOf ld fo lo cs docs none) (RFlags.of ⟨true, true, true⟩))
               [.next, .next, .advance 0]
           | .ok (.oneHit d n) =>
             (Iter1Hit.run (Iter1Hit.mk d n none (RFlags.of ⟨true, true, true⟩))
               [.next, .next, .advance 0]).map Ice.Model.IterBytes.resOf
           | _ => [])
        | none => [])
     | _ => [])
  | _ => []

set_option maxRecDepth 100000 in
theorem exT_transcript (mem : Bool) :
    exMTranscript mem 1 =
      [ .ok (some { doc := 0, freq := 2, norm := 524, locs := [⟨fF, 1, 0, 1⟩, ⟨fF, 3, 4, 5⟩] }),
        .ok none, .ok none ] ∧
    exMTranscript mem 2 =
      [ .ok (some { doc := 2, freq := 1, norm := 526, locs := [] }), .ok none, .ok none ] := by
  cases mem <;> exact ⟨by decide +kernel, by decide +kernel⟩

/-- `E2EM_docnums` for the example: on the two built segments' stored sections (followed by any
    bytes) `mergeStoredAndRemap` writes the stored section of the merged file and returns the
    maps `[[0, dropped, 1], [2]]` -/
theorem exT_docnums (t1 t2 : Bytes) (vdc : Stored.Buf) :
    ∃ buf', mergeStored C04.exK.stored docBlock
        [((MIn.ofLSeg (build C01.nc0 2 exB) [1] exL).sIn t1).src C04.exK.stored docBlock,
         ((MIn.ofLSeg (build C01.nc0 2 exB2) [] exL2).sIn t2).src C04.exK.stored docBlock]
        [[1], []] vdc =
      .ok (storedOut C04.exK exML, [[0, Ice.Model.MergeRest.docDropped, 1], [2]], buf') := by
  obtain ⟨hok, hB, _, _⟩ := E2E_tree_inputs nc0_31 2 _ exT_ok
  obtain ⟨buf', h⟩ := E2EM_docnums (K := C04.exK) (mode := 2)
    [(MIn.ofLSeg (build C01.nc0 2 exB) [1] exL, t1), (MIn.ofLSeg (build C01.nc0 2 exB2) [] exL2, t2)]
    (by intro x hx
        simp only [List.mem_cons, List.not_mem_nil, or_false] at hx
        rcases hx with rfl | rfl
        · exact hok _ (by simp [Tree.mins, Tree.spec, Tree.lseg, exL, exR])
        · exact hok _ (by simp [Tree.mins, Tree.spec, Tree.lseg, exL2]))
    hB (fun _ h => h) vdc
  refine ⟨buf', ?_⟩
  rw [show (merge 2 (absIns (List.map (fun x => x.1)
      [(MIn.ofLSeg (build C01.nc0 2 exB) [1] exL, t1),
       (MIn.ofLSeg (build C01.nc0 2 exB2) [] exL2, t2)]))).2 = [[some 0, none, some 1], [some 2]]
    from exT_spec.2.2.2.2.2.2.2.2] at h
  exact h

end Ice.Props.E2EM

/-! axiom audit (expected: a subset of propext, Classical.choice, Quot.sound) -/
section Audit
open Ice.Props.E2EM
#print axioms lays_read
#print axioms lays_valid
#print axioms mergedLSeg_lays
#print axioms absOK_merge
#print axioms fieldOf_spec
#print axioms dvColFrom_dvOf
#print axioms minOK_of_lays
#print axioms build_lays
#print axioms absOK_build
#print axioms E2EM_lays
#print axioms E2EM_valid
#print axioms E2EM_written
#print axioms E2EM_fields
#print axioms E2EM_dict
#print axioms E2EM_iter
#print axioms E2EM_iter_1hit
#print axioms E2EM_iter_reuse
#print axioms E2EM_stored
#print axioms E2EM_dv
#print axioms E2EM_read
#print axioms E2EM_docnums
#print axioms E2EM_dv_model
#print axioms E2EM_norm31_counterexample
#print axioms E2EM_closure
#print axioms E2EM_docnums_loaded
#print axioms E2EM_dv_model_loaded
#print axioms tree_ok
#print axioms trees_ok
#print axioms E2E_tree
#print axioms E2E_tree_inputs
#print axioms exT_layout
#print axioms exT_serialize
#print axioms exT_ok
#print axioms exT_read
#print axioms exT_spec
#print axioms exT_transcript
#print axioms exT_docnums
end Audit
