import IceModel.Gen.ErrFlow
import IceModel.Props.ErrFlow
/-
  Error flow of the persistence functions (property C11): facts about the functions of THIS AREA only.

  The generated table `Gen.ErrFlow.flows` is restricted to the names in `persistFns`; every theorem below
  speaks about `persistFlows = restrict flows persistFns` (or the pinned lists computed from it) and is
  therefore insensitive to a change of the error flow of a function outside the area.  A function of
  the area that disappears from the table makes `persist_fns_present` fail.
  The semantics (`Sound`, `checked_sound`, …) is in `Props/ErrFlow.lean`.
-/
namespace Ice.Props.ErrFlowPersist
open Ice Ice.Gen Ice.Bridge.ErrFlow Ice.ErrFlow Ice.Props.ErrFlow

/-- the functions of the area -/
def persistFns : List String :=
  ["Segment.WriteTo", "Merger.WriteTo", "persistFooter", "countHashWriter.Write", "footerCRC"]

/-- their flows -/
def persistFlows : Flows := restrict ErrFlow.flows persistFns

/-- the structured program of a function of the area (`[]` for any other name) -/
def progOf (name : String) : Prog := progIn persistFlows name

/-- the functions of the area without / with an unchecked call -/
def persistCovered : List String := coveredIn ErrFlow.flows persistFns
def persistNotCovered : List String := notCoveredIn ErrFlow.flows persistFns

/-- every function of the area is in the generated table … -/
theorem persist_fns_present : ∀ n ∈ persistFns, n ∈ ErrFlow.flows.map (·.1) := by decide +kernel

/-- … exactly once -/
theorem persist_names_nodup : (persistFlows.map (·.1)).Nodup ∧ persistFlows.length = persistFns.length := by
  decide +kernel

/-- for a function of the area, the area's table and the whole table give the same program -/
theorem persist_progOf_whole : ∀ n ∈ persistFns, progOf n = progIn ErrFlow.flows n :=
  fun _ hn => progIn_restrict _ _ hn

/-- every flow of the area parses (balanced braces, known events only) -/
theorem persist_parse_ok : ∀ f ∈ persistFlows, (parse f.2).isSome := by decide +kernel

/-- `progOf` is the structure of the generated flat list -/
theorem persist_progOf_flat : ∀ f ∈ persistFlows, flat (progOf f.1) = f.2 := by decide +kernel

/-- the call inside a wrapping check `{:err F w R err }` is always `fmt.Errorf` -/
theorem persist_wrappers : ∀ f ∈ persistFlows, ∀ w ∈ wrappers (progOf f.1), w = "Errorf" := by
  decide +kernel

/-- PINNED: the calls of the area whose error is not checked at once (function, callee): none -/
theorem persist_unchecked_pinned : uncheckedIn ErrFlow.flows persistFns =[] := by
  decide +kernel

/-- PINNED: the discarded error results of the area (function, callee): none -/
theorem persist_dropped_pinned : droppedIn ErrFlow.flows persistFns =[] := by
  decide +kernel

/-- the functions of the area without an unchecked call … -/
theorem persist_covered_eq : persistCovered =
    ["Merger.WriteTo", "Segment.WriteTo", "countHashWriter.Write", "footerCRC", "persistFooter"] := by
  decide +kernel

/-- … and with one: exactly the functions named in `persist_unchecked_pinned` -/
theorem persist_notCovered_eq : persistNotCovered =[] := by
  decide +kernel

theorem persist_notCovered_eq_pinned :
    persistNotCovered = ((uncheckedIn ErrFlow.flows persistFns).map (·.1)).eraseDups := by
  rw [persist_notCovered_eq, persist_unchecked_pinned]; decide

/-- every covered function is disciplined: all calls checked at once, wrappers are `Errorf` -/
theorem persist_disc : ∀ n ∈ persistCovered, Disc (progOf n) := by decide +kernel

/-- SOUNDNESS for the area: in every covered function a failing call is the last thing done (but for
    wrapping the error) and makes the function return a non-nil error; a nil result means that no
    bound call failed (modulo the discarded results of `persist_dropped_pinned`) -/
theorem persist_sound : ∀ n ∈ persistCovered, Sound (progOf n) :=
  sound_of_disc_all persist_disc

/-! ### function by function -/

theorem sound_Merger_WriteTo : Sound (progOf "Merger.WriteTo") :=
  persist_sound _ (by rw [persist_covered_eq]; decide)
theorem sound_Segment_WriteTo : Sound (progOf "Segment.WriteTo") :=
  persist_sound _ (by rw [persist_covered_eq]; decide)
theorem sound_countHashWriter_Write : Sound (progOf "countHashWriter.Write") :=
  persist_sound _ (by rw [persist_covered_eq]; decide)
theorem sound_footerCRC : Sound (progOf "footerCRC") :=
  persist_sound _ (by rw [persist_covered_eq]; decide)
theorem sound_persistFooter : Sound (progOf "persistFooter") :=
  persist_sound _ (by rw [persist_covered_eq]; decide)

/-- `Segment.WriteTo` (write.go): data, footer, flush, each checked, two of them wrapped - the program
    `Props.ErrFlow.writeToShape` used for the satisfiability examples of the generic part -/
theorem progOf_Segment_WriteTo : progOf "Segment.WriteTo" = writeToShape := by decide +kernel

/-- a run of `Segment.WriteTo` whose footer write fails: nothing is attempted afterwards (no `Flush`),
    the wrapped error is returned -/
theorem Segment_WriteTo_failing_run :
    Run (progOf "Segment.WriteTo")
      [⟨false, "WriteTo", false⟩, ⟨false, "persistFooter", true⟩, ⟨false, "Errorf", true⟩]
      (.returned true) := by
  rw [progOf_Segment_WriteTo]; exact writeToShape_failing_run

/-- … and one that succeeds -/
theorem Segment_WriteTo_ok_run :
    Run (progOf "Segment.WriteTo")
      [⟨false, "WriteTo", false⟩, ⟨false, "persistFooter", false⟩, ⟨false, "Flush", false⟩]
      (.returned false) := by
  rw [progOf_Segment_WriteTo]; exact writeToShape_ok_run

/-- none of these functions contains a wrapping check other than `Segment.WriteTo`'s two, and
    `persistFooter`, `footerCRC`, `countHashWriter.Write` have none: there the failing call is literally
    the last call -/
theorem persist_nowrap : ∀ n ∈ ["persistFooter", "footerCRC", "countHashWriter.Write", "Merger.WriteTo"],
    uncheckedS (progOf n) = [] ∧ wrappers (progOf n) = [] := by decide +kernel

end Ice.Props.ErrFlowPersist
