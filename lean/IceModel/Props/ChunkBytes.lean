import IceModel.Model.ChunkBytes
import IceModel.Lemmas.ChunkBytes
/-
  The byte layer of postings lists: what the writers put into a chunk, and into a chunk stream,
  is what the readers get out.

  PART 1 (T1-T4)  entries ↔ bytes of one chunk (freq/norm stream and location stream)
  PART 2 (T5-T6)  chunks ↔ stream of a `chunkedIntCoder` / `chunkedIntDecoder`

  Everything is proved for every input inside the stated bounds; nothing is partial.
  Hypotheses that had to be added to the ones one would write down first:
    * `Entry.Valid` bounds the number of locations by `2^57`, so that `numBytesLocs` (≤ 40 bytes
      per location) stays a non-negative `int` on the reader side (T3);
    * T3 for the reader as coded (`readLocsFreq`, `nextLocs` has length `freq`) needs
      `#locations ≤ freq` — the input contract; without it the code panics (`T3_freq_contract`);
    * T5 needs `0 < total` chunks (true for `maxDocNum/chunkSize + 1` unless that wraps to 0);
    * T6 needs a non-empty prefix (offset 0 means `termNotEncoded`, see `T6_writeAt` for that
      path) and a file shorter than `2^62` bytes (all `uint64 → int` conversions are exact).
-/
namespace Ice.Props.ChunkBytes
open Ice Ice.Model Ice.Model.ChunkBytes

/-! ## PART 1 -/

/-- (T1) the byte count the writer puts in front of the locations of a posting is the length of
    their encoding. -/
theorem T1_numBytesLocs (e : Entry) : numBytesLocs e = (e.locs.flatMap encLoc).length :=
  numBytesLocs_eq e

/-- (T2) `readFreqNormHasLocs` placed at the start of entry `e` inside the freq/norm bytes of a
    chunk returns its freq, norm and has-locations flag and stops at the start of the next entry. -/
theorem T2_read (pre post : List Entry) (e : Entry) (hv : e.Valid) :
    readFreqNormHasLocs ⟨fnBytes (pre ++ e :: post), (fnBytes pre).length⟩
      = .ok ((e.freq, e.norm, !e.locs.isEmpty),
             ⟨fnBytes (pre ++ e :: post), (fnBytes (pre ++ [e])).length⟩) := by
  rw [readFreqNormHasLocs_drop hv (fnBytes_drop pre e post), fnBytes_snoc_length]

/-- (T2) `skipFreqNormReadHasLocs` from the same cursor: same flag, same new cursor. -/
theorem T2_skip (pre post : List Entry) (e : Entry) (hv : e.Valid) :
    skipFreqNormReadHasLocs ⟨fnBytes (pre ++ e :: post), (fnBytes pre).length⟩
      = .ok (!e.locs.isEmpty, ⟨fnBytes (pre ++ e :: post), (fnBytes (pre ++ [e])).length⟩) := by
  rw [skipFreqNormReadHasLocs_drop hv (fnBytes_drop pre e post), fnBytes_snoc_length]

/-- (T3) the location loop placed at the start of the locations of `e` inside the location bytes
    of a chunk returns exactly `e.locs` and stops at the start of the next entry's locations. -/
theorem T3_read (pre post : List Entry) (e : Entry) (hv : e.Valid) (hne : e.locs ≠ []) :
    readLocs ⟨locBytes (pre ++ e :: post), (locBytes pre).length⟩
      = .ok (e.locs, ⟨locBytes (pre ++ e :: post), (locBytes (pre ++ [e])).length⟩) := by
  unfold readLocs
  rw [readLocsWith_drop none hv hne (by intro f hf; cases hf) (locBytes_drop pre e post),
    locBytes_snoc_length]

/-- (T3) the same for the loop as coded, which stores into `nextLocs[0:freq]`: it needs the
    contract `#locations ≤ freq`. -/
theorem T3_read_freq (pre post : List Entry) (e : Entry) (hv : e.Valid) (hne : e.locs ≠ [])
    (hfreq : e.locs.length ≤ e.freq) :
    readLocsFreq e.freq ⟨locBytes (pre ++ e :: post), (locBytes pre).length⟩
      = .ok (e.locs, ⟨locBytes (pre ++ e :: post), (locBytes (pre ++ [e])).length⟩) := by
  unfold readLocsFreq
  rw [readLocsWith_drop (some e.freq) hv hne (by intro f hf; cases hf; exact hfreq)
    (locBytes_drop pre e post), locBytes_snoc_length]

/-- … and the contract is necessary: with more locations than `freq` the reader panics
    (`nextLocs[freq]`, posting.go:513) on bytes the writer produces without complaint. -/
theorem T3_freq_contract (pre post : List Entry) (e : Entry) (hv : e.Valid)
    (hfreq : e.freq < e.locs.length) :
    readLocsFreq e.freq ⟨locBytes (pre ++ e :: post), (locBytes pre).length⟩ = .panic :=
  readLocsFreq_drop_panic hv hfreq (locBytes_drop pre e post)

/-- (T3) `currChunkNext`'s skip from the same cursor ends at the same cursor. -/
theorem T3_skip (pre post : List Entry) (e : Entry) (hv : e.Valid) (hne : e.locs ≠ []) :
    skipLocs ⟨locBytes (pre ++ e :: post), (locBytes pre).length⟩
      = .ok ⟨locBytes (pre ++ e :: post), (locBytes (pre ++ [e])).length⟩ := by
  rw [skipLocs_drop hv hne (locBytes_drop pre e post), locBytes_snoc_length]

/-- (T4) decoding the two streams of a chunk entry by entry yields the entries. -/
theorem T4_decodeAll (es : List Entry) (hv : ∀ e ∈ es, e.Valid) (fuel : Nat)
    (hfuel : es.length < fuel) :
    decodeAll fuel ⟨fnBytes es, 0⟩ ⟨locBytes es, 0⟩
      = .ok (es.map fun e => (e.freq, e.norm, e.locs)) :=
  decodeAll_enc es hv es [] fuel rfl hfuel

/-- The fuel of the location loop is never used up, whatever the bytes are: more fuel than
    `readLocsWith` passes gives the same result. -/
theorem readLocs_fuel_adequate (cap : Option Nat) (r r' : Rd) (v : Nat)
    (h : r.readUvarint = .ok (v, r')) (k : Nat) :
    readLocsLoop (v + 1 + k) cap r'.len v 0 r' [] = readLocsLoop (v + 1) cap r'.len v 0 r' [] :=
  readLocsWith_fuel cap r r' v h k

/-! a concrete chunk: multi-byte varints, a posting without locations in the middle -/

def exEntries : List Entry :=
  [ { doc := 0, freq := 3, norm := 1065353216, locs := [⟨1, 2, 3, 400⟩, ⟨0, 70000, 5, 6⟩] },
    { doc := 1, freq := 1, norm := 7, locs := [] },
    { doc := 2, freq := 2, norm := 2 ^ 40, locs := [⟨5, 6, 7, 2 ^ 63⟩] } ]

example : ∀ e ∈ exEntries, e.Valid := by decide

example : decodeAll 4 ⟨fnBytes exEntries, 0⟩ ⟨locBytes exEntries, 0⟩
    = .ok [(3, 1065353216, [⟨1, 2, 3, 400⟩, ⟨0, 70000, 5, 6⟩]), (1, 7, []), (2, 2 ^ 40, [⟨5, 6, 7, 2 ^ 63⟩])] :=
  T4_decodeAll exEntries (by decide) 4 (by decide)

#guard fnBytes exEntries = [7, 128, 128, 128, 252, 3, 2, 7, 5, 128, 128, 128, 128, 128, 32]
#guard decodeAll 4 ⟨fnBytes exEntries, 0⟩ ⟨locBytes exEntries, 0⟩
    == .ok (exEntries.map fun e => (e.freq, e.norm, e.locs))

/-! ## PART 2 -/

/-- non-decreasing chunk indices: "You MUST call Add() with increasing docNums" -/
def ChunkSorted (cs : Nat) (adds : List (Nat × List Nat)) : Prop :=
  (adds.map (fun a => a.1 / cs)).Pairwise (· ≤ ·)

instance (cs : Nat) (adds : List (Nat × List Nat)) : Decidable (ChunkSorted cs adds) := by
  unfold ChunkSorted; infer_instance

/-- (T5) From a fresh coder (`Fresh`: as `newChunkedIntCoder`, `Reset`, and `SetChunkSize` on
    either, leave it) with `total` chunk slots, a run of `Add`s with non-decreasing chunk indices
    below `total`, followed by `Close`, does not panic; afterwards `chunkLens[i]` is the length of
    the compressed bytes of chunk `i` for every `i` (0 for untouched chunks, since `Z [] = []`)
    and `final` is the concatenation of the compressed chunks in index order.  The backing array
    behind `chunkLens` stays zero (`TailZero`), which is what makes the coder reusable. -/
theorem T5_encode (K : Codec) (c : Coder) (hf : Fresh c) (cs total : Nat)
    (hcs : c.chunkSize = cs) (hpos : 0 < cs) (htot : c.lensLen = total) (ht : 0 < total)
    (adds : List (Nat × List Nat)) (hs : ChunkSorted cs adds)
    (hidx : ∀ a ∈ adds, a.1 / cs < total) :
    ∃ c', c.encode K adds = .ok c' ∧
      c'.chunkLens = (List.range total).map (fun i => (K.Z (bytesOfChunk cs adds i)).length) ∧
      c'.final = (List.range total).flatMap (fun i => K.Z (bytesOfChunk cs adds i)) ∧
      TailZero c' := by
  subst hcs htot
  obtain ⟨c', henc, hd⟩ := Inv.encode (K := K) hpos adds c _ 0 (hf.inv K ht)
    (fun a ha => ⟨Nat.zero_le _, hidx a ha⟩) hs
  simp only [List.nil_append] at hd
  exact ⟨c', henc, hd.chunkLens_eq, hd.fin, hd.tailZero⟩

/-- (T5) for `newChunkedIntCoder(chunkSize, maxDocNum)` and document numbers up to `maxDocNum`. -/
theorem T5_new (K : Codec) (cs maxDoc : Nat) (hpos : 0 < cs) (hm : maxDoc / cs + 1 < 2 ^ 63)
    (adds : List (Nat × List Nat)) (hs : ChunkSorted cs adds) (hdoc : ∀ a ∈ adds, a.1 ≤ maxDoc) :
    ∃ c c', Coder.new cs maxDoc = .ok c ∧ c.encode K adds = .ok c' ∧
      c'.chunkLens = (List.range (maxDoc / cs + 1)).map (fun i => (K.Z (bytesOfChunk cs adds i)).length) ∧
      c'.final = (List.range (maxDoc / cs + 1)).flatMap (fun i => K.Z (bytesOfChunk cs adds i)) := by
  obtain ⟨c, hnew, hf, h1, h2⟩ := Coder.new_ok (m := maxDoc) hpos hm
  obtain ⟨c', henc, hl, hfin, -⟩ := T5_encode K c hf cs (maxDoc / cs + 1) h1 hpos h2 (Nat.succ_pos _) adds hs
    (fun a ha => chunk_index_lt cs a.1 maxDoc (hdoc a ha))
  exact ⟨c, c', hnew, henc, hl, hfin⟩

/-- (T5) for a reused coder: `SetChunkSize` on a fresh coder keeps it fresh with the new number of
    chunk slots (whether the backing array is reallocated or resliced) … -/
theorem T5_setChunkSize (c : Coder) (hf : Fresh c) (cs maxDoc : Nat) (hpos : 0 < cs)
    (hm : maxDoc / cs + 1 < 2 ^ 63) :
    ∃ c', c.setChunkSize cs maxDoc = .ok c' ∧ Fresh c' ∧ c'.chunkSize = cs ∧
      c'.lensLen = maxDoc / cs + 1 :=
  Coder.setChunkSize_ok hf hpos hm

/-- … and `Reset` after a run (with or without the `Write` in between, which overwrites
    `chunkLens` by the end offsets) makes it fresh again. -/
theorem T5_reset (c : Coder) (h : TailZero c) : Fresh c.reset ∧ Fresh c.write.2.reset :=
  ⟨h.reset, h.write.reset⟩

/-- (T6) Round trip through `Write` and `newChunkedIntDecoder`/`loadChunk`: with the stream
    written at a non-zero offset of a file shorter than `2^62` bytes, the decoder loads, for every
    chunk index below `total`, exactly the uncompressed bytes of that chunk, and reports an error
    for every other index.  `file = false`: reads are slices of `data` (memory-backed).
    `file = true`: reads beyond `data` fail (file-backed); then at least 10 bytes must follow the
    stream (in a segment: the footer), and the statement includes that no read leaves the data. -/
theorem T6_roundtrip (K : Codec) (c : Coder) (hf : Fresh c) (cs total : Nat)
    (hcs : c.chunkSize = cs) (hpos : 0 < cs) (htot : c.lensLen = total) (ht : 0 < total)
    (adds : List (Nat × List Nat)) (hs : ChunkSorted cs adds)
    (hidx : ∀ a ∈ adds, a.1 / cs < total)
    (c' : Coder) (henc : c.encode K adds = .ok c')
    (file : Bool) (pre suf : Bytes) (hpre : pre ≠ [])
    (hsz : (pre ++ c'.streamBytes ++ suf).length < 2 ^ 62)
    (hsuf : file = true → 10 ≤ suf.length) :
    ∃ d, Decoder.newWith file (pre ++ c'.streamBytes ++ suf) pre.length = .ok d ∧
      (∀ i, i < total → d.loadChunk K i = .ok (bytesOfChunk cs adds i)) ∧
      (∀ i, total ≤ i → d.loadChunk K i = .err) := by
  obtain ⟨c'', henc', hl, hfin, -⟩ := T5_encode K c hf cs total hcs hpos htot ht adds hs hidx
  rw [henc] at henc'; cases henc'
  -- the compressed chunks as a list
  let zs : List Bytes := (List.range total).map (fun i => K.Z (bytesOfChunk cs adds i))
  have hL : c'.chunkLens = zs.map List.length := by rw [hl]; simp [zs]
  have hF : c'.final = zs.flatten := by rw [hfin]; simp [zs, List.flatMap_def]
  have hzl : zs.length = total := by simp [zs]
  have hstream : c'.streamBytes = header (zs.map List.length) ++ zs.flatten := by
    unfold Coder.streamBytes; rw [Coder.write_eq, hL, hF]
  rw [hstream] at hsz ⊢
  have hoff : ¬ pre.length = 0 := fun h => hpre (List.eq_nil_of_length_eq_zero h)
  refine ⟨_, Decoder.newWith_enc (zs.map List.length) hpre hsz (by intro h; have := hsuf h; omega), ?_, ?_⟩
  · intro i hi
    rw [Decoder.loadChunk_enc K zs hpre hsz i (by omega)]
    have : zs[i]'(by omega) = K.Z (bytesOfChunk cs adds i) := by simp [zs]
    rw [this, K.rt]
  · intro i hi
    have : i ≥ (endOffsets 0 (zs.map List.length)).length := by
      rw [endOffsets_length, List.length_map, hzl]; exact hi
    simp [Decoder.loadChunk, hoff, this]

/-- (T6) the `termNotEncoded` path of `writeAt`: with the writer standing at `pre.length`
    (`0 < pre.length < 2^64`), `writeAt` followed by a decoder at the offset it returns loads the
    right bytes for every chunk index below `total`, whether or not anything was written
    (nothing is written iff all chunks are empty, and then every chunk loads as empty). -/
theorem T6_writeAt (K : Codec) (c : Coder) (hf : Fresh c) (cs total : Nat)
    (hcs : c.chunkSize = cs) (hpos : 0 < cs) (htot : c.lensLen = total) (ht : 0 < total)
    (adds : List (Nat × List Nat)) (hs : ChunkSorted cs adds)
    (hidx : ∀ a ∈ adds, a.1 / cs < total)
    (c' : Coder) (henc : c.encode K adds = .ok c')
    (file : Bool) (pre suf : Bytes) (hpre : pre ≠ [])
    (hsz : (pre ++ (c'.writeAt pre.length).2.1 ++ suf).length < 2 ^ 62)
    (hsuf : file = true → 10 ≤ suf.length) :
    ∃ d, Decoder.newWith file (pre ++ (c'.writeAt pre.length).2.1 ++ suf) (c'.writeAt pre.length).1
        = .ok d ∧
      ∀ i, i < total → d.loadChunk K i = .ok (bytesOfChunk cs adds i) := by
  by_cases hfin0 : c'.final.length = 0
  · -- nothing written, offset 0
    have hw : c'.writeAt pre.length = (0, [], c') := by simp [Coder.writeAt, hfin0]
    rw [hw]
    refine ⟨_, Decoder.newWith_zero file _, ?_⟩
    intro i hi
    obtain ⟨c'', henc', -, hfin, -⟩ := T5_encode K c hf cs total hcs hpos htot ht adds hs hidx
    rw [henc] at henc'; cases henc'
    have hnil : concatZ K (bytesOfChunk cs adds) total = [] := by
      unfold concatZ; rw [← hfin]; exact List.eq_nil_of_length_eq_zero hfin0
    rw [concatZ_eq_nil K hnil i hi]
    simp [Decoder.loadChunk]
  · have hw : c'.writeAt pre.length = (pre.length % two64, c'.streamBytes, c'.write.2) := by
      simp [Coder.writeAt, hfin0, Coder.streamBytes]
    rw [hw] at hsz ⊢
    have hlt : pre.length % two64 = pre.length := by
      apply Nat.mod_eq_of_lt
      simp only [List.length_append] at hsz
      unfold two64; omega
    simp only [hlt]
    obtain ⟨d, hd, hload, -⟩ := T6_roundtrip K c hf cs total hcs hpos htot ht adds hs hidx c' henc
      file pre suf hpre hsz hsuf
    exact ⟨d, hd, hload⟩

/-! ## PART 1 + PART 2: a whole postings list -/

/-- the entries of chunk `c` (the same split as `Ice.Model.Iter.chunkOf`) -/
def chunkOf (cs : Nat) (es : List Entry) (c : Nat) : List Entry :=
  es.filter (fun e => e.doc / cs == c)

/-- (T7) The `Add` calls of `writeDictsTermField` / `mergeTermFreqNormLocs` put into chunk `c` of
    the freq/norm stream exactly the freq/norm bytes of the entries of chunk `c`, and into chunk
    `c` of the location stream exactly their location bytes; and they are made with
    non-decreasing chunk indices when the postings are enumerated in document order. -/
theorem T7_chunks (cs : Nat) (es : List Entry) (c : Nat) :
    bytesOfChunk cs (tfAdds es) c = fnBytes (chunkOf cs es c) ∧
    bytesOfChunk cs (locAdds es) c = locBytes (chunkOf cs es c) :=
  ⟨bytesOfChunk_tfAdds cs es c, bytesOfChunk_locAdds cs es c⟩

theorem T7_sorted (cs : Nat) (es : List Entry) (hs : es.Pairwise (fun a b => a.doc ≤ b.doc)) :
    ChunkSorted cs (tfAdds es) ∧ ChunkSorted cs (locAdds es) :=
  ⟨pairwise_tfAdds cs es hs, pairwise_locAdds cs es hs⟩

/-- (T7) End to end for one term.  The builder encodes the postings `es` (valid, in document
    order, documents `≤ maxDoc`) with two new coders, and `writePostings` writes the freq/norm
    stream and then the location stream with `writeAt` behind a non-empty prefix.  Then decoders
    opened at the two offsets `writeAt` returned (0 for a stream that was not written) load, for
    every chunk index `c`, bytes from which entry-by-entry decoding returns exactly the entries
    of chunk `c`.  Nothing panics or errs on the way. -/
theorem T7_postings_roundtrip (K : Codec) (cs maxDoc : Nat) (hpos : 0 < cs)
    (hm : maxDoc / cs + 1 < 2 ^ 63)
    (es : List Entry) (hv : ∀ e ∈ es, e.Valid) (hs : es.Pairwise (fun a b => a.doc ≤ b.doc))
    (hdoc : ∀ e ∈ es, e.doc ≤ maxDoc)
    (tf lc tf' lc' : Coder)
    (htf : Coder.new cs maxDoc = .ok tf) (hlc : Coder.new cs maxDoc = .ok lc)
    (htf' : tf.encode K (tfAdds es) = .ok tf') (hlc' : lc.encode K (locAdds es) = .ok lc')
    (file : Bool) (pre suf : Bytes) (hpre : pre ≠ []) :
    let w1 := tf'.writeAt pre.length
    let w2 := lc'.writeAt (pre.length + w1.2.1.length)
    let data := pre ++ w1.2.1 ++ w2.2.1 ++ suf
    data.length < 2 ^ 62 → (file = true → 10 ≤ suf.length) →
    ∃ dt dl, Decoder.newWith file data w1.1 = .ok dt ∧ Decoder.newWith file data w2.1 = .ok dl ∧
      ∀ c, c < maxDoc / cs + 1 →
        ∃ fb lb, dt.loadChunk K c = .ok fb ∧ dl.loadChunk K c = .ok lb ∧
          decodeAll ((chunkOf cs es c).length + 1) ⟨fb, 0⟩ ⟨lb, 0⟩
            = .ok ((chunkOf cs es c).map fun e => (e.freq, e.norm, e.locs)) := by
  intro w1 w2 data hsz hsuf
  obtain ⟨c0, hnew, hf, hc1, hc2⟩ := Coder.new_ok (m := maxDoc) hpos hm
  have e1 : tf = c0 := by rw [htf] at hnew; cases hnew; rfl
  have e2 : lc = c0 := by rw [hlc] at hnew; cases hnew; rfl
  have hf1 : Fresh tf ∧ tf.chunkSize = cs ∧ tf.lensLen = maxDoc / cs + 1 := by rw [e1]; exact ⟨hf, hc1, hc2⟩
  have hf2 : Fresh lc ∧ lc.chunkSize = cs ∧ lc.lensLen = maxDoc / cs + 1 := by rw [e2]; exact ⟨hf, hc1, hc2⟩
  have hidx1 : ∀ a ∈ tfAdds es, a.1 / cs < maxDoc / cs + 1 := by
    intro a ha
    simp only [tfAdds, List.mem_map] at ha
    obtain ⟨e, he, rfl⟩ := ha
    exact chunk_index_lt cs e.doc maxDoc (hdoc e he)
  have hidx2 : ∀ a ∈ locAdds es, a.1 / cs < maxDoc / cs + 1 := by
    intro a ha
    simp only [locAdds, List.mem_flatMap] at ha
    obtain ⟨e, he, ha⟩ := ha
    rw [locAddsOf_doc e a ha]
    exact chunk_index_lt cs e.doc maxDoc (hdoc e he)
  obtain ⟨hs1, hs2⟩ := T7_sorted cs es hs
  have hd1 : data = pre ++ (tf'.writeAt pre.length).2.1 ++ (w2.2.1 ++ suf) := by
    simp only [data, w1, List.append_assoc]
  have hd2 : data = (pre ++ w1.2.1) ++ (lc'.writeAt (pre ++ w1.2.1).length).2.1 ++ suf := by
    simp only [data, w2, List.length_append]
  obtain ⟨dt, hdt, hlt⟩ := T6_writeAt K tf hf1.1 cs _ hf1.2.1 hpos hf1.2.2 (Nat.succ_pos _) (tfAdds es) hs1
    hidx1 tf' htf' file pre (w2.2.1 ++ suf) hpre (by rw [← hd1]; exact hsz)
    (by intro h; have := hsuf h; simp; omega)
  obtain ⟨dl, hdl, hll⟩ := T6_writeAt K lc hf2.1 cs _ hf2.2.1 hpos hf2.2.2 (Nat.succ_pos _) (locAdds es) hs2
    hidx2 lc' hlc' file (pre ++ w1.2.1) suf (by simp [hpre]) (by rw [← hd2]; exact hsz) hsuf
  rw [← hd1] at hdt
  rw [← hd2] at hdl
  have hw2 : w2.1 = (lc'.writeAt (pre ++ w1.2.1).length).1 := by simp only [w2, List.length_append]
  refine ⟨dt, dl, hdt, by rw [hw2]; exact hdl, ?_⟩
  intro c hc
  refine ⟨_, _, hlt c hc, hll c hc, ?_⟩
  rw [(T7_chunks cs es c).1, (T7_chunks cs es c).2]
  exact T4_decodeAll _ (fun e he => hv e (List.mem_filter.mp he).1) _ (Nat.lt_succ_self _)

/-! a concrete run: chunk size 2, documents 0..9 (5 chunks), chunks 1 and 3 untouched -/

def exAdds : List (Nat × List Nat) := [(0, [1, 2]), (1, [300]), (5, [4]), (5, [70000, 1]), (9, [8])]

example : ChunkSorted 2 exAdds := by decide
example : ∀ a ∈ exAdds, a.1 ≤ 9 := by decide

example : ∀ a ∈ exAdds, a.1 / 2 < 5 := by decide

/-- a toy codec satisfying the two laws (not the identity, so lengths differ from the input) -/
def exCodec : Codec where
  Z b := if b.isEmpty then [] else 7 :: 9 :: b
  unZ b := match b with | [] => some [] | _ :: t => some (t.drop 1)
  rt b := by cases b <;> simp
  z_nil := by simp

/-- T5 and T6 instantiated on the run above -/
example : ∃ c c', Coder.new 2 9 = .ok c ∧ c.encode exCodec exAdds = .ok c' ∧
    c'.chunkLens = (List.range 5).map (fun i => (exCodec.Z (bytesOfChunk 2 exAdds i)).length) ∧
    c'.final = (List.range 5).flatMap (fun i => exCodec.Z (bytesOfChunk 2 exAdds i)) :=
  T5_new exCodec 2 9 (by decide) (by decide) exAdds (by decide) (by decide)

#guard (match Coder.new 2 9 with
        | .ok c => (match c.encode exCodec exAdds with
                    | .ok c' => c'.chunkLens == [6, 0, 7, 0, 3] &&
                        (match Decoder.newWith true ([1, 2, 3] ++ c'.streamBytes ++ List.replicate 10 0) 3 with
                         | .ok d => (List.range 6).map (d.loadChunk exCodec)
                                      == [.ok [1, 2, 172, 2], .ok [], .ok [4, 240, 162, 4, 1], .ok [], .ok [8], .err]
                         | _ => false)
                    | _ => false)
        | _ => false)

end Ice.Props.ChunkBytes

/-! axiom audit (expected: a subset of propext, Classical.choice, Quot.sound) -/
section Audit
open Ice.Props.ChunkBytes
#print axioms T1_numBytesLocs
#print axioms T2_read
#print axioms T2_skip
#print axioms T3_read
#print axioms T3_read_freq
#print axioms T3_freq_contract
#print axioms T3_skip
#print axioms T4_decodeAll
#print axioms readLocs_fuel_adequate
#print axioms T5_encode
#print axioms T5_new
#print axioms T5_setChunkSize
#print axioms T5_reset
#print axioms T6_roundtrip
#print axioms T6_writeAt
#print axioms T7_chunks
#print axioms T7_sorted
#print axioms T7_postings_roundtrip
end Audit
