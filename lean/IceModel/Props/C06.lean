import IceModel.Lemmas.Stored
/-
  Property C06: `VisitStoredFields(n)` delivers exactly the stored values of document `n`, in
  field-list order and input order within a field, stops when the visitor returns false, delivers
  nothing for `n ≥ Count`; wherever the document sits inside a compressed block and however short
  its record is - and whatever the pooled visit context was used for before.
-/
namespace Ice.Props.C06
open Ice Ice.Model Ice.Model.Stored
open Ice.Model.Writer (be unbe)

/-- Valid input: a positive block size (Go: 128), at most 2^16 fields (field ids are `uint16` in
    the writer) and every field id of the documents among them; the uncompressed records and the
    written section fit Go's `int` (slice lengths are below 2^63). -/
def Valid (cd : Codec) (bs numFields : Nat) (docs : List Doc) : Prop :=
  0 < bs ∧ numFields ≤ 2 ^ 16 ∧ (∀ d ∈ docs, ∀ fv ∈ d, fv.1 < numFields) ∧
  (docs.map record).flatten.length < 2 ^ 63 ∧
  (writeStoredFields cd bs docs).bytes.length < 2 ^ 63

instance (cd : Codec) (bs numFields : Nat) (docs : List Doc) : Decidable (Valid cd bs numFields docs) := by
  unfold Valid; exact inferInstance

theorem flat_fields {nf : Nat} {d : Doc} (h : ∀ fv ∈ d, fv.1 < nf) (hnf : nf ≤ 2 ^ 16) :
    ∀ p ∈ flat d, p.1 < nf ∧ p.1 < 2 ^ 64 := by
  intro p hp
  simp only [flat, List.mem_flatMap, List.mem_map] at hp
  obtain ⟨fv, hfv, v, _, rfl⟩ := hp
  have := h fv hfv
  exact ⟨this, by simp only; omega⟩

/-- **C06 (visit).**  On the segment built from `docs`, for every document number below the
    count, every incoming context buffer (any content, any capacity) and every visitor stop:
    the visit neither panics nor fails and delivers exactly the stored values of the document in
    order, up to and including the one at which the visitor answers `false`. -/
theorem C06_visit (cd : Codec) (bs nf : Nat) (docs : List Doc) (tail : Bytes)
    (hv : Valid cd bs nf docs) (n : Nat) (hn : n < docs.length) (buf : Buf) (stop : Option Nat) :
    ∃ buf', visit cd (segOfNew cd bs nf docs tail) buf n stop =
      .ok (takeStop stop (flat docs[n]), buf') := by
  obtain ⟨hbs, hnf, hfields, hblk, hfile⟩ := hv
  obtain ⟨W, dso, hbytes, hsio, hdl, hloc⟩ := writeStoredFields_located cd bs hbs docs
  have hd : docs[n]? = some docs[n] := List.getElem?_eq_getElem hn
  refine visit_located cd (segOfNew cd bs nf docs tail) buf n stop docs[n] W dso tail
    (docs.map record).flatten.length ?_ hsio hn (hloc n _ hd) hblk ?_ ?_
  · show (writeStoredFields cd bs docs).bytes ++ tail = _
    rw [hbytes, List.append_assoc]
  · rw [hbytes, List.length_append, flatMap_be8_length] at hfile
    exact hfile
  · exact flat_fields (hfields _ (List.getElem_mem hn)) hnf

/-- **C06 (beyond the count).**  Nothing is delivered and the context is left alone. -/
theorem C06_beyond (cd : Codec) (bs nf : Nat) (docs : List Doc) (tail : Bytes)
    (n : Nat) (hn : docs.length ≤ n) (buf : Buf) (stop : Option Nat) :
    visit cd (segOfNew cd bs nf docs tail) buf n stop = .ok ([], buf) := by
  unfold visit visitWith
  rw [if_neg (by show ¬ n < docs.length; omega)]

/-- the context buffer after a sequence of visits `(docNum, stop)` -/
def bufAfter (cd : Codec) (s : Seg) : List (Nat × Option Nat) → Buf → Buf
  | [], b => b
  | (n, st) :: h, b =>
    match visit cd s b n st with
    | .ok (_, b') => bufAfter cd s h b'
    | _ => bufAfter cd s h b

/-- what the visitor saw -/
def delivered (r : Res (List (Nat × Bytes) × Buf)) : Res (List (Nat × Bytes)) := Res.map Prod.fst r

/-- **C06 (history).**  What a visit delivers does not depend on the earlier visits that used the
    same pooled context: it equals the result with a fresh context.  (`C06_visit` holds for *any*
    incoming buffer, so the same is true when the context was last used on another segment.) -/
theorem C06_history (cd : Codec) (bs nf : Nat) (docs : List Doc) (tail : Bytes)
    (hv : Valid cd bs nf docs) (hist : List (Nat × Option Nat)) (n : Nat) (stop : Option Nat) :
    delivered (visit cd (segOfNew cd bs nf docs tail)
        (bufAfter cd (segOfNew cd bs nf docs tail) hist Buf.empty) n stop) =
      delivered (visit cd (segOfNew cd bs nf docs tail) Buf.empty n stop) := by
  by_cases hn : n < docs.length
  · obtain ⟨b1, h1⟩ := C06_visit cd bs nf docs tail hv n hn
      (bufAfter cd (segOfNew cd bs nf docs tail) hist Buf.empty) stop
    obtain ⟨b2, h2⟩ := C06_visit cd bs nf docs tail hv n hn Buf.empty stop
    rw [h1, h2]; rfl
  · rw [C06_beyond cd bs nf docs tail n (by omega), C06_beyond cd bs nf docs tail n (by omega)]
    rfl


/-! ## segments loaded from a file -/

/-- additionally for `load`: the trailer's byte length and the number of chunk offsets fit their
    `uint32` fields, and the stored section is not the very end of the data (the last offset is
    read through a 10-byte window; in a real file the fields section follows) -/
def ValidLoad (cd : Codec) (bs numFields : Nat) (docs : List Doc) (tail : Bytes) : Prop :=
  Valid cd bs numFields docs ∧
  ((writeStoredFields cd bs docs).chunkOffsets.flatMap putUvarint).length < 2 ^ 32 ∧
  (writeStoredFields cd bs docs).chunkOffsets.length < 2 ^ 32 ∧
  0 < docs.length + tail.length

instance (cd : Codec) (bs numFields : Nat) (docs : List Doc) (tail : Bytes) :
    Decidable (ValidLoad cd bs numFields docs tail) := by
  unfold ValidLoad; exact inferInstance

/-- **C06 (trailer).**  `loadStoredFieldChunk` recovers from the written bytes exactly the chunk
    offsets the writer held in memory: a loaded segment is the segment that was built. -/
theorem C06_load (cd : Codec) (bs nf : Nat) (docs : List Doc) (tail : Bytes)
    (hv : ValidLoad cd bs nf docs tail) :
    segOfLoad cd bs nf docs tail = .ok (segOfNew cd bs nf docs tail) := by
  obtain ⟨⟨_, _, _, _, hfile⟩, h1, h2, h3⟩ := hv
  obtain ⟨P, dso, hb, hs, hdl, ho⟩ := writeStoredFields_layout cd bs docs
  have hlen := congrArg List.length hb
  simp only [List.length_append, be_length, flatMap_be8_length] at hlen
  have := loadStoredFieldChunk_ok P (dso.flatMap (be 8) ++ tail)
    (writeStoredFields cd bs docs).chunkOffsets ((writeStoredFields cd bs docs).bytes ++ tail)
    (writeStoredFields cd bs docs).storedIndexOffset
    (by rw [hb]; simp only [List.append_assoc]) hs h1 h2 (by omega)
    (by rw [List.length_append, flatMap_be8_length]; omega)
    (fun o h => by have := ho o h; omega)
  unfold segOfLoad
  simp only [this]
  rfl

/-- **C06 (visit, loaded segment).** -/
theorem C06_visit_loaded (cd : Codec) (bs nf : Nat) (docs : List Doc) (tail : Bytes)
    (hv : ValidLoad cd bs nf docs tail) (n : Nat) (hn : n < docs.length) (buf : Buf)
    (stop : Option Nat) :
    ∃ s buf', segOfLoad cd bs nf docs tail = .ok s ∧
      visit cd s buf n stop = .ok (takeStop stop (flat docs[n]), buf') := by
  obtain ⟨buf', h⟩ := C06_visit cd bs nf docs tail hv.1 n hn buf stop
  exact ⟨_, buf', C06_load cd bs nf docs tail hv, h⟩


/-! ## concrete segments: the hypotheses are satisfiable, and the pre-fix reader panics -/

/-- no compression -/
def idCodec : Codec := ⟨id, some, fun _ => rfl⟩

theorem putUvarint_small (x : Nat) (h : x < 128) : putUvarint x = [x] := by
  unfold putUvarint; simp [h]

/-- three documents in blocks of two; several fields, several values per field, an empty value -/
def exDocs2 : List Doc :=
  [[(0, [[1, 2], [3]]), (2, [[], [4, 5, 6]])], [(1, [[7]])], [(1, [[8, 8]])]]

/-- a non-trivial segment (two blocks) satisfies the hypotheses of the theorems -/
example : ValidLoad idCodec 2 3 exDocs2 [] := by
  refine ⟨⟨by decide, by decide, by decide, ?_, ?_⟩, ?_, ?_, by decide⟩ <;>
  simp [exDocs2, record, writeStoredFields, writeDocs, encodeDoc, encodeStoredFieldValues,
    Coder.add, Coder.flush, Coder.write, putUvarint_small, be, idCodec]

/-- four documents in blocks of two: block 0 is `[0,0, 0,0]` (4 bytes), block 1 is a 13-byte
    record followed by the 2-byte record `[0,0]` of a document without stored fields -/
def exDocs : List Doc := [[], [], [(0, [[1, 2, 3, 4, 5, 6, 7, 8]])], []]

def exSeg : Seg :=
  { bs := 2,
    mem := [0, 0, 0, 0, 3, 8, 0, 0, 8, 1, 2, 3, 4, 5, 6, 7, 8, 0, 0, 0, 4, 19, 19, 0, 0, 0, 4,
            0, 0, 0, 4, 0, 0, 0, 0, 0, 0, 0, 0, 0, 0, 0, 0, 0, 0, 0, 2, 0, 0, 0, 0, 0, 0, 0, 0,
            0, 0, 0, 0, 0, 0, 0, 13],
    numDocs := 4, storedIndexOffset := 31, chunkOffsets := [0, 4, 19, 19], numFields := 1 }

theorem exSeg_eq : segOfNew idCodec 2 1 exDocs [] = exSeg := by
  simp [segOfNew, writeStoredFields, writeDocs, exDocs, encodeDoc, encodeStoredFieldValues,
    Coder.add, Coder.flush, Coder.write, putUvarint_small, be, idCodec, exSeg]

theorem exDocs_valid : Valid idCodec 2 1 exDocs := by
  refine ⟨by decide, by decide, by decide, ?_, ?_⟩ <;>
  simp [exDocs, record, writeStoredFields, writeDocs, encodeDoc, encodeStoredFieldValues,
    Coder.add, Coder.flush, Coder.write, putUvarint_small, be, idCodec]

/-- the context after visiting document 0 with a fresh context: block 0 has 4 bytes, so the
    decoder allocated capacity 4 + 16 -/
def exBuf : Buf := ⟨List.replicate 20 0, 4⟩

/-- **C06 (pre-fix counterexample, one segment, block size 2).**  On a valid segment, the reader
    with the unclamped 10-byte look-ahead visits document 0 fine (leaving a context of capacity
    20), and then panics on document 3: block 1 (15 bytes) fits the kept buffer, the record of
    document 3 starts at 13 and `buf[13:23]` exceeds the capacity.  The reader as it stands
    delivers the (empty) document; so does the old reader with a fresh context. -/
theorem C06_v0_counterexample :
    segOfNew idCodec 2 1 exDocs [] = exSeg ∧ Valid idCodec 2 1 exDocs ∧
    visit_v0 idCodec exSeg Buf.empty 0 none = .ok ([], exBuf) ∧
    visit_v0 idCodec exSeg exBuf 3 none = .panic ∧
    visit_v0 idCodec exSeg Buf.empty 3 none =
      .ok ([], ⟨[3, 8, 0, 0, 8, 1, 2, 3, 4, 5, 6, 7, 8, 0, 0] ++ List.replicate 16 0, 15⟩) ∧
    visit idCodec exSeg exBuf 3 none =
      .ok ([], ⟨[3, 8, 0, 0, 8, 1, 2, 3, 4, 5, 6, 7, 8, 0, 0] ++ List.replicate 5 0, 15⟩) :=
  ⟨exSeg_eq, exDocs_valid, by decide, by decide, by decide, by decide⟩

/-- the same with Go's block size 128 and two segments sharing the pooled context: segment A is
    one document without stored fields (block `[0,0]`, the context gets capacity 18); segment B
    is a 9-byte record followed by `[0,0]` (block of 11 bytes, last record at 9, `buf[9:19]`) -/
def exSegA : Seg :=
  { bs := 128, mem := [0, 0, 0, 2, 0, 0, 0, 2, 0, 0, 0, 2, 0, 0, 0, 0, 0, 0, 0, 0],
    numDocs := 1, storedIndexOffset := 12, chunkOffsets := [0, 2], numFields := 1 }

def exSegB : Seg :=
  { bs := 128,
    mem := [3, 4, 0, 0, 4, 1, 2, 3, 4, 0, 0, 0, 11, 0, 0, 0, 2, 0, 0, 0, 2, 0, 0, 0, 0, 0, 0, 0, 0,
            0, 0, 0, 0, 0, 0, 0, 9],
    numDocs := 2, storedIndexOffset := 21, chunkOffsets := [0, 11], numFields := 1 }

theorem C06_v0_counterexample_128 :
    segOfNew idCodec 128 1 [[]] [] = exSegA ∧
    segOfNew idCodec 128 1 [[(0, [[1, 2, 3, 4]])], []] [] = exSegB ∧
    Valid idCodec 128 1 [[]] ∧ Valid idCodec 128 1 [[(0, [[1, 2, 3, 4]])], []] ∧
    visit_v0 idCodec exSegA Buf.empty 0 none = .ok ([], ⟨List.replicate 18 0, 2⟩) ∧
    visit_v0 idCodec exSegB ⟨List.replicate 18 0, 2⟩ 1 none = .panic ∧
    visit idCodec exSegB ⟨List.replicate 18 0, 2⟩ 1 none =
      .ok ([], ⟨[3, 4, 0, 0, 4, 1, 2, 3, 4, 0, 0] ++ List.replicate 7 0, 11⟩) := by
  refine ⟨?_, ?_, ⟨by decide, by decide, by decide, ?_, ?_⟩,
    ⟨by decide, by decide, by decide, ?_, ?_⟩, by decide, by decide, by decide⟩ <;>
  simp [segOfNew, record, writeStoredFields, writeDocs, encodeDoc, encodeStoredFieldValues,
    Coder.add, Coder.flush, Coder.write, putUvarint_small, be, idCodec, exSegA, exSegB]

end Ice.Props.C06
