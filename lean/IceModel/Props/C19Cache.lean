import IceModel.Lemmas.CacheFaultIterRun
import IceModel.Lemmas.CacheFaultDvMore
import IceModel.Lemmas.CacheFaultDvFix
/-
  Property C19, reader-side caches (model: `Model/CacheFault.lean`; event orders pinned by
  `Bridge/Events.lean`).  "If the underlying storage returns an error during any read API call, that
  call reports an error or an empty result, and the segment stays usable": here, for every reader
  object with a cache filled from storage, every later call on the SAME object returns the healthy
  answer, an error (or, for doc values, nothing) - never a panic, never another entry's data.
-/
namespace Ice.Props.C19Cache
open Ice.Model.CacheFault

/-! ## (b) PostingsIterator -/

/-- **C19, postings iterator.**  Storage starts failing at read `f` (any `f`, also in the middle of
    a call, between the two sub-loads of a chunk); iterator new or reused (`currChunk = 0`), any
    flags, any script whose chunk numbers never decrease: every outcome is the outcome of the same
    call on a healthy storage, or an error. -/
theorem C19_iterator (st : IStore) (f clk : Nat) (it : PIter) (as : List IAcc)
    (h0 : it.currChunk = 0) (hE : it.freq.encoded = true) (hmono : Monotone as) :
    Pointwise SameOrError (PIter.run ifixed st (failFrom f) clk it as)
      (PIter.run ifixed st healthy clk it as) := by
  by_cases hF : it.incFreq = true
  · exact PIter.run_failFrom st f as hmono clk it hF hE (fun a _ => by omega)
  · have hF' : it.incFreq = false := by simpa using hF
    rw [PIter.run_noFreq _ _ _ _ _ _ hF', PIter.run_noFreq _ _ _ _ _ _ hF']
    generalize as.map (fun _ => (Outcome.ok none : Outcome IAns)) = l
    induction l with
    | nil => exact .nil
    | cons x l ih => exact .cons (Or.inl rfl) ih

/-- no panic and no wrong answer, spelled out by position -/
theorem C19_iterator_pointwise (st : IStore) (f clk : Nat) (it : PIter) (as : List IAcc)
    (h0 : it.currChunk = 0) (hE : it.freq.encoded = true) (hmono : Monotone as)
    (i : Nat) (hi : i < as.length) :
    (PIter.run ifixed st (failFrom f) clk it as)[i]'(by rw [PIter.run_length]; exact hi) =
      (PIter.run ifixed st healthy clk it as)[i]'(by rw [PIter.run_length]; exact hi) ∨
    (PIter.run ifixed st (failFrom f) clk it as)[i]'(by rw [PIter.run_length]; exact hi) = .error :=
  (C19_iterator st f clk it as h0 hE hmono).get i _ _

/-- if the healthy run does not panic, the faulty run does not panic -/
theorem C19_iterator_no_panic (st : IStore) (f clk : Nat) (it : PIter) (as : List IAcc)
    (h0 : it.currChunk = 0) (hE : it.freq.encoded = true) (hmono : Monotone as)
    (hh : ∀ x ∈ PIter.run ifixed st healthy clk it as, x ≠ .panic) :
    ∀ x ∈ PIter.run ifixed st (failFrom f) clk it as, x ≠ .panic := by
  intro x hx
  obtain ⟨i, hi, rfl⟩ := List.getElem_of_mem hx
  have hi' : i < as.length := by rwa [PIter.run_length] at hi
  rcases C19_iterator_pointwise st f clk it as h0 hE hmono i hi' with h | h
  · rw [h]; exact hh _ (List.getElem_mem _)
  · rw [h]; simp

/-- **Key invariant, ANY oracle (transient faults included), any script**: after every call,
    "guard false ⇒ the freq/norm reader and (if wanted) the location reader hold chunk `currChunk`".
    In particular a false guard never meets a nil reader. -/
theorem C19_iterator_invariant (st : IStore) (o : Oracle) (clk : Nat) (it : PIter) (as : List IAcc)
    (hfresh : it.Fresh) :
    PIter.CacheInv st (PIter.exec ifixed st o clk it as).1 :=
  PIter.exec_inv st o as clk it hfresh.2.2 (PIter.Fresh.cacheInv st hfresh)

/-! ### concrete storage: three chunks of three postings; ids make staleness visible -/

def fs3 : Store FItem := fun n =>
  if n < 3 then some [⟨100 * n, true⟩, ⟨100 * n + 1, false⟩, ⟨100 * n + 2, true⟩] else none
def ls3 : Store Nat := fun n => if n < 3 then some [1000 * n, 1000 * n + 2] else none
def st3 : IStore := ⟨fs3, ls3⟩

/-- first posting, second posting, then an Advance that leaves chunk 0 from its middle and skips
    the first posting of chunk 1, then Next, then an Advance to the last posting of chunk 2 -/
def script3 : List IAcc := [⟨0, 0⟩, ⟨0, 0⟩, ⟨1, 1⟩, ⟨1, 0⟩, ⟨2, 2⟩]

theorem script3_monotone : Monotone script3 := by unfold Monotone script3; decide

/-- non-vacuity: the healthy answers, the faulty ones for a failure in the middle of the load of
    chunk 1 (freq/norm part read, location part fails), and the run continues with errors -/
theorem C19_iterator_example_healthy :
    PIter.run ifixed st3 healthy 0 (PIter.new true true) script3 =
      [.ok (some (0, some 0)), .ok (some (1, none)), .ok (some (101, none)),
       .ok (some (102, some 1002)), .ok (some (202, some 2002))] := by decide

theorem C19_iterator_example_faulty :
    PIter.run ifixed st3 (failFrom 3) 0 (PIter.new true true) script3 =
      [.ok (some (0, some 0)), .ok (some (1, none)), .error, .error, .error] := by decide

example : Pointwise SameOrError (PIter.run ifixed st3 (failFrom 3) 0 (PIter.new true true) script3)
    (PIter.run ifixed st3 healthy 0 (PIter.new true true) script3) :=
  C19_iterator st3 3 0 _ script3 rfl rfl script3_monotone

/-- **transient faults: FALSE.**  Schedule: only read 2 (the freq/norm read of chunk 1) fails.  The
    failed call has already consumed its posting from the bitmap; the next call loads chunk 1 and
    delivers the FIRST entry of the chunk (100, locations 1000) for the third posting (healthy:
    102, locations 1002): a wrong answer without an error.  Outside C19's quantifier (storage that
    recovers), but a caller that retries after an error gets another posting's data. -/
theorem C19_iterator_transient_counterexample :
    ¬ Pointwise SameOrError (PIter.run ifixed st3 (fun k => k == 2) 0 (PIter.new true true) script3)
        (PIter.run ifixed st3 healthy 0 (PIter.new true true) script3) := by
  intro h
  have := h.get 3 (by decide) (by decide)
  revert this
  decide

/-- incident (i), code before 0ab4d30: location part of chunk 0 fails on a NEW iterator
    (`currChunk = 0`), the freq/norm part stays: the next call passes the guard and reads
    locations from a nil reader -/
theorem C19_iterator_v0_counterexample :
    PIter.run iv0 st3 (failFrom 1) 0 (PIter.new true true) [⟨0, 0⟩, ⟨0, 0⟩] = [.error, .panic] := by decide

/-- the same calls on the repaired code -/
theorem C19_iterator_v0_repaired :
    PIter.run ifixed st3 (failFrom 1) 0 (PIter.new true true) [⟨0, 0⟩, ⟨0, 0⟩] = [.error, .error] := by decide

/-- incident (ii), `currChunk` assigned first: the load of chunk 1 fails, the key already says 1;
    the next call passes the guard and decodes chunk 0's third entry (2 / 2) where the healthy
    answer is chunk 1's (102 / 1002): wrong data, no error -/
theorem C19_iterator_keyfirst_counterexample :
    PIter.run ikeyFirst st3 (failFrom 2) 0 (PIter.new true true) script3 =
      [.ok (some (0, some 0)), .ok (some (1, none)), .error, .ok (some (2, some 2)), .error] := by decide

/-- the invariant is what the two variants break -/
theorem C19_iterator_v0_breaks_invariant :
    ¬ PIter.CacheInv st3 (PIter.exec iv0 st3 (failFrom 1) 0 (PIter.new true true) [⟨0, 0⟩]).1 := by
  intro h
  have h2 := (h (by decide)).2 (by decide)
  revert h2
  simp [PIter.DHolds, PIter.exec, PIter.access, PIter.skips, PIter.ensure, PIter.guard, PIter.new,
    PIter.loadChunk, Dec.loadChunk, Dec.isNil, iv0, st3, fs3, ls3, failFrom]

/-! ## (c) docValueReader -/

/-- chunks of 4 documents; chunk 0 = docs 0,1,2 (end offsets 2,4,6), chunk 1 = docs 4,5,6,7 (end
    offsets 3,5,9,10, data 100..109), chunk 2 = docs 8,10, chunk 3 and later empty -/
def dv3 : DvStore := fun n =>
  if n = 0 then some ⟨[⟨0, 2⟩, ⟨1, 4⟩, ⟨2, 6⟩], [0, 1, 2, 3, 4, 5]⟩
  else if n = 1 then some ⟨[⟨4, 3⟩, ⟨5, 5⟩, ⟨6, 9⟩, ⟨7, 10⟩], [100, 101, 102, 103, 104, 105, 106, 107, 108, 109]⟩
  else if n = 2 then some ⟨[⟨8, 1⟩, ⟨10, 2⟩], [200, 201]⟩
  else none

def chunkOf4 (d : Nat) : Nat := d / 4

theorem dv3_wf : DvWF chunkOf4 dv3 := by
  refine ⟨fun d d' h => Nat.div_le_div_right h, ?_, ?_⟩
  · intro n c h
    unfold dv3 at h
    split at h
    · cases h; subst_vars; decide
    · split at h
      · cases h; subst_vars; decide
      · split at h
        · cases h; subst_vars; decide
        · cases h
  · intro n c h
    unfold dv3 at h
    split at h
    · cases h; decide
    · split at h
      · cases h; decide
      · split at h
        · cases h; decide
        · cases h

/-! ### the code as it is (repair F-C19-dvheader: key invalidated before the first read) -/

/-- **C19, doc values, full strength.**  Storage of one field with chunks holding disjoint
    ascending doc-number ranges (`DvWF`); new reader; visits in ANY order; ANY oracle (`failFrom`,
    transient faults, anything): every outcome is EXACTLY what the specification says for the
    document (its values; nothing when it has none) or an error - never a panic, never values of
    another document, never a spurious "nothing". -/
theorem C19_docvalues (chunkOf : Nat → Nat) (st : DvStore) (wf : DvWF chunkOf st) (o : Oracle)
    (clk : Nat) (ds : List Nat) (hd : ∀ d ∈ ds, chunkOf d ≠ noChunk) :
    Pointwise (DvExact chunkOf st) (DvReader.run dfixed chunkOf st o clk {} ds) ds :=
  run_fixed chunkOf st wf o ds clk {} (Or.inl rfl) hd

/-- one visit, from any reader that holds nothing or exactly the chunk its key names: the values,
    or an error together with a read that failed DURING THIS CALL; the reader keeps that property -/
theorem C19_docvalues_visit (chunkOf : Nat → Nat) (st : DvStore) (wf : DvWF chunkOf st) (o : Oracle)
    (clk : Nat) (r : DvReader) (d : Nat) (h : Holds st r) (hd : chunkOf d ≠ noChunk) :
    ((r.visit dfixed chunkOf st o clk d).2.2 = specValues chunkOf st d ∨
      ((r.visit dfixed chunkOf st o clk d).2.2 = .error ∧
        ∃ k, clk ≤ k ∧ k < (r.visit dfixed chunkOf st o clk d).2.1 ∧ o k = true)) ∧
    Holds st (r.visit dfixed chunkOf st o clk d).1 :=
  visit_fixed chunkOf st wf o clk r d h hd

/-- the cache is transparent: on a healthy storage every visit (any order) returns exactly the
    document's values -/
theorem C19_docvalues_healthy (chunkOf : Nat → Nat) (st : DvStore) (wf : DvWF chunkOf st) (clk : Nat)
    (ds : List Nat) (hd : ∀ d ∈ ds, chunkOf d ≠ noChunk) :
    DvReader.run dfixed chunkOf st healthy clk {} ds = ds.map (specValues chunkOf st) :=
  run_fixed_healthy chunkOf st wf ds clk {} (Or.inl rfl) hd

/-- non-vacuity, and the schedules of the pre-repair counterexamples on the current code: a load
    of chunk 0 cut short while chunk 1 is cached (downward), then chunk 1 again - error, not
    another document's values; a transient fault in the middle of the header of chunk 1, then
    documents of chunk 0 - the chunk is loaded again, the values are right -/
theorem C19_docvalues_example :
    DvReader.run dfixed chunkOf4 dv3 (failFrom 13) 0 {} [5, 1, 5] = [.ok [103, 104], .error, .error] ∧
    DvReader.run dfixed chunkOf4 dv3 (failFrom 11) 0 {} [1, 5, 2, 1, 6, 13] =
      [.ok [2, 3], .error, .error, .error, .error, .ok []] ∧
    DvReader.run dfixed chunkOf4 dv3 (fun k => k == 11) 0 {} [1, 5, 2, 1, 6] =
      [.ok [2, 3], .error, .ok [4, 5], .ok [2, 3], .ok [105, 106, 107, 108]] ∧
    [1, 5, 2, 1, 6, 13].map (specValues chunkOf4 dv3) =
      [.ok [2, 3], .ok [103, 104], .ok [4, 5], .ok [2, 3], .ok [105, 106, 107, 108], .ok []] := by decide

example : Pointwise (DvExact chunkOf4 dv3)
    (DvReader.run dfixed chunkOf4 dv3 (fun k => k == 11) 0 {} [1, 5, 2, 1, 6]) [1, 5, 2, 1, 6] :=
  C19_docvalues chunkOf4 dv3 dv3_wf _ 0 _ (by decide)

/-- incident (iii), `curChunkNum` assigned before the read of the data (seeded on the current
    code): that read fails (read 17), the key says chunk 1, the header is chunk 1's, data and
    decompressed copy are chunk 0's: the next visits are cache hits that slice chunk 0's data with
    chunk 1's offsets - stale values ([3,4] for document 5, healthy [103,104]) and a slice beyond
    the data (panic) -/
theorem C19_docvalues_keyfirst_counterexample :
    DvReader.run dkeyFirst chunkOf4 dv3 (failFrom 17) 0 {} [1, 5, 5, 6] =
      [.ok [2, 3], .error, .ok [3, 4], .panic] := by decide

/-- the same seeded change on the pre-repair loader (where it was evaluated) -/
theorem C19_docvalues_keyfirst_v0_counterexample :
    DvReader.run dkeyFirstV0 chunkOf4 dv3 (failFrom 17) 0 {} [1, 5, 5, 6] =
      [.ok [2, 3], .error, .ok [3, 4], .panic] := by decide

/-- the same calls on the code as it is -/
theorem C19_docvalues_keyfirst_fixed :
    DvReader.run dfixed chunkOf4 dv3 (failFrom 17) 0 {} [1, 5, 5, 6] =
      [.ok [2, 3], .error, .error, .error] := by decide

/-! ### the loader before repair F-C19-dvheader (`dV0`): the defect and what did hold -/

/-- **defect F-C19-dvheader: for the pre-repair loader the statement is FALSE, also under
    `failFrom`.**  Visits may come in any order, and a load that fails half-way while moving
    DOWNWARDS leaves the entries of the earlier chunk in FRONT of the surviving entries of the
    cached chunk, with `curChunkNum` still naming the cached chunk.  The binary search for a document
    of the cached chunk then lands on a surviving entry whose predecessor is an entry of the
    other chunk, and the start offset is taken from that one.

    Visit doc 5 (chunk 1 loaded with reads 0..9: healthy answer [103,104]); visit doc 1: the load
    of chunk 0 reads numDocs (read 10) and entry 0 (reads 11,12), then read 13 fails;
    `curChunkNum` is still 1, the header is [⟨0,2⟩, ⟨5,5⟩, ⟨6,9⟩].  Visit doc 5 again: cache hit, no
    storage read, found at index 1, start = 2 (chunk 0's offset) instead of 3: the answer
    [102,103,104] contains a value of document 4 - no error, not empty, not healthy.
    Reproduced on the Go code (gocheck/). -/
theorem C19_docvalues_v0_counterexample :
    DvReader.run dV0 chunkOf4 dv3 (failFrom 13) 0 {} [5, 1, 5] =
      [.ok [103, 104], .error, .ok [102, 103, 104]] ∧
    specValues chunkOf4 dv3 5 = .ok [103, 104] := by decide

/-- the same schedule with offsets that cross: slice bounds out of range = panic -/
def dv3p : DvStore := fun n =>
  if n = 0 then some ⟨[⟨0, 7⟩, ⟨1, 8⟩, ⟨2, 9⟩], [0, 1, 2, 3, 4, 5, 6, 7, 8]⟩ else dv3 n

theorem C19_docvalues_v0_counterexample_panic :
    DvReader.run dV0 chunkOf4 dv3p (failFrom 13) 0 {} [5, 1, 5] = [.ok [103, 104], .error, .panic] := by decide

/-- **pre-repair loader, upward faults.**  Under `failFrom`, visits in ANY order: IF the load that is
    cut short by the failure (there is at most one) moves to a later chunk than the cached one,
    or nothing is cached (`UpwardFaults`), THEN every visit returns the document's values, an
    error, or nothing - never a panic, never values of another document. -/
theorem C19_docvalues_v0_partial (chunkOf : Nat → Nat) (st : DvStore) (wf : DvWF chunkOf st) (f clk : Nat)
    (r : DvReader) (ds : List Nat) (hr : Clean st r) (hd : ∀ d ∈ ds, chunkOf d ≠ noChunk)
    (hup : UpwardFaults dV0 chunkOf st (failFrom f) clk r ds) :
    Pointwise (DvAllowed chunkOf st) (DvReader.run dV0 chunkOf st (failFrom f) clk r ds) ds :=
  run_clean chunkOf st wf f ds clk r hr hd hup

/-- pre-repair loader, ascending visits (the order in which a collector walks a segment): no
    further hypothesis -/
theorem C19_docvalues_v0_ascending (chunkOf : Nat → Nat) (st : DvStore) (wf : DvWF chunkOf st) (f clk : Nat)
    (ds : List Nat) (hd : ∀ d ∈ ds, chunkOf d ≠ noChunk) (hasc : Ascending chunkOf ds) :
    Pointwise (DvAllowed chunkOf st) (DvReader.run dV0 chunkOf st (failFrom f) clk {} ds) ds :=
  run_clean chunkOf st wf f ds clk {} (fresh_clean st) hd
    (upward_of_ascending chunkOf st (failFrom f) ds clk {} (Or.inl rfl) hasc)

/-- pre-repair loader on a healthy storage: exactly the document's values -/
theorem C19_docvalues_v0_healthy (chunkOf : Nat → Nat) (st : DvStore) (wf : DvWF chunkOf st) (clk : Nat)
    (ds : List Nat) (hd : ∀ d ∈ ds, chunkOf d ≠ noChunk) :
    DvReader.run dV0 chunkOf st healthy clk {} ds = ds.map (specValues chunkOf st) :=
  run_healthy chunkOf st wf ds clk {} (fresh_clean st) hd

/-- pre-repair loader: as long as no load has been cut short, a visit (any oracle) returns EXACTLY
    the values or an error caused by a read failing in that very call -/
theorem C19_docvalues_v0_clean_exact (chunkOf : Nat → Nat) (st : DvStore) (wf : DvWF chunkOf st) (o : Oracle)
    (clk : Nat) (r : DvReader) (d : Nat) (hcl : Clean st r) (hd : chunkOf d ≠ noChunk) :
    (r.visit dV0 chunkOf st o clk d).2.2 = specValues chunkOf st d ∨
    ((r.visit dV0 chunkOf st o clk d).2.2 = .error ∧
      ∃ k, clk ≤ k ∧ k < (r.visit dV0 chunkOf st o clk d).2.1 ∧ o k = true) :=
  visit_clean_exact chunkOf st wf o clk r d hcl hd

/-- pre-repair loader, non-vacuity: an upward fault in the middle of the header of chunk 1 (read 11);
    the run continues on the damaged reader: documents 2 and 1 of the still-cached chunk 0 now
    answer "nothing" (they have values), chunk 3 is empty -/
theorem C19_docvalues_v0_example :
    DvReader.run dV0 chunkOf4 dv3 (failFrom 11) 0 {} [1, 5, 2, 1, 6, 13] =
      [.ok [2, 3], .error, .ok [], .ok [], .error, .ok []] := by decide

theorem C19_docvalues_v0_example_upward :
    UpwardFaults dV0 chunkOf4 dv3 (failFrom 11) 0 {} [1, 5, 2, 1, 6, 13] := by
  simp only [UpwardFaults, and_true]
  refine ⟨?_, ?_, ?_, ?_, ?_, ?_⟩ <;> (unfold partialFail; decide)

example : Pointwise (DvAllowed chunkOf4 dv3)
    (DvReader.run dV0 chunkOf4 dv3 (failFrom 11) 0 {} [1, 5, 2, 1, 6, 13]) [1, 5, 2, 1, 6, 13] :=
  C19_docvalues_v0_partial chunkOf4 dv3 dv3_wf 11 0 {} _ (fresh_clean dv3) (by decide) C19_docvalues_v0_example_upward

/-- pre-repair loader, transient faults: only read 11 fails.  Storage is healthy again, but
    documents 2 and 1 - visited WITHOUT any failing read (cache hits) - answer "nothing" although
    they have values.  With the repair this cannot happen (`C19_docvalues` holds for every oracle;
    third run of `C19_docvalues_example`). -/
theorem C19_docvalues_v0_transient_counterexample :
    DvReader.run dV0 chunkOf4 dv3 (fun k => k == 11) 0 {} [1, 5, 2, 1, 6] =
      [.ok [2, 3], .error, .ok [], .ok [], .ok [105, 106, 107, 108]] ∧
    specValues chunkOf4 dv3 2 = .ok [4, 5] ∧ specValues chunkOf4 dv3 1 = .ok [2, 3] := by decide

/-! ## (a) chunkedIntDecoder -/

/-- **C19, decoder: loads are atomic.**  Any oracle, any access: the step is the healthy step
    (same state, same counter, same outcome), or it is a load whose read failed - an error that
    leaves the decoder exactly as it was. -/
theorem C19_decoder {α : Type} (st : Store α) (o : Oracle) (clk : Nat) (d : Dec α) (a : DAcc) :
    d.step st o clk a = d.step st healthy clk a ∨
    ((d.step st o clk a).2.2 = .error ∧ (d.step st o clk a).1 = d ∧ o clk = true ∧ ∃ n, a = .load n) := by
  cases a with
  | read => left; rfl
  | isNil => left; rfl
  | load n =>
    cases ho : o clk
    · left
      simp only [Dec.step]
      rw [Dec.loadChunk_of_read_ok st o clk d n ho]
    · by_cases he : d.encoded = true
      · obtain ⟨clk', _, hL⟩ := Dec.loadChunk_of_read_fails st o clk d n he ho
        right
        simp only [Dec.step, hL]
        exact ⟨by trivial, by trivial, by trivial, n, rfl⟩
      · left
        have he' : d.encoded = false := by simpa using he
        simp only [Dec.step]
        rw [Dec.loadChunk_not_encoded st o clk d n he', Dec.loadChunk_not_encoded st healthy clk d n he']

/-- no storage fault makes the decoder panic or deliver another item: a panic or an item is the
    healthy step's -/
theorem C19_decoder_no_new_panic {α : Type} (st : Store α) (o : Oracle) (clk : Nat) (d : Dec α) (a : DAcc)
    (h : (d.step st o clk a).2.2 ≠ .error) :
    (d.step st o clk a).2.2 = (d.step st healthy clk a).2.2 := by
  rcases C19_decoder st o clk d a with h1 | ⟨h1, _⟩
  · rw [h1]
  · exact absurd h1 h

end Ice.Props.C19Cache
