import IceModel.Lemmas.ErrFlowSyntax
import IceModel.Lemmas.ErrFlowSem
import IceModel.Lemmas.ErrFlowRun
import IceModel.Lemmas.ErrFlowArea
/-
  Error flow (C12, C19): what "every fallible call is immediately checked" MEANS.

  GENERIC PART: nothing here depends on the generated facts (no import of `IceModel.Gen`).  The facts
  about the functions of the package are in `Props/ErrFlowWrite.lean` (C12), `Props/ErrFlowRead.lean`
  (C19), `Props/ErrFlowPersist.lean` (C11) and, whole-package, `Props/ErrFlowAll.lean`.

  `Bridge.ErrFlow.unchecked` is a syntactic test on the flat event lists `Gen.ErrFlow.flows` that the
  translator (`/verif/facts/errflow.go`) extracts from every function whose last result is an `error`.
  Here the flat lists are parsed into structured programs (`Stmt`, `parse`), given a nondeterministic
  semantics (`Exec`, `Run`; oracle-driven interpreter `run`), and the syntactic discipline is shown to
  imply:   if a call made by the function fails, nothing else is attempted (except building the wrapped
  error) and the function returns a non-nil error;  a nil result means that no call failed
  (`checked_sound`, `success_means_no_failure`, `checked_sound_modulo_dropped`).

  MODELLING ASSUMPTIONS (everything the theorems take on trust about the Go source)
  A1 one error variable.  Every `F` binds THE error variable, the next `{:err` tests that variable and
     an `R err` returns it.  The translator marks `{:err` for `if x != nil {` with `x` of static type
     `error` (any expression, e.g. a field `i.err`) and emits `R:err` for every return whose last
     result is not the literal `nil`; neither is tied to the variable of the preceding `F`.  A function
     that binds `err2` and tests `err` is outside the model.
  A2 the error variable is nil on entry (`Run` starts `Exec` with `false`).  Not true of an "error
     variable" that lives in a struct across calls (`DictionaryIterator.Next`, an exception anyway).
  A3 `R err` executed while the error variable is non-nil returns a non-nil error (`Exec.retErr`).
     While it is nil, `R err` may return anything (`Exec.retOther`: `return ErrClosed`, `return n, err`).
  A4 a call "fails" iff its error result is non-nil; sentinels (`io.EOF`, `vellum.ErrIteratorDone`)
     are failures in this sense.  `fmt.Errorf` never returns nil (`alwaysFails`); it is the only callee
     bound by an `F` inside a check in this package (`write_wrappers`, `read_wrappers`, `persist_wrappers`,
     `flows_wrappers`).
  A5 conditions and loop counts are unknown: an unguarded block (`if`, `else`, `for`, `range`,
     `switch`, `case`, `select`) runs 0..n times whatever the state; only `{:err` is deterministic.
     A jump (break / continue / goto) may leave any number of enclosing blocks, start the next round of
     an enclosing unguarded block, or land on any LATER statement of an enclosing list (no backward
     goto other than re-running an enclosing block).  Only finite executions; panics are not modelled.
  A6 what the translator does not descend into is not covered: bodies of function literals (closures,
     e.g. the `metaEncode` closure of `mergeStoredAndRemap`, visitor callbacks) belong to no flow; a
     call with an error result nested inside an expression, a `defer` and a `go` statement are `D`
     (a deferred call is listed where it is written, not where it runs - immaterial, `exec_forget`).
  A7 only the LAST result (the error) of a function is modelled.
-/
namespace Ice.Props.ErrFlow
open Ice Ice.Bridge.ErrFlow Ice.ErrFlow

/-! ## 1. structured programs and the parser -/

/-- the parser inverts the translator's flattening, and is complete -/
theorem parse_roundtrip (l : List Ev) (p : Prog) : parse l = some p ↔ flat p = l :=
  ⟨parse_flat, fun h => h ▸ parse_flat_eq p⟩

/-- programs are determined by their flat form, hence can be compared by `decide` -/
instance : DecidableEq Prog := fun p q =>
  decidable_of_iff (flat p = flat q) ⟨flat_injective, congrArg flat⟩

/-- a program the size of `Segment.WriteTo` (write.go): data, footer, flush, each checked, two of them
    wrapped; used below to show that hypotheses are satisfiable (`ErrFlowPersist.progOf_Segment_WriteTo`
    shows it IS that function's program) -/
def writeToShape : Prog :=
  [.call "WriteTo", .block true [.call "Errorf", .ret true],
   .call "persistFooter", .block true [.call "Errorf", .ret true],
   .call "Flush", .block true [.ret true],
   .ret false]

/-! ## 2. the discipline, flat and structured -/

/-- the bridge's flat checker is the structured checker `uncheckedS` (a call must be followed, in its
    own statement list, by `ret true`, `block true [ret true]` or `block true [call w, ret true]`) -/
theorem unchecked_structured (p : Prog) : unchecked (flat p) = uncheckedS p := unchecked_flat p

theorem unchecked_of_parse {l : List Ev} {p : Prog} (h : parse l = some p) :
    unchecked l = uncheckedS p := unchecked_parse h

/-- `Disc` = flat checker silent + every wrapping check wraps with an error constructor -/
theorem disc_iff (p : Prog) :
    Disc p ↔ unchecked (flat p) = [] ∧ ∀ w ∈ wrappers p, alwaysFails w = true := by
  rw [unchecked_flat]; rfl

/-! ## 3. soundness of the discipline -/

/-- what C12/C19 need of a function: a failing call is the last thing it does (but for wrapping the
    error) and makes it return a non-nil error -/
def Sound (p : Prog) : Prop :=
  ∀ tr r, Run p tr r → AnyFailed tr → r = .returned true ∧ FailFast tr

/-- MAIN THEOREM.  If the flat checker reports nothing for `p` (and wrapping checks wrap with an error
    constructor - see `checked_sound_counterexample` for why this is needed), then in every execution
    in which some bound call fails, the function returns a non-nil error, and the failing call is the
    last call executed - except for the `fmt.Errorf` that wraps its error. -/
theorem checked_sound {p : Prog} (hchk : unchecked (flat p) = [])
    (hwrap : ∀ w ∈ wrappers p, alwaysFails w = true) : Sound p := by
  intro tr r ⟨o, hex, hr⟩ hfail
  have hd : Disc p := (disc_iff p).2 ⟨hchk, hwrap⟩
  rcases exec_disc hex rfl hd with ⟨h1, _⟩ | ⟨h1, h2⟩
  · exact absurd hfail ((noFail_iff_not_anyFailed tr).1 h1)
  · subst h2; exact ⟨hr.symm, h1⟩

/-- `checked_sound` with its two side conditions packed into the decidable `Disc` -/
theorem sound_of_disc {p : Prog} (hd : Disc p) : Sound p :=
  checked_sound ((disc_iff p).1 hd).1 ((disc_iff p).1 hd).2

/-- the same for a flat event list that parses -/
theorem checked_sound_flat {l : List Ev} {p : Prog} (hp : parse l = some p) (hchk : unchecked l = [])
    (hwrap : ∀ w ∈ wrappers p, alwaysFails w = true) : Sound p :=
  checked_sound (by rw [parse_flat hp]; exact hchk) hwrap

/-- a function that reports success (nil error) - or falls off its end - saw no failing call -/
theorem success_means_no_failure {p : Prog} (hchk : unchecked (flat p) = [])
    (hwrap : ∀ w ∈ wrappers p, alwaysFails w = true) {tr : List Step} {r : Result}
    (hrun : Run p tr r) (hr : r ≠ .returned true) : NoFail tr := by
  rw [noFail_iff_not_anyFailed]
  intro hf
  exact hr (checked_sound hchk hwrap tr r hrun hf).1

theorem returned_nil_means_no_failure {p : Prog} (hchk : unchecked (flat p) = [])
    (hwrap : ∀ w ∈ wrappers p, alwaysFails w = true) {tr : List Step}
    (hrun : Run p tr (.returned false)) : NoFail tr :=
  success_means_no_failure hchk hwrap hrun (by simp)

/-- without a wrapper the failing call is literally the last call (programs without `{:err F R err}`) -/
theorem checked_sound_nowrap {p : Prog} (hchk : unchecked (flat p) = []) (hw : wrappers p = [])
    {tr : List Step} {r : Result} (hrun : Run p tr r) (hfail : AnyFailed tr) :
    r = .returned true ∧ ∃ pre c, tr = pre ++ [⟨false, c, true⟩] ∧ NoFail pre := by
  obtain ⟨o, hex, hr⟩ := hrun
  rw [unchecked_flat] at hchk
  rcases exec_disc_nowrap hex rfl hchk hw with ⟨h1, _⟩ | ⟨h1, h2⟩
  · exact absurd hfail ((noFail_iff_not_anyFailed tr).1 h1)
  · subst h2; exact ⟨hr.symm, h1.nowrap⟩

/-- THE HYPOTHESIS ON WRAPPERS IS NEEDED: `F f {:err F cleanup R err }` passes the flat checker, but if
    `cleanup` succeeds it overwrites the error and `R err` returns nil.  (In Go:
    `if err != nil { err = cleanup(); return err }`.)  The flat checker alone is sound only because
    the wrapped call is always `fmt.Errorf` (`flows_wrappers`). -/
theorem checked_sound_counterexample :
    let p : Prog := [.call "f", .block true [.call "cleanup", .ret true]]
    unchecked (flat p) = [] ∧
    Run p [⟨false, "f", true⟩, ⟨false, "cleanup", false⟩] (.returned false) := by
  refine ⟨by decide +kernel, ?_⟩
  exact run_Run (fuel := 10) (orc := [1, 0, 0]) (orc' := []) (o := .ret false) (by decide +kernel)

/-- failures that can go unnoticed are exactly those of discarded results (`D`): in a disciplined
    program, an execution that does not return a non-nil error has only failures of discarded calls … -/
theorem checked_sound_modulo_dropped {p : Prog} (hchk : unchecked (flat p) = [])
    (hwrap : ∀ w ∈ wrappers p, alwaysFails w = true) {tr : List Step} {r : Result}
    (hrun : Run p tr r) :
    r = .returned true ∨ ∀ s ∈ tr, s.failed = true → s.dropped = true := by
  by_cases hr : r = .returned true
  · exact Or.inl hr
  · refine Or.inr fun s hs hf => ?_
    have := success_means_no_failure hchk hwrap hrun hr s hs
    simpa [Step.isFailure, hf] using this

/-- … and EVERY failure of a discarded call goes unnoticed, in any program: changing which discarded
    calls fail changes neither the calls made nor the result -/
theorem dropped_unnoticed {p : Prog} {tr tr' : List Step} {r : Result} (hrun : Run p tr r)
    (h : tr'.map Step.forget = tr.map Step.forget) : Run p tr' r := by
  obtain ⟨o, hex, hr⟩ := hrun
  exact ⟨o, exec_forget hex tr' h, hr⟩

/-- e.g. `{ D Close } { F Write {:err R err } } R nil` (the shape of `chunkedIntCoder.Add`): the
    discarded `Close` can fail and the function return nil -/
theorem dropped_unnoticed_example :
    let p : Prog := [.block false [.drop "Close"], .block false [.call "Write", .block true [.ret true]],
                     .ret false]
    unchecked (flat p) = [] ∧
    Run p [⟨true, "Close", true⟩, ⟨false, "Write", false⟩] (.returned false) := by
  refine ⟨by decide +kernel, ?_⟩
  exact run_Run (fuel := 10) (orc := [1, 1, 0, 1]) (orc' := []) (o := .ret false) (by decide +kernel)

/-! ### every oracle-driven run is covered -/

/-- the theorems hold for the interpreter `run` under every oracle and every amount of fuel -/
theorem checked_sound_run {p : Prog} (hchk : unchecked (flat p) = [])
    (hwrap : ∀ w ∈ wrappers p, alwaysFails w = true) {fuel : Nat} {orc orc' : Oracle}
    {tr : List Step} {o : Out} (h : run fuel orc false p = some (tr, o, orc')) :
    (AnyFailed tr → o = .ret true ∧ FailFast tr) ∧ (o ≠ .ret true → NoFail tr) := by
  have hrun := run_Run h
  refine ⟨fun hf => ?_, fun ho => ?_⟩
  · have := checked_sound hchk hwrap tr _ hrun hf
    refine ⟨?_, this.2⟩
    cases o <;> simp_all [Out.result]
  · apply success_means_no_failure hchk hwrap hrun
    cases o <;> simp_all [Out.result]

/-- hypotheses satisfiable, non-trivially: `writeToShape` is disciplined, and has a run whose footer
    write fails … -/
theorem writeToShape_disc : Disc writeToShape := by decide +kernel

theorem writeToShape_failing_run :
    Run writeToShape
      [⟨false, "WriteTo", false⟩, ⟨false, "persistFooter", true⟩, ⟨false, "Errorf", true⟩]
      (.returned true) :=
  run_Run (fuel := 10) (orc := [0, 1]) (orc' := []) (o := .ret true) (by decide +kernel)

/-- … and one that succeeds -/
theorem writeToShape_ok_run :
    Run writeToShape
      [⟨false, "WriteTo", false⟩, ⟨false, "persistFooter", false⟩, ⟨false, "Flush", false⟩]
      (.returned false) :=
  run_Run (fuel := 10) (orc := []) (orc' := []) (o := .ret false) (by decide +kernel)

/-! ## 4. a violation that loses the error (the shape of a seeded change we evaluated) -/

/-- `F f { B } {:err R err }` : a `break` between the call and its check -/
def unsoundBody : Prog := [.call "f", .block false [.jump], .block true [.ret true]]

/-- … inside a loop that is followed by `return nil`:
    `for … { err = f(); if cond { break }; if err != nil { return err } }; return nil` -/
def unsoundLoop : Prog := [.block false unsoundBody, .ret false]

/-- the checker reports `f`, and there is an execution in which `f` fails and the function returns
    nil: the failure is lost -/
theorem unsound_example :
    flat unsoundLoop =
      [("{", ""), ("F", "f"), ("{", ""), ("B", ""), ("}", ""), ("{", "err"), ("R", "err"), ("}", ""),
       ("}", ""), ("R", "nil")] ∧
    unchecked (flat unsoundLoop) = ["f"] ∧
    Run unsoundLoop [⟨false, "f", true⟩] (.returned false) := by
  refine ⟨by decide +kernel, by decide +kernel, ?_⟩
  exact run_Run (fuel := 20) (orc := [1, 1, 1, 0, 0, 2]) (orc' := []) (o := .ret false)
    (by decide +kernel)

/-- the same by hand, as a derivation of `Exec` (no interpreter involved) -/
theorem unsound_example_exec : Exec false unsoundLoop [⟨false, "f", true⟩] (.ret false) := by
  have hbody : Exec false unsoundBody [⟨false, "f", true⟩] (.jump true) :=
    .callFail (.blockJumpOut (fun h => by cases h) .jump)
  have := Exec.blockJumpResume (g := false) (rest := [.ret false]) (fun h => by cases h) hbody
    (List.suffix_refl _) (Exec.retNil (e := true) (rest := []))
  simpa [unsoundLoop] using this

/-- the three statements alone, as given: `f` fails, the jump lands behind the check, and the function
    falls off its end without returning the error -/
theorem unsound_example_literal :
    unchecked (flat unsoundBody) = ["f"] ∧ Run unsoundBody [⟨false, "f", true⟩] .fellOff := by
  refine ⟨by decide +kernel, ?_⟩
  exact run_Run (fuel := 20) (orc := [1, 1, 0, 3]) (orc' := []) (o := .norm true)
    (by decide +kernel)

/-- hence `unsoundLoop` is not sound, and the checker is right to report it -/
theorem unsound_not_sound : ¬ Sound unsoundLoop := by
  intro h
  have := (h _ _ unsound_example.2.2 ⟨⟨false, "f", true⟩, by simp, rfl⟩).1
  cases this

/-- with the check moved in front of the `break` the checker is silent and the loop is sound -/
theorem repaired_sound :
    Sound [.block false [.call "f", .block true [.ret true], .block false [.jump]], .ret false] :=
  sound_of_disc (by decide +kernel)

/-! ## 5. areas

  An area module fixes a list of function names `fns`, restricts the generated table to them
  (`restrict flows fns`), and proves for the restricted table: all names present, all flows parse, all
  wrappers are `Errorf`, the pinned unchecked / discarded lists, and `Sound` for every function without
  an unchecked call.  The generic step is: -/

/-- if every function of `names` has a disciplined program in the table `fl`, each is sound -/
theorem sound_of_disc_all {fl : Flows} {names : List String}
    (h : ∀ n ∈ names, Disc (progIn fl n)) : ∀ n ∈ names, Sound (progIn fl n) :=
  fun n hn => sound_of_disc (h n hn)

end Ice.Props.ErrFlow
