import IceModel.Spec.Seg
import IceModel.Lemmas.Merge
/-
  Property C03 (old → new document numbers) on the specification level: `Spec.merge` defines the
  merged documents as the concatenation of the survivors and, independently, the number maps by a
  running counter (`remapAll`).  The theorems relate the two.
-/
namespace Ice.Props.C03
open Ice Ice.Spec

/-- a deletion list names existing documents only, each once (a bitmap ⊆ the segment) -/
def ValidDrops (n : Nat) (d : List Nat) : Prop := d.Nodup ∧ ∀ x ∈ d, x < n

/-- entry `d` of the map of input segment `i` -/
def lookup (dn : List (List (Option Nat))) (i d : Nat) : Option (Option Nat) :=
  (dn[i]?).bind (fun l => l[d]?)

/-- closed form of `lookup` on the maps of a merge -/
theorem lookup_merge (m : Nat) (ins : List (AbsSeg × List Nat)) (i d : Nat) (s : AbsSeg)
    (drops : List Nat) (hi : ins[i]? = some (s, drops)) :
    lookup (merge m ins).2 i d =
      if d < s.docs.length then
        some (if drops.contains d then none
              else some (((ins.take i).map (fun p => liveCount p.2 p.1.docs.length)).sum + liveCount drops d))
      else none := by
  simp only [lookup, merge_maps, getElem?_remapAll, List.getElem?_map, hi, Option.map_some,
    Option.bind_some, getElem?_remapList, ← List.map_take, List.map_map, Nat.zero_add]
  rfl

/-- one map per input segment, as long as the segment -/
theorem C03_shape (m : Nat) (ins : List (AbsSeg × List Nat)) :
    (merge m ins).2.map List.length = ins.map (fun p => p.1.docs.length) := by
  rw [merge_maps, map_length_remapAll, List.map_map]; rfl

/-- exactly the deleted documents carry the dropped sentinel -/
theorem C03_dropped (m : Nat) (ins : List (AbsSeg × List Nat)) (i d : Nat) (s : AbsSeg)
    (drops : List Nat) (hi : ins[i]? = some (s, drops)) (hd : d < s.docs.length) :
    lookup (merge m ins).2 i d = some none ↔ d ∈ drops := by
  rw [lookup_merge m ins i d s drops hi, if_pos hd]
  by_cases h : d ∈ drops <;> simp [h]

/-- survivors are numbered 0,1,2,… consecutively in (segment, document) order, and there are
    exactly `Count()` of them -/
theorem C03_consecutive (m : Nat) (ins : List (AbsSeg × List Nat)) :
    (merge m ins).2.flatten.filterMap id = List.range (numDocs (merge m ins).1) := by
  rw [merge_maps, filterMap_remapAll, numDocs_merge, List.range_eq_range', List.map_map]; rfl

/-- the merged segment's Count equals the number of survivors -/
theorem C03_count (m : Nat) (ins : List (AbsSeg × List Nat))
    (h : ∀ p ∈ ins, ValidDrops p.1.docs.length p.2) :
    numDocs (merge m ins).1 = (ins.map (fun p => p.1.docs.length - p.2.length)).sum := by
  rw [numDocs_merge]
  congr 1
  apply List.map_congr_left
  intro p hp
  exact liveCount_valid _ _ (h p hp).1 (h p hp).2

/-- the content of every surviving old document is found at exactly its reported new number -/
theorem C03_content (m : Nat) (ins : List (AbsSeg × List Nat)) (i d k : Nat) (s : AbsSeg)
    (drops : List Nat) (hi : ins[i]? = some (s, drops))
    (hk : lookup (merge m ins).2 i d = some (some k)) :
    (merge m ins).1.docs[k]? = s.docs[d]? ∧ d < s.docs.length := by
  rw [lookup_merge m ins i d s drops hi] at hk
  split at hk
  · next hd =>
    refine ⟨?_, hd⟩
    simp only [Option.some.injEq] at hk
    split at hk
    · exact absurd hk (by simp)
    · next hnd =>
      simp only [Option.some.injEq] at hk
      subst hk
      have hget : (survivors s drops)[liveCount drops d]? = s.docs[d]? := by
        have := getElem?_keepP (fun i => !drops.contains i) 0 s.docs d (by simpa using hnd)
        rwa [← List.range_eq_range'] at this
      have hlt : liveCount drops d < (survivors s drops).length := by
        have h2 : (survivors s drops)[liveCount drops d]? = some s.docs[d] := by
          rw [hget, List.getElem?_eq_getElem hd]
        exact (List.getElem?_eq_some_iff.1 h2).1
      have := getElem?_flatMap_block (fun p : AbsSeg × List Nat => survivors p.1 p.2) ins i
        (liveCount drops d) (s, drops) hi hlt
      simp only [length_survivors] at this
      rw [merge_docs, this, hget]
  · exact absurd hk (by simp)

/-- non-vacuity: a two-segment merge with a deletion -/
def exSeg (n : Nat) : AbsSeg :=
  { docs := List.replicate n [], fields := [idField], fieldDocs := [0], fieldFreqs := [0], chunkMode := 1 }

example : (merge 1025 [(exSeg 2, [0]), (exSeg 1, [])]).2 = [[none, some 0], [some 1]] := by decide

end Ice.Props.C03
