import IceModel.Model.DvLoop
import IceModel.Lemmas.DvLoop
import IceModel.Lemmas.DvLoopLoad
import IceModel.Props.C07
import IceModel.Props.C04
import IceModel.Props.E2EBuild
import IceModel.Lemmas.E2EMDefs
import IceModel.Driver.Run
/-
  Property C07, the MULTI-FIELD part: a `DocumentValueReader` opened on a LIST of field names.

  `Props/C07.lean` proves the reader of one field's column; its header says "the readers of a
  DocumentValueReader for several fields are independent per-field readers, so the statement for
  a subset of fields is the conjunction of the per-field statements".  That sentence is what is
  PROVED here, for the model of the driver in `Model/DvLoop.lean` (which follows
  docvalues.go:286-362 line by line, see its header; here only the correspondence of the steps):

    Segment.DocumentValueReader(fields)        docvalues.go:357-362   `Seg.documentValueReader`
    VisitDocumentValues                        docvalues.go:348-355   `visitDoc` / `visitDocs`
    visitDocumentFieldTerms                    docvalues.go:286-340   `visitDocumentFieldTerms`
      state entry (nil / other segment)        289-294                `enterState`
      clones made when the map is nil          296-310                `startMap`, `makeClones`
      chunk factor, docInChunk                 314-318                parameter `cs`
      loop over the requested names            319-338                `visitLoop`
        unknown name skipped                   323-325
        uint16 field id                        326                    `fieldIdOf`
        clone looked up, nil skipped           327
        reload test + loadDvChunk + visit      329-336                `DocValues.Reader.visit`
        visitor called with the reader's name  268                    `Seg.nameOf`
    fieldsMap                                  load.go:127-128, new.go:276  `Seg.fieldsMap`
    fieldDvReaders                             segment.go:310-353     `Format.loadDvReaders`

  THE STATEMENT (`deliver`): every visit hands the visitor, for the requested names in REQUEST
  order, the pairs `(name, t)` for the terms `t` of the visited document in the field of that
  name, in the order of the column (ascending: the builder emits them so, `Spec.dvOf`);
  nothing for a name the segment does not know; nothing for a field without doc values; a
  name requested twice is delivered twice (`C07_multi_duplicates`: this IS what the Go code does -
  both occurrences find the same clone in the map `dvs.dvrs`, the second one with the chunk
  already loaded - there is no de-duplication of the requested list anywhere).

    C07_multi            a description `LSeg` as in `Model/Format.lean`, serialized by either writer,
                         loaded with either backing (through `C04_dv` / `C04_fields`)
    C07_multi_columns    the hypotheses of `Props/C07.lean` per field: any number of columns
                         written by either coder anywhere in one file
    C07_multi_spec       a loaded segment that `ReadsAs` an abstract segment `S`: the visits
                         deliver `Spec.dvOf` - exactly `Driver.specAnswerer.dv`
    C07_multi_reads, C07_multi_readsM   the same for `E2E.ReadsAs` / `E2EM.ReadsAsM`
    C07_multi_duplicates, C07_multi_unknown, C07_multi_append   shape of `deliver`
    C07_multi_nodup      for distinct field names: the column standing at the name
    C07_multi_state_first/_second/_later   `dvs.segment` is unset after the first call, so the
                         second call makes the clones again; kept from the third call on
    C07_multi_nfields_needed   the uint16 wrap behind the bound on the number of fields
    C07_multi_staleReader_counterexample   the seeded change C07-e
    ex*                  the three-field example (kernel-evaluated and through the theorem)

  All of them rest on `DvLoop.readDocs_spec` (`Lemmas/DvLoop.lean`), which uses of the one-field
  reader only: "from the loaded reader every sequence of visits is answered correctly"
  (`C07_visit_any_order`) and "the loaded reader has an empty cache" (`C07_roundtrip`).
  `C07_visit_after_clone` is not needed: line 307 clones the SEGMENT's reader (which no visit
  ever touches), not the previous clone.

  HYPOTHESES beyond those of the one-field theorems:
    * at most 65536 fields (`C04.Valid.nfields`, `AbsOK.nfields`): field ids are `uint16` in
      `fieldsMap` and `fieldDvReaders`;
    * `C07_multi_spec`: every field a document carries is in the field list (`AbsOK.names`;
      `Spec.build` and `Spec.merge` make it so).  Otherwise `Spec.dvOf` could be non-empty for
      a name the file does not know.
  No hypothesis on the requested list.  Distinct field names are NOT assumed: with a repeated
  name `fieldsMap` keeps the last id (`lastIdx`); `C07_multi_nodup` is the reading for distinct
  names.
-/
namespace Ice.Props.C07Multi
open Ice Ice.Spec Ice.Model Ice.Model.DocValues Ice.Model.DvLoop Ice.Model.Format
open Ice.Model.Writer (Footer)

/-! ### the specification -/

/-- a segment as the doc-value reader sees it: the field names in field-id order, each with its
    column (`none`: not indexed with doc values), as `FieldDesc.dv` in `Model/Format.lean` and
    `vals` in `Props/C07.lean` -/
abbrev Cols := List (Bytes × Option (List (Nat × List Bytes)))

/-- the terms of document `d` in the field with id `i` -/
def colTerms (fields : Cols) (i d : Nat) : List Bytes :=
  match fields[i]? with
  | some (_, some vals) => termsOf vals d
  | _ => []

/-- **what one `VisitDocumentValues(d, visitor)` call hands to the visitor** -/
def deliver (fields : Cols) (requested : List Bytes) (d : Nat) : List (Bytes × Bytes) :=
  expected (fields.map (·.1)) (colTerms fields) requested d

theorem deliver_eq (fields : Cols) (requested : List Bytes) (d : Nat) :
    deliver fields requested d =
      requested.flatMap fun n =>
        match lastIdx (fields.map (·.1)) n with
        | none => []
        | some i => (colTerms fields i d).map (fun t => (n, t)) := rfl

/-- the request is served name by name, in request order -/
theorem C07_multi_append (fields : Cols) (r1 r2 : List Bytes) (d : Nat) :
    deliver fields (r1 ++ r2) d = deliver fields r1 d ++ deliver fields r2 d := by
  simp [deliver, expected]

/-- a name requested twice is delivered twice -/
theorem C07_multi_duplicates (fields : Cols) (n : Bytes) (d : Nat) :
    deliver fields [n, n] d = deliver fields [n] d ++ deliver fields [n] d :=
  C07_multi_append fields [n] [n] d

/-- nothing for a name the segment does not know -/
theorem C07_multi_unknown (fields : Cols) (n : Bytes) (hn : n ∉ fields.map (·.1)) (d : Nat) :
    deliver fields [n] d = [] := by
  simp [deliver, expected, lastIdx_none.mpr hn]

/-- nothing for a field without doc values, the terms of the column for a field with;
    for distinct names the field of a name is the one standing there -/
theorem C07_multi_nodup (fields : Cols) (hnd : (fields.map (·.1)).Nodup) (i : Nat) (n : Bytes)
    (col : Option (List (Nat × List Bytes))) (hi : fields[i]? = some (n, col)) (d : Nat) :
    deliver fields [n] d =
      match col with
      | none => []
      | some vals => (termsOf vals d).map (fun t => (n, t)) := by
  have hl : lastIdx (fields.map (·.1)) n = some i :=
    lastIdx_of_nodup hnd (by simp [List.getElem?_map, hi])
  cases col with
  | none => simp [deliver, expected, hl, colTerms, hi]
  | some vals => simp [deliver, expected, hl, colTerms, hi]

/-- why "at most 65536 fields": the field with id 65536 gets `fieldsMap[name] = uint16(65537) = 1`
    and is then looked up as field 0 -/
theorem C07_multi_nfields_needed :
    fieldIdOf (u16 (65536 + 1)) = 0 ∧ fieldIdOf (u16 (65535 + 1)) = 65535 := by
  decide

/-! ### columns anywhere in one file (the hypotheses of `Props/C07.lean` per field) -/

/-- the hypotheses of `C07_visit_any_order` for every field that has a column; the fields
    without column have no reader -/
structure ColumnsIn (z : Codec) (cs maxDocNum : Nat) (file : Data) (fields : Cols)
    (readers : List (Option Reader)) : Prop where
  nfields : fields.length ≤ 65536
  cs_pos : 0 < cs
  len : file.bytes.length < 2 ^ 63
  nodv : ∀ (i : Nat) (name : Bytes), fields[i]? = some (name, none) →
    ∀ r0, readers[i]? ≠ some (some r0)
  dv : ∀ (i : Nat) (name : Bytes) (vals : List (Nat × List Bytes)),
    fields[i]? = some (name, some vals) →
    ∃ (m : C07.Mode) (pre suf sec : Bytes) (dvStart dvEnd : Nat) (r0 : Reader),
      C07.Valid cs maxDocNum vals ∧
      C07.writeField m z cs maxDocNum pre.length vals = .ok (sec, dvStart, dvEnd) ∧
      file.bytes = pre ++ sec ++ suf ∧ 10 ≤ suf.length ∧
      loadFieldDocValueReader file dvStart dvEnd = .ok (some r0) ∧
      readers[i]? = some (some r0)

theorem segOK_columns {z : Codec} {cs maxDocNum : Nat} {file : Data} {fields : Cols}
    {readers : List (Option Reader)} (h : ColumnsIn z cs maxDocNum file fields readers) :
    SegOK z { data := file, fieldsInv := fields.map (·.1), dvReaders := readers } cs
      (· ≤ maxDocNum) (colTerms fields) := by
  intro i hi
  simp only [List.length_map] at hi
  obtain ⟨name, col⟩ := fields[i]
  have hf : fields[i]? = some fields[i] := List.getElem?_eq_getElem hi
  cases hc : fields[i] with
  | mk name col =>
    rw [hc] at hf
    cases col with
    | none =>
      have hT : ∀ d, colTerms fields i d = [] := fun d => by simp [colTerms, hf]
      have hno := h.nodv i name hf
      show match readers[i]? with
        | some (some r0) => _
        | _ => _
      cases hr : readers[i]? with
      | none => exact hT
      | some o =>
        cases o with
        | none => exact hT
        | some r0 => exact absurd hr (hno r0)
    | some vals =>
      obtain ⟨m, pre, suf, sec, dvStart, dvEnd, r0, hv, hw, hfile, hsuf, hload, hr⟩ :=
        h.dv i name vals hf
      show match readers[i]? with
        | some (some r0) => _
        | _ => _
      rw [hr]
      simp only
      obtain ⟨r0', hload', _, h1, h2, h3, h4, _⟩ :=
        C07.C07_roundtrip m z hv file pre suf sec dvStart dvEnd hw hfile hsuf h.len
      rw [hload] at hload'
      simp only [Res.ok.injEq, Option.some.injEq] at hload'
      subst hload'
      refine ⟨?_, ?_⟩
      · cases r0
        simp only [Reader.clone] at *
        simp [h1, h2, h3, h4]
      · intro ds hds
        obtain ⟨r', hr'⟩ := C07.C07_visit_any_order m z hv file pre suf sec dvStart dvEnd hw
          hfile hsuf h.len r0 hload ds hds
        refine ⟨r', ?_⟩
        rw [hr']
        have : colTerms fields i = termsOf vals := by
          funext d; simp [colTerms, hf]
        rw [this]

/-- **C07_multi_columns.**  Any number of fields, each with a column written by either coder
    anywhere in one file (or without), the per-field readers opened on them: one
    `DocumentValueReader` on ANY list of requested names (any subset, any order, duplicates,
    unknown names, names of fields without doc values), visiting ANY sequence of documents of
    the segment, delivers at every visit exactly `deliver`. -/
theorem C07_multi_columns {z : Codec} {cs maxDocNum : Nat} {file : Data} {fields : Cols}
    {readers : List (Option Reader)} (h : ColumnsIn z cs maxDocNum file fields readers)
    (requested : List Bytes) (ds : List Nat) (hds : ∀ d ∈ ds, d ≤ maxDocNum) :
    readDocs z { data := file, fieldsInv := fields.map (·.1), dvReaders := readers } cs
      requested ds = .ok (ds.map (deliver fields requested)) :=
  readDocs_spec (segOK_columns h) (by simpa using h.nfields) h.cs_pos requested ds hds

/-! ### a serialized and loaded segment (`Model/Format.lean`) -/

/-- the columns of a laid-out segment description -/
def colsOf (L : LSeg) : Cols := L.fields.map fun f => (f.name, f.dv)

theorem colsOf_names (L : LSeg) : (colsOf L).map (·.1) = L.fields.map (·.name) := by
  simp [colsOf]

/-- **C07_multi.**  For every valid segment description `L` (fields in field-id order, each with
    its doc-value column or none; `C04.Valid`), serialized by the builder or the merger and
    loaded memory- or file-backed: a `DocumentValueReader` opened on ANY list of requested
    names and visiting ANY sequence of documents of the segment delivers at every visit exactly
    `deliver`: the concatenation, over the requested names in request order, of `(name, t)` for
    `t` in the document's terms of the field of that name; nothing for unknown names and for
    fields without doc values; twice for a name requested twice. -/
theorem C07_multi (K : Codecs) (L : LSeg) (hv : C04.Valid K L) (data : Bytes) (ft : Footer)
    (hs : serialize K L = .ok (data, ft)) (mem : Bool) :
    ∃ ld, load mem (fileOf K data ft) = .ok ld ∧
      ∀ (requested : List Bytes) (ds : List Nat), (∀ d ∈ ds, d < L.numDocs) →
        readDocs K.dv (Seg.ofLoaded ld) dvChunk requested ds =
          .ok (ds.map (deliver (colsOf L) requested)) := by
  obtain ⟨ld, hl, hrl, h0, hpos⟩ := C04.C04_dv K L hv data ft hs mem
  obtain ⟨ld', hl', _, _, _, _, hfi, _⟩ := C04.C04_fields K L hv data ft hs mem
  rw [hl] at hl'
  simp only [Res.ok.injEq] at hl'
  subst hl'
  refine ⟨ld, hl, ?_⟩
  intro requested ds hds
  have hnames : (Seg.ofLoaded ld).fieldsInv = (colsOf L).map (·.1) := by
    rw [colsOf_names]; exact hfi
  have hlen : (Seg.ofLoaded ld).fieldsInv.length ≤ 65536 := by
    rw [hnames, colsOf_names, List.length_map]
    have := hv.nfields
    omega
  have hseg : SegOK K.dv (Seg.ofLoaded ld) dvChunk (· < L.numDocs) (colTerms (colsOf L)) := by
    intro i hi
    rw [hnames, colsOf_names, List.length_map] at hi
    have hf : L.fields[i]? = some L.fields[i] := List.getElem?_eq_getElem hi
    have hcol : (colsOf L)[i]? = some (L.fields[i].name, L.fields[i].dv) := by
      simp [colsOf, List.getElem?_map, hf]
    show match ld.dvReaders[i]? with
      | some (some r0) => _
      | _ => _
    by_cases hnd : L.numDocs = 0
    · -- no documents: no readers, no columns
      have hdvn : L.fields[i].dv = none :=
        (hv.empty hnd _ (List.getElem_mem hi)).2.1
      have hT : ∀ d, colTerms (colsOf L) i d = [] := fun d => by
        simp [colTerms, hcol, hdvn]
      cases hr : ld.dvReaders[i]? with
      | none => exact hT
      | some o =>
        have := h0 hnd o (List.mem_of_getElem? hr)
        subst this
        exact hT
    · obtain ⟨hnone, hsome⟩ := hpos (by omega) i _ hf
      cases hdv : L.fields[i].dv with
      | none =>
        rw [hnone hdv]
        intro d
        simp [colTerms, hcol, hdv]
      | some vals =>
        obtain ⟨r0, hr, _, h1, h2, h3, h4, hvis⟩ := hsome vals hdv
        rw [hr]
        simp only
        refine ⟨?_, ?_⟩
        · cases r0
          simp only [Reader.clone] at *
          simp [h1, h2, h3, h4]
        · intro ds hds
          obtain ⟨r', hr'⟩ := hvis ds (fun d hd => by have := hds d hd; omega)
          refine ⟨r', ?_⟩
          show Reader.visitAll K.dv ld.data dvChunk r0 ds = _
          rw [hr']
          have : colTerms (colsOf L) i = termsOf vals := by
            funext d; simp [colTerms, hcol, hdv]
          rw [this]
  have := readDocs_spec hseg hlen (by decide) requested ds hds
  rw [this, hnames]
  rfl

/-! ### against the abstract specification -/

private theorem flatMap_congr' {α β : Type} {f g : α → List β} : ∀ {l : List α},
    (∀ a ∈ l, f a = g a) → l.flatMap f = l.flatMap g
  | [], _ => rfl
  | a :: r, h => by
    simp only [List.flatMap_cons, h a (by simp),
      flatMap_congr' (l := r) (fun x hx => h x (by simp [hx]))]

/-- **C07_multi_spec.**  A loaded segment whose field names are those of the abstract segment
    `S` and whose per-field doc-value readers answer with `Spec.dvOf` (the `fields` and `dv`
    clauses of `E2E.ReadsAs` / `E2EM.ReadsAsM`): a `DocumentValueReader` on any requested list,
    visiting any sequence of documents of `S`, delivers at every visit
    `requested.flatMap fun f => (dvOf S d f).map (f, ·)`. -/
theorem C07_multi_spec (K : Codecs) (S : AbsSeg) (ld : Loaded) (mem : Bool) (file : Bytes)
    (hl : load mem file = .ok ld) (hfields : ld.fieldsInv = S.fields)
    (hdv : ∀ (i : Nat) (f : Bytes), S.fields[i]? = some f →
      ∃ ro, ld.dvReaders[i]? = some ro ∧
        match ro with
        | none => ∀ n, dvOf S n f = []
        | some r0 => ∀ ds : List Nat, (∀ d ∈ ds, d < S.docs.length) →
            ∃ r', DocValues.Reader.visitAll K.dv ld.data dvChunk r0 ds =
              .ok (ds.map (fun n => dvOf S n f), r'))
    (hnames : ∀ d ∈ S.docs, ∀ af ∈ d, af.name ∈ S.fields) (hn : S.fields.length ≤ 65536)
    (requested : List Bytes) (ds : List Nat) (hds : ∀ d ∈ ds, d < S.docs.length) :
    readDocs K.dv (Seg.ofLoaded ld) dvChunk requested ds =
      .ok (ds.map fun d => requested.flatMap fun f => (dvOf S d f).map (fun t => (f, t))) := by
  let T : Nat → Nat → List Bytes := fun i d =>
    match S.fields[i]? with
    | some f => dvOf S d f
    | none => []
  have hT : ∀ i f, S.fields[i]? = some f → T i = fun d => dvOf S d f := by
    intro i f hf; funext d; simp [T, hf]
  have hseg : SegOK K.dv (Seg.ofLoaded ld) dvChunk (· < S.docs.length) T := by
    intro i hi
    have hi' : i < S.fields.length := by rw [← hfields]; exact hi
    have hf : S.fields[i]? = some S.fields[i] := List.getElem?_eq_getElem hi'
    obtain ⟨ro, hro, hm⟩ := hdv i _ hf
    show match ld.dvReaders[i]? with
      | some (some r0) => _
      | _ => _
    rw [hro]
    cases ro with
    | none =>
      simp only at hm ⊢
      intro d; rw [hT i _ hf]; exact hm d
    | some r0 =>
      simp only at hm ⊢
      refine ⟨load_fresh hl i r0 hro, ?_⟩
      intro ds hds
      obtain ⟨r', hr'⟩ := hm ds hds
      refine ⟨r', ?_⟩
      show Reader.visitAll K.dv ld.data dvChunk r0 ds = _
      rw [hr', hT i _ hf]
  have := readDocs_spec hseg (by show ld.fieldsInv.length ≤ 65536; rw [hfields]; exact hn)
    (by decide) requested ds hds
  rw [this]
  congr 1
  apply List.map_congr_left
  intro d _
  show expected ld.fieldsInv T requested d = _
  unfold expected
  apply flatMap_congr'
  intro f _
  rw [hfields]
  cases hlf : lastIdx S.fields f with
  | none =>
    -- a name the segment does not know: no document carries it
    have hnf : f ∉ S.fields := lastIdx_none.mp hlf
    have : dvOf S d f = [] := by
      unfold dvOf
      cases hd : S.docs[d]? with
      | none => rfl
      | some doc =>
        simp only
        have : doc.field? f = none := by
          unfold ADoc.field?
          rw [List.find?_eq_none]
          intro af haf
          have := hnames doc (List.mem_of_getElem? hd) af haf
          simp only [beq_iff_eq]
          intro e; exact hnf (e ▸ this)
        rw [this]
    rw [this]; rfl
  | some i =>
    obtain ⟨_, hfi⟩ := lastIdx_some hlf
    simp only [hT i f hfi]

/-- the right-hand side of `C07_multi_spec` is the doc-value answer of the specification the
    correspondence harness compares the Go library with -/
theorem specAnswerer_dv (S : AbsSeg) (requested : List Bytes) (ds : List Nat) :
    Ice.Driver.specAnswerer.dv S requested ds =
      ds.map fun d => requested.flatMap fun f => (dvOf S d f).map (fun t => (f, t)) := rfl

/-- `C07_multi_spec` for a segment that `ReadsAs` (`E2E_read`: the builder path, `E2E_new`) -/
theorem C07_multi_reads {K : Codecs} {S : AbsSeg} {ld : Loaded} {mem : Bool} {file : Bytes}
    (hl : load mem file = .ok ld) (h : E2E.ReadsAs K S ld)
    (hnames : ∀ d ∈ S.docs, ∀ af ∈ d, af.name ∈ S.fields) (hn : S.fields.length ≤ 65536)
    (requested : List Bytes) (ds : List Nat) (hds : ∀ d ∈ ds, d < S.docs.length) :
    readDocs K.dv (Seg.ofLoaded ld) dvChunk requested ds =
      .ok (Ice.Driver.specAnswerer.dv S requested ds) :=
  C07_multi_spec K S ld mem file hl h.fields.1 h.dv hnames hn requested ds hds

/-- `C07_multi_spec` for a segment that `ReadsAsM` (the merger path; `AbsOK` gives the two
    side conditions) -/
theorem C07_multi_readsM {K : Codecs} {S : AbsSeg} {ld : Loaded} {mem : Bool} {file : Bytes}
    (hl : load mem file = .ok ld) (h : E2EM.ReadsAsM K S ld) (hA : E2EM.AbsOK S)
    (requested : List Bytes) (ds : List Nat) (hds : ∀ d ∈ ds, d < S.docs.length) :
    readDocs K.dv (Seg.ofLoaded ld) dvChunk requested ds =
      .ok (Ice.Driver.specAnswerer.dv S requested ds) :=
  C07_multi_spec K S ld mem file hl h.fields.1 h.dv hA.names
    (by have := hA.nfields; omega) requested ds hds

/-! ### what `docVisitState` keeps between the calls -/

/-- after the first call of a new `DocumentValueReader` the state's `segment` is still nil
    (docvalues.go:290 creates the state without it) … -/
theorem C07_multi_state_first (z : Codec) (s : Seg) (cs : Nat) (requested : List Bytes) (d : Nat)
    (st : Option VisitState) (out : List (Bytes × Bytes))
    (h : visitDoc z s cs none requested d = .ok (st, out)) :
    ∃ v, st = some v ∧ v.segSet = false := by
  unfold visitDoc visitDocumentFieldTerms at h
  simp only [enterState] at h
  split at h
  · rename_i r hr
    split at hr
    · cases hr
    · split at hr
      · simp only [Res.ok.injEq] at hr
        subst hr
        simp only [Res.ok.injEq, Prod.mk.injEq] at h
        exact ⟨_, h.1.symm, rfl⟩
      · cases hr
      · cases hr
  · cases h
  · cases h

/-- … so the second call sets it and makes the clones AGAIN (lines 291-310): whatever the first
    call loaded is dropped … -/
theorem C07_multi_state_second (s : Seg) (requested : List Bytes) (v : VisitState)
    (h : v.segSet = false) :
    enterState (some v) = { segSet := true, dvrs := none } ∧
    startMap s requested (enterState (some v)) = makeClones s requested [] := by
  simp [enterState, h, startMap]

/-- … and from then on the clones are kept -/
theorem C07_multi_state_later (s : Seg) (requested : List Bytes) (v : VisitState) (m : DvMap)
    (h : v.segSet = true) (hm : v.dvrs = some m) :
    enterState (some v) = v ∧ startMap s requested (enterState (some v)) = m := by
  simp [enterState, h, startMap, hm]

/-! ### a concrete instance

  Three fields: `color` (doc values, written by the builder's coder), `note` (no doc values),
  `size` (doc values, written by the merger's coder); two documents; chunk size 1, so the two
  documents lie in different chunks and every change of document reloads.  `price` is not a
  field of the segment.  Codec and framing as in `Props/C07.lean`. -/

def fColor : Bytes := [99, 111, 108, 111, 114]
def fNote : Bytes := [110, 111, 116, 101]
def fSize : Bytes := [115, 105, 122, 101]
def fPrice : Bytes := [112, 114, 105, 99, 101]
def tRed : Bytes := [114, 101, 100]
def tBlue : Bytes := [98, 108, 117, 101]
def tXl : Bytes := [120, 108]

/-- document 0 is red; document 1 is blue and red and has size xl -/
def exColor : List (Nat × List Bytes) := [(0, [tRed]), (1, [tBlue, tRed])]
def exSize : List (Nat × List Bytes) := [(1, [tXl])]
def exCols : Cols := [(fColor, some exColor), (fNote, none), (fSize, some exSize)]

def exPre : Bytes := [42, 42, 42]
def exSecColor : Bytes :=
  [1, 0, 4, 7, 255, 100, 101, 114, 1, 1, 9, 7, 255, 100, 101, 114, 255, 101, 117, 108, 98, 8, 21,
   0, 0, 0, 0, 0, 0, 0, 2, 0, 0, 0, 0, 0, 0, 0, 2]
def exSecSize : Bytes :=
  [0, 1, 1, 3, 7, 255, 108, 120, 1, 8, 0, 0, 0, 0, 0, 0, 0, 2, 0, 0, 0, 0, 0, 0, 0, 2]
def exSuf : Bytes := List.replicate 10 99

def exFile (mem : Bool) : Data :=
  { bytes := exPre ++ exSecColor ++ exSecSize ++ exSuf, mem := mem }

def exRColor : Reader :=
  { curChunkNum := maxInt64, chunkOffsets := [8, 21], dvDataLoc := 3,
    curChunkHeader := [], curChunkData := none, uncompressed := [] }
def exRSize : Reader :=
  { curChunkNum := maxInt64, chunkOffsets := [1, 8], dvDataLoc := 42,
    curChunkHeader := [], curChunkData := none, uncompressed := [] }

def exReaders : List (Option Reader) := [some exRColor, none, some exRSize]

def exSeg (mem : Bool) : Seg :=
  { data := exFile mem, fieldsInv := exCols.map (·.1), dvReaders := exReaders }

/-- the request of the brief: `color`, `price` (unknown), `note` (no doc values), `color` again -/
def exRequest : List Bytes := [fColor, fPrice, fNote, fColor]

/-- evaluated by the kernel: documents 0, 1 and 0 again.  `color` is delivered at both places it
    is requested, nothing for `price` and `note` -/
theorem ex_eval :
    readDocs C07.exCodec (exSeg false) 1 exRequest [0, 1, 0] =
      .ok [[(fColor, tRed), (fColor, tRed)],
           [(fColor, tBlue), (fColor, tRed), (fColor, tBlue), (fColor, tRed)],
           [(fColor, tRed), (fColor, tRed)]] := by
  decide

/-- … and this is `deliver` -/
example : [0, 1, 0].map (deliver exCols exRequest) =
    [[(fColor, tRed), (fColor, tRed)],
     [(fColor, tBlue), (fColor, tRed), (fColor, tBlue), (fColor, tRed)],
     [(fColor, tRed), (fColor, tRed)]] := by
  decide

/-- another order of the names, `size` first: request order, not field order -/
example :
    readDocs C07.exCodec (exSeg true) 1 [fSize, fPrice, fColor] [1, 0] =
      .ok [[(fSize, tXl), (fColor, tBlue), (fColor, tRed)], [(fColor, tRed)]] := by
  decide

/-- the state between the calls: after the first visit `segment` is unset and the clone of
    `color` holds chunk 0; the second visit (of the same document!) starts from fresh clones -/
example :
    (match visitDocs C07.exCodec (exSeg false) 1 [fColor] none [0] with
     | .ok (some v, _) =>
       some (v.segSet, (v.dvrs.getD []).map (fun p => (p.1, p.2.curChunkNum)),
             (startMap (exSeg false) [fColor] (enterState (some v))).map
               (fun p => (p.1, p.2.curChunkNum)))
     | _ => none) = some (false, [(0, 0)], [(0, maxInt64)]) := by
  decide

theorem exColor_valid : C07.Valid 1 1 exColor := by
  refine ⟨by decide, by simp [exColor], by simp [exColor], by decide, ?_, ?_⟩
  · simp [C07.rawSize, exColor, encVals, dataOf, docBytes, tRed, tBlue]
  · intro q hq
    simp only [exColor, List.mem_cons, List.not_mem_nil, or_false] at hq
    rcases hq with h | h <;> subst h <;> intro t ht <;>
      simp only [List.mem_cons, List.not_mem_nil, or_false] at ht <;>
      (try rcases ht with h | h) <;> subst_vars <;> decide

theorem exSize_valid : C07.Valid 1 1 exSize := by
  refine ⟨by decide, by simp [exSize], by simp [exSize], by decide, ?_, ?_⟩
  · simp [C07.rawSize, exSize, encVals, dataOf, docBytes, tXl]
  · intro q hq
    simp only [exSize, List.mem_cons, List.not_mem_nil, or_false] at hq
    subst hq
    intro t ht
    simp only [List.mem_cons, List.not_mem_nil, or_false] at ht
    subst ht; decide

/-- the hypotheses of `C07_multi_columns` hold for the example (both backings): `color` was
    written by the builder's coder at offset 3, `size` by the merger's at offset 42 -/
theorem ex_columnsIn (mem : Bool) :
    ColumnsIn C07.exCodec 1 1 (exFile mem) exCols exReaders := by
  refine ⟨by decide, by decide, by show (exPre ++ exSecColor ++ exSecSize ++ exSuf).length < _; decide,
    ?_, ?_⟩
  · intro i name hi r0
    rcases i with _ | _ | _ | i
    · simp [exCols] at hi
    · simp [exReaders]
    · simp [exCols] at hi
    · simp [exCols] at hi
  · intro i name vals hi
    rcases i with _ | _ | _ | i
    · simp only [exCols, List.getElem?_cons_zero, Option.some.injEq, Prod.mk.injEq] at hi
      obtain ⟨_, hv⟩ := hi
      subst hv
      refine ⟨.builder, exPre, exSecSize ++ exSuf, exSecColor, 3, 42, exRColor, exColor_valid, ?_,
        by simp [exFile], by decide, by cases mem <;> decide, rfl⟩
      simp [C07.writeField, buildField, Coder.new, addAll, Coder.add, Coder.flush, Coder.write,
        exColor, encVals, docBytes, two64, putUvarint_small, encDeltas, sub64, add64, endOffsets,
        C07.exCodec, Writer.be, exSecColor, exPre, tRed, tBlue]
    · simp [exCols] at hi
    · simp only [exCols, List.getElem?_cons_succ, List.getElem?_cons_zero, Option.some.injEq,
        Prod.mk.injEq] at hi
      obtain ⟨_, hv⟩ := hi
      subst hv
      refine ⟨.merger, exPre ++ exSecColor, exSuf, exSecSize, 42, 68, exRSize, exSize_valid, ?_,
        by simp [exFile], by decide, by cases mem <;> decide, rfl⟩
      simp [C07.writeField, mergeField, Coder.new, addAll, Coder.add, Coder.flush, Coder.write,
        exSize, encVals, docBytes, two64, putUvarint_small, encDeltas, sub64, add64, endOffsets,
        C07.exCodec, Writer.be, exSecSize, exSecColor, exPre, tXl]
    · simp [exCols] at hi

/-- the same instance through the theorem: ANY request and ANY order of visits -/
theorem ex_any (mem : Bool) (requested : List Bytes) (ds : List Nat) (hds : ∀ d ∈ ds, d ≤ 1) :
    readDocs C07.exCodec (exSeg mem) 1 requested ds = .ok (ds.map (deliver exCols requested)) :=
  C07_multi_columns (ex_columnsIn mem) requested ds hds

/-- `C07_multi` applies to the serialized two-field segment of `Props/C04.lean` (`_id` without,
    `f` with doc values; chunk size 1024): its hypotheses are satisfiable -/
example := C07_multi C04.exK C04.exL C04.ex_valid C04.exData C04.exFooter C04.ex_serialize false

set_option maxRecDepth 100000 in
/-- … and evaluated on the loaded segment: `f`, an unknown name, `_id`, `f` over documents 2, 0, 1 -/
example :
    readDocs C04.exK.dv (Seg.ofLoaded (C04.exLoaded false)) dvChunk [[102], [7], idField, [102]]
      [2, 0, 1] =
      .ok [[([102], [97]), ([102], [97])], [([102], [97]), ([102], [97])],
           [([102], [97]), ([102], [98]), ([102], [97]), ([102], [98])]] := by
  decide

/-! ### the seeded change C07-e -/

/-- **C07_multi_staleReader_counterexample.**  With the reader variable NOT reset on an unknown
    name (`visitLoopStale`), requesting `color` and then the unknown `price` delivers the colour
    of document 0 twice - under the name `color` - where the code as it stands (and the
    specification) deliver it once. -/
theorem C07_multi_staleReader_counterexample :
    readDocsStale C07.exCodec (exSeg false) 1 [fColor, fPrice] [0] =
      .ok [[(fColor, tRed), (fColor, tRed)]] ∧
    readDocs C07.exCodec (exSeg false) 1 [fColor, fPrice] [0] = .ok [[(fColor, tRed)]] ∧
    [0].map (deliver exCols [fColor, fPrice]) = [[(fColor, tRed)]] := by
  refine ⟨by decide, by decide, by decide⟩

/-- the changed loop therefore violates the statement of `C07_multi_columns` on an instance
    satisfying all its hypotheses -/
theorem C07_multi_staleReader_violates :
    ¬ ∀ (requested : List Bytes) (ds : List Nat), (∀ d ∈ ds, d ≤ 1) →
      readDocsStale C07.exCodec (exSeg false) 1 requested ds =
        .ok (ds.map (deliver exCols requested)) := by
  intro h
  have := h [fColor, fPrice] [0] (by decide)
  revert this
  decide

/-- a known field without doc values does reset the variable (`dvr = dvs.dvrs[id]` is nil), and
    so does every known name: only unknown names repeat the previous field -/
example :
    readDocsStale C07.exCodec (exSeg false) 1 [fPrice, fColor, fPrice, fNote, fPrice, fSize, fPrice]
      [1] =
      .ok [[(fColor, tBlue), (fColor, tRed), (fColor, tBlue), (fColor, tRed),
            (fSize, tXl), (fSize, tXl)]] := by
  decide

end Ice.Props.C07Multi
