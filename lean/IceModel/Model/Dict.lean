import IceModel.Model.Bits
/-
  Model of dictionaries and postings-list objects (dict.go, posting.go:78-304, segment.go:236-265):
  lookups with a reused (preallocated) `PostingsList`, the scratch list of `DictionaryIterator`,
  `Count`, `OrInto`, and `DocsMatchingTerms` with its (lastField, dict) cache.

  Abstractions: a field's FST is a list of (term, value) pairs, ascending by term; a value is a
  1-hit code or the offset of a postings record in `store`.  A roaring bitmap is an ascending
  list of document numbers; `none` is the Go nil pointer.
-/
namespace Ice.Model.Dict
open Ice Ice.Model

/-- a general-encoded postings record on storage -/
structure Rec where
  freqOffset : Nat
  locOffset : Nat
  docs : List Nat
deriving Repr, DecidableEq

/-- the immutable part of a segment a dictionary needs -/
structure Seg where
  fields : List (Bytes × List (Bytes × Nat))   -- field name ↦ FST entries (term, value)
  store : Nat → Option Rec                     -- postings offset ↦ record
  chunkMode : Nat
  numDocs : Nat

/-- `PostingsList` (posting.go:79-93) -/
structure PL where
  hasSeg : Bool := false                -- sb != nil
  postingsOffset : Nat := 0
  freqOffset : Nat := 0
  locOffset : Nat := 0
  postings : Option (List Nat) := none  -- *roaring.Bitmap
  except : Option (List Nat) := none
  docNum1Hit : Nat := 0
  normBits1Hit : Nat := 0
  chunkSize : Nat := 0
deriving Repr, DecidableEq

/-- which version of the code: the two repairs that concern reuse -/
structure Version where
  readClears1Hit : Bool       -- fix 332b42f
  emptyListIsEmptyIter : Bool -- fix 6e88f49
deriving Repr, DecidableEq

def fixed : Version := { readClears1Hit := true, emptyListIsEmptyIter := true }
def v0 : Version := { readClears1Hit := false, emptyListIsEmptyIter := false }

/-- `Dictionary.postingsListInit` -/
def postingsListInit (hasSeg : Bool) (rv : Option PL) (except : Option (List Nat)) : PL :=
  match rv with
  | none => { hasSeg := hasSeg, except := except }
  | some old =>
    -- postings.Clear(); *rv = PostingsList{}; rv.postings = postings
    { hasSeg := hasSeg, except := except, postings := old.postings.map (fun _ => []) }

/-- `PostingsList.read` -/
def read (ver : Version) (s : Seg) (p : PL) (v : Nat) : Res PL :=
  let p := { p with postingsOffset := v }
  if is1Hit v then
    let (d, n) := decode1Hit v
    .ok { p with docNum1Hit := d, normBits1Hit := n }
  else
    let p := if ver.readClears1Hit then { p with docNum1Hit := 0, normBits1Hit := 0 } else p
    match s.store v with
    | none => .err                                  -- unreadable record
    | some r =>
      let loc := if r.locOffset > 0 ∧ r.freqOffset > 0 then r.locOffset + r.freqOffset else r.locOffset
      match getChunkSize s.chunkMode r.docs.length s.numDocs with
      | .ok cs => .ok { p with freqOffset := r.freqOffset, locOffset := loc, postings := some r.docs,
                               chunkSize := cs }
      | _ => .err

/-- a dictionary: `none` FST for an unknown field / a field without dictionary -/
structure Dictionary where
  hasSeg : Bool                          -- emptyDictionary has no segment
  fst : Option (List (Bytes × Nat))

/-- `Segment.dictionary` / `Segment.Dictionary` on healthy storage -/
def dictionary (s : Seg) (f : Bytes) : Dictionary :=
  match s.fields.find? (fun p => p.1 == f) with
  | none => { hasSeg := false, fst := none }
  | some p => { hasSeg := true, fst := some p.2 }

def fstGet (fst : List (Bytes × Nat)) (t : Bytes) : Option Nat :=
  (fst.find? (fun p => p.1 == t)).map (·.2)

/-- `Dictionary.postingsList` with prealloc `rv`; `emptyPostingsList` is `PL` default -/
def postingsList (ver : Version) (s : Seg) (d : Dictionary) (t : Bytes) (except : Option (List Nat))
    (rv : Option PL) : Res PL :=
  match d.fst.bind (fun fst => fstGet fst t) with
  | none =>
    match rv with
    | none => .ok {}                                 -- the shared emptyPostingsList
    | some _ => .ok (postingsListInit d.hasSeg rv except)
  | some v => read ver s (postingsListInit d.hasSeg rv except) v

/-- `PostingsList.Count` -/
def count (p : PL) : Nat :=
  if p.normBits1Hit ≠ 0 then
    1 - (match p.except with | some e => if e.contains p.docNum1Hit then 1 else 0 | none => 0)
  else match p.postings with
    | none => 0
    | some ds => ds.length - (match p.except with
                              | some e => (ds.filter (fun d => e.contains d)).length | none => 0)

/-- `PostingsList.OrInto`: the documents added to the receiver -/
def orInto (p : PL) : List Nat :=
  if p.normBits1Hit ≠ 0 then [p.docNum1Hit] else p.postings.getD []

/-- `PostingsList.Iterator`: the documents the iterator will deliver, or a fault (nil segment
    dereference in `newChunkedIntDecoder(p.sb.data, …)`) -/
def iterDocs (ver : Version) (p : PL) : Res (List Nat) :=
  let live (ds : List Nat) := match p.except with
    | none => ds
    | some e => ds.filter (fun d => !e.contains d)
  if p.normBits1Hit ≠ 0 then .ok (live [p.docNum1Hit])
  else match p.postings with
    | none => .ok []
    | some ds =>
      if ver.emptyListIsEmptyIter && ds.isEmpty then .ok []
      else if !p.hasSeg then .panic
      else .ok (live ds)

/-- everything a caller can observe of a postings list -/
def observe (ver : Version) (p : PL) : Nat × List Nat × Res (List Nat) × Nat × Nat :=
  (count p, orInto p, iterDocs ver p,
   (if p.normBits1Hit ≠ 0 then 0 else p.freqOffset), (if p.normBits1Hit ≠ 0 then 0 else p.locOffset))

/-- `DictionaryIterator.Next` over the FST entries `es`, with its scratch list `tmp`:
    the (term, count) pairs delivered -/
def dictIter (ver : Version) (s : Seg) : List (Bytes × Nat) → PL → Res (List (Bytes × Nat))
  | [], _ => .ok []
  | (t, v) :: es, tmp =>
    match read ver s tmp v with
    | .ok tmp' =>
      match dictIter ver s es tmp' with
      | .ok r => .ok ((t, count tmp') :: r)
      | e => e
    | .err => .err
    | .panic => .panic

/-- `Segment.DocsMatchingTerms` (after fix 0f30b10): fold with the (lastField, dict) cache -/
def docsMatchingFixed (s : Seg) : List (Bytes × Bytes) → Option (Bytes × Dictionary) → List Nat → Res (List Nat)
  | [], _, acc => .ok acc
  | (f, t) :: r, cache, acc =>
    let d := match cache with
      | some (lf, d) => if lf == f then d else dictionary s f
      | none => dictionary s f
    match d.fst with
    | none => docsMatchingFixed s r (some (f, d)) acc        -- unknown field: skip
    | some _ =>
      match postingsList fixed s d t none none with
      | .ok pl => docsMatchingFixed s r (some (f, d)) (acc ++ orInto pl)
      | .err => .err
      | .panic => .panic

/-- the same before the fix: `lastField` starts as "" with a nil dictionary, and a nil dictionary
    (unknown field) is dereferenced -/
def docsMatchingV0 (s : Seg) : List (Bytes × Bytes) → Bytes → Option Dictionary → List Nat → Res (List Nat)
  | [], _, _, acc => .ok acc
  | (f, t) :: r, lastField, dict, acc =>
    let dict' := if f != lastField then
        (let d := dictionary s f; if d.fst.isSome || d.hasSeg then some d else none)
      else dict
    match dict' with
    | none => .panic                                   -- dict.postingsList on a nil *Dictionary
    | some d =>
      match postingsList v0 s d t none none with
      | .ok pl => docsMatchingV0 s r f dict' (acc ++ orInto pl)
      | .err => .err
      | .panic => .panic

end Ice.Model.Dict
