import IceModel.Spec.Seg
/-
  Model of the segment builder of new.go (property C01), on the level of entries.

    convert (new.go:252-315)                 ↦ `run` (= `initFields`; `prepareDicts`; `sortKeys`;
                                                  `processDocuments`; `writeStoredFields`;
                                                  `writeDicts`; `persistFields` ↦ `Built.fieldDocs/Freqs`)
    getOrDefineField (317-336)               ↦ `getOrDefineField`
    prepareDicts (339-399)                   ↦ `prepareDicts` (`carve` = the two carving loops)
    prepareDictsForDocument (401-451)        ↦ `prepDoc` / `prepField` / `prepTerm`
    processDocuments (453-467)               ↦ `processDocuments`
    processDocument (469-553)                ↦ `processDocument` (`visitField`/`visitTerm` the roll-up,
                                                  `emitField`/`emitTerm`/`emitLoc` the walk over `fieldTFs`)
    writeStoredFields (555-637)              ↦ `writeStoredFields` / `storeDoc` / `storeField`
    writeDicts (639-685)                     ↦ `writeDicts`
    writeDictsField (687-774)                ↦ `writeDictsField`
    writeDictsTermField (776-858)            ↦ `writeDictsTermField` / `readEntries`

  Go slices that share a backing array (`FreqNorms[pid]`, `Locs[pid]`) are `Slice`s: a window
  `(off, len, cap)` into the shared backing list.  `append` writes the cell `off+len` whenever
  `len < cap` - there is no check against the window's *reservation*, so a window that outgrows
  what pass 1 reserved overwrites the first cells of its neighbour, exactly as in Go.  When
  `len = cap` Go reallocates: the slice becomes `.own` and stops aliasing the backing array.

  Go maps are association lists (`AMap`); the one map whose iteration order is observable
  (`for term, tf := range tfs`, new.go:521) is iterated in the order `π docNum fieldID entries`, an
  arbitrary permutation of the entries supplied from outside.  `for k := range fieldsSeen`
  (new.go:447) only increments distinct counters and is iterated in insertion order.

  Every index / slice expression that panics in Go yields an `.error`.

  Not modelled: the byte encoding (C05-C08, C11, C12), the sync.Pool reuse of the `interim`
  (C18: the model starts from the reset state; the backing arrays have cap = len as after `make`),
  `uint64`/`int` overflow of counters, `uint32(docNum)` (fewer than 2^32 documents).  `uint16` field
  ids ARE modelled with wrap-around (`u16`).  The local `dict` of prepareDictsForDocument is a
  reference to `s.Dicts[fieldID]` in Go; the model writes it back together with `dictKeys` at the end
  of the field (nothing reads `s.Dicts[fieldID]` in between).  `docTermMap[docNum]` holds the list of
  appended terms; its Go bytes are `term ++ [0xff]` concatenated (`DocValues.docBytes`, C07).
-/
namespace Ice.Model.Builder
open Ice Ice.Spec

/-! ### plumbing -/

inductive BuildErr where
  | index (site : Nat)     -- index out of range at new.go:<site>
  | slice (site : Nat)     -- slice bounds out of range at new.go:<site>
  | vellum                 -- vellum.Builder.Insert: keys not strictly ascending
  | locField               -- a reader would index fieldsInv out of range (posting.go)
deriving DecidableEq, Repr

abbrev M := Except BuildErr

def getE {α : Type} (l : List α) (i : Nat) (site : Nat) : M α :=
  match l[i]? with
  | some a => .ok a
  | none => .error (.index site)

def setE {α : Type} (l : List α) (i : Nat) (a : α) (site : Nat) : M (List α) :=
  if i < l.length then .ok (l.set i a) else .error (.index site)

def foldlE {σ α : Type} (f : σ → α → M σ) : σ → List α → M σ
  | s, [] => .ok s
  | s, x :: r =>
    match f s x with
    | .ok s' => foldlE f s' r
    | .error e => .error e

/-- a Go map as an association list with unique keys -/
abbrev AMap (κ ν : Type) := List (κ × ν)

def aget {κ ν : Type} [DecidableEq κ] : AMap κ ν → κ → Option ν
  | [], _ => none
  | (k', v) :: r, k => if k = k' then some v else aget r k

def aset {κ ν : Type} [DecidableEq κ] : AMap κ ν → κ → ν → AMap κ ν
  | [], k, v => [(k, v)]
  | (k', v') :: r, k, v => if k = k' then (k, v) :: r else (k', v') :: aset r k v

/-- `uint16(n)` -/
def u16 (n : Nat) : Nat := n % 65536

/-- insertion into a sorted list, duplicates kept (`sort.Strings` does not remove any) -/
def insertS (x : Bytes) : List Bytes → List Bytes
  | [] => [x]
  | y :: r =>
    match Bytes.cmp x y with
    | .gt => y :: insertS x r
    | _ => x :: y :: r

/-- `sort.Strings`: the ascending permutation (equal strings are indistinguishable) -/
def sortS (l : List Bytes) : List Bytes := l.foldr insertS []

/-- `roaring.Bitmap.Add` on the ascending list of members -/
def addDoc (d : Nat) : List Nat → List Nat
  | [] => [d]
  | x :: r => if d < x then d :: x :: r else if d = x then x :: r else x :: addDoc d r

/-! ### slices over a shared backing array -/

inductive Slice (α : Type) where
  | shared (off len cap : Nat)
  | own (l : List α)
deriving Repr, DecidableEq

namespace Slice
variable {α : Type}

/-- `append(w, x)` -/
def append (w : Slice α) (backing : List α) (x : α) : Slice α × List α :=
  match w with
  | .shared off len cap =>
    if len < cap then (.shared off (len + 1) cap, backing.set (off + len) x)
    else (.own ((backing.drop off).take len ++ [x]), backing)
  | .own l => (.own (l ++ [x]), backing)

/-- `w[i]` (checked against `len`) -/
def get? (w : Slice α) (backing : List α) (i : Nat) : Option α :=
  match w with
  | .shared off len _ => if i < len then backing[off + i]? else none
  | .own l => l[i]?

/-- `w[a:b]` (checked against `cap`, as Go does: cells beyond `len` are readable) -/
def sub? (w : Slice α) (backing : List α) (a b : Nat) : Option (List α) :=
  match w with
  | .shared off _ cap => if a ≤ b ∧ b ≤ cap then some ((backing.drop (off + a)).take (b - a)) else none
  | .own l => if a ≤ b ∧ b ≤ l.length then some ((l.drop a).take (b - a)) else none

end Slice

/-! ### state -/

structure FreqNorm where
  freq : Nat
  norm : Nat
  numLocs : Nat
deriving DecidableEq, Repr, Inhabited

structure ILoc where
  fieldID : Nat
  pos : Nat
  start : Nat
  stop : Nat
deriving DecidableEq, Repr, Inhabited

/-- `tokenFreq`: frequency and `tokenLocation`s (`Loc.field` = `FieldVal`) -/
structure TokFreq where
  freq : Nat
  locs : List Loc
deriving DecidableEq, Repr, Inhabited

structure St where
  fieldsMap : AMap Bytes Nat := []           -- name ↦ field id + 1
  fieldsInv : List Bytes := []
  fieldDocs : AMap Nat Nat := []
  fieldFreqs : AMap Nat Nat := []
  dicts : List (AMap Bytes Nat) := []        -- field id ↦ term ↦ postings id + 1
  dictKeys : List (List Bytes) := []
  includeDV : List Bool := []
  postings : List (List Nat) := []
  fnWins : List (Slice FreqNorm) := []
  fnBacking : List FreqNorm := []
  locWins : List (Slice ILoc) := []
  locBacking : List ILoc := []
  numTerms : List Nat := []
  numLocs : List Nat := []
deriving Repr

/-- new.go:317 -/
def getOrDefineField (s : St) (name : Bytes) : St × Nat :=
  match aget s.fieldsMap name with
  | some v => (s, u16 (v + 65535))
  | none =>
    let v := u16 (s.fieldsInv.length + 1)
    ({ s with fieldsMap := aset s.fieldsMap name v, fieldsInv := s.fieldsInv ++ [name],
              dicts := s.dicts ++ [[]], dictKeys := s.dictKeys ++ [[]] }, u16 (v + 65535))

/-- new.go:269-271 -/
def rebuildMap : AMap Bytes Nat → Nat → List Bytes → AMap Bytes Nat
  | m, _, [] => m
  | m, i, n :: r => rebuildMap (aset m n (u16 (i + 1))) (i + 1) r

/-- new.go:253-277 -/
def initFields (b : Batch) : M St :=
  let s := (getOrDefineField {} idField).1
  let s := b.foldl (fun s d => d.foldl (fun s f => (getOrDefineField s f.name).1) s) s
  match s.fieldsInv with
  | [] => .error (.slice 267)
  | h :: r =>
    let inv := h :: sortS r
    .ok { s with fieldsInv := inv, fieldsMap := rebuildMap s.fieldsMap 0 inv,
                 includeDV := List.replicate inv.length false }

/-! ### pass 1: prepareDicts -/

/-- `dict[term] - 1` in uint64, used as an index: 0 wraps to 2^64-1 and the index panics -/
def pidOf (v : Nat) (site : Nat) : M Nat := if v = 0 then .error (.index site) else .ok (v - 1)

/-- the variables touched by the `EachTerm` callback, new.go:414-440 -/
structure TermAcc where
  dict : AMap Bytes Nat
  keys : List Bytes
  numTermsLocal : Nat
  pidNext : Nat
  totLocs : Nat
  numTerms : List Nat
  numLocs : List Nat

def prepTerm (a : TermAcc) (o : TermOcc) : M TermAcc :=
  let a := { a with numTermsLocal := a.numTermsLocal + 1 }
  let (a, pidPlus1) :=
    match aget a.dict o.term with
    | some v => (a, v)
    | none =>
      ({ a with pidNext := a.pidNext + 1, dict := aset a.dict o.term (a.pidNext + 1),
                keys := a.keys ++ [o.term],
                numTerms := a.numTerms ++ [0], numLocs := a.numLocs ++ [0] }, a.pidNext + 1)
  match pidOf pidPlus1 429 with
  | .error e => .error e
  | .ok pid =>
    match getE a.numTerms pid 431 with
    | .error e => .error e
    | .ok nt =>
      match getE a.numLocs pid 437 with
      | .error e => .error e
      | .ok nl =>
        .ok { a with numTerms := a.numTerms.set pid (nt + 1),
                     numLocs := a.numLocs.set pid (nl + o.locs.length),
                     totLocs := a.totLocs + o.locs.length }

/-- `pidNext, totLocs, totTFs` of prepareDicts -/
structure Tot where
  pidNext : Nat := 0
  totLocs : Nat := 0
  totTFs : Nat := 0

/-- `m[k]++` / `m[k] += n` on a Go map -/
def addAt (m : AMap Nat Nat) (k n : Nat) : AMap Nat Nat := aset m k ((aget m k).getD 0 + n)

def seeField (seen : List Nat) (k : Nat) : List Nat := if k ∈ seen then seen else seen ++ [k]

/-- the `EachField` callback, new.go:404-445 -/
def prepField (x : St × Tot × List Nat) (f : FieldInst) : M (St × Tot × List Nat) :=
  let (s, fieldID0) := getOrDefineField x.1 f.name
  let fieldID := u16 fieldID0
  let seen := seeField x.2.2 fieldID
  let s := { s with fieldFreqs := addAt s.fieldFreqs fieldID f.length }
  match getE s.dicts fieldID 410 with
  | .error e => .error e
  | .ok dict =>
    match getE s.dictKeys fieldID 411 with
    | .error e => .error e
    | .ok keys =>
      match foldlE prepTerm { dict := dict, keys := keys, numTermsLocal := 0, pidNext := x.2.1.pidNext,
                              totLocs := x.2.1.totLocs, numTerms := s.numTerms, numLocs := s.numLocs }
              f.terms with
      | .error e => .error e
      | .ok a =>
        match setE s.dictKeys fieldID a.keys 444 with
        | .error e => .error e
        | .ok dk =>
          .ok ({ s with dicts := s.dicts.set fieldID a.dict, dictKeys := dk,
                        numTerms := a.numTerms, numLocs := a.numLocs },
               { pidNext := a.pidNext, totLocs := a.totLocs, totTFs := x.2.1.totTFs + a.numTermsLocal },
               seen)

/-- new.go:401-451 -/
def prepDoc (x : St × Tot) (d : Doc) : M (St × Tot) :=
  match foldlE prepField (x.1, x.2, []) d with
  | .error e => .error e
  | .ok (s, t, seen) => .ok ({ s with fieldDocs := seen.foldl (fun m k => addAt m k 1) s.fieldDocs }, t)

/-- the carving loops new.go:376-380 / 394-398: `wins[pid] = cur[0:0]; cur = cur[n:]` where
    `cur = backing[off : off+len]` with capacity `cap` -/
def carve {α : Type} (site : Nat) : List (Slice α) → Nat → Nat → Nat → Nat → List Nat → M (List (Slice α))
  | wins, _, _, _, _, [] => .ok wins
  | wins, off, len, cap, pid, n :: r =>
    match setE wins pid (.shared off 0 cap) site with
    | .error e => .error e
    | .ok wins => if n ≤ len then carve site wins (off + n) (len - n) (cap - n) (pid + 1) r
                  else .error (.slice (site + 1))

/-- new.go:339-399 -/
def prepareDicts (s : St) (b : Batch) : M St :=
  match foldlE prepDoc (s, {}) b with
  | .error e => .error e
  | .ok (s, t) =>
    let n := t.pidNext
    match carve 378 (List.replicate n (.own [])) 0 t.totTFs t.totTFs 0 s.numTerms with
    | .error e => .error e
    | .ok fw =>
      match carve 396 (List.replicate n (.own [])) 0 t.totLocs t.totLocs 0 s.numLocs with
      | .error e => .error e
      | .ok lw =>
        .ok { s with postings := List.replicate n [],
                     fnWins := fw, fnBacking := List.replicate t.totTFs default,
                     locWins := lw, locBacking := List.replicate t.totLocs default }

/-- new.go:281-283 -/
def sortKeys (s : St) : St := { s with dictKeys := s.dictKeys.map sortS }

/-! ### pass 2: processDocuments -/

/-- the `EachTerm` callback of visitField, new.go:481-511.  `v0 = true` is the code before commit
    6eca540: the locations of a term met again got `field.Name()` as their field. -/
def visitTerm (v0 : Bool) (fname : Bytes) (tfs : AMap Bytes TokFreq) (o : TermOcc) : AMap Bytes TokFreq :=
  match aget tfs o.term with
  | some tf =>
    let more := if v0 then o.locs.map (fun l => { l with field := fname }) else o.locs
    aset tfs o.term { freq := tf.freq + o.freq, locs := tf.locs ++ more }
  | none => aset tfs o.term { freq := o.freq, locs := o.locs }

/-- visitField, new.go:472-512; a nil `tokenFrequencies` is the empty map -/
def visitField (v0 : Bool) (x : St × List Nat × List (AMap Bytes TokFreq)) (f : FieldInst) :
    M (St × List Nat × List (AMap Bytes TokFreq)) :=
  let (s, fieldID0) := getOrDefineField x.1 f.name
  let fieldID := u16 fieldID0
  match getE x.2.1 fieldID 474 with
  | .error e => .error e
  | .ok len =>
    match getE x.2.2 fieldID 476 with
    | .error e => .error e
    | .ok tfs =>
      .ok (s, x.2.1.set fieldID (len + f.length),
           x.2.2.set fieldID (f.terms.foldl (visitTerm v0 f.name) tfs))

/-- new.go:536-547, one location appended to the local `locs` -/
def emitLoc (fieldID : Nat) (x : St × Slice ILoc) (l : Loc) : St × Slice ILoc :=
  let (s, locf) :=
    if l.field ≠ [] then
      let (s, id) := getOrDefineField x.1 l.field
      (s, u16 id)
    else (x.1, u16 fieldID)
  let (w, bk) := x.2.append s.locBacking { fieldID := locf, pos := l.pos, start := l.start, stop := l.stop }
  ({ s with locBacking := bk }, w)

/-- the body of `for term, tf := range tfs`, new.go:521-551 -/
def emitTerm (docNum fieldID norm : Nat) (dict : AMap Bytes Nat) (s : St) (e : Bytes × TokFreq) : M St :=
  match pidOf ((aget dict e.1).getD 0) 522 with
  | .error er => .error er
  | .ok pid =>
    match getE s.postings pid 523 with
    | .error er => .error er
    | .ok bs =>
      let s := { s with postings := s.postings.set pid (addDoc docNum bs) }
      match getE s.fnWins pid 526 with
      | .error er => .error er
      | .ok w =>
        let (w, bk) := w.append s.fnBacking { freq := e.2.freq, norm := norm, numLocs := e.2.locs.length }
        let s := { s with fnWins := s.fnWins.set pid w, fnBacking := bk }
        if e.2.locs.length > 0 then
          match getE s.locWins pid 534 with
          | .error er => .error er
          | .ok lw =>
            let (s, lw) := e.2.locs.foldl (emitLoc fieldID) (s, lw)
            match setE s.locWins pid lw 549 with
            | .error er => .error er
            | .ok lws => .ok { s with locWins := lws }
        else .ok s

/-- the body of `for fieldID, tfs := range fieldTFs`, new.go:517-552 -/
def emitField (nc : Bytes → Nat → Nat)
    (π : Nat → Nat → List (Bytes × TokFreq) → List (Bytes × TokFreq))
    (docNum : Nat) (lens : List Nat) (s : St) (x : AMap Bytes TokFreq × Nat) : M St :=
  let fieldID := x.2
  match getE s.dicts fieldID 518 with
  | .error e => .error e
  | .ok dict =>
    match getE s.fieldsInv fieldID 519 with
    | .error e => .error e
    | .ok name =>
      match getE lens fieldID 519 with
      | .error e => .error e
      | .ok len => foldlE (emitTerm docNum fieldID (nc name len) dict) s (π docNum fieldID x.1)

/-- new.go:469-553 -/
def processDocument (v0 : Bool) (nc : Bytes → Nat → Nat)
    (π : Nat → Nat → List (Bytes × TokFreq) → List (Bytes × TokFreq)) (numFields : Nat)
    (s : St) (x : Doc × Nat) : M St :=
  match foldlE (visitField v0) (s, List.replicate numFields 0, List.replicate numFields []) x.1 with
  | .error e => .error e
  | .ok (s, lens, tfs) => foldlE (emitField nc π x.2 lens) s tfs.zipIdx

/-- new.go:453-467 -/
def processDocuments (v0 : Bool) (nc : Bytes → Nat → Nat)
    (π : Nat → Nat → List (Bytes × TokFreq) → List (Bytes × TokFreq)) (s : St) (b : Batch) : M St :=
  foldlE (processDocument v0 nc π s.fieldsInv.length) s b.zipIdx

/-! ### stored fields -/

/-- the `EachField` callback of writeStoredFields, new.go:580-592 -/
def storeField (x : St × AMap Nat (List Bytes)) (f : FieldInst) : M (St × AMap Nat (List Bytes)) :=
  let (s, fieldID0) := getOrDefineField x.1 f.name
  let fieldID := u16 fieldID0
  let dsf := if f.store then aset x.2 fieldID ((aget x.2 fieldID).getD [] ++ [f.value]) else x.2
  if f.dv then
    match setE s.includeDV fieldID true 590 with
    | .error e => .error e
    | .ok dv => .ok ({ s with includeDV := dv }, dsf)
  else .ok (s, dsf)

/-- new.go:600-610: the (field id, value) pairs of one document in the order they are encoded -/
def storedOut (numFields : Nat) (dsf : AMap Nat (List Bytes)) : List (Nat × Bytes) :=
  (List.range numFields).flatMap fun fieldID =>
    match aget dsf (u16 fieldID) with
    | some vals => vals.map (fun v => (fieldID, v))
    | none => []

def storeDoc (x : St × List (List (Nat × Bytes))) (d : Doc) : M (St × List (List (Nat × Bytes))) :=
  match foldlE storeField (x.1, []) d with
  | .error e => .error e
  | .ok (s, dsf) => .ok (s, x.2 ++ [storedOut s.fieldsInv.length dsf])

/-- new.go:555-637 -/
def writeStoredFields (s : St) (b : Batch) : M (St × List (List (Nat × Bytes))) :=
  foldlE storeDoc (s, []) b

/-! ### dictionaries -/

/-- one posting as writeDictsTermField hands it to the encoders -/
structure RawEntry where
  doc : Nat
  freq : Nat
  norm : Nat
  locs : List ILoc
deriving DecidableEq, Repr

/-- the loop new.go:796-836 over the bitmap's members -/
def readEntries (fn : Slice FreqNorm) (fnB : List FreqNorm) (lw : Slice ILoc) (locB : List ILoc) :
    List Nat → Nat → Nat → M (List RawEntry)
  | [], _, _ => .ok []
  | d :: r, fo, lo =>
    match fn.get? fnB fo with
    | none => .error (.index 799)
    | some e =>
      if e.numLocs > 0 then
        match lw.sub? locB lo (lo + e.numLocs) with
        | none => .error (.slice 810)
        | some ls =>
          match readEntries fn fnB lw locB r (fo + 1) (lo + e.numLocs) with
          | .error er => .error er
          | .ok rest => .ok ({ doc := d, freq := e.freq, norm := e.norm, locs := ls } :: rest)
      else
        match readEntries fn fnB lw locB r (fo + 1) lo with
        | .error er => .error er
        | .ok rest => .ok ({ doc := d, freq := e.freq, norm := e.norm, locs := [] } :: rest)

/-- what one field's dictionary section contains -/
structure FieldOut where
  entries : List (Bytes × List RawEntry) := []       -- vellum insertion sequence with the postings
  dv : Option (List (Nat × List Bytes)) := none      -- the doc-value column (`vals` of C07)
deriving Repr, DecidableEq

/-- `vellum.Builder.Insert`: keys must arrive strictly ascending -/
def vellumInsert (es : List (Bytes × List RawEntry)) (t : Bytes) (p : List RawEntry) :
    M (List (Bytes × List RawEntry)) :=
  match es.getLast? with
  | none => .ok (es ++ [(t, p)])
  | some l => if Bytes.cmp l.1 t = .lt then .ok (es ++ [(t, p)]) else .error .vellum

def appendTerm (t : Bytes) (dtm : List (List Bytes)) (r : RawEntry) : M (List (List Bytes)) :=
  match getE dtm r.doc 833 with
  | .error e => .error e
  | .ok ts => .ok (dtm.set r.doc (ts ++ [t]))

/-- new.go:776-858 -/
def writeDictsTermField (s : St) (dict : AMap Bytes Nat)
    (x : List (List Bytes) × List (Bytes × List RawEntry)) (term : Bytes) :
    M (List (List Bytes) × List (Bytes × List RawEntry)) :=
  match pidOf ((aget dict term).getD 0) 778 with
  | .error e => .error e
  | .ok pid =>
    match getE s.postings pid 780 with
    | .error e => .error e
    | .ok bs =>
      match getE s.fnWins pid 782 with
      | .error e => .error e
      | .ok fn =>
        match getE s.locWins pid 785 with
        | .error e => .error e
        | .ok lw =>
          match getE s.numTerms pid 788 with
          | .error e => .error e
          | .ok _ =>
            match readEntries fn s.fnBacking lw s.locBacking bs 0 0 with
            | .error e => .error e
            | .ok es =>
              match foldlE (appendTerm term) x.1 es with
              | .error e => .error e
              | .ok dtm =>
                -- writePostings returns offset 0 for an empty bitmap (write.go:61-64)
                if bs.isEmpty then .ok (dtm, x.2)
                else
                  match vellumInsert x.2 term es with
                  | .error e => .error e
                  | .ok ents => .ok (dtm, ents)

/-- new.go:687-774 -/
def writeDictsField (s : St) (numDocs : Nat) (fieldID : Nat) (terms : List Bytes) : M FieldOut :=
  match getE s.dicts fieldID 698 with
  | .error e => .error e
  | .ok dict =>
    match foldlE (writeDictsTermField s dict) (List.replicate numDocs [], []) terms with
    | .error e => .error e
    | .ok (dtm, ents) =>
      match getE s.includeDV fieldID 745 with
      | .error e => .error e
      | .ok true => .ok { entries := ents, dv := some ((dtm.zipIdx.filter (fun p => !p.1.isEmpty)).map
                                                        (fun p => (p.2, p.1))) }
      | .ok false => .ok { entries := ents, dv := none }

/-- the body of the loop new.go:662-667 -/
def writeDictsStep (s : St) (numDocs : Nat) (acc : List FieldOut) (x : List Bytes × Nat) :
    M (List FieldOut) :=
  match writeDictsField s numDocs x.2 x.1 with
  | .error e => .error e
  | .ok fo => .ok (acc ++ [fo])

/-- new.go:639-685 -/
def writeDicts (s : St) (numDocs : Nat) : M (List FieldOut) :=
  foldlE (writeDictsStep s numDocs) [] s.dictKeys.zipIdx

/-! ### the result, as a reader sees it -/

structure FieldView where
  entries : List (Bytes × List Posting)
  dv : Option (List (Nat × List Bytes))
deriving Repr, DecidableEq

structure Built where
  fields : List Bytes
  fieldDocs : List Nat
  fieldFreqs : List Nat
  stored : List (List (Bytes × Bytes))
  dicts : List FieldView
deriving Repr, DecidableEq

def resolveILoc (inv : List Bytes) (l : ILoc) : M Loc :=
  match inv[l.fieldID]? with
  | some n => .ok { field := n, pos := l.pos, start := l.start, stop := l.stop }
  | none => .error .locField

def mapE {α β : Type} (f : α → M β) : List α → M (List β)
  | [] => .ok []
  | x :: r =>
    match f x with
    | .error e => .error e
    | .ok y => match mapE f r with
      | .error e => .error e
      | .ok ys => .ok (y :: ys)

def resolveEntry (inv : List Bytes) (r : RawEntry) : M Posting :=
  match mapE (resolveILoc inv) r.locs with
  | .error e => .error e
  | .ok ls => .ok { doc := r.doc, freq := r.freq, norm := r.norm, locs := ls }

def resolveField (inv : List Bytes) (fo : FieldOut) : M FieldView :=
  match mapE (fun (p : Bytes × List RawEntry) =>
          match mapE (resolveEntry inv) p.2 with
          | .error e => .error e
          | .ok ps => .ok (p.1, ps)) fo.entries with
  | .error e => .error e
  | .ok es => .ok { entries := es, dv := fo.dv }

/-- `convert` with norm function `nc` (returning float32 bits) and map-order supplier `π` -/
def runV (v0 : Bool) (nc : Bytes → Nat → Nat)
    (π : Nat → Nat → List (Bytes × TokFreq) → List (Bytes × TokFreq)) (b : Batch) : M Built :=
  match initFields b with
  | .error e => .error e
  | .ok s =>
    match prepareDicts s b with
    | .error e => .error e
    | .ok s =>
      match processDocuments v0 nc π (sortKeys s) b with
      | .error e => .error e
      | .ok s =>
        match writeStoredFields s b with
        | .error e => .error e
        | .ok (s, stored) =>
          match (if b.length > 0 then writeDicts s b.length
                 else .ok (List.replicate s.fieldsInv.length {})) with
          | .error e => .error e
          | .ok outs =>
            match mapE (resolveField s.fieldsInv) outs with
            | .error e => .error e
            | .ok views =>
              .ok { fields := s.fieldsInv,
                    fieldDocs := (List.range s.fieldsInv.length).map
                                   (fun i => (aget s.fieldDocs (u16 i)).getD 0),
                    fieldFreqs := (List.range s.fieldsInv.length).map
                                   (fun i => (aget s.fieldFreqs (u16 i)).getD 0),
                    stored := stored.map (fun l => l.map (fun p => (s.fieldsInv.getD p.1 [], p.2))),
                    dicts := views }

def run := runV false

/-- the identity map order -/
def idOrder : Nat → Nat → List (Bytes × TokFreq) → List (Bytes × TokFreq) := fun _ _ l => l

/-! ### observations -/

def Built.view (r : Built) (f : Bytes) : Option FieldView :=
  match r.fields.idxOf? f with
  | none => none
  | some i => r.dicts[i]?

def Built.terms (r : Built) (f : Bytes) : List Bytes :=
  match r.view f with
  | none => []
  | some v => v.entries.map (·.1)

def Built.postings (r : Built) (f t : Bytes) : List Posting :=
  match r.view f with
  | none => []
  | some v => (aget v.entries t).getD []

def Built.storedOf (r : Built) (n : Nat) : List (Bytes × Bytes) := r.stored.getD n []

def Built.dvOf (r : Built) (n : Nat) (f : Bytes) : List Bytes :=
  match r.view f with
  | none => []
  | some v => match v.dv with
    | none => []
    | some vals => (aget vals n).getD []

def Built.stats (r : Built) (numDocs : Nat) (f : Bytes) : Nat × Nat × Nat :=
  match r.fields.idxOf? f with
  | none => (0, 0, 0)
  | some i => (numDocs, r.fieldDocs.getD i 0, r.fieldFreqs.getD i 0)

end Ice.Model.Builder
